import JP.Lemmas.MergeImplCompose
import JP.Lemmas.TextClean
import JP.Lemmas.CloseMergeUtf8
import JP.Lemmas.CloseMergeParse

/-!
# The text invariant of merge results

`GoodN d n`: every raw message inside the node `n` is a well-formed syntax tree (`WFC`), every
member name of a parsed object is valid UTF-8, and the nesting depth of what `cstOf` prints is at
most `d`.  The invariant holds for freshly parsed input (`parseCst_sound`, `isValidUtf8_unquote`),
is preserved by `mergeNC` / `mergeDocsC` / `pruneC` / `pruneN` (either `mergeMerge` flag, no
duplicate-freeness needed), and implies that `cstOf true n` is well-formed, within the depth
limit and (for `WF n`) denotes `den n`.
-/

namespace JP
namespace Impl
open Value

/-! ### syntax trees: well-formed and of bounded depth -/

def GC (d : Nat) (c : Cst) : Prop := WFC c = true ∧ c.depth ≤ d
def GCL (d : Nat) (xs : List Cst) : Prop := WFCL xs = true ∧ Cst.depthL xs ≤ d
def GCM (d : Nat) (ms : List (Bytes × Cst)) : Prop := WFCM ms = true ∧ Cst.depthM ms ≤ d

theorem GCL_cons (d : Nat) (x : Cst) (xs : List Cst) : GCL d (x :: xs) ↔ GC d x ∧ GCL d xs := by
  simp only [GCL, GC, WFCL, Cst.depthL, Bool.and_eq_true, Nat.max_le]
  constructor
  · intro ⟨⟨a, b⟩, c, e⟩; exact ⟨⟨a, c⟩, b, e⟩
  · intro ⟨⟨a, c⟩, b, e⟩; exact ⟨⟨a, b⟩, c, e⟩

theorem GCM_cons (d : Nat) (k : Bytes) (v : Cst) (ms : List (Bytes × Cst)) :
    GCM d ((k, v) :: ms) ↔ validBody k = true ∧ GC d v ∧ GCM d ms := by
  simp only [GCM, GC, WFCM, Cst.depthM, Bool.and_eq_true, Nat.max_le]
  constructor
  · intro ⟨⟨⟨a, b⟩, c⟩, e, f⟩; exact ⟨a, ⟨b, e⟩, c, f⟩
  · intro ⟨a, ⟨b, e⟩, c, f⟩; exact ⟨⟨⟨a, b⟩, c⟩, e, f⟩

theorem GC_obj (d : Nat) (ms : List (Bytes × Cst)) : GC d (.obj ms) ↔ 1 ≤ d ∧ GCM (d - 1) ms := by
  simp only [GC, GCM, WFC, Cst.depth]
  constructor
  · intro ⟨a, b⟩; exact ⟨by omega, a, by omega⟩
  · intro ⟨a, b, c⟩; exact ⟨b, by omega⟩

theorem GC_arr (d : Nat) (xs : List Cst) : GC d (.arr xs) ↔ 1 ≤ d ∧ GCL (d - 1) xs := by
  simp only [GC, GCL, WFC, Cst.depth]
  constructor
  · intro ⟨a, b⟩; exact ⟨by omega, a, by omega⟩
  · intro ⟨a, b, c⟩; exact ⟨b, by omega⟩

theorem GC_litNull (d : Nat) : GC d litNull := ⟨by decide, by simp [litNull, Cst.depth]⟩

theorem GC_of_parse (bs : Bytes) (c : Cst) (h : parseCst bs = some c) : GC maxDepth c :=
  parseCst_sound bs c h

/-! ### nodes -/

mutual
def GoodN : Nat → Node → Bool
  | _, .nil => true
  | d, .raw c => WFC c && decide (c.depth ≤ d)
  | d, .doc _ ob => decide (1 ≤ d) && GoodNM (d - 1) ob
  | d, .ary ns => decide (1 ≤ d) && GoodNL (d - 1) ns
  | _, .docNil => true
  | _, .nilAry => true
def GoodNM : Nat → NMembers → Bool
  | _, [] => true
  | d, (k, n) :: ms => isValidUtf8 k && GoodN d n && GoodNM d ms
def GoodNL : Nat → List Node → Bool
  | _, [] => true
  | d, n :: ns => GoodN d n && GoodNL d ns
end

theorem GoodN_nil (d : Nat) : GoodN d .nil = true := by simp [GoodN]

theorem GoodN_raw (d : Nat) (c : Cst) : GoodN d (.raw c) = true ↔ GC d c := by
  simp [GoodN, GC]

theorem GoodNM_iff (d : Nat) : ∀ (ms : NMembers),
    GoodNM d ms = true ↔ ∀ kn ∈ ms, isValidUtf8 kn.1 = true ∧ GoodN d kn.2 = true
  | [] => by simp [GoodNM]
  | (k, n) :: ms => by
    simp only [GoodNM, Bool.and_eq_true, GoodNM_iff d ms, List.mem_cons, forall_eq_or_imp, and_assoc]

theorem GoodNL_iff (d : Nat) : ∀ (ns : List Node), GoodNL d ns = true ↔ ∀ n ∈ ns, GoodN d n = true
  | [] => by simp [GoodNL]
  | n :: ns => by simp only [GoodNL, Bool.and_eq_true, GoodNL_iff d ns, List.mem_cons, forall_eq_or_imp]

theorem GoodN_doc (d : Nat) (keys : List Bytes) (ob : NMembers) :
    GoodN d (.doc keys ob) = true ↔ 1 ≤ d ∧ GoodNM (d - 1) ob = true := by
  simp [GoodN]

theorem GoodN_ary (d : Nat) (ns : List Node) :
    GoodN d (.ary ns) = true ↔ 1 ≤ d ∧ GoodNL (d - 1) ns = true := by
  simp [GoodN]

/-! ### member-list operations keep the invariant -/

theorem mem_setN (k : Bytes) (n : Node) : ∀ (ob : NMembers) (x : Bytes × Node),
    x ∈ setN k n ob → x = (k, n) ∨ x ∈ ob
  | [], x, h => by simp only [setN, List.mem_singleton] at h; exact Or.inl h
  | (k', n') :: ms, x, h => by
    simp only [setN] at h
    split at h
    · rcases List.mem_cons.1 h with h | h
      · exact Or.inl h
      · exact Or.inr (List.mem_cons_of_mem _ h)
    · rcases List.mem_cons.1 h with h | h
      · exact Or.inr (h ▸ List.mem_cons_self ..)
      · rcases mem_setN k n ms x h with h | h
        · exact Or.inl h
        · exact Or.inr (List.mem_cons_of_mem _ h)

theorem mem_eraseN (k : Bytes) : ∀ (ob : NMembers) (x : Bytes × Node), x ∈ eraseN k ob → x ∈ ob
  | [], _, h => by simp [eraseN] at h
  | (k', n') :: ms, x, h => by
    simp only [eraseN] at h
    split at h
    · exact List.mem_cons_of_mem _ h
    · rcases List.mem_cons.1 h with h | h
      · exact h ▸ List.mem_cons_self ..
      · exact List.mem_cons_of_mem _ (mem_eraseN k ms x h)

theorem mem_of_lookupN (k : Bytes) (n : Node) : ∀ (ob : NMembers), lookupN k ob = some n → (k, n) ∈ ob
  | [], h => by simp [lookupN] at h
  | (k', n') :: ms, h => by
    simp only [lookupN] at h
    split at h
    · rename_i hk
      simp only [Option.some.injEq] at h
      subst hk; subst h
      exact List.mem_cons_self ..
    · exact List.mem_cons_of_mem _ (mem_of_lookupN k n ms h)

theorem GoodNM_setN (d : Nat) (k : Bytes) (n : Node) (ob : NMembers)
    (hk : isValidUtf8 k = true) (hn : GoodN d n = true) (ho : GoodNM d ob = true) :
    GoodNM d (setN k n ob) = true := by
  rw [GoodNM_iff] at ho ⊢
  intro x hx
  rcases mem_setN k n ob x hx with rfl | h
  · exact ⟨hk, hn⟩
  · exact ho x h

theorem GoodNM_eraseN (d : Nat) (k : Bytes) (ob : NMembers) (ho : GoodNM d ob = true) :
    GoodNM d (eraseN k ob) = true := by
  rw [GoodNM_iff] at ho ⊢
  exact fun x hx => ho x (mem_eraseN k ob x hx)

theorem GoodN_of_lookupN (d : Nat) (k : Bytes) (n : Node) (ob : NMembers) (ho : GoodNM d ob = true)
    (h : lookupN k ob = some n) : GoodN d n = true :=
  ((GoodNM_iff d ob).1 ho _ (mem_of_lookupN k n ob h)).2

theorem GoodNM_docRemoveIgnore (d : Nat) (keys : List Bytes) (ob : NMembers) (k : Bytes)
    (ho : GoodNM d ob = true) : GoodNM d (docRemoveIgnore keys ob k).2 = true := by
  simp only [docRemoveIgnore]
  split
  · exact ho
  · exact GoodNM_eraseN d k ob ho

theorem GoodNM_dropNilEntries (d : Nat) : ∀ (rest : NMembers) (keys : List Bytes) (ob : NMembers),
    GoodNM d ob = true → GoodNM d (dropNilEntries keys ob rest).2 = true
  | [], _, _, ho => by simpa [dropNilEntries] using ho
  | (k, n) :: rest, keys, ob, ho => by
    cases n with
    | nil =>
      simp only [dropNilEntries]
      exact GoodNM_dropNilEntries d rest _ _ (GoodNM_docRemoveIgnore d keys ob k ho)
    | raw c => simp only [dropNilEntries]; exact GoodNM_dropNilEntries d rest _ _ ho
    | doc ks ms => simp only [dropNilEntries]; exact GoodNM_dropNilEntries d rest _ _ ho
    | ary ns => simp only [dropNilEntries]; exact GoodNM_dropNilEntries d rest _ _ ho
    | docNil => simp only [dropNilEntries]; exact GoodNM_dropNilEntries d rest _ _ ho
    | nilAry => simp only [dropNilEntries]; exact GoodNM_dropNilEntries d rest _ _ ho

theorem GoodNM_foldl_setN (d : Nat) : ∀ (ms acc : NMembers), GoodNM d ms = true → GoodNM d acc = true →
    GoodNM d (ms.foldl (fun acc m => setN m.1 m.2 acc) acc) = true
  | [], acc, _, ha => ha
  | (k, n) :: ms, acc, hm, ha => by
    simp only [GoodNM, Bool.and_eq_true] at hm
    simp only [List.foldl_cons]
    exact GoodNM_foldl_setN d ms _ hm.2 (GoodNM_setN d k n acc hm.1.1 hm.1.2 ha)

/-! ### decoding one level -/

theorem GoodN_childOf (d : Nat) (c : Cst) (h : GC d c) : GoodN d (childOf c) = true := by
  simp only [childOf]
  split
  · exact GoodN_nil d
  · exact (GoodN_raw d c).2 h

theorem GoodNM_decodeMembers (d : Nat) : ∀ (ms : List (Bytes × Cst)) (acc : NMembers),
    GCM d ms → GoodNM d acc = true → GoodNM d (decodeMembers ms acc) = true
  | [], acc, _, ha => by simpa [decodeMembers] using ha
  | (k, v) :: ms, acc, hm, ha => by
    rw [GCM_cons] at hm
    simp only [decodeMembers]
    exact GoodNM_decodeMembers d ms _ hm.2.2
      (GoodNM_setN d _ _ acc (isValidUtf8_unquote k) (GoodN_childOf d v hm.2.1) ha)

theorem GoodN_decodeDoc (d : Nat) (ms : List (Bytes × Cst)) (h : GC d (.obj ms)) :
    GoodN d (decodeDoc ms) = true := by
  rw [GC_obj] at h
  simp only [decodeDoc, GoodN_doc]
  exact ⟨h.1, GoodNM_decodeMembers (d - 1) ms [] h.2 rfl⟩

theorem GoodNL_map_childOf (d : Nat) : ∀ (xs : List Cst), GCL d xs → GoodNL d (xs.map childOf) = true
  | [], _ => rfl
  | x :: xs, h => by
    rw [GCL_cons] at h
    simp only [List.map_cons, GoodNL, Bool.and_eq_true]
    exact ⟨GoodN_childOf d x h.1, GoodNL_map_childOf d xs h.2⟩

theorem GoodN_decodeAry (d : Nat) (xs : List Cst) (h : GC d (.arr xs)) :
    GoodN d (decodeAry xs) = true := by
  rw [GC_arr] at h
  simp only [decodeAry, GoodN_ary]
  exact ⟨h.1, GoodNL_map_childOf (d - 1) xs h.2⟩

/-! ### `pruneC`, `pruneN` -/

theorem pruneC_nonobj (c : Cst) (h : c.isObj = false) : pruneC c = .raw c := by
  cases c <;> simp [pruneC, Cst.isObj] at h ⊢

mutual
theorem GoodN_pruneC : ∀ (c : Cst) (d : Nat), GC d c → GoodN d (pruneC c) = true
  | .lit s, d, h => by rw [pruneC_nonobj _ rfl]; exact (GoodN_raw d _).2 h
  | .str s, d, h => by rw [pruneC_nonobj _ rfl]; exact (GoodN_raw d _).2 h
  | .arr xs, d, h => by rw [pruneC_nonobj _ rfl]; exact (GoodN_raw d _).2 h
  | .obj ms, d, h => by
    rw [GC_obj] at h
    have hm := GoodNM_pruneCM ms (d - 1) h.2
    simp only [pruneC, GoodN_doc]
    refine ⟨h.1, ?_⟩
    exact GoodNM_dropNilEntries (d - 1) _ _ _ (GoodNM_foldl_setN (d - 1) _ [] hm rfl)
theorem GoodNM_pruneCM : ∀ (ms : List (Bytes × Cst)) (d : Nat), GCM d ms → GoodNM d (pruneCM ms) = true
  | [], _, _ => rfl
  | (k, v) :: ms, d, h => by
    rw [GCM_cons] at h
    simp only [pruneCM, GoodNM, Bool.and_eq_true]
    refine ⟨⟨isValidUtf8_unquote k, ?_⟩, GoodNM_pruneCM ms d h.2.2⟩
    split
    · exact GoodN_nil d
    · exact GoodN_pruneC v d h.2.1
end

mutual
theorem GoodN_pruneN : ∀ (n : Node) (d : Nat), GoodN d n = true → GoodN d (pruneN n) = true
  | .nil, _, _ => by simp [pruneN, GoodN]
  | .raw c, d, h => by
    simp only [pruneN]
    exact GoodN_pruneC c d ((GoodN_raw d c).1 h)
  | .doc keys ob, d, h => by
    rw [GoodN_doc] at h
    simp only [pruneN, GoodN_doc]
    exact ⟨h.1, GoodNM_dropNilEntries (d - 1) _ _ _ (GoodNM_pruneNM ob (d - 1) h.2)⟩
  | .ary ns, _, h => by simpa [pruneN] using h
  | .docNil, _, _ => by simp [pruneN, GoodN]
  | .nilAry, _, _ => by simp [pruneN, GoodN]
theorem GoodNM_pruneNM : ∀ (ms : NMembers) (d : Nat), GoodNM d ms = true → GoodNM d (pruneNM ms) = true
  | [], _, _ => rfl
  | (k, n) :: ms, d, h => by
    simp only [GoodNM, Bool.and_eq_true] at h
    simp only [pruneNM, GoodNM, Bool.and_eq_true]
    exact ⟨⟨h.1.1, GoodN_pruneN n d h.1.2⟩, GoodNM_pruneNM ms d h.2⟩
end

/-! ### `mergeNC`, `mergeDocsC` (either flag) -/

theorem intoDoc_good (d : Nat) (cur : Node) (h : GoodN d cur = true) :
    (∃ keys ob, intoDoc cur = .ok (.doc keys ob) ∧ GoodNM (d - 1) ob = true) ∨
    (∀ keys ob, intoDoc cur ≠ .ok (.doc keys ob)) := by
  cases cur with
  | nil => right; simp [intoDoc]
  | raw c =>
    cases c with
    | lit s => right; simp [intoDoc]
    | str s => right; simp [intoDoc]
    | arr xs => right; simp [intoDoc]
    | obj ms =>
      left
      have := GoodN_decodeDoc d ms ((GoodN_raw d _).1 h)
      simp only [decodeDoc, GoodN_doc] at this
      exact ⟨_, _, rfl, this.2⟩
  | doc keys ob => left; exact ⟨keys, ob, rfl, ((GoodN_doc d keys ob).1 h).2⟩
  | ary ns => right; simp [intoDoc]
  | docNil => right; simp [intoDoc]
  | nilAry => right; simp [intoDoc]

theorem GoodNM_docSet' (d : Nat) (keys : List Bytes) (ob : NMembers) (k : Bytes) (n : Node)
    (hk : isValidUtf8 k = true) (hn : GoodN d n = true) (ho : GoodNM d ob = true) :
    GoodNM d (docSet' keys ob k n).2 = true := GoodNM_setN d k n ob hk hn ho

mutual
theorem GoodN_mergeNC (mm : Bool) : ∀ (p : Cst) (cur : Node) (d : Nat), GoodN d cur = true → GC d p →
    GoodN d (mergeNC mm cur p) = true
  | .lit s, cur, d, _, hp => by rw [mergeNC_lit]; exact (GoodN_raw d _).2 hp
  | .str s, cur, d, _, hp => by rw [mergeNC_str]; exact (GoodN_raw d _).2 hp
  | .arr xs, cur, d, _, hp => by rw [mergeNC_arr]; exact (GoodN_raw d _).2 hp
  | .obj pms, cur, d, hc, hp => by
    rcases intoDoc_good d cur hc with ⟨keys, ob, hi, ho⟩ | hi
    · rw [mergeNC_obj_of_doc mm cur pms keys ob hi, GoodN_doc]
      have hp' := (GC_obj d pms).1 hp
      exact ⟨hp'.1, GoodNM_mergeDocsC mm pms keys ob (d - 1) ho hp'.2⟩
    · rw [mergeNC_obj_of_not mm cur pms hi]
      exact GoodN_pruneC _ d hp
theorem GoodNM_mergeDocsC (mm : Bool) : ∀ (pms : List (Bytes × Cst)) (keys : List Bytes) (ob : NMembers)
    (d : Nat), GoodNM d ob = true → GCM d pms → GoodNM d (mergeDocsC mm keys ob pms).2 = true
  | [], keys, ob, d, ho, _ => by simpa [mergeDocsC] using ho
  | (k, v) :: pms, keys, ob, d, ho, hp => by
    rw [GCM_cons] at hp
    rw [mergeDocsC_cons]
    split
    · exact GoodNM_mergeDocsC mm pms keys ob d ho hp.2.2
    · refine GoodNM_mergeDocsC mm pms _ _ d ?_ hp.2.2
      have hu := isValidUtf8_unquote k
      have hfresh : GoodN d (if mm then .raw v else pruneC v) = true := by
        split
        · exact (GoodN_raw d v).2 hp.2.1
        · exact GoodN_pruneC v d hp.2.1
      cases hv : v.isNullLit with
      | true =>
        rw [mergeStep_null mm keys ob k v hv]
        split
        · exact GoodNM_setN d _ .nil ob hu (GoodN_nil d) ho
        · exact GoodNM_docRemoveIgnore d keys ob _ ho
      | false =>
        cases hl : lookupN (unquote k) ob with
        | none =>
          rw [mergeStep_absent mm keys ob k v hv (Or.inl hl)]
          exact GoodNM_docSet' d keys ob _ _ hu hfresh ho
        | some c =>
          cases hn : isNil c with
          | true =>
            have hcn : c = .nil := by cases c <;> simp [isNil] at hn; rfl
            rw [mergeStep_absent mm keys ob k v hv (Or.inr (hcn ▸ hl))]
            exact GoodNM_docSet' d keys ob _ _ hu hfresh ho
          | false =>
            rw [mergeStep_some mm keys ob k v c hv hl hn]
            exact GoodNM_docSet' d keys ob _ _ hu
              (GoodN_mergeNC mm v c d (GoodN_of_lookupN d _ c ob ho hl) hp.2.1) ho
end

/-! ### what `cstOf true` prints for a good node -/

theorem lookupC_cons (k k' : Bytes) (c : Cst) (ms : List (Bytes × Cst)) :
    lookupC k ((k', c) :: ms) = if k' = k then some c else lookupC k ms := rfl

theorem WFCM_map_keys (f : Bytes → Cst) : ∀ (keys : List Bytes), (∀ k ∈ keys, WFC (f k) = true) →
    WFCM (keys.map fun k => (quoteBody true k, f k)) = true
  | [], _ => rfl
  | k :: ks, h => by
    simp only [List.map_cons, WFCM, Bool.and_eq_true]
    exact ⟨⟨(validBody_iff _).2 (VB_quoteBody true k), h k (List.mem_cons_self ..)⟩,
      WFCM_map_keys f ks fun k' hk' => h k' (List.mem_cons_of_mem _ hk')⟩

theorem depthM_map_keys (g : Bytes → Bytes) (f : Bytes → Cst) (d : Nat) : ∀ (keys : List Bytes),
    (∀ k ∈ keys, (f k).depth ≤ d) → Cst.depthM (keys.map fun k => (g k, f k)) ≤ d
  | [], _ => by simp [Cst.depthM]
  | k :: ks, h => by
    simp only [List.map_cons, Cst.depthM, Nat.max_le]
    exact ⟨h k (List.mem_cons_self ..), depthM_map_keys g f d ks fun k' hk' => h k' (List.mem_cons_of_mem _ hk')⟩

mutual
theorem GC_cstOf : ∀ (n : Node) (d : Nat), GoodN d n = true → GC d (cstOf true n)
  | .nil, d, _ => by simp only [cstOf]; exact GC_litNull d
  | .raw c, d, h => by
    have hc := (GoodN_raw d c).1 h
    simp only [cstOf]
    exact ⟨WFC_escape true c hc.1, by rw [depth_escape]; exact hc.2⟩
  | .doc keys ob, d, h => by
    rw [GoodN_doc] at h
    have hm := GC_cstOfM ob (d - 1) h.2
    simp only [cstOf]
    rw [GC_obj]
    exact ⟨h.1, WFCM_map_keys _ keys (fun k _ => (hm k).1),
      depthM_map_keys _ _ _ keys (fun k _ => (hm k).2)⟩
  | .ary ns, d, h => by
    rw [GoodN_ary] at h
    simp only [cstOf]
    rw [GC_arr]
    exact ⟨h.1, GC_cstOfL ns (d - 1) h.2⟩
  | .docNil, d, _ => by simp only [cstOf]; exact GC_litNull d
  | .nilAry, d, _ => by simp only [cstOf]; exact GC_litNull d
theorem GC_cstOfM : ∀ (ob : NMembers) (d : Nat), GoodNM d ob = true →
    ∀ k, GC d ((lookupC k (cstOfM true ob)).getD litNull)
  | [], d, _, k => by simp only [cstOfM, lookupC, Option.getD_none]; exact GC_litNull d
  | (k', n) :: ms, d, h, k => by
    simp only [GoodNM, Bool.and_eq_true] at h
    simp only [cstOfM, lookupC_cons]
    split
    · simp only [Option.getD_some]; exact GC_cstOf n d h.1.2
    · exact GC_cstOfM ms d h.2 k
theorem GC_cstOfL : ∀ (ns : List Node) (d : Nat), GoodNL d ns = true → GCL d (cstOfL true ns)
  | [], _, _ => ⟨rfl, by simp [cstOfL, Cst.depthL]⟩
  | n :: ns, d, h => by
    simp only [GoodNL, Bool.and_eq_true] at h
    simp only [cstOfL]
    rw [GCL_cons]
    exact ⟨GC_cstOf n d h.1, GC_cstOfL ns d h.2⟩
end

/-- the output text of a good node parses back to the tree that was printed -/
theorem parse_print_cstOf (n : Node) (h : GoodN maxDepth n = true) :
    parseCst (Cst.print (cstOf true n)) = some (cstOf true n) :=
  parse_print _ (GC_cstOf n maxDepth h).1 (GC_cstOf n maxDepth h).2

/-! ### … and it denotes `den n` -/

theorem cstOfM_keys' (e : Bool) : ∀ (ob : NMembers), (cstOfM e ob).map Prod.fst = ob.map Prod.fst
  | [] => rfl
  | (k, n) :: ms => by simp [cstOfM, cstOfM_keys' e ms]

theorem litNull_valueOf' : litNull.valueOf = .null := by
  simp [litNull, Cst.valueOf, Cst.litValue]

/-- mapping the names of a duplicate-free association list through its own lookup -/
theorem map_keys_lookupC (g : Bytes → Option Cst → Bytes × Cst) :
    ∀ ms : List (Bytes × Cst), (ms.map Prod.fst).Nodup →
      (ms.map Prod.fst).map (fun k => g k (lookupC k ms)) = ms.map (fun kb => g kb.1 (some kb.2))
  | [], _ => rfl
  | (k, b) :: ms, h => by
    simp only [List.map_cons, List.nodup_cons] at h
    simp only [List.map_cons, lookupC_cons, if_true]
    congr 1
    rw [← map_keys_lookupC g ms h.2]
    apply List.map_congr_left
    intro k' hk'
    have : k ≠ k' := fun heq => h.1 (heq ▸ hk')
    simp [this]

mutual
theorem valueOf_cstOf' : ∀ (n : Node) (d : Nat), WF n = true → GoodN d n = true →
    (cstOf true n).valueOf = den n
  | .nil, _, _, _ => by simp [cstOf, den, litNull_valueOf']
  | .raw c, d, _, h => by
    have hc := (GoodN_raw d c).1 h
    simp only [cstOf, den, valueOf_escape true c hc.1]
  | .doc keys ob, d, h1, h2 => by
    have ⟨hk, hnd, hwf⟩ := (WF_doc_iff keys ob).1 h1
    rw [den_doc_wf keys ob hk hnd]
    rw [GoodN_doc] at h2
    subst hk
    simp only [cstOf, Cst.valueOf]
    congr 1
    have := map_keys_lookupC (fun k o => (quoteBody true k, o.getD litNull)) (cstOfM true ob)
      (by rw [cstOfM_keys']; exact (nodupKeys_iff _).1 hnd)
    rw [cstOfM_keys'] at this
    rw [this]
    exact valueOfM_cstOfM' ob (d - 1) hwf h2.2
  | .ary ns, d, h1, h2 => by
    simp only [WF] at h1
    rw [GoodN_ary] at h2
    simp only [cstOf, den, Cst.valueOf, valueOfL_cstOfL' ns (d - 1) h1 h2.2]
  | .docNil, _, h1, _ => by simp [WF] at h1
  | .nilAry, _, h1, _ => by simp [WF] at h1
theorem valueOfM_cstOfM' : ∀ (ob : NMembers) (d : Nat), WFM ob = true → GoodNM d ob = true →
    Cst.valueOfM ((cstOfM true ob).map fun kb => (quoteBody true kb.1, (some kb.2).getD litNull)) = denM ob
  | [], _, _, _ => by simp [cstOfM, denM, Cst.valueOfM]
  | (k, n) :: ms, d, h1, h2 => by
    simp only [WFM, Bool.and_eq_true] at h1
    simp only [GoodNM, Bool.and_eq_true] at h2
    have hq : unquote (quoteBody true k) = k := unquote_quoteBody true k h2.1.1
    simp only [cstOfM, List.map_cons, Cst.valueOfM, denM, Option.getD_some, hq,
      valueOf_cstOf' n d h1.1 h2.1.2]
    congr 1
    exact valueOfM_cstOfM' ms d h1.2 h2.2
theorem valueOfL_cstOfL' : ∀ (ns : List Node) (d : Nat), WFL ns = true → GoodNL d ns = true →
    Cst.valueOfL (cstOfL true ns) = denL ns
  | [], _, _, _ => by simp [cstOfL, denL, Cst.valueOfL]
  | n :: ns, d, h1, h2 => by
    simp only [WFL, Bool.and_eq_true] at h1
    simp only [GoodNL, Bool.and_eq_true] at h2
    simp only [cstOfL, Cst.valueOfL, denL, valueOf_cstOf' n d h1.1 h2.1, valueOfL_cstOfL' ns d h1.2 h2.2]
end

end Impl
end JP
