import JP.Codec.Float

/-!
# Float literals: the exponent clean-up does not change what is read; the sign
-/

namespace JP
namespace Codec
namespace Float

/-! ## splitE over an appended exponent -/

theorem splitE_append_e (X : Bytes) : ∀ pre : Bytes,
    splitE (pre ++ 101 :: X) =
      match (splitE pre).2 with
      | none => ((splitE pre).1, some X)
      | some p2 => ((splitE pre).1, some (p2 ++ 101 :: X))
  | [] => by simp [splitE]
  | c :: pre => by
    have ih := splitE_append_e X pre
    by_cases hc : c = 101 ∨ c = 69
    · simp [splitE, hc]
    · simp only [List.cons_append, splitE, hc, if_false]
      rw [ih]
      cases (splitE pre).2 <;> rfl

theorem isDigit_101 : isDigit 101 = false := by decide

theorem allDigits_with_e (a X : Bytes) : allDigits (a ++ 101 :: X) = false := by
  simp [allDigits, List.all_append, isDigit_101]

theorem parseExp_with_e (p X : Bytes) : parseExp (p ++ 101 :: X) = none := by
  unfold parseExp
  cases p with
  | nil =>
    have h1 : ((101 : UInt8) :: X).head? = some 101 := rfl
    simp only [List.nil_append, h1]
    have : allDigits ((101 : UInt8) :: X) = false := allDigits_with_e [] X
    simp [this]
  | cons c p =>
    simp only [List.cons_append, List.head?_cons, List.drop_succ_cons, List.drop_zero]
    have h1 := allDigits_with_e p X
    have h2 := allDigits_with_e (c :: p) X
    simp only [List.cons_append] at h2
    split <;> simp [h1, h2]

theorem parseExp_clean (d : UInt8) : parseExp [45, 48, d] = parseExp [45, d] := by
  unfold parseExp
  by_cases hd : isDigit d = true
  · simp [allDigits, expNat, isDigit]
  · simp [allDigits, hd]

theorem parseLit_clean (pre : Bytes) (d : UInt8) :
    parseLit (pre ++ [101, 45, 48, d]) = parseLit (pre ++ [101, 45, d]) := by
  unfold parseLit
  rw [splitE_append_e, splitE_append_e]
  cases h : (splitE pre).2 with
  | none => simp only [parseExp_clean]
  | some p2 => simp only [parseExp_with_e]

theorem cleanExp_cases (b : Bytes) :
    cleanExp b = b ∨ ∃ pre d, b = pre ++ [101, 45, 48, d] ∧ cleanExp b = pre ++ [101, 45, d] := by
  unfold cleanExp
  generalize hr : b.reverse = r
  have hb : b = r.reverse := by rw [← hr, List.reverse_reverse]
  unfold cleanRev
  split
  · rename_i d rp
    right
    refine ⟨rp.reverse, d, ?_, ?_⟩
    · rw [hb]; simp
    · simp
  · left; rw [hb]

theorem parseLit_cleanExp (b : Bytes) : parseLit (cleanExp b) = parseLit b := by
  rcases cleanExp_cases b with h | ⟨pre, d, hb, hc⟩
  · rw [h]
  · rw [hc, hb, parseLit_clean]

theorem parseFloat_cleanExp (bits : Nat) (b : Bytes) : parseFloat bits (cleanExp b) = parseFloat bits b := by
  unfold parseFloat; rw [parseLit_cleanExp]

theorem storeFloat_cleanExp (bits : Nat) (b : Bytes) : storeFloat bits (cleanExp b) = storeFloat bits b := by
  unfold storeFloat; rw [parseFloat_cleanExp]

/-! ## the round trip that the search checks -/

theorem formatShortest_parse (bits : Nat) (fmt : Fmt) (x : FP) (s : Bytes)
    (h : formatShortest bits fmt x = some s) : parseFloat bits s = some (x, false) := by
  unfold formatShortest at h
  split at h
  · exact absurd h (by simp)
  · rename_i ds dp _
    simp only at h
    split at h
    · rename_i hp
      simp only [Option.some.injEq] at h
      rw [← h]; exact hp
    · exact absurd h (by simp)

/-! ## sign -/

theorem splitE_fst_head (lit : Bytes) (h : lit.head? ≠ some 45) : (splitE lit).1.head? ≠ some 45 := by
  cases lit with
  | nil => simp [splitE]
  | cons c cs =>
    simp only [List.head?_cons, ne_eq, Option.some.injEq] at h
    by_cases hc : c = 101 ∨ c = 69
    · simp [splitE, hc]
    · simp [splitE, hc, h]

theorem parseMant_neg (m : Bytes) (h : m.head? ≠ some 45) :
    parseMant (45 :: m) = (parseMant m).map fun r => (true, r.2.1, r.2.2) := by
  unfold parseMant
  simp only [List.head?_cons, List.drop_succ_cons, List.drop_zero, if_true, h, if_false]
  split
  · simp
  · cases (splitDot m).2 with
    | none => simp
    | some fp => by_cases hf : allDigits fp = true <;> simp [hf]

theorem parseMant_pos (m : Bytes) (h : m.head? ≠ some 45) (r : Bool × Bytes × Bytes)
    (hr : parseMant m = some r) : r.1 = false := by
  unfold parseMant at hr
  simp only [h, if_false] at hr
  split at hr
  · exact absurd hr (by simp)
  · cases hd : (splitDot m).2 with
    | none => rw [hd] at hr; simp at hr; rw [← hr]
    | some fp =>
      rw [hd] at hr
      by_cases hf : allDigits fp = true
      · simp [hf] at hr; rw [← hr]
      · simp [hf] at hr

theorem parseLit_neg (lit : Bytes) (h : lit.head? ≠ some 45) :
    parseLit (45 :: lit) = (parseLit lit).map fun l => { l with neg := true } := by
  have hs : splitE (45 :: lit) = (45 :: (splitE lit).1, (splitE lit).2) := by
    simp [splitE]
  unfold parseLit
  rw [hs]
  simp only
  rw [parseMant_neg _ (splitE_fst_head lit h)]
  cases hm : parseMant (splitE lit).1 with
  | none => simp
  | some r =>
    obtain ⟨n, ip, fp⟩ := r
    simp only [Option.map_some]
    cases (splitE lit).2 with
    | none => simp
    | some r => cases hp : parseExp r <;> simp [hp]

theorem parseLit_pos (lit : Bytes) (h : lit.head? ≠ some 45) (l : Lit) (hl : parseLit lit = some l) :
    l.neg = false := by
  simp only [parseLit] at hl
  cases hm : parseMant (splitE lit).1 with
  | none => rw [hm] at hl; simp at hl
  | some r =>
    have := parseMant_pos _ (splitE_fst_head lit h) r hm
    obtain ⟨n, ip, fp⟩ := r
    simp only at this
    subst this
    rw [hm] at hl
    simp only at hl
    cases he : (splitE lit).2 with
    | none => rw [he] at hl; simp at hl; rw [← hl]
    | some r =>
      rw [he] at hl
      simp only at hl
      cases hp : parseExp r with
      | none => rw [hp] at hl; simp at hl
      | some e => rw [hp] at hl; simp at hl; rw [← hl]

end Float
end Codec
end JP
