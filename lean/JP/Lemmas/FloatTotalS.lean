import JP.Lemmas.FloatTotalA
import JP.Lemmas.FloatTotalC
import JP.Lemmas.FloatTotalE
import JP.Lemmas.FloatTotalF
import JP.Lemmas.FloatTotalK
import JP.Lemmas.FloatTotalR
import JP.Lemmas.FloatClamp

/-!
# The shortest-digits search never gives up: assembly
-/

namespace JP
namespace Codec
namespace Float

open JP.Codec.Typed (decimal)

theorem roundsTo_iff (bits : Nat) (x : FP) (c : Nat) (e : Int) :
    roundsTo bits x c e = true ↔ roundDec bits c e = (x.exp, x.mant, false) := by
  unfold roundsTo
  generalize roundDec bits c e = r
  obtain ⟨r1, r2, r3⟩ := r
  simp only [Bool.and_eq_true, decide_eq_true_eq, Bool.not_eq_true', Prod.mk.injEq]
  constructor
  · rintro ⟨⟨h1, h2⟩, h3⟩; exact ⟨h1, h2, h3⟩
  · rintro ⟨h1, h2, h3⟩; exact ⟨⟨h1, h2⟩, h3⟩

/-- a decimal close to `x` reads back as `x` -/
theorem roundsTo_of_close (bits : Nat) (x : FP) (hwf : x.wf bits = true) (hfin : x.isFinite bits = true)
    (c : Nat) (e : Int) (hc : c ≠ 0) (h : closeTo bits x (decN c e) (decD e)) : roundsTo bits x c e = true := by
  rw [roundsTo_iff, roundDec_eq_roundRat bits c e hc]
  have hp : ∀ k : Nat, 0 < 10 ^ k := fun k => Nat.pos_of_ne_zero (by simp)
  have e1 : (if e ≥ 0 then roundRat bits (c * 10 ^ e.toNat) 1 else roundRat bits c (10 ^ (-e).toNat))
      = roundRat bits (decN c e) (decD e) := by
    unfold decN decD; split <;> rfl
  have hN : 0 < decN c e := by
    unfold decN; split
    · exact Nat.mul_pos (by omega) (hp _)
    · omega
  have hD : 0 < decD e := by
    unfold decD; split
    · omega
    · exact hp _
  rw [e1, roundRat_of_close bits x hwf hfin _ _ hN hD h]

theorem candPick_sound (bits : Nat) (x : FP) (lo r b : Nat) (e : Int) (p : Nat × Int)
    (h : candPick bits x lo r b e = some p) : roundsTo bits x p.1 p.2 = true := by
  unfold candPick at h
  simp only at h
  cases hlo : roundsTo bits x lo e <;> cases hhi : roundsTo bits x (lo + 1) e <;>
    simp only [hlo, hhi, Bool.and_self, Bool.and_true, Bool.and_false, Bool.false_eq_true, if_true, if_false] at h
  all_goals (repeat' split at h)
  all_goals first
    | (simp at h; done)
    | (simp only [Option.some.injEq] at h; subst h; assumption)

theorem search_sound (bits : Nat) (x : FP) (N D : Nat) (k : Int) (p : Nat × Int) : ∀ (fuel start : Nat),
    search bits x N D k fuel start = some p → roundsTo bits x p.1 p.2 = true := by
  intro fuel
  induction fuel with
  | zero => intro start h; simp [search] at h
  | succ f ih =>
    intro start h
    simp only [search] at h
    cases hc : cand bits x N D k start with
    | some r =>
      rw [hc] at h
      simp only [Option.some.injEq] at h
      subst h
      exact candPick_sound bits x _ _ _ _ _ hc
    | none =>
      rw [hc] at h
      exact ih (start + 1) h

theorem search_some (bits : Nat) (x : FP) (N D : Nat) (k : Int) (target : Nat)
    (ht : cand bits x N D k target ≠ none) : ∀ (fuel start : Nat), start ≤ target → target < start + fuel →
      search bits x N D k fuel start ≠ none := by
  intro fuel
  induction fuel with
  | zero => intro start h1 h2; omega
  | succ f ih =>
    intro start h1 h2
    simp only [search]
    cases hc : cand bits x N D k start with
    | some r => simp
    | none =>
      have : start ≠ target := by intro h; subst h; exact ht hc
      exact ih (start + 1) (by omega) (by omega)

/-- a decimal that reads back as a non-zero float is not zero and its decimal point is in `[-400, 400]` -/
theorem roundsTo_bounds (bits : Nat) (x : FP) (hnz : x.isZero = false) (c : Nat) (e : Int)
    (h : roundsTo bits x c e = true) :
    c ≠ 0 ∧ -400 ≤ ((decimal c).length : Int) + e ∧ ((decimal c).length : Int) + e ≤ 400 := by
  rw [roundsTo_iff] at h
  have hz : ¬ (x.exp = 0 ∧ x.mant = 0) := by
    intro hh
    simp [FP.isZero, hh.1, hh.2] at hnz
  unfold roundDec at h
  by_cases hc : c = 0
  · rw [if_pos hc] at h
    simp only [Prod.mk.injEq] at h
    exact absurd ⟨h.1.symm, h.2.1.symm⟩ hz
  · rw [if_neg hc] at h
    have hnd : numDigits c = (decimal c).length := rfl
    rw [← hnd]
    refine ⟨hc, ?_, ?_⟩
    · by_cases h2 : e + ((numDigits c : Nat) : Int) < -400
      · have h1 : ¬ (e + ((numDigits c : Nat) : Int) > 400) := by omega
        simp only [h1, h2, if_true, if_false, Prod.mk.injEq] at h
        exact absurd ⟨h.1.symm, h.2.1.symm⟩ hz
      · omega
    · by_cases h1 : e + ((numDigits c : Nat) : Int) > 400
      · simp only [h1, if_true, Prod.mk.injEq] at h
        exact absurd h.2.2 (by simp)
      · omega

theorem shortest_eq (bits : Nat) (x : FP) (hnz : x.isZero = false) :
    shortest bits x =
      match search bits x (exactN bits x) (exactD bits x) (decPoint (exactN bits x) (exactD bits x))
          (maxDigits bits) 1 with
      | none => none
      | some (c, e) => some (stripZeros (decimal c), ((decimal c).length : Int) + e) := by
  unfold shortest
  rw [hnz]
  rfl

/-- the search finds a decimal, and what it finds reads back as `x` -/
theorem shortest_total (bits : Nat) (x : FP) (hwf : x.wf bits = true) (hfin : x.isFinite bits = true)
    (hnz : x.isZero = false) :
    ∃ c e, roundsTo bits x c e = true ∧
      shortest bits x = some (stripZeros (decimal c), ((decimal c).length : Int) + e) := by
  have hs0 : 0 < x.sig bits := by
    unfold FP.sig
    split
    · rename_i he
      simp only [FP.isZero, he, decide_true, Bool.true_and, decide_eq_false_iff_not] at hnz
      omega
    · have := two_pow_pos (mantBits bits); omega
  have hN : 0 < exactN bits x := by
    unfold exactN; split
    · exact Nat.mul_pos hs0 (two_pow_pos _)
    · exact hs0
  have hD : 0 < exactD bits x := by
    unfold exactD; split
    · omega
    · exact two_pow_pos _
  obtain ⟨hk, _, _⟩ := decPoint_lower bits x hwf hfin hnz
  have hcand := cand_max_some bits x (exactN bits x) (exactD bits x) hN hD rfl rfl _ hk
    (fun c e hc h => roundsTo_of_close bits x hwf hfin c e hc h)
  have hsome := search_some bits x _ _ _ (maxDigits bits) hcand (maxDigits bits) 1 (maxDigits_pos bits)
    (by omega)
  rw [shortest_eq bits x hnz]
  cases hs : search bits x (exactN bits x) (exactD bits x) (decPoint (exactN bits x) (exactD bits x))
      (maxDigits bits) 1 with
  | none => exact absurd hs hsome
  | some p =>
    obtain ⟨c, e⟩ := p
    exact ⟨c, e, search_sound bits x _ _ _ _ _ _ hs, rfl⟩

/-- the bytes laid out for the decimal found read back as `x` -/
theorem layout_reads (bits : Nat) (fmt : Fmt) (x : FP) (hnz : x.isZero = false) (c : Nat) (e : Int)
    (h : roundsTo bits x c e = true) :
    parseFloat bits (layout fmt x.sign (stripZeros (decimal c)) (((decimal c).length : Int) + e))
      = some (x, false) := by
  obtain ⟨hc, hlo, hhi⟩ := roundsTo_bounds bits x hnz c e h
  rw [roundsTo_iff] at h
  obtain ⟨c', z, hcz, hc10, hstrip, hlen⟩ := strip_decimal c hc
  have hc' : c' ≠ 0 := by intro h0; rw [h0] at hc10; simp at hc10
  have hsh : roundDec bits c' (e + (z : Int)) = (x.exp, x.mant, false) := by
    rw [← roundDec_shift bits c' z e hc', ← hcz]; exact h
  rw [hstrip, hlen]
  have hdp : ((((decimal c').length + z : Nat) : Int) + e) - ((decimal c').length : Int) = e + (z : Int) := by
    omega
  unfold layout
  by_cases hf : fmt = .e
  · rw [if_pos hf]
    unfold parseFloat
    rw [fmtE_parse' x.sign c' _ (by omega)]
    simp only
    rw [hdp, hsh]
  · rw [if_neg hf]
    obtain ⟨l, hl, hneg, hdig, hexp⟩ := fmtF_parse x.sign c' ((((decimal c').length + z : Nat) : Int) + e) hc'
    unfold parseFloat
    rw [hl]
    simp only
    rw [hneg, hdig, hexp, hdp]
    have : roundDec bits (c' * 10 ^ (e + (z : Int)).toNat) (min (e + (z : Int)) 0) = (x.exp, x.mant, false) := by
      rw [roundDec_shift bits c' _ _ hc', ← hsh]
      congr 1
      omega
    rw [this]

theorem formatShortest_zero (bits : Nat) (fmt : Fmt) (x : FP) (hz : x.isZero = true) :
    (formatShortest bits fmt x).isSome = true := by
  obtain ⟨sg, ex, m⟩ := x
  simp only [FP.isZero, Bool.and_eq_true, decide_eq_true_eq] at hz
  obtain ⟨h1, h2⟩ := hz
  subst h1; subst h2
  have hpf : ∀ s : Bytes, ∀ l : Lit, parseLit s = some l → l.digits = 0 →
      parseFloat bits s = some (⟨l.neg, 0, 0⟩, false) := by
    intro s l hl h0
    unfold parseFloat roundDec
    rw [hl]; simp [h0]
  unfold formatShortest shortest
  simp only [FP.isZero, decide_true, Bool.and_self, if_true]
  cases fmt <;> cases sg
  · rw [if_pos (hpf _ ⟨false, 0, 0, 1⟩ (by decide) rfl)]; rfl
  · rw [if_pos (hpf _ ⟨true, 0, 0, 1⟩ (by decide) rfl)]; rfl
  · rw [if_pos (hpf _ ⟨false, 0, 0, 1⟩ (by decide) rfl)]; rfl
  · rw [if_pos (hpf _ ⟨true, 0, 0, 1⟩ (by decide) rfl)]; rfl

/-- `formatShortest` answers on every finite float, in both layouts -/
theorem formatShortest_total (bits : Nat) (fmt : Fmt) (x : FP) (hwf : x.wf bits = true)
    (hfin : x.isFinite bits = true) : (formatShortest bits fmt x).isSome = true := by
  cases hz : x.isZero with
  | true => exact formatShortest_zero bits fmt x hz
  | false =>
    obtain ⟨c, e, hr, hs⟩ := shortest_total bits x hwf hfin hz
    unfold formatShortest
    rw [hs]
    simp only
    rw [if_pos (layout_reads bits fmt x hz c e hr)]
    rfl

end Float
end Codec
end JP
