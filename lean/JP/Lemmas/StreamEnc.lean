import JP.Lemmas.StreamSeq
import JP.Props.C17encode
import JP.Props.C17codec

/-!
# `Encoder.Encode`

* without prefix and indent the output is the marshalled text and one newline, and it parses to the
  same tree;
* with an empty prefix the generalised loop `indentLoopP` is `Scanner.indentLoop`, so the theorems about
  `Indent` (`C17.indent_layout`, `C17.indent_preserves`) apply to the marshalled text plus newline.
-/

namespace JP
namespace Codec
namespace Stream

open Scanner

/-! ### one trailing white-space byte does not change what a text parses to -/

theorem parseCst_snoc_ws (out : Bytes) (c : Cst) (w : UInt8) (hw : isWs w = true) (h : parseCst out = some c) :
    parseCst (out ++ [w]) = some c := by
  obtain ⟨rest, hp, hrest⟩ := parseCst_inv out c h
  obtain ⟨ws, hout, hws⟩ := skipWs_prefix out
  obtain ⟨vt, hvt, nv⟩ := nextValue_of_parse _ 0 ws (skipWs out) rest c hws (noWs_skipWs out) hp
    (delimW_of_skipWs_nil rest hrest)
  have hd : DelimW (rest ++ [w]) := by
    cases rest with
    | nil => exact .inl hw
    | cons a r' => exact .inl ((skipWs_nil_iff (a :: r')).1 hrest a (List.mem_cons_self ..))
  have hsk : skipWs (out ++ [w]) = vt ++ (rest ++ [w]) := by
    rw [hout, hvt, List.append_assoc, skipWs_append_ws ws _ hws, List.append_assoc]
    cases hv : vt with
    | nil => exact absurd hv (endsNonWs_ne_nil nv.ends)
    | cons e t => exact skipWs_head e _ (nv.head e t hv)
  have hlen : vt.length + 1 ≤ (out ++ [w]).length + 1 := by
    have : out.length = ws.length + (vt.length + rest.length) := by
      rw [hout, hvt]; simp only [List.length_append]
    simp only [List.length_append, List.length_singleton]; omega
  have := nv.reparse ((out ++ [w]).length + 1) (rest ++ [w]) hlen (.inl hd)
  unfold parseCst
  rw [hsk, this]
  have hr : skipWs (rest ++ [w]) = [] := by
    apply (skipWs_nil_iff _).2
    intro b hb
    rcases List.mem_append.1 hb with h | h
    · exact (skipWs_nil_iff rest).1 hrest b h
    · rw [List.mem_singleton.1 h]; exact hw
  simp [hr]

/-! ### no prefix, no indent -/

theorem enc_of_marshalEscaped {esc : Bool} {v : Enc.GoVal} {out : Bytes}
    (h : Enc.marshalEscaped esc v = .ok out) : Enc.enc esc v = .ok out := by
  unfold Enc.marshalEscaped at h
  split at h
  · simp only [Impl.Outcome.ok.injEq] at h; rw [← h]; assumption
  · cases h
  · cases h

/-- `Encode` without prefix and indent writes the marshalled text and a newline -/
theorem encode_plain (enc : Enc) (v : Enc.GoVal) (out : Bytes) (hp : enc.indentPrefix = []) (hi : enc.indentValue = [])
    (h : Enc.marshalEscaped enc.escapeHTML v = .ok out) : encode enc v = .ok (out ++ [10]) := by
  simp only [encode, enc_of_marshalEscaped h, hp, hi, ne_eq, not_true_eq_false, or_self, if_false]

/-- … which parses to the tree the marshalled text parses to -/
theorem encode_plain_parses (enc : Enc) (v : Enc.GoVal) (out : Bytes) (c : Cst) (hp : enc.indentPrefix = [])
    (hi : enc.indentValue = []) (h : Enc.marshalEscaped enc.escapeHTML v = .ok out) (hc : parseCst out = some c) :
    ∃ o, encode enc v = .ok o ∧ o = out ++ [10] ∧ parseCst o = some c :=
  ⟨_, encode_plain enc v out hp hi h, rfl, parseCst_snoc_ws out c 10 (by decide) hc⟩

/-- a marshalling error is returned and nothing is written -/
theorem encode_error (enc : Enc) (v : Enc.GoVal) (e : Impl.Err) (h : Enc.marshalEscaped enc.escapeHTML v = .err e) :
    encode enc v = .err e := by
  unfold Enc.marshalEscaped at h
  split at h
  · cases h
  · rename_i o e' he
    simp only [Impl.Outcome.err.injEq] at h
    simp only [encode, he, h]
  · cases h

/-! ### indentation -/

theorem newlineP_nil (ind : Bytes) (depth : Nat) : newlineP [] ind depth = newline ind depth := rfl

theorem indentLoopP_nil (ind : Bytes) : ∀ (cs : Bytes) (s : Scan) (need : Bool) (depth : Nat) (out : Bytes),
    indentLoopP [] ind s need depth cs out = indentLoop ind s need depth cs out := by
  intro cs
  induction cs with
  | nil => intro s need depth out; rfl
  | cons c cs ih =>
    intro s need depth out
    simp only [indentLoopP, indentLoop, newlineP_nil, ih]

/-- with an empty prefix the model of `Indent` used by `Encode` is `Scanner.indent` -/
theorem indentP_nil (ind src : Bytes) : indentP [] ind src = Scanner.indent ind src := by
  simp only [indentP, Scanner.indent, indentLoopP_nil]

/-- `Encode` with a prefix or an indent writes `Indent` of the marshalled text and newline -/
theorem encode_indent (enc : Enc) (v : Enc.GoVal) (out : Bytes) (hpi : enc.indentPrefix ≠ [] ∨ enc.indentValue ≠ [])
    (h : Enc.marshalEscaped enc.escapeHTML v = .ok out) :
    encode enc v = indentRes (indentP enc.indentPrefix enc.indentValue (out ++ [10])) := by
  simp only [encode, enc_of_marshalEscaped h, hpi, if_true]

/-- no prefix, an indent made of white space: the indented print of the tree the marshalled text parses to,
followed by white space (the newline, after whatever white space the marshalled text ended in); it parses to
the same tree -/
theorem encode_indent_parses (enc : Enc) (v : Enc.GoVal) (out : Bytes) (c : Cst) (hp : enc.indentPrefix = [])
    (hi : enc.indentValue ≠ []) (hws : ∀ b ∈ enc.indentValue, isWs b = true)
    (h : Enc.marshalEscaped enc.escapeHTML v = .ok out) (hc : parseCst out = some c) :
    ∃ ws : Bytes, (∀ b ∈ ws, isWs b = true) ∧
      encode enc v = .ok (Cst.printIndented enc.indentValue 0 c ++ ws) ∧
      parseCst (Cst.printIndented enc.indentValue 0 c ++ ws) = some c := by
  have hc' := parseCst_snoc_ws out c 10 (by decide) hc
  obtain ⟨hw, hd⟩ := parseCst_wfc (out ++ [10]) c hc'
  obtain ⟨ws, hwsl, hlay⟩ := C17.indent_layout enc.indentValue (out ++ [10]) c hc'
  refine ⟨ws, hwsl, ?_, parse_printIndented enc.indentValue hws c ws hw hd ((skipWs_nil_iff ws).2 hwsl)⟩
  rw [encode_indent enc v out (.inr hi) h, hp, indentP_nil, hlay]
  rfl

/-! ### dynamic values: the exact bytes -/

/-- `Encode` of a dynamic value (`any` holding nil, bool, `Number`, string, `[]any`, `map[string]any`) without
indentation: the compact print of its tree (members in name order) and a newline; it parses back to that tree -/
theorem encode_any (enc : Enc) (v : Value) (hp : enc.indentPrefix = []) (hi : enc.indentValue = [])
    (hn : NumsValid v = true) (hd : (Impl.marshalAnyE enc.escapeHTML (Enc.sortV v)).depth ≤ maxDepth) :
    encode enc (Enc.anyToGo v) = .ok (Cst.print (Impl.marshalAnyE enc.escapeHTML (Enc.sortV v)) ++ [10]) ∧
      parseCst (Cst.print (Impl.marshalAnyE enc.escapeHTML (Enc.sortV v)) ++ [10]) =
        some (Impl.marshalAnyE enc.escapeHTML (Enc.sortV v)) := by
  have hm := C17.marshal_any enc.escapeHTML v hn
  refine ⟨encode_plain enc _ _ hp hi hm, ?_⟩
  exact parse_print_ws _ [10] (marshal_wfc _ _ (Enc.NumsValid_sortV v hn)) hd (by decide)

/-- … and with an indent (no prefix): the indented print of the same tree and a newline -/
theorem encode_any_indent (enc : Enc) (v : Value) (hp : enc.indentPrefix = []) (hi : enc.indentValue ≠ [])
    (hn : NumsValid v = true) (hd : (Impl.marshalAnyE enc.escapeHTML (Enc.sortV v)).depth ≤ maxDepth) :
    encode enc (Enc.anyToGo v) =
      .ok (Cst.printIndented enc.indentValue 0 (Impl.marshalAnyE enc.escapeHTML (Enc.sortV v)) ++ [10]) := by
  have hm := C17.marshal_any enc.escapeHTML v hn
  have hw := marshal_wfc enc.escapeHTML _ (Enc.NumsValid_sortV v hn)
  have hparse := parse_print_ws _ [10] hw hd (by decide)
  have hpv := parseValue_print (Impl.marshalAnyE enc.escapeHTML (Enc.sortV v))
    ((Cst.print (Impl.marshalAnyE enc.escapeHTML (Enc.sortV v)) ++ [10]).length + 1) 0 [10] hw
    (by simp only [List.length_append]; omega) (by omega) (by simp only [numStop]; decide)
  have hsk := skipWs_print (Impl.marshalAnyE enc.escapeHTML (Enc.sortV v)) [10] hw
  have hspec := indent_spec enc.indentValue _ _ [10] _ (by rw [hsk]; exact hpv) (by decide)
    (valid_of_parse _ _ hparse) hw
  rw [encode_indent enc _ _ (.inr hi) hm, hp, indentP_nil, hspec]
  rfl

end Stream
end Codec
end JP
