import JP.Lemmas.MergeImplTop

/-!
# `mergeNC true` (MergeMergePatches) against `Spec.compose`, under `Spec.compatible`

Without compatibility the Go code prunes the nulls of an object that replaces a non-object
(`merge`: `cur.intoDoc()` fails → `pruneNulls(patch)` even when `mergeMerge` is set), which
`Spec.compose` does not do; `Spec.compatible` excludes exactly that situation.
-/

namespace JP
open Value

namespace Value

theorem lookup_set_ne_E (k k' : Bytes) (x : Value) (h : k' ≠ k) : ∀ (p : Members),
    lookup k' (Value.set k x p) = lookup k' p
  | [] => by
    have : ¬ k = k' := fun e => h e.symm
    simp [Value.set, lookup, this]
  | (a, v) :: p => by
    simp only [Value.set]
    by_cases ha : a = k
    · subst ha
      have : ¬ a = k' := fun e => h e.symm
      simp [lookup, this]
    · simp only [if_neg ha, lookup]
      by_cases hk : a = k'
      · simp [hk]
      · simp only [if_neg hk]; exact lookup_set_ne_E k k' x h p

end Value

namespace Spec

theorem compose_nonobj (p1 p2 : Value) (h : ∀ ms, p2 ≠ .obj ms) : compose p1 p2 = p2 := by
  cases p2 <;> simp [compose] at *

theorem compose_obj_of_nonobj (p1 : Value) (q : Members) (h : ∀ ms, p1 ≠ .obj ms) :
    compose p1 (.obj q) = .obj q := by
  cases p1 <;> simp [compose] at *

theorem compatible_nonobj (p1 p2 : Value) (h : ∀ ms, p2 ≠ .obj ms) : compatible p1 p2 = true := by
  cases p2 <;> simp [compatible] at *

theorem compatible_obj_of_nonobj (p1 : Value) (q : Members) (h : ∀ ms, p1 ≠ .obj ms) :
    compatible p1 (.obj q) = false := by
  cases p1 <;> simp [compatible] at *

theorem composeMs_cons_null (p : Members) (k : Bytes) (v2 : Value) (q : Members) (h : v2.isNull = true) :
    composeMs p ((k, v2) :: q) = composeMs (Value.set k .null p) q := by
  cases v2 <;> simp [composeMs, isNull] at *

/-- `p1` has nothing (or null) under `k` -/
theorem composeMs_cons_absent (p : Members) (k : Bytes) (v2 : Value) (q : Members)
    (h : v2.isNull = false) (hl : lookup k p = none ∨ lookup k p = some .null) :
    composeMs p ((k, v2) :: q) = composeMs (Value.set k v2 p) q := by
  cases v2 with
  | obj q2 => cases hl with
    | inl hl => simp [composeMs, hl]
    | inr hl => simp [composeMs, hl]
  | null => simp [isNull] at h
  | bool b => simp [composeMs]
  | num l => simp [composeMs]
  | str s => simp [composeMs]
  | arr xs => simp [composeMs]

theorem composeMs_cons_some (p : Members) (k : Bytes) (v2 c : Value) (q : Members)
    (h : v2.isNull = false) (hl : lookup k p = some c) (hc : compatible c v2 = true) :
    composeMs p ((k, v2) :: q) = composeMs (Value.set k (compose c v2) p) q := by
  cases v2 with
  | obj q2 =>
    cases c with
    | obj p2 => simp [composeMs, hl, compose]
    | null => simp [compatible] at hc
    | bool b => simp [compatible] at hc
    | num l => simp [compatible] at hc
    | str s => simp [compatible] at hc
    | arr xs => simp [compatible] at hc
  | null => simp [isNull] at h
  | bool b => simp [composeMs, compose]
  | num l => simp [composeMs, compose]
  | str s => simp [composeMs, compose]
  | arr xs => simp [composeMs, compose]

theorem compatibleMs_cons_E (p : Members) (k : Bytes) (v2 : Value) (q : Members)
    (h : compatibleMs p ((k, v2) :: q) = true) :
    compatibleMs p q = true ∧ (∀ c, lookup k p = some c → compatible c v2 = true) := by
  cases v2 with
  | obj q2 =>
    simp only [compatibleMs, Bool.and_eq_true] at h
    refine ⟨h.2, ?_⟩
    intro c hl
    have h1 := h.1
    simp only [hl] at h1
    cases c with
    | obj p2 => simpa using h1
    | null => simp at h1
    | bool b => simp at h1
    | num l => simp at h1
    | str s => simp at h1
    | arr xs => simp at h1
  | null => simp only [compatibleMs, Bool.true_and] at h; exact ⟨h, by simp [compatible]⟩
  | bool b => simp only [compatibleMs, Bool.true_and] at h; exact ⟨h, by simp [compatible]⟩
  | num l => simp only [compatibleMs, Bool.true_and] at h; exact ⟨h, by simp [compatible]⟩
  | str s => simp only [compatibleMs, Bool.true_and] at h; exact ⟨h, by simp [compatible]⟩
  | arr xs => simp only [compatibleMs, Bool.true_and] at h; exact ⟨h, by simp [compatible]⟩

theorem compatibleMs_set (k : Bytes) (x : Value) (p : Members) : ∀ (q : Members),
    k ∉ q.map Prod.fst → compatibleMs (Value.set k x p) q = compatibleMs p q
  | [], _ => by simp [compatibleMs]
  | (k', v2) :: q, h => by
    simp only [List.map_cons, List.mem_cons, not_or] at h
    have hne : k' ≠ k := fun e => h.1 e.symm
    have ih := compatibleMs_set k x p q h.2
    cases v2 with
    | obj q2 => simp only [compatibleMs, lookup_set_ne_E k k' x hne p, ih]
    | null => simp only [compatibleMs, ih]
    | bool b => simp only [compatibleMs, ih]
    | num l => simp only [compatibleMs, ih]
    | str s => simp only [compatibleMs, ih]
    | arr xs => simp only [compatibleMs, ih]

end Spec

namespace Impl
open Cst

theorem docSetNil_eq (keys : List Bytes) (ob : NMembers) (k : Bytes) :
    docSetNil keys ob k = docSet' keys ob k .nil := rfl

mutual
theorem mergeNC_compose : ∀ (p : Cst) (cur : Node), WF cur = true → noDup (valueOf p) = true →
    Spec.compatible (den cur) (valueOf p) = true →
    WF (mergeNC true cur p) = true ∧ den (mergeNC true cur p) = Spec.compose (den cur) (valueOf p)
  | .lit s, cur, _, hp, _ => by
    rw [mergeNC_lit]
    refine ⟨by simpa [WF] using hp, ?_⟩
    rw [Spec.compose_nonobj _ _ (by simpa [valueOf] using (litValue_not_container s).2.2)]
    rfl
  | .str s, cur, _, hp, _ => by
    rw [mergeNC_str]
    exact ⟨by simpa [WF] using hp, by simp [den, valueOf, Spec.compose]⟩
  | .arr xs, cur, _, hp, _ => by
    rw [mergeNC_arr]
    exact ⟨by simpa [WF] using hp, by simp [den, valueOf, Spec.compose]⟩
  | .obj pms, cur, hc, hp, hcomp => by
    rcases intoDoc_cases cur hc with ⟨keys, ob, hi, hw, hd⟩ | ⟨_, hd⟩
    · rw [mergeNC_obj_of_doc true cur pms keys ob hi]
      have hp' := hp
      simp only [valueOf, noDup, Bool.and_eq_true] at hp'
      have ⟨b1, b2, _⟩ := (WF_doc_iff _ _).mp hw
      have hcm : Spec.compatibleMs (denM ob) (valueOfM pms) = true := by
        rw [← hd, den_doc_wf _ _ b1 b2] at hcomp
        simpa [valueOf, Spec.compatible] using hcomp
      have ⟨r1, r2⟩ := mergeDocsC_compose pms keys ob hw hp'.1 hp'.2 hcm
      refine ⟨r1, ?_⟩
      have ⟨a1, a2, _⟩ := (WF_doc_iff _ _).mp r1
      rw [den_doc_wf _ _ a1 a2, r2, ← hd, den_doc_wf _ _ b1 b2]
      simp [valueOf, Spec.compose]
    · simp only [valueOf] at hcomp
      rw [Spec.compatible_obj_of_nonobj _ _ hd] at hcomp
      cases hcomp
theorem mergeDocsC_compose : ∀ (pms : List (Bytes × Cst)) (keys : List Bytes) (ob : NMembers),
    WF (.doc keys ob) = true → nodupKeys ((valueOfM pms).map Prod.fst) = true →
    noDupM (valueOfM pms) = true → Spec.compatibleMs (denM ob) (valueOfM pms) = true →
    WF (.doc (mergeDocsC true keys ob pms).1 (mergeDocsC true keys ob pms).2) = true ∧
    denM (mergeDocsC true keys ob pms).2 = Spec.composeMs (denM ob) (valueOfM pms)
  | [], keys, ob, hw, _, _, _ => by
    simp only [mergeDocsC, valueOfM, Spec.composeMs]
    exact ⟨hw, trivial⟩
  | (k, v) :: pms, keys, ob, hw, hk, hd, hcomp => by
    have hsh : isShadowed k pms = false := hasKeyC_false_of_nodup k v pms hk
    simp only [valueOfM, List.map_cons] at hk
    have ⟨hk1, hk2⟩ := (nodupKeys_cons _ _).mp hk
    simp only [valueOfM, noDupM, Bool.and_eq_true] at hd
    simp only [valueOfM] at hcomp
    have ⟨hcomp2, hcomp1⟩ := Spec.compatibleMs_cons_E _ _ _ _ hcomp
    have ⟨_, _, hwm⟩ := (WF_doc_iff _ _).mp hw
    rw [mergeDocsC_cons, hsh]
    simp only [Bool.false_eq_true, if_false, valueOfM]
    -- one step: invariant, the spec's next accumulator, compatibility carried over
    have hstep : ∃ x, WF (.doc (mergeStep true keys ob k v).1 (mergeStep true keys ob k v).2) = true ∧
        denM (mergeStep true keys ob k v).2 = Value.set (unquote k) x (denM ob) ∧
        Spec.composeMs (denM ob) ((unquote k, valueOf v) :: valueOfM pms) =
          Spec.composeMs (Value.set (unquote k) x (denM ob)) (valueOfM pms) := by
      cases hv : v.isNullLit with
      | true =>
        rw [mergeStep_null true keys ob k v hv]
        simp only [if_true, docSetNil_eq]
        have ⟨s1, s2⟩ := docSet'_inv keys ob (unquote k) .nil hw rfl
        exact ⟨.null, s1, s2,
          Spec.composeMs_cons_null _ _ _ _ (by rw [isNull_valueOf]; exact hv)⟩
      | false =>
        have hnn : (valueOf v).isNull = false := by rw [isNull_valueOf]; exact hv
        have hlk := lookupN_den (unquote k) ob
        have hraw : WF (.raw v) = true := by simpa [WF] using hd.1
        cases hl : lookupN (unquote k) ob with
        | none =>
          rw [mergeStep_absent true keys ob k v hv (Or.inl hl)]
          simp only [if_true]
          have ⟨s1, s2⟩ := docSet'_inv keys ob (unquote k) _ hw hraw
          rw [hl] at hlk
          simp only [Option.map_none] at hlk
          exact ⟨valueOf v, s1, s2, Spec.composeMs_cons_absent _ _ _ _ hnn (Or.inl hlk.symm)⟩
        | some c =>
          rw [hl] at hlk
          simp only [Option.map_some] at hlk
          cases hn : isNil c with
          | true =>
            have hcn : c = .nil := by cases c <;> simp [isNil] at hn; rfl
            rw [mergeStep_absent true keys ob k v hv (Or.inr (hcn ▸ hl))]
            simp only [if_true]
            have ⟨s1, s2⟩ := docSet'_inv keys ob (unquote k) _ hw hraw
            refine ⟨valueOf v, s1, s2, Spec.composeMs_cons_absent _ _ _ _ hnn (Or.inr ?_)⟩
            rw [← hlk, hcn]; rfl
          | false =>
            rw [mergeStep_some true keys ob k v c hv hl hn]
            have hwc := WF_of_lookupN (unquote k) c ob hwm hl
            have hcc := hcomp1 (den c) hlk.symm
            have ⟨c1, c2⟩ := mergeNC_compose v c hwc hd.1 hcc
            have ⟨s1, s2⟩ := docSet'_inv keys ob (unquote k) _ hw c1
            refine ⟨Spec.compose (den c) (valueOf v), s1, by rw [s2, c2], ?_⟩
            exact Spec.composeMs_cons_some _ _ _ _ _ hnn hlk.symm hcc
    obtain ⟨x, st1, st2, st3⟩ := hstep
    have hk1' : unquote k ∉ (valueOfM pms).map Prod.fst := hk1
    have hcomp' : Spec.compatibleMs (denM (mergeStep true keys ob k v).2) (valueOfM pms) = true := by
      rw [st2, Spec.compatibleMs_set _ _ _ _ hk1']; exact hcomp2
    have ⟨r1, r2⟩ := mergeDocsC_compose pms _ _ st1 hk2 hd.2 hcomp'
    exact ⟨r1, by rw [r2, st2, st3]⟩
end

/-! ### `doMergePatch true` on syntax trees -/

def composeTree (dc pc : Cst) : Option Node :=
  match pc with
  | .obj pms =>
    match dc with
    | .obj dms => some (mergeNC true (.raw (.obj dms)) (.obj pms))
    | _ => some (decodeDoc pms)
  | .arr xs => some (decodeAry xs)
  | _ => none

theorem doMergePatch_true_eq (docData patchData : Bytes) (dc pc : Cst)
    (hvd : Scanner.valid docData = true) (hvp : Scanner.valid patchData = true)
    (hd : parseCst docData = some dc) (hp : parseCst patchData = some pc)
    (hnn : dc.isNullLit = false) :
    doMergePatch true docData patchData =
      .ok (match (if pc.isNullLit then none else composeTree dc pc) with
           | some r => Cst.print (cstOf true r)
           | none => patchData) := by
  unfold doMergePatch
  simp only [hvd, hvp, hd, hp, hnn, Bool.not_true, Bool.false_eq_true, if_false]
  cases hpn : pc.isNullLit with
  | true => simp
  | false =>
    simp only [Bool.false_eq_true, if_false]
    cases pc with
    | lit s => cases dc <;> simp [composeTree]
    | str s => cases dc <;> simp [composeTree]
    | arr xs => cases dc <;> simp [composeTree]
    | obj pms =>
      cases dc with
      | lit s => simp [composeTree]
      | str s => simp [composeTree]
      | arr xs => simp [composeTree]
      | obj dms =>
        have hi : intoDoc (.raw (.obj dms)) = .ok (.doc (decodeKeys dms) (decodeMembers dms [])) := rfl
        simp only [composeTree, decodeDoc]
        rw [mergeNC_obj_of_doc true _ pms _ _ hi]

theorem composeTree_den (dc pc : Cst) (hdd : noDup dc.valueOf = true) (hdp : noDup pc.valueOf = true)
    (hcomp : dc.isObj = true → Spec.compatible dc.valueOf pc.valueOf = true) :
    match composeTree dc pc with
    | some r => WF r = true ∧ den r = Spec.compose dc.valueOf pc.valueOf
    | none => pc.valueOf = Spec.compose dc.valueOf pc.valueOf := by
  cases pc with
  | lit s =>
    simp only [composeTree]
    rw [Spec.compose_nonobj _ _ (by simpa [valueOf] using (litValue_not_container s).2.2)]
  | str s => simp [composeTree, valueOf, Spec.compose]
  | arr xs =>
    simp only [composeTree, decodeAry]
    simp only [valueOf, noDup] at hdp
    exact ⟨by simpa [WF] using WFL_map_childOf xs hdp, by simp [den, denL_map_childOf, valueOf, Spec.compose]⟩
  | obj pms =>
    have hobj : ∀ dc' : Cst, dc'.isObj = false →
        WF (decodeDoc pms) = true ∧
        den (decodeDoc pms) = Spec.compose dc'.valueOf (Cst.obj pms).valueOf := by
      intro dc' hno
      refine ⟨WF_decodeDoc pms hdp, ?_⟩
      rw [den_decodeDoc pms hdp]
      simp only [valueOf]
      rw [Spec.compose_obj_of_nonobj _ _ (valueOf_not_obj_of_isObj dc' hno)]
    cases dc with
    | lit s => exact hobj _ rfl
    | str s => exact hobj _ rfl
    | arr xs => exact hobj _ rfl
    | obj dms =>
      simp only [composeTree]
      exact mergeNC_compose (.obj pms) (.raw (.obj dms)) (by simpa [WF] using hdd) hdp (hcomp rfl)

end Impl
end JP
