import JP.Lemmas.FloatDecimal

/-!
# A digit string without a leading zero is the `decimal` of its value
-/

namespace JP
namespace Codec
namespace Float

open JP.Codec.Typed (decimal)

theorem digit_back (b : UInt8) (h : isDigit b = true) : UInt8.ofNat (48 + (b.toNat - 48)) = b := by
  simp only [isDigit, Bool.and_eq_true, decide_eq_true_eq] at h
  have : 48 + (b.toNat - 48) = b.toNat := by omega
  rw [this]; exact UInt8.ofNat_toNat

theorem digit_val_lt (b : UInt8) (h : isDigit b = true) : b.toNat - 48 < 10 := by
  simp only [isDigit, Bool.and_eq_true, decide_eq_true_eq] at h
  omega

theorem digit_val_pos (b : UInt8) (h : isDigit b = true) (h0 : b ≠ 48) : 0 < b.toNat - 48 := by
  simp only [isDigit, Bool.and_eq_true, decide_eq_true_eq] at h
  have : b.toNat ≠ 48 := fun e => h0 (by
    have := congrArg UInt8.ofNat e
    simpa using this)
  omega

theorem decimal_digitsNat_aux : ∀ (k : Nat) (d : Bytes), d.length = k → d.all isDigit = true → d ≠ [] →
    d.head? ≠ some 48 → decimal (digitsNat d) = d ∧ 0 < digitsNat d ∧ digitsNat d < 10 ^ d.length := by
  intro k
  induction k with
  | zero => intro d hl _ hne _; cases d <;> simp_all
  | succ k ih =>
    intro d hl hd hne hz
    rcases List.eq_nil_or_concat d with h | ⟨L, b, h⟩
    · exact absurd h hne
    · rw [List.concat_eq_append] at h
      subst h
      simp only [List.all_append, List.all_cons, List.all_nil, Bool.and_true, Bool.and_eq_true] at hd
      obtain ⟨hL, hb⟩ := hd
      have hv := digit_val_lt b hb
      cases L with
      | nil =>
        simp only [List.nil_append, List.head?_cons, ne_eq, Option.some.injEq] at hz
        have hp := digit_val_pos b hb hz
        simp only [List.nil_append, digitsNat, List.foldl_cons, List.foldl_nil, Nat.zero_mul, Nat.zero_add,
          List.length_cons, List.length_nil, Nat.pow_one]
        refine ⟨?_, hp, hv⟩
        rw [decimal_lt10 _ hv, digit_back b hb]
      | cons c L' =>
        have hlen : (c :: L').length = k := by simp at hl; simp; omega
        have hz' : (c :: L').head? ≠ some 48 := by simpa using hz
        obtain ⟨i1, i2, i3⟩ := ih (c :: L') hlen hL (by simp) hz'
        rw [digitsNat_append_one]
        generalize digitsNat (c :: L') = m at i1 i2 i3
        have e1 : (m * 10 + (b.toNat - 48)) / 10 = m := by omega
        have e2 : (m * 10 + (b.toNat - 48)) % 10 = b.toNat - 48 := by omega
        refine ⟨?_, by omega, ?_⟩
        · rw [decimal_snoc _ (by omega), e1, e2, i1, digit_back b hb]
        · simp only [List.length_append, List.length_cons, List.length_nil, Nat.zero_add] at *
          rw [Nat.pow_succ]
          omega

/-- `0 | [1-9][0-9]*` is `decimal` of its value -/
theorem decimal_digitsNat (d : Bytes) (hd : d.all isDigit = true) (hne : d ≠ [])
    (hz : d.length = 1 ∨ d.head? ≠ some 48) :
    decimal (digitsNat d) = d ∧ digitsNat d < 10 ^ d.length ∧ (digitsNat d = 0 → d = [48]) := by
  by_cases h0 : d.head? = some 48
  · have hl : d.length = 1 := by
      rcases hz with h | h
      · exact h
      · exact absurd h0 h
    match d, hl, h0 with
    | [c], _, h0 =>
      simp only [List.head?_cons, Option.some.injEq] at h0
      subst h0
      exact ⟨by decide, by decide, fun _ => rfl⟩
  · obtain ⟨a1, a2, a3⟩ := decimal_digitsNat_aux d.length d rfl hd hne h0
    exact ⟨a1, a3, fun h => by omega⟩

end Float
end Codec
end JP
