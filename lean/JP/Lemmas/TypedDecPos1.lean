import JP.Props.C17typeddec

set_option linter.unusedSimpArgs false
set_option linter.unusedVariables false

/-!
# The typed decoder on a well-formed text, part 1: where the scanner stands after a value

`RPost Q r`: the run `r` neither panicked nor ran out of fuel, and when it returned normally the decoder state
satisfies `Q` (a Go `return err` — `R.abort` — ends `Unmarshal`, nothing is claimed about its state).
`Consumes G Q D`: the three ways the decoder reads a value that starts at state `D` — `d.value(v)` for a target
of any decodable type, `d.value(reflect.Value{})` (an unknown member, an element beyond a fixed array),
`d.valueQuoted()` + `literalStore(…, fromQuoted)` (a `,string` field) — all end in `Q`, whatever the target.
This file: literals.
-/

namespace JP
namespace Codec
namespace TDec

open Scanner
open JP.Codec.Typed
open JP.C17 (decodable decodableF structSettable lastField)

def RPost {α : Type} (Q : DState → Prop) : R α → Prop
  | .ok d _ => Q d
  | .abort _ _ _ => True
  | .panic => False
  | .fuel => False

theorem RPost_map {α β : Type} (f : α → β) (Q : DState → Prop) (r : R α) : RPost Q (R.map f r) ↔ RPost Q r := by
  cases r <;> simp [R.map, RPost]

theorem RPost_mono {α : Type} (P Q : DState → Prop) (h : ∀ d, P d → Q d) (r : R α) (hr : RPost P r) : RPost Q r := by
  cases r <;> simp_all [RPost]

/-- the same for the functions of `Decode.lean` -/
def EPost {α : Type} (Q : DState → Prop) : Exec (DState × α) → Prop
  | .ok (d, _) => Q d
  | .panic => False
  | .fuel => False

/-- `Q` does not look at the saved error -/
def SaveClosed (Q : DState → Prop) : Prop := ∀ d e, Q d → Q (d.saveError e)

/-- the decoder stands just behind a value that ends at index `n`, whatever it saved -/
def PostQ (data : Bytes) (n : Nat) (stk : List Nat) (rest : Bytes) (D : DState) : Prop :=
  ∃ se lk, PostV D data n stk rest se lk

theorem postQ_saveClosed (data : Bytes) (n : Nat) (stk : List Nat) (rest : Bytes) : SaveClosed (PostQ data n stk rest) := by
  intro d e h
  obtain ⟨se, lk, h⟩ := h
  simp only [DState.saveError]
  split
  · exact ⟨some e, lk, ⟨h.data, rfl, h.lk, h.pos⟩⟩
  · exact ⟨se, lk, h⟩

/-- what the decoder needs of a target: a decodable type, a value of that type in it, and a pointer is settable -/
def Inv (t : GoType) (cur : DV) (cs : Bool) : Prop :=
  decodable t = true ∧ DV.typed t cur = true ∧ (t.isPtr = true → cs = true)

structure Consumes (G : Nat) (Q : DState → Prop) (D : DState) : Prop where
  val : ∀ t cur cs, Inv t cur cs → RPost Q (value G t cur cs D)
  skip : RPost (α := Unit) Q (valueSkip D)
  quoted : ∀ t cur cs, (t.isPtr = true → cs = true) → RPost Q (quotedValue t cur cs D)

/-! ### `literalStore` -/

/-- the text of a literal of a well-formed text: a legal first byte, and a string can be unquoted -/
def LitOK : Bytes → Prop
  | [] => False
  | c :: r => (c = 110 ∨ c = 116 ∨ c = 102 ∨ c = 34 ∨ c = 45 ∨ isDigit c = true) ∧
      (c = 34 → (unquoteBytes (c :: r)).isSome = true)

theorem storeBool_post (Q : DState → Prop) (hQ : SaveClosed Q) (item : Bytes) (bt : GoType) (bv : DV) (fq : Bool)
    (d : DState) (hq : Q d) : RPost Q (storeBool item bt bv fq d) := by
  simp only [storeBool]
  repeat' split
  all_goals first | exact hq | exact hQ _ _ hq | exact True.intro

theorem storeString_post (Q : DState → Prop) (hQ : SaveClosed Q) (item : Bytes) (bt : GoType) (bv : DV) (fq : Bool)
    (d : DState) (hq : Q d) (hu : fq = false → (unquoteBytes item).isSome = true) :
    RPost Q (storeString item bt bv fq d) := by
  simp only [storeString]
  cases hub : unquoteBytes item with
  | none =>
    cases fq with
    | true => exact True.intro
    | false => rw [hub] at hu; exact absurd (hu rfl) (by simp)
  | some s =>
    simp only []
    repeat' split
    all_goals first | exact hq | exact hQ _ _ hq | exact True.intro

theorem storeNumber_post (Q : DState → Prop) (hQ : SaveClosed Q) (item : Bytes) (bt : GoType) (bv : DV) (fq : Bool)
    (d : DState) (hq : Q d) : RPost Q (storeNumber item bt bv fq d) := by
  simp only [storeNumber]
  repeat' split
  all_goals first | exact hq | exact hQ _ _ hq | exact True.intro

theorem literalStore_post (Q : DState → Prop) (hQ : SaveClosed Q) (item : Bytes) (t : GoType) (cur : DV) (cs fq : Bool)
    (d : DState) (hq : Q d) (hcs : t.isPtr = true → cs = true) (hok : fq = false → LitOK item) :
    RPost Q (literalStore item t cur cs fq d) := by
  cases item with
  | nil => exact hQ _ _ hq
  | cons c rest =>
    simp only [literalStore]
    have h0 : (t.isPtr && !cs) = false := by
      cases hp : t.isPtr with
      | false => rfl
      | true => simp [hcs hp]
    simp only [h0, Bool.false_eq_true, if_false]
    split
    · split
      · exact hQ _ _ hq
      · split <;> exact hq
    · split
      · rw [RPost_map]; exact storeBool_post Q hQ _ _ _ _ _ hq
      · split
        · rename_i h34
          rw [RPost_map]
          refine storeString_post Q hQ _ _ _ _ _ hq ?_
          intro hf
          exact (hok hf).2 h34
        · split
          · rename_i h110 htf h34 hnd
            cases fq with
            | true => exact True.intro
            | false =>
              exfalso
              obtain ⟨hc, _⟩ := hok rfl
              rcases hc with h | h | h | h | h | h
              · exact h110 h
              · exact htf (.inl h)
              · exact htf (.inr h)
              · exact h34 h
              · exact hnd.1 h
              · simp [h] at hnd
          · rw [RPost_map]; exact storeNumber_post Q hQ _ _ _ _ _ hq

theorem litIfaceVal_of_ok : ∀ item : Bytes, LitOK item → ∃ v, litIfaceVal item = some v
  | [], h => h.elim
  | c :: r, ⟨hc, hu⟩ => by
    simp only [litIfaceVal]
    split
    · exact ⟨_, rfl⟩
    · split
      · exact ⟨_, rfl⟩
      · split
        · rename_i h34
          cases hub : unquoteBytes (c :: r) with
          | none => have := hu h34; rw [hub] at this; cases this
          | some s => exact ⟨_, rfl⟩
        · split
          · rename_i h110 htf h34 hnd
            exfalso
            rcases hc with h | h | h | h | h | h
            · exact h110 h
            · exact htf (.inl h)
            · exact htf (.inr h)
            · exact h34 h
            · exact hnd.1 h
            · simp [h] at hnd
          · exact ⟨_, rfl⟩

theorem ascii_true : ascii "true" = [116, 114, 117, 101] := by rfl
theorem ascii_false : ascii "false" = [102, 97, 108, 115, 101] := by rfl
theorem ascii_null : ascii "null" = [110, 117, 108, 108] := by rfl

theorem litOK_null : LitOK nullLiteral := by
  rw [nullLiteral, ascii_null]
  exact ⟨.inl rfl, fun h => absurd h (by decide)⟩

theorem litOK_word (w : Bytes) (hw : w = ascii "true" ∨ w = ascii "false" ∨ w = ascii "null") : LitOK w := by
  rcases hw with rfl | rfl | rfl
  · rw [ascii_true]; exact ⟨.inr (.inl rfl), fun h => absurd h (by decide)⟩
  · rw [ascii_false]; exact ⟨.inr (.inr (.inl rfl)), fun h => absurd h (by decide)⟩
  · rw [ascii_null]; exact ⟨.inl rfl, fun h => absurd h (by decide)⟩

theorem litOK_str (b : Bytes) (hvb : VB b) : LitOK (strText b) := by
  have := unquoteBytes_strText b hvb
  simp only [strText] at this ⊢
  exact ⟨.inr (.inr (.inr (.inl rfl))), fun _ => by rw [this]; rfl⟩

theorem litOK_num (c : UInt8) (lt : Bytes) (hc : c = 45 ∨ isDigit c = true) : LitOK (c :: lt) := by
  obtain ⟨_, _, h3, _, _, _⟩ := numHead_spec c hc
  refine ⟨?_, fun h => absurd h h3⟩
  rcases hc with h | h
  · exact .inr (.inr (.inr (.inr (.inl h))))
  · exact .inr (.inr (.inr (.inr (.inr h))))

/-! ### the three consumers on a literal -/

theorem consumes_lit (Q : DState → Prop) (hQ : SaveClosed Q) (G : Nat) (D D1 : DState) (item : Bytes)
    (hop : D.opcode = scanBeginLiteral) (hres : rescanLiteral D = .ok D1)
    (hslice : slice? D1.data D.readIndex D1.readIndex = some item) (hitem : LitOK item) (hq : Q D1) :
    Consumes (G + 1) Q D := by
  have e1 : (scanBeginLiteral = scanBeginArray) = False := by decide
  have e2 : (scanBeginLiteral = scanBeginObject) = False := by decide
  refine ⟨?_, ?_, ?_⟩
  · intro t cur cs hinv
    simp only [value, hop, e1, e2, if_false, if_true, hres, hslice]
    exact literalStore_post Q hQ item t cur cs false D1 hq hinv.2.2 (fun _ => hitem)
  · simp only [valueSkip, hop, e1, e2, or_self, if_false, if_true, hres]
    exact hq
  · intro t cur cs hcs
    obtain ⟨v, hv⟩ := litIfaceVal_of_ok item hitem
    have hli := literalInterface_of D D1 item v hres hslice hv
    simp only [quotedValue, hop, e1, e2, or_self, if_false, if_true, hli]
    cases v with
    | null => exact literalStore_post Q hQ _ _ _ _ _ _ hq hcs (fun _ => litOK_null)
    | str s => exact literalStore_post Q hQ _ _ _ _ _ _ hq hcs (fun h => by cases h)
    | _ => exact hQ _ _ hq

/-! ### the statement about values, and the literal cases -/

def PosV (f dd : Nat) (bs : Bytes) (c : Cst) (rest : Bytes) : Prop :=
  parseValue f dd bs = some (c, rest) →
  ∀ stk : List Nat, stk.length = dd → ValueStk stk → ∀ (pre : Bytes) (x : UInt8) (bs' : Bytes), bs = x :: bs' →
    DelimW rest →
    ∃ vt, bs = vt ++ rest ∧ StartOp (step (bv stk) x).2 ∧
      ∀ (se : Option DErr) (lk : List Bytes) (G : Nat), 3 * f ≤ G →
        Consumes G (PostQ (pre ++ bs) (pre ++ vt).length stk rest)
          (atD (pre ++ bs) (pre.length + 1) (step (bv stk) x) se lk)

theorem pos_lit (bs rest vt : Bytes) (hbs : bs = vt ++ rest) (x : UInt8) (bs' : Bytes)
    (hx : bs = x :: bs') (stk : List Nat) (X : St) (hX : step (bv stk) x = (mk X stk, scanBeginLiteral))
    (hres : ∀ (pre : Bytes) (se : Option DErr) (lk : List Bytes),
      rescanLiteral (atD (pre ++ (vt ++ rest)) (pre.length + 1) (mk X stk, scanBeginLiteral) se lk) =
        .ok (atD (pre ++ (vt ++ rest)) ((pre ++ vt).length + 1) (afterLit (mk X stk) rest) se lk))
    (hitem : LitOK vt) (pre : Bytes) :
    ∃ vt, bs = vt ++ rest ∧ StartOp (step (bv stk) x).2 ∧
      ∀ (se : Option DErr) (lk : List Bytes) (G : Nat), 1 ≤ G →
        Consumes G (PostQ (pre ++ bs) (pre ++ vt).length stk rest)
          (atD (pre ++ bs) (pre.length + 1) (step (bv stk) x) se lk) := by
  refine ⟨vt, hbs, by rw [hX]; exact .inl rfl, ?_⟩
  intro se lk G hG
  obtain ⟨G, rfl⟩ : ∃ G', G = G' + 1 := ⟨G - 1, by omega⟩
  rw [hX, hbs]
  have hsl : slice? (atD (pre ++ (vt ++ rest)) ((pre ++ vt).length + 1) (afterLit (mk X stk) rest) se lk).data
      (atD (pre ++ (vt ++ rest)) (pre.length + 1) (mk X stk, scanBeginLiteral) se lk).readIndex
      (atD (pre ++ (vt ++ rest)) ((pre ++ vt).length + 1) (afterLit (mk X stk) rest) se lk).readIndex = some vt := by
    simp only [DState.readIndex, atD_off, atD_data, Nat.add_sub_cancel, slice_mid]
  exact consumes_lit _ (postQ_saveClosed _ _ _ _) G _ _ vt rfl (hres pre se lk) hsl hitem
    ⟨se, lk, postV_atD _ _ stk _ rest se lk⟩

theorem pos_str (f d : Nat) (cs b rest : Bytes) (h : parseStrBody cs = some (b, rest)) :
    PosV (f + 1) d (34 :: cs) (.str b) rest := by
  intro hp stk _ _ pre x bs' hx _
  obtain ⟨hcs, hvb⟩ := parseStrBody_split cs b rest h
  have hx' := hx
  simp only [List.cons.injEq] at hx'
  obtain ⟨rfl, _⟩ := hx'
  have hdata : (34 : UInt8) :: cs = strText b ++ rest := by rw [hcs]; simp [strText]
  obtain ⟨vt, h1, h2, h3⟩ := pos_lit _ rest (strText b) hdata 34 bs' hx stk .stateInString (step_bv_quote stk)
    (fun pre se lk => rescan_string pre b rest hvb _ _ se lk) (litOK_str b hvb) pre
  exact ⟨vt, h1, h2, fun se lk G hG => h3 se lk G (by omega)⟩

theorem pos_word (f d : Nat) (w rest : Bytes) (hw : w = ascii "true" ∨ w = ascii "false" ∨ w = ascii "null") :
    PosV (f + 1) d (w ++ rest) (.lit w) rest := by
  intro hp stk _ _ pre x bs' hx _
  have hres := fun (X : St) (pre : Bytes) (se : Option DErr) (lk : List Bytes) =>
    rescan_word pre w rest hw (mk X stk) scanBeginLiteral se lk
  have hok := litOK_word w hw
  have key : ∀ X, step (bv stk) x = (mk X stk, scanBeginLiteral) →
      ∃ vt, w ++ rest = vt ++ rest ∧ StartOp (step (bv stk) x).2 ∧
      ∀ (se : Option DErr) (lk : List Bytes) (G : Nat), 3 * (f + 1) ≤ G →
        Consumes G (PostQ (pre ++ (w ++ rest)) (pre ++ vt).length stk rest)
          (atD (pre ++ (w ++ rest)) (pre.length + 1) (step (bv stk) x) se lk) := by
    intro X hX
    obtain ⟨vt, h1, h2, h3⟩ := pos_lit _ rest w rfl x bs' hx stk X hX (hres X) hok pre
    exact ⟨vt, h1, h2, fun se lk G hG => h3 se lk G (by omega)⟩
  rcases hw with rfl | rfl | rfl
  · have : x = 116 := by simp [ascii] at hx; exact hx.1.symm
    subst this
    exact key _ (step_bv_t stk)
  · have : x = 102 := by simp [ascii] at hx; exact hx.1.symm
    subst this
    exact key _ (step_bv_f stk)
  · have : x = 110 := by simp [ascii] at hx; exact hx.1.symm
    subst this
    exact key _ (step_bv_n stk)

theorem pos_num (f d : Nat) (c : UInt8) (cs l rest : Bytes) (hc : c = 45 ∨ isDigit c = true)
    (hpn : parseNumber (c :: cs) = some (l, rest)) : PosV (f + 1) d (c :: cs) (.lit l) rest := by
  intro hp stk _ _ pre x bs' hx hdl
  have hx' := hx
  simp only [List.cons.injEq] at hx'
  obtain ⟨rfl, _⟩ := hx'
  obtain ⟨hsp, hself⟩ := parseNumber_prefix _ _ _ hpn
  have halpha := parseNumber_alphabet _ _ _ hpn
  obtain ⟨c', lt, hl, _⟩ := parseNumber_head l l [] hself
  subst hl
  have hcc : c' = c := by simp only [List.cons_append, List.cons.injEq] at hsp; exact hsp.1.symm
  subst hcc
  obtain ⟨X, hX⟩ := step_bv_numhead stk c' hc
  obtain ⟨vt, h1, h2, h3⟩ := pos_lit _ rest (c' :: lt) hsp c' bs' hx stk X hX
    (fun pre se lk => rescan_number pre c' lt rest hc (fun b hb => halpha b (List.mem_cons_of_mem _ hb))
      (delimW_numEnd rest hdl) _ _ se lk)
    (litOK_num c' lt hc) pre
  exact ⟨vt, h1, h2, fun se lk G hG => h3 se lk G (by omega)⟩

end TDec
end Codec
end JP
