import JP.Check
import JP.Lemmas.CloseWN

/-!
# Passing tests are transparent, part 1: printing is insensitive to the parse state

`KC e c`: the raw message `c` is well formed, every member name in it is spelled the way the
encoder (with escaping flag `e`) spells it (`keyRespelled e c = false`) and no object in it
repeats a (decoded) name.  For such a tree parsing it completely and printing the result gives
what `compact` gives: `cstOf e (deepParseC c) = Cst.escape e c` (`cstOf_deepParseC`).

`KN e n`: every raw message inside the node `n` is `KC`, and the order list of every parsed
object inside `n` is duplicate-free and consists of names that survive the encoder (`QK`).
Then `cstOf e (deepParse n) = cstOf e n` (`cstOf_deepParse`), and what `deepCopy` produces is
again `KC` (`KC_cstOf`).
-/

namespace JP
namespace Impl

/-! ### `keyRespelled`, list forms -/

theorem keyRespelledL_false_iff (e : Bool) (xs : List Cst) :
    keyRespelledL e xs = false ↔ ∀ x ∈ xs, keyRespelled e x = false := by
  induction xs with
  | nil => simp [keyRespelledL]
  | cons x xs ih => simp [keyRespelledL, ih]

theorem keyRespelledM_false_iff (e : Bool) (ms : List (Bytes × Cst)) :
    keyRespelledM e ms = false ↔
      ∀ m ∈ ms, quoteBody e (unquote m.1) = escB e m.1 ∧ keyRespelled e m.2 = false := by
  induction ms with
  | nil => simp [keyRespelledM]
  | cons m ms ih =>
    obtain ⟨k, v⟩ := m
    simp only [keyRespelledM, Bool.or_eq_false_iff, ih, List.mem_cons, forall_eq_or_imp, escB, bne_eq_false_iff_eq,
      and_assoc]

/-- well formed, names encoder-spelled, no repeated names -/
def KC (e : Bool) (c : Cst) : Prop := WFC c = true ∧ keyRespelled e c = false ∧ c.valueOf.noDup = true

theorem KC_litNull (e : Bool) : KC e litNull := ⟨WFC_litNull, rfl, rfl⟩

theorem KC_arr {e : Bool} {xs : List Cst} (h : KC e (.arr xs)) : ∀ x ∈ xs, KC e x := by
  obtain ⟨h1, h2, h3⟩ := h
  intro x hx
  simp only [WFC] at h1
  simp only [keyRespelled] at h2
  exact ⟨(WFCL_iff xs).1 h1 x hx, (keyRespelledL_false_iff e xs).1 h2 x hx, noDup_arr h3 x hx⟩

theorem KC_obj {e : Bool} {ms : List (Bytes × Cst)} (h : KC e (.obj ms)) :
    (decodeKeys ms).Nodup ∧
      ∀ m ∈ ms, validBody m.1 = true ∧ quoteBody e (unquote m.1) = escB e m.1 ∧ KC e m.2 := by
  obtain ⟨h1, h2, h3⟩ := h
  simp only [WFC] at h1
  simp only [keyRespelled] at h2
  obtain ⟨hk, hv⟩ := noDup_obj h3
  refine ⟨hk, ?_⟩
  intro m hm
  have a := (WFCM_iff ms).1 h1 m hm
  have b := (keyRespelledM_false_iff e ms).1 h2 m hm
  exact ⟨a.1, b.1, a.2, b.2, hv m hm⟩

/-! ### `deepParseCM` on duplicate-free names -/

theorem deepParseCM_eq (ms : List (Bytes × Cst)) (acc : NMembers)
    (h : (acc.map Prod.fst ++ decodeKeys ms).Nodup) :
    deepParseCM ms acc = acc ++ ms.map (fun m => (unquote m.1, deepParseC m.2)) := by
  induction ms generalizing acc with
  | nil => simp [deepParseCM]
  | cons m ms ih =>
    obtain ⟨k, v⟩ := m
    simp only [deepParseCM]
    have hk : unquote k ∉ acc.map Prod.fst := by
      intro hmem
      simp only [decodeKeys, List.map_cons] at h
      rw [List.nodup_append] at h
      exact h.2.2 _ hmem _ (List.mem_cons_self) rfl
    rw [setN_append_of_not_mem _ _ _ hk, ih]
    · simp
    · simp only [decodeKeys, List.map_cons, List.map_append, List.map_nil] at h ⊢
      simpa using h

theorem deepParseCM_nil (ms : List (Bytes × Cst)) (h : (decodeKeys ms).Nodup) :
    deepParseCM ms [] = ms.map (fun m => (unquote m.1, deepParseC m.2)) := by
  have := deepParseCM_eq ms [] (by simpa using h)
  simpa using this

theorem cstOfM_eq_map (e : Bool) (obj : NMembers) :
    cstOfM e obj = obj.map fun kn => (kn.1, cstOf e kn.2) := by
  induction obj with
  | nil => rfl
  | cons m ms ih => obtain ⟨k, n⟩ := m; simp [cstOfM, ih]

theorem cstOfL_eq_map (e : Bool) (ns : List Node) : cstOfL e ns = ns.map (cstOf e) := by
  induction ns with
  | nil => rfl
  | cons n ns ih => simp [cstOfL, ih]

theorem escapeL_eq_map (e : Bool) (xs : List Cst) : Cst.escapeL e xs = xs.map (Cst.escape e) := by
  induction xs with
  | nil => rfl
  | cons x xs ih => simp [Cst.escapeL, ih]

theorem escapeM_eq_map (e : Bool) (ms : List (Bytes × Cst)) :
    Cst.escapeM e ms = ms.map fun m => (escB e m.1, Cst.escape e m.2) := by
  induction ms with
  | nil => rfl
  | cons m ms ih => obtain ⟨k, v⟩ := m; simp [Cst.escapeM, ih, escB]

theorem deepParseCL_eq_map (xs : List Cst) : deepParseCL xs = xs.map deepParseC := by
  induction xs with
  | nil => rfl
  | cons x xs ih => simp [deepParseCL, ih]

theorem deepParseL_eq_map (ns : List Node) : deepParseL ns = ns.map deepParse := by
  induction ns with
  | nil => rfl
  | cons n ns ih => simp [deepParseL, ih]

theorem deepParseM_eq_map (obj : NMembers) : deepParseM obj = obj.map fun kn => (kn.1, deepParse kn.2) := by
  induction obj with
  | nil => rfl
  | cons m ms ih => obtain ⟨k, n⟩ := m; simp [deepParseM, ih]

/-- the object a parsed raw object prints as: the generic key/lookup step -/
theorem cstOf_doc_of_nodup (e : Bool) (keys : List Bytes) (obj : NMembers) (hk : keys = obj.map Prod.fst)
    (hnd : keys.Nodup) :
    cstOf e (.doc keys obj) = .obj (obj.map fun kn => (quoteBody e kn.1, cstOf e kn.2)) := by
  subst hk
  simp only [cstOf]
  congr 1
  have := map_keys_lookup (β := Cst) (γ := Bytes × Cst) lookupC (by intro k k' b ms; rfl)
    (fun k o => (quoteBody e k, o.getD litNull)) (cstOfM e obj)
    (by rw [cstOfM_keys]; exact (nodupKeys_iff _).2 hnd)
  rw [cstOfM_keys] at this
  rw [this, cstOfM_eq_map]
  simp

/-! ### parsing completely and printing = `compact` -/

mutual
theorem cstOf_deepParseC (e : Bool) : ∀ c : Cst, KC e c → cstOf e (deepParseC c) = Cst.escape e c
  | .lit s, _ => by
    simp only [deepParseC]
    split
    · next hs => subst hs; rfl
    · rfl
  | .str b, _ => rfl
  | .arr xs, h => by
    simp only [deepParseC, cstOf, Cst.escape]
    rw [cstOfL_deepParseCL e xs (KC_arr h)]
  | .obj ms, h => by
    obtain ⟨hk, hm⟩ := KC_obj h
    simp only [deepParseC, Cst.escape]
    rw [deepParseCM_nil ms hk]
    rw [cstOf_doc_of_nodup e _ _ (by simp [decodeKeys, Function.comp_def]) hk]
    congr 1
    simp only [List.map_map, Function.comp_def]
    exact cstOfM_deepParseCM e ms hm
theorem cstOfL_deepParseCL (e : Bool) : ∀ xs : List Cst, (∀ x ∈ xs, KC e x) →
    cstOfL e (deepParseCL xs) = Cst.escapeL e xs
  | [], _ => rfl
  | x :: xs, h => by
    simp only [deepParseCL, cstOfL, Cst.escapeL]
    rw [cstOf_deepParseC e x (h x (by simp)), cstOfL_deepParseCL e xs (fun y hy => h y (by simp [hy]))]
theorem cstOfM_deepParseCM (e : Bool) : ∀ ms : List (Bytes × Cst),
    (∀ m ∈ ms, validBody m.1 = true ∧ quoteBody e (unquote m.1) = escB e m.1 ∧ KC e m.2) →
    ms.map (fun m => (quoteBody e (unquote m.1), cstOf e (deepParseC m.2))) = Cst.escapeM e ms
  | [], _ => rfl
  | (k, v) :: ms, h => by
    have h1 := h (k, v) (by simp)
    simp only [List.map_cons, Cst.escapeM]
    rw [cstOf_deepParseC e v h1.2.2, cstOfM_deepParseCM e ms (fun m hm => h m (by simp [hm])), h1.2.1]
    rfl
end

/-! ### the invariant on nodes -/

mutual
def KN (e : Bool) : Node → Prop
  | .raw c => KC e c
  | .doc keys obj => keys.Nodup ∧ (∀ k ∈ keys, QK e k = true) ∧ KNM e obj
  | .ary ns => KNL e ns
  | _ => True
def KNM (e : Bool) : NMembers → Prop
  | [] => True
  | (_, n) :: ms => KN e n ∧ KNM e ms
def KNL (e : Bool) : List Node → Prop
  | [] => True
  | n :: ns => KN e n ∧ KNL e ns
end

theorem KNL_iff (e : Bool) (ns : List Node) : KNL e ns ↔ ∀ n ∈ ns, KN e n := by
  induction ns with
  | nil => simp [KNL]
  | cons n ns ih => simp [KNL, ih]

theorem KNM_iff (e : Bool) (ms : NMembers) : KNM e ms ↔ ∀ kn ∈ ms, KN e kn.2 := by
  induction ms with
  | nil => simp [KNM]
  | cons m ms ih => obtain ⟨k, n⟩ := m; simp [KNM, ih]

theorem KN_nil (e : Bool) : KN e .nil := by simp [KN]

theorem KN_ary (e : Bool) (ns : List Node) : KN e (.ary ns) ↔ ∀ n ∈ ns, KN e n := by
  simp only [KN, KNL_iff]

theorem KN_doc (e : Bool) (keys : List Bytes) (obj : NMembers) :
    KN e (.doc keys obj) ↔ keys.Nodup ∧ (∀ k ∈ keys, QK e k = true) ∧ ∀ kn ∈ obj, KN e kn.2 := by
  simp only [KN, KNM_iff]

mutual
theorem KN_WN (e : Bool) : ∀ n : Node, KN e n → WN n = true
  | .nil, _ => rfl
  | .raw c, h => by simp only [KN] at h; exact h.1
  | .doc keys obj, h => by simp only [KN] at h; simp only [WN]; exact KNM_WNM e obj h.2.2
  | .ary ns, h => by simp only [KN] at h; simp only [WN]; exact KNL_WNL e ns h
  | .docNil, _ => rfl
  | .nilAry, _ => rfl
theorem KNM_WNM (e : Bool) : ∀ obj : NMembers, KNM e obj → WNM obj = true
  | [], _ => rfl
  | (k, n) :: ms, h => by
    simp only [KNM] at h
    simp only [WNM, KN_WN e n h.1, KNM_WNM e ms h.2, Bool.and_self]
theorem KNL_WNL (e : Bool) : ∀ ns : List Node, KNL e ns → WNL ns = true
  | [], _ => rfl
  | n :: ns, h => by
    simp only [KNL] at h
    simp only [WNL, KN_WN e n h.1, KNL_WNL e ns h.2, Bool.and_self]
end

/-! ### printing is insensitive to `deepParse` -/

theorem lookupC_cstOfM (e : Bool) (k : Bytes) (obj : NMembers) :
    lookupC k (cstOfM e obj) = (lookupN k obj).map (cstOf e) := by
  induction obj with
  | nil => rfl
  | cons m ms ih =>
    obtain ⟨k', n⟩ := m
    simp only [cstOfM, lookupC, lookupN]
    split
    · rfl
    · exact ih

theorem lookupN_deepParseM (k : Bytes) (obj : NMembers) :
    lookupN k (deepParseM obj) = (lookupN k obj).map deepParse := by
  induction obj with
  | nil => rfl
  | cons m ms ih =>
    obtain ⟨k', n⟩ := m
    simp only [deepParseM, lookupN]
    split
    · rfl
    · exact ih

mutual
theorem cstOf_deepParse (e : Bool) : ∀ n : Node, KN e n → cstOf e (deepParse n) = cstOf e n
  | .nil, _ => rfl
  | .docNil, _ => rfl
  | .nilAry, _ => rfl
  | .raw c, h => by
    simp only [KN] at h
    simp only [deepParse]
    split
    · rw [cstOf_deepParseC e c h]; rfl
    · rfl
  | .ary ns, h => by
    simp only [KN] at h
    simp only [deepParse, cstOf, cstOfL_deepParseL e ns h]
  | .doc keys obj, h => by
    simp only [KN] at h
    simp only [deepParse, cstOf]
    congr 1
    apply List.map_congr_left
    intro k _
    rw [lookupC_cstOfM, lookupC_cstOfM, lookupN_deepParseM]
    cases hl : lookupN k obj with
    | none => rfl
    | some n =>
      simp only [Option.map_some, Option.getD_some]
      rw [cstOf_deepParse_lookup e obj h.2.2 k n hl]
theorem cstOf_deepParse_lookup (e : Bool) : ∀ obj : NMembers, KNM e obj → ∀ k n, lookupN k obj = some n →
    cstOf e (deepParse n) = cstOf e n
  | [], _, k, n, hl => by simp [lookupN] at hl
  | (k', n') :: ms, h, k, n, hl => by
    simp only [KNM] at h
    simp only [lookupN] at hl
    split at hl
    · simp only [Option.some.injEq] at hl; subst hl; exact cstOf_deepParse e n' h.1
    · exact cstOf_deepParse_lookup e ms h.2 k n hl
theorem cstOfL_deepParseL (e : Bool) : ∀ ns : List Node, KNL e ns → cstOfL e (deepParseL ns) = cstOfL e ns
  | [], _ => rfl
  | n :: ns, h => by
    simp only [KNL] at h
    simp only [deepParseL, cstOfL, cstOf_deepParse e n h.1, cstOfL_deepParseL e ns h.2]
end

/-! ### what the encoder writes is again `KC` -/

/-- the two non-WFC parts of `KC` -/
def KC2 (e : Bool) (c : Cst) : Prop := keyRespelled e c = false ∧ c.valueOf.noDup = true

theorem KC2_litNull (e : Bool) : KC2 e litNull := ⟨rfl, rfl⟩

mutual
theorem keyRespelled_escape (e : Bool) : ∀ c : Cst, WFC c = true → keyRespelled e c = false →
    keyRespelled e (Cst.escape e c) = false
  | .lit _, _, _ => rfl
  | .str _, _, _ => rfl
  | .arr xs, h1, h2 => by
    simp only [WFC] at h1
    simp only [keyRespelled] at h2
    simp only [Cst.escape, keyRespelled, keyRespelledL_escape e xs h1 h2]
  | .obj ms, h1, h2 => by
    simp only [WFC] at h1
    simp only [keyRespelled] at h2
    simp only [Cst.escape, keyRespelled, keyRespelledM_escape e ms h1 h2]
theorem keyRespelledL_escape (e : Bool) : ∀ xs : List Cst, WFCL xs = true → keyRespelledL e xs = false →
    keyRespelledL e (Cst.escapeL e xs) = false
  | [], _, _ => rfl
  | x :: xs, h1, h2 => by
    simp only [WFCL, Bool.and_eq_true] at h1
    simp only [keyRespelledL, Bool.or_eq_false_iff] at h2
    simp only [Cst.escapeL, keyRespelledL, keyRespelled_escape e x h1.1 h2.1, keyRespelledL_escape e xs h1.2 h2.2,
      Bool.or_self]
theorem keyRespelledM_escape (e : Bool) : ∀ ms : List (Bytes × Cst), WFCM ms = true → keyRespelledM e ms = false →
    keyRespelledM e (Cst.escapeM e ms) = false
  | [], _, _ => rfl
  | (k, v) :: ms, h1, h2 => by
    simp only [WFCM, Bool.and_eq_true] at h1
    simp only [keyRespelledM, Bool.or_eq_false_iff, bne_eq_false_iff_eq] at h2
    have hE := EscOK_of_validBody e k h1.1.1
    simp only [EscOK, Bool.and_eq_true, beq_iff_eq] at hE
    have hk : quoteBody e (unquote (escB e k)) = escB e (escB e k) := by
      rw [hE.1, hE.2]; exact h2.1.1
    simp only [Cst.escapeM, keyRespelledM, keyRespelled_escape e v h1.1.2 h2.1.2,
      keyRespelledM_escape e ms h1.2 h2.2, Bool.or_false, bne_eq_false_iff_eq]
    exact hk
end

theorem KC2_escape {e : Bool} {c : Cst} (h : KC e c) : KC2 e (Cst.escape e c) :=
  ⟨keyRespelled_escape e c h.1 h.2.1, by rw [valueOf_escape e c (CstOK_of_WFC e c h.1)]; exact h.2.2⟩

theorem lookupC_mem {k : Bytes} {ms : List (Bytes × Cst)} {c : Cst} (h : lookupC k ms = some c) : (k, c) ∈ ms := by
  induction ms with
  | nil => simp [lookupC] at h
  | cons m ms ih =>
    obtain ⟨k', c'⟩ := m
    simp only [lookupC] at h
    split at h
    · next hk => simp only [Option.some.injEq] at h; subst hk; subst h; simp
    · exact List.mem_cons_of_mem _ (ih h)

mutual
theorem KC2_cstOf (e : Bool) : ∀ n : Node, KN e n → KC2 e (cstOf e n)
  | .nil, _ => KC2_litNull e
  | .docNil, _ => KC2_litNull e
  | .nilAry, _ => KC2_litNull e
  | .raw c, h => by simp only [KN] at h; exact KC2_escape h
  | .ary ns, h => by
    simp only [KN] at h
    have := KC2_cstOfL e ns h
    refine ⟨?_, ?_⟩
    · simp only [cstOf, keyRespelled, keyRespelledL_false_iff]
      exact fun x hx => (this x hx).1
    · simp only [cstOf, Cst.valueOf, Value.noDup, noDupL_iff, valueOfL_eq_map]
      intro v hv
      obtain ⟨x, hx, rfl⟩ := List.mem_map.1 hv
      exact (this x hx).2
  | .doc keys obj, h => by
    simp only [KN] at h
    obtain ⟨hnd, hq, hm⟩ := h
    have hval : ∀ k, KC2 e ((lookupC k (cstOfM e obj)).getD litNull) := fun k =>
      lookupC_getD_mem (P := KC2 e) (KC2_litNull e) (fun c hc => KC2_cstOfM e obj hm k c hc)
    refine ⟨?_, ?_⟩
    · simp only [cstOf, keyRespelled, keyRespelledM_false_iff]
      intro m hmem
      obtain ⟨k, hk, rfl⟩ := List.mem_map.1 hmem
      have hQ := hq k hk
      simp only [QK, Bool.and_eq_true, beq_iff_eq] at hQ
      exact ⟨by simp only [hQ.1, hQ.2], (hval k).1⟩
    · simp only [cstOf, Cst.valueOf, Value.noDup, Bool.and_eq_true, valueOfM_keys, nodupKeys_iff, noDupM_iff]
      constructor
      · have : decodeKeys (keys.map fun k => (quoteBody e k, (lookupC k (cstOfM e obj)).getD litNull)) = keys := by
          simp only [decodeKeys, List.map_map, Function.comp_def]
          conv => rhs; rw [← List.map_id keys]
          apply List.map_congr_left
          intro k hk
          exact QK_eq (hq k hk)
        rw [this]; exact hnd
      · intro m hmem
        rw [valueOfM_eq_map] at hmem
        obtain ⟨x, hx, rfl⟩ := List.mem_map.1 hmem
        obtain ⟨k, hk, rfl⟩ := List.mem_map.1 hx
        exact (hval k).2
theorem KC2_cstOfM (e : Bool) : ∀ obj : NMembers, KNM e obj → ∀ k c, lookupC k (cstOfM e obj) = some c → KC2 e c
  | [], _, k, c, hc => by simp [cstOfM, lookupC] at hc
  | (k', n) :: ms, h, k, c, hc => by
    simp only [KNM] at h
    simp only [cstOfM, lookupC] at hc
    split at hc
    · simp only [Option.some.injEq] at hc; subst hc; exact KC2_cstOf e n h.1
    · exact KC2_cstOfM e ms h.2 k c hc
theorem KC2_cstOfL (e : Bool) : ∀ ns : List Node, KNL e ns → ∀ x ∈ cstOfL e ns, KC2 e x
  | [], _, x, hx => by simp [cstOfL] at hx
  | n :: ns, h, x, hx => by
    simp only [KNL] at h
    simp only [cstOfL, List.mem_cons] at hx
    rcases hx with rfl | hx
    · exact KC2_cstOf e n h.1
    · exact KC2_cstOfL e ns h.2 x hx
end

/-- **what `deepCopy` writes is again `KC`** -/
theorem KC_cstOf (e : Bool) (n : Node) (h : KN e n) : KC e (cstOf e n) :=
  ⟨WFC_cstOf e n (KN_WN e n h), (KC2_cstOf e n h).1, (KC2_cstOf e n h).2⟩

end Impl
end JP
