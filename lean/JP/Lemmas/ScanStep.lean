import JP.Lemmas.ScanBasic
import JP.Cst
import JP.Lemmas.ParseAux

/-!
# Transition tables of the scanner on the configurations met during a valid scan
-/

namespace JP
namespace Scanner

/-- a configuration of a scan in progress: no error, top-level value not finished -/
def mk (st : St) (stk : List Nat) : Scan := ⟨st, stk, false, false⟩
/-- "begin value" with the given stack -/
abbrev bv (stk : List Nat) : Scan := mk .stateBeginValue stk
/-- "a value has just ended" with the given stack -/
abbrev ev (stk : List Nat) : Scan := mk .stateEndValue stk
/-- the error configuration -/
def errS (stk : List Nat) : Scan := ⟨.stateError, stk, false, true⟩
/-- top-level value complete -/
def topS : Scan := ⟨.stateEndTop, [], true, false⟩

theorem isSpace_eq_isWs (c : UInt8) : isSpace c = isWs c := rfl

theorem isDigit_32 : isDigit 32 = false := by decide
theorem isHex'_32 : hexStep.isHex' 32 = false := by decide

/-! ### generic facts on `validFrom` -/

theorem vf_step_error {s : Scan} {c : UInt8} (h : (step s c).2 = scanError) (cs : Bytes) :
    validFrom s (c :: cs) = false := by
  rw [validFrom_cons]; simp [h]

theorem vf_step {s s' : Scan} {c : UInt8} {op : Nat} (h : step s c = (s', op)) (hop : op ≠ scanError)
    (cs : Bytes) : validFrom s (c :: cs) = validFrom s' cs := by
  rw [validFrom_cons, h]; simp [hop]

theorem vf_err (s : Scan) (h1 : s.st = .stateError) (h2 : s.err = true) (bs : Bytes) :
    validFrom s bs = false := by
  cases bs with
  | nil => simp [eof, h2]
  | cons c cs => exact vf_step_error (by simp [step, h1]) cs

theorem vf_errS (stk : List Nat) (bs : Bytes) : validFrom (errS stk) bs = false := vf_err _ rfl rfl bs

/-- a step that yields the error configuration (with whatever opcode) makes the text invalid -/
theorem vf_step_errS {s : Scan} {c : UInt8} {stk : List Nat} (h : (step s c).1 = errS stk) (cs : Bytes) :
    validFrom s (c :: cs) = false := by
  rw [validFrom_cons]; split
  · rfl
  · rw [h]; exact vf_errS _ _

/-- two configurations that agree on `eof` and on the next step are interchangeable -/
theorem vf_congr {s s' : Scan} (bs : Bytes) (h0 : bs = [] → eof s = eof s')
    (h1 : ∀ c cs, bs = c :: cs → step s c = step s' c) : validFrom s bs = validFrom s' bs := by
  cases bs with
  | nil => exact h0 rfl
  | cons c cs => rw [validFrom_cons, validFrom_cons, h1 c cs rfl]

theorem vf_skipWs {s : Scan} (h : ∀ c, isWs c = true → step s c = (s, scanSkipSpace)) (bs : Bytes) :
    validFrom s bs = validFrom s (skipWs bs) := by
  induction bs with
  | nil => rfl
  | cons c cs ih =>
    simp only [skipWs]
    split
    · rename_i hc
      rw [vf_step (h c hc) (by decide)]; exact ih
    · rfl

/-- first byte is not white space (or there is none) -/
def NoWs (bs : Bytes) : Prop := ∀ c cs, bs = c :: cs → isWs c = false

theorem noWs_skipWs (bs : Bytes) : NoWs (skipWs bs) := by
  induction bs with
  | nil => intro c cs h; simp [skipWs] at h
  | cons a as ih =>
    simp only [skipWs]
    split
    · exact ih
    · intro c cs h
      simp only [List.cons.injEq] at h
      obtain ⟨rfl, _⟩ := h
      simp_all

theorem skipWs_length (bs : Bytes) : (skipWs bs).length ≤ bs.length := by
  induction bs with
  | nil => simp [skipWs]
  | cons a as ih =>
    simp only [skipWs]
    split <;> simp only [List.length_cons] <;> omega

theorem skipWs_of_noWs {bs : Bytes} (h : NoWs bs) : skipWs bs = bs := by
  cases bs with
  | nil => rfl
  | cons c cs => simp [skipWs, h c cs rfl]

/-! ### `stateEndValue` does not look at the current state -/

theorem stateEndValue_mk (X : St) (stk : List Nat) (c : UInt8) :
    stateEndValue (mk X stk) c = stateEndValue (ev stk) c := by
  cases stk with
  | nil => rfl
  | cons p stk =>
    simp only [stateEndValue, mk, Scan.goto, Scan.error, Scan.pop]
    rfl

theorem step_ev (stk : List Nat) (c : UInt8) : step (ev stk) c = stateEndValue (ev stk) c := rfl

/-! ### begin-value -/

theorem step_bv_ws (stk : List Nat) (c : UInt8) (h : isWs c = true) :
    step (bv stk) c = (bv stk, scanSkipSpace) := by
  simp [step, mk, stateBeginValue, isSpace_eq_isWs, h]

theorem step_bv_lbrace (stk : List Nat) : step (bv stk) 123 =
    if stk.length + 1 ≤ maxNestingDepth then (mk .stateBeginStringOrEmpty (0 :: stk), scanBeginObject)
    else (errS (0 :: stk), scanError) := by
  simp [step, mk, stateBeginValue, isSpace, Scan.push, parseObjectKey, Scan.error, errS]

theorem step_bv_lbrack (stk : List Nat) : step (bv stk) 91 =
    if stk.length + 1 ≤ maxNestingDepth then (mk .stateBeginValueOrEmpty (2 :: stk), scanBeginArray)
    else (errS (2 :: stk), scanError) := by
  simp [step, mk, stateBeginValue, isSpace, Scan.push, parseArrayValue, Scan.error, errS]

theorem step_bv_quote (stk : List Nat) : step (bv stk) 34 = (mk .stateInString stk, scanBeginLiteral) := by
  simp [step, mk, stateBeginValue, isSpace, Scan.goto]
theorem step_bv_t (stk : List Nat) : step (bv stk) 116 = (mk .stateT stk, scanBeginLiteral) := by
  simp [step, mk, stateBeginValue, isSpace, Scan.goto]
theorem step_bv_f (stk : List Nat) : step (bv stk) 102 = (mk .stateF stk, scanBeginLiteral) := by
  simp [step, mk, stateBeginValue, isSpace, Scan.goto]
theorem step_bv_n (stk : List Nat) : step (bv stk) 110 = (mk .stateN stk, scanBeginLiteral) := by
  simp [step, mk, stateBeginValue, isSpace, Scan.goto]
theorem step_bv_minus (stk : List Nat) : step (bv stk) 45 = (mk .stateNeg stk, scanBeginLiteral) := by
  simp [step, mk, stateBeginValue, isSpace, Scan.goto]

/-- begin-value on a byte that starts neither a container, string, literal name, nor `-` -/
theorem step_bv_num (stk : List Nat) (c : UInt8) (hws : isWs c = false) (h1 : c ≠ 123) (h2 : c ≠ 91)
    (h3 : c ≠ 34) (h4 : c ≠ 116) (h5 : c ≠ 102) (h6 : c ≠ 110) (h7 : c ≠ 45) :
    step (bv stk) c = if c = 48 then (mk .state0 stk, scanBeginLiteral)
      else if 49 ≤ c.toNat ∧ c.toNat ≤ 57 then (mk .state1 stk, scanBeginLiteral)
      else (errS stk, scanError) := by
  simp [step, mk, stateBeginValue, isSpace_eq_isWs, hws, h1, h2, h3, h4, h5, h6, h7, Scan.goto, Scan.error, errS]

theorem eof_bv (stk : List Nat) : eof (bv stk) = false := by
  simp [eof, mk, step, stateBeginValue, isSpace]

/-! ### begin-value-or-empty (after `[`) -/

theorem step_bvoe_ws (stk : List Nat) (c : UInt8) (h : isWs c = true) :
    step (mk .stateBeginValueOrEmpty stk) c = (mk .stateBeginValueOrEmpty stk, scanSkipSpace) := by
  simp [step, mk, stateBeginValueOrEmpty, isSpace_eq_isWs, h]

theorem step_bvoe_other (stk : List Nat) (c : UInt8) (hws : isWs c = false) (h : c ≠ 93) :
    step (mk .stateBeginValueOrEmpty stk) c = step (bv stk) c := by
  simp only [step, mk, stateBeginValueOrEmpty, isSpace_eq_isWs, hws, h, stateBeginValue,
    Scan.goto, Scan.push, Scan.error]
  rfl

theorem eof_bvoe (stk : List Nat) : eof (mk .stateBeginValueOrEmpty stk) = false := by
  simp [eof, mk, step, stateBeginValueOrEmpty, isSpace]

/-! ### begin-string, begin-string-or-empty (after `{`) -/

theorem step_bs_ws (stk : List Nat) (c : UInt8) (h : isWs c = true) :
    step (mk .stateBeginString stk) c = (mk .stateBeginString stk, scanSkipSpace) := by
  simp [step, mk, stateBeginString, isSpace_eq_isWs, h]

theorem step_bs_quote (stk : List Nat) :
    step (mk .stateBeginString stk) 34 = (mk .stateInString stk, scanBeginLiteral) := by
  simp [step, mk, stateBeginString, isSpace, Scan.goto]

theorem step_bs_other (stk : List Nat) (c : UInt8) (hws : isWs c = false) (h : c ≠ 34) :
    step (mk .stateBeginString stk) c = (errS stk, scanError) := by
  simp [step, mk, stateBeginString, isSpace_eq_isWs, hws, h, Scan.error, errS]

theorem eof_bs (stk : List Nat) : eof (mk .stateBeginString stk) = false := by
  simp [eof, mk, step, stateBeginString, isSpace]

theorem step_bsoe_ws (stk : List Nat) (c : UInt8) (h : isWs c = true) :
    step (mk .stateBeginStringOrEmpty stk) c = (mk .stateBeginStringOrEmpty stk, scanSkipSpace) := by
  simp [step, mk, stateBeginStringOrEmpty, isSpace_eq_isWs, h]

theorem step_bsoe_other (stk : List Nat) (c : UInt8) (hws : isWs c = false) (h : c ≠ 125) :
    step (mk .stateBeginStringOrEmpty stk) c = step (mk .stateBeginString stk) c := by
  simp only [step, mk, stateBeginStringOrEmpty, isSpace_eq_isWs, hws, h, stateBeginString,
    Scan.goto, Scan.error]
  rfl

theorem eof_bsoe (stk : List Nat) : eof (mk .stateBeginStringOrEmpty stk) = false := by
  simp [eof, mk, step, stateBeginStringOrEmpty, isSpace]

/-! ### end-value -/

theorem step_ev_ws (p : Nat) (stk : List Nat) (c : UInt8) (h : isWs c = true) :
    step (ev (p :: stk)) c = (ev (p :: stk), scanSkipSpace) := by
  simp [step, mk, stateEndValue, isSpace_eq_isWs, h, Scan.goto]

theorem eof_ev_cons (p : Nat) (stk : List Nat) : eof (ev (p :: stk)) = false := by
  simp [eof, mk, step, stateEndValue, isSpace, Scan.goto]

/-- what `popParseState` leaves when the container on top of `stk` is closed -/
def afterClose (stk : List Nat) : Scan := if stk.isEmpty then topS else ev stk

theorem pop_mk (X : St) (p : Nat) (stk : List Nat) : (mk X (p :: stk)).pop = afterClose stk := by
  simp only [Scan.pop, mk, afterClose, List.tail_cons, topS]
  cases stk <;> rfl

theorem step_ev_key_colon (stk : List Nat) :
    step (ev (0 :: stk)) 58 = (bv (1 :: stk), scanObjectKey) := by
  simp [step, mk, stateEndValue, isSpace, parseObjectKey, parseObjectValue]

theorem step_ev_key_other (stk : List Nat) (c : UInt8) (hws : isWs c = false) (h : c ≠ 58) :
    step (ev (0 :: stk)) c = (errS (0 :: stk), scanError) := by
  simp [step, mk, stateEndValue, isSpace_eq_isWs, hws, h, parseObjectKey, Scan.error, errS]

theorem step_ev_val_comma (stk : List Nat) :
    step (ev (1 :: stk)) 44 = (mk .stateBeginString (0 :: stk), scanObjectValue) := by
  simp [step, mk, stateEndValue, isSpace, parseObjectKey, parseObjectValue]

theorem step_ev_val_rbrace (stk : List Nat) :
    step (ev (1 :: stk)) 125 = (afterClose stk, scanEndObject) := by
  rw [← pop_mk .stateEndValue 1 stk]
  simp [step, mk, stateEndValue, isSpace, parseObjectKey, parseObjectValue]

theorem step_ev_val_other (stk : List Nat) (c : UInt8) (hws : isWs c = false) (h : c ≠ 44) (h' : c ≠ 125) :
    step (ev (1 :: stk)) c = (errS (1 :: stk), scanError) := by
  simp [step, mk, stateEndValue, isSpace_eq_isWs, hws, h, h', parseObjectKey, parseObjectValue, Scan.error, errS]

theorem step_ev_arr_comma (stk : List Nat) :
    step (ev (2 :: stk)) 44 = (bv (2 :: stk), scanArrayValue) := by
  simp [step, mk, stateEndValue, isSpace, parseObjectKey, parseObjectValue, parseArrayValue, Scan.goto]

theorem step_ev_arr_rbrack (stk : List Nat) :
    step (ev (2 :: stk)) 93 = (afterClose stk, scanEndArray) := by
  rw [← pop_mk .stateEndValue 2 stk]
  simp [step, mk, stateEndValue, isSpace, parseObjectKey, parseObjectValue, parseArrayValue]

theorem step_ev_arr_other (stk : List Nat) (c : UInt8) (hws : isWs c = false) (h : c ≠ 44) (h' : c ≠ 93) :
    step (ev (2 :: stk)) c = (errS (2 :: stk), scanError) := by
  simp [step, mk, stateEndValue, isSpace_eq_isWs, hws, h, h', parseObjectKey, parseObjectValue,
    parseArrayValue, Scan.error, errS]

/-- `]` right after `[` -/
theorem step_bvoe_rbrack (stk : List Nat) :
    step (mk .stateBeginValueOrEmpty (2 :: stk)) 93 = (afterClose stk, scanEndArray) := by
  rw [← pop_mk .stateBeginValueOrEmpty 2 stk]
  simp [step, mk, stateBeginValueOrEmpty, stateEndValue, isSpace, parseObjectKey, parseObjectValue, parseArrayValue]

/-- `}` right after `{` -/
theorem step_bsoe_rbrace (stk : List Nat) :
    step (mk .stateBeginStringOrEmpty (0 :: stk)) 125 = (afterClose stk, scanEndObject) := by
  rw [← pop_mk .stateBeginStringOrEmpty 1 stk]
  simp [step, mk, stateBeginStringOrEmpty, stateEndValue, isSpace, parseObjectKey, parseObjectValue, Scan.pop]

/-! ### the top level -/

theorem step_topS_ws (c : UInt8) (h : isWs c = true) : step topS c = (topS, scanEnd) := by
  simp [step, topS, stateEndTop, isSpace_eq_isWs, h]

theorem step_topS_other (c : UInt8) (h : isWs c = false) :
    step topS c = (⟨.stateError, [], true, true⟩, scanEnd) := by
  simp [step, topS, stateEndTop, isSpace_eq_isWs, h, Scan.error]

theorem step_ev_nil (c : UInt8) : step (ev []) c = step topS c := rfl

theorem eof_topS : eof topS = true := rfl
theorem eof_ev_nil : eof (ev []) = true := by
  simp [eof, mk, step, stateEndValue, stateEndTop, isSpace]

theorem vf_topS (bs : Bytes) : validFrom topS bs = (skipWs bs).isEmpty := by
  induction bs with
  | nil => rfl
  | cons c cs ih =>
    simp only [skipWs]
    split
    · rename_i h
      rw [vf_step (step_topS_ws c h) (by decide)]; exact ih
    · rename_i h
      simp only [Bool.not_eq_true] at h
      rw [vf_step (step_topS_other c h) (by decide), vf_err _ rfl rfl]; rfl

theorem vf_ev_nil (bs : Bytes) : validFrom (ev []) bs = (skipWs bs).isEmpty := by
  rw [← vf_topS]
  exact vf_congr bs (fun _ => by rw [eof_ev_nil, eof_topS]) (fun c _ _ => step_ev_nil c)

theorem vf_afterClose (stk : List Nat) (bs : Bytes) : validFrom (afterClose stk) bs = validFrom (ev stk) bs := by
  cases stk with
  | nil => simp only [afterClose, List.isEmpty_nil, if_true]; rw [vf_topS, vf_ev_nil]
  | cons p stk => rfl

end Scanner
end JP
