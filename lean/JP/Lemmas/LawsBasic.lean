import JP.Lemmas.EngineSpecFacts
import JP.Lemmas.AllowAbsent

/-!
# Laws of the RFC 6902 specification: lists, association lists, navigation

Helper lemmas for `JP/Props/C01laws.lean`.  Everything here is about the specification
(`Spec.atParent`, the container edits) and about `Impl.nav`, the "navigate, edit, rebuild" view of
`Spec.atParent` (`Impl.atParent_nav`).

* lists: `insertAt` / `eraseIdx` / `setAt` cancel as expected;
* association lists: `set` / `erase` / `lookup`;
* `nav_rebuild_eq`: after rebuilding the document around a new parent, the same tokens lead to
  the new parent and rebuild in the same way;
* `parent`: the container the tokens lead to, defined through the specification's own walk;
* `atParent_decomp`, `atParent_after`: a successful edit, and a second edit below the same parent;
* `atParent_congr_parent`: two edits that agree on the parent agree on the document.
-/

namespace JP
namespace Laws

open Spec (Res)
open Impl (nav)

/-! ### lists -/

theorem setAt_setAt {α} (i : Nat) (a b : α) (xs : List α) :
    Spec.setAt i a (Spec.setAt i b xs) = Spec.setAt i a xs := by
  induction xs generalizing i with
  | nil => cases i <;> rfl
  | cons x xs ih => cases i with
    | zero => rfl
    | succ i => simp [Spec.setAt, ih]

theorem eraseIdx_insertAt {α} (a : α) : ∀ (i : Nat) (xs : List α), i ≤ xs.length →
    (Spec.insertAt i a xs).eraseIdx i = xs
  | 0, xs, _ => by simp [Spec.insertAt]
  | i + 1, [], h => by simp at h
  | i + 1, x :: xs, h => by
    simp only [List.length_cons] at h
    simp only [Spec.insertAt, List.eraseIdx_cons_succ, eraseIdx_insertAt a i xs (by omega)]

theorem insertAt_eraseIdx {α} (a : α) : ∀ (i : Nat) (xs : List α), xs[i]? = some a →
    Spec.insertAt i a (xs.eraseIdx i) = xs
  | _, [], h => by simp at h
  | 0, x :: xs, h => by
    simp only [List.getElem?_cons_zero, Option.some.injEq] at h
    subst h
    simp [Spec.insertAt]
  | i + 1, x :: xs, h => by
    simp only [List.getElem?_cons_succ] at h
    simp only [List.eraseIdx_cons_succ, Spec.insertAt, insertAt_eraseIdx a i xs h]

theorem insertAt_eraseIdx_setAt {α} (a : α) : ∀ (i : Nat) (xs : List α), i < xs.length →
    Spec.insertAt i a (xs.eraseIdx i) = Spec.setAt i a xs
  | _, [], h => by simp at h
  | 0, x :: xs, _ => by simp [Spec.insertAt, Spec.setAt]
  | i + 1, x :: xs, h => by
    simp only [List.length_cons] at h
    simp only [List.eraseIdx_cons_succ, Spec.insertAt, Spec.setAt,
      insertAt_eraseIdx_setAt a i xs (by omega)]

theorem getElem?_lt {α} {xs : List α} {i : Nat} {a : α} (h : xs[i]? = some a) : i < xs.length := by
  cases hlt : decide (i < xs.length) with
  | true => exact of_decide_eq_true hlt
  | false =>
    have : xs[i]? = none := by
      rw [List.getElem?_eq_none_iff]; have := of_decide_eq_false hlt; omega
    rw [this] at h; cases h

/-! ### association lists -/

theorem set_set (k : Bytes) (a b : Value) (ms : Value.Members) :
    Value.set k a (Value.set k b ms) = Value.set k a ms := by
  induction ms with
  | nil => simp [Value.set]
  | cons m ms ih =>
    obtain ⟨k', v'⟩ := m
    simp only [Value.set]
    split
    · simp [Value.set]
    · next hk => simp only [Value.set, hk, if_false, ih]

theorem set_absent (k : Bytes) (v : Value) (ms : Value.Members) (h : Value.lookup k ms = none) :
    Value.set k v ms = ms ++ [(k, v)] := by
  induction ms with
  | nil => rfl
  | cons m ms ih =>
    obtain ⟨k', v'⟩ := m
    simp only [Value.lookup] at h
    split at h
    · cases h
    · next hk => simp only [Value.set, hk, if_false, ih h, List.cons_append]

theorem erase_absent (k : Bytes) (ms : Value.Members) (h : Value.lookup k ms = none) :
    Value.erase k ms = ms := by
  induction ms with
  | nil => rfl
  | cons m ms ih =>
    obtain ⟨k', v'⟩ := m
    simp only [Value.lookup] at h
    split at h
    · cases h
    · next hk => simp only [Value.erase, hk, if_false, ih h]

theorem erase_append_self (k : Bytes) (v : Value) (ms : Value.Members) :
    Value.erase k (ms ++ [(k, v)]) = Value.erase k ms := by
  induction ms with
  | nil => simp [Value.erase]
  | cons m ms ih =>
    obtain ⟨k', v'⟩ := m
    simp only [List.cons_append, Value.erase]
    split
    · exact ih
    · rw [ih]

/-- adding a NEW member and erasing it gives the member list back -/
theorem erase_set_absent (k : Bytes) (v : Value) (ms : Value.Members) (h : Value.lookup k ms = none) :
    Value.erase k (Value.set k v ms) = ms := by
  rw [set_absent k v ms h, erase_append_self, erase_absent k ms h]

theorem lookup_erase_self (k : Bytes) (ms : Value.Members) : Value.lookup k (Value.erase k ms) = none := by
  induction ms with
  | nil => rfl
  | cons m ms ih =>
    obtain ⟨k', v'⟩ := m
    simp only [Value.erase]
    split
    · exact ih
    · next hk => simp only [Value.lookup, hk, if_false, ih]

/-- erasing a member and adding it again appends it -/
theorem set_erase (k : Bytes) (v : Value) (ms : Value.Members) :
    Value.set k v (Value.erase k ms) = Value.erase k ms ++ [(k, v)] :=
  set_absent k v _ (lookup_erase_self k ms)

/-! ### navigation -/

/-- after rebuilding around a new parent, the same tokens lead to the new parent, and the
document is rebuilt around a further parent in the same way -/
theorem nav_rebuild_eq (o : Spec.Opts) : ∀ (ts : List Bytes) (v p p' : Value) (k : Value → Value),
    nav o v ts = .ok (p, k) → p'.isContainer = true →
    ∃ k', nav o (k p') ts = .ok (p', k') ∧ ∀ q, k' q = k q := by
  intro ts
  induction ts with
  | nil =>
    intro v p p' k h hp'
    simp only [nav] at h
    split at h
    · simp only [Res.ok.injEq, Prod.mk.injEq] at h
      obtain ⟨_, rfl⟩ := h
      exact ⟨id, by simp [nav, hp'], fun _ => rfl⟩
    · cases h
  | cons t ts ih =>
    intro v p p' k h hp'
    cases v with
    | obj ms =>
      simp only [nav] at h
      cases hl : Value.lookup t ms with
      | none => rw [hl] at h; cases h
      | some child =>
        rw [hl] at h
        simp only at h
        cases hn : nav o child ts with
        | ok pk =>
          obtain ⟨p1, k1⟩ := pk
          rw [hn] at h
          simp only [Res.bind, Res.ok.injEq, Prod.mk.injEq] at h
          obtain ⟨rfl, rfl⟩ := h
          obtain ⟨k', hk', hq⟩ := ih child p1 p' k1 hn hp'
          refine ⟨fun q => .obj (Value.set t (k' q) (Value.set t (k1 p') ms)), ?_, ?_⟩
          · simp only [nav, Impl.lookup_set_self, hk', Res.bind]
          · intro q
            simp only [hq, set_set]
        | fail c => rw [hn] at h; cases h
        | unspec => rw [hn] at h; cases h
    | arr xs =>
      simp only [nav] at h
      cases hr : Spec.readIdx o.neg xs.length t with
      | unspec => rw [hr] at h; cases h
      | bad => rw [hr] at h; cases h
      | «at» i =>
        rw [hr] at h
        simp only at h
        cases hl : xs[i]? with
        | none => rw [hl] at h; cases h
        | some child =>
          rw [hl] at h
          simp only at h
          cases hn : nav o child ts with
          | ok pk =>
            obtain ⟨p1, k1⟩ := pk
            rw [hn] at h
            simp only [Res.bind, Res.ok.injEq, Prod.mk.injEq] at h
            obtain ⟨rfl, rfl⟩ := h
            obtain ⟨k', hk', hq⟩ := ih child p1 p' k1 hn hp'
            have hi : i < xs.length := getElem?_lt hl
            refine ⟨fun q => .arr (Spec.setAt i (k' q) (Spec.setAt i (k1 p') xs)), ?_, ?_⟩
            · simp only [nav, Impl.setAt_length, hr, Impl.setAt_getElem? _ _ _ hi, hk', Res.bind]
            · intro q
              simp only [hq, setAt_setAt]
          | fail c => rw [hn] at h; cases h
          | unspec => rw [hn] at h; cases h
    | null => simp [nav] at h
    | bool b => simp [nav] at h
    | num l => simp [nav] at h
    | str s => simp [nav] at h

/-- **the container the tokens `ts` lead to** (the parent of every location `ts ++ [t]`), through
the specification's own walk: `Spec.atParent` with an edit that returns the parent it is given.
The walk never looks at the last token, so a dummy one (`[]`) is supplied. -/
def parent (o : Spec.Opts) (doc : Value) (ts : List Bytes) : Res Value :=
  (Spec.atParent o (fun p _ => .ok (p, p)) doc (ts ++ [[]])).bind fun r => .ok r.2

theorem parent_eq_nav (o : Spec.Opts) (doc : Value) (ts : List Bytes) :
    parent o doc ts = (nav o doc ts).bind fun pk => .ok pk.1 := by
  unfold parent
  rw [Impl.atParent_nav]
  cases nav o doc ts <;> rfl

theorem nav_of_parent {o : Spec.Opts} {doc p : Value} {ts : List Bytes} (h : parent o doc ts = .ok p) :
    ∃ k, nav o doc ts = .ok (p, k) ∧ k p = doc ∧ p.isContainer = true := by
  rw [parent_eq_nav] at h
  cases hn : nav o doc ts with
  | ok pk =>
    obtain ⟨p1, k⟩ := pk
    rw [hn] at h
    simp only [Res.bind, Res.ok.injEq] at h
    subst h
    obtain ⟨h1, h2⟩ := Impl.nav_ok o ts doc p1 k hn
    exact ⟨k, rfl, h2, h1⟩
  | fail c => rw [hn] at h; cases h
  | unspec => rw [hn] at h; cases h

/-- an edit at `ts ++ [t]` is the edit of the parent, rebuilt by one function `k` (the same for
every edit and every last token); and an edit below the same tokens of a document rebuilt around a
new parent `p'` is the edit of `p'`, rebuilt by the same `k` -/
theorem atParent_of_parent {o : Spec.Opts} {doc p : Value} {ts : List Bytes}
    (h : parent o doc ts = .ok p) :
    ∃ k : Value → Value, nav o doc ts = .ok (p, k) ∧ k p = doc ∧ p.isContainer = true ∧
      (∀ {α} (f : Value → Bytes → Res (Value × α)) (t : Bytes),
        Spec.atParent o f doc (ts ++ [t]) = ((f p t).bind fun pa => .ok (k pa.1, pa.2))) ∧
      ∀ p', p'.isContainer = true → ∀ {β} (g : Value → Bytes → Res (Value × β)) (t' : Bytes),
        Spec.atParent o g (k p') (ts ++ [t']) = ((g p' t').bind fun pb => .ok (k pb.1, pb.2)) := by
  obtain ⟨k, hn, hk, hc⟩ := nav_of_parent h
  refine ⟨k, hn, hk, hc, ?_, ?_⟩
  · intro α f t
    rw [Impl.atParent_nav, hn]; rfl
  · intro p' hp' β g t'
    obtain ⟨k', hn', hq⟩ := nav_rebuild_eq o ts doc p p' k hn hp'
    rw [Impl.atParent_nav, hn']
    simp only [Res.bind]
    cases g p' t' with
    | ok pb => simp only [hq]
    | fail c => rfl
    | unspec => rfl

/-- where the parent is not reachable, no edit is: the walk's own outcome is the result -/
theorem atParent_of_parent_fail {α} {o : Spec.Opts} {doc : Value} {ts : List Bytes} {c : Spec.Cause}
    (h : parent o doc ts = .fail c) (f : Value → Bytes → Res (Value × α)) (t : Bytes) :
    Spec.atParent o f doc (ts ++ [t]) = .fail c := by
  rw [parent_eq_nav] at h
  rw [Impl.atParent_nav]
  cases hn : nav o doc ts with
  | ok pk => rw [hn] at h; cases h
  | fail c' => rw [hn] at h; simp only [Res.bind, Res.fail.injEq] at h; subst h; rfl
  | unspec => rw [hn] at h; cases h

theorem atParent_of_parent_unspec {α} {o : Spec.Opts} {doc : Value} {ts : List Bytes}
    (h : parent o doc ts = .unspec) (f : Value → Bytes → Res (Value × α)) (t : Bytes) :
    Spec.atParent o f doc (ts ++ [t]) = .unspec := by
  rw [parent_eq_nav] at h
  rw [Impl.atParent_nav]
  cases hn : nav o doc ts with
  | ok pk => rw [hn] at h; cases h
  | fail c' => rw [hn] at h; cases h
  | unspec => rfl

/-- two edits that agree on the parent agree on the document -/
theorem atParent_congr_parent {α} (o : Spec.Opts) (f g : Value → Bytes → Res (Value × α))
    (doc : Value) (ts : List Bytes) (t t' : Bytes)
    (h : ∀ p, parent o doc ts = .ok p → f p t = g p t') :
    Spec.atParent o f doc (ts ++ [t]) = Spec.atParent o g doc (ts ++ [t']) := by
  cases hp : parent o doc ts with
  | ok p =>
    obtain ⟨k, _, _, _, hedit, _⟩ := atParent_of_parent hp
    rw [hedit f t, hedit g t', h p hp]
  | fail c => rw [atParent_of_parent_fail hp, atParent_of_parent_fail hp]
  | unspec => rw [atParent_of_parent_unspec hp, atParent_of_parent_unspec hp]

/-- a successful edit at `ts ++ [t]`: the parent exists, the edit of the parent succeeded, the
result is the document rebuilt around the edited parent -/
theorem atParent_decomp {α} {o : Spec.Opts} {f : Value → Bytes → Res (Value × α)} {doc d : Value}
    {ts : List Bytes} {t : Bytes} {a : α} (h : Spec.atParent o f doc (ts ++ [t]) = .ok (d, a)) :
    ∃ p p', parent o doc ts = .ok p ∧ f p t = .ok (p', a) := by
  rw [Impl.atParent_nav] at h
  cases hn : nav o doc ts with
  | ok pk =>
    obtain ⟨p, k⟩ := pk
    rw [hn] at h
    simp only [Res.bind] at h
    cases hf : f p t with
    | ok pa =>
      obtain ⟨p', a'⟩ := pa
      rw [hf] at h
      simp only [Res.ok.injEq, Prod.mk.injEq] at h
      obtain ⟨_, rfl⟩ := h
      refine ⟨p, p', ?_, hf⟩
      rw [parent_eq_nav, hn]; rfl
    | fail c => rw [hf] at h; cases h
    | unspec => rw [hf] at h; cases h
  | fail c => rw [hn] at h; cases h
  | unspec => rw [hn] at h; cases h

end Laws
end JP
