import JP.Lemmas.HeapPrim

/-!
# `find` is stable: it only turns raw cells into parsed ones, and a second descent along a path
already parsed returns the same address and leaves the heap alone

The Go code of `copy` keeps the POINTERS it obtained (`val`, `con`) across a second `findObject`;
the value model re-walks.  These lemmas connect the two: no tree hypothesis is needed.
-/

namespace JP
namespace Heap

open JP.Impl (Node NMembers Outcome Opts)

/-- a parsed container (what `intoContainer` leaves behind) -/
def cellIsParsed : Cell → Bool
  | .doc _ _ => true
  | .ary _ => true
  | _ => false

/-- not a raw message -/
def cellIsCon : Cell → Bool
  | .raw _ => false
  | _ => true

/-- only raw cells change (and cells are added) -/
def Mono (h h' : Heap) : Prop :=
  ∀ (x : Nat) (cell : Cell), h[x]? = some cell → cellIsCon cell = true → h'[x]? = some cell

theorem Mono.refl (h : Heap) : Mono h h := fun _ _ hx _ => hx

theorem Mono.trans {h h1 h2 : Heap} (m1 : Mono h h1) (m2 : Mono h1 h2) : Mono h h2 :=
  fun x cell hx hc => m2 x cell (m1 x cell hx hc) hc

theorem newMembers_append (ms : List (Bytes × Cst)) (h : Heap) :
    ∃ ext, (newMembers h ms []).1 = h ++ ext := by
  obtain ⟨ext, _, he, _⟩ := newMembers_spec ms h [] [] [] (ReprM.mk_nil h)
  exact ⟨ext, he⟩

theorem newChildren_append (xs : List Cst) (h : Heap) :
    ∃ ext, (newChildren h xs).1 = h ++ ext := by
  obtain ⟨ext, _, he, _⟩ := newChildren_spec xs h
  exact ⟨ext, he⟩

theorem mono_set_raw {h : Heap} {ext : List Cell} {a : Nat} {c : Cst} {cell' : Cell}
    (ha : h[a]? = some (.raw c)) : Mono h ((h ++ ext).set a cell') := by
  intro x cell hx hc
  by_cases e : a = x
  · subst e; rw [ha] at hx; cases hx; cases hc
  · rw [List.getElem?_set_ne e, List.getElem?_append_left (List.getElem?_eq_some_iff.mp hx).1]
    exact hx

/-- `intoContainer` changes a raw cell at most, and leaves a parsed container at `b` -/
theorem intoContainer_stable {h h' : Heap} {b : Nat} (hi : intoContainer h (some b) = .ok h') :
    Mono h h' ∧ ∃ cell, h'[b]? = some cell ∧ cellIsParsed cell = true := by
  unfold intoContainer at hi
  by_cases hb : ptrIsArray h (some b) = true
  · simp only [hb, if_true, intoAry] at hi
    cases hc : h[b]? with
    | none => rw [hc] at hi; cases hi
    | some cell =>
      rw [hc] at hi
      cases cell with
      | ary ps => simp only [cellIntoAry] at hi; cases hi; exact ⟨Mono.refl _, .ary ps, hc, rfl⟩
      | raw c =>
        cases c with
        | arr xs =>
          simp only [cellIntoAry] at hi; cases hi
          obtain ⟨ext, he⟩ := newChildren_append xs h
          rw [he]
          refine ⟨mono_set_raw hc, .ary (newChildren h xs).2, ?_, rfl⟩
          · rw [List.getElem?_set_self]
            have := (List.getElem?_eq_some_iff.mp hc).1
            simp; omega
        | lit s => simp [cellIntoAry] at hi
        | str s => simp [cellIntoAry] at hi
        | obj s => simp [cellIntoAry] at hi
      | doc k m => simp [cellIntoAry] at hi
      | docNil => simp [cellIntoAry] at hi
      | nilAry => simp [cellIntoAry] at hi
  · simp only [hb, intoDoc] at hi
    cases hc : h[b]? with
    | none => rw [hc] at hi; simp at hi
    | some cell =>
      rw [hc] at hi
      cases cell with
      | doc k m => simp only [cellIntoDoc] at hi; simp at hi; cases hi; exact ⟨Mono.refl _, .doc k m, hc, rfl⟩
      | raw c =>
        cases c with
        | obj ms =>
          simp only [cellIntoDoc] at hi; simp at hi; cases hi
          obtain ⟨ext, he⟩ := newMembers_append ms h
          rw [he]
          refine ⟨mono_set_raw hc, .doc (Impl.decodeKeys ms) (newMembers h ms []).2, ?_, rfl⟩
          · rw [List.getElem?_set_self]
            have := (List.getElem?_eq_some_iff.mp hc).1
            simp; omega
        | lit s => simp [cellIntoDoc] at hi
        | str s => simp [cellIntoDoc] at hi
        | arr s => simp [cellIntoDoc] at hi
      | ary k => simp [cellIntoDoc] at hi
      | docNil => simp [cellIntoDoc] at hi
      | nilAry => simp [cellIntoDoc] at hi

/-- on a parsed container `intoContainer` does nothing -/
theorem intoContainer_parsed {h : Heap} {b : Nat} {cell : Cell} (hc : h[b]? = some cell)
    (hp : cellIsParsed cell = true) : intoContainer h (some b) = .ok h := by
  cases cell with
  | doc k m => simp [intoContainer, ptrIsArray, hc, cellIsArray, intoDoc, cellIntoDoc]
  | ary ps => simp [intoContainer, ptrIsArray, hc, cellIsArray, intoAry, cellIntoAry]
  | raw c => cases hp
  | docNil => cases hp
  | nilAry => cases hp

/-- a successful `get` was on a cell that is not raw -/
theorem hGet_ok_con {o : Opts} {h : Heap} {a : Nat} {key : Bytes} {p : Ptr}
    (hg : hGet o h a key = .ok p) : ∃ cell, h[a]? = some cell ∧ cellIsCon cell = true := by
  unfold hGet at hg
  cases hc : h[a]? with
  | none => rw [hc] at hg; cases hg
  | some cell =>
    rw [hc] at hg
    cases cell with
    | raw c => simp [cellGet] at hg
    | doc k m => exact ⟨_, rfl, rfl⟩
    | ary ps => exact ⟨_, rfl, rfl⟩
    | docNil => exact ⟨_, rfl, rfl⟩
    | nilAry => exact ⟨_, rfl, rfl⟩

theorem hGet_mono {o : Opts} {h h' : Heap} {a : Nat} {key : Bytes} {p : Ptr}
    (hg : hGet o h a key = .ok p) (m : Mono h h') : hGet o h' a key = .ok p := by
  obtain ⟨cell, hc, hcon⟩ := hGet_ok_con hg
  unfold hGet at hg ⊢
  rw [m a cell hc hcon]; rw [hc] at hg; exact hg

/-- the path `parts` leads from `a` to `c` through parsed containers -/
inductive Parsed (o : Opts) (h : Heap) : Nat → List Bytes → Nat → Prop
  | nil (a : Nat) : Parsed o h a [] a
  | cons {a b c : Nat} {part : Bytes} {rest : List Bytes} {cell : Cell}
      (hg : hGet o h a (decodeToken part) = .ok (some b))
      (hc : h[b]? = some cell) (hp : cellIsParsed cell = true)
      (hr : Parsed o h b rest c) : Parsed o h a (part :: rest) c

theorem cellIsCon_of_parsed {cell : Cell} (hp : cellIsParsed cell = true) : cellIsCon cell = true := by
  cases cell <;> simp_all [cellIsParsed, cellIsCon]

theorem Parsed.mono {o : Opts} {h h' : Heap} {a c : Nat} {parts : List Bytes} (pp : Parsed o h a parts c)
    (m : Mono h h') : Parsed o h' a parts c := by
  induction pp with
  | nil a => exact Parsed.nil a
  | cons hg hc hp _ ih => exact Parsed.cons (hGet_mono hg m) (m _ _ hc (cellIsCon_of_parsed hp)) hp ih

/-- a second descent along a parsed path: same address, same heap -/
theorem find_of_parsed {o : Opts} {h : Heap} {a c : Nat} {parts : List Bytes} (pp : Parsed o h a parts c) :
    find o h a parts = .ok (h, some c) := by
  induction pp with
  | nil a => rfl
  | cons hg hc hp _ ih =>
    simp only [find, hg, intoContainer_parsed hc hp]
    exact ih

/-- what a descent leaves behind -/
theorem find_stable (o : Opts) : ∀ (parts : List Bytes) (h : Heap) (a : Nat) (h' : Heap) (oc : Option Nat),
    find o h a parts = .ok (h', oc) → Mono h h' ∧ ∀ c, oc = some c → Parsed o h' a parts c
  | [], h, a, h', oc, hf => by
    simp only [find] at hf; cases hf
    exact ⟨Mono.refl _, fun c hc => by cases hc; exact Parsed.nil a⟩
  | part :: rest, h, a, h', oc, hf => by
    simp only [find] at hf
    cases hg : hGet o h a (decodeToken part) with
    | panic => rw [hg] at hf; cases hf
    | err e => rw [hg] at hf; cases hf; exact ⟨Mono.refl _, fun c hc => by cases hc⟩
    | ok p =>
      rw [hg] at hf
      cases p with
      | none => cases hf; exact ⟨Mono.refl _, fun c hc => by cases hc⟩
      | some b =>
        simp only at hf
        cases hi : intoContainer h (some b) with
        | panic => rw [hi] at hf; cases hf
        | err e => rw [hi] at hf; cases hf; exact ⟨Mono.refl _, fun c hc => by cases hc⟩
        | ok h1 =>
          rw [hi] at hf
          obtain ⟨m1, cell, hc1, hp1⟩ := intoContainer_stable hi
          obtain ⟨m2, hpar⟩ := find_stable o rest h1 b h' oc hf
          refine ⟨Mono.trans m1 m2, fun c hc => ?_⟩
          exact Parsed.cons (hGet_mono hg (Mono.trans m1 m2))
            (m2 _ _ hc1 (cellIsCon_of_parsed hp1)) hp1 (hpar c hc)

/-- `findObject` twice: the second call along the same path, after any number of other descents,
finds the same container and changes nothing -/
theorem findObject_stable {o : Opts} {h h' : Heap} {root : Nat} {path : Bytes} {oc : Option (Nat × Bytes)}
    (hf : findObject o h root path = .ok (h', oc)) :
    Mono h h' ∧ ∀ c key, oc = some (c, key) →
      ∀ h2, Mono h' h2 → findObject o h2 root path = .ok (h2, some (c, key)) := by
  unfold findObject at hf
  cases hs : Impl.splitPath path with
  | none => rw [hs] at hf; cases hf; exact ⟨Mono.refl _, fun c key hc => by cases hc⟩
  | some pk =>
    obtain ⟨parts, key⟩ := pk
    rw [hs] at hf
    simp only at hf
    cases hfi : find o h root parts with
    | panic => rw [hfi] at hf; cases hf
    | err e => rw [hfi] at hf; cases hf
    | ok res =>
      obtain ⟨h1, oc1⟩ := res
      rw [hfi] at hf
      obtain ⟨m, hpar⟩ := find_stable o parts h root h1 oc1 hfi
      cases oc1 with
      | none => cases hf; exact ⟨m, fun c key hc => by cases hc⟩
      | some c1 =>
        cases hf
        refine ⟨m, fun c key' hc h2 m2 => ?_⟩
        cases hc
        unfold findObject
        rw [hs]
        simp only [find_of_parsed ((hpar _ rfl).mono m2)]

end Heap
end JP
