import JP.Lemmas.FloatExact
import JP.Lemmas.FloatNatFmt2

/-!
# The decimal point of a finite non-zero float: `10^(k-1) ≤ N/D` and `|k| ≤ 400`
-/

namespace JP
namespace Codec
namespace Float

/-! ## `fixUp`, `fixDown` in general -/

theorem fixUp_bounds (N D : Nat) : ∀ (fuel : Nat) (k0 : Int),
    k0 ≤ fixUp fuel N D k0 ∧ fixUp fuel N D k0 ≤ k0 + (fuel : Int) ∧
      (k0 < fixUp fuel N D k0 → geP10 N D (fixUp fuel N D k0 - 1) = true) := by
  intro fuel
  induction fuel with
  | zero => intro k0; simp only [fixUp]; omega
  | succ f ih =>
    intro k0
    simp only [fixUp]
    by_cases hg : geP10 N D k0 = true
    · rw [if_pos hg]
      obtain ⟨h1, h2, h3⟩ := ih (k0 + 1)
      refine ⟨by omega, by omega, ?_⟩
      intro _
      by_cases he : fixUp f N D (k0 + 1) = k0 + 1
      · rw [he]
        have : k0 + 1 - 1 = k0 := by omega
        rw [this]; exact hg
      · exact h3 (by omega)
    · rw [if_neg hg]
      omega

theorem fixDown_bounds (N D : Nat) : ∀ (fuel : Nat) (k1 : Int),
    k1 - (fuel : Int) ≤ fixDown fuel N D k1 ∧ fixDown fuel N D k1 ≤ k1 := by
  intro fuel
  induction fuel with
  | zero => intro k1; simp only [fixDown]; omega
  | succ f ih =>
    intro k1
    simp only [fixDown]
    by_cases hg : geP10 N D (k1 - 1) = true
    · rw [if_pos hg]; omega
    · rw [if_neg hg]
      obtain ⟨h1, h2⟩ := ih (k1 - 1)
      omega

theorem fixDown_ge (N D : Nat) : ∀ (fuel : Nat) (k1 : Int), 1 ≤ fuel →
    geP10 N D (k1 - (fuel : Int)) = true → geP10 N D (fixDown fuel N D k1 - 1) = true := by
  intro fuel
  induction fuel with
  | zero => intro k1 h; omega
  | succ f ih =>
    intro k1 _ hlow
    simp only [fixDown]
    by_cases hg : geP10 N D (k1 - 1) = true
    · rw [if_pos hg]; exact hg
    · rw [if_neg hg]
      by_cases hf : f = 0
      · subst hf
        exfalso
        apply hg
        have : k1 - ((0 + 1 : Nat) : Int) = k1 - 1 := by omega
        rw [this] at hlow
        exact hlow
      · apply ih (k1 - 1) (by omega)
        have : k1 - 1 - (f : Int) = k1 - ((f + 1 : Nat) : Int) := by omega
        rw [this]; exact hlow

/-- the corrected estimate: if `10^(k0-4) ≤ N/D` then the final `k` has `10^(k-1) ≤ N/D` -/
theorem fix_lower (N D : Nat) (k0 : Int) (h : geP10 N D (k0 - 4) = true) :
    geP10 N D (fixDown 4 N D (fixUp 4 N D k0) - 1) = true ∧
      k0 - 4 ≤ fixDown 4 N D (fixUp 4 N D k0) ∧ fixDown 4 N D (fixUp 4 N D k0) ≤ k0 + 4 := by
  obtain ⟨u1, u2, u3⟩ := fixUp_bounds N D 4 k0
  obtain ⟨d1, d2⟩ := fixDown_bounds N D 4 (fixUp 4 N D k0)
  refine ⟨?_, by omega, by omega⟩
  by_cases he : fixUp 4 N D k0 = k0
  · rw [he]
    exact fixDown_ge N D 4 k0 (by omega) h
  · have hup := u3 (by omega)
    simp only [fixDown, hup, if_true]

/-! ## the estimate from the bit lengths is at most four too high -/

def powTab (i : Nat) : Bool :=
  let l : Int := (i : Int) - 1100
  let j : Int := l * 1233 / 4096 - 3
  decide (2 ^ (-l).toNat * 10 ^ j.toNat * 2 ≤ 2 ^ l.toNat * 10 ^ (-j).toNat)

theorem powTab_all : ∀ i : Fin 2201, powTab i.val = true := by
  decide +kernel

/-- `10^(l·1233/4096 - 3) ≤ 2^(l-1)` for `|l| ≤ 1100`, cleared of denominators -/
theorem pow_table (l : Int) (h1 : -1100 ≤ l) (h2 : l ≤ 1100) :
    2 ^ (-l).toNat * 10 ^ (l * 1233 / 4096 - 3).toNat * 2
      ≤ 2 ^ l.toNat * 10 ^ (-(l * 1233 / 4096 - 3)).toNat := by
  have h := powTab_all ⟨(l + 1100).toNat, by omega⟩
  unfold powTab at h
  simp only [decide_eq_true_eq] at h
  have e : (((l + 1100).toNat : Nat) : Int) - 1100 = l := by omega
  rw [e] at h
  exact h

theorem geP10_of_bits (N D : Nat) (hN : N ≠ 0) (j : Int)
    (T : 2 ^ (-((Nat.log2 N : Int) - (Nat.log2 D : Int))).toNat * 10 ^ j.toNat * 2
      ≤ 2 ^ ((Nat.log2 N : Int) - (Nat.log2 D : Int)).toNat * 10 ^ (-j).toNat) :
    geP10 N D j = true := by
  have ha : 2 ^ Nat.log2 N ≤ N := Nat.log2_self_le hN
  have hb : D < 2 ^ (Nat.log2 D + 1) := Nat.lt_log2_self
  have hb' : 2 ^ (Nat.log2 D + 1) = 2 * 2 ^ Nat.log2 D := by rw [Nat.pow_succ]; omega
  generalize Nat.log2 N = a at *
  generalize Nat.log2 D = b at *
  have hAB : 2 ^ a * 2 ^ (-((a : Int) - (b : Int))).toNat = 2 ^ b * 2 ^ ((a : Int) - (b : Int)).toNat := by
    rw [← Nat.pow_add, ← Nat.pow_add]; congr 1; omega
  have hApos : 0 < 2 ^ ((a : Int) - (b : Int)).toNat := Nat.pos_of_ne_zero (by simp)
  generalize 2 ^ ((a : Int) - (b : Int)).toNat = A at *
  generalize 2 ^ (-((a : Int) - (b : Int))).toNat = B at *
  have key : D * 10 ^ j.toNat ≤ N * 10 ^ (-j).toNat := by
    generalize 10 ^ j.toNat = P at *
    generalize 10 ^ (-j).toNat = M at *
    apply Nat.le_of_mul_le_mul_right _ hApos
    calc D * P * A ≤ (2 * 2 ^ b) * P * A :=
          Nat.mul_le_mul_right _ (Nat.mul_le_mul_right _ (by omega))
      _ = 2 ^ b * A * (P * 2) := by ac_rfl
      _ = 2 ^ a * B * (P * 2) := by rw [hAB]
      _ = 2 ^ a * (B * P * 2) := by ac_rfl
      _ ≤ 2 ^ a * (A * M) := Nat.mul_le_mul_left _ T
      _ ≤ N * (A * M) := Nat.mul_le_mul_right _ ha
      _ = N * M * A := by ac_rfl
  unfold geP10
  by_cases hj : j ≥ 0
  · have : (-j).toNat = 0 := by omega
    rw [this] at key
    simpa [hj] using key
  · have : j.toNat = 0 := by omega
    rw [this] at key
    simpa [hj] using key

/-! ## the exact value of a finite non-zero float -/

theorem decPoint_lower (bits : Nat) (x : FP) (hwf : x.wf bits = true) (hfin : x.isFinite bits = true)
    (hnz : x.isZero = false) :
    geP10 (exactN bits x) (exactD bits x) (decPoint (exactN bits x) (exactD bits x) - 1) = true ∧
      -400 ≤ decPoint (exactN bits x) (exactD bits x) ∧ decPoint (exactN bits x) (exactD bits x) ≤ 400 := by
  unfold FP.wf at hwf
  simp only [Bool.and_eq_true, decide_eq_true_eq] at hwf
  simp only [FP.isFinite, decide_eq_true_eq] at hfin
  have hs0 : x.sig bits ≠ 0 := by
    unfold FP.sig
    split
    · rename_i he
      simp only [FP.isZero, he, decide_true, Bool.true_and, decide_eq_false_iff_not] at hnz
      exact hnz
    · have : 0 < 2 ^ mantBits bits := two_pow_pos _
      omega
  have hN0 : exactN bits x ≠ 0 := by
    unfold exactN
    split
    · have : 0 < x.sig bits * 2 ^ (x.qexp bits).toNat := Nat.mul_pos (by omega) (two_pow_pos _)
      omega
    · exact hs0
  have hlog : (Nat.log2 (exactN bits x) : Int) - (Nat.log2 (exactD bits x) : Int)
      = (Nat.log2 (x.sig bits) : Int) + x.qexp bits := by
    unfold exactN exactD
    by_cases h : x.qexp bits ≥ 0
    · simp only [h, if_true]
      rw [log2_mul_pow _ _ hs0]
      have : Nat.log2 1 = 0 := by decide
      rw [this]; omega
    · simp only [h, if_false, Nat.log2_two_pow]
      omega
  -- the range of the bit length difference
  have hsig : x.sig bits < 2 ^ (mantBits bits + 1) := by
    have hpow : 2 ^ (mantBits bits + 1) = 2 * 2 ^ mantBits bits := by rw [Nat.pow_succ]; omega
    unfold FP.sig
    split <;> omega
  have hl2 : Nat.log2 (x.sig bits) < mantBits bits + 1 := (Nat.log2_lt hs0).2 hsig
  have hrange : -1100 ≤ (Nat.log2 (x.sig bits) : Int) + x.qexp bits ∧
      (Nat.log2 (x.sig bits) : Int) + x.qexp bits ≤ 1100 := by
    unfold FP.qexp
    unfold expMax expBits at hfin
    unfold mantBits at hl2
    unfold bias mantBits
    by_cases hb : bits = 32
    · simp only [hb, if_true] at hfin hl2 ⊢
      have : (2 : Nat) ^ 8 = 256 := by decide
      split <;> omega
    · simp only [hb, if_false] at hfin hl2 ⊢
      have : (2 : Nat) ^ 11 = 2048 := by decide
      split <;> omega
  generalize hle : (Nat.log2 (exactN bits x) : Int) - (Nat.log2 (exactD bits x) : Int) = l at hlog
  rw [← hlog] at hrange
  have T := pow_table l hrange.1 hrange.2
  have hge : geP10 (exactN bits x) (exactD bits x) (l * 1233 / 4096 + 1 - 4) = true := by
    apply geP10_of_bits _ _ hN0
    rw [hle]
    have e : l * 1233 / 4096 + 1 - 4 = l * 1233 / 4096 - 3 := by omega
    rw [e]; exact T
  obtain ⟨f1, f2, f3⟩ := fix_lower _ _ _ hge
  unfold decPoint
  simp only [hle]
  refine ⟨f1, ?_, ?_⟩ <;> omega

end Float
end Codec
end JP
