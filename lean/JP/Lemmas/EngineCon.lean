import JP.Lemmas.EngineIndex

/-!
# Engine lemmas, part 4: the container methods refine the specification's container edits

Each lemma covers success and failure in one `match` on the specification's answer.
`pc` is a parsed container (`isCon`) satisfying the invariant.
-/

namespace JP
namespace Impl

open Spec (Res)

theorem specOpts_neg (o : Opts) : (specOpts o).neg = o.neg := rfl

/-! ### add -/

theorem conAdd_refines {o : Opts} {e : Bool} {pc val : Node} {key : Bytes}
    (h : Inv e pc) (hc : isCon pc = true) (hv : Inv e val) (hk : QK e key = true) :
    match Spec.addIn (specOpts o) (den val) (den pc) key with
    | .ok (p', _) => ∃ pc', conAdd o pc key val = .ok pc' ∧ Inv e pc' ∧ isCon pc' = true ∧ den pc' = p'
    | .fail _ => ∃ err, conAdd o pc key val = .err err
    | .unspec => True := by
  cases pc with
  | doc keys obj =>
    rw [den_doc_inv h]
    simp only [Spec.addIn]
    exact ⟨docSet keys obj key val, rfl, Inv_docSet h hk hv, rfl, den_docSet h hk hv⟩
  | ary ns =>
    rw [den_ary]
    simp only [Spec.addIn, denL_length, specOpts_neg]
    have := conAdd_ary o ns key val
    cases hr : Spec.slotIdx o.neg ns.length key with
    | unspec => trivial
    | bad => rw [hr] at this; exact this
    | «at» i =>
      rw [hr] at this
      refine ⟨_, this, ?_, rfl, ?_⟩
      · rw [Inv_ary] at h ⊢; exact InvL_listInsert hv h
      · rw [den_ary, denL_listInsert]
  | nil => simp [isCon] at hc
  | raw c => simp [isCon] at hc
  | docNil => simp [isCon] at hc
  | nilAry => simp [isCon] at hc

/-! ### get -/

theorem conGet_refines {o : Opts} {e : Bool} {pc : Node} {key : Bytes} (s : Node)
    (h : Inv e pc) (hc : isCon pc = true) :
    match Spec.getIn (specOpts o) false (den pc) key with
    | .ok (_, v) => ∃ n, conGet o s pc key = .ok n ∧ Inv e n ∧ den n = v
    | .fail _ => ∃ err, conGet o s pc key = .err err
    | .unspec => True := by
  cases pc with
  | doc keys obj =>
    rw [den_doc_inv h, conGet_doc o s keys obj key]
    simp only [Spec.getIn, lookupN_denM]
    rw [Inv_doc] at h
    cases hl : lookupN key obj with
    | none => exact ⟨_, rfl⟩
    | some n => exact ⟨n, rfl, (InvM_lookupN h.2.2 hl).2, rfl⟩
  | ary ns =>
    rw [den_ary]
    simp only [Spec.getIn, denL_length, specOpts_neg]
    have := conGet_ary o s ns key
    cases hr : Spec.readIdx o.neg ns.length key with
    | unspec => trivial
    | bad => rw [hr] at this; exact this
    | «at» i =>
      rw [hr] at this
      obtain ⟨n, hn, hg⟩ := this
      rw [Inv_ary] at h
      simp only [denL_getElem?, hn, Option.map_some]
      exact ⟨n, hg, InvL_getElem? h hn, rfl⟩
  | nil => simp [isCon] at hc
  | raw c => simp [isCon] at hc
  | docNil => simp [isCon] at hc
  | nilAry => simp [isCon] at hc

/-- `get` as `test` uses it: an absent member reads as null, through `ErrMissing` -/
theorem conGet_refines_test {o : Opts} {e : Bool} {pc : Node} {key : Bytes} (s : Node)
    (h : Inv e pc) (hc : isCon pc = true) :
    match Spec.getIn (specOpts o) true (den pc) key with
    | .ok (_, v) => (∃ n, conGet o s pc key = .ok n ∧ Inv e n ∧ den n = v) ∨
        (conGet o s pc key = .err .missing ∧ v = .null)
    | .fail _ => ∃ err, conGet o s pc key = .err err ∧ err ≠ .missing
    | .unspec => True := by
  cases pc with
  | doc keys obj =>
    rw [den_doc_inv h, conGet_doc o s keys obj key]
    simp only [Spec.getIn, lookupN_denM]
    rw [Inv_doc] at h
    cases hl : lookupN key obj with
    | none => exact Or.inr ⟨rfl, rfl⟩
    | some n => exact Or.inl ⟨n, rfl, (InvM_lookupN h.2.2 hl).2, rfl⟩
  | ary ns =>
    rw [den_ary]
    simp only [Spec.getIn, denL_length, specOpts_neg]
    have hcases := readIdx_cases o.neg ns.length key
    have := conGet_ary o s ns key
    cases hr : Spec.readIdx o.neg ns.length key with
    | unspec => trivial
    | bad =>
      rw [hr] at this
      obtain ⟨err, herr⟩ := this
      refine ⟨err, herr, ?_⟩
      -- on an array `get` never answers ErrMissing
      intro hm
      subst hm
      simp only [conGet] at herr
      split at herr
      · cases herr
      · split at herr
        · split at herr
          · cases herr
          · split at herr
            · cases herr
            · split at herr <;> cases herr
        · split at herr <;> cases herr
    | «at» i =>
      rw [hr] at this
      obtain ⟨n, hn, hg⟩ := this
      rw [Inv_ary] at h
      simp only [denL_getElem?, hn, Option.map_some]
      exact Or.inl ⟨n, hg, InvL_getElem? h hn, rfl⟩
  | nil => simp [isCon] at hc
  | raw c => simp [isCon] at hc
  | docNil => simp [isCon] at hc
  | nilAry => simp [isCon] at hc

/-! ### remove -/

theorem conRemove_refines {o : Opts} {e : Bool} {pc : Node} {key : Bytes}
    (h : Inv e pc) (hc : isCon pc = true) :
    match Spec.removeIn (specOpts o) (den pc) key with
    | .ok (p', _) => ∃ pc', conRemove o pc key = .ok pc' ∧ Inv e pc' ∧ isCon pc' = true ∧ den pc' = p'
    | .fail _ => o.allow = false → ∃ err, conRemove o pc key = .err err
    | .unspec => True := by
  cases pc with
  | doc keys obj =>
    rw [den_doc_inv h]
    simp only [Spec.removeIn, lookupN_denM]
    rw [Inv_doc] at h
    obtain ⟨h1, h2, h3⟩ := h
    cases hl : lookupN key obj with
    | none =>
      intro hal
      exact ⟨.missing, by simp [conRemove, hl, hal]⟩
    | some n =>
      have hmem : key ∈ keys := by
        rw [h1, ← lookupN_isSome_iff, hl]; rfl
      have hinv : Inv e (.doc (eraseKey key keys) (eraseN key obj)) := by
        rw [Inv_doc]
        refine ⟨by rw [h1, eraseN_keys], ?_, InvM_eraseN h3⟩
        rw [nodupKeys_iff] at h2 ⊢
        exact List.Nodup.sublist (eraseKey_sublist key keys) h2
      refine ⟨.doc (eraseKey key keys) (eraseN key obj), by simp [conRemove, hl, hmem], hinv, rfl, ?_⟩
      rw [den_doc_inv hinv, denM_eraseN]
      rw [← h1, ← nodupKeys_iff]; exact h2
  | ary ns =>
    rw [den_ary]
    simp only [Spec.removeIn, denL_length, specOpts_neg]
    have := conRemove_ary o ns key
    cases hr : Spec.readIdx o.neg ns.length key with
    | unspec => trivial
    | bad => rw [hr] at this; exact this
    | «at» i =>
      rw [hr] at this
      have hi := readIdx_cases o.neg ns.length key
      rw [hr] at hi
      have hlt : i < ns.length := hi.1
      have : (denL ns)[i]? = some (den ns[i]) := by simp [denL_eq_map, hlt]
      simp only [this]
      refine ⟨_, by assumption, ?_, rfl, ?_⟩
      · rw [Inv_ary] at h ⊢; exact InvL_eraseIdx h
      · rw [den_ary, denL_eraseIdx]
  | nil => simp [isCon] at hc
  | raw c => simp [isCon] at hc
  | docNil => simp [isCon] at hc
  | nilAry => simp [isCon] at hc

/-- `removeIn` and `getIn` agree on what is there -/
theorem removeIn_getIn (so : Spec.Opts) (p : Value) (key : Bytes) :
    match Spec.removeIn so p key with
    | .ok (_, old) => Spec.getIn so false p key = .ok (p, old)
    | .fail _ => ∃ c, Spec.getIn so false p key = .fail c
    | .unspec => Spec.getIn so false p key = .unspec := by
  cases p with
  | obj ms =>
    simp only [Spec.removeIn, Spec.getIn]
    cases Value.lookup key ms <;> simp
  | arr xs =>
    simp only [Spec.removeIn, Spec.getIn]
    cases Spec.readIdx so.neg xs.length key with
    | unspec => simp
    | bad => simp
    | «at» i => cases hx : xs[i]? <;> simp [hx]
  | null => simp [Spec.removeIn, Spec.getIn]
  | bool b => simp [Spec.removeIn, Spec.getIn]
  | num l => simp [Spec.removeIn, Spec.getIn]
  | str s => simp [Spec.removeIn, Spec.getIn]

/-! ### replace -/

theorem replaceIn_getIn (so : Spec.Opts) (v p : Value) (key : Bytes) :
    match Spec.replaceIn so v p key with
    | .ok _ => ∃ old, Spec.getIn so false p key = .ok (p, old)
    | .fail _ => ∃ c, Spec.getIn so false p key = .fail c
    | .unspec => Spec.getIn so false p key = .unspec := by
  cases p with
  | obj ms =>
    simp only [Spec.replaceIn, Spec.getIn]
    cases Value.lookup key ms <;> simp
  | arr xs =>
    simp only [Spec.replaceIn, Spec.getIn]
    have hi := Impl.readIdx_cases so.neg xs.length key
    cases hr : Spec.readIdx so.neg xs.length key with
    | unspec => simp
    | bad => simp
    | «at» i =>
      rw [hr] at hi
      have hlt : i < xs.length := hi.1
      simp [hlt]
  | null => simp [Spec.replaceIn, Spec.getIn]
  | bool b => simp [Spec.replaceIn, Spec.getIn]
  | num l => simp [Spec.replaceIn, Spec.getIn]
  | str s => simp [Spec.replaceIn, Spec.getIn]

theorem conSet_refines {o : Opts} {e : Bool} {pc val : Node} {key : Bytes}
    (h : Inv e pc) (hc : isCon pc = true) (hv : Inv e val) (hk : QK e key = true) :
    match Spec.replaceIn (specOpts o) (den val) (den pc) key with
    | .ok (p', _) => ∃ pc', conSet o pc key val = .ok pc' ∧ Inv e pc' ∧ isCon pc' = true ∧ den pc' = p'
    | _ => True := by
  cases pc with
  | doc keys obj =>
    rw [den_doc_inv h]
    simp only [Spec.replaceIn]
    cases hl : Value.lookup key (denM obj) with
    | none => trivial
    | some old =>
      exact ⟨docSet keys obj key val, rfl, Inv_docSet h hk hv, rfl, den_docSet h hk hv⟩
  | ary ns =>
    rw [den_ary]
    simp only [Spec.replaceIn, denL_length, specOpts_neg]
    have := conSet_ary o ns key val
    have hi := readIdx_cases o.neg ns.length key
    cases hr : Spec.readIdx o.neg ns.length key with
    | unspec => trivial
    | bad => trivial
    | «at» i =>
      rw [hr] at this hi
      have hlt : i < ns.length := hi.1
      simp only [hlt, if_true]
      refine ⟨_, this, ?_, rfl, ?_⟩
      · rw [Inv_ary] at h ⊢; exact InvL_listSet hv h
      · rw [den_ary, denL_listSet]
  | nil => simp [isCon] at hc
  | raw c => simp [isCon] at hc
  | docNil => simp [isCon] at hc
  | nilAry => simp [isCon] at hc

end Impl
end JP
