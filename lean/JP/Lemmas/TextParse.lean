import JP.Lemmas.TextWFC
import JP.Lemmas.TextParseNum

namespace JP

/-! ### string bodies -/

theorem parseStrBody_append (x rest : Bytes) : ∀ (b r : Bytes), parseStrBody x = some (b, r) →
    parseStrBody (x ++ rest) = some (b, r ++ rest) := by
  fun_induction parseStrBody x <;> intro b r h
  all_goals try (simp at h; done)
  · simp only [Option.some.injEq, Prod.mk.injEq] at h
    obtain ⟨rfl, rfl⟩ := h
    simp only [List.cons_append]; rw [parseStrBody.eq_def]; simp
  · rename_i e cs he _ ih
    cases hp : parseStrBody cs with
    | none => rw [hp] at h; simp at h
    | some q =>
      obtain ⟨b', r'⟩ := q
      rw [hp] at h
      simp only [Option.map_some, Option.some.injEq, Prod.mk.injEq] at h
      obtain ⟨rfl, rfl⟩ := h
      have := ih b' r' hp
      simp only [List.cons_append]; rw [parseStrBody.eq_def]
      simp [he, this]
  · rename_i h1 h2 h3 h4 cs hh _ _ ih
    cases hp : parseStrBody cs with
    | none => rw [hp] at h; simp at h
    | some q =>
      obtain ⟨b', r'⟩ := q
      rw [hp] at h
      simp only [Option.map_some, Option.some.injEq, Prod.mk.injEq] at h
      obtain ⟨rfl, rfl⟩ := h
      have := ih b' r' hp
      simp only [List.cons_append]; rw [parseStrBody.eq_def]
      simp [hh, this]
  · rename_i c cs hc1 hc2 hc3 ih
    cases hp : parseStrBody cs with
    | none => rw [hp] at h; simp at h
    | some q =>
      obtain ⟨b', r'⟩ := q
      rw [hp] at h
      simp only [Option.map_some, Option.some.injEq, Prod.mk.injEq] at h
      obtain ⟨rfl, rfl⟩ := h
      have := ih b' r' hp
      simp only [List.cons_append]; rw [parseStrBody.eq_def]
      simp [hc1, hc2, hc3, this]

/-- a valid body followed by the closing quote and any continuation -/
theorem parseStrBody_valid (b rest : Bytes) (h : validBody b = true) :
    parseStrBody (b ++ 34 :: rest) = some (b, rest) := by
  rw [validBody_iff] at h
  have := parseStrBody_append (b ++ [34]) rest b [] h
  simpa using this

/-! ### literals -/

theorem isPrefix_append (w rest : Bytes) : isPrefix w (w ++ rest) = true := by
  induction w with
  | nil => rfl
  | cons a as ih => simp [isPrefix, ih]

theorem parseLit_append (w rest : Bytes) : parseLit w (w ++ rest) = some (.lit w, rest) := by
  simp [parseLit, isPrefix_append]

/-! ### white space -/

theorem skipWs_cons (c : UInt8) (cs : Bytes) (h : isWs c = false) : skipWs (c :: cs) = c :: cs := by
  simp [skipWs, h]

/-- bytes a printed value can start with -/
def startByte (c : UInt8) : Bool :=
  c = 123 || c = 91 || c = 34 || c = 116 || c = 102 || c = 110 || c = 45 || isDigit c

set_option maxRecDepth 100000 in
theorem startByte_fin : ∀ n : Fin 256, startByte (UInt8.ofNat n) = true →
    isWs (UInt8.ofNat n) = false ∧ UInt8.ofNat n ≠ 93 ∧ UInt8.ofNat n ≠ 125 := by decide

theorem startByte_spec (c : UInt8) (h : startByte c = true) : isWs c = false ∧ c ≠ 93 ∧ c ≠ 125 := by
  have := startByte_fin ⟨c.toNat, c.toNat_lt⟩
  simpa [h] using this

theorem validLit_cases (l : Bytes) (h : validLit l = true) :
    l = ascii "true" ∨ l = ascii "false" ∨ l = ascii "null" ∨ parseNumber l = some (l, []) := by
  simpa [validLit, or_assoc] using h

theorem startByte_num (c : UInt8) (h : c = 45 ∨ isDigit c = true) : startByte c = true := by
  cases h with
  | inl h => subst h; decide
  | inr h => simp [startByte, h]

theorem print_head (c : Cst) (h : WFC c = true) :
    ∃ b t, Cst.print c = b :: t ∧ startByte b = true := by
  cases c with
  | lit l =>
    simp only [WFC] at h
    simp only [Cst.print]
    rcases validLit_cases l h with rfl | rfl | rfl | hn
    · exact ⟨116, _, rfl, by decide⟩
    · exact ⟨102, _, rfl, by decide⟩
    · exact ⟨110, _, rfl, by decide⟩
    · obtain ⟨b, t, rfl, hb⟩ := parseNumber_head l l [] hn
      exact ⟨b, t, rfl, startByte_num b hb⟩
  | str b => exact ⟨34, _, rfl, by decide⟩
  | arr xs => exact ⟨91, _, rfl, by decide⟩
  | obj ms => exact ⟨123, _, rfl, by decide⟩

/-! ### one-step unfoldings of the parser -/

theorem parseValue_arr_nil (f d : Nat) (cs r : Bytes) (hd : d + 1 ≤ maxDepth)
    (h : skipWs cs = 93 :: r) : parseValue (f + 1) d (91 :: cs) = some (.arr [], r) := by
  have hd' : ¬ (d + 1 > maxDepth) := by omega
  rw [parseValue]
  simp [hd', h]

theorem parseValue_arr_cons (f d : Nat) (cs : Bytes) (hd : d + 1 ≤ maxDepth)
    (h : ∀ r, skipWs cs ≠ 93 :: r) : parseValue (f + 1) d (91 :: cs) =
      (parseElems f (d + 1) (skipWs cs)).map fun (xs, r') => (.arr xs, r') := by
  have hd' : ¬ (d + 1 > maxDepth) := by omega
  rw [parseValue]
  simp [hd']

theorem parseValue_obj_nil (f d : Nat) (cs r : Bytes) (hd : d + 1 ≤ maxDepth)
    (h : skipWs cs = 125 :: r) : parseValue (f + 1) d (123 :: cs) = some (.obj [], r) := by
  have hd' : ¬ (d + 1 > maxDepth) := by omega
  rw [parseValue]
  simp [hd', h]

theorem parseValue_obj_cons (f d : Nat) (cs : Bytes) (hd : d + 1 ≤ maxDepth)
    (h : ∀ r, skipWs cs ≠ 125 :: r) : parseValue (f + 1) d (123 :: cs) =
      (parseMembers f (d + 1) (skipWs cs)).map fun (ms, r') => (.obj ms, r') := by
  have hd' : ¬ (d + 1 > maxDepth) := by omega
  rw [parseValue]
  simp [hd']

theorem parseValue_str (f d : Nat) (cs : Bytes) : parseValue (f + 1) d (34 :: cs) =
      (parseStrBody cs).map fun (b, r) => (.str b, r) := by
  rw [parseValue]
  simp

theorem parseValue_true (f d : Nat) (cs : Bytes) :
    parseValue (f + 1) d (116 :: cs) = parseLit (ascii "true") (116 :: cs) := by
  rw [parseValue]; simp

theorem parseValue_false (f d : Nat) (cs : Bytes) :
    parseValue (f + 1) d (102 :: cs) = parseLit (ascii "false") (102 :: cs) := by
  rw [parseValue]; simp

theorem parseValue_null (f d : Nat) (cs : Bytes) :
    parseValue (f + 1) d (110 :: cs) = parseLit (ascii "null") (110 :: cs) := by
  rw [parseValue]; simp

set_option maxRecDepth 100000 in
theorem numHead_fin : ∀ n : Fin 256, (UInt8.ofNat n = 45 ∨ isDigit (UInt8.ofNat n) = true) →
    UInt8.ofNat n ≠ 123 ∧ UInt8.ofNat n ≠ 91 ∧ UInt8.ofNat n ≠ 34 ∧ UInt8.ofNat n ≠ 116 ∧
      UInt8.ofNat n ≠ 102 ∧ UInt8.ofNat n ≠ 110 := by decide

theorem numHead_spec (c : UInt8) (h : c = 45 ∨ isDigit c = true) :
    c ≠ 123 ∧ c ≠ 91 ∧ c ≠ 34 ∧ c ≠ 116 ∧ c ≠ 102 ∧ c ≠ 110 := by
  have := numHead_fin ⟨c.toNat, c.toNat_lt⟩
  simpa [h] using this

theorem parseValue_num (f d : Nat) (c : UInt8) (cs : Bytes) (h : c = 45 ∨ isDigit c = true) :
    parseValue (f + 1) d (c :: cs) = (parseNumber (c :: cs)).map fun (l, r) => (.lit l, r) := by
  obtain ⟨h1, h2, h3, h4, h5, h6⟩ := numHead_spec c h
  rw [parseValue]; simp [h1, h2, h3, h4, h5, h6]

theorem parseElems_last (f d : Nat) (bs r r' : Bytes) (x : Cst)
    (h1 : parseValue f d bs = some (x, r)) (h2 : skipWs r = 93 :: r') :
    parseElems (f + 1) d bs = some ([x], r') := by
  rw [parseElems]; simp [h1, h2]

theorem parseElems_more (f d : Nat) (bs r r' : Bytes) (x : Cst)
    (h1 : parseValue f d bs = some (x, r)) (h2 : skipWs r = 44 :: r') :
    parseElems (f + 1) d bs =
      (parseElems f d (skipWs r')).map fun (xs, r'') => (x :: xs, r'') := by
  rw [parseElems]; simp [h1, h2]

theorem parseMembers_last (f d : Nat) (cs k r r1 r2 r3 : Bytes) (v : Cst)
    (h1 : parseStrBody cs = some (k, r)) (h2 : skipWs r = 58 :: r1)
    (h3 : parseValue f d (skipWs r1) = some (v, r2)) (h4 : skipWs r2 = 125 :: r3) :
    parseMembers (f + 1) d (34 :: cs) = some ([(k, v)], r3) := by
  rw [parseMembers]; simp [h1, h2, h3, h4]

theorem parseMembers_more (f d : Nat) (cs k r r1 r2 r3 : Bytes) (v : Cst)
    (h1 : parseStrBody cs = some (k, r)) (h2 : skipWs r = 58 :: r1)
    (h3 : parseValue f d (skipWs r1) = some (v, r2)) (h4 : skipWs r2 = 44 :: r3) :
    parseMembers (f + 1) d (34 :: cs) =
      (parseMembers f d (skipWs r3)).map fun (ms, r4) => ((k, v) :: ms, r4) := by
  rw [parseMembers]; simp [h1, h2, h3, h4]

/-! ### first bytes of printed lists -/

theorem skipWs_start (bs rest : Bytes) (b : UInt8) (t : Bytes) (h : bs = b :: t)
    (hb : startByte b = true) : skipWs (bs ++ rest) = bs ++ rest := by
  subst h
  exact skipWs_cons b (t ++ rest) (startByte_spec b hb).1

theorem skipWs_print (c : Cst) (rest : Bytes) (h : WFC c = true) :
    skipWs (Cst.print c ++ rest) = Cst.print c ++ rest := by
  obtain ⟨b, t, hp, hb⟩ := print_head c h
  exact skipWs_start _ rest b t hp hb

theorem printL_head (x : Cst) (tl : List Cst) (h : WFC x = true) :
    ∃ b t, Cst.printL (x :: tl) = b :: t ∧ startByte b = true := by
  obtain ⟨b, t, hp, hb⟩ := print_head x h
  cases tl with
  | nil => exact ⟨b, t, by simp [Cst.printL, hp], hb⟩
  | cons y ys => exact ⟨b, t ++ 44 :: Cst.printL (y :: ys), by simp [Cst.printL, hp], hb⟩

theorem printM_head (k : Bytes) (v : Cst) (tl : List (Bytes × Cst)) :
    ∃ t, Cst.printM ((k, v) :: tl) = 34 :: t := by
  cases tl with
  | nil => exact ⟨_, rfl⟩
  | cons y ys => exact ⟨_, rfl⟩

/-- continuation after a value inside a container or at the end of the text -/
def delim : Bytes → Prop
  | [] => True
  | c :: _ => c = 44 ∨ c = 93 ∨ c = 125

theorem delim_numStop (rest : Bytes) (h : delim rest) : numStop rest := by
  cases rest with
  | nil => trivial
  | cons c cs =>
    simp only [delim] at h
    rcases h with rfl | rfl | rfl <;> simp only [numStop] <;> decide

/-! ### the round trip, generalised over fuel, depth and continuation -/

theorem parseValue_print_lit (l : Bytes) (f d : Nat) (rest : Bytes) (hw : validLit l = true)
    (hr : numStop rest) : parseValue (f + 1) d (l ++ rest) = some (.lit l, rest) := by
  rcases validLit_cases l hw with rfl | rfl | rfl | hn
  · exact (parseValue_true f d _).trans (parseLit_append (ascii "true") rest)
  · exact (parseValue_false f d _).trans (parseLit_append (ascii "false") rest)
  · exact (parseValue_null f d _).trans (parseLit_append (ascii "null") rest)
  · obtain ⟨b, t, rfl, hb⟩ := parseNumber_head l l [] hn
    rw [List.cons_append, parseValue_num f d b _ hb, ← List.cons_append,
      parseNumber_complete _ rest hn hr]
    rfl

theorem parseValue_print_str (b : Bytes) (f d : Nat) (rest : Bytes) (hw : validBody b = true) :
    parseValue (f + 1) d (Cst.print (.str b) ++ rest) = some (.str b, rest) := by
  simp only [Cst.print, List.cons_append, List.append_assoc, List.nil_append]
  rw [parseValue_str, parseStrBody_valid b rest hw]
  rfl

mutual
theorem parseValue_print : ∀ (c : Cst) (fuel d : Nat) (rest : Bytes), WFC c = true →
    (Cst.print c).length < fuel → d + c.depth ≤ maxDepth → numStop rest →
    parseValue fuel d (Cst.print c ++ rest) = some (c, rest)
  | .lit l, fuel, d, rest, hw, hf, hd, hr => by
    cases fuel with
    | zero => omega
    | succ f => exact parseValue_print_lit l f d rest (by simpa [WFC] using hw) hr
  | .str b, fuel, d, rest, hw, hf, hd, hr => by
    cases fuel with
    | zero => omega
    | succ f => exact parseValue_print_str b f d rest (by simpa [WFC] using hw)
  | .arr xs, fuel, d, rest, hw, hf, hd, hr => by
    have ih := parseElems_print xs
    cases fuel with
    | zero => omega
    | succ f =>
      cases xs with
      | nil =>
        simp only [Cst.depth, Cst.depthL] at hd
        exact parseValue_arr_nil f d _ rest (by omega) (skipWs_cons 93 rest (by decide))
      | cons x tl =>
        simp only [WFC, WFCL, Bool.and_eq_true] at hw
        simp only [Cst.depth] at hd
        simp only [Cst.print, List.length_cons, List.length_append] at hf
        obtain ⟨b, t, hp, hb⟩ := printL_head x tl hw.1
        have hs := skipWs_start _ (93 :: rest) b t hp hb
        simp only [Cst.print, List.cons_append, List.append_assoc, List.nil_append]
        rw [parseValue_arr_cons f d _ (by omega), hs,
          ih f (d + 1) rest (by simp) (by simp [WFCL, hw]) (by omega) (by omega)]
        · rfl
        · intro r hr'
          rw [hs, hp] at hr'
          simp only [List.cons_append, List.cons.injEq] at hr'
          exact (startByte_spec b hb).2.1 hr'.1
  | .obj ms, fuel, d, rest, hw, hf, hd, hr => by
    have ih := parseMembers_print ms
    cases fuel with
    | zero => omega
    | succ f =>
      cases ms with
      | nil =>
        simp only [Cst.depth, Cst.depthM] at hd
        exact parseValue_obj_nil f d _ rest (by omega) (skipWs_cons 125 rest (by decide))
      | cons m tl =>
        obtain ⟨k, v⟩ := m
        simp only [WFC] at hw
        simp only [Cst.depth] at hd
        simp only [Cst.print, List.length_cons, List.length_append] at hf
        obtain ⟨t, hp⟩ := printM_head k v tl
        have hs := skipWs_start _ (125 :: rest) 34 t hp (by decide)
        simp only [Cst.print, List.cons_append, List.append_assoc, List.nil_append]
        rw [parseValue_obj_cons f d _ (by omega), hs,
          ih f (d + 1) rest (by simp) hw (by omega) (by omega)]
        · rfl
        · intro r hr'
          rw [hs, hp] at hr'
          simp only [List.cons_append, List.cons.injEq] at hr'
          exact absurd hr'.1 (by decide)
theorem parseElems_print : ∀ (xs : List Cst) (fuel d : Nat) (rest : Bytes), xs ≠ [] →
    WFCL xs = true → (Cst.printL xs).length + 1 < fuel → d + Cst.depthL xs ≤ maxDepth →
    parseElems fuel d (Cst.printL xs ++ 93 :: rest) = some (xs, rest)
  | [], _, _, _, hne, _, _, _ => absurd rfl hne
  | x :: tl, fuel, d, rest, _, hw, hf, hd => by
    have ihx := parseValue_print x
    have iht := parseElems_print tl
    simp only [WFCL, Bool.and_eq_true] at hw
    simp only [Cst.depthL] at hd
    cases fuel with
    | zero => omega
    | succ f =>
      cases tl with
      | nil =>
        simp only [Cst.printL] at hf ⊢
        have h1 := ihx f d (93 :: rest) hw.1 (by omega) (by omega) (by simp only [numStop]; decide)
        exact parseElems_last f d _ _ rest x h1 (skipWs_cons 93 rest (by decide))
      | cons y ys =>
        simp only [Cst.printL, List.length_append, List.length_cons] at hf
        simp only [Cst.printL, List.append_assoc, List.cons_append]
        have h1 := ihx f d (44 :: (Cst.printL (y :: ys) ++ 93 :: rest)) hw.1 (by omega) (by omega)
          (by simp only [numStop]; decide)
        obtain ⟨b, t, hp, hb⟩ := printL_head y ys (by simp only [WFCL, Bool.and_eq_true] at hw; exact hw.2.1)
        have hs := skipWs_start _ (93 :: rest) b t hp hb
        rw [parseElems_more f d _ _ _ x h1 (skipWs_cons 44 _ (by decide)), hs,
          iht f d rest (by simp) hw.2 (by omega) (by omega)]
        rfl
theorem parseMembers_print : ∀ (ms : List (Bytes × Cst)) (fuel d : Nat) (rest : Bytes), ms ≠ [] →
    WFCM ms = true → (Cst.printM ms).length + 1 < fuel → d + Cst.depthM ms ≤ maxDepth →
    parseMembers fuel d (Cst.printM ms ++ 125 :: rest) = some (ms, rest)
  | [], _, _, _, hne, _, _, _ => absurd rfl hne
  | (k, v) :: tl, fuel, d, rest, _, hw, hf, hd => by
    have ihv := parseValue_print v
    have iht := parseMembers_print tl
    simp only [WFCM, Bool.and_eq_true] at hw
    simp only [Cst.depthM] at hd
    cases fuel with
    | zero => omega
    | succ f =>
      cases tl with
      | nil =>
        simp only [Cst.printM, List.length_append, List.length_cons] at hf
        simp only [Cst.printM, List.append_assoc, List.cons_append]
        have h1 := parseStrBody_valid k (58 :: (Cst.print v ++ 125 :: rest)) hw.1.1
        have h3 := ihv f d (125 :: rest) hw.1.2 (by omega) (by omega) (by simp only [numStop]; decide)
        rw [← skipWs_print v (125 :: rest) hw.1.2] at h3
        exact parseMembers_last f d _ k _ _ _ rest v h1 (skipWs_cons 58 _ (by decide)) h3
          (skipWs_cons 125 rest (by decide))
      | cons m ms =>
        obtain ⟨k', v'⟩ := m
        simp only [Cst.printM, List.length_append, List.length_cons] at hf
        simp only [Cst.printM, List.append_assoc, List.cons_append]
        have h1 := parseStrBody_valid k (58 :: (Cst.print v ++ 44 :: (Cst.printM ((k', v') :: ms) ++ 125 :: rest))) hw.1.1
        have h3 := ihv f d (44 :: (Cst.printM ((k', v') :: ms) ++ 125 :: rest)) hw.1.2 (by omega) (by omega) (by simp only [numStop]; decide)
        rw [← skipWs_print v _ hw.1.2] at h3
        obtain ⟨t, hp⟩ := printM_head k' v' ms
        have hs := skipWs_start _ (125 :: rest) 34 t hp (by decide)
        rw [parseMembers_more f d _ k _ _ _ _ v h1 (skipWs_cons 58 _ (by decide)) h3
          (skipWs_cons 44 _ (by decide)), hs, iht f d rest (by simp) hw.2 (by omega) (by omega)]
        rfl
end

/-- the compact print of a well-formed tree within the nesting limit parses back to the tree -/
theorem parse_print (c : Cst) (hc : WFC c = true) (hd : c.depth ≤ maxDepth) :
    parseCst (Cst.print c) = some c := by
  have h1 := parseValue_print c ((Cst.print c).length + 1) 0 [] hc (by omega) (by omega) trivial
  have h2 := skipWs_print c [] hc
  rw [List.append_nil] at h1 h2
  simp [parseCst, h2, h1, skipWs]

theorem numStop_of_skipWs_nil (ws : Bytes) (h : skipWs ws = []) : numStop ws := by
  cases ws with
  | nil => trivial
  | cons c cs =>
    simp only [skipWs] at h
    by_cases hc : isWs c = true
    · simp only [numStop]
      simp only [isWs, Bool.or_eq_true, decide_eq_true_eq] at hc
      rcases hc with ((rfl | rfl) | rfl) | rfl <;> decide
    · simp [hc] at h

/-- trailing white space is also accepted -/
theorem parse_print_ws (c : Cst) (ws : Bytes) (hc : WFC c = true) (hd : c.depth ≤ maxDepth)
    (hws : skipWs ws = []) : parseCst (Cst.print c ++ ws) = some c := by
  have h1 := parseValue_print c ((Cst.print c ++ ws).length + 1) 0 ws hc
    (by simp only [List.length_append]; omega) (by omega) (numStop_of_skipWs_nil ws hws)
  have h2 := skipWs_print c ws hc
  unfold parseCst
  rw [h2, h1]
  simp [hws]

/-- the hypotheses of `parse_print` are satisfiable by a non-trivial tree -/
example : parseCst (Cst.print (.obj [([97, 92, 110], .arr [.lit [45, 49, 46, 53],
    .str [92, 117, 48, 48, 101, 57], .lit [110, 117, 108, 108], .arr [], .obj []])])) =
    some (.obj [([97, 92, 110], .arr [.lit [45, 49, 46, 53],
    .str [92, 117, 48, 48, 101, 57], .lit [110, 117, 108, 108], .arr [], .obj []])]) :=
  parse_print _ (by decide) (by decide)

end JP

-- #print axioms JP.parse_print
-- 'JP.parse_print' depends on axioms: [propext, Classical.choice, Quot.sound]
