import JP.Lemmas.EscScan
import JP.Lemmas.CloseNum

/-!
# The escapes of a printed tree are the escapes of its bodies (`hE_print`)
-/

namespace JP
namespace Impl

/-! ### literals contain no backslash -/

/-- the bytes a number literal is made of -/
def numChar (c : UInt8) : Prop := isDigit c = true ∨ c = 45 ∨ c = 43 ∨ c = 46 ∨ c = 101 ∨ c = 69

theorem numChar_ne {c : UInt8} (h : numChar c) : c ≠ 92 := by
  rintro rfl
  rcases h with h | h | h | h | h | h <;> revert h <;> decide

theorem takeDigits_eq : ∀ (x d r : Bytes), takeDigits x = (d, r) → x = d ++ r ∧ ∀ c ∈ d, isDigit c = true
  | [], d, r, h => by
    simp only [takeDigits, Prod.mk.injEq] at h
    obtain ⟨rfl, rfl⟩ := h
    simp
  | c :: cs, d, r, h => by
    simp only [takeDigits] at h
    split at h
    · rename_i hc
      cases h' : takeDigits cs with
      | mk d' r' =>
        rw [h'] at h
        simp only [Prod.mk.injEq] at h
        obtain ⟨rfl, rfl⟩ := h
        obtain ⟨e1, e2⟩ := takeDigits_eq cs d' r' h'
        refine ⟨by rw [e1]; rfl, ?_⟩
        intro x hx
        simp only [List.mem_cons] at hx
        rcases hx with rfl | hx
        · exact hc
        · exact e2 x hx
    · simp only [Prod.mk.injEq] at h
      obtain ⟨rfl, rfl⟩ := h
      simp

theorem numSign_eq (x : Bytes) : x = (numSign x).1 ++ (numSign x).2 ∧ ∀ c ∈ (numSign x).1, numChar c := by
  unfold numSign
  split
  · exact ⟨rfl, by intro c hc; simp at hc; subst hc; exact Or.inr (Or.inl rfl)⟩
  · exact ⟨rfl, by simp⟩

theorem numInt_eq (x p r : Bytes) (h : numInt x = some (p, r)) : x = p ++ r ∧ ∀ c ∈ p, numChar c := by
  unfold numInt at h
  split at h
  · simp only [Option.some.injEq, Prod.mk.injEq] at h
    obtain ⟨rfl, rfl⟩ := h
    exact ⟨rfl, by intro c hc; simp at hc; subst hc; exact Or.inl (by decide)⟩
  · rename_i c r' _
    split at h
    · rename_i hc
      cases h' : takeDigits r' with
      | mk d' r'' =>
        rw [h'] at h
        simp only [Option.some.injEq, Prod.mk.injEq] at h
        obtain ⟨rfl, rfl⟩ := h
        obtain ⟨e1, e2⟩ := takeDigits_eq r' d' r'' h'
        refine ⟨by rw [e1]; rfl, ?_⟩
        intro x hx
        simp only [List.mem_cons] at hx
        rcases hx with rfl | hx
        · exact Or.inl hc
        · exact Or.inl (e2 x hx)
    · cases h
  · cases h

theorem numFrac_eq (x p r : Bytes) (h : numFrac x = some (p, r)) : x = p ++ r ∧ ∀ c ∈ p, numChar c := by
  unfold numFrac at h
  split at h
  · rename_i r'
    cases h' : takeDigits r' with
    | mk d' r'' =>
      rw [h'] at h
      simp only at h
      split at h
      · cases h
      · simp only [Option.some.injEq, Prod.mk.injEq] at h
        obtain ⟨rfl, rfl⟩ := h
        obtain ⟨e1, e2⟩ := takeDigits_eq r' d' r'' h'
        refine ⟨by rw [e1]; rfl, ?_⟩
        intro x hx
        simp only [List.mem_cons] at hx
        rcases hx with rfl | hx
        · exact Or.inr (Or.inr (Or.inr (Or.inl rfl)))
        · exact Or.inl (e2 x hx)
  · simp only [Option.some.injEq, Prod.mk.injEq] at h
    obtain ⟨rfl, rfl⟩ := h
    exact ⟨rfl, by simp⟩

theorem numExpSign_eq (x : Bytes) : x = (numExpSign x).1 ++ (numExpSign x).2 ∧ ∀ c ∈ (numExpSign x).1, numChar c := by
  unfold numExpSign
  split
  · exact ⟨rfl, by intro c hc; simp at hc; subst hc; exact Or.inr (Or.inr (Or.inl rfl))⟩
  · exact ⟨rfl, by intro c hc; simp at hc; subst hc; exact Or.inr (Or.inl rfl)⟩
  · exact ⟨rfl, by simp⟩

theorem numExp_eq (x p r : Bytes) (h : numExp x = some (p, r)) : x = p ++ r ∧ ∀ c ∈ p, numChar c := by
  cases x with
  | nil =>
    simp only [numExp, Option.some.injEq, Prod.mk.injEq] at h
    obtain ⟨rfl, rfl⟩ := h
    exact ⟨rfl, by simp⟩
  | cons e t =>
    simp only [numExp] at h
    by_cases he : e = 101 ∨ e = 69
    · simp only [he, if_true] at h
      obtain ⟨s1, s2⟩ := numExpSign_eq t
      cases hs : numExpSign t with
      | mk sg r' =>
        rw [hs] at h s1 s2
        simp only at h s1 s2
        cases h' : takeDigits r' with
        | mk d' r'' =>
          rw [h'] at h
          simp only at h
          split at h
          · cases h
          · simp only [Option.some.injEq, Prod.mk.injEq] at h
            obtain ⟨rfl, rfl⟩ := h
            obtain ⟨e1, e2⟩ := takeDigits_eq r' d' r'' h'
            refine ⟨by rw [s1, e1]; simp, ?_⟩
            intro x hx
            simp only [List.cons_append, List.mem_cons, List.mem_append] at hx
            rcases hx with rfl | hx | hx
            · rcases he with rfl | rfl
              · exact Or.inr (Or.inr (Or.inr (Or.inr (Or.inl rfl))))
              · exact Or.inr (Or.inr (Or.inr (Or.inr (Or.inr rfl))))
            · exact s2 x hx
            · exact Or.inl (e2 x hx)
    · simp only [he, if_false, Option.some.injEq, Prod.mk.injEq] at h
      obtain ⟨rfl, rfl⟩ := h
      exact ⟨rfl, by simp⟩

/-- a successful `parseNumber` splits its input, and the literal consists of number bytes -/
theorem parseNumber_eq_append (x l r : Bytes) (h : parseNumber x = some (l, r)) :
    x = l ++ r ∧ ∀ c ∈ l, numChar c := by
  rw [parseNumber_eq] at h
  obtain ⟨s1, s2⟩ := numSign_eq x
  cases hsg : numSign x with
  | mk sg r0 =>
    rw [hsg] at h s1 s2
    simp only at h s1 s2
    cases h1 : numInt r0 with
    | none => rw [h1] at h; simp at h
    | some q1 =>
      obtain ⟨ip, r1⟩ := q1
      rw [h1] at h
      simp only at h
      cases h2 : numFrac r1 with
      | none => rw [h2] at h; simp at h
      | some q2 =>
        obtain ⟨fp, r2⟩ := q2
        rw [h2] at h
        simp only at h
        cases h3 : numExp r2 with
        | none => rw [h3] at h; simp at h
        | some q3 =>
          obtain ⟨ep, r3⟩ := q3
          rw [h3] at h
          simp only [Option.some.injEq, Prod.mk.injEq] at h
          obtain ⟨rfl, rfl⟩ := h
          obtain ⟨a1, a2⟩ := numInt_eq r0 ip r1 h1
          obtain ⟨b1, b2⟩ := numFrac_eq r1 fp r2 h2
          obtain ⟨c1, c2⟩ := numExp_eq r2 ep _ h3
          refine ⟨by rw [s1, a1, b1, c1]; simp, ?_⟩
          intro x hx
          simp only [List.mem_append] at hx
          rcases hx with ((hx | hx) | hx) | hx
          · exact s2 x hx
          · exact a2 x hx
          · exact b2 x hx
          · exact c2 x hx

theorem validLit_noBS {l : Bytes} (h : validLit l = true) : ∀ c ∈ l, c ≠ 92 := by
  simp only [validLit, Bool.or_eq_true, decide_eq_true_eq] at h
  rcases h with ((rfl | rfl) | rfl) | h
  · decide
  · decide
  · decide
  · intro c hc
    exact numChar_ne ((parseNumber_eq_append l l [] h).2 c hc)

/-! ### the escapes of the bodies of a tree, in print order -/

mutual
def escs : Cst → List Nat
  | .lit _ => []
  | .str b => hE b
  | .arr xs => escsL xs
  | .obj ms => escsM ms
def escsL : List Cst → List Nat
  | [] => []
  | x :: xs => escs x ++ escsL xs
def escsM : List (Bytes × Cst) → List Nat
  | [] => []
  | (k, v) :: ms => hE k ++ escs v ++ escsM ms
end

mutual
theorem escs_CA {A : Nat → Prop} : ∀ c : Cst, CA A c → ∀ v ∈ escs c, A v
  | .lit _, _, v, hv => by simp [escs] at hv
  | .str b, h, v, hv => by simp only [CA] at h; simp only [escs] at hv; exact h.1 v hv
  | .arr xs, h, v, hv => by simp only [CA] at h; simp only [escs] at hv; exact escsL_CA xs h v hv
  | .obj ms, h, v, hv => by simp only [CA] at h; simp only [escs] at hv; exact escsM_CA ms h v hv
theorem escsL_CA {A : Nat → Prop} : ∀ xs : List Cst, CAL A xs → ∀ v ∈ escsL xs, A v
  | [], _, v, hv => by simp [escsL] at hv
  | x :: xs, h, v, hv => by
    simp only [CAL] at h
    simp only [escsL, List.mem_append] at hv
    rcases hv with hv | hv
    · exact escs_CA x h.1 v hv
    · exact escsL_CA xs h.2 v hv
theorem escsM_CA {A : Nat → Prop} : ∀ ms : List (Bytes × Cst), CAM A ms → ∀ v ∈ escsM ms, A v
  | [], _, v, hv => by simp [escsM] at hv
  | (k, x) :: ms, h, v, hv => by
    simp only [CAM] at h
    simp only [escsM, List.mem_append] at hv
    rcases hv with (hv | hv) | hv
    · exact h.1.1 v hv
    · exact escs_CA x h.2.1 v hv
    · exact escsM_CA ms h.2.2 v hv
end

theorem Cpl_single {c : UInt8} (h : c ≠ 92) : Cpl [c] := Cpl_plain h Cpl_nil

theorem hE_single {c : UInt8} (h : c ≠ 92) : hE [c] = [] := by rw [hE_plain _ _ h]; rfl

/-- a quoted body -/
theorem Cpl_quoted {b : Bytes} (h : validBody b = true) : Cpl (34 :: b ++ [34]) ∧ hE (34 :: b ++ [34]) = hE b := by
  have hb := Cpl_validBody h
  have h1 : Cpl (34 :: b) := Cpl_plain (by decide) hb
  have h2 : Cpl ([34] : Bytes) := Cpl_single (by decide)
  refine ⟨Cpl_append h1 h2, ?_⟩
  rw [h1 [34], hE_plain _ _ (by decide), hE_single (by decide), List.append_nil]

mutual
theorem hE_print : ∀ c : Cst, WFC c = true → Cpl (Cst.print c) ∧ hE (Cst.print c) = escs c
  | .lit l, h => by
    simp only [WFC] at h
    simp only [Cst.print, escs]
    exact Cpl_noBS l (validLit_noBS h)
  | .str b, h => by
    simp only [WFC] at h
    simp only [Cst.print, escs]
    exact Cpl_quoted h
  | .arr xs, h => by
    simp only [WFC] at h
    obtain ⟨h1, h2⟩ := hE_printL xs h
    simp only [Cst.print, escs]
    have a1 : Cpl (91 :: Cst.printL xs) := Cpl_plain (by decide) h1
    refine ⟨Cpl_append a1 (Cpl_single (by decide)), ?_⟩
    rw [a1 [93], hE_plain _ _ (by decide), hE_single (by decide), List.append_nil, h2]
  | .obj ms, h => by
    simp only [WFC] at h
    obtain ⟨h1, h2⟩ := hE_printM ms h
    simp only [Cst.print, escs]
    have a1 : Cpl (123 :: Cst.printM ms) := Cpl_plain (by decide) h1
    refine ⟨Cpl_append a1 (Cpl_single (by decide)), ?_⟩
    rw [a1 [125], hE_plain _ _ (by decide), hE_single (by decide), List.append_nil, h2]
theorem hE_printL : ∀ xs : List Cst, WFCL xs = true → Cpl (Cst.printL xs) ∧ hE (Cst.printL xs) = escsL xs
  | [], _ => ⟨Cpl_nil, rfl⟩
  | [x], h => by
    simp only [WFCL, Bool.and_eq_true] at h
    obtain ⟨h1, h2⟩ := hE_print x h.1
    simp only [Cst.printL, escsL, List.append_nil]
    exact ⟨h1, h2⟩
  | x :: y :: xs, h => by
    simp only [WFCL, Bool.and_eq_true] at h
    obtain ⟨h1, h2⟩ := hE_print x h.1
    obtain ⟨h3, h4⟩ := hE_printL (y :: xs) (by simp only [WFCL, Bool.and_eq_true]; exact h.2)
    simp only [Cst.printL]
    have a1 : Cpl (44 :: Cst.printL (y :: xs)) := Cpl_plain (by decide) h3
    refine ⟨Cpl_append h1 a1, ?_⟩
    rw [h1, hE_plain _ _ (by decide), h2, h4]
    rfl
theorem hE_printM : ∀ ms : List (Bytes × Cst), WFCM ms = true → Cpl (Cst.printM ms) ∧ hE (Cst.printM ms) = escsM ms
  | [], _ => ⟨Cpl_nil, rfl⟩
  | [(k, v)], h => by
    simp only [WFCM, Bool.and_eq_true] at h
    obtain ⟨q1, q2⟩ := Cpl_quoted h.1.1
    obtain ⟨h1, h2⟩ := hE_print v h.1.2
    simp only [Cst.printM, escsM, List.append_nil]
    have e : ((34 :: k) ++ 34 :: 58 :: Cst.print v) = ((34 :: k) ++ [34]) ++ (58 :: Cst.print v) := by simp
    rw [e]
    have a1 : Cpl (58 :: Cst.print v) := Cpl_plain (by decide) h1
    refine ⟨Cpl_append q1 a1, ?_⟩
    rw [q1, q2, hE_plain _ _ (by decide), h2]
  | (k, v) :: m :: ms, h => by
    rw [WFCM] at h
    simp only [Bool.and_eq_true] at h
    obtain ⟨q1, q2⟩ := Cpl_quoted h.1.1
    obtain ⟨h1, h2⟩ := hE_print v h.1.2
    obtain ⟨h3, h4⟩ := hE_printM (m :: ms) h.2
    rw [Cst.printM, escsM]
    have e : (34 :: k ++ 34 :: 58 :: Cst.print v ++ 44 :: Cst.printM (m :: ms)) =
        ((34 :: k) ++ [34]) ++ ((58 :: Cst.print v) ++ (44 :: Cst.printM (m :: ms))) := by simp
    rw [e]
    have a1 : Cpl (58 :: Cst.print v) := Cpl_plain (by decide) h1
    have a2 : Cpl (44 :: Cst.printM (m :: ms)) := Cpl_plain (by decide) h3
    refine ⟨Cpl_append q1 (Cpl_append a1 a2), ?_⟩
    rw [q1, q2, a1, hE_plain _ _ (by decide), h2, hE_plain _ _ (by decide), h4, List.append_assoc]
end

/-- **T1**: every HTML-class escape of a printed tree is an escape of one of its bodies -/
theorem hE_print_CA {A : Nat → Prop} (t : Cst) (hw : WFC t = true) (h : CA A t) :
    ∀ v ∈ hE (Cst.print t), A v := by
  rw [(hE_print t hw).2]
  exact escs_CA t h

end Impl
end JP
