import JP.Cst

/-!
# Shared auxiliary declarations for the reference parser

`fun_induction parseStrBody` makes Lean generate auxiliary public constants
(`JP.parseStrBody.induct_unfolding`, `JP.parseStrBody.match_3.congr_eq_1`, …) in the module where
it is first used.  Both the `Scan*` and the `Text*` lemma families use it; generating the
constants here, in a common ancestor, lets a module import both families.
-/

namespace JP

theorem parseStrBody_aux_trigger (cs : Bytes) : parseStrBody cs = parseStrBody cs := by
  fun_induction parseStrBody cs <;> rfl

end JP
