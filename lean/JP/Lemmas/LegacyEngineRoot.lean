import JP.Lemmas.LegacyEngineApply

/-!
# Legacy engine lemmas, part 7: the root container `ApplyIndent` decodes, and `applyBytes`
-/

namespace JP

/-- an array text starts with `[`, an object text with `{` -/
def HeadOK (c : Cst) (bs : Bytes) : Prop :=
  match c with
  | .arr _ => ∃ cs, bs = 91 :: cs
  | .obj _ => ∃ cs, bs = 123 :: cs
  | _ => True

/-- the first byte decides whether the reference parser returns an array or an object -/
theorem parseValue_head (fuel d : Nat) (bs : Bytes) (c : Cst) (r : Bytes)
    (h : parseValue fuel d bs = some (c, r)) : HeadOK c bs := by
  unfold HeadOK
  cases fuel with
  | zero => simp [parseValue] at h
  | succ fuel =>
    cases bs with
    | nil => simp [parseValue] at h
    | cons c0 cs =>
      rw [parseValue] at h
      simp only at h
      by_cases h1 : c0 = 123
      · subst h1
        cases c <;> first | trivial | exact ⟨cs, rfl⟩ | skip
        all_goals
          simp only [if_true] at h
          repeat' split at h
          all_goals simp at h
      · rw [if_neg h1] at h
        by_cases h2 : c0 = 91
        · subst h2
          cases c <;> first | trivial | exact ⟨cs, rfl⟩ | skip
          all_goals
            simp only [if_true] at h
            repeat' split at h
            all_goals simp at h
        · rw [if_neg h2] at h
          cases c with
          | lit s => trivial
          | str b => trivial
          | arr xs =>
            exfalso
            repeat' split at h
            all_goals simp [parseLit] at h
            all_goals (try (split at h <;> simp at h))
          | obj ms =>
            exfalso
            repeat' split at h
            all_goals simp [parseLit] at h
            all_goals (try (split at h <;> simp at h))

theorem parseCst_head {doc : Bytes} {c : Cst} (h : parseCst doc = some c) : HeadOK c (skipWs doc) := by
  unfold parseCst at h
  cases hp : parseValue (doc.length + 1) 0 (skipWs doc) with
  | none => rw [hp] at h; cases h
  | some cr =>
    obtain ⟨c', r⟩ := cr
    rw [hp] at h
    simp only at h
    split at h
    · simp only [Option.some.injEq] at h
      subst h
      exact parseValue_head _ _ _ _ _ hp
    · cases h

namespace Legacy

open Value
open Impl (Outcome Err)

/-- the root container of a well-formed object or array text -/
def rootOf : Cst → Node
  | .arr xs => decodeAry xs
  | .obj ms => decodeDoc ms
  | _ => .nil

theorem decodeRoot_of_parse {doc : Bytes} {c : Cst} (hp : parseCst doc = some c)
    (hc : (c.isArr || c.isObj) = true) : decodeRoot doc = .ok (rootOf c) := by
  have hh := parseCst_head hp
  cases c with
  | lit s => simp [Cst.isArr, Cst.isObj] at hc
  | str b => simp [Cst.isArr, Cst.isObj] at hc
  | arr xs =>
    obtain ⟨cs, hcs⟩ := hh
    simp only [decodeRoot, hp, hcs, rootOf]
  | obj ms =>
    obtain ⟨cs, hcs⟩ := hh
    simp only [decodeRoot, hp, hcs, rootOf]
    rfl

/-- decoding a duplicate-free, plainly spelled container text establishes the relation -/
theorem rootOf_rel {c : Cst} (h1 : c.valueOf.noDup = true) (h2 : RawOK c = true)
    (hc : c.valueOf.isContainer = true) : Rel (rootOf c) c.valueOf := by
  have hinv : Inv (.raw c) := (Inv_raw c).2 ⟨h1, h2⟩
  have hic := intoContainer_spec hinv
  have hd : den (Node.raw c) = c.valueOf := rfl
  rw [hd, if_pos hc] at hic
  obtain ⟨child, e1, e2, e3, e4⟩ := hic
  have hchild : child = rootOf c := by
    cases c with
    | obj ms => simp only [intoContainer, rawIsArray, Cst.isArr, intoDoc, Bool.false_eq_true, if_false, Outcome.ok.injEq] at e1; rw [← e1]; rfl
    | arr xs => simp only [intoContainer, rawIsArray, Cst.isArr, intoAry, if_true, Outcome.ok.injEq] at e1; rw [← e1]; rfl
    | lit s => rw [isContainer_valueOf] at hc; simp [Cst.isArr, Cst.isObj] at hc
    | str s => rw [isContainer_valueOf] at hc; simp [Cst.isArr, Cst.isObj] at hc
  subst hchild
  exact ⟨e2, e3, sim_of_den e2 e4⟩

theorem applyBytes_ok {neg : Bool} {limit : Int} {doc : Bytes} {ops : List Op} {root r : Node}
    (hne : doc ≠ []) (hd : decodeRoot doc = .ok root) (ha : applyOps neg limit root 0 ops = .ok r) :
    applyBytes neg limit [] doc ops = .ok (marshal r) := by
  simp only [applyBytes, hne, if_false, hd, ha, if_true]

theorem applyBytes_err {neg : Bool} {limit : Int} {indent doc : Bytes} {ops : List Op} {root : Node} {e : Err}
    (hne : doc ≠ []) (hd : decodeRoot doc = .ok root) (ha : applyOps neg limit root 0 ops = .err e) :
    applyBytes neg limit indent doc ops = .err e := by
  simp only [applyBytes, hne, if_false, hd, ha]

theorem parseCst_ne_nil {doc : Bytes} {c : Cst} (h : parseCst doc = some c) : doc ≠ [] := by
  intro e; subst e
  simp [parseCst, skipWs, parseValue] at h

end Legacy
end JP
