import JP.Lemmas.CloseWN
import JP.Lemmas.DecodePatch
import JP.Lemmas.EngineOps

/-!
# Closing the text hypotheses, part 6: what `marshalRoot` writes, what `decodePatch` returns

* `escape_cstOf`      – `compact`'s escaping leaves what the marshaller writes alone;
* `print_cstOf_clean_A` – with EscapeHTML the marshalled text has no raw `<`, `>`, `&`, U+2028/9;
* `depth_cstOf`       – the marshalled tree is as deep as the value it denotes;
* `marshalRoot_parse` – the marshalled text reads back (reference parser) to the root's value;
* `decodePatch_*`     – operation values of a decoded patch are well formed, `copy` has `from`,
  `specPatch` (the specification's reading of the patch text) is `specOps` of the decoded operations.
-/

namespace JP
namespace Impl

/-! ### escaping what the marshaller wrote -/

theorem escapeM_self (e : Bool) : ∀ (l : List (Bytes × Cst)),
    (∀ m ∈ l, (if e then escBody m.1 else m.1) = m.1 ∧ Cst.escape e m.2 = m.2) → Cst.escapeM e l = l
  | [], _ => rfl
  | (k, v) :: l, h => by
    have h1 := h (k, v) (by simp)
    simp only [Cst.escapeM, h1.1, h1.2, escapeM_self e l (fun m hm => h m (by simp [hm]))]

theorem escB_quoteBody (e : Bool) (k : Bytes) : (if e then escBody (quoteBody e k) else quoteBody e k) = quoteBody e k := by
  cases e with
  | false => rfl
  | true => exact escBody_of_clean _ (quoteBody_clean k)

theorem escape_litNull (e : Bool) : Cst.escape e litNull = litNull := by simp [litNull, Cst.escape]

mutual
theorem escape_idem (e : Bool) : ∀ c : Cst, Cst.escape e (Cst.escape e c) = Cst.escape e c
  | .lit s => by simp [Cst.escape]
  | .str b => by cases e <;> simp [Cst.escape, escBody_idem]
  | .arr xs => by simp only [Cst.escape, escapeL_idem e xs]
  | .obj ms => by simp only [Cst.escape, escapeM_idem e ms]
theorem escapeL_idem (e : Bool) : ∀ xs : List Cst, Cst.escapeL e (Cst.escapeL e xs) = Cst.escapeL e xs
  | [] => rfl
  | x :: xs => by simp only [Cst.escapeL, escape_idem e x, escapeL_idem e xs]
theorem escapeM_idem (e : Bool) : ∀ ms : List (Bytes × Cst), Cst.escapeM e (Cst.escapeM e ms) = Cst.escapeM e ms
  | [] => rfl
  | (k, v) :: ms => by
    cases e <;> simp only [Cst.escapeM, escape_idem _ v, escapeM_idem _ ms, escBody_idem, if_true]
    all_goals simp
end

mutual
/-- `compact`'s escaping leaves what the marshaller wrote alone -/
theorem escape_cstOf (e : Bool) : ∀ n : Node, Cst.escape e (cstOf e n) = cstOf e n
  | .nil => escape_litNull e
  | .raw c => escape_idem e c
  | .doc keys obj => by
    simp only [cstOf, Cst.escape]
    congr 1
    apply escapeM_self
    intro m hm
    obtain ⟨k, _, rfl⟩ := List.mem_map.1 hm
    refine ⟨escB_quoteBody e k, ?_⟩
    exact lookupC_getD_mem (P := fun c => Cst.escape e c = c) (escape_litNull e)
      (fun c hc => escape_cstOfM e obj k c hc)
  | .ary ns => by simp only [cstOf, Cst.escape, escapeL_cstOfL e ns]
  | .docNil => escape_litNull e
  | .nilAry => escape_litNull e
theorem escape_cstOfM (e : Bool) : ∀ obj : NMembers,
    ∀ k c, lookupC k (cstOfM e obj) = some c → Cst.escape e c = c
  | [], k, c, hc => by simp [cstOfM, lookupC] at hc
  | (k', n) :: ms, k, c, hc => by
    simp only [cstOfM, lookupC] at hc
    split at hc
    · simp only [Option.some.injEq] at hc; subst hc; exact escape_cstOf e n
    · exact escape_cstOfM e ms k c hc
theorem escapeL_cstOfL (e : Bool) : ∀ ns : List Node, Cst.escapeL e (cstOfL e ns) = cstOfL e ns
  | [] => rfl
  | n :: ns => by simp only [cstOfL, Cst.escapeL, escape_cstOf e n, escapeL_cstOfL e ns]
end

/-- with EscapeHTML the marshalled text has no raw HTML-sensitive byte -/
theorem print_cstOf_clean_A (n : Node) (h : WN n = true) : hasRawHtml (Cst.print (cstOf true n)) = false := by
  rw [← escape_cstOf true n]
  exact print_escape_clean _ (WFC_cstOf true n h)

/-- the marshalled tree is as deep as the value it denotes -/
theorem depth_cstOf (e : Bool) (n : Node) (h1 : WF n = true) (h2 : TX e n = true) :
    (cstOf e n).depth = (den n).depth := by
  rw [← depth_valueOf, valueOf_cstOf e n h1 h2]

theorem marshalRoot_eq (e : Bool) (r : Root) (h : isCon r.con = true) :
    marshalRoot e r = .ok (Cst.print (cstOf e r.con)) := by
  unfold marshalRoot
  cases hc : r.con with
  | doc keys obj => rfl
  | ary ns => rfl
  | nil => simp_all [isCon]
  | raw c => simp_all [isCon]
  | docNil => simp_all [isCon]
  | nilAry => simp_all [isCon]

/-- **what `marshalRoot` writes reads back to the root's value** (reference parser) -/
theorem marshalRoot_parse (e : Bool) (r : Root) (hinv : InvRoot e r) (hw : WN r.con = true)
    (hd : (den r.con).depth ≤ maxDepth) :
    marshalRoot e r = .ok (Cst.print (cstOf e r.con)) ∧
    parseCst (Cst.print (cstOf e r.con)) = some (cstOf e r.con) ∧
    parseValueOf (Cst.print (cstOf e r.con)) = some (den r.con) := by
  have hp : parseCst (Cst.print (cstOf e r.con)) = some (cstOf e r.con) :=
    parse_print _ (WFC_cstOf e _ hw) (by rw [depth_cstOf e _ hinv.1.1 hinv.1.2]; exact hd)
  refine ⟨marshalRoot_eq e r hinv.2, hp, ?_⟩
  simp only [parseValueOf, hp, Option.map_some, valueOf_cstOf e _ hinv.1.1 hinv.1.2]

/-! ### what `decodePatch` returns -/

theorem lookupLastC_mem {k : Bytes} : ∀ {ms : List (Bytes × Cst)} {c : Cst},
    lookupLastC k ms = some c → ∃ k', (k', c) ∈ ms
  | [], c, h => by simp [lookupLastC] at h
  | (k', c') :: ms, c, h => by
    simp only [lookupLastC] at h
    cases hl : lookupLastC k ms with
    | some c'' =>
      rw [hl] at h
      simp only [Option.some.injEq] at h
      subst h
      obtain ⟨k2, hk2⟩ := lookupLastC_mem hl
      exact ⟨k2, List.mem_cons_of_mem _ hk2⟩
    | none =>
      rw [hl] at h
      simp only at h
      split at h
      · simp only [Option.some.injEq] at h; subst h; exact ⟨k', by simp⟩
      · cases h

theorem opValue_wfc {ms : List (Bytes × Cst)} (h : WFCM ms = true) {c : Cst} (hc : opValue ms = some c) :
    WFC c = true := by
  unfold opValue member at hc
  cases hl : lookupLastC (ascii "value") ms with
  | none => rw [hl] at hc; simp at hc
  | some c' =>
    rw [hl] at hc
    cases hn : c'.isNullLit with
    | true =>
      simp only [hn, if_true, Option.some.injEq] at hc; subst hc; exact WFC_litNull
    | false =>
      simp only [hn, Bool.false_eq_true, if_false, Option.some.injEq] at hc; subst hc
      obtain ⟨k', hk'⟩ := lookupLastC_mem hl
      exact ((WFCM_iff ms).1 h _ hk').2

theorem opStr_body {name : Bytes} {ms : List (Bytes × Cst)} (h : WFCM ms = true) {p : Bytes}
    (hp : opStr name ms = some p) : ∃ b, validBody b = true ∧ p = unquote b := by
  unfold opStr member at hp
  cases hl : lookupLastC name ms with
  | none => rw [hl] at hp; simp at hp
  | some c' =>
    rw [hl] at hp
    cases hn : c'.isNullLit with
    | true => simp [hn] at hp
    | false =>
      simp only [hn, Bool.false_eq_true, if_false] at hp
      cases c' with
      | str b =>
        simp only [asString, Option.some.injEq] at hp
        obtain ⟨k', hk'⟩ := lookupLastC_mem hl
        have := ((WFCM_iff ms).1 h _ hk').2
        exact ⟨b, by simpa [WFC] using this, hp.symm⟩
      | lit s => simp [asString] at hp
      | arr xs => simp [asString] at hp
      | obj os => simp [asString] at hp

/-- side conditions on one decoded operation that `decodePatch` guarantees -/
structure OpFacts (op : Op) : Prop where
  /-- the value is a well-formed tree -/
  val : ∀ c, op.value = some c → WFC c = true
  /-- `copy` has a `from` member -/
  frm : op.kind = ascii "copy" → op.frm ≠ none
  /-- `path` is a decoded JSON string (hence valid UTF-8) -/
  path : ∃ b, validBody b = true ∧ op.path = unquote b

theorem decodeOp_facts {ms : List (Bytes × Cst)} {op : Op} (hw : WFCM ms = true)
    (h : decodeOp ms = some op) : OpFacts op := by
  obtain ⟨p, hp, rfl⟩ := DecodePatchLemmas.decodeOp_some ms op h
  refine ⟨fun c hc => opValue_wfc hw hc, ?_, opStr_body hw hp⟩
  intro hk
  simp only at hk ⊢
  unfold decodeOp at h
  simp only [hk] at h
  have e1 : ¬ (ascii "copy" = ascii "add" ∨ ascii "copy" = ascii "replace") := by decide
  simp only [e1, if_false, or_true, if_true] at h
  cases hf : opStr (ascii "from") ms with
  | none => simp [hf] at h
  | some f => simp

theorem decodeOps_facts : ∀ {xs : List Cst} {ops : List Op}, WFCL xs = true → decodeOps xs = some ops →
    ∀ op ∈ ops, OpFacts op
  | [], ops, _, h => by simp [decodeOps] at h; subst h; simp
  | c :: cs, ops, hw, h => by
    simp only [WFCL, Bool.and_eq_true] at hw
    cases c with
    | obj ms =>
      simp only [decodeOps] at h
      cases h1 : decodeOp ms with
      | none => simp [h1] at h
      | some op =>
        cases h2 : decodeOps cs with
        | none => simp [h1, h2] at h
        | some ops' =>
          simp only [h1, h2, Option.some.injEq] at h
          subst h
          intro op' hop'
          simp only [List.mem_cons] at hop'
          rcases hop' with rfl | hop'
          · exact decodeOp_facts (by simpa [WFC] using hw.1) h1
          · exact decodeOps_facts hw.2 h2 op' hop'
    | lit s => simp [decodeOps] at h
    | str b => simp [decodeOps] at h
    | arr xs => simp [decodeOps] at h

theorem decodePatch_inv {bs : Bytes} {ops : List Op} (h : decodePatch bs = .ok ops) :
    ∃ xs, parseCst bs = some (.arr xs) ∧ decodeOps xs = some ops := by
  unfold decodePatch at h
  split at h
  · cases h
  · split at h
    · cases h
    · rename_i xs hp
      cases hd : decodeOps xs with
      | none => simp [hd] at h
      | some ops' =>
        simp only [hd, Outcome.ok.injEq] at h
        subst h
        exact ⟨xs, hp, hd⟩
    · split at h <;> cases h

/-- every operation of a decoded patch satisfies `OpFacts` -/
theorem decodePatch_facts {bs : Bytes} {ops : List Op} (h : decodePatch bs = .ok ops) :
    ∀ op ∈ ops, OpFacts op := by
  obtain ⟨xs, hp, hd⟩ := decodePatch_inv h
  have hw := (parseCst_wfc_A bs _ hp).1
  exact decodeOps_facts (by simpa [WFC] using hw) hd

end Impl

/-! ### the specification's reading of the patch text -/

open DecodePatchLemmas in
theorem specElem_eq (c : Cst) (op : Impl.Op) (h : DecodePatchLemmas.decodeElem c = some op) :
    (match Spec.viewOp c.valueOf with
      | some v =>
        (specKind v.kind).map fun k =>
          ({ kind := k, path := v.path, frm := v.frm.getD [], value := v.value } : Spec.Op)
      | none => none) = specOp op := by
  have hv := decodeElem_view c op h
  have hs : (DecodePatchLemmas.decodeElem c).isSome = true := by simp [h]
  rw [decodeElem_iff] at hs
  simp only [viewOf, viewImpl] at hv
  cases hw : Spec.viewOp c.valueOf with
  | none =>
    -- impossible: a well-formed operation has a view
    exfalso
    cases hcv : c.valueOf with
    | obj ms =>
      rw [hcv] at hs hw
      simp only [Spec.wellFormedOp] at hs
      simp only [Spec.viewOp] at hw
      cases hk : Spec.strOf (Spec.lookupLast (ascii "op") ms) with
      | none => simp [hk] at hs
      | some kind =>
        cases hp : Spec.strOf (Spec.lookupLast (ascii "path") ms) with
        | none => simp [hk, hp] at hs
        | some p => simp [hk, hp] at hw
    | null => rw [hcv] at hs; simp [Spec.wellFormedOp] at hs
    | bool b => rw [hcv] at hs; simp [Spec.wellFormedOp] at hs
    | num l => rw [hcv] at hs; simp [Spec.wellFormedOp] at hs
    | str s => rw [hcv] at hs; simp [Spec.wellFormedOp] at hs
    | arr xs => rw [hcv] at hs; simp [Spec.wellFormedOp] at hs
  | some w =>
    rw [hw] at hv
    simp only [Prod.mk.injEq] at hv
    obtain ⟨h1, h2, h3, h4⟩ := hv
    simp only [specOp, h1, h2, h3, h4]
    cases specKind w.kind <;> rfl

open DecodePatchLemmas in
theorem specMap_eq : ∀ (xs : List Cst) (ops : List Impl.Op), Impl.decodeOps xs = some ops →
    (xs.mapM fun c =>
      match Spec.viewOp c.valueOf with
      | some v =>
        (specKind v.kind).map fun k =>
          ({ kind := k, path := v.path, frm := v.frm.getD [], value := v.value } : Spec.Op)
      | none => none) = specOps ops
  | [], ops, h => by simp [Impl.decodeOps] at h; subst h; rfl
  | c :: cs, ops, h => by
    rw [decodeOps_cons] at h
    cases h1 : DecodePatchLemmas.decodeElem c with
    | none => simp [h1] at h
    | some op =>
      cases h2 : Impl.decodeOps cs with
      | none => simp [h1, h2] at h
      | some ops' =>
        simp only [h1, h2, Option.some.injEq] at h
        subst h
        rw [List.mapM_cons, specElem_eq c op h1, specMap_eq cs ops' h2]
        simp only [specOps]
        cases specOp op <;> cases specOps ops' <;> rfl

/-- **`specPatch` is `specOps` of the decoded operations** (connects the specification's own
reading of the patch text, used by the checker, with `Impl.decodePatch`; C11) -/
theorem specPatch_eq_specOps {patch : Bytes} {ops : List Impl.Op} (h : Impl.decodePatch patch = .ok ops) :
    specPatch patch = specOps ops := by
  obtain ⟨xs, hp, hd⟩ := Impl.decodePatch_inv h
  have hwf : Spec.wellFormedPatch (Cst.valueOf (.arr xs)) = true := by
    have := DecodePatchLemmas.decodeOps_isSome xs
    rw [hd] at this
    simpa [Cst.valueOf, Spec.wellFormedPatch] using this.symm
  unfold specPatch
  simp only [hp, hwf, if_true]
  exact specMap_eq xs ops hd

end JP
