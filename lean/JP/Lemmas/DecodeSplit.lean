import JP.Lemmas.TransduceWF
import JP.Lemmas.TextParse
import JP.Codec.Decode

/-!
# The text a successful parse consumed, and its re-parse in any delimiting context

`split_all`: if `parseValue f d bs = some (c, rest)` then `bs = vt ++ rest` where the consumed text
`vt` ends in a byte that is not white space and parses to `c` again with any fuel above its
length, at any smaller depth, in front of any continuation that starts like a delimiter.  In
particular `parseCst vt = some c` (`reparse`).
-/

namespace JP
namespace Codec

/-- empty, or starting with white space, `,`, `]` or `}` -/
def DelimW : Bytes → Prop
  | [] => True
  | c :: _ => isWs c = true ∨ c = 44 ∨ c = 93 ∨ c = 125

set_option maxRecDepth 100000 in
theorem isWs_numStop : ∀ n : Fin 256, isWs (UInt8.ofNat n) = true →
    isDigit (UInt8.ofNat n) = false ∧ UInt8.ofNat n ≠ 46 ∧ UInt8.ofNat n ≠ 101 ∧ UInt8.ofNat n ≠ 69 := by
  decide

theorem delimW_numStop (rest : Bytes) (h : DelimW rest) : numStop rest := by
  cases rest with
  | nil => trivial
  | cons c cs =>
    simp only [DelimW] at h
    rcases h with h | rfl | rfl | rfl
    · have := isWs_numStop ⟨c.toNat, c.toNat_lt⟩
      simp only [UInt8.ofNat_toNat] at this
      exact this h
    all_goals (simp only [numStop]; decide)

theorem delimW_of_skipWs (r r' : Bytes) (y : UInt8) (h : skipWs r = y :: r')
    (hy : y = 44 ∨ y = 93 ∨ y = 125) : DelimW r := by
  cases r with
  | nil => trivial
  | cons c cs =>
    simp only [DelimW]
    by_cases hc : isWs c = true
    · exact .inl hc
    · right
      simp only [skipWs, hc, Bool.false_eq_true, if_false, List.cons.injEq] at h
      rw [h.1]; exact hy

/-- last byte exists and is not white space -/
def EndsNonWs (vt : Bytes) : Prop := ∃ v0 z, vt = v0 ++ [z] ∧ isWs z = false

theorem endsNonWs_of_all (l : Bytes) (hne : l ≠ []) (h : ∀ b ∈ l, isWs b = false) : EndsNonWs l := by
  refine ⟨l.dropLast, l.getLast hne, (List.dropLast_concat_getLast hne).symm, h _ (List.getLast_mem hne)⟩

theorem endsNonWs_snoc (v0 : Bytes) (z : UInt8) (h : isWs z = false) : EndsNonWs (v0 ++ [z]) := ⟨v0, z, rfl, h⟩

theorem endsNonWs_prepend (a vt : Bytes) (h : EndsNonWs vt) : EndsNonWs (a ++ vt) := by
  obtain ⟨v0, z, rfl, hz⟩ := h
  exact ⟨a ++ v0, z, by simp, hz⟩

/-! ### white space -/

theorem skipWs_prefix (cs : Bytes) : ∃ ws, cs = ws ++ skipWs cs ∧ ∀ b ∈ ws, isWs b = true := by
  induction cs with
  | nil => exact ⟨[], rfl, by simp⟩
  | cons c cs ih =>
    simp only [skipWs]
    split
    · rename_i hc
      obtain ⟨ws, h1, h2⟩ := ih
      refine ⟨c :: ws, by simp only [List.cons_append]; rw [← h1], ?_⟩
      intro b hb
      simp only [List.mem_cons] at hb
      rcases hb with rfl | hb
      · exact hc
      · exact h2 b hb
    · exact ⟨[], rfl, by simp⟩

theorem skipWs_append_ws (ws X : Bytes) (h : ∀ b ∈ ws, isWs b = true) : skipWs (ws ++ X) = skipWs X := by
  induction ws with
  | nil => rfl
  | cons c ws ih =>
    simp only [List.cons_append, skipWs, h c (List.mem_cons_self ..), if_true]
    exact ih (fun b hb => h b (List.mem_cons_of_mem _ hb))

theorem skipWs_head (y : UInt8) (X : Bytes) (h : isWs y = false) : skipWs (y :: X) = y :: X := by
  simp [skipWs, h]

theorem skipWs_head_nonws (cs : Bytes) (y : UInt8) (r : Bytes) (h : skipWs cs = y :: r) : isWs y = false :=
  Scanner.noWs_skipWs cs y r h

/-! ### number literals -/

theorem isNumByte_digit (b : UInt8) (h : isDigit b = true) : isNumByte b = true := by
  simp [isNumByte, h]

open Scanner in
theorem pInt_alphabet (x p r : Bytes) (h : pInt x = some (p, r)) : ∀ b ∈ p, isNumByte b = true := by
  cases x with
  | nil => simp [pInt] at h
  | cons c u =>
    rw [pInt_cons] at h
    split at h
    · simp only [Option.some.injEq, Prod.mk.injEq] at h
      obtain ⟨rfl, _⟩ := h
      intro b hb; simp only [List.mem_singleton] at hb; subst hb; decide
    · split at h
      · rename_i hc
        simp only [Option.some.injEq, Prod.mk.injEq] at h
        obtain ⟨rfl, _⟩ := h
        intro b hb
        simp only [List.mem_cons] at hb
        rcases hb with rfl | hb
        · exact isNumByte_digit _ hc
        · exact isNumByte_digit _ (td_digits u b hb)
      · simp at h

open Scanner in
theorem pFrac_alphabet (x p r : Bytes) (h : pFrac x = some (p, r)) : ∀ b ∈ p, isNumByte b = true := by
  cases x with
  | nil =>
    simp only [pFrac, Option.some.injEq, Prod.mk.injEq] at h
    obtain ⟨rfl, _⟩ := h
    intro b hb; simp at hb
  | cons c u =>
    rw [pFrac_cons] at h
    split at h
    · split at h
      · simp at h
      · simp only [Option.some.injEq, Prod.mk.injEq] at h
        obtain ⟨rfl, _⟩ := h
        intro b hb
        simp only [List.mem_cons] at hb
        rcases hb with rfl | hb
        · decide
        · exact isNumByte_digit _ (td_digits u b hb)
    · simp only [Option.some.injEq, Prod.mk.injEq] at h
      obtain ⟨rfl, _⟩ := h
      intro b hb; simp at hb

open Scanner in
theorem stripESign_alphabet (x : Bytes) : ∀ b ∈ (stripESign x).1, isNumByte b = true := by
  cases x with
  | nil => intro b hb; simp [stripESign] at hb
  | cons c u =>
    rw [stripESign_cons]
    split
    · intro b hb; simp only [List.mem_singleton] at hb; subst hb; decide
    · split
      · intro b hb; simp only [List.mem_singleton] at hb; subst hb; decide
      · intro b hb; simp at hb

open Scanner in
theorem pExp_alphabet (x p r : Bytes) (h : pExp x = some (p, r)) : ∀ b ∈ p, isNumByte b = true := by
  cases x with
  | nil =>
    simp only [pExp, Option.some.injEq, Prod.mk.injEq] at h
    obtain ⟨rfl, _⟩ := h
    intro b hb; simp at hb
  | cons e u =>
    simp only [pExp] at h
    split at h
    · rename_i he
      split at h
      · simp at h
      · simp only [Option.some.injEq, Prod.mk.injEq] at h
        obtain ⟨rfl, _⟩ := h
        intro b hb
        simp only [List.mem_cons, List.mem_append] at hb
        rcases hb with (rfl | hb) | hb
        · rcases he with rfl | rfl <;> decide
        · exact stripESign_alphabet u b hb
        · exact isNumByte_digit _ (td_digits _ b hb)
    · simp only [Option.some.injEq, Prod.mk.injEq] at h
      obtain ⟨rfl, _⟩ := h
      intro b hb; simp at hb

open Scanner in
theorem parseNumber_alphabet (x l r : Bytes) (h : parseNumber x = some (l, r)) : ∀ b ∈ l, isNumByte b = true := by
  rw [Scanner.parseNumber_eq] at h
  cases hpi : pInt (stripSign x).2 with
  | none => rw [hpi] at h; simp at h
  | some p1 =>
    obtain ⟨ip, r1⟩ := p1
    rw [hpi] at h
    simp only at h
    cases hpf : pFrac r1 with
    | none => rw [hpf] at h; simp at h
    | some p2 =>
      obtain ⟨fp, r2⟩ := p2
      rw [hpf] at h
      simp only at h
      cases hpe : pExp r2 with
      | none => rw [hpe] at h; simp at h
      | some p3 =>
        obtain ⟨ep, r3⟩ := p3
        rw [hpe] at h
        simp only [Option.some.injEq, Prod.mk.injEq] at h
        obtain ⟨rfl, rfl⟩ := h
        have hsg : ∀ b ∈ (stripSign x).1, isNumByte b = true := by
          cases x with
          | nil => intro b hb; simp [stripSign] at hb
          | cons c u =>
            rw [stripSign_cons]; split
            · intro b hb; simp only [List.mem_singleton] at hb; subst hb; decide
            · intro b hb; simp at hb
        intro b hb
        simp only [List.mem_append] at hb
        rcases hb with ((hb | hb) | hb) | hb
        · exact hsg b hb
        · exact pInt_alphabet _ _ _ hpi b hb
        · exact pFrac_alphabet _ _ _ hpf b hb
        · exact pExp_alphabet _ _ _ hpe b hb

set_option maxRecDepth 100000 in
theorem numByte_nonws : ∀ n : Fin 256, isNumByte (UInt8.ofNat n) = true → isWs (UInt8.ofNat n) = false := by
  decide

theorem isNumByte_nonws (b : UInt8) (h : isNumByte b = true) : isWs b = false := by
  have := numByte_nonws ⟨b.toNat, b.toNat_lt⟩
  simp only [UInt8.ofNat_toNat] at this
  exact this h

/-! ### the induction -/

def SplitV (_f d : Nat) (bs : Bytes) (c : Cst) (rest : Bytes) : Prop :=
  ∃ vt, bs = vt ++ rest ∧ EndsNonWs vt ∧
    ∀ F d' rest', vt.length + 1 ≤ F → d' ≤ d → DelimW rest' → parseValue F d' (vt ++ rest') = some (c, rest')

def SplitE (_f d : Nat) (bs : Bytes) (xs : List Cst) (rest : Bytes) : Prop :=
  ∃ et, bs = et ++ rest ∧ EndsNonWs et ∧
    ∀ F d' rest', et.length + 1 ≤ F → d' ≤ d → parseElems F d' (et ++ rest') = some (xs, rest')

def SplitM (_f d : Nat) (bs : Bytes) (ms : List (Bytes × Cst)) (rest : Bytes) : Prop :=
  ∃ mt, bs = mt ++ rest ∧ EndsNonWs mt ∧
    ∀ F d' rest', mt.length + 1 ≤ F → d' ≤ d → parseMembers F d' (mt ++ rest') = some (ms, rest')

theorem skipWs_split (cs : Bytes) (y : UInt8) (r : Bytes) (h : skipWs cs = y :: r) :
    ∃ ws, cs = ws ++ y :: r ∧ (∀ b ∈ ws, isWs b = true) ∧ isWs y = false := by
  obtain ⟨ws, h1, h2⟩ := skipWs_prefix cs
  exact ⟨ws, by rw [h] at h1; exact h1, h2, skipWs_head_nonws cs y r h⟩

theorem split_obj0 (f d : Nat) (cs r : Bytes) (hd : d + 1 ≤ maxDepth) (hs : skipWs cs = 125 :: r) :
    SplitV (f + 1) d (123 :: cs) (.obj []) r := by
  obtain ⟨ws, rfl, hws, _⟩ := skipWs_split cs 125 r hs
  refine ⟨123 :: ws ++ [125], by simp, endsNonWs_snoc _ _ (by decide), ?_⟩
  intro F d' rest' hF hd' _
  cases F with
  | zero => omega
  | succ F =>
    have : (123 :: ws ++ [125]) ++ rest' = 123 :: (ws ++ 125 :: rest') := by simp
    rw [this]
    exact parseValue_obj_nil F d' _ rest' (by omega)
      (by rw [skipWs_append_ws ws _ hws]; exact skipWs_head _ _ (by decide))

theorem split_arr0 (f d : Nat) (cs r : Bytes) (hd : d + 1 ≤ maxDepth) (hs : skipWs cs = 93 :: r) :
    SplitV (f + 1) d (91 :: cs) (.arr []) r := by
  obtain ⟨ws, rfl, hws, _⟩ := skipWs_split cs 93 r hs
  refine ⟨91 :: ws ++ [93], by simp, endsNonWs_snoc _ _ (by decide), ?_⟩
  intro F d' rest' hF hd' _
  cases F with
  | zero => omega
  | succ F =>
    have : (91 :: ws ++ [93]) ++ rest' = 91 :: (ws ++ 93 :: rest') := by simp
    rw [this]
    exact parseValue_arr_nil F d' _ rest' (by omega)
      (by rw [skipWs_append_ws ws _ hws]; exact skipWs_head _ _ (by decide))

theorem endsNonWs_ne_nil {vt : Bytes} (h : EndsNonWs vt) : vt ≠ [] := by
  obtain ⟨v0, z, rfl, _⟩ := h; simp

/-- the head of `et ++ X` when `et` is not empty -/
theorem head_of_append {et : Bytes} (h : et ≠ []) : ∃ e et', et = e :: et' := by
  cases et with
  | nil => exact absurd rfl h
  | cons e et' => exact ⟨e, et', rfl⟩

theorem split_obj (f d : Nat) (cs : Bytes) (ms : List (Bytes × Cst)) (rest : Bytes) (hd : d + 1 ≤ maxDepth)
    (hs : ∀ r, skipWs cs ≠ 125 :: r) (ih : SplitM f (d + 1) (skipWs cs) ms rest) :
    SplitV (f + 1) d (123 :: cs) (.obj ms) rest := by
  obtain ⟨mt, hmt, hend, hre⟩ := ih
  obtain ⟨ws, hcs, hws⟩ := skipWs_prefix cs
  obtain ⟨e, mt', rfl⟩ := head_of_append (endsNonWs_ne_nil hend)
  have he : isWs e = false := skipWs_head_nonws cs e (mt' ++ rest) (by rw [hmt]; rfl)
  have he125 : e ≠ 125 := fun h => hs (mt' ++ rest) (by rw [hmt, h]; rfl)
  refine ⟨123 :: ws ++ (e :: mt'), by rw [hcs, hmt]; simp, endsNonWs_prepend _ _ hend, ?_⟩
  intro F d' rest' hF hd' _
  cases F with
  | zero => omega
  | succ F =>
    have : (123 :: ws ++ e :: mt') ++ rest' = 123 :: (ws ++ (e :: mt' ++ rest')) := by simp
    rw [this]
    have hsk : skipWs (ws ++ (e :: mt' ++ rest')) = e :: mt' ++ rest' := by
      rw [skipWs_append_ws ws _ hws]; exact skipWs_head _ _ he
    rw [parseValue_obj_cons F d' _ (by omega) (by rw [hsk]; intro r h; simp only [List.cons_append, List.cons.injEq] at h; exact he125 h.1),
      hsk, hre F (d' + 1) rest' (by simp only [List.length_cons, List.length_append] at hF ⊢; omega) (by omega)]
    rfl

theorem split_arr (f d : Nat) (cs : Bytes) (xs : List Cst) (rest : Bytes) (hd : d + 1 ≤ maxDepth)
    (hs : ∀ r, skipWs cs ≠ 93 :: r) (ih : SplitE f (d + 1) (skipWs cs) xs rest) :
    SplitV (f + 1) d (91 :: cs) (.arr xs) rest := by
  obtain ⟨et, het, hend, hre⟩ := ih
  obtain ⟨ws, hcs, hws⟩ := skipWs_prefix cs
  obtain ⟨e, et', rfl⟩ := head_of_append (endsNonWs_ne_nil hend)
  have he : isWs e = false := skipWs_head_nonws cs e (et' ++ rest) (by rw [het]; rfl)
  have he93 : e ≠ 93 := fun h => hs (et' ++ rest) (by rw [het, h]; rfl)
  refine ⟨91 :: ws ++ (e :: et'), by rw [hcs, het]; simp, endsNonWs_prepend _ _ hend, ?_⟩
  intro F d' rest' hF hd' _
  cases F with
  | zero => omega
  | succ F =>
    have : (91 :: ws ++ e :: et') ++ rest' = 91 :: (ws ++ (e :: et' ++ rest')) := by simp
    rw [this]
    have hsk : skipWs (ws ++ (e :: et' ++ rest')) = e :: et' ++ rest' := by
      rw [skipWs_append_ws ws _ hws]; exact skipWs_head _ _ he
    rw [parseValue_arr_cons F d' _ (by omega) (by rw [hsk]; intro r h; simp only [List.cons_append, List.cons.injEq] at h; exact he93 h.1),
      hsk, hre F (d' + 1) rest' (by simp only [List.length_cons, List.length_append] at hF ⊢; omega) (by omega)]
    rfl

theorem split_str (f d : Nat) (cs b rest : Bytes) (h : parseStrBody cs = some (b, rest)) :
    SplitV (f + 1) d (34 :: cs) (.str b) rest := by
  obtain ⟨hcs, hvb⟩ := parseStrBody_split cs b rest h
  refine ⟨34 :: b ++ [34], by rw [hcs]; simp, endsNonWs_snoc _ _ (by decide), ?_⟩
  intro F d' rest' hF _ _
  cases F with
  | zero => omega
  | succ F =>
    have : (34 :: b ++ [34]) ++ rest' = 34 :: (b ++ 34 :: rest') := by simp
    rw [this, parseValue_str, parseStrBody_valid b rest' ((validBody_eq_true_iff b).2 hvb)]
    rfl

theorem split_word (f d : Nat) (w rest : Bytes) (hw : w = ascii "true" ∨ w = ascii "false" ∨ w = ascii "null") :
    SplitV (f + 1) d (w ++ rest) (.lit w) rest := by
  refine ⟨w, rfl, ?_, ?_⟩
  · rcases hw with rfl | rfl | rfl
    · exact ⟨[116, 114, 117], 101, rfl, by decide⟩
    · exact ⟨[102, 97, 108, 115], 101, rfl, by decide⟩
    · exact ⟨[110, 117, 108], 108, rfl, by decide⟩
  · intro F d' rest' hF _ hdl
    cases F with
    | zero => omega
    | succ F => exact parseValue_print_lit w F d' rest' (by rcases hw with rfl | rfl | rfl <;> decide) (delimW_numStop rest' hdl)

theorem split_num (f d : Nat) (c : UInt8) (cs l rest : Bytes) (hp : parseNumber (c :: cs) = some (l, rest)) :
    SplitV (f + 1) d (c :: cs) (.lit l) rest := by
  obtain ⟨hsp, hself⟩ := parseNumber_prefix _ _ _ hp
  have hne : l ≠ [] := by
    obtain ⟨c', t, hx, _⟩ := parseNumber_head l l [] hself
    rw [hx]; simp
  refine ⟨l, hsp, endsNonWs_of_all l hne (fun b hb => isNumByte_nonws b (parseNumber_alphabet _ _ _ hp b hb)), ?_⟩
  intro F d' rest' hF _ hdl
  cases F with
  | zero => omega
  | succ F =>
    exact parseValue_print_lit l F d' rest'
      (by simp only [validLit, Bool.or_eq_true, decide_eq_true_eq]; exact .inr hself) (delimW_numStop rest' hdl)

theorem delimW_ws_cons (ws : Bytes) (y : UInt8) (X : Bytes) (hy : y = 44 ∨ y = 93 ∨ y = 125)
    (hws : ∀ b ∈ ws, isWs b = true) : DelimW (ws ++ y :: X) := by
  cases ws with
  | nil => exact .inr hy
  | cons c ws => exact .inl (hws c (List.mem_cons_self ..))

theorem skipWs_ws_cons (ws : Bytes) (y : UInt8) (X : Bytes) (hy : isWs y = false)
    (hws : ∀ b ∈ ws, isWs b = true) : skipWs (ws ++ y :: X) = y :: X := by
  rw [skipWs_append_ws ws _ hws]; exact skipWs_head _ _ hy

/-- a non-empty text that is the result of `skipWs` starts with a byte that is not white space -/
theorem skipWs_eq_append_head {r vt X : Bytes} (h : skipWs r = vt ++ X) (hne : vt ≠ []) :
    ∀ ws Y, (∀ b ∈ ws, isWs b = true) → skipWs (ws ++ (vt ++ Y)) = vt ++ Y := by
  intro ws Y hws
  obtain ⟨e, vt', rfl⟩ := head_of_append hne
  have he : isWs e = false := skipWs_head_nonws r e (vt' ++ X) (by rw [h]; rfl)
  rw [skipWs_append_ws ws _ hws]; exact skipWs_head _ _ he

theorem split_elast (f d : Nat) (bs : Bytes) (x : Cst) (r r' : Bytes) (ih : SplitV f d bs x r)
    (h93 : skipWs r = 93 :: r') : SplitE (f + 1) d bs [x] r' := by
  obtain ⟨vt, hbs, hend, hre⟩ := ih
  obtain ⟨ws, hr, hws, _⟩ := skipWs_split r 93 r' h93
  refine ⟨vt ++ ws ++ [93], by rw [hbs, hr]; simp, endsNonWs_snoc _ _ (by decide), ?_⟩
  intro F d' rest' hF hd'
  cases F with
  | zero => omega
  | succ F =>
    have e1 : (vt ++ ws ++ [93]) ++ rest' = vt ++ (ws ++ 93 :: rest') := by simp
    rw [e1]
    exact parseElems_last F d' _ (ws ++ 93 :: rest') rest' x
      (hre F d' _ (by simp only [List.length_append, List.length_cons, List.length_nil] at hF; omega) hd'
        (delimW_ws_cons ws 93 rest' (by simp) hws))
      (skipWs_ws_cons ws 93 rest' (by decide) hws)

theorem split_emore (f d : Nat) (bs : Bytes) (x : Cst) (r r' : Bytes) (xs : List Cst) (rest : Bytes)
    (ih : SplitV f d bs x r) (h44 : skipWs r = 44 :: r') (ihE : SplitE f d (skipWs r') xs rest) :
    SplitE (f + 1) d bs (x :: xs) rest := by
  obtain ⟨vt, hbs, hend, hre⟩ := ih
  obtain ⟨et, het, hend', hre'⟩ := ihE
  obtain ⟨ws, hr, hws, _⟩ := skipWs_split r 44 r' h44
  obtain ⟨ws', hr', hws'⟩ := skipWs_prefix r'
  refine ⟨vt ++ ws ++ [44] ++ ws' ++ et, by rw [hbs, hr, hr', het]; simp, endsNonWs_prepend _ _ hend', ?_⟩
  intro F d' rest' hF hd'
  cases F with
  | zero => omega
  | succ F =>
    have e1 : (vt ++ ws ++ [44] ++ ws' ++ et) ++ rest' = vt ++ (ws ++ 44 :: (ws' ++ (et ++ rest'))) := by simp
    simp only [List.length_append, List.length_cons, List.length_nil] at hF
    rw [e1, parseElems_more F d' _ (ws ++ 44 :: (ws' ++ (et ++ rest'))) (ws' ++ (et ++ rest')) x
      (hre F d' _ (by omega) hd' (delimW_ws_cons ws 44 _ (by simp) hws))
      (skipWs_ws_cons ws 44 _ (by decide) hws),
      skipWs_eq_append_head het (endsNonWs_ne_nil hend') ws' rest' hws',
      hre' F d' rest' (by omega) hd']
    rfl

theorem split_mlast (f d : Nat) (cs k r r1 : Bytes) (v : Cst) (r2 r3 : Bytes)
    (hk : parseStrBody cs = some (k, r)) (h58 : skipWs r = 58 :: r1) (ih : SplitV f d (skipWs r1) v r2)
    (h125 : skipWs r2 = 125 :: r3) : SplitM (f + 1) d (34 :: cs) [(k, v)] r3 := by
  obtain ⟨vt, hvt, hend, hre⟩ := ih
  obtain ⟨hcs, hvb⟩ := parseStrBody_split cs k r hk
  obtain ⟨ws1, hr, hws1, _⟩ := skipWs_split r 58 r1 h58
  obtain ⟨ws2, hr1, hws2⟩ := skipWs_prefix r1
  obtain ⟨ws3, hr2, hws3, _⟩ := skipWs_split r2 125 r3 h125
  refine ⟨34 :: k ++ [34] ++ ws1 ++ [58] ++ ws2 ++ vt ++ ws3 ++ [125],
    by rw [hcs, hr, hr1, hvt, hr2]; simp, endsNonWs_snoc _ _ (by decide), ?_⟩
  intro F d' rest' hF hd'
  cases F with
  | zero => omega
  | succ F =>
    have e1 : (34 :: k ++ [34] ++ ws1 ++ [58] ++ ws2 ++ vt ++ ws3 ++ [125]) ++ rest' =
        34 :: (k ++ 34 :: (ws1 ++ 58 :: (ws2 ++ (vt ++ (ws3 ++ 125 :: rest'))))) := by simp
    simp only [List.length_append, List.length_cons, List.length_nil] at hF
    rw [e1]
    exact parseMembers_last F d' _ k _ (ws2 ++ (vt ++ (ws3 ++ 125 :: rest'))) (ws3 ++ 125 :: rest') rest' v
      (parseStrBody_valid k _ ((validBody_eq_true_iff k).2 hvb))
      (skipWs_ws_cons ws1 58 _ (by decide) hws1)
      (by rw [skipWs_eq_append_head hvt (endsNonWs_ne_nil hend) ws2 _ hws2]
          exact hre F d' _ (by omega) hd' (delimW_ws_cons ws3 125 rest' (by simp) hws3))
      (skipWs_ws_cons ws3 125 rest' (by decide) hws3)

theorem split_mmore (f d : Nat) (cs k r r1 : Bytes) (v : Cst) (r2 r3 : Bytes) (ms : List (Bytes × Cst))
    (rest : Bytes) (hk : parseStrBody cs = some (k, r)) (h58 : skipWs r = 58 :: r1)
    (ih : SplitV f d (skipWs r1) v r2) (h44 : skipWs r2 = 44 :: r3) (ihM : SplitM f d (skipWs r3) ms rest) :
    SplitM (f + 1) d (34 :: cs) ((k, v) :: ms) rest := by
  obtain ⟨vt, hvt, hend, hre⟩ := ih
  obtain ⟨mt, hmt, hend', hre'⟩ := ihM
  obtain ⟨hcs, hvb⟩ := parseStrBody_split cs k r hk
  obtain ⟨ws1, hr, hws1, _⟩ := skipWs_split r 58 r1 h58
  obtain ⟨ws2, hr1, hws2⟩ := skipWs_prefix r1
  obtain ⟨ws3, hr2, hws3, _⟩ := skipWs_split r2 44 r3 h44
  obtain ⟨ws4, hr3, hws4⟩ := skipWs_prefix r3
  refine ⟨34 :: k ++ [34] ++ ws1 ++ [58] ++ ws2 ++ vt ++ ws3 ++ [44] ++ ws4 ++ mt,
    by rw [hcs, hr, hr1, hvt, hr2, hr3, hmt]; simp, endsNonWs_prepend _ _ hend', ?_⟩
  intro F d' rest' hF hd'
  cases F with
  | zero => omega
  | succ F =>
    have e1 : (34 :: k ++ [34] ++ ws1 ++ [58] ++ ws2 ++ vt ++ ws3 ++ [44] ++ ws4 ++ mt) ++ rest' =
        34 :: (k ++ 34 :: (ws1 ++ 58 :: (ws2 ++ (vt ++ (ws3 ++ 44 :: (ws4 ++ (mt ++ rest'))))))) := by simp
    simp only [List.length_append, List.length_cons, List.length_nil] at hF
    rw [e1, parseMembers_more F d' _ k _ (ws2 ++ (vt ++ (ws3 ++ 44 :: (ws4 ++ (mt ++ rest')))))
      (ws3 ++ 44 :: (ws4 ++ (mt ++ rest'))) (ws4 ++ (mt ++ rest')) v
      (parseStrBody_valid k _ ((validBody_eq_true_iff k).2 hvb))
      (skipWs_ws_cons ws1 58 _ (by decide) hws1)
      (by rw [skipWs_eq_append_head hvt (endsNonWs_ne_nil hend) ws2 _ hws2]
          exact hre F d' _ (by omega) hd' (delimW_ws_cons ws3 44 _ (by simp) hws3))
      (skipWs_ws_cons ws3 44 _ (by decide) hws3),
      skipWs_eq_append_head hmt (endsNonWs_ne_nil hend') ws4 rest' hws4,
      hre' F d' rest' (by omega) hd']
    rfl

theorem split_all (f : Nat) :
    (∀ d bs c rest, parseValue f d bs = some (c, rest) → SplitV f d bs c rest) ∧
    (∀ d bs xs rest, parseElems f d bs = some (xs, rest) → xs ≠ [] ∧ SplitE f d bs xs rest) ∧
    (∀ d bs ms rest, parseMembers f d bs = some (ms, rest) → ms ≠ [] ∧ SplitM f d bs ms rest) :=
  parse_ind (PV := SplitV) (PE := SplitE) (PM := SplitM)
    (fun f d cs r hd hs => split_obj0 f d cs r hd hs)
    (fun f d cs ms rest hd hs _ _ ih => split_obj f d cs ms rest hd hs ih)
    (fun f d cs r hd hs => split_arr0 f d cs r hd hs)
    (fun f d cs xs rest hd hs _ _ ih => split_arr f d cs xs rest hd hs ih)
    (fun f d cs b rest h => split_str f d cs b rest h)
    (fun f d w rest hw => split_word f d w rest hw)
    (fun f d c cs l rest _ hp => split_num f d c cs l rest hp)
    (fun f d bs x r r' _ ih h93 => split_elast f d bs x r r' ih h93)
    (fun f d bs x r r' xs rest _ ih h44 _ _ ihE => split_emore f d bs x r r' xs rest ih h44 ihE)
    (fun f d cs k r r1 v r2 r3 hk h58 _ ih h125 => split_mlast f d cs k r r1 v r2 r3 hk h58 ih h125)
    (fun f d cs k r r1 v r2 r3 ms rest hk h58 _ ih h44 _ _ ihM =>
      split_mmore f d cs k r r1 v r2 r3 ms rest hk h58 ih h44 ihM)
    f

/-- the consumed text of a successful parse is a JSON text for the same tree -/
theorem reparse (vt : Bytes) (c : Cst) (hend : EndsNonWs vt)
    (hhead : ∀ e t, vt = e :: t → isWs e = false)
    (hre : ∀ F d' rest', vt.length + 1 ≤ F → d' ≤ 0 → DelimW rest' → parseValue F d' (vt ++ rest') = some (c, rest')) :
    parseCst vt = some c := by
  have hsk : skipWs vt = vt := by
    cases vt with
    | nil => rfl
    | cons e t => exact skipWs_head e t (hhead e t rfl)
  have := hre (vt.length + 1) 0 [] (Nat.le_refl _) (Nat.le_refl _) trivial
  simp only [List.append_nil] at this
  unfold parseCst
  rw [hsk, this]
  rfl

end Codec
end JP
