import JP.Lemmas.TypedRT4
import JP.Lemmas.TextUtf8

set_option linter.unusedSimpArgs false
set_option linter.unusedVariables false

/-!
# C17 — round trip of the typed codec: maps with any key kind (string, the ten integer kinds)
-/

namespace JP.C17
open JP JP.Codec JP.Codec.Typed JP.Codec.TDec JP.Scanner

theorem ascii_valid : ∀ s : Bytes, (∀ c ∈ s, c.toNat < 128) → isValidUtf8 s = true
  | [], _ => rfl
  | c :: s, h => by
    rw [isValidUtf8_ascii_cons c s (h c (by simp))]
    exact ascii_valid s (fun x hx => h x (by simp [hx]))

theorem digit_lt128 (c : UInt8) (h : isDigit c = true) : c.toNat < 128 := by
  have : ∀ n : Fin 256, isDigit (UInt8.ofNat n.val) = true → n.val < 128 := by decide +kernel
  have h2 := this ⟨c.toNat, c.toNat_lt⟩
  simp only [UInt8.ofNat_toNat] at h2
  exact h2 h

theorem decimal_valid (n : Nat) : isValidUtf8 (decimal n) = true := by
  apply ascii_valid
  intro c hc
  exact digit_lt128 c (List.all_eq_true.1 (decimal_digits n).1 c hc)

theorem fmtInt_valid (n : Int) : isValidUtf8 (fmtInt n) = true := by
  by_cases hneg : n < 0
  · simp only [fmtInt, hneg, if_true]
    rw [isValidUtf8_ascii_cons 45 _ (by decide)]
    exact decimal_valid _
  · simp only [fmtInt, hneg, if_false]
    exact decimal_valid _

/-- a key the decoder reads back: a string key is valid UTF-8 -/
def keyOK : MapKey → Bool
  | .str k => isValidUtf8 k
  | _ => true

theorem mapKey_rt (esc : Bool) (kt : KeyType) (key : MapKey) (h : key.hasType kt = true) (hk : keyOK key = true) :
    mapKeyOf kt (unquote (quoteBody esc (keyText key))) = some key := by
  cases key with
  | str k =>
    cases kt with
    | str => simp only [keyText, unquote_quoteBody esc k hk, mapKeyOf]
    | _ => simp [MapKey.hasType] at h
  | int n =>
    cases kt with
    | int ik =>
      have hr : ik.inRange n = true := by simpa [MapKey.hasType] using h
      obtain ⟨hlo, hhi⟩ := inRange_int64 ik n hr
      simp only [keyText, unquote_quoteBody esc _ (fmtInt_valid n), mapKeyOf, parseInt64_fmtInt n hlo hhi, hr, if_true]
    | _ => simp [MapKey.hasType] at h
  | uint n =>
    cases kt with
    | uint uk =>
      have hr : uk.inRange n = true := by simpa [MapKey.hasType] using h
      simp only [keyText, unquote_quoteBody esc _ (decimal_valid n), mapKeyOf,
        parseUint64_decimal n (inRange_uint64 uk n hr), hr, if_true]
    | _ => simp [MapKey.hasType] at h

/-- `map[K]T`, `K` string or an integer kind, `T` in `rtSeqT` -/
def rtMapKT : GoType → Bool
  | .map _ e => rtSeqT e
  | _ => false

def rtMapKKeys : List (MapKey × GoVal) → Bool
  | [] => true
  | (k, v) :: r => keyOK k && rtSeqV v && rtMapKKeys r

def rtMapKV : GoVal → Bool
  | .map ms => rtMapKKeys ms && decide ((ms.map (fun p => keyText p.1)).Nodup)
  | _ => true

def EntryOKK (kt : KeyType) (e : GoType) (p : MapKey × GoVal) : Prop :=
  p.1.hasType kt = true ∧ keyOK p.1 = true ∧ p.2.hasType e = true ∧ rtSeqV p.2 = true

theorem entryOKK_of (kt : KeyType) (e : GoType) : ∀ ms : List (MapKey × GoVal), hasTypeM kt e ms = true →
    rtMapKKeys ms = true → ∀ p ∈ ms, EntryOKK kt e p
  | [], _, _, p, hp => by cases hp
  | (k, v) :: r, ht, hk, p, hp => by
    simp only [hasTypeM, Bool.and_eq_true] at ht
    simp only [rtMapKKeys, Bool.and_eq_true] at hk
    rcases List.mem_cons.1 hp with rfl | hp
    · exact ⟨ht.1.1, hk.1.1, ht.1.2, hk.1.2⟩
    · exact entryOKK_of kt e r ht.2 hk.2 p hp

theorem tmap_rtK (esc : Bool) (kt : KeyType) (e : GoType) (g : GoVal → Option Cst)
    (IH : ∀ v c, v.hasType e = true → rtSeqV v = true → g v = some c →
      ∃ d, tvalue c e (zeroDV e) = .ok d ∧ toGoVal e d = v) :
    ∀ (ms : List (MapKey × GoVal)) (S : List (Bytes × Cst)) (acc : List (MapKey × DV)),
      encEntries g ms = some S → (∀ p ∈ ms, EntryOKK kt e p) → (ms.map (fun p => keyText p.1)).Nodup →
      (∀ p ∈ ms, ∀ a ∈ acc, a.1 ≠ p.1) →
      ∃ DS, tmap (keyMembers esc S) kt e acc = .ok (acc ++ DS) ∧ toGoValM e DS = ms
  | [], S, acc, hS, _, _, _ => by
    simp only [encEntries, Option.some.injEq] at hS
    subst hS
    exact ⟨[], by simp [keyMembers, tmap], rfl⟩
  | (key, v) :: rest, S, acc, hS, hok, hnd, hfresh => by
    obtain ⟨hk1, hk2, hk3, hk4⟩ := hok (key, v) (by simp)
    simp only at hk1 hk2 hk3 hk4
    simp only [encEntries] at hS
    cases hg : g v with
    | none => rw [hg] at hS; cases hS
    | some c =>
      rw [hg] at hS
      cases hr : encEntries g rest with
      | none => rw [hr] at hS; cases hS
      | some S' =>
        rw [hr] at hS
        simp only [Option.some.injEq] at hS
        subst hS
        obtain ⟨d, hd, hdv⟩ := IH v c hk3 hk4 hg
        simp only [List.map_cons, List.nodup_cons] at hnd
        have hfr0 : ∀ a ∈ acc, a.1 ≠ key := fun a ha => hfresh (key, v) (by simp) a ha
        have hfresh' : ∀ p ∈ rest, ∀ a ∈ acc ++ [(key, d)], a.1 ≠ p.1 := by
          intro p hp a ha
          rcases List.mem_append.1 ha with ha | ha
          · exact hfresh p (by simp [hp]) a ha
          · simp only [List.mem_singleton] at ha
            subst ha
            intro heq
            apply hnd.1
            simp only [List.mem_map]
            exact ⟨p, hp, by rw [← heq]⟩
        obtain ⟨DS, hDS, hvs⟩ := tmap_rtK esc kt e g IH rest S' (acc ++ [(key, d)]) hr
          (fun p hp => hok p (by simp [hp])) hnd.2 hfresh'
        refine ⟨(key, d) :: DS, ?_, by simp only [toGoValM, hdv, hvs]⟩
        simp only [keyMembers]
        rw [tmap_cons, hd]
        simp only [tentry, mapKey_rt esc kt key hk1 hk2, setKey_fresh _ d acc hfr0]
        rw [hDS]
        simp only [List.append_assoc, List.singleton_append]

theorem rt_mapK_tree (esc : Bool) (t : GoType) (v : GoVal) (c : Cst) (hl : rtMapKT t = true)
    (hv : v.hasType t = true) (hu : rtMapKV v = true) (hc : typedCst esc t v = some c) :
    ∃ d, tvalue c t (zeroDV t) = .ok d ∧ toGoVal t d = mapBack v ∧ typedCst esc t (mapBack v) = some c := by
  cases t with
  | map kt e =>
      simp only [rtMapKT] at hl
      cases v with
      | nil =>
        have h0 : typedCst esc (.map kt e) .nil = some (.lit Enc.null) := rfl
        rw [h0] at hc
        simp only [Option.some.injEq] at hc
        subst hc
        exact ⟨.nil, by rfl, rfl, rfl⟩
      | map ms =>
        have h0 : typedCst esc (.map kt e) (.map ms) = mapCst esc (cst esc (heightM ms + 1) false e) (.map ms) := rfl
        have h1 : typedCst esc (.map kt e) (.map (sortMS ms)) =
            mapCst esc (cst esc (heightM (sortMS ms) + 1) false e) (.map (sortMS ms)) := rfl
        rw [h0] at hc
        simp only [mapCst] at hc
        cases henc : encEntries (cst esc (heightM ms + 1) false e) ms with
        | none => rw [henc] at hc; cases hc
        | some kvs =>
          rw [henc] at hc
          simp only [Option.some.injEq] at hc
          subst hc
          simp only [GoVal.hasType, Bool.and_eq_true] at hv
          simp only [rtMapKV, Bool.and_eq_true, decide_eq_true_eq] at hu
          have hperm := sortMS_perm ms
          have hok := entryOKK_of kt e ms hv.2 hu.1
          have hok' : ∀ p ∈ sortMS ms, EntryOKK kt e p := fun p hp => hok p (hperm.mem_iff.1 hp)
          have hnd' : ((sortMS ms).map (fun p => keyText p.1)).Nodup :=
            (List.Perm.nodup_iff (hperm.map _)).2 hu.2
          have henc' := encEntries_sortMS (cst esc (heightM ms + 1) false e) ms kvs henc
          obtain ⟨DS, hDS, hvs⟩ := tmap_rtK esc kt e (cst esc (heightM ms + 1) false e)
            (fun v c h1 h2 h3 => rt_seq_tree esc e _ v c hl h1 h2 h3) (sortMS ms) (sortKV kvs) [] henc' hok' hnd'
            (fun _ _ a ha => by cases ha)
          simp only [List.nil_append] at hDS
          refine ⟨.map DS, ?_, ?_, ?_⟩
          · simp only [tvalue, derefT, zeroDV, derefV, mapMs, hDS, rewrap]
          · simp only [toGoVal, hvs, mapBack]
          · simp only [mapBack]
            rw [h1, heightM_sortMS]
            simp only [mapCst, henc']
            have hkeys : (sortKV kvs).map Prod.fst = (sortMS ms).map (fun p => keyText p.1) :=
              encEntries_keys _ _ _ henc'
            rw [sortKV_of_sorted (sortKV kvs) (sortKV_sorted kvs) (by rw [hkeys]; exact hnd')]
      | _ => simp [GoVal.hasType, GoType.nilable] at hv
  | _ => simp [rtMapKT] at hl

theorem rt_mapK_side (t : GoType) (hl : rtMapKT t = true) : t.wf = true ∧ decodable t = true := by
  cases t with
  | map kt e =>
      simp only [rtMapKT] at hl
      have := rt_seq_side e hl
      exact ⟨by simpa [GoType.wf] using this.1, by simpa [decodable] using this.2⟩
  | _ => simp [rtMapKT] at hl

end JP.C17
