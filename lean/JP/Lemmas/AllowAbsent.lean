import JP.Lemmas.AllowMissing

/-!
# Lemmas for C13: a remove is skipped exactly when it would fail (target or ancestor absent)
-/

namespace JP
namespace AllowLemmas
open Spec

/-- the test `skipsRemove` runs at the parent of the target -/
def probe (o : Opts) (p : Value) (t : Bytes) : Res (Value × Bool) :=
  match p with
  | .obj ms => .ok (p, (Value.lookup t ms).isNone)
  | .arr xs =>
    match classify t with
    | .int i =>
      if 0 ≤ i then .ok (p, decide (xs.length ≤ i.toNat))
      else if !o.neg then .unspec
      else .ok (p, decide (i < -(xs.length : Int)))
    | _ => .unspec
  | _ => .ok (p, true)

theorem skipsRemove_eq (o : Opts) (d : Value) (path : List Bytes) :
    skipsRemove o d path =
      match atParent o (probe o) d path with
      | .ok p => .ok p.2
      | .fail _ => .ok true
      | .unspec => .unspec := by
  unfold skipsRemove
  change (match atParent o (probe o) d path with
    | .ok (_, b) => Res.ok b
    | .fail _ => .ok true
    | .unspec => .unspec) = _
  cases atParent o (probe o) d path <;> rfl

/-- `r` = result of the probe walk, `g` = result of the remove walk -/
def ProbeRel {α β} (r : Res (α × Bool)) (g : Res β) : Prop :=
  match r with
  | .ok p => if p.2 then ∃ c, g = .fail c else ∃ q, g = .ok q
  | .fail c => g = .fail c
  | .unspec => True

theorem probe_leaf (o : Opts) (p : Value) (t : Bytes) (hp : p.isContainer = true) :
    ProbeRel (probe o p t) (removeIn o p t) := by
  cases p with
  | obj ms =>
    simp only [probe, removeIn, ProbeRel]
    cases Value.lookup t ms with
    | none => simp
    | some old => simp
  | arr xs =>
    simp only [probe, removeIn, readIdx]
    cases hc : classify t with
    | int i =>
      simp only []
      by_cases h0 : 0 ≤ i
      · simp only [h0, if_true]
        by_cases hl : xs.length ≤ i.toNat
        · have : ¬ i.toNat < xs.length := by omega
          simp [ProbeRel, hl, this]
        · have hlt : i.toNat < xs.length := by omega
          simp [ProbeRel, hl, hlt]
      · simp only [h0, if_false]
        cases hn : o.neg with
        | false => simp [ProbeRel]
        | true =>
          simp only [Bool.not_true, Bool.false_eq_true, if_false, true_and]
          by_cases hl : i < -(xs.length : Int)
          · have : ¬ (-(xs.length : Int) ≤ i) := by omega
            simp [ProbeRel, hl, this]
          · have h1 : -(xs.length : Int) ≤ i := by omega
            have hlt : xs.length - i.natAbs < xs.length := by omega
            simp [ProbeRel, hl, h1, List.getElem?_eq_getElem hlt]
    | noncanon => simp [ProbeRel]
    | dash => simp [ProbeRel]
    | name => simp [ProbeRel]
  | null => simp [Value.isContainer, Value.isObj, Value.isArr] at hp
  | bool b => simp [Value.isContainer, Value.isObj, Value.isArr] at hp
  | num l => simp [Value.isContainer, Value.isObj, Value.isArr] at hp
  | str s => simp [Value.isContainer, Value.isObj, Value.isArr] at hp

theorem probeRel_bind {α β} (r : Res (α × Bool)) (g : Res (β × Value)) (h : ProbeRel r g)
    (k1 : α → α) (k2 : β → β) :
    ProbeRel (r.bind fun p => .ok (k1 p.1, p.2)) (g.bind fun p => .ok (k2 p.1, p.2)) := by
  cases r with
  | ok p =>
    simp only [ProbeRel, Res.bind] at h ⊢
    split at h
    · obtain ⟨c, rfl⟩ := h; simp [*]
    · obtain ⟨q, rfl⟩ := h; simp [*]
  | fail c => simp only [ProbeRel] at h; subst h; simp [ProbeRel, Res.bind]
  | unspec => trivial

theorem probe_atParent (o : Opts) :
    ∀ (toks : List Bytes) (v : Value),
      ProbeRel (atParent o (probe o) v toks) (atParent o (removeIn o) v toks)
  | [], _ => by simp [atParent, ProbeRel]
  | [t], v => by
    cases v with
    | obj ms => simp only [atParent]; exact probe_leaf o _ t rfl
    | arr xs => simp only [atParent]; exact probe_leaf o _ t rfl
    | null => simp [atParent, ProbeRel]
    | bool b => simp [atParent, ProbeRel]
    | num l => simp [atParent, ProbeRel]
    | str s => simp [atParent, ProbeRel]
  | t :: t2 :: ts, v => by
    cases v with
    | obj ms =>
      simp only [atParent]
      cases Value.lookup t ms with
      | none => simp [ProbeRel]
      | some child =>
        simp only []
        exact probeRel_bind _ _ (probe_atParent o (t2 :: ts) child)
          (fun c => .obj (Value.set t c ms)) (fun c => .obj (Value.set t c ms))
    | arr xs =>
      simp only [atParent]
      cases readIdx o.neg xs.length t with
      | unspec => simp [ProbeRel]
      | bad => simp [ProbeRel]
      | «at» i =>
        simp only []
        cases xs[i]? with
        | none => simp [ProbeRel]
        | some child =>
          simp only []
          exact probeRel_bind _ _ (probe_atParent o (t2 :: ts) child)
            (fun c => .arr (setAt i c xs)) (fun c => .arr (setAt i c xs))
    | null => simp [atParent, ProbeRel]
    | bool b => simp [atParent, ProbeRel]
    | num l => simp [atParent, ProbeRel]
    | str s => simp [atParent, ProbeRel]

/-- a skipped remove is one that fails without the option -/
theorem skips_true_fails (o : Opts) (d : Value) (path : List Bytes)
    (h : skipsRemove o d path = .ok true) : ∃ c, atParent o (removeIn o) d path = .fail c := by
  rw [skipsRemove_eq] at h
  have hr := probe_atParent o path d
  cases hp : atParent o (probe o) d path with
  | ok p =>
    simp only [hp, Res.ok.injEq] at h
    simpa [hp, ProbeRel, h] using hr
  | fail c => simp only [hp, ProbeRel] at hr; exact ⟨c, hr⟩
  | unspec => simp [hp] at h

/-- a remove that is not skipped succeeds -/
theorem skips_false_succeeds (o : Opts) (d : Value) (path : List Bytes)
    (h : skipsRemove o d path = .ok false) : ∃ q, atParent o (removeIn o) d path = .ok q := by
  rw [skipsRemove_eq] at h
  have hr := probe_atParent o path d
  cases hp : atParent o (probe o) d path with
  | ok p =>
    simp only [hp, Res.ok.injEq] at h
    simpa [hp, ProbeRel, h] using hr
  | fail c => simp [hp] at h
  | unspec => simp [hp] at h

end AllowLemmas
end JP
