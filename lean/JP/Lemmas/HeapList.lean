import JP.Lemmas.HeapRepr

/-!
# `ReprL` / `ReprM` under the list operations of the containers

Each lemma is the separation-logic rule of one list operation: focus on a child (the rest of the
list is a frame that survives any change confined to the child), insert, append, erase, map
assignment and map deletion.
-/

namespace JP
namespace Heap

open JP.Impl (Node NMembers Outcome listSet listInsert lookupN setN eraseN)

theorem ReprL.length_eq {h : Heap} : ∀ (ns : List Node) {ps fp}, ReprL h ns ps fp → ps.length = ns.length
  | [], ps, fp, r => by simp only [ReprL] at r; obtain ⟨rfl, _⟩ := r; rfl
  | n :: ns, ps, fp, r => by
    simp only [ReprL] at r; obtain ⟨p, ps', f1, f2, rfl, _, h2, _, _⟩ := r
    simp only [List.length_cons, ReprL.length_eq ns h2]

/-- focus on the `i`-th child: the rest of the list is a frame -/
theorem ReprL.focus {h : Heap} : ∀ (ns : List Node) {ps fp} (i : Nat) {n}, ReprL h ns ps fp →
    ns[i]? = some n →
    ∃ p f rest, ps[i]? = some p ∧ Repr h n p f ∧ Disj f rest ∧ (∀ x ∈ f, x ∈ fp) ∧ (∀ x ∈ rest, x ∈ fp) ∧
      ∀ (h' : Heap) (n' : Node) (p' : Ptr) (f' : List Nat), Repr h' n' p' f' →
        (∀ x ∈ rest, h'[x]? = h[x]?) → Disj f' rest →
        ∃ fp', ReprL h' (listSet i n' ns) (listSet i p' ps) fp' ∧ ∀ x ∈ fp', x ∈ f' ∨ x ∈ rest
  | [], ps, fp, i, n, _, hi => by simp at hi
  | n0 :: ns, ps, fp, 0, n, r, hi => by
    simp only [ReprL] at r; obtain ⟨p, ps', f1, f2, rfl, h1, h2, d, rfl⟩ := r
    simp only [List.getElem?_cons_zero, Option.some.injEq] at hi; subst hi
    refine ⟨p, f1, f2, rfl, h1, d, fun x hx => by simp [hx], fun x hx => by simp [hx], ?_⟩
    intro h' n' p' f' r' fr d'
    refine ⟨f' ++ f2, ?_, fun x hx => by simpa using hx⟩
    simp only [listSet]
    exact ReprL.mk_cons r' (ReprL.frame ns h2 fr) d'
  | n0 :: ns, ps, fp, i + 1, n, r, hi => by
    simp only [ReprL] at r; obtain ⟨p0, ps', f1, f2, rfl, h1, h2, d, rfl⟩ := r
    simp only [List.getElem?_cons_succ] at hi
    obtain ⟨p, f, rest0, hp, hr, dr, sf, sr, wand⟩ := ReprL.focus ns i h2 hi
    refine ⟨p, f, f1 ++ rest0, by simpa using hp, hr, ?_, fun x hx => by simp [sf x hx],
      fun x hx => ?_, ?_⟩
    · intro x hx hy
      simp only [List.mem_append] at hy
      rcases hy with hy | hy
      · exact d x hy (sf x hx)
      · exact dr x hx hy
    · simp only [List.mem_append] at hx ⊢
      rcases hx with hx | hx
      · exact Or.inl hx
      · exact Or.inr (sr x hx)
    · intro h' n' p' f' r' fr d'
      obtain ⟨fp0, hl, sub⟩ := wand h' n' p' f' r' (fun x hx => fr x (by simp [hx]))
        (fun x hx hy => d' x hx (by simp [hy]))
      refine ⟨f1 ++ fp0, ?_, fun x hx => ?_⟩
      · simp only [listSet]
        refine ReprL.mk_cons (Repr.frame n0 h1 (fun x hx => fr x (by simp [hx]))) hl ?_
        intro x hx hy
        rcases sub x hy with hy | hy
        · exact d' x hy (by simp [hx])
        · exact d x hx (sr x hy)
      · simp only [List.mem_append] at hx ⊢
        rcases hx with hx | hx
        · exact Or.inr (Or.inl hx)
        · rcases sub x hx with hx | hx
          · exact Or.inl hx
          · exact Or.inr (Or.inr hx)

theorem ReprL.get_none {h : Heap} {ns : List Node} {ps fp} (i : Nat) (r : ReprL h ns ps fp)
    (hi : ns[i]? = none) : ps[i]? = none := by
  rw [List.getElem?_eq_none_iff] at hi ⊢
  rw [ReprL.length_eq ns r]; exact hi

theorem ReprL.insert {h : Heap} : ∀ (ns : List Node) {ps fp} (i : Nat) {n' p' f'}, ReprL h ns ps fp →
    Repr h n' p' f' → Disj f' fp →
    ∃ fp', ReprL h (listInsert i n' ns) (listInsert i p' ps) fp' ∧ ∀ x ∈ fp', x ∈ f' ∨ x ∈ fp
  | ns, ps, fp, 0, n', p', f', r, r', d => by
    refine ⟨f' ++ fp, ?_, fun x hx => by simpa using hx⟩
    simp only [listInsert]
    exact ReprL.mk_cons r' r d
  | [], ps, fp, i + 1, n', p', f', r, r', d => by
    simp only [ReprL] at r; obtain ⟨rfl, rfl⟩ := r
    refine ⟨f' ++ [], ?_, fun x hx => by simpa using hx⟩
    simp only [listInsert]
    exact ReprL.mk_cons r' (ReprL.mk_nil h) (Disj.nil_right _)
  | n0 :: ns, ps, fp, i + 1, n', p', f', r, r', d => by
    simp only [ReprL] at r; obtain ⟨p0, ps', f1, f2, rfl, h1, h2, d12, rfl⟩ := r
    obtain ⟨fp0, hl, sub⟩ := ReprL.insert ns i h2 r' (fun x hx hy => d x hx (by simp [hy]))
    refine ⟨f1 ++ fp0, ?_, fun x hx => ?_⟩
    · simp only [listInsert]
      refine ReprL.mk_cons h1 hl ?_
      intro x hx hy
      rcases sub x hy with hy | hy
      · exact d x hy (by simp [hx])
      · exact d12 x hx hy
    · simp only [List.mem_append] at hx ⊢
      rcases hx with hx | hx
      · exact Or.inr (Or.inl hx)
      · rcases sub x hx with hx | hx
        · exact Or.inl hx
        · exact Or.inr (Or.inr hx)

theorem ReprL.append {h : Heap} : ∀ (ns : List Node) {ps fp ns2 ps2 fp2}, ReprL h ns ps fp →
    ReprL h ns2 ps2 fp2 → Disj fp fp2 →
    ∃ fp', ReprL h (ns ++ ns2) (ps ++ ps2) fp' ∧ ∀ x ∈ fp', x ∈ fp ∨ x ∈ fp2
  | [], ps, fp, ns2, ps2, fp2, r, r2, _ => by
    simp only [ReprL] at r; obtain ⟨rfl, rfl⟩ := r
    exact ⟨fp2, by simpa using r2, fun x hx => Or.inr hx⟩
  | n0 :: ns, ps, fp, ns2, ps2, fp2, r, r2, d => by
    simp only [ReprL] at r; obtain ⟨p0, ps', f1, f2, rfl, h1, h2, d12, rfl⟩ := r
    obtain ⟨fp0, hl, sub⟩ := ReprL.append ns h2 r2 (fun x hx hy => d x (by simp [hx]) hy)
    refine ⟨f1 ++ fp0, ?_, fun x hx => ?_⟩
    · simp only [List.cons_append]
      refine ReprL.mk_cons h1 hl ?_
      intro x hx hy
      rcases sub x hy with hy | hy
      · exact d12 x hx hy
      · exact d x (by simp [hx]) hy
    · simp only [List.mem_append] at hx ⊢
      rcases hx with hx | hx
      · exact Or.inl (Or.inl hx)
      · rcases sub x hx with hx | hx
        · exact Or.inl (Or.inr hx)
        · exact Or.inr hx

theorem ReprL.snoc {h : Heap} {ns : List Node} {ps fp n' p' f'} (r : ReprL h ns ps fp)
    (r' : Repr h n' p' f') (d : Disj f' fp) :
    ∃ fp', ReprL h (ns ++ [n']) (ps ++ [p']) fp' ∧ ∀ x ∈ fp', x ∈ f' ∨ x ∈ fp := by
  obtain ⟨fp', hl, sub⟩ := ReprL.append ns r
    (ReprL.mk_cons r' (ReprL.mk_nil h) (Disj.nil_right _)) (fun x hx hy => d x (by simpa using hy) hx)
  exact ⟨fp', hl, fun x hx => (sub x hx).elim Or.inr (fun hy => Or.inl (by simpa using hy))⟩

/-- unlink the `i`-th child: its footprint leaves the list's -/
theorem ReprL.erase {h : Heap} : ∀ (ns : List Node) {ps fp} (i : Nat) {n}, ReprL h ns ps fp →
    ns[i]? = some n →
    ∃ p f rest, ps[i]? = some p ∧ Repr h n p f ∧ ReprL h (ns.eraseIdx i) (ps.eraseIdx i) rest ∧
      Disj f rest ∧ (∀ x ∈ f, x ∈ fp) ∧ (∀ x ∈ rest, x ∈ fp)
  | [], ps, fp, i, n, _, hi => by simp at hi
  | n0 :: ns, ps, fp, 0, n, r, hi => by
    simp only [ReprL] at r; obtain ⟨p, ps', f1, f2, rfl, h1, h2, d, rfl⟩ := r
    simp only [List.getElem?_cons_zero, Option.some.injEq] at hi; subst hi
    exact ⟨p, f1, f2, rfl, h1, by simpa using h2, d, fun x hx => by simp [hx], fun x hx => by simp [hx]⟩
  | n0 :: ns, ps, fp, i + 1, n, r, hi => by
    simp only [ReprL] at r; obtain ⟨p0, ps', f1, f2, rfl, h1, h2, d, rfl⟩ := r
    simp only [List.getElem?_cons_succ] at hi
    obtain ⟨p, f, rest0, hp, hr, hl, dr, sf, sr⟩ := ReprL.erase ns i h2 hi
    refine ⟨p, f, f1 ++ rest0, by simpa using hp, hr, ?_, ?_, fun x hx => by simp [sf x hx], fun x hx => ?_⟩
    · simp only [List.eraseIdx_cons_succ]
      exact ReprL.mk_cons h1 hl (fun x hx hy => d x hx (sr x hy))
    · intro x hx hy
      simp only [List.mem_append] at hy
      rcases hy with hy | hy
      · exact d x hy (sf x hx)
      · exact dr x hx hy
    · simp only [List.mem_append] at hx ⊢
      rcases hx with hx | hx
      · exact Or.inl hx
      · exact Or.inr (sr x hx)

/-! ### members -/

theorem ReprM.lookup_none {h : Heap} : ∀ (ms : NMembers) {ps fp} (k : Bytes), ReprM h ms ps fp →
    lookupN k ms = none → lookupP k ps = none
  | [], ps, fp, k, r, _ => by simp only [ReprM] at r; obtain ⟨rfl, _⟩ := r; rfl
  | (k0, n0) :: ms, ps, fp, k, r, hk => by
    simp only [ReprM] at r; obtain ⟨p0, ps', f1, f2, rfl, h1, h2, d, rfl⟩ := r
    simp only [lookupN] at hk
    simp only [lookupP]
    by_cases e : k0 = k
    · simp [e] at hk
    · simp only [e, if_false] at hk ⊢
      exact ReprM.lookup_none ms k h2 hk

/-- focus on the member named `k` -/
theorem ReprM.focus {h : Heap} : ∀ (ms : NMembers) {ps fp} (k : Bytes) {n}, ReprM h ms ps fp →
    lookupN k ms = some n →
    ∃ p f rest, lookupP k ps = some p ∧ Repr h n p f ∧ Disj f rest ∧ (∀ x ∈ f, x ∈ fp) ∧ (∀ x ∈ rest, x ∈ fp) ∧
      ∀ (h' : Heap) (n' : Node) (p' : Ptr) (f' : List Nat), Repr h' n' p' f' →
        (∀ x ∈ rest, h'[x]? = h[x]?) → Disj f' rest →
        ∃ fp', ReprM h' (setN k n' ms) (setP k p' ps) fp' ∧ ∀ x ∈ fp', x ∈ f' ∨ x ∈ rest
  | [], ps, fp, k, n, _, hk => by simp [lookupN] at hk
  | (k0, n0) :: ms, ps, fp, k, n, r, hk => by
    simp only [ReprM] at r; obtain ⟨p0, ps', f1, f2, rfl, h1, h2, d, rfl⟩ := r
    simp only [lookupN] at hk
    by_cases e : k0 = k
    · simp only [e, if_true, Option.some.injEq] at hk; subst hk
      refine ⟨p0, f1, f2, by simp [lookupP, e], h1, d, fun x hx => by simp [hx], fun x hx => by simp [hx], ?_⟩
      intro h' n' p' f' r' fr d'
      refine ⟨f' ++ f2, ?_, fun x hx => by simpa using hx⟩
      simp only [setN, setP, e, if_true]
      exact ReprM.mk_cons r' (ReprM.frame ms h2 fr) d'
    · simp only [e, if_false] at hk
      obtain ⟨p, f, rest0, hp, hr, dr, sf, sr, wand⟩ := ReprM.focus ms k h2 hk
      refine ⟨p, f, f1 ++ rest0, by simp [lookupP, e, hp], hr, ?_, fun x hx => by simp [sf x hx],
        fun x hx => ?_, ?_⟩
      · intro x hx hy
        simp only [List.mem_append] at hy
        rcases hy with hy | hy
        · exact d x hy (sf x hx)
        · exact dr x hx hy
      · simp only [List.mem_append] at hx ⊢
        rcases hx with hx | hx
        · exact Or.inl hx
        · exact Or.inr (sr x hx)
      · intro h' n' p' f' r' fr d'
        obtain ⟨fp0, hl, sub⟩ := wand h' n' p' f' r' (fun x hx => fr x (by simp [hx]))
          (fun x hx hy => d' x hx (by simp [hy]))
        refine ⟨f1 ++ fp0, ?_, fun x hx => ?_⟩
        · simp only [setN, setP, e, if_false]
          refine ReprM.mk_cons (Repr.frame n0 h1 (fun x hx => fr x (by simp [hx]))) hl ?_
          intro x hx hy
          rcases sub x hy with hy | hy
          · exact d' x hy (by simp [hx])
          · exact d x hx (sr x hy)
        · simp only [List.mem_append] at hx ⊢
          rcases hx with hx | hx
          · exact Or.inr (Or.inl hx)
          · rcases sub x hx with hx | hx
            · exact Or.inl hx
            · exact Or.inr (Or.inr hx)

theorem setP_self : ∀ (ps : PMembers) {k p}, lookupP k ps = some p → setP k p ps = ps
  | [], k, p, hk => by simp [lookupP] at hk
  | (k0, p0) :: ps, k, p, hk => by
    simp only [lookupP] at hk
    simp only [setP]
    by_cases e : k0 = k
    · simp only [e, if_true, Option.some.injEq] at hk ⊢; subst hk; rfl
    · simp only [e, if_false] at hk ⊢
      rw [setP_self ps hk]

/-- map assignment `obj[k] = n'` (present or absent key) -/
theorem ReprM.set {h : Heap} : ∀ (ms : NMembers) {ps fp} (k : Bytes) {n' p' f'}, ReprM h ms ps fp →
    Repr h n' p' f' → Disj f' fp →
    ∃ fp', ReprM h (setN k n' ms) (setP k p' ps) fp' ∧ ∀ x ∈ fp', x ∈ f' ∨ x ∈ fp
  | [], ps, fp, k, n', p', f', r, r', _ => by
    simp only [ReprM] at r; obtain ⟨rfl, rfl⟩ := r
    refine ⟨f' ++ [], ?_, fun x hx => by simpa using hx⟩
    simp only [setN, setP]
    exact ReprM.mk_cons r' (ReprM.mk_nil h) (Disj.nil_right _)
  | (k0, n0) :: ms, ps, fp, k, n', p', f', r, r', d => by
    simp only [ReprM] at r; obtain ⟨p0, ps', f1, f2, rfl, h1, h2, d12, rfl⟩ := r
    by_cases e : k0 = k
    · refine ⟨f' ++ f2, ?_, fun x hx => ?_⟩
      · simp only [setN, setP, e, if_true]
        exact ReprM.mk_cons r' h2 (fun x hx hy => d x hx (by simp [hy]))
      · simp only [List.mem_append] at hx ⊢
        rcases hx with hx | hx
        · exact Or.inl hx
        · exact Or.inr (Or.inr hx)
    · obtain ⟨fp0, hl, sub⟩ := ReprM.set ms k h2 r' (fun x hx hy => d x hx (by simp [hy]))
      refine ⟨f1 ++ fp0, ?_, fun x hx => ?_⟩
      · simp only [setN, setP, e, if_false]
        refine ReprM.mk_cons h1 hl ?_
        intro x hx hy
        rcases sub x hy with hy | hy
        · exact d x hy (by simp [hx])
        · exact d12 x hx hy
      · simp only [List.mem_append] at hx ⊢
        rcases hx with hx | hx
        · exact Or.inr (Or.inl hx)
        · rcases sub x hx with hx | hx
          · exact Or.inl hx
          · exact Or.inr (Or.inr hx)

/-- `delete(obj, k)` of a present member: its footprint leaves the map's -/
theorem ReprM.erase {h : Heap} : ∀ (ms : NMembers) {ps fp} (k : Bytes) {n}, ReprM h ms ps fp →
    lookupN k ms = some n →
    ∃ p f rest, lookupP k ps = some p ∧ Repr h n p f ∧ ReprM h (eraseN k ms) (eraseP k ps) rest ∧
      Disj f rest ∧ (∀ x ∈ f, x ∈ fp) ∧ (∀ x ∈ rest, x ∈ fp)
  | [], ps, fp, k, n, _, hk => by simp [lookupN] at hk
  | (k0, n0) :: ms, ps, fp, k, n, r, hk => by
    simp only [ReprM] at r; obtain ⟨p0, ps', f1, f2, rfl, h1, h2, d, rfl⟩ := r
    simp only [lookupN] at hk
    by_cases e : k0 = k
    · simp only [e, if_true, Option.some.injEq] at hk; subst hk
      refine ⟨p0, f1, f2, by simp [lookupP, e], h1, ?_, d, fun x hx => by simp [hx], fun x hx => by simp [hx]⟩
      simp only [eraseN, eraseP, e, if_true]; exact h2
    · simp only [e, if_false] at hk
      obtain ⟨p, f, rest0, hp, hr, hl, dr, sf, sr⟩ := ReprM.erase ms k h2 hk
      refine ⟨p, f, f1 ++ rest0, by simp [lookupP, e, hp], hr, ?_, ?_, fun x hx => by simp [sf x hx],
        fun x hx => ?_⟩
      · simp only [eraseN, eraseP, e, if_false]
        exact ReprM.mk_cons h1 hl (fun x hx hy => d x hx (sr x hy))
      · intro x hx hy
        simp only [List.mem_append] at hy
        rcases hy with hy | hy
        · exact d x hy (sf x hx)
        · exact dr x hx hy
      · simp only [List.mem_append] at hx ⊢
        rcases hx with hx | hx
        · exact Or.inl hx
        · exact Or.inr (sr x hx)

end Heap
end JP
