import JP.Lemmas.MergeLawsMerge

/-!
# Composition of merge patches: equations, lookup characterisation, the composition law
-/

namespace JP
namespace Spec
open Value

/-! ### equations -/

theorem compose_of_not_obj (p1 : Value) {p2 : Value} (h : p2.isObj = false) : compose p1 p2 = p2 := by
  cases p2 <;> simp [compose, isObj] at h ⊢

theorem compose_obj_obj (p q : Members) : compose (.obj p) (.obj q) = .obj (composeMs p q) := by
  simp only [compose]

theorem compose_nonobj_obj {p1 : Value} (h : p1.isObj = false) (q : Members) :
    compose p1 (.obj q) = .obj q := by
  cases p1 <;> simp [compose, isObj] at h ⊢

/-- the value the combined patch holds under a name the second patch mentions -/
def compMember (a : Option Value) (v2 : Value) : Value :=
  match v2 with
  | .obj q2 =>
    (match a with
     | some (.obj p2) => compose (.obj p2) (.obj q2)
     | _ => .obj q2)
  | v2 => v2

theorem compMember_of_not_obj (a : Option Value) {v2 : Value} (h : v2.isObj = false) :
    compMember a v2 = v2 := by
  cases v2 <;> simp [compMember, isObj] at h ⊢

theorem compMember_obj_obj (p2 q2 : Members) :
    compMember (some (.obj p2)) (.obj q2) = compose (.obj p2) (.obj q2) := rfl

theorem compMember_none_obj (q2 : Members) : compMember none (.obj q2) = .obj q2 := rfl

theorem composeMs_nil (p : Members) : composeMs p [] = p := by simp only [composeMs]

theorem composeMs_cons (p : Members) (k : Bytes) (v2 : Value) (q : Members) :
    composeMs p ((k, v2) :: q) = composeMs (set k (compMember (lookup k p) v2) p) q := by
  cases v2 with
  | obj q2 =>
    cases hl : lookup k p with
    | none => simp only [composeMs, hl, compMember]
    | some a => cases a <;> simp only [composeMs, hl, compMember]
  | _ => simp only [composeMs, compMember]

/-! ### lookup characterisation -/

def compOpt (a : Option Value) : Option Value → Option Value
  | none => a
  | some v2 => some (compMember a v2)

@[simp] theorem compOpt_none (a : Option Value) : compOpt a none = a := rfl
@[simp] theorem compOpt_some (a : Option Value) (v2 : Value) : compOpt a (some v2) = some (compMember a v2) := rfl

theorem lookup_composeMs (k : Bytes) : ∀ q : Members, nodupKeys (q.map Prod.fst) = true →
    ∀ p, lookup k (composeMs p q) = compOpt (lookup k p) (lookup k q)
  | [], _, p => by simp [composeMs_nil, lookup]
  | (k', v2) :: q, hnd, p => by
    rw [nodupKeys_members_cons] at hnd
    rw [composeMs_cons, lookup_composeMs k q hnd.2]
    by_cases hk : k' = k
    · subst hk; rw [lookup_cons_self, hnd.1, lookup_set_eq]; rfl
    · rw [lookup_cons_ne hk, lookup_set_ne hk]

theorem nodupKeys_composeMs : ∀ (q p : Members), nodupKeys (p.map Prod.fst) = true →
    nodupKeys ((composeMs p q).map Prod.fst) = true
  | [], p, h => by rw [composeMs_nil]; exact h
  | (k, v2) :: q, p, h => by
    rw [composeMs_cons]; exact nodupKeys_composeMs q _ (nodupKeys_set k _ p h)

/-! ### compatibility -/

theorem compatible_of_not_obj (p1 : Value) {p2 : Value} (h : p2.isObj = false) : compatible p1 p2 = true := by
  cases p2 <;> simp [compatible, isObj] at h ⊢

theorem compatible_obj_obj (p q : Members) : compatible (.obj p) (.obj q) = compatibleMs p q := by
  simp only [compatible]

theorem compatible_nonobj_obj {p1 : Value} (h : p1.isObj = false) (q : Members) :
    compatible p1 (.obj q) = false := by
  cases p1 <;> simp [compatible, isObj] at h ⊢

/-- compatibility of one member of the second patch against the first patch -/
def compatMember (a : Option Value) (v2 : Value) : Bool :=
  match v2 with
  | .obj q2 =>
    (match a with
     | none => true
     | some (.obj p2) => compatible (.obj p2) (.obj q2)
     | some _ => false)
  | _ => true

theorem compatibleMs_cons (p : Members) (k : Bytes) (v2 : Value) (q : Members) :
    compatibleMs p ((k, v2) :: q) = (compatMember (lookup k p) v2 && compatibleMs p q) := by
  cases v2 with
  | obj q2 =>
    cases hl : lookup k p with
    | none => simp only [compatibleMs, hl, compatMember]
    | some a => cases a <;> simp only [compatibleMs, hl, compatMember]
  | _ => simp only [compatibleMs, compatMember]

theorem compatibleMs_iff (p : Members) : ∀ q : Members, compatibleMs p q = true ↔
    ∀ k v2, (k, v2) ∈ q → compatMember (lookup k p) v2 = true
  | [] => by simp [compatibleMs]
  | (k', v') :: q => by
    simp only [compatibleMs_cons, Bool.and_eq_true, compatibleMs_iff p q, List.mem_cons]
    constructor
    · rintro ⟨h1, h2⟩ k v (h | h)
      · cases h; exact h1
      · exact h2 k v h
    · intro h
      exact ⟨h k' v' (Or.inl rfl), fun k v hm => h k v (Or.inr hm)⟩

/-- a compatible member: the first patch holds nothing, or an object that is compatible below -/
theorem compatMember_obj {a : Option Value} {q2 : Members} (h : compatMember a (.obj q2) = true) :
    a = none ∨ ∃ p2, a = some (.obj p2) ∧ compatible (.obj p2) (.obj q2) = true := by
  cases a with
  | none => exact Or.inl rfl
  | some av =>
    cases av <;> simp [compatMember] at h
    exact Or.inr ⟨_, rfl, h⟩

/-! ### the combined patch is hereditarily duplicate-free -/

theorem noDup_compose : ∀ p2 : Value, ∀ p1 : Value, noDup p1 = true → noDup p2 = true →
    noDup (compose p1 p2) = true := by
  apply ind
  · intro p1 _ _; rfl
  · intro b p1 _ _; rfl
  · intro b p1 _ _; rfl
  · intro b p1 _ _; rfl
  · intro b _ p1 _ h; rw [compose_of_not_obj p1 rfl]; exact h
  · intro q ih p1 h1 h2
    by_cases h1o : p1.isObj = true
    · cases p1 <;> simp [isObj] at h1o
      rename_i p
      have h1' := (noDup_obj _).1 h1
      have h2' := (noDup_obj _).1 h2
      have hk := nodupKeys_composeMs q p h1'.1
      rw [compose_obj_obj, noDup_obj]
      refine ⟨hk, (noDupM_iff _).2 ?_⟩
      intro k v hm
      have hl := lookup_of_mem hk hm
      rw [lookup_composeMs k q h2'.1] at hl
      cases hq : lookup k q with
      | none => rw [hq, compOpt_none] at hl; exact noDup_of_lookup h1'.2 hl
      | some v2 =>
        have hv2 : noDup v2 = true := noDup_of_lookup h2'.2 hq
        rw [hq, compOpt_some] at hl
        cases hl
        by_cases hv2o : v2.isObj = true
        · cases v2 <;> simp [isObj] at hv2o
          rename_i q2
          cases hp : lookup k p with
          | none => exact hv2
          | some a =>
            by_cases hao : a.isObj = true
            · cases a <;> simp [isObj] at hao
              rename_i p2
              rw [compMember_obj_obj]
              exact ih k _ (mem_of_lookup hq) _ (noDup_of_lookup h1'.2 hp) hv2
            · cases a <;> first | exact hv2 | simp [isObj] at hao
        · rw [compMember_of_not_obj _ (by simpa using hv2o)]; exact hv2
    · rw [compose_nonobj_obj (by simpa using h1o)]; exact h2

/-! ### the composition law -/

theorem compose_law_aux : ∀ p2 : Value, ∀ (p1 d : Value), noDup p1 = true → noDup p2 = true →
    noDup d = true → compatible p1 p2 = true →
    eqv (merge (merge d p1) p2) (merge d (compose p1 p2)) = true := by
  have atom : ∀ p2 : Value, p2.isObj = false → noDup p2 = true → ∀ (p1 d : Value),
      eqv (merge (merge d p1) p2) (merge d (compose p1 p2)) = true := by
    intro p2 h hnd p1 d
    rw [compose_of_not_obj p1 h, merge_of_not_obj _ h, merge_of_not_obj _ h]
    exact eqv_refl p2 hnd
  apply ind
  · intro p1 d _ h _ _; exact atom _ rfl h p1 d
  · intro b p1 d _ h _ _; exact atom _ rfl h p1 d
  · intro b p1 d _ h _ _; exact atom _ rfl h p1 d
  · intro b p1 d _ h _ _; exact atom _ rfl h p1 d
  · intro b _ p1 d _ h _ _; exact atom _ rfl h p1 d
  · intro q ih p1 d h1 h2 hd hc
    by_cases h1o : p1.isObj = true
    · cases p1 <;> simp [isObj] at h1o
      rename_i p
      rw [compatible_obj_obj, compatibleMs_iff] at hc
      have h1' := (noDup_obj _).1 h1
      have h2' := (noDup_obj _).1 h2
      have hts := nodupKeys_mems hd
      have htsM := noDupM_mems hd
      rw [compose_obj_obj, merge_obj, merge_obj, merge_obj, mems_obj]
      rw [eqv_obj_iff (nodupKeys_mergeMs _ _ (nodupKeys_mergeMs _ _ hts))]
      intro k
      rw [lookup_mergeMs k q h2'.1, lookup_mergeMs k p h1'.1,
        lookup_mergeMs k _ (nodupKeys_composeMs q p h1'.1), lookup_composeMs k q h2'.1]
      -- noDup of the pieces
      have hT : ∀ v, lookup k (mems d) = some v → noDup v = true := fun v hv => noDup_of_lookup htsM hv
      have hP : ∀ v, lookup k p = some v → noDup v = true := fun v hv => noDup_of_lookup h1'.2 hv
      have hTP := noDup_mergeOpt hT hP
      cases hq : lookup k q with
      | none =>
        rw [mergeOpt_none, compOpt_none]
        exact optEqv_refl hTP
      | some v2 =>
        have hm := mem_of_lookup hq
        have hv2 : noDup v2 = true := noDup_of_lookup h2'.2 hq
        rw [compOpt_some]
        by_cases hv2o : v2.isObj = true
        · cases v2 <;> simp [isObj] at hv2o
          rename_i q2
          rcases compatMember_obj (hc k _ hm) with hp | ⟨p2, hp, hcc⟩
          · rw [hp, mergeOpt_none, compMember_none_obj]
            exact optEqv_refl (noDup_mergeOpt hT (fun v hv => by cases hv; exact hv2))
          · rw [hp, compMember_obj_obj, mergeOpt_of_ne_null _ (by simp),
              mergeOpt_of_ne_null _ (by simp), mergeOpt_of_ne_null _ (by rw [compose_obj_obj]; simp)]
            simp only [Option.getD_some, optEqv_some_some]
            exact ih k _ hm (.obj p2) _ (hP _ hp) hv2 (noDup_getD_lookup htsM k) hcc
        · have hv2o' : v2.isObj = false := by simpa using hv2o
          rw [compMember_of_not_obj _ hv2o']
          by_cases hn : v2 = .null
          · subst hn; rfl
          · rw [mergeOpt_of_ne_null _ hn, mergeOpt_of_ne_null _ hn, merge_of_not_obj _ hv2o',
              merge_of_not_obj _ hv2o']
            exact eqv_refl v2 hv2
    · rw [compatible_nonobj_obj (by simpa using h1o)] at hc; cases hc

end Spec
end JP
