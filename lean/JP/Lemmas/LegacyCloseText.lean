import JP.Lemmas.LegacyCloseCreate
import JP.Lemmas.LegacyEqualText
import JP.Lemmas.TransduceWF

/-!
# A well-formed text and its syntax tree: what the parser consumed

`text_all`: a successful `parseValue` splits its input into the consumed text and the rest; every
string body and member name of the tree occurs in the consumed text between two quotes (`Seg`);
the consumed text of an array ends with `]`.  Consequences:

* `resemblesJSONArray_true`: a well-formed text whose root is an array "resembles an array" in the
  sense of the legacy `CreateMergePatch` (`bytes.TrimSpace` leaves `[` … `]`);
* `noEscapes_of_text`, `cstUtf8_of_text`: a text without a backslash byte / a valid UTF-8 text has a
  tree without escapes / with valid UTF-8 bodies — the hypotheses of `C19.equal_texts` at text level.
-/

namespace JP
namespace Legacy

/-! ### splitting -/

theorem isPrefix_split : ∀ (w bs : Bytes), isPrefix w bs = true → bs = w ++ bs.drop w.length
  | [], _, _ => rfl
  | _ :: _, [], h => by simp [isPrefix] at h
  | a :: as, b :: bs, h => by
    simp only [isPrefix, Bool.and_eq_true, beq_iff_eq] at h
    rw [h.1]
    simp only [List.length_cons, List.drop_succ_cons, List.cons_append]
    rw [← isPrefix_split as bs h.2]

theorem skipWs_split : ∀ (bs : Bytes), ∃ ws, bs = ws ++ skipWs bs ∧ ∀ c ∈ ws, isWs c = true
  | [] => ⟨[], rfl, by intro c hc; cases hc⟩
  | c :: cs => by
    by_cases hw : isWs c = true
    · obtain ⟨ws, e, hall⟩ := skipWs_split cs
      refine ⟨c :: ws, ?_, ?_⟩
      · have : skipWs (c :: cs) = skipWs cs := by simp [skipWs, hw]
        rw [this, List.cons_append, ← e]
      · intro x hx
        rcases List.mem_cons.1 hx with rfl | hx
        · exact hw
        · exact hall x hx
    · refine ⟨[], ?_, by intro x hx; cases hx⟩
      have : skipWs (c :: cs) = c :: cs := by simp [skipWs, hw]
      rw [this]; rfl

theorem skipWs_nil_all : ∀ (bs : Bytes), skipWs bs = [] → ∀ c ∈ bs, isWs c = true
  | [], _ => by intro c hc; cases hc
  | c :: cs, h => by
    by_cases hw : isWs c = true
    · have e : skipWs (c :: cs) = skipWs cs := by simp [skipWs, hw]
      rw [e] at h
      intro x hx
      rcases List.mem_cons.1 hx with rfl | hx
      · exact hw
      · exact skipWs_nil_all cs h x hx
    · have e : skipWs (c :: cs) = c :: cs := by simp [skipWs, hw]
      rw [e] at h; cases h

/-! ### the bodies of a tree and where they occur in the text -/

mutual
/-- every string body and member name, in document order -/
def bodies : Cst → List Bytes
  | .lit _ => []
  | .str b => [b]
  | .arr xs => bodiesL xs
  | .obj ms => bodiesM ms
def bodiesL : List Cst → List Bytes
  | [] => []
  | x :: xs => bodies x ++ bodiesL xs
def bodiesM : List (Bytes × Cst) → List Bytes
  | [] => []
  | (k, v) :: ms => k :: (bodies v ++ bodiesM ms)
end

/-- `k` occurs in `t` between two quotes -/
def Seg (t k : Bytes) : Prop := ∃ x y, t = x ++ 34 :: (k ++ 34 :: y)

theorem Seg.mono {t k : Bytes} (h : Seg t k) (u w : Bytes) : Seg (u ++ t ++ w) k := by
  obtain ⟨x, y, rfl⟩ := h
  exact ⟨u ++ x, y ++ w, by simp⟩

theorem Seg.left {t k : Bytes} (h : Seg t k) (u : Bytes) : Seg (u ++ t) k := by
  have := h.mono u []; simpa using this

theorem Seg.right {t k : Bytes} (h : Seg t k) (w : Bytes) : Seg (t ++ w) k := by
  have := h.mono [] w; simpa using this

private theorem map_some_obj' {α β γ : Type} {o : Option (α × β)} {f : α → γ} {c : γ} {r : β}
    (h : (o.map fun p => (f p.1, p.2)) = some (c, r)) : ∃ a, o = some (a, r) ∧ c = f a := by
  cases o with
  | none => simp at h
  | some p =>
    obtain ⟨a, b⟩ := p
    simp only [Option.map_some, Option.some.injEq, Prod.mk.injEq] at h
    exact ⟨a, by rw [h.2], h.1.symm⟩

/-- what a value / the elements of an array / the members of an object consumed -/
def ConsV (bs : Bytes) (c : Cst) (r : Bytes) : Prop :=
  ∃ pre, bs = pre ++ r ∧ (∀ k ∈ bodies c, Seg pre k) ∧ (c.isArr = true → ∃ p, pre = p ++ [93])
def ConsE (bs : Bytes) (xs : List Cst) (r : Bytes) : Prop :=
  ∃ pre, bs = pre ++ r ∧ (∀ k ∈ bodiesL xs, Seg pre k) ∧ ∃ p, pre = p ++ [93]
def ConsM (bs : Bytes) (ms : List (Bytes × Cst)) (r : Bytes) : Prop :=
  ∃ pre, bs = pre ++ r ∧ (∀ k ∈ bodiesM ms, Seg pre k)

theorem consV_lit (bs l r : Bytes) (h : bs = l ++ r) : ConsV bs (.lit l) r :=
  ⟨l, h, by intro k hk; simp [bodies] at hk, by intro e; cases e⟩

theorem consV_parseLit (w bs : Bytes) (c : Cst) (r : Bytes) (h : parseLit w bs = some (c, r)) :
    ConsV bs c r := by
  simp only [parseLit] at h
  split at h
  · rename_i hp
    simp only [Option.some.injEq, Prod.mk.injEq] at h
    obtain ⟨rfl, rfl⟩ := h
    exact consV_lit bs w _ (isPrefix_split w bs hp)
  · cases h

theorem text_all : ∀ (f : Nat),
    (∀ d bs c r, parseValue f d bs = some (c, r) → ConsV bs c r) ∧
    (∀ d bs xs r, parseElems f d bs = some (xs, r) → ConsE bs xs r) ∧
    (∀ d bs ms r, parseMembers f d bs = some (ms, r) → ConsM bs ms r)
  | 0 => by
    refine ⟨?_, ?_, ?_⟩ <;> intro d bs c r h
    · simp [parseValue] at h
    · simp [parseElems] at h
    · simp [parseMembers] at h
  | f + 1 => by
    obtain ⟨ihv, ihe, ihm⟩ := text_all f
    refine ⟨?_, ?_, ?_⟩
    · intro d bs c r h
      cases bs with
      | nil => simp [parseValue] at h
      | cons b cs =>
        simp only [parseValue] at h
        by_cases h1 : b = 123
        · subst h1
          simp only [if_true] at h
          split at h
          · cases h
          · obtain ⟨ws, hws, _⟩ := skipWs_split cs
            split at h
            · rename_i r0 hs
              simp only [Option.some.injEq, Prod.mk.injEq] at h
              obtain ⟨rfl, rfl⟩ := h
              refine ⟨123 :: ws ++ [125], ?_, by intro k hk; simp [bodies, bodiesM] at hk, by intro e; cases e⟩
              rw [hs] at hws; rw [hws]; simp
            · obtain ⟨ms, hm, rfl⟩ := map_some_obj' (f := Cst.obj) h
              obtain ⟨pre, e, hb⟩ := ihm _ _ ms r hm
              refine ⟨123 :: ws ++ pre, ?_, ?_, by intro e; cases e⟩
              · rw [e] at hws; rw [hws]; simp
              · intro k hk
                simp only [bodies] at hk
                exact (hb k hk).left (123 :: ws)
        · rw [if_neg h1] at h
          by_cases h2 : b = 91
          · subst h2
            simp only [if_true] at h
            split at h
            · cases h
            · obtain ⟨ws, hws, _⟩ := skipWs_split cs
              split at h
              · rename_i r0 hs
                simp only [Option.some.injEq, Prod.mk.injEq] at h
                obtain ⟨rfl, rfl⟩ := h
                refine ⟨91 :: ws ++ [93], ?_, by intro k hk; simp [bodies, bodiesL] at hk,
                  fun _ => ⟨91 :: ws, rfl⟩⟩
                rw [hs] at hws; rw [hws]; simp
              · obtain ⟨xs, hm, rfl⟩ := map_some_obj' (f := Cst.arr) h
                obtain ⟨pre, e, hb, p, hp⟩ := ihe _ _ xs r hm
                refine ⟨91 :: ws ++ pre, ?_, ?_, fun _ => ⟨91 :: ws ++ p, by rw [hp]; simp⟩⟩
                · rw [e] at hws; rw [hws]; simp
                · intro k hk
                  simp only [bodies] at hk
                  exact (hb k hk).left (91 :: ws)
          · rw [if_neg h2] at h
            by_cases h3 : b = 34
            · subst h3
              simp only [if_true] at h
              obtain ⟨s, hm, rfl⟩ := map_some_obj' (f := Cst.str) h
              have hsplit := (parseStrBody_split cs s r hm).1
              refine ⟨34 :: (s ++ [34]), by rw [hsplit]; simp, ?_, by intro e; cases e⟩
              intro k hk
              simp only [bodies, List.mem_singleton] at hk
              subst hk
              exact ⟨[], [], by simp⟩
            · rw [if_neg h3] at h
              by_cases h4 : b = 116
              · subst h4; simp only [if_true] at h; exact consV_parseLit _ _ _ _ h
              · rw [if_neg h4] at h
                by_cases h5 : b = 102
                · subst h5; simp only [if_true] at h; exact consV_parseLit _ _ _ _ h
                · rw [if_neg h5] at h
                  by_cases h6 : b = 110
                  · subst h6; simp only [if_true] at h; exact consV_parseLit _ _ _ _ h
                  · rw [if_neg h6] at h
                    obtain ⟨l, hm, rfl⟩ := map_some_obj' (f := Cst.lit) h
                    exact consV_lit _ l r (parseNumber_cut _ _ _ hm).1
    · intro d bs xs r h
      rw [parseElems] at h
      cases hv : parseValue f d bs with
      | none => rw [hv] at h; simp at h
      | some q =>
        obtain ⟨x, r1⟩ := q
        rw [hv] at h
        obtain ⟨p1, e1, hb1, _⟩ := ihv d bs x r1 hv
        obtain ⟨ws, hws, _⟩ := skipWs_split r1
        simp only at h
        split at h
        · rename_i r' hs
          simp only [Option.some.injEq, Prod.mk.injEq] at h
          obtain ⟨rfl, rfl⟩ := h
          refine ⟨p1 ++ ws ++ [93], ?_, ?_, ⟨p1 ++ ws, rfl⟩⟩
          · rw [hs] at hws; rw [e1, hws]; simp
          · intro k hk
            simp only [bodiesL, List.append_nil] at hk
            have := (hb1 k hk).right (ws ++ [93])
            simpa using this
        · rename_i r' hs
          obtain ⟨xs', hm, rfl⟩ := map_some_obj' (f := fun t => x :: t) h
          obtain ⟨ws', hws', _⟩ := skipWs_split r'
          obtain ⟨p2, e2, hb2, p, hp⟩ := ihe d _ xs' r hm
          refine ⟨p1 ++ ws ++ 44 :: ws' ++ p2, ?_, ?_, ⟨p1 ++ ws ++ 44 :: ws' ++ p, by rw [hp]; simp⟩⟩
          · rw [e2] at hws'; rw [hs, hws'] at hws; rw [e1, hws]; simp
          · intro k hk
            simp only [bodiesL, List.mem_append] at hk
            rcases hk with hk | hk
            · have := (hb1 k hk).right (ws ++ 44 :: ws' ++ p2)
              simpa using this
            · have := (hb2 k hk).left (p1 ++ ws ++ 44 :: ws')
              simpa using this
        · simp at h
    · intro d bs ms r h
      rw [parseMembers.eq_def] at h
      simp only at h
      split at h
      · rename_i cs
        cases hk : parseStrBody cs with
        | none => rw [hk] at h; simp at h
        | some q =>
          obtain ⟨k, r1⟩ := q
          rw [hk] at h
          have hsplit := (parseStrBody_split cs k r1 hk).1
          obtain ⟨ws1, hws1, _⟩ := skipWs_split r1
          simp only at h
          split at h
          · rename_i r2 hs
            obtain ⟨ws2, hws2, _⟩ := skipWs_split r2
            cases hv : parseValue f d (skipWs r2) with
            | none => rw [hv] at h; simp at h
            | some q =>
              obtain ⟨v, r3⟩ := q
              rw [hv] at h
              obtain ⟨pv, ev, hbv, _⟩ := ihv d _ v r3 hv
              obtain ⟨ws3, hws3, _⟩ := skipWs_split r3
              simp only at h
              -- the text up to and including the value
              have hpre : 34 :: cs = (34 :: (k ++ 34 :: (ws1 ++ 58 :: (ws2 ++ pv)))) ++ r3 := by
                rw [ev] at hws2; rw [hs, hws2] at hws1; rw [hsplit, hws1]; simp
              have hkseg : ∀ w, Seg ((34 :: (k ++ 34 :: (ws1 ++ 58 :: (ws2 ++ pv)))) ++ w) k :=
                fun w => ⟨[], ws1 ++ 58 :: (ws2 ++ pv) ++ w, by simp⟩
              have hvseg : ∀ q ∈ bodies v, ∀ w, Seg ((34 :: (k ++ 34 :: (ws1 ++ 58 :: (ws2 ++ pv)))) ++ w) q := by
                intro q hq w
                have := (hbv q hq).mono (34 :: (k ++ 34 :: (ws1 ++ 58 :: ws2))) w
                simpa using this
              split at h
              · rename_i r4 hs3
                simp only [Option.some.injEq, Prod.mk.injEq] at h
                obtain ⟨rfl, rfl⟩ := h
                refine ⟨(34 :: (k ++ 34 :: (ws1 ++ 58 :: (ws2 ++ pv)))) ++ (ws3 ++ [125]), ?_, ?_⟩
                · rw [hs3] at hws3; rw [hpre, hws3]; simp
                · intro q hq
                  simp only [bodiesM, List.append_nil, List.mem_cons] at hq
                  rcases hq with rfl | hq
                  · exact hkseg _
                  · exact hvseg q hq _
              · rename_i r4 hs3
                obtain ⟨ms', hm, rfl⟩ := map_some_obj' (f := fun t => (k, v) :: t) h
                obtain ⟨ws4, hws4, _⟩ := skipWs_split r4
                obtain ⟨pm, em, hbm⟩ := ihm d _ ms' r hm
                refine ⟨(34 :: (k ++ 34 :: (ws1 ++ 58 :: (ws2 ++ pv)))) ++ (ws3 ++ 44 :: ws4 ++ pm), ?_, ?_⟩
                · rw [em] at hws4; rw [hs3, hws4] at hws3; rw [hpre, hws3]; simp
                · intro q hq
                  simp only [bodiesM, List.mem_cons, List.mem_append] at hq
                  rcases hq with rfl | hq | hq
                  · exact hkseg _
                  · exact hvseg q hq _
                  · have := (hbm q hq).left ((34 :: (k ++ 34 :: (ws1 ++ 58 :: (ws2 ++ pv)))) ++ (ws3 ++ 44 :: ws4))
                    simpa using this
              · simp at h
          · simp at h
      · simp at h

/-- a well-formed text is white space, the consumed text of its root, white space -/
theorem parseCst_text (a : Bytes) (c : Cst) (h : parseCst a = some c) :
    ∃ ws pre r, a = ws ++ (pre ++ r) ∧ skipWs a = pre ++ r ∧ (∀ x ∈ ws, isWs x = true) ∧
      (∀ x ∈ r, isWs x = true) ∧ (∀ k ∈ bodies c, Seg pre k) ∧ (c.isArr = true → ∃ p, pre = p ++ [93]) := by
  unfold parseCst at h
  cases hv : parseValue (a.length + 1) 0 (skipWs a) with
  | none => rw [hv] at h; simp at h
  | some q =>
    obtain ⟨c', r⟩ := q
    rw [hv] at h
    simp only at h
    split at h
    · rename_i hr
      simp only [Option.some.injEq] at h
      subst h
      obtain ⟨pre, e, hb, ha⟩ := (text_all _).1 _ _ _ _ hv
      obtain ⟨ws, hws, hall⟩ := skipWs_split a
      refine ⟨ws, pre, r, by rw [← e]; exact hws, e, hall, ?_, hb, ha⟩
      exact skipWs_nil_all r (by simpa using hr)
    · cases h

/-! ### `resemblesJSONArray` on a well-formed array text -/

theorem trimRight_ws : ∀ (ws : Bytes) (f : Nat) (t : Bytes), ws.length < f → (∀ x ∈ ws, isWs x = true) →
    trimRightSpaceRev f (ws ++ 93 :: t) = 93 :: t
  | [], f, t, hf, _ => by
    cases f with
    | zero => simp at hf
    | succ f =>
      rw [List.nil_append, trimRightSpaceRev_cons]
      have : decodeLastRune (93 :: t) = (93, 1) := by simp [decodeLastRune]
      rw [this]
      rfl
  | c :: ws, f, t, hf, hall => by
    cases f with
    | zero => simp at hf
    | succ f =>
      have ⟨h1, h2⟩ := isWs_space c (hall c List.mem_cons_self)
      rw [List.cons_append, trimRightSpaceRev_cons]
      have : decodeLastRune (c :: (ws ++ 93 :: t)) = (c.toNat, 1) := by simp [decodeLastRune, h1]
      rw [this]
      simp only [h2, if_true, List.drop_succ_cons, List.drop_zero]
      exact trimRight_ws ws f t (by simp only [List.length_cons] at hf; omega)
        (fun x hx => hall x (List.mem_cons_of_mem _ hx))

/-- **a well-formed text whose root is an array resembles an array** -/
theorem resemblesJSONArray_true (a : Bytes) (c : Cst) (h : parseCst a = some c) (hc : c.isArr = true) :
    resemblesJSONArray a = true := by
  obtain ⟨ws, pre, r, _, hsk, _, hr, _, hend⟩ := parseCst_text a c h
  obtain ⟨p, hp⟩ := hend hc
  obtain ⟨b, t, hs, hb, hiff⟩ := parseCst_head a c h
  have hb91 : b = 91 := hiff.2 hc
  have hl : trimLeftSpace (a.length + 1) a = pre ++ r := by
    rw [trimLeftSpace_eq_skipWs a _ (by omega) (fun c' t' e => by
      rw [hs] at e; simp only [List.cons.injEq] at e; rw [← e.1]; exact hb), hsk]
  have htrim : trimSpace a = pre := by
    simp only [trimSpace]
    rw [hl, hp]
    have : (p ++ [93] ++ r).reverse = r.reverse ++ 93 :: p.reverse := by simp
    rw [this, trimRight_ws r.reverse _ p.reverse
      (by simp only [List.length_reverse, List.length_append, List.length_cons, List.length_nil]; omega)
      (fun x hx => hr x (List.mem_reverse.1 hx))]
    simp
  have hhead : pre.head? = some 91 := by
    have : (pre ++ r).head? = some 91 := by rw [← hsk, hs, hb91]; rfl
    rw [hp] at this ⊢
    cases p with
    | nil => simp at this
    | cons x p' => simpa using this
  simp only [resemblesJSONArray, htrim, hhead]
  rw [hp]
  simp

/-! ### escape-freeness and UTF-8 validity, from the text to the tree -/

theorem mem_of_seg {t k : Bytes} (h : Seg t k) : ∀ x ∈ k, x ∈ t := by
  obtain ⟨u, y, rfl⟩ := h
  intro x hx
  simp [hx]

mutual
theorem noEscapes_of_bodies : ∀ (c : Cst), (∀ k ∈ bodies c, ∀ x ∈ k, x ≠ 92) → NoEscapes c = true
  | .lit _, _ => rfl
  | .str b, h => by
    simp only [NoEscapes, Bool.not_eq_true']
    cases hc : b.contains 92 with
    | false => rfl
    | true =>
      have : (92 : UInt8) ∈ b := by simpa using hc
      exact absurd rfl (h b (by simp [bodies]) 92 this)
  | .arr xs, h => by
    simp only [NoEscapes]
    exact noEscapesL_of_bodies xs (by simpa only [bodies] using h)
  | .obj ms, h => by
    simp only [NoEscapes]
    exact noEscapesM_of_bodies ms (by simpa only [bodies] using h)
theorem noEscapesL_of_bodies : ∀ (xs : List Cst), (∀ k ∈ bodiesL xs, ∀ x ∈ k, x ≠ 92) → NoEscapesL xs = true
  | [], _ => rfl
  | x :: xs, h => by
    simp only [NoEscapesL, Bool.and_eq_true]
    refine ⟨noEscapes_of_bodies x fun k hk => h k ?_, noEscapesL_of_bodies xs fun k hk => h k ?_⟩
    · simp only [bodiesL, List.mem_append]; exact Or.inl hk
    · simp only [bodiesL, List.mem_append]; exact Or.inr hk
theorem noEscapesM_of_bodies : ∀ (ms : List (Bytes × Cst)), (∀ k ∈ bodiesM ms, ∀ x ∈ k, x ≠ 92) →
    NoEscapesM ms = true
  | [], _ => rfl
  | (k, v) :: ms, h => by
    simp only [NoEscapesM, Bool.and_eq_true, Bool.not_eq_true']
    refine ⟨⟨?_, noEscapes_of_bodies v fun q hq => h q ?_⟩, noEscapesM_of_bodies ms fun q hq => h q ?_⟩
    · cases hc : k.contains 92 with
      | false => rfl
      | true =>
        have : (92 : UInt8) ∈ k := by simpa using hc
        exact absurd rfl (h k (by simp [bodiesM]) 92 this)
    · simp only [bodiesM, List.mem_cons, List.mem_append]; exact Or.inr (Or.inl hq)
    · simp only [bodiesM, List.mem_cons, List.mem_append]; exact Or.inr (Or.inr hq)
end

mutual
theorem cstUtf8_of_bodies : ∀ (c : Cst), (∀ k ∈ bodies c, isValidUtf8 k = true) → CstUtf8 c = true
  | .lit _, _ => rfl
  | .str b, h => by simp only [CstUtf8]; exact h b (by simp [bodies])
  | .arr xs, h => by
    simp only [CstUtf8]
    exact cstUtf8L_of_bodies xs (by simpa only [bodies] using h)
  | .obj ms, h => by
    simp only [CstUtf8]
    exact cstUtf8M_of_bodies ms (by simpa only [bodies] using h)
theorem cstUtf8L_of_bodies : ∀ (xs : List Cst), (∀ k ∈ bodiesL xs, isValidUtf8 k = true) → CstUtf8L xs = true
  | [], _ => rfl
  | x :: xs, h => by
    simp only [CstUtf8L, Bool.and_eq_true]
    refine ⟨cstUtf8_of_bodies x fun k hk => h k ?_, cstUtf8L_of_bodies xs fun k hk => h k ?_⟩
    · simp only [bodiesL, List.mem_append]; exact Or.inl hk
    · simp only [bodiesL, List.mem_append]; exact Or.inr hk
theorem cstUtf8M_of_bodies : ∀ (ms : List (Bytes × Cst)), (∀ k ∈ bodiesM ms, isValidUtf8 k = true) →
    CstUtf8M ms = true
  | [], _ => rfl
  | (k, v) :: ms, h => by
    simp only [CstUtf8M, Bool.and_eq_true]
    refine ⟨⟨h k (by simp [bodiesM]), cstUtf8_of_bodies v fun q hq => h q ?_⟩,
      cstUtf8M_of_bodies ms fun q hq => h q ?_⟩
    · simp only [bodiesM, List.mem_cons, List.mem_append]; exact Or.inr (Or.inl hq)
    · simp only [bodiesM, List.mem_cons, List.mem_append]; exact Or.inr (Or.inr hq)
end

/-- a valid rune in front of `k ++ c :: y` (`c` ASCII, `k` non-empty) lies inside `k` -/
theorem decodeRune_before_ascii (b : UInt8) (rest : Bytes) (c : UInt8) (y : Bytes) (hc : c.toNat < 128)
    (hok : runeOk (b :: (rest ++ c :: y))) :
    decodeRune (b :: rest) = decodeRune (b :: (rest ++ c :: y)) ∧
      (decodeRune (b :: (rest ++ c :: y))).2 ≤ (b :: rest).length := by
  rcases decodeRune_cases b (rest ++ c :: y) with ⟨h1, hd⟩ | ⟨h1, hd⟩ | ⟨b1, t, e, h1, h2, c1, c2, hd⟩ |
      ⟨b1, b2, t, e, h1, h2, c1, c2, c3, c4, d1, d2, hd⟩ |
      ⟨b1, b2, b3, t, e, h1, h2, c1, c2, c3, c4, d1, d2, f1, f2, hd⟩
  · rw [hd, decodeRune_one b rest h1]
    exact ⟨rfl, by simp⟩
  · exact absurd ⟨by rw [hd], by rw [hd]⟩ hok
  · cases rest with
    | nil => simp only [List.nil_append, List.cons.injEq] at e; rw [e.1] at hc; omega
    | cons x rest' =>
      simp only [List.cons_append, List.cons.injEq] at e
      rw [e.1]
      simp only [List.cons_append, hd]
      exact ⟨trivial, by simp⟩
  · rcases rest with _ | ⟨x1, _ | ⟨x2, rest'⟩⟩
    · simp only [List.nil_append, List.cons.injEq] at e; rw [e.1] at hc; omega
    · simp only [List.cons_append, List.nil_append, List.cons.injEq] at e; rw [e.2.1] at hc; omega
    · simp only [List.cons_append, List.cons.injEq] at e
      rw [e.1, e.2.1]
      simp only [List.cons_append, hd]
      exact ⟨trivial, by simp⟩
  · rcases rest with _ | ⟨x1, _ | ⟨x2, _ | ⟨x3, rest'⟩⟩⟩
    · simp only [List.nil_append, List.cons.injEq] at e; rw [e.1] at hc; omega
    · simp only [List.cons_append, List.nil_append, List.cons.injEq] at e; rw [e.2.1] at hc; omega
    · simp only [List.cons_append, List.nil_append, List.cons.injEq] at e; rw [e.2.2.1] at hc; omega
    · simp only [List.cons_append, List.cons.injEq] at e
      rw [e.1, e.2.1, e.2.2.1]
      simp only [List.cons_append, hd]
      exact ⟨trivial, by simp⟩

/-- an ASCII byte splits a valid UTF-8 string into two valid ones -/
theorem isValidUtf8_split_ascii : ∀ (n : Nat) (k : Bytes) (c : UInt8) (y : Bytes), k.length ≤ n →
    c.toNat < 128 → isValidUtf8 (k ++ c :: y) = true → isValidUtf8 k = true ∧ isValidUtf8 y = true
  | _, [], c, y, _, hc, h => by
    rw [List.nil_append, isValidUtf8_ascii_cons c y hc] at h
    exact ⟨rfl, h⟩
  | 0, _ :: _, _, _, hn, _, _ => by simp at hn
  | n + 1, b :: rest, c, y, hn, hc, h => by
    rw [List.cons_append, isValidUtf8_cons] at h
    split at h
    · cases h
    · rename_i hok
      obtain ⟨e1, e2⟩ := decodeRune_before_ascii b rest c y hc hok
      have hsz := decodeRune_size_pos b (rest ++ c :: y)
      have hdrop : (b :: (rest ++ c :: y)).drop (decodeRune (b :: (rest ++ c :: y))).2 =
          (b :: rest).drop (decodeRune (b :: (rest ++ c :: y))).2 ++ c :: y := by
        show List.drop _ ((b :: rest) ++ c :: y) = _
        exact List.drop_append_of_le_length e2
      rw [hdrop] at h
      have ih := isValidUtf8_split_ascii n _ c y
        (by simp only [List.length_drop, List.length_cons] at hn ⊢; omega) hc h
      refine ⟨?_, ih.2⟩
      rw [isValidUtf8_cons, e1, if_neg hok]
      exact ih.1

theorem isValidUtf8_of_seg {t k : Bytes} (h : Seg t k) (ht : isValidUtf8 t = true) : isValidUtf8 k = true := by
  obtain ⟨x, y, rfl⟩ := h
  have h1 := (isValidUtf8_split_ascii x.length x 34 (k ++ 34 :: y) (Nat.le_refl _) (by decide) ht).2
  exact (isValidUtf8_split_ascii k.length k 34 y (Nat.le_refl _) (by decide) h1).1

/-- a well-formed text that contains no backslash byte has a tree without escapes -/
theorem noEscapes_of_text (a : Bytes) (c : Cst) (h : parseCst a = some c) (hne : ∀ x ∈ a, x ≠ 92) :
    NoEscapes c = true := by
  obtain ⟨ws, pre, r, e, _, _, _, hb, _⟩ := parseCst_text a c h
  apply noEscapes_of_bodies
  intro k hk x hx
  apply hne
  rw [e]
  have := mem_of_seg (hb k hk) x hx
  simp [this]

/-- a well-formed valid UTF-8 text has a tree whose bodies are valid UTF-8 -/
theorem cstUtf8_of_text (a : Bytes) (c : Cst) (h : parseCst a = some c) (hu : isValidUtf8 a = true) :
    CstUtf8 c = true := by
  obtain ⟨ws, pre, r, e, _, _, _, hb, _⟩ := parseCst_text a c h
  apply cstUtf8_of_bodies
  intro k hk
  have hseg : Seg a k := by
    rw [e]
    have := (hb k hk).mono ws r
    simpa using this
  exact isValidUtf8_of_seg hseg hu

end Legacy
end JP
