import JP.Lemmas.CloseMergeCreate
import JP.Lemmas.ScanSim

/-!
# The top of `CreateMergePatch` on texts: equations by the shape of the two roots
-/

namespace JP
namespace Impl
open Value

theorem valid_of_parseCst (bs : Bytes) (c : Cst) (h : parseCst bs = some c) : Scanner.valid bs = true := by
  rw [Scanner.valid_iff_parseCst, h]; rfl

theorem valid_false_of_parseCst (bs : Bytes) (h : parseCst bs = none) : Scanner.valid bs = false := by
  rw [Scanner.valid_iff_parseCst, h]; rfl

/-- an ill-formed operand -/
theorem createMergePatch_malformed (a b : Bytes) (h : parseCst a = none ∨ parseCst b = none) :
    createMergePatch a b = .err .badDoc := by
  unfold createMergePatch
  rcases h with h | h
  · simp [valid_false_of_parseCst a h]
  · simp [valid_false_of_parseCst b h]

/-- neither root is an array -/
theorem createMergePatch_nonarr (a b : Bytes) (ca cb : Cst)
    (ha : parseCst a = some ca) (hb : parseCst b = some cb)
    (na : ca.isArr = false) (nb : cb.isArr = false) :
    createMergePatch a b =
      match createObject ca cb with
      | .ok v => .ok (Cst.print (marshalAny v))
      | .err e => .err e
      | .panic => .panic := by
  unfold createMergePatch
  simp only [valid_of_parseCst a ca ha, valid_of_parseCst b cb hb, ha, hb, Bool.not_true, Bool.or_self,
    Bool.false_eq_true, if_false]
  cases ca <;> cases cb <;> simp [Cst.isArr] at na nb ⊢ <;>
    (generalize createObject _ _ = o; cases o <;> rfl)

/-- both roots are arrays -/
theorem createMergePatch_arr (a b : Bytes) (xs ys : List Cst)
    (ha : parseCst a = some (.arr xs)) (hb : parseCst b = some (.arr ys)) :
    createMergePatch a b =
      if xs.length ≠ ys.length then .err .badDoc
      else match createArray xs ys with
        | .ok vs => .ok (Cst.print (.arr (vs.map marshalAny)))
        | .err e => .err e
        | .panic => .panic := by
  unfold createMergePatch
  simp only [valid_of_parseCst a _ ha, valid_of_parseCst b _ hb, ha, hb, Bool.not_true, Bool.or_self,
    Bool.false_eq_true, if_false]
  split
  · rfl
  · generalize createArray _ _ = o; cases o <;> rfl

/-- exactly one root is an array -/
theorem createMergePatch_mixed (a b : Bytes) (ca cb : Cst)
    (ha : parseCst a = some ca) (hb : parseCst b = some cb) (h : ca.isArr ≠ cb.isArr) :
    createMergePatch a b = .err .badMergeTypes := by
  unfold createMergePatch
  simp only [valid_of_parseCst a ca ha, valid_of_parseCst b cb hb, ha, hb, Bool.not_true, Bool.or_self,
    Bool.false_eq_true, if_false]
  cases ca <;> cases cb <;> simp [Cst.isArr] at h ⊢

/-! ### which roots `createObject` accepts -/

/-- a root `CreateMergePatch` can read as a map: an object (the text `null` decodes to a nil
map and is rejected like every other non-object) -/
def okRoot (c : Cst) : Bool := c.isObj

theorem rootM_isSome_iff (c : Cst) : (rootM c.valueOf).isSome = okRoot c := by
  cases c with
  | lit l =>
    simp only [Cst.valueOf, okRoot, Cst.isObj]
    have h := (litValue_not_container l).2.2
    cases hv : Cst.litValue l with
    | obj ms => exact absurd hv (h ms)
    | _ => rfl
  | str b => rfl
  | arr xs => rfl
  | obj ms => rfl

theorem createObject_ok_iff (a b : Cst) :
    (∃ v, createObject a b = .ok v) ↔ okRoot a = true ∧ okRoot b = true := by
  rw [createObject_eq, ← rootM_isSome_iff, ← rootM_isSome_iff]
  cases rootM a.valueOf <;> cases rootM b.valueOf <;> simp

theorem createObject_err (a b : Cst) : (∃ v, createObject a b = .ok v) ∨ createObject a b = .err .badDoc := by
  rw [createObject_eq]
  cases rootM a.valueOf <;> cases rootM b.valueOf <;> simp

theorem createArray_err : ∀ (xs ys : List Cst),
    (∃ vs, createArray xs ys = .ok vs) ∨ createArray xs ys = .err .badDoc
  | [], [] => Or.inl ⟨[], rfl⟩
  | [], _ :: _ => Or.inr (by simp [createArray])
  | _ :: _, [] => Or.inr (by simp [createArray])
  | x :: xs, y :: ys => by
    simp only [createArray]
    rcases createObject_err x y with ⟨v, hv⟩ | he
    · rw [hv]
      rcases createArray_err xs ys with ⟨vs, hvs⟩ | he
      · rw [hvs]; exact Or.inl ⟨_, rfl⟩
      · rw [he]; exact Or.inr rfl
    · rw [he]; exact Or.inr rfl

theorem createArray_ok_iff : ∀ (xs ys : List Cst), xs.length = ys.length →
    ((∃ vs, createArray xs ys = .ok vs) ↔ (∀ x ∈ xs, okRoot x = true) ∧ (∀ y ∈ ys, okRoot y = true))
  | [], [], _ => by simp [createArray]
  | [], _ :: _, h => by simp at h
  | _ :: _, [], h => by simp at h
  | x :: xs, y :: ys, h => by
    have ih := createArray_ok_iff xs ys (by simpa using h)
    have ho := createObject_ok_iff x y
    simp only [createArray, List.mem_cons, forall_eq_or_imp]
    constructor
    · intro ⟨vs, hvs⟩
      cases hc : createObject x y with
      | err e => rw [hc] at hvs; simp at hvs
      | panic => rw [hc] at hvs; simp at hvs
      | ok v =>
        rw [hc] at hvs
        cases hr : createArray xs ys with
        | err e => rw [hr] at hvs; simp at hvs
        | panic => rw [hr] at hvs; simp at hvs
        | ok vs' =>
          have h1 := ho.1 ⟨v, hc⟩
          have h2 := ih.1 ⟨vs', hr⟩
          exact ⟨⟨h1.1, h2.1⟩, h1.2, h2.2⟩
    · intro ⟨⟨a1, a2⟩, b1, b2⟩
      obtain ⟨v, hv⟩ := ho.2 ⟨a1, b1⟩
      obtain ⟨vs, hvs⟩ := ih.2 ⟨a2, b2⟩
      rw [hv, hvs]
      exact ⟨_, rfl⟩

/-! ### arrays of objects: the element-wise diffs -/

theorem length_valueOfL : ∀ (xs : List Cst), (Cst.valueOfL xs).length = xs.length
  | [] => rfl
  | x :: xs => by simp [Cst.valueOfL, length_valueOfL xs]

theorem createArray_objs : ∀ (xs ys : List Cst) (As Bs : List Members),
    Cst.valueOfL xs = As.map Value.obj → Cst.valueOfL ys = Bs.map Value.obj → As.length = Bs.length →
    createArray xs ys =
      .ok (List.zipWith (fun A B => Value.obj (getDiff (anyOfM A []) (anyOfM B []))) As Bs)
  | [], [], [], [], _, _, _ => rfl
  | [], _, _ :: _, _, h, _, _ => by simp [Cst.valueOfL] at h
  | _ :: _, _, [], _, h, _, _ => by simp [Cst.valueOfL] at h
  | _, [], _, _ :: _, _, h, _ => by simp [Cst.valueOfL] at h
  | _, _ :: _, _, [], _, h, _ => by simp [Cst.valueOfL] at h
  | x :: xs, y :: ys, A :: As, B :: Bs, hx, hy, hl => by
    simp only [Cst.valueOfL, List.map_cons, List.cons.injEq] at hx hy
    have ih := createArray_objs xs ys As Bs hx.2 hy.2 (by simpa using hl)
    simp only [createArray, createObject_eq, hx.1, hy.1, rootM, ih, List.zipWith_cons_cons]

end Impl
end JP
