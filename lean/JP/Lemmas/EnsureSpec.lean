import JP.Props.C05spec
import JP.Lemmas.EnsureRefine

/-!
# EnsurePathExistsOnAdd, part 7: laws of the specification function `Spec.ensureAdd`
-/

namespace JP
namespace Ens

open Impl
open Spec (Res)

/-! ### afterwards the value is found at the path -/

/-- pointer lookup in which a final `-` addresses the last element of an array (the element an
`add` at `-` has just appended); otherwise `Spec.resolve` -/
def resolveAdded (o : Spec.Opts) : Value → List Bytes → Option Value
  | _, [] => none
  | c, [t] =>
    match c with
    | .arr xs => if t = [45] then xs.getLast? else Spec.child o.neg (.arr xs) t
    | c => Spec.child o.neg c t
  | c, t :: t2 :: ts => (Spec.child o.neg c t).bind fun ch => resolveAdded o ch (t2 :: ts)

theorem resolveAdded_cons2 (o : Spec.Opts) (c : Value) (t t2 : Bytes) (ts : List Bytes) :
    resolveAdded o c (t :: t2 :: ts) = (Spec.child o.neg c t).bind fun ch => resolveAdded o ch (t2 :: ts) := by
  rw [resolveAdded]

/-- apart from a final `-`, `resolveAdded` is the ordinary pointer lookup -/
theorem resolveAdded_eq_resolve (o : Spec.Opts) : ∀ (toks : List Bytes) (c : Value), toks ≠ [] →
    toks.getLast? ≠ some [45] → resolveAdded o c toks = Spec.resolve o.neg c toks
  | [], _, h, _ => absurd rfl h
  | [t], c, _, hd => by
    have ht : t ≠ [45] := fun h => hd (by simp [h])
    cases c <;> simp [resolveAdded, ht, Spec.resolve] <;> cases Spec.child o.neg _ t <;> rfl
  | t :: t2 :: ts, c, _, hd => by
    rw [resolveAdded_cons2, Spec.resolve_cons]
    cases Spec.child o.neg c t with
    | none => rfl
    | some ch =>
      simp only [Option.bind_some]
      exact resolveAdded_eq_resolve o (t2 :: ts) ch (by simp) (by simpa using hd)

theorem addIn_found (o : Spec.Opts) (v c c' : Value) (t : Bytes) (u : Unit)
    (h : Spec.addIn o v c t = .ok (c', u)) : resolveAdded o c' [t] = some v := by
  cases c with
  | obj ms =>
    simp only [Spec.addIn, Res.ok.injEq, Prod.mk.injEq] at h
    obtain ⟨rfl, _⟩ := h
    simp only [resolveAdded, Spec.child, Impl.lookup_set_self]
  | arr xs =>
    simp only [Spec.addIn] at h
    cases hs : Spec.slotIdx o.neg xs.length t with
    | unspec => rw [hs] at h; cases h
    | bad => rw [hs] at h; cases h
    | «at» i =>
      rw [hs] at h
      simp only [Res.ok.injEq, Prod.mk.injEq] at h
      obtain ⟨rfl, _⟩ := h
      by_cases hd : t = [45]
      · subst hd
        simp only [Spec.slotIdx, classify_dash, Spec.Idx.at.injEq] at hs
        subst hs
        simp [resolveAdded, insertAt_length_eq_append]
      · obtain ⟨hr, hi⟩ := slot_then_read hs hd
        simp only [resolveAdded, hd, if_false, Spec.child, insertAt_length, hr,
          insertAt_getElem? i v xs hi]
  | null => simp [Spec.addIn] at h
  | bool b => simp [Spec.addIn] at h
  | num l => simp [Spec.addIn] at h
  | str s => simp [Spec.addIn] at h

/-- **afterwards the added value is found at the given path** (`-` read as the last index) -/
theorem found_at_path (o : Spec.Opts) (v : Value) : ∀ (toks : List Bytes) (c c' : Value),
    Spec.ensureAdd o v c toks = .ok c' → resolveAdded o c' toks = some v
  | [], c, c', h => by rw [ensureAdd_nil] at h; cases h
  | [t], c, c', h => by
    rw [ensureAdd_single] at h
    cases ha : Spec.addIn o v c t with
    | unspec => rw [ha] at h; cases h
    | fail z => rw [ha] at h; cases h
    | ok ca =>
      obtain ⟨c1, u⟩ := ca
      rw [ha] at h
      simp only [Res.bind, Res.ok.injEq] at h
      subst h
      exact addIn_found o v c c1 t u ha
  | t :: t2 :: ts, c, c', h => by
    rw [resolveAdded_cons2]
    cases c with
    | obj ms =>
      rw [ensureAdd_obj_cons] at h
      cases hl : Value.lookup t ms with
      | some child =>
        rw [hl] at h
        simp only at h
        by_cases hc : child.isContainer = true
        · rw [if_pos hc] at h
          cases hr : Spec.ensureAdd o v child (t2 :: ts) with
          | unspec => rw [hr] at h; cases h
          | fail z => rw [hr] at h; cases h
          | ok c2 =>
            rw [hr] at h
            simp only [Res.bind, Res.ok.injEq] at h
            subst h
            simp only [Spec.child, Impl.lookup_set_self, Option.bind_some]
            exact found_at_path o v (t2 :: ts) child c2 hr
        · rw [if_neg hc] at h; cases h
      | none =>
        rw [hl] at h
        simp only at h
        cases hf : Spec.freshFor t2 with
        | unspec => rw [hf] at h; cases h
        | fail z => rw [hf] at h; cases h
        | ok fresh =>
          rw [hf] at h
          simp only [Res.bind] at h
          cases hr : Spec.ensureAdd o v fresh (t2 :: ts) with
          | unspec => rw [hr] at h; cases h
          | fail z => rw [hr] at h; cases h
          | ok c2 =>
            rw [hr] at h
            simp only [Res.ok.injEq] at h
            subst h
            rw [← set_of_lookup_none _ _ _ hl]
            simp only [Spec.child, Impl.lookup_set_self, Option.bind_some]
            exact found_at_path o v (t2 :: ts) fresh c2 hr
    | arr xs =>
      rw [ensureAdd_arr_cons] at h
      cases hcl : Spec.classify t with
      | int i =>
        rw [hcl] at h
        simp only at h
        by_cases h0 : i < 0
        · rw [if_pos h0] at h; cases h
        · rw [if_neg h0] at h
          by_cases hmax : i.toNat > Spec.ensureMaxIndex
          · rw [if_pos hmax] at h; cases h
          · rw [if_neg hmax] at h
            cases hx : xs[i.toNat]? with
            | some child =>
              have hlt : i.toNat < xs.length := by
                rcases Nat.lt_or_ge i.toNat xs.length with h' | h'
                · exact h'
                · rw [List.getElem?_eq_none h'] at hx; cases hx
              rw [hx] at h
              simp only at h
              by_cases hc : child.isContainer = true
              · rw [if_pos hc] at h
                cases hr : Spec.ensureAdd o v child (t2 :: ts) with
                | unspec => rw [hr] at h; cases h
                | fail z => rw [hr] at h; cases h
                | ok c2 =>
                  rw [hr] at h
                  simp only [Res.bind, Res.ok.injEq] at h
                  subst h
                  have hr1 : Spec.readIdx o.neg (Spec.setAt i.toNat c2 xs).length t = .at i.toNat :=
                    readIdx_int hcl h0 (by rw [setAt_length]; exact hlt)
                  simp only [Spec.child, hr1, setAt_getElem? _ _ _ hlt, Option.bind_some]
                  exact found_at_path o v (t2 :: ts) child c2 hr
              · rw [if_neg hc] at h; cases h
            | none =>
              have hge : xs.length ≤ i.toNat := List.getElem?_eq_none_iff.1 hx
              rw [hx] at h
              simp only at h
              cases hf : Spec.freshFor t2 with
              | unspec => rw [hf] at h; cases h
              | fail z => rw [hf] at h; cases h
              | ok fresh =>
                rw [hf] at h
                simp only [Res.bind] at h
                cases hr : Spec.ensureAdd o v fresh (t2 :: ts) with
                | unspec => rw [hr] at h; cases h
                | fail z => rw [hr] at h; cases h
                | ok c2 =>
                  rw [hr] at h
                  simp only [Res.ok.injEq] at h
                  subst h
                  have hk : (xs ++ List.replicate (i.toNat - xs.length) Value.null).length = i.toNat := by
                    rw [List.length_append, List.length_replicate]; omega
                  have hr1 : Spec.readIdx o.neg
                      (xs ++ List.replicate (i.toNat - xs.length) Value.null ++ [c2]).length t = .at i.toNat :=
                    readIdx_int hcl h0 (by rw [List.length_append, hk]; simp)
                  simp only [Spec.child, hr1, getElem?_append_last _ _ _ hk, Option.bind_some]
                  exact found_at_path o v (t2 :: ts) fresh c2 hr
      | noncanon => rw [hcl] at h; cases h
      | dash => rw [hcl] at h; cases h
      | name => rw [hcl] at h; cases h
    | null => simp [Spec.ensureAdd] at h
    | bool b => simp [Spec.ensureAdd] at h
    | num l => simp [Spec.ensureAdd] at h
    | str s => simp [Spec.ensureAdd] at h


/-! ### an add that succeeds without the option gives the same result with it -/

theorem agrees_with_plain_add (o : Spec.Opts) (v : Value) : ∀ (toks : List Bytes) (c c' : Value), toks ≠ [] →
    Spec.atParent o (Spec.addIn o v) c toks = .ok (c', ()) →
    Spec.ensureAdd o v c toks = .ok c' ∨ Spec.ensureAdd o v c toks = .unspec
  | [], _, _, h, _ => absurd rfl h
  | [t], c, c', _, h => by
    have hc := Spec.isContainer_of_atParent h
    rw [atParent_single _ _ _ _ hc] at h
    rw [ensureAdd_single, h]
    exact Or.inl rfl
  | t :: t2 :: ts, c, c', _, h => by
    cases c with
    | obj ms =>
      obtain ⟨child, c2, hl, hrec, rfl⟩ := Spec.atParent_obj_cons_ok h
      rw [ensureAdd_obj_cons, hl]
      simp only
      by_cases hc : child.isContainer = true
      · rw [if_pos hc]
        rcases agrees_with_plain_add o v (t2 :: ts) child c2 (by simp) hrec with h1 | h1
        · rw [h1]; exact Or.inl rfl
        · rw [h1]; exact Or.inr rfl
      · rw [if_neg hc]; exact Or.inr rfl
    | arr xs =>
      obtain ⟨i, child, c2, hr, hx, hrec, rfl⟩ := Spec.atParent_arr_cons_ok h
      rw [ensureAdd_arr_cons]
      cases hcl : Spec.classify t with
      | int j =>
        simp only
        by_cases h0 : j < 0
        · rw [if_pos h0]; exact Or.inr rfl
        · rw [if_neg h0]
          by_cases hmax : j.toNat > Spec.ensureMaxIndex
          · rw [if_pos hmax]; exact Or.inr rfl
          · rw [if_neg hmax]
            have hri := Spec.readIdx_of_int (neg := o.neg) (n := xs.length) hcl h0
            rw [hr] at hri
            by_cases hlt : j.toNat < xs.length
            · rw [if_pos hlt] at hri
              simp only [Spec.Idx.at.injEq] at hri
              subst hri
              rw [hx]
              simp only
              by_cases hc : child.isContainer = true
              · rw [if_pos hc]
                rcases agrees_with_plain_add o v (t2 :: ts) child c2 (by simp) hrec with h1 | h1
                · rw [h1]; exact Or.inl rfl
                · rw [h1]; exact Or.inr rfl
              · rw [if_neg hc]; exact Or.inr rfl
            · rw [if_neg hlt] at hri; cases hri
      | noncanon => exact Or.inr rfl
      | dash => exact Or.inr rfl
      | name => exact Or.inr rfl
    | null => simp [Spec.atParent] at h
    | bool b => simp [Spec.atParent] at h
    | num l => simp [Spec.atParent] at h
    | str s => simp [Spec.atParent] at h

/-! ### created containers hold nothing but the path and the padding -/

/-- the structure created below a missing parent for the remaining tokens: per token one
container that holds a single member, or nulls followed by a single element; `none` outside the
domain of the option -/
def chain (v : Value) : List Bytes → Option Value
  | [] => some v
  | t :: ts =>
    match chain v ts with
    | none => none
    | some inner =>
      match Spec.classify t with
      | .dash => if ts = [] then some (.arr [inner]) else none
      | .int i => if i < 0 then none else some (.arr (List.replicate i.toNat .null ++ [inner]))
      | .name => some (.obj [(t, inner)])
      | .noncanon => none

/-- what `ensureAdd` builds inside a container it has just created -/
theorem fresh_chain (o : Spec.Opts) (v : Value) : ∀ (ts : List Bytes) (t : Bytes) (fresh inner : Value),
    Spec.freshFor t = .ok fresh → Spec.ensureAdd o v fresh (t :: ts) = .ok inner →
    chain v (t :: ts) = some inner
  | [], t, fresh, inner, hf, h => by
    rw [ensureAdd_single] at h
    simp only [Spec.freshFor] at hf
    simp only [chain]
    cases hcl : Spec.classify t with
    | dash =>
      rw [hcl] at hf
      simp only [Res.ok.injEq] at hf
      subst hf
      have ht : t = [45] := by
        by_cases ht : t = [45]
        · exact ht
        · exact absurd hcl (classify_ne_dash ht)
      subst ht
      simp only [Spec.addIn, Spec.slotIdx, classify_dash, List.length_nil, Res.bind, Res.ok.injEq] at h
      subst h
      simp [Spec.insertAt]
    | int i =>
      rw [hcl] at hf
      simp only at hf
      by_cases h0 : i < 0
      · rw [if_pos h0] at hf; cases hf
      · rw [if_neg h0] at hf
        split at hf
        · cases hf
        · simp only [Res.ok.injEq] at hf
          subst hf
          have h0' : 0 ≤ i := by omega
          simp only [Spec.addIn, Spec.slotIdx, hcl, List.length_replicate, h0', if_true, Nat.le_refl,
            Res.bind, Res.ok.injEq] at h
          subst h
          simp only [h0, if_false]
          have := insertAt_length_eq_append v (List.replicate i.toNat Value.null)
          rw [List.length_replicate] at this
          rw [this]
    | name =>
      rw [hcl] at hf
      simp only [Res.ok.injEq] at hf
      subst hf
      simp only [Spec.addIn, Value.set, Res.bind, Res.ok.injEq] at h
      subst h
      rfl
    | noncanon => rw [hcl] at hf; cases hf
  | t2 :: ts, t, fresh, inner, hf, h => by
    simp only [Spec.freshFor] at hf
    rw [chain]
    cases hcl : Spec.classify t with
    | dash =>
      rw [hcl] at hf
      simp only [Res.ok.injEq] at hf
      subst hf
      rw [ensureAdd_arr_cons, hcl] at h
      cases h
    | int i =>
      rw [hcl] at hf
      simp only at hf
      by_cases h0 : i < 0
      · rw [if_pos h0] at hf; cases hf
      · rw [if_neg h0] at hf
        split at hf
        · cases hf
        · next hmax =>
          simp only [Res.ok.injEq] at hf
          subst hf
          rw [ensureAdd_arr_cons, hcl] at h
          simp only [h0, if_false, hmax] at h
          have hx : (List.replicate i.toNat Value.null)[i.toNat]? = none := by simp
          rw [hx] at h
          simp only at h
          cases hf2 : Spec.freshFor t2 with
          | unspec => rw [hf2] at h; cases h
          | fail z => rw [hf2] at h; cases h
          | ok fresh2 =>
            rw [hf2] at h
            simp only [Res.bind] at h
            cases hr : Spec.ensureAdd o v fresh2 (t2 :: ts) with
            | unspec => rw [hr] at h; cases h
            | fail z => rw [hr] at h; cases h
            | ok c2 =>
              rw [hr] at h
              simp only [Res.ok.injEq] at h
              subst h
              rw [fresh_chain o v ts t2 fresh2 c2 hf2 hr]
              simp [h0]
    | name =>
      rw [hcl] at hf
      simp only [Res.ok.injEq] at hf
      subst hf
      rw [ensureAdd_obj_cons] at h
      simp only [Value.lookup] at h
      cases hf2 : Spec.freshFor t2 with
      | unspec => rw [hf2] at h; cases h
      | fail z => rw [hf2] at h; cases h
      | ok fresh2 =>
        rw [hf2] at h
        simp only [Res.bind] at h
        cases hr : Spec.ensureAdd o v fresh2 (t2 :: ts) with
        | unspec => rw [hr] at h; cases h
        | fail z => rw [hr] at h; cases h
        | ok c2 =>
          rw [hr] at h
          simp only [Res.ok.injEq] at h
          subst h
          rw [fresh_chain o v ts t2 fresh2 c2 hf2 hr]
          simp
    | noncanon => rw [hcl] at hf; cases hf

/-- **created containers hold nothing but the path and the padding** (object parent): when the
member addressed by the first token is absent, the new member is appended and its value is
`chain v rest` -/
theorem only_path_and_padding_obj (o : Spec.Opts) (v : Value) (ms : Value.Members) (t t2 : Bytes)
    (ts : List Bytes) (c' : Value)
    (h : Spec.ensureAdd o v (.obj ms) (t :: t2 :: ts) = .ok c') (habs : Value.lookup t ms = none) :
    ∃ inner, chain v (t2 :: ts) = some inner ∧ c' = .obj (ms ++ [(t, inner)]) := by
  rw [ensureAdd_obj_cons, habs] at h
  simp only at h
  cases hf : Spec.freshFor t2 with
  | unspec => rw [hf] at h; cases h
  | fail z => rw [hf] at h; cases h
  | ok fresh =>
    rw [hf] at h
    simp only [Res.bind] at h
    cases hr : Spec.ensureAdd o v fresh (t2 :: ts) with
    | unspec => rw [hr] at h; cases h
    | fail z => rw [hr] at h; cases h
    | ok c2 =>
      rw [hr] at h
      simp only [Res.ok.injEq] at h
      exact ⟨c2, fresh_chain o v ts t2 fresh c2 hf hr, h.symm⟩

/-- **… and the padding** (array parent): when the element addressed by the first token is
absent, the array is padded with nulls up to that index and the new element's value is
`chain v rest` -/
theorem only_path_and_padding_arr (o : Spec.Opts) (v : Value) (xs : List Value) (t t2 : Bytes)
    (ts : List Bytes) (c' : Value) (i : Int)
    (h : Spec.ensureAdd o v (.arr xs) (t :: t2 :: ts) = .ok c') (hcl : Spec.classify t = .int i)
    (habs : xs[i.toNat]? = none) :
    ∃ inner, chain v (t2 :: ts) = some inner ∧
      c' = .arr (xs ++ List.replicate (i.toNat - xs.length) .null ++ [inner]) := by
  rw [ensureAdd_arr_cons, hcl] at h
  simp only at h
  by_cases h0 : i < 0
  · rw [if_pos h0] at h; cases h
  · rw [if_neg h0] at h
    by_cases hmax : i.toNat > Spec.ensureMaxIndex
    · rw [if_pos hmax] at h; cases h
    · rw [if_neg hmax, habs] at h
      simp only at h
      cases hf : Spec.freshFor t2 with
      | unspec => rw [hf] at h; cases h
      | fail z => rw [hf] at h; cases h
      | ok fresh =>
        rw [hf] at h
        simp only [Res.bind] at h
        cases hr : Spec.ensureAdd o v fresh (t2 :: ts) with
        | unspec => rw [hr] at h; cases h
        | fail z => rw [hr] at h; cases h
        | ok c2 =>
          rw [hr] at h
          simp only [Res.ok.injEq] at h
          exact ⟨c2, fresh_chain o v ts t2 fresh c2 hf hr, h.symm⟩

end Ens
end JP
