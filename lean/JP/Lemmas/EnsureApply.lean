import JP.Props.C01
import JP.Lemmas.EnsureOps

/-!
# EnsurePathExistsOnAdd, part 6: one operation and the operation list, whatever `o.ensure` is

(`C01.applyOp_refines` / `C01.applyOps_refines_inv` without the hypothesis `o.ensure = false`;
the proofs are those of `JP/Props/C01.lean` with the `add` case split on the option.)
-/

namespace JP
namespace Ens

open Impl

/-- one operation -/
theorem applyOp_refines (hEq : C01.EqSpec) (o : Impl.Opts) (hl : o.limit = 0)
    (r : Impl.Root) (hr : InvRoot o.esc r) (op : Impl.Op) (sop : Spec.Op)
    (hs : specOp op = some sop) (hop : C01.OpOK o.esc op) (sz acc : Nat) (acci : Int) :
    OpRef o.esc (Spec.applyOp (specOpts o) sz acc (den r.con) sop)
      (fstOut (Impl.applyOp o r acci op)) := by
  simp only [specOp] at hs
  cases hkind : specKind op.kind with
  | none => rw [hkind] at hs; cases hs
  | some k =>
    rw [hkind] at hs
    simp only [Option.some.injEq] at hs
    subst hs
    simp only [specKind] at hkind
    have hvalInv : ∀ c, op.value = some c → Inv o.esc (.raw c) :=
      fun c hc => (Inv_raw _ _).2 (hop.val c hc)
    by_cases h1 : op.kind = ascii "add"
    · simp only [h1, if_true, Option.some.injEq] at hkind
      subst hkind
      have happ : fstOut (Impl.applyOp o r acci op) = opAdd o r op := by
        simp only [Impl.applyOp]; rw [if_pos h1]; exact C01.fstOut_lift _ _
      rw [happ]
      cases hv : op.value with
      | none =>
        exact C01.novalue_refines (Or.inl rfl) (by simp) (fun hp => ⟨_, opAdd_path_none_any o r op hp⟩)
      | some c =>
        cases hens : o.ensure with
        | false => exact opAdd_refines sz acc hens hr rfl rfl hv (by simp) (hvalInv c hv) hop.toks
        | true => exact opAdd_ensure_refines sz acc hens hr rfl rfl hv (by simp) (hvalInv c hv) hop.toks
    · simp only [h1, if_false] at hkind
      by_cases h2 : op.kind = ascii "remove"
      · simp only [h2, if_true, Option.some.injEq] at hkind
        subst hkind
        have happ : fstOut (Impl.applyOp o r acci op) = opRemove o r op := by
          simp only [Impl.applyOp]; rw [if_neg h1, if_pos h2]; exact C01.fstOut_lift _ _
        rw [happ]
        exact opRemove_refines sz acc hr rfl rfl
      · simp only [h2, if_false] at hkind
        by_cases h3 : op.kind = ascii "replace"
        · simp only [h3, if_true, Option.some.injEq] at hkind
          subst hkind
          have happ : fstOut (Impl.applyOp o r acci op) = opReplace o r op := by
            simp only [Impl.applyOp]; rw [if_neg h1, if_neg h2, if_pos h3]; exact C01.fstOut_lift _ _
          rw [happ]
          cases hv : op.value with
          | none =>
            exact C01.novalue_refines (Or.inr rfl) (by simp) (fun hp => ⟨_, opReplace_path_none o r op hp⟩)
          | some c =>
            exact opReplace_refines sz acc hr rfl rfl hv (by simp) (hvalInv c hv) hop.toks
        · simp only [h3, if_false] at hkind
          by_cases h4 : op.kind = ascii "move"
          · simp only [h4, if_true, Option.some.injEq] at hkind
            subst hkind
            have happ : fstOut (Impl.applyOp o r acci op) = opMove o r op := by
              simp only [Impl.applyOp]; rw [if_neg h1, if_neg h2, if_neg h3, if_pos h4]; exact C01.fstOut_lift _ _
            rw [happ]
            exact opMove_refines sz acc hr rfl rfl rfl hop.toks
          · simp only [h4, if_false] at hkind
            by_cases h5 : op.kind = ascii "copy"
            · simp only [h5, if_true, Option.some.injEq] at hkind
              subst hkind
              have happ : Impl.applyOp o r acci op = opCopy o r acci op := by
                have h6 : op.kind ≠ ascii "test" := by rw [h5]; decide
                simp only [Impl.applyOp]
                rw [if_neg h1, if_neg h2, if_neg h3, if_neg h4, if_neg h6, if_pos h5]
              rw [happ]
              cases hf : op.frm with
              | none => exact absurd hf (hop.frm h5)
              | some f =>
                exact opCopy_refines sz acc acci hl hr rfl rfl hf (by simp) hop.toks
            · simp only [h5, if_false] at hkind
              by_cases h6 : op.kind = ascii "test"
              · simp only [h6, if_true, Option.some.injEq] at hkind
                subst hkind
                have happ : fstOut (Impl.applyOp o r acci op) = opTest o r op := by
                  simp only [Impl.applyOp]; rw [if_neg h1, if_neg h2, if_neg h3, if_neg h4, if_pos h6]; exact C01.fstOut_lift _ _
                rw [happ]
                exact opTest_refines hEq sz acc hr rfl rfl rfl (fun c hc => (hop.val c hc).1)
              · simp only [h6, if_false] at hkind
                cases hkind

/-- the operation list, with the root invariant `InvRoot` (= `WFRoot` + the text invariant) -/
theorem applyOps_refines_inv (hEq : C01.EqSpec) (o : Impl.Opts) (hl : o.limit = 0)
    (sizeAt : Nat → Nat) :
    ∀ (ops : List Impl.Op) (sops : List Spec.Op) (r : Impl.Root) (i acc : Nat) (acci : Int),
      InvRoot o.esc r → specOps ops = some sops → (∀ op ∈ ops, C01.OpOK o.esc op) →
      match Spec.applyFrom (specOpts o) sizeAt i acc (Impl.den r.con) sops with
      | .ok v => ∃ r', Impl.applyOps o r acci ops = .ok r' ∧ Impl.den r'.con = v ∧ InvRoot o.esc r'
      | .fail _ _ => ∃ e, Impl.applyOps o r acci ops = .err e
      | .unspec => True := by
  intro ops
  induction ops with
  | nil =>
    intro sops r i acc acci hr hs _
    simp only [specOps, Option.some.injEq] at hs
    subst hs
    simp only [Spec.applyFrom, Impl.applyOps]
    exact ⟨r, rfl, rfl, hr⟩
  | cons op ops ih =>
    intro sops r i acc acci hr hs hops
    simp only [specOps] at hs
    cases hso : specOp op with
    | none => rw [hso] at hs; cases hs
    | some s =>
      cases hss : specOps ops with
      | none => rw [hso, hss] at hs; cases hs
      | some ss =>
        rw [hso, hss] at hs
        simp only [Option.some.injEq] at hs
        subst hs
        have h1 := applyOp_refines hEq o hl r hr op s hso (hops op List.mem_cons_self)
          (sizeAt i) acc acci
        simp only [Spec.applyFrom, Impl.applyOps]
        cases hres : Spec.applyOp (specOpts o) (sizeAt i) acc (den r.con) s with
        | unspec => trivial
        | fail c =>
          rw [hres] at h1
          obtain ⟨er, her⟩ := h1
          rw [C01.fstOut_err her]
          exact ⟨er, rfl⟩
        | ok va =>
          obtain ⟨d, acc'⟩ := va
          rw [hres] at h1
          obtain ⟨r', hr', hinv, hden⟩ := h1
          obtain ⟨a, ha⟩ := C01.fstOut_ok hr'
          rw [ha]
          simp only at hden ⊢
          have := ih ss r' (i + 1) acc' a hinv hss (fun op' h => hops op' (List.mem_cons_of_mem _ h))
          rw [hden] at this
          exact this

end Ens
end JP
