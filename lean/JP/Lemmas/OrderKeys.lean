import JP.Lemmas.OrderFrameOps

/-!
# Order of the members of an object across one operation and across a whole patch

`KeyStep R N ks ks'`: the name list `ks'` is `ks` without the removed names `R`, in the
original relative order, followed by the created names `N`; a created name was absent or had
been removed.  Steps compose (`KeyStep.trans`), so the law holds for whole patches, for the
object at any pointer `c` that is reached through objects and is not inside a location the
patch edits.
-/

namespace JP
namespace Spec
open Value

/-- survivors in their original order, then the created names -/
def KeyStep (R N ks ks' : List Bytes) : Prop :=
  ks' = ks.filter (fun k => decide (k ∉ R)) ++ N ∧ ∀ k, k ∈ N → k ∉ ks ∨ k ∈ R

theorem KeyStep.refl (ks : List Bytes) : KeyStep [] [] ks ks := by
  refine ⟨?_, fun k h => by cases h⟩
  rw [List.append_nil]
  exact (List.filter_eq_self.2 (fun _ _ => by simp)).symm

theorem KeyStep.of_eq {ks ks' : List Bytes} (h : ks' = ks) : KeyStep [] [] ks ks' := h ▸ KeyStep.refl ks

theorem KeyStep.trans {R1 N1 R2 N2 a b c : List Bytes} (h1 : KeyStep R1 N1 a b) (h2 : KeyStep R2 N2 b c) :
    KeyStep (R1 ++ R2) (N1.filter (fun k => decide (k ∉ R2)) ++ N2) a c := by
  obtain ⟨e1, n1⟩ := h1
  obtain ⟨e2, n2⟩ := h2
  constructor
  · rw [e2, e1, List.filter_append, List.filter_filter, List.append_assoc]
    congr 1
    apply List.filter_congr
    intro k _
    simp only [List.mem_append, not_or]
    by_cases hk1 : k ∈ R1 <;> by_cases hk2 : k ∈ R2 <;> simp [hk1, hk2]
  · intro k hk
    rcases List.mem_append.1 hk with hk | hk
    · rcases n1 k (List.mem_filter.1 hk).1 with h | h
      · exact Or.inl h
      · exact Or.inr (List.mem_append_left _ h)
    · rcases n2 k hk with h | h
      · rw [e1] at h
        by_cases hr : k ∈ R1
        · exact Or.inr (List.mem_append_left _ hr)
        · left
          intro hka
          exact h (List.mem_append_left _ (List.mem_filter.2 ⟨hka, by simp [hr]⟩))
      · exact Or.inr (List.mem_append_right _ h)

/-- the members that were in the object and were never removed are exactly the surviving
ones, in the original order -/
theorem KeyStep.survivors {R N ks ks' : List Bytes} (h : KeyStep R N ks ks') :
    ks'.filter (fun k => decide (k ∈ ks ∧ k ∉ R)) = ks.filter (fun k => decide (k ∉ R)) := by
  obtain ⟨e, n⟩ := h
  rw [e, List.filter_append, List.filter_filter]
  have h2 : N.filter (fun k => decide (k ∈ ks ∧ k ∉ R)) = [] := by
    apply List.filter_eq_nil_iff.2
    intro k hk
    rcases n k hk with h | h <;> simp [h]
  rw [h2, List.append_nil]
  apply List.filter_congr
  intro k hk
  by_cases hr : k ∈ R <;> simp [hr, hk]

/-- … hence a sublist of the original names -/
theorem KeyStep.sublist {R N ks ks' : List Bytes} (h : KeyStep R N ks ks') :
    (ks'.filter (fun k => decide (k ∈ ks ∧ k ∉ R))).Sublist ks := by
  rw [h.survivors]; exact List.filter_sublist

/-- nothing removed: the original names are an initial segment -/
theorem KeyStep.prefix_of_nil {N ks ks' : List Bytes} (h : KeyStep [] N ks ks') : ks' = ks ++ N := by
  rw [h.1]; congr 1
  exact List.filter_eq_self.2 (fun _ _ => by simp)

theorem KeyStep.nil_of_append {N ks ks' : List Bytes} (h : ks' = ks ++ N) (hn : ∀ k, k ∈ N → k ∉ ks) :
    KeyStep [] N ks ks' := by
  refine ⟨?_, fun k hk => Or.inl (hn k hk)⟩
  rw [h]; congr 1
  exact (List.filter_eq_self.2 (fun _ _ => by simp)).symm

/-! ### the tokens of a pointer relative to the pointer `c` of an object -/

def stripPrefix : List Bytes → List Bytes → Option (List Bytes)
  | [], p => some p
  | _ :: _, [] => none
  | x :: c, y :: p => if x = y then stripPrefix c p else none

theorem stripPrefix_append : ∀ (c r : List Bytes), stripPrefix c (c ++ r) = some r
  | [], r => rfl
  | x :: c, r => by simp [stripPrefix, stripPrefix_append c r]

theorem stripPrefix_eq_some : ∀ {c p r : List Bytes}, stripPrefix c p = some r → p = c ++ r
  | [], p, r, h => by simp [stripPrefix] at h; simp [h]
  | _ :: _, [], r, h => by simp [stripPrefix] at h
  | x :: c, y :: p, r, h => by
    simp only [stripPrefix] at h
    split at h
    · rename_i hxy; subst hxy
      rw [stripPrefix_eq_some h]; rfl
    · cases h

/-- `[t]` if the pointer is `c ++ [t]` (it addresses a member of the object at `c`) -/
def lastAt (c p : List Bytes) : List Bytes :=
  match stripPrefix c p with
  | some [t] => [t]
  | _ => []

/-- `[t]` if the pointer is `c ++ t :: _` (it passes through member `t` of the object at `c`) -/
def headAt (c p : List Bytes) : List Bytes :=
  match stripPrefix c p with
  | some (t :: _) => [t]
  | _ => []

theorem lastAt_member (c : List Bytes) (t : Bytes) : lastAt c (c ++ [t]) = [t] := by
  simp [lastAt, stripPrefix_append]

theorem lastAt_of_not_member {c p : List Bytes} (h : ∀ t, p ≠ c ++ [t]) : lastAt c p = [] := by
  simp only [lastAt]
  split
  · rename_i t hs
    exact absurd (stripPrefix_eq_some hs) (h t)
  · rfl

theorem headAt_through (c : List Bytes) (t : Bytes) (r : List Bytes) : headAt c (c ++ t :: r) = [t] := by
  simp [headAt, stripPrefix_append]

theorem lastAt_nil_single (t : Bytes) : lastAt [] [t] = [t] := rfl
theorem headAt_nil_cons (t : Bytes) (r : List Bytes) : headAt [] (t :: r) = [t] := rfl

/-! ### one walk, at the object at pointer `c` -/

variable {α : Type} {o : Opts} {f : Value → Bytes → Res (Value × α)}

/-- the object at `c` after a walk that does not edit a location `c` lies in: it is `f`
applied to the old object if the walk addresses one of its members, and has the same names
otherwise -/
theorem keys_atParent_at (hf : ObjLocal f) {p c : List Bytes} {r : α} {d d' : Value} {ms : Members}
    (h : atParent o f d p = .ok (d', r)) (hnp : ¬ p <+: c)
    (hobj : objPath o.neg d c) (hres : resolve o.neg d c = some (.obj ms)) :
    ∃ ms', resolve o.neg d' c = some (.obj ms') ∧ objPath o.neg d' c ∧
      ((∃ t, p = c ++ [t] ∧ f (.obj ms) t = .ok (.obj ms', r)) ∨
       ((∀ t, p ≠ c ++ [t]) ∧ keys ms' = keys ms)) := by
  have hst := stable_atParent hf h
  have hobj' := objPath_of_stable hst hnp hobj
  by_cases hcp : c <+: p
  · obtain ⟨rest, rfl⟩ := hcp
    cases rest with
    | nil => exact absurd (by simp) hnp
    | cons a p' =>
      obtain ⟨ms', h1, _, h3, h4⟩ := atParent_at_prefix hf c d d' h hres
      refine ⟨ms', h1, hobj', ?_⟩
      cases p' with
      | nil => exact Or.inl ⟨a, rfl, h4 rfl⟩
      | cons x p'' =>
        refine Or.inr ⟨fun t ht => ?_, h3 (by simp)⟩
        have := List.append_cancel_left ht
        simp at this
  · refine ⟨ms, ?_, hobj', Or.inr ⟨fun t ht => hcp (ht ▸ List.prefix_append _ _), rfl⟩⟩
    rw [frame_of_stable hst ⟨hnp, hcp⟩ hobj]; exact hres

theorem keyStep_atParent_removeIn {p c : List Bytes} {old d d' : Value} {ms : Members}
    (h : atParent o (removeIn o) d p = .ok (d', old)) (hnp : ¬ p <+: c)
    (hobj : objPath o.neg d c) (hres : resolve o.neg d c = some (.obj ms)) :
    ∃ ms', resolve o.neg d' c = some (.obj ms') ∧ objPath o.neg d' c ∧
      KeyStep (lastAt c p) [] (keys ms) (keys ms') := by
  obtain ⟨ms', h1, h2, h3⟩ := keys_atParent_at (objLocal_removeIn o) h hnp hobj hres
  refine ⟨ms', h1, h2, ?_⟩
  rcases h3 with ⟨t, rfl, hf⟩ | ⟨hne, hk⟩
  · obtain ⟨_, he⟩ := removeIn_obj_ok hf
    cases he
    rw [lastAt_member]
    refine ⟨?_, fun k hk => by cases hk⟩
    rw [keys_erase, List.append_nil]
    apply List.filter_congr
    intro k _; simp
  · rw [lastAt_of_not_member hne]; exact KeyStep.of_eq hk

theorem keyStep_set {t : Bytes} {v : Value} {ms : Members} :
    ∃ N, KeyStep [] N (keys ms) (keys (Value.set t v ms)) ∧ N.Sublist [t] := by
  cases hl : Value.lookup t ms with
  | none =>
    refine ⟨[t], KeyStep.nil_of_append (keys_set_absent t v ms (by simp [hl])) ?_, List.Sublist.refl _⟩
    intro k hk
    rw [List.mem_singleton] at hk; subst hk
    exact not_mem_keys_iff.2 hl
  | some w =>
    exact ⟨[], KeyStep.of_eq (keys_set_present t v ms (by simp [hl])), by simp⟩

theorem keyStep_atParent_addIn {p c : List Bytes} {v d d' : Value} {u : Unit} {ms : Members}
    (h : atParent o (addIn o v) d p = .ok (d', u)) (hnp : ¬ p <+: c)
    (hobj : objPath o.neg d c) (hres : resolve o.neg d c = some (.obj ms)) :
    ∃ ms' N, resolve o.neg d' c = some (.obj ms') ∧ objPath o.neg d' c ∧
      KeyStep [] N (keys ms) (keys ms') ∧ N.Sublist (headAt c p) := by
  obtain ⟨ms', h1, h2, h3⟩ := keys_atParent_at (objLocal_addIn o v) h hnp hobj hres
  rcases h3 with ⟨t, rfl, hf⟩ | ⟨hne, hk⟩
  · rw [addIn_obj] at hf; cases hf
    obtain ⟨N, hN, hs⟩ := keyStep_set (t := t) (v := v) (ms := ms)
    exact ⟨_, N, h1, h2, hN, by rw [headAt_through]; exact hs⟩
  · exact ⟨ms', [], h1, h2, KeyStep.of_eq hk, List.nil_sublist _⟩

theorem keyStep_atParent_replaceIn {p c : List Bytes} {v d d' : Value} {u : Unit} {ms : Members}
    (h : atParent o (replaceIn o v) d p = .ok (d', u)) (hnp : ¬ p <+: c)
    (hobj : objPath o.neg d c) (hres : resolve o.neg d c = some (.obj ms)) :
    ∃ ms', resolve o.neg d' c = some (.obj ms') ∧ objPath o.neg d' c ∧ keys ms' = keys ms := by
  obtain ⟨ms', h1, h2, h3⟩ := keys_atParent_at (objLocal_replaceIn o v) h hnp hobj hres
  refine ⟨ms', h1, h2, ?_⟩
  rcases h3 with ⟨t, rfl, hf⟩ | ⟨_, hk⟩
  · obtain ⟨hp, he⟩ := replaceIn_obj_ok hf
    cases he
    exact keys_set_present t v ms hp
  · exact hk

theorem keyStep_ensureAdd {p c : List Bytes} {v d d' : Value} {ms : Members}
    (h : ensureAdd o v d p = .ok d') (hnp : ¬ p <+: c)
    (hobj : objPath o.neg d c) (hres : resolve o.neg d c = some (.obj ms)) :
    ∃ ms' N, resolve o.neg d' c = some (.obj ms') ∧ objPath o.neg d' c ∧
      KeyStep [] N (keys ms) (keys ms') ∧ N.Sublist (headAt c p) := by
  have hst := stable_ensureAdd h
  have hobj' := objPath_of_stable hst hnp hobj
  by_cases hcp : c <+: p
  · obtain ⟨rest, rfl⟩ := hcp
    cases rest with
    | nil => exact absurd (by simp) hnp
    | cons a p' =>
      obtain ⟨ms', h1, _, h3⟩ := ensureAdd_at_prefix c d d' h hres
      rw [headAt_through]
      rcases h3 with h3 | ⟨hl, h3⟩
      · exact ⟨ms', [], h1, hobj', KeyStep.of_eq h3, List.nil_sublist _⟩
      · refine ⟨ms', [a], h1, hobj', KeyStep.nil_of_append h3 ?_, List.Sublist.refl _⟩
        intro k hk
        rw [List.mem_singleton] at hk; subst hk
        exact not_mem_keys_iff.2 hl
  · refine ⟨ms, [], ?_, hobj', KeyStep.refl _, List.nil_sublist _⟩
    rw [frame_of_stable hst ⟨hnp, hcp⟩ hobj]; exact hres

/-- a walk to a member of an object that `resolve` reaches succeeds when the edit does, with
the edit's result -/
theorem atParent_of_resolve {ms : Members} {t : Bytes} {p' : Value} {r : α} :
    ∀ (c : List Bytes) (d : Value) (res : Res (Value × α)), resolve o.neg d c = some (.obj ms) →
      atParent o f d (c ++ [t]) = res → f (.obj ms) t = .ok (p', r) → ∃ d', res = .ok (d', r)
  | [], d, res, hres, h, hf => by
    rw [resolve_nil] at hres; cases hres
    rw [List.nil_append, atParent_single_obj, hf] at h
    exact ⟨p', h.symm⟩
  | t0 :: c, d, res, hres, h, hf => by
    obtain ⟨t2, ts, hts⟩ := exists_cons_of_append_cons c t []
    rw [List.cons_append, hts] at h
    rw [resolve_cons] at hres
    cases d with
    | obj ms0 =>
      rw [child_obj] at hres
      cases hl : Value.lookup t0 ms0 with
      | none => rw [hl] at hres; cases hres
      | some ch =>
        rw [hl, Option.bind_some] at hres
        obtain ⟨d1, hd1⟩ := atParent_of_resolve c ch _ hres rfl hf
        rw [atParent_obj_cons, hl] at h
        simp only at h
        rw [← hts, hd1, Res.bind_ok] at h
        exact ⟨_, h.symm⟩
    | arr xs =>
      cases hr : readIdx o.neg xs.length t0 with
      | unspec => simp [child, hr] at hres
      | bad => simp [child, hr] at hres
      | «at» i =>
        rw [child_arr_at hr] at hres
        cases hx : xs[i]? with
        | none => rw [hx] at hres; cases hres
        | some ch =>
          rw [hx, Option.bind_some] at hres
          obtain ⟨d1, hd1⟩ := atParent_of_resolve c ch _ hres rfl hf
          rw [atParent_arr_cons, hr] at h
          simp only [hx] at h
          rw [← hts, hd1, Res.bind_ok] at h
          exact ⟨_, h.symm⟩
    | null => simp [child] at hres
    | bool _ => simp [child] at hres
    | num _ => simp [child] at hres
    | str _ => simp [child] at hres

/-- the skip test of AllowMissingPathOnRemove for a member of an existing object: skipped iff
the member is absent -/
theorem skipsRemove_member {d : Value} {c : List Bytes} {t : Bytes} {ms : Members}
    (hres : resolve o.neg d c = some (.obj ms)) :
    skipsRemove o d (c ++ [t]) = .ok (Value.lookup t ms).isNone := by
  simp only [skipsRemove]
  split
  · rename_i d1 b heq
    obtain ⟨d', hd'⟩ := atParent_of_resolve c d _ hres heq rfl
    cases hd'; rfl
  · rename_i cause heq
    obtain ⟨d', hd'⟩ := atParent_of_resolve c d _ hres heq rfl
    cases hd'
  · rename_i heq
    obtain ⟨d', hd'⟩ := atParent_of_resolve c d _ hres heq rfl
    cases hd'

/-! ### one operation -/

/-- names of the object at `c` the operation removes -/
def removedAt (c : List Bytes) (op : Op) : List Bytes :=
  match op.kind with
  | .remove => match parsePointer op.path with | some p => lastAt c p | none => []
  | .move => match parsePointer op.frm with | some p => lastAt c p | none => []
  | _ => []

/-- names of the object at `c` the operation may create (`add`, `copy`, `move` whose target
is a member of the object, or lies below one when missing parents are created) -/
def createdAt (c : List Bytes) (op : Op) : List Bytes :=
  match op.kind with
  | .add => match parsePointer op.path with | some p => headAt c p | none => []
  | .copy => match parsePointer op.path with | some p => headAt c p | none => []
  | .move => match parsePointer op.path with | some p => headAt c p | none => []
  | _ => []

/-- no pointer the operation edits is a prefix of `c`: the object at `c` is not inside an
edited location; a `test` edits nothing -/
def Op.editsNotAbove (op : Op) (c : List Bytes) : Prop :=
  op.kind ≠ .test →
    (∀ p, parsePointer op.path = some p → ¬ p <+: c) ∧
    (op.kind = .move → ∀ f, parsePointer op.frm = some f → ¬ f <+: c)

theorem Op.editsNotAbove_nil (op : Op) :
    op.editsNotAbove [] ↔
      (op.kind ≠ .test → parsePointer op.path ≠ some [] ∧
        (op.kind = .move → parsePointer op.frm ≠ some [])) := by
  simp only [Op.editsNotAbove, List.prefix_nil]
  constructor
  · intro h ht
    exact ⟨fun hp => (h ht).1 [] hp rfl, fun hk hf => (h ht).2 hk [] hf rfl⟩
  · intro h ht
    exact ⟨fun p hp he => (h ht).1 (he ▸ hp), fun hk f hf he => (h ht).2 hk (he ▸ hf)⟩

/-- **order law for one operation**, for the object at any pointer `c` reached through objects -/
theorem keyStep_applyOp {size acc : Nat} {d : Value} {op : Op} {d' : Value} {acc' : Nat}
    {c : List Bytes} {ms : Members} (h : applyOp o size acc d op = .ok (d', acc'))
    (hna : op.editsNotAbove c) (hobj : objPath o.neg d c) (hres : resolve o.neg d c = some (.obj ms)) :
    ∃ ms' N, resolve o.neg d' c = some (.obj ms') ∧ objPath o.neg d' c ∧
      KeyStep (removedAt c op) N (keys ms) (keys ms') ∧ N.Sublist (createdAt c op) := by
  by_cases htest : op.kind = .test
  · obtain ⟨rfl, _⟩ := applyOp_test_ok htest h
    have hR : removedAt c op = [] := by simp only [removedAt, htest]
    have hC : createdAt c op = [] := by simp only [createdAt, htest]
    rw [hR, hC]
    exact ⟨ms, [], hres, hobj, KeyStep.refl _, List.Sublist.refl _⟩
  obtain ⟨hpath, hmove⟩ := hna htest
  cases hp : parsePointer op.path with
  | none => exact absurd h (applyOp_badPointer_ne_ok hp _)
  | some path =>
  have hnp := hpath path hp
  cases path with
  | nil => exact absurd List.nil_prefix hnp
  | cons t ts =>
  cases hk : op.kind with
  | add =>
    have hR : removedAt c op = [] := by simp only [removedAt, hk]
    have hC : createdAt c op = headAt c (t :: ts) := by simp only [createdAt, hk, hp]
    rw [hR, hC]
    cases hv : op.value with
    | none => rw [applyOp_add_none hp hk hv] at h; cases h
    | some v =>
      rw [applyOp_add_cons hp hk hv] at h
      split at h
      · obtain ⟨d1, h1, h2⟩ := Res.bind_eq_ok.1 h
        cases h2
        exact keyStep_ensureAdd h1 hnp hobj hres
      · obtain ⟨⟨d1, u⟩, h1, h2⟩ := Res.bind_eq_ok.1 h
        cases h2
        exact keyStep_atParent_addIn h1 hnp hobj hres
  | remove =>
    have hR : removedAt c op = lastAt c (t :: ts) := by simp only [removedAt, hk, hp]
    have hC : createdAt c op = [] := by simp only [createdAt, hk]
    rw [hR, hC]
    obtain ⟨_, h1 | ⟨old, h1⟩⟩ := applyOp_remove_ok hp hk h
    · -- skipped: the member is absent, so removing its name changes nothing
      obtain ⟨ha, hs, rfl⟩ := h1
      refine ⟨ms, [], hres, hobj, ?_, List.Sublist.refl _⟩
      by_cases hmem : ∃ t', t :: ts = c ++ [t']
      · obtain ⟨t', ht'⟩ := hmem
        rw [ht', lastAt_member]
        -- the skip test says the member is absent
        have habs : Value.lookup t' ms = none := by
          rw [ht', skipsRemove_member hres] at hs
          have := Res.ok.inj hs
          simpa using this
        refine ⟨?_, fun k hk => by cases hk⟩
        rw [List.append_nil]
        exact (List.filter_eq_self.2 (fun k hk => by
          have : k ≠ t' := fun he => (not_mem_keys_iff.2 habs) (he ▸ hk)
          simp [this])).symm
      · rw [lastAt_of_not_member (fun t' ht' => hmem ⟨t', ht'⟩)]
        exact KeyStep.refl _
    · obtain ⟨ms', h2, h3, h4⟩ := keyStep_atParent_removeIn h1 hnp hobj hres
      exact ⟨ms', [], h2, h3, h4, List.Sublist.refl _⟩
  | replace =>
    have hR : removedAt c op = [] := by simp only [removedAt, hk]
    have hC : createdAt c op = [] := by simp only [createdAt, hk]
    rw [hR, hC]
    cases hv : op.value with
    | none => rw [applyOp_replace_none hp hk hv] at h; cases h
    | some v =>
      rw [applyOp_replace_cons hp hk hv] at h
      obtain ⟨⟨d1, u⟩, h1, h2⟩ := Res.bind_eq_ok.1 h
      cases h2
      obtain ⟨ms', h2, h3, h4⟩ := keyStep_atParent_replaceIn h1 hnp hobj hres
      exact ⟨ms', [], h2, h3, KeyStep.of_eq h4, List.Sublist.refl _⟩
  | move =>
    cases hf : parsePointer op.frm with
    | none => rw [applyOp_move_badFrom hp hk hf] at h; cases h
    | some frm =>
    have hnf := hmove hk frm hf
    have hR : removedAt c op = lastAt c frm := by simp only [removedAt, hk, hf]
    have hC : createdAt c op = headAt c (t :: ts) := by simp only [createdAt, hk, hp]
    rw [hR, hC]
    cases frm with
    | nil => exact absurd List.nil_prefix hnf
    | cons u us =>
      rw [applyOp_move_cons hp hk hf] at h
      obtain ⟨⟨d1, v1⟩, h1, h2⟩ := Res.bind_eq_ok.1 h
      obtain ⟨⟨d2, u2⟩, h3, h4⟩ := Res.bind_eq_ok.1 h2
      cases h4
      obtain ⟨ms1, r1, o1, k1⟩ := keyStep_atParent_removeIn h1 hnf hobj hres
      obtain ⟨ms2, N, r2, o2, k2, hs⟩ := keyStep_atParent_addIn h3 hnp o1 r1
      refine ⟨ms2, N, r2, o2, ?_, hs⟩
      have := k1.trans k2
      simpa using this
  | copy =>
    have hR : removedAt c op = [] := by simp only [removedAt, hk]
    have hC : createdAt c op = headAt c (t :: ts) := by simp only [createdAt, hk, hp]
    rw [hR, hC]
    cases hf : parsePointer op.frm with
    | none => rw [applyOp_copy_badFrom hp hk hf] at h; cases h
    | some frm =>
      rw [applyOp_copy_cons hp hk hf] at h
      obtain ⟨v1, _, h2⟩ := Res.bind_eq_ok.1 h
      obtain ⟨_, _, h3⟩ := Res.bind_eq_ok.1 h2
      split at h3
      · cases h3
      · obtain ⟨⟨d2, u2⟩, h4, h5⟩ := Res.bind_eq_ok.1 h3
        cases h5
        exact keyStep_atParent_addIn h4 hnp hobj hres
  | test => exact absurd hk htest

/-! ### a whole patch -/

/-- **order law for a patch**, for the object at any pointer `c` reached through objects that
no operation replaces, removes or moves as a whole (or inside such a location): the names of
the result are the names never removed, in their original relative order, followed by created
names in creation order -/
theorem keyStep_applyFrom {sizeAt : Nat → Nat} {c : List Bytes} :
    ∀ (ops : List Op) (i acc : Nat) (d d' : Value) (ms : Members),
      applyFrom o sizeAt i acc d ops = .ok d' →
      (∀ op, op ∈ ops → op.editsNotAbove c) → objPath o.neg d c →
      resolve o.neg d c = some (.obj ms) →
      ∃ ms' N, resolve o.neg d' c = some (.obj ms') ∧ objPath o.neg d' c ∧
        KeyStep (ops.flatMap (removedAt c)) N (keys ms) (keys ms') ∧
        N.Sublist (ops.flatMap (createdAt c))
  | [], i, acc, d, d', ms, h, _, hobj, hres => by
    simp only [applyFrom] at h; cases h
    exact ⟨ms, [], hres, hobj, KeyStep.refl _, List.Sublist.refl _⟩
  | op :: ops, i, acc, d, d', ms, h, hna, hobj, hres => by
    simp only [applyFrom] at h
    split at h
    · rename_i d1 acc1 h1
      obtain ⟨ms1, N1, r1, o1, k1, s1⟩ := keyStep_applyOp h1 (hna op List.mem_cons_self) hobj hres
      obtain ⟨ms2, N2, r2, o2, k2, s2⟩ := keyStep_applyFrom ops _ _ _ _ ms1 h
        (fun op' hm => hna op' (List.mem_cons_of_mem _ hm)) o1 r1
      refine ⟨ms2, N1.filter (fun k => decide (k ∉ ops.flatMap (removedAt c))) ++ N2, r2, o2, ?_, ?_⟩
      · rw [List.flatMap_cons]; exact k1.trans k2
      · rw [List.flatMap_cons]; exact (List.filter_sublist.trans s1).append s2
    · cases h
    · cases h

theorem objPath_nil (neg : Bool) (d : Value) : objPath neg d [] := by
  intro c x rest h
  cases c <;> cases h

end Spec
end JP
