import JP.Lemmas.EngineTest
import JP.Lemmas.ApplyBasic

/-!
# Engine lemmas, part 9: `copy`
-/

namespace JP
namespace Impl

open Spec (Res)

/-! ### specification side -/

/-- the value `copy` duplicates -/
def eng_copySrc (so : Spec.Opts) (doc : Value) (ftoks : List Bytes) : Res Value :=
  match ftoks with
  | [] => .ok doc
  | _ :: _ => (Spec.atParent so (Spec.getIn so false) doc ftoks).bind fun pv => .ok pv.2

theorem spec_copy_none {so : Spec.Opts} {sz acc : Nat} {doc : Value} {sop : Spec.Op} {ptoks : List Bytes}
    (hk : sop.kind = .copy) (hp : Spec.parsePointer sop.path = some ptoks)
    (hf : Spec.parsePointer sop.frm = none) :
    Spec.applyOp so sz acc doc sop = .fail .parentUnreachable := by
  simp only [Spec.applyOp, hp, hk, hf]

theorem spec_copy {so : Spec.Opts} {sz acc : Nat} {doc : Value} {sop : Spec.Op} {ptoks ftoks : List Bytes}
    (hk : sop.kind = .copy) (hp : Spec.parsePointer sop.path = some ptoks)
    (hf : Spec.parsePointer sop.frm = some ftoks) (hl : so.limit = 0) :
    Spec.applyOp so sz acc doc sop =
      (eng_copySrc so doc ftoks).bind fun v =>
        match ptoks with
        | [] => .unspec
        | _ :: _ =>
          (Spec.atParent so (fun p _ => .ok (p, ())) doc ptoks).bind fun _ =>
            (Spec.atParent so (Spec.addIn so v) doc ptoks).bind fun vb => .ok (vb.1, acc + sz) := by
  simp only [Spec.applyOp, hp, hk, hf, hl, eng_copySrc]
  cases ftoks with
  | nil =>
    simp only [Res.bind]
    cases ptoks with
    | nil => rfl
    | cons pt pts =>
      simp only
      cases Spec.atParent so (fun p x => Res.ok (p, ())) doc (pt :: pts) with
      | ok u =>
        simp only [Nat.lt_irrefl, false_and, if_false]
      | fail c => rfl
      | unspec => rfl
  | cons ft fts =>
    simp only
    cases Spec.atParent so (Spec.getIn so false) doc (ft :: fts) with
    | ok pv =>
      obtain ⟨p, v⟩ := pv
      simp only [Res.bind]
      cases ptoks with
      | nil => rfl
      | cons pt pts =>
        simp only
        cases Spec.atParent so (fun p x => Res.ok (p, ())) doc (pt :: pts) with
        | ok u =>
          simp only [Nat.lt_irrefl, false_and, if_false]
        | fail c => rfl
        | unspec => rfl
    | fail c => rfl
    | unspec => rfl

/-- an edit that hands the parent back leaves the document as it is -/
theorem atParent_same {β} (so : Spec.Opts) (f : Value → Bytes → Res (Value × β))
    (hf : ∀ p t pb, f p t = .ok pb → pb.1 = p) (doc : Value) (toks : List Bytes) (hne : toks ≠ [])
    (vb : Value × β) (h : Spec.atParent so f doc toks = .ok vb) : vb.1 = doc := by
  obtain ⟨ts, t, rfl⟩ := exists_concat toks hne
  rw [atParent_nav] at h
  cases hn : nav so doc ts with
  | unspec => rw [hn] at h; cases h
  | fail c => rw [hn] at h; cases h
  | ok pk =>
    obtain ⟨p, k⟩ := pk
    rw [hn] at h
    simp only [Res.bind] at h
    obtain ⟨_, hk⟩ := nav_ok so ts doc p k hn
    cases hx : f p t with
    | unspec => rw [hx] at h; cases h
    | fail c => rw [hx] at h; cases h
    | ok pb =>
      rw [hx] at h
      simp only [Res.ok.injEq] at h
      rw [← h]
      simp only [hf p t pb hx, hk]

/-! ### implementation side, in named pieces -/

def eng_afterW (r : Root) {α} : Walk α → Option Root
  | .done con _ => some { r with con := con }
  | .doneSelf s _ => some { r with self := s }
  | _ => none

def failOfW {α} : Walk α → Outcome (Root × Int)
  | .panic => .panic
  | .fail e => .err e
  | _ => .err .missing

def actCopySrc (o : Opts) : Node → Node → Bytes → Outcome (Node × Node) :=
  fun self con key =>
    match conGet o self con key with
    | .panic => .panic
    | .err e => .err e
    | .ok val => .ok (con, val)

theorem copySource_eq (o : Opts) (r : Root) (f : Bytes) : copySource o r f = withPath o r f (actCopySrc o) := rfl

def actProbe : Node → Node → Bytes → Outcome (Node × Unit) := fun _ con _ => .ok (con, ())

def srcOf (o : Opts) (r2 : Root) (f : Bytes) : Outcome Node :=
  if f = [] then .ok r2.con
  else match copySource o r2 f with
    | .done _ v => .ok v
    | .doneSelf _ v => .ok v
    | .panic => .panic
    | _ => .err .other

def copyTail (o : Opts) (r2 : Root) (acc : Int) (op : Op) (f : Bytes) : Outcome (Root × Int) :=
  match srcOf o r2 f with
  | .panic => .panic
  | .err e => .err e
  | .ok val =>
    if f = [] && isDocNil r2.con then .err .expectedObject else
    let acc' := acc + (deepCopy o.esc val).2
    if o.limit > 0 ∧ acc' > o.limit then .err .copySize
    else
      match eng_afterW r2 (withPath o r2 op.path (actAdd o (deepCopy o.esc val).1)) with
      | some r3 => .ok (r3, acc')
      | none => failOfW (withPath o r2 op.path (actAdd o (deepCopy o.esc val).1))

theorem eng_opCopy_eq (o : Opts) (r : Root) (acc : Int) (op : Op) (f : Bytes) (h : op.frm = some f) :
    opCopy o r acc op =
      match eng_afterW r (copyFirst o r f) with
      | none => failOfW (copyFirst o r f)
      | some r1 =>
        match eng_afterW r1 (withPath o r1 op.path actProbe) with
        | none => failOfW (withPath o r1 op.path actProbe)
        | some r2 => copyTail o r2 acc op f := by
  simp only [opCopy, h]
  rfl

def fstOut : Outcome (Root × Int) → Outcome Root
  | .ok ra => .ok ra.1
  | .err e => .err e
  | .panic => .panic

/-- `from = ""`: the live root itself, without a walk -/
theorem copyFirst_root (o : Opts) (r : Root) (hc : isCon r.con = true) :
    copyFirst o r [] = .done r.con r.con := by
  rw [copyFirst_nil]
  cases hcon : r.con <;> simp [hcon, isCon] at hc <;> simp [isNullN]

theorem actCopySrc_ref {o : Opts} {e : Bool} {key : Bytes} :
    ActRef e key (actCopySrc o) (Spec.getIn (specOpts o) false) (fun val v => Inv e val ∧ den val = v) := by
  intro s pc hp hc
  have := conGet_refines (o := o) (key := key) s hp hc
  cases hg : Spec.getIn (specOpts o) false (den pc) key with
  | unspec => trivial
  | fail c =>
    rw [hg] at this
    obtain ⟨er, her⟩ := this
    exact ⟨er, by simp [actCopySrc, her]⟩
  | ok pv =>
    rw [hg] at this
    obtain ⟨n, hn, h1, h2⟩ := this
    exact ⟨pc, n, by simp [actCopySrc, hn], hp, hc, (getIn_fst hg).symm, h1, h2⟩

theorem actProbe_ref {e : Bool} {key : Bytes} :
    ActRef e key actProbe (fun p _ => (.ok (p, ()) : Res (Value × Unit))) (fun _ _ => True) := by
  intro s pc hp hc
  exact ⟨pc, (), rfl, hp, hc, rfl, trivial⟩

theorem copySource_walkRef {o : Opts} {e : Bool} {r : Root} {f : Bytes} {ft : Bytes} {fts : List Bytes}
    (hr : InvRoot e r) (hpf : Spec.parsePointer f = some (ft :: fts)) :
    WalkRef e r (fun val v => Inv e val ∧ den val = v)
      (Spec.atParent (specOpts o) (Spec.getIn (specOpts o) false) (den r.con) (ft :: fts))
      (copySource o r f) := by
  rw [copySource_eq]
  exact withPath_walkRef hr hpf (by simp) (fun key _ => actCopySrc_ref)

/-- first walk of `copy`: the source container is found (and parsed on the way) or the copy fails -/
theorem copy_phase1 {o : Opts} {e : Bool} {r : Root} {f : Bytes} {ftoks : List Bytes}
    (hr : InvRoot e r) (hpf : Spec.parsePointer f = some ftoks) :
    match eng_copySrc (specOpts o) (den r.con) ftoks with
    | .ok _ => ∃ r1, eng_afterW r (copyFirst o r f) = some r1 ∧ InvRoot e r1 ∧ den r1.con = den r.con
    | .fail _ => eng_afterW r (copyFirst o r f) = none ∧ ∃ er, failOfW (copyFirst o r f) = .err er
    | .unspec => True := by
  cases ftoks with
  | nil =>
    have hnil : f = [] := (parsePointer_nil_iff hpf).1 rfl
    subst hnil
    simp only [eng_copySrc, copyFirst_root o r hr.2, eng_afterW]
    exact ⟨_, rfl, hr, rfl⟩
  | cons ft fts =>
    have hne : f ≠ [] := fun h => by
      have := (parsePointer_nil_iff hpf).2 h; cases this
    rw [copyFirst_ne o r hne]
    have hw := copySource_walkRef (o := o) hr hpf
    simp only [eng_copySrc]
    cases hres : Spec.atParent (specOpts o) (Spec.getIn (specOpts o) false) (den r.con) (ft :: fts) with
    | unspec => trivial
    | fail c =>
      rw [hres] at hw
      simp only [WalkRef] at hw
      simp only [Res.bind]
      rcases hw with ⟨con', hw, _⟩ | ⟨er, hw⟩
      · rw [hw]; exact ⟨rfl, _, rfl⟩
      · rw [hw]; exact ⟨rfl, _, rfl⟩
    | ok vb =>
      rw [hres] at hw
      simp only [WalkRef] at hw
      obtain ⟨con', val, hw, h1, h2, h3, _⟩ := hw
      simp only [Res.bind]
      rw [hw]
      refine ⟨_, rfl, ⟨h1, h2⟩, ?_⟩
      rw [h3]
      exact atParent_same _ _ (fun p t pb h => getIn_fst h) _ _ (by simp) _ hres

/-- reading the source again in a later state with the same value -/
theorem copy_src {o : Opts} {e : Bool} {r2 : Root} {doc : Value} {f : Bytes} {ftoks : List Bytes}
    (hr : InvRoot e r2) (hd : den r2.con = doc) (hpf : Spec.parsePointer f = some ftoks) :
    match eng_copySrc (specOpts o) doc ftoks with
    | .ok v => ∃ val, srcOf o r2 f = .ok val ∧ Inv e val ∧ den val = v
    | _ => True := by
  subst hd
  cases ftoks with
  | nil =>
    have hnil : f = [] := (parsePointer_nil_iff hpf).1 rfl
    subst hnil
    simp only [eng_copySrc, srcOf, if_true]
    exact ⟨_, rfl, hr.1, rfl⟩
  | cons ft fts =>
    have hne : f ≠ [] := fun h => by
      have := (parsePointer_nil_iff hpf).2 h; cases this
    have hw := copySource_walkRef (o := o) hr hpf
    simp only [eng_copySrc]
    cases hres : Spec.atParent (specOpts o) (Spec.getIn (specOpts o) false) (den r2.con) (ft :: fts) with
    | unspec => trivial
    | fail c => trivial
    | ok vb =>
      rw [hres] at hw
      simp only [WalkRef] at hw
      obtain ⟨con', val, hw, _, _, _, h4, h5⟩ := hw
      simp only [Res.bind, srcOf, hne, if_false, hw]
      exact ⟨val, rfl, h4, h5⟩

theorem isDocNil_of_isCon {n : Node} (h : isCon n = true) : isDocNil n = false := by
  cases n <;> simp [isCon] at h <;> rfl

/-- a source pointer outside RFC 6901: `copy` finds nothing -/
theorem opCopy_from_none {o : Opts} {r : Root} {acci : Int} {op : Op} {f : Bytes}
    (hfo : op.frm = some f) (hpf : Spec.parsePointer f = none) :
    opCopy o r acci op = .err .missing := by
  rw [eng_opCopy_eq o r acci op f hfo, copyFirst_ne o r (parsePointer_none_ne_nil hpf), copySource_eq,
    withPath_of_parsePointer_none _ _ _ hpf]
  rfl

theorem opCopy_refines {o : Opts} {r : Root} {op : Op} {sop : Spec.Op} {f : Bytes}
    (sz acc : Nat) (acci : Int) (hl : o.limit = 0) (hr : InvRoot o.esc r)
    (hk : sop.kind = .copy) (hpath : sop.path = op.path) (hfo : op.frm = some f) (hfrm : sop.frm = f)
    (hq : ∀ toks, Spec.parsePointer op.path = some toks → ∀ t ∈ toks, QK o.esc t = true) :
    OpRef o.esc (Spec.applyOp (specOpts o) sz acc (den r.con) sop) (fstOut (opCopy o r acci op)) := by
  -- a source pointer outside RFC 6901: the first walk finds nothing
  have hfnone : Spec.parsePointer f = none →
      ∃ er, fstOut (opCopy o r acci op) = .err er := by
    intro hpf
    rw [opCopy_from_none hfo hpf]
    exact ⟨.missing, rfl⟩
  cases hp : Spec.parsePointer op.path with
  | none =>
    -- the destination is outside RFC 6901: the source half runs first, then nothing is found
    have hsp : Spec.parsePointer sop.path = none := by rw [hpath]; exact hp
    rw [spec_copy_path_none hk hsp, hfrm]
    cases hpf : Spec.parsePointer f with
    | none => exact hfnone hpf
    | some ftoks =>
      rw [eng_opCopy_eq o r acci op f hfo]
      have h1 := copy_phase1 (o := o) hr hpf
      cases ftoks with
      | nil =>
        simp only [eng_copySrc] at h1
        obtain ⟨r1, ha, hr1, hd1⟩ := h1
        rw [ha]
        simp only [withPath_of_parsePointer_none _ _ _ hp, eng_afterW, failOfW, fstOut]
        exact ⟨_, rfl⟩
      | cons ft fts =>
        simp only [eng_copySrc] at h1 ⊢
        cases hsrc : Spec.atParent (specOpts o) (Spec.getIn (specOpts o) false) (den r.con) (ft :: fts) with
        | unspec => simp only [Res.bind, OpRef]
        | fail c =>
          rw [hsrc] at h1
          simp only [Res.bind] at h1
          obtain ⟨ha, er, her⟩ := h1
          simp only [Res.bind, ha, her, fstOut, OpRef]
          exact ⟨_, rfl⟩
        | ok pv =>
          rw [hsrc] at h1
          simp only [Res.bind] at h1
          obtain ⟨r1, ha, hr1, hd1⟩ := h1
          rw [ha]
          simp only [Res.bind, withPath_of_parsePointer_none _ _ _ hp, eng_afterW, failOfW, fstOut, OpRef]
          exact ⟨_, rfl⟩
  | some ptoks =>
    have hp' : Spec.parsePointer sop.path = some ptoks := by rw [hpath]; exact hp
    cases hpf : Spec.parsePointer f with
    | none => rw [spec_copy_none hk hp' (by rw [hfrm]; exact hpf)]; exact hfnone hpf
    | some ftoks =>
      rw [spec_copy hk hp' (by rw [hfrm]; exact hpf) (by simp [specOpts, hl]), eng_opCopy_eq o r acci op f hfo]
      have h1 := copy_phase1 (o := o) hr hpf
      cases hsrc : eng_copySrc (specOpts o) (den r.con) ftoks with
      | unspec => trivial
      | fail c =>
        rw [hsrc] at h1
        obtain ⟨ha, er, her⟩ := h1
        simp only [Res.bind, ha, her, fstOut, OpRef]
        exact ⟨_, rfl⟩
      | ok v =>
        rw [hsrc] at h1
        obtain ⟨r1, ha, hr1, hd1⟩ := h1
        simp only [Res.bind, ha]
        cases ptoks with
        | nil => trivial
        | cons pt pts =>
          simp only
          have hw2 : WalkRef o.esc r1 (fun _ _ => True)
              (Spec.atParent (specOpts o) (fun p _ => (.ok (p, ()) : Res (Value × Unit))) (den r1.con) (pt :: pts))
              (withPath o r1 op.path actProbe) :=
            withPath_walkRef hr1 hp (by simp) (fun key _ => actProbe_ref)
          rw [hd1] at hw2
          cases hres2 : Spec.atParent (specOpts o) (fun p _ => (.ok (p, ()) : Res (Value × Unit)))
              (den r.con) (pt :: pts) with
          | unspec => trivial
          | fail c =>
            rw [hres2] at hw2
            simp only [WalkRef] at hw2
            simp only [OpRef]
            rcases hw2 with ⟨con', hw, _⟩ | ⟨er, hw⟩
            · rw [hw]; exact ⟨_, rfl⟩
            · rw [hw]; exact ⟨_, rfl⟩
          | ok u =>
            rw [hres2] at hw2
            simp only [WalkRef] at hw2
            obtain ⟨con2, a, hw, h21, h22, h23, _⟩ := hw2
            rw [hw]
            simp only [eng_afterW]
            have hd2 : den con2 = den r.con := by
              rw [h23]
              exact atParent_same _ _ (fun p t pb h => by cases h; rfl) _ _ (by simp) _ hres2
            have hr2 : InvRoot o.esc { r1 with con := con2 } := ⟨h21, h22⟩
            have hs := copy_src (o := o) hr2 hd2 hpf
            rw [hsrc] at hs
            obtain ⟨val, hsv, hval, hdv⟩ := hs
            obtain ⟨hcp, hcpd⟩ := deepCopy_spec hval
            have hw3 := addAt_refines (o := o) (path := op.path) hr2 hcp hp (by simp) (hq _ hp)
            simp only [hcpd, hdv, hd2] at hw3
            simp only [copyTail, hsv, isDocNil_of_isCon h22, Bool.and_false, Bool.false_eq_true, if_false, hl,
              Int.lt_irrefl, false_and]
            cases hres3 : Spec.atParent (specOpts o) (Spec.addIn (specOpts o) v) (den r.con) (pt :: pts) with
            | unspec => trivial
            | fail c =>
              rw [hres3] at hw3
              simp only [WalkRef] at hw3
              simp only [OpRef]
              rcases hw3 with ⟨con', hw', _⟩ | ⟨er, hw'⟩
              · rw [hw']; exact ⟨_, rfl⟩
              · rw [hw']; exact ⟨_, rfl⟩
            | ok vb =>
              rw [hres3] at hw3
              simp only [WalkRef] at hw3
              obtain ⟨con3, a3, hw', h31, h32, h33, _⟩ := hw3
              rw [hw']
              simp only [OpRef, eng_afterW, fstOut]
              exact ⟨_, rfl, ⟨h31, h32⟩, h33⟩

end Impl
end JP
