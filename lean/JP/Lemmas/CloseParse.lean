import JP.Lemmas.CloseNum

/-!
# Closing the text hypotheses, part 2: the reference parser only produces well-formed trees

`parseCst bs = some c → WFC c ∧ c.depth ≤ maxDepth`.
-/

namespace JP

theorem Option.map_sound_aux {α β : Type} (g : α → β) (a : Option α) (r : β) (P : β → Prop)
    (hP : ∀ q, a = some q → P (g q)) (h : a.map g = some r) : P r := by
  cases a with
  | none => simp at h
  | some q => simp only [Option.map_some, Option.some.injEq] at h; subst h; exact hP q rfl

theorem validLit_word (w : Bytes) (h : w = ascii "true" ∨ w = ascii "false" ∨ w = ascii "null") :
    validLit w = true := by
  rcases h with rfl | rfl | rfl <;> decide

theorem parseLit_sound_A (w bs : Bytes) (c : Cst) (r : Bytes) (h : parseLit w bs = some (c, r)) : c = .lit w := by
  unfold parseLit at h
  split at h
  · simp only [Option.some.injEq, Prod.mk.injEq] at h; exact h.1.symm
  · cases h

theorem parse_sound_aux_A : ∀ (f : Nat),
    (∀ d bs c r, d ≤ maxDepth → parseValue f d bs = some (c, r) → WFC c = true ∧ d + c.depth ≤ maxDepth) ∧
    (∀ d bs xs r, d ≤ maxDepth → parseElems f d bs = some (xs, r) →
      WFCL xs = true ∧ d + Cst.depthL xs ≤ maxDepth) ∧
    (∀ d bs ms r, d ≤ maxDepth → parseMembers f d bs = some (ms, r) →
      WFCM ms = true ∧ d + Cst.depthM ms ≤ maxDepth)
  | 0 => by
    refine ⟨?_, ?_, ?_⟩ <;> intro d bs c r _ h
    · simp [parseValue] at h
    · simp [parseElems] at h
    · simp [parseMembers] at h
  | f + 1 => by
    obtain ⟨ihv, ihe, ihm⟩ := parse_sound_aux_A f
    refine ⟨?_, ?_, ?_⟩
    · intro d bs c r hd h
      cases bs with
      | nil => simp [parseValue] at h
      | cons b cs =>
        rw [parseValue] at h
        split at h
        · split at h
          · simp at h
          · rename_i hdep
            have hd1 : d + 1 ≤ maxDepth := by omega
            split at h
            · simp only [Option.some.injEq, Prod.mk.injEq] at h
              obtain ⟨rfl, rfl⟩ := h
              exact ⟨by simp [WFC, WFCM], by simp only [Cst.depth, Cst.depthM]; omega⟩
            · refine Option.map_sound_aux _ _ _ (fun p => WFC p.1 = true ∧ d + p.1.depth ≤ maxDepth) ?_ h
              intro q hq
              obtain ⟨ms, r'⟩ := q
              have := ihm _ _ _ _ hd1 hq
              exact ⟨by simpa [WFC] using this.1, by simp only [Cst.depth]; omega⟩
        · split at h
          · split at h
            · simp at h
            · rename_i hdep
              have hd1 : d + 1 ≤ maxDepth := by omega
              split at h
              · simp only [Option.some.injEq, Prod.mk.injEq] at h
                obtain ⟨rfl, rfl⟩ := h
                exact ⟨by simp [WFC, WFCL], by simp only [Cst.depth, Cst.depthL]; omega⟩
              · refine Option.map_sound_aux _ _ _ (fun p => WFC p.1 = true ∧ d + p.1.depth ≤ maxDepth) ?_ h
                intro q hq
                obtain ⟨xs, r'⟩ := q
                have := ihe _ _ _ _ hd1 hq
                exact ⟨by simpa [WFC] using this.1, by simp only [Cst.depth]; omega⟩
          · split at h
            · refine Option.map_sound_aux _ _ _ (fun p => WFC p.1 = true ∧ d + p.1.depth ≤ maxDepth) ?_ h
              intro q hq
              obtain ⟨b', r'⟩ := q
              have := parseStrBody_sound_A _ _ _ hq
              exact ⟨by simpa [WFC, validBody_eq_true_iff] using this, by simp only [Cst.depth]; omega⟩
            · split at h
              · have := parseLit_sound_A _ _ _ _ h; subst this
                exact ⟨by simp only [WFC]; exact validLit_word _ (Or.inl rfl), by simp only [Cst.depth]; omega⟩
              · split at h
                · have := parseLit_sound_A _ _ _ _ h; subst this
                  exact ⟨by simp only [WFC]; exact validLit_word _ (Or.inr (Or.inl rfl)),
                    by simp only [Cst.depth]; omega⟩
                · split at h
                  · have := parseLit_sound_A _ _ _ _ h; subst this
                    exact ⟨by simp only [WFC]; exact validLit_word _ (Or.inr (Or.inr rfl)),
                      by simp only [Cst.depth]; omega⟩
                  · refine Option.map_sound_aux _ _ _
                      (fun p => WFC p.1 = true ∧ d + p.1.depth ≤ maxDepth) ?_ h
                    intro q hq
                    obtain ⟨l, r'⟩ := q
                    have := parseNumber_sound _ _ _ hq
                    exact ⟨by simp [WFC, validLit, this], by simp only [Cst.depth]; omega⟩
    · intro d bs xs r hd h
      rw [parseElems] at h
      cases hv : parseValue f d bs with
      | none => rw [hv] at h; simp at h
      | some q =>
        obtain ⟨x, r1⟩ := q
        rw [hv] at h
        have hx := ihv _ _ _ _ hd hv
        simp only at h
        split at h
        · simp only [Option.some.injEq, Prod.mk.injEq] at h
          obtain ⟨rfl, rfl⟩ := h
          exact ⟨by simp [WFCL, hx.1], by simp only [Cst.depthL]; omega⟩
        · refine Option.map_sound_aux _ _ _
            (fun p => WFCL p.1 = true ∧ d + Cst.depthL p.1 ≤ maxDepth) ?_ h
          intro q hq
          obtain ⟨xs', r'⟩ := q
          have := ihe _ _ _ _ hd hq
          exact ⟨by simp [WFCL, hx.1, this.1], by simp only [Cst.depthL]; omega⟩
        · simp at h
    · intro d bs ms r hd h
      rw [parseMembers.eq_def] at h
      simp only at h
      split at h
      · rename_i cs
        cases hk : parseStrBody cs with
        | none => rw [hk] at h; simp at h
        | some q =>
          obtain ⟨k, r1⟩ := q
          rw [hk] at h
          have hkv := parseStrBody_sound_A _ _ _ hk
          rw [← validBody_eq_true_iff] at hkv
          simp only at h
          split at h
          · rename_i r2 hs
            cases hv : parseValue f d (skipWs r2) with
            | none => rw [hv] at h; simp at h
            | some q =>
              obtain ⟨v, r3⟩ := q
              rw [hv] at h
              have hx := ihv _ _ _ _ hd hv
              simp only at h
              split at h
              · simp only [Option.some.injEq, Prod.mk.injEq] at h
                obtain ⟨rfl, rfl⟩ := h
                exact ⟨by simp [WFCM, hx.1, hkv], by simp only [Cst.depthM]; omega⟩
              · refine Option.map_sound_aux _ _ _
                  (fun p => WFCM p.1 = true ∧ d + Cst.depthM p.1 ≤ maxDepth) ?_ h
                intro q hq
                obtain ⟨ms', r'⟩ := q
                have := ihm _ _ _ _ hd hq
                exact ⟨by simp [WFCM, hx.1, this.1, hkv], by simp only [Cst.depthM]; omega⟩
              · simp at h
          · simp at h
      · simp at h

/-- **the reference parser only produces well-formed trees**, of depth at most `maxDepth` -/
theorem parseCst_wfc_A (bs : Bytes) (c : Cst) (h : parseCst bs = some c) :
    WFC c = true ∧ c.depth ≤ maxDepth := by
  unfold parseCst at h
  cases hv : parseValue (bs.length + 1) 0 (skipWs bs) with
  | none => rw [hv] at h; simp at h
  | some q =>
    obtain ⟨c', r⟩ := q
    rw [hv] at h
    simp only at h
    split at h
    · simp only [Option.some.injEq] at h
      subst h
      have := (parse_sound_aux_A _).1 0 _ _ _ (Nat.zero_le _) hv
      exact ⟨this.1, by omega⟩
    · cases h

end JP
