import JP.Lemmas.TypedBasic
import JP.Lemmas.TextBody
import JP.Lemmas.TextClean
import JP.Lemmas.TransduceEsc
import JP.Lemmas.TextParseNum
import JP.Lemmas.EncodeNumber

/-!
# Typed encoder: the leaves are valid bodies / literals
-/

namespace JP
namespace Codec
namespace Typed

/-! ## 1, 2: names -/

theorem okByte_iff (c : UInt8) : okByte c = true ↔ c ≠ 34 ∧ c ≠ 92 ∧ 32 ≤ c.toNat := by
  simp [okByte, and_assoc]

theorem VB_of_nameOk : ∀ (n : Bytes), nameOk n = true → VB n
  | [], _ => VB_nil
  | c :: rest, h => by
    simp only [nameOk, List.all_cons, Bool.and_eq_true] at h
    have hc := (okByte_iff c).1 h.1
    have ih := VB_of_nameOk rest (by simpa [nameOk] using h.2)
    exact (VB_plain_iff c rest hc.2.1).2 ⟨hc.1, hc.2.2, ih⟩

theorem validBody_of_nameOk (n : Bytes) (h : nameOk n = true) : validBody n = true :=
  (validBody_eq_true_iff n).2 (VB_of_nameOk n h)

theorem validBody_htmlEscape_of_nameOk (n : Bytes) (h : nameOk n = true) :
    validBody (Scanner.htmlEscape 0 n) = true := by
  rw [JP.htmlEscape_eq_escBody]
  exact (validBody_eq_true_iff _).2 (VB_escBody n.length n (Nat.le_refl _) (VB_of_nameOk n h))

/-! ## 9: closed facts -/

theorem validBody_true : validBody (ascii "true") = true := by decide
theorem validBody_false : validBody (ascii "false") = true := by decide
theorem validLit_true : validLit (ascii "true") = true := by decide
theorem validLit_false : validLit (ascii "false") = true := by decide
theorem validLit_null : validLit (ascii "null") = true := by decide

/-! ## 3: decimal digits -/

theorem isDigit_ofNat (n : Nat) (h : n < 10) : isDigit (UInt8.ofNat (48 + n)) = true := by
  simp only [isDigit, UInt8.toNat_ofNat', Bool.and_eq_true, decide_eq_true_eq]
  omega

theorem ofNat_eq_48 (n : Nat) (h : n < 10) (e : UInt8.ofNat (48 + n) = 48) : n = 0 := by
  have := congrArg UInt8.toNat e
  simp only [UInt8.toNat_ofNat'] at this
  have h48 : (48 : UInt8).toNat = 48 := rfl
  rw [h48] at this
  omega

theorem decGo_spec : ∀ (fuel n : Nat) (acc : Bytes), n < fuel →
    ∃ d, decGo fuel n acc = d ++ acc ∧ d.all isDigit = true ∧ d ≠ [] ∧
      (d.head? = some 48 → n = 0 ∧ d = [48]) := by
  intro fuel
  induction fuel with
  | zero => intro n acc h; omega
  | succ fuel ih =>
    intro n acc h
    rw [decGo.eq_def]
    simp only
    by_cases hn : n < 10
    · rw [if_pos hn]
      refine ⟨[UInt8.ofNat (48 + n)], rfl, ?_, by simp, ?_⟩
      · simp only [List.all_cons, List.all_nil, Bool.and_true]
        exact isDigit_ofNat n hn
      · intro h0
        simp only [List.head?_cons, Option.some.injEq] at h0
        have := ofNat_eq_48 n hn h0
        subst this
        exact ⟨rfl, rfl⟩
    · rw [if_neg hn]
      have hlt : n / 10 < fuel := by omega
      obtain ⟨d, hd, hall, hne, hz⟩ := ih (n / 10) (UInt8.ofNat (48 + n % 10) :: acc) hlt
      refine ⟨d ++ [UInt8.ofNat (48 + n % 10)], ?_, ?_, by simp, ?_⟩
      · rw [hd]; simp
      · simp only [List.all_append, hall, List.all_cons, List.all_nil, Bool.and_true, Bool.true_and]
        exact isDigit_ofNat _ (by omega)
      · intro h0
        cases d with
        | nil => exact absurd rfl hne
        | cons c t =>
          simp only [List.cons_append, List.head?_cons] at h0
          have := (hz (by simpa using h0)).1
          omega

theorem decimal_digits (n : Nat) : (decimal n).all isDigit = true ∧ decimal n ≠ [] := by
  obtain ⟨d, hd, hall, hne, _⟩ := decGo_spec (n + 1) n [] (Nat.lt_succ_self n)
  simp only [List.append_nil] at hd
  rw [decimal, hd]
  exact ⟨hall, hne⟩

theorem decimal_no_leading_zero (n : Nat) : (decimal n).head? = some 48 → decimal n = [48] := by
  obtain ⟨d, hd, _, _, hz⟩ := decGo_spec (n + 1) n [] (Nat.lt_succ_self n)
  simp only [List.append_nil] at hd
  rw [decimal, hd]
  exact fun h => (hz h).2

/-! ## 4: digit strings are numbers -/

theorem takeDigits_all : ∀ (d : Bytes), d.all isDigit = true → takeDigits d = (d, [])
  | [], _ => rfl
  | c :: t, h => by
    simp only [List.all_cons, Bool.and_eq_true] at h
    simp only [takeDigits, h.1, if_true, takeDigits_all t h.2]

theorem numSign_ne (c : UInt8) (t : Bytes) (h : c ≠ 45) : numSign (c :: t) = ([], c :: t) := by
  unfold numSign
  split
  · rename_i heq; simp only [List.cons.injEq] at heq; exact absurd heq.1 h
  · rfl

theorem numInt_ne (c : UInt8) (t : Bytes) (h0 : c ≠ 48) : numInt (c :: t) =
    if isDigit c then (let (d, r') := takeDigits t; some (c :: d, r')) else none := by
  conv => lhs; unfold numInt
  split
  · rename_i heq; simp only [List.cons.injEq] at heq; exact absurd heq.1 h0
  · rename_i heq; simp only [List.cons.injEq] at heq
    obtain ⟨rfl, rfl⟩ := heq; rfl
  · rename_i heq; simp at heq

theorem numInt_digits (d : Bytes) (hd : d.all isDigit = true) (hne : d ≠ [])
    (hz : d.head? = some 48 → d = [48]) : numInt d = some (d, []) := by
  cases d with
  | nil => exact absurd rfl hne
  | cons c t =>
    by_cases h0 : c = 48
    · subst h0
      rw [hz rfl]; rfl
    · simp only [List.all_cons, Bool.and_eq_true] at hd
      rw [numInt_ne c t h0, if_pos hd.1, takeDigits_all t hd.2]

theorem parseNumber_digits (d : Bytes) (hd : d.all isDigit = true) (hne : d ≠ [])
    (hz : d.head? = some 48 → d = [48]) : parseNumber d = some (d, []) := by
  cases d with
  | nil => exact absurd rfl hne
  | cons c t =>
    have hc : c ≠ 45 := by
      intro e; subst e
      simp only [List.all_cons, Bool.and_eq_true] at hd
      exact absurd hd.1 (by decide)
    rw [parseNumber_eq, numSign_ne c t hc]
    simp only
    rw [numInt_digits (c :: t) hd hne hz]
    simp [numFrac, numExp]

theorem parseNumber_neg_digits (d : Bytes) (hd : d.all isDigit = true) (hne : d ≠ [])
    (hz : d.head? = some 48 → d = [48]) : parseNumber (45 :: d) = some (45 :: d, []) := by
  rw [parseNumber_eq]
  have : numSign (45 :: d) = ([45], d) := rfl
  rw [this]
  simp only
  rw [numInt_digits d hd hne hz]
  simp [numFrac, numExp]

theorem validLit_of_parse (l : Bytes) (h : parseNumber l = some (l, [])) : validLit l = true := by
  simp [validLit, h]

theorem validLit_decimal (n : Nat) : validLit (decimal n) = true :=
  validLit_of_parse _ (parseNumber_digits _ (decimal_digits n).1 (decimal_digits n).2
    (decimal_no_leading_zero n))

theorem validLit_fmtInt (i : Int) : validLit (fmtInt i) = true := by
  unfold fmtInt
  split
  · exact validLit_of_parse _ (parseNumber_neg_digits _ (decimal_digits _).1 (decimal_digits _).2
      (decimal_no_leading_zero _))
  · exact validLit_decimal _

/-! ## 5 -/

theorem okByte_of_isDigit (c : UInt8) (h : isDigit c = true) : okByte c = true := by
  rw [okByte_iff]
  simp only [isDigit, Bool.and_eq_true, decide_eq_true_eq] at h
  refine ⟨?_, ?_, by omega⟩
  · intro e; subst e; have : (34 : UInt8).toNat = 34 := rfl; omega
  · intro e; subst e; have : (92 : UInt8).toNat = 92 := rfl; omega

theorem nameOk_of_digits : ∀ (d : Bytes), d.all isDigit = true → nameOk d = true
  | [], _ => rfl
  | c :: t, h => by
    simp only [List.all_cons, Bool.and_eq_true] at h
    simp only [nameOk, List.all_cons, Bool.and_eq_true]
    exact ⟨okByte_of_isDigit c h.1, nameOk_of_digits t h.2⟩

theorem nameOk_decimal (n : Nat) : nameOk (decimal n) = true :=
  nameOk_of_digits _ (decimal_digits n).1

theorem nameOk_fmtInt (i : Int) : nameOk (fmtInt i) = true := by
  unfold fmtInt
  split
  · simp only [nameOk, List.all_cons, Bool.and_eq_true]
    exact ⟨by decide, nameOk_decimal _⟩
  · exact nameOk_decimal _

theorem validBody_decimal (n : Nat) : validBody (decimal n) = true :=
  validBody_of_nameOk _ (nameOk_decimal n)

theorem validBody_fmtInt (i : Int) : validBody (fmtInt i) = true :=
  validBody_of_nameOk _ (nameOk_fmtInt i)

/-! ## 6: base64 -/

theorem okByte_ofNat (m : Nat) (h1 : 32 ≤ m) (h2 : m < 256) (h3 : m ≠ 34) (h4 : m ≠ 92) :
    okByte (UInt8.ofNat m) = true := by
  rw [okByte_iff]
  have ht : (UInt8.ofNat m).toNat = m := by
    simp only [UInt8.toNat_ofNat']; omega
  refine ⟨?_, ?_, by omega⟩
  · intro e; rw [e] at ht; have : (34 : UInt8).toNat = 34 := rfl; omega
  · intro e; rw [e] at ht; have : (92 : UInt8).toNat = 92 := rfl; omega

theorem okByte_b64Char (n : Nat) : okByte (b64Char n) = true := by
  unfold b64Char
  split
  · exact okByte_ofNat _ (by omega) (by omega) (by omega) (by omega)
  · split
    · exact okByte_ofNat _ (by omega) (by omega) (by omega) (by omega)
    · split
      · exact okByte_ofNat _ (by omega) (by omega) (by omega) (by omega)
      · split <;> decide

theorem nameOk_base64 : ∀ (b : Bytes), nameOk (base64 b) = true
  | [] => rfl
  | [a] => by
    simp only [base64, nameOk, List.all_cons, List.all_nil, okByte_b64Char, Bool.and_true, Bool.true_and]
    decide
  | [a, b] => by
    simp only [base64, nameOk, List.all_cons, List.all_nil, okByte_b64Char, Bool.and_true, Bool.true_and]
    decide
  | a :: b :: c :: rest => by
    have ih := nameOk_base64 rest
    simp only [nameOk] at ih
    simp only [base64, nameOk, List.all_cons, okByte_b64Char, Bool.true_and, ih]

theorem validBody_base64 (b : Bytes) : validBody (base64 b) = true :=
  validBody_of_nameOk _ (nameOk_base64 b)

/-! ## 7: valid numbers -/

theorem nameOk_append (a b : Bytes) (ha : nameOk a = true) (hb : nameOk b = true) :
    nameOk (a ++ b) = true := by
  simp only [nameOk, List.all_append, Bool.and_eq_true] at *
  exact ⟨ha, hb⟩

theorem nameOk_cons (c : UInt8) (b : Bytes) (hc : okByte c = true) (hb : nameOk b = true) :
    nameOk (c :: b) = true := by
  simp only [nameOk, List.all_cons, Bool.and_eq_true] at *
  exact ⟨hc, hb⟩

theorem takeDigits_fst_digits : ∀ (x : Bytes), (takeDigits x).1.all isDigit = true
  | [] => rfl
  | c :: t => by
    simp only [takeDigits]
    by_cases hc : isDigit c = true
    · simp only [hc, if_true, List.all_cons, Bool.true_and]
      exact takeDigits_fst_digits t
    · simp only [hc]; rfl

theorem nameOk_takeDigits (x : Bytes) : nameOk (takeDigits x).1 = true :=
  nameOk_of_digits _ (takeDigits_fst_digits x)

theorem nameOk_numSign (x : Bytes) : nameOk (numSign x).1 = true := by
  unfold numSign
  split <;> simp only <;> decide

theorem nameOk_numInt (x ip r : Bytes) (h : numInt x = some (ip, r)) : nameOk ip = true := by
  unfold numInt at h
  split at h
  · simp only [Option.some.injEq, Prod.mk.injEq] at h
    obtain ⟨rfl, _⟩ := h; decide
  · rename_i c t _
    split at h
    · rename_i hc
      simp only [Option.some.injEq, Prod.mk.injEq] at h
      obtain ⟨rfl, _⟩ := h
      exact nameOk_cons _ _ (okByte_of_isDigit c hc) (nameOk_takeDigits t)
    · simp at h
  · simp at h

theorem nameOk_numFrac (x fp r : Bytes) (h : numFrac x = some (fp, r)) : nameOk fp = true := by
  unfold numFrac at h
  split at h
  · rename_i t
    simp only at h
    split at h
    · simp at h
    · simp only [Option.some.injEq, Prod.mk.injEq] at h
      obtain ⟨rfl, _⟩ := h
      exact nameOk_cons _ _ (by decide) (nameOk_takeDigits t)
  · simp only [Option.some.injEq, Prod.mk.injEq] at h
    obtain ⟨rfl, _⟩ := h; rfl

theorem nameOk_numExpSign (x : Bytes) : nameOk (numExpSign x).1 = true := by
  unfold numExpSign
  split <;> simp only <;> decide

theorem nameOk_numExp (x ep r : Bytes) (h : numExp x = some (ep, r)) : nameOk ep = true := by
  cases x with
  | nil =>
    simp only [numExp, Option.some.injEq, Prod.mk.injEq] at h
    obtain ⟨rfl, _⟩ := h; rfl
  | cons e t =>
    simp only [numExp] at h
    by_cases he : e = 101 ∨ e = 69
    · simp only [he, if_true] at h
      split at h
      · simp at h
      · simp only [Option.some.injEq, Prod.mk.injEq] at h
        obtain ⟨rfl, _⟩ := h
        refine nameOk_cons _ _ ?_ (nameOk_append _ _ (nameOk_numExpSign t) (nameOk_takeDigits _))
        cases he with
        | inl he => subst he; decide
        | inr he => subst he; decide
    · simp only [he, if_false, Option.some.injEq, Prod.mk.injEq] at h
      obtain ⟨rfl, _⟩ := h; rfl

theorem nameOk_of_parseNumber (x l r : Bytes) (h : parseNumber x = some (l, r)) : nameOk l = true := by
  rw [parseNumber_eq] at h
  cases h1 : numInt (numSign x).2 with
  | none => rw [h1] at h; simp at h
  | some q1 =>
    obtain ⟨ip, r1⟩ := q1
    rw [h1] at h
    simp only at h
    cases h2 : numFrac r1 with
    | none => rw [h2] at h; simp at h
    | some q2 =>
      obtain ⟨fp, r2⟩ := q2
      rw [h2] at h
      simp only at h
      cases h3 : numExp r2 with
      | none => rw [h3] at h; simp at h
      | some q3 =>
        obtain ⟨ep, r3⟩ := q3
        rw [h3] at h
        simp only [Option.some.injEq, Prod.mk.injEq] at h
        obtain ⟨rfl, _⟩ := h
        exact nameOk_append _ _ (nameOk_append _ _ (nameOk_append _ _ (nameOk_numSign x)
          (nameOk_numInt _ _ _ h1)) (nameOk_numFrac _ _ _ h2)) (nameOk_numExp _ _ _ h3)

theorem parseNumber_of_isValidNumber (s : Bytes) (h : Enc.isValidNumber s = true) :
    parseNumber s = some (s, []) := by
  rw [Enc.isValidNumber_validNum] at h
  simpa [validNum] using h

theorem nameOk_of_isValidNumber (s : Bytes) (h : Enc.isValidNumber s = true) : nameOk s = true :=
  nameOk_of_parseNumber s s [] (parseNumber_of_isValidNumber s h)

theorem validBody_of_isValidNumber (s : Bytes) (h : Enc.isValidNumber s = true) :
    validBody s = true :=
  validBody_of_nameOk s (nameOk_of_isValidNumber s h)

theorem validLit_of_isValidNumber (s : Bytes) (h : Enc.isValidNumber s = true) :
    validLit s = true :=
  validLit_of_parse s (parseNumber_of_isValidNumber s h)

/-! ## 8: tag names -/

set_option maxRecDepth 100000 in
theorem validTagRune_ascii_table :
    ∀ n : Fin 128, validTagRune n.val = true → okByte (UInt8.ofNat n.val) = true := by
  decide +kernel

theorem okByte_of_validTagRune (b : UInt8) (h : b.toNat < 128) (hv : validTagRune b.toNat = true) :
    okByte b = true := by
  have := validTagRune_ascii_table ⟨b.toNat, h⟩ hv
  simpa using this

theorem okByte_hi (c : UInt8) (h : 128 ≤ c.toNat) : okByte c = true := by
  rw [okByte_iff]
  refine ⟨?_, ?_, by omega⟩
  · intro e; subst e; have : (34 : UInt8).toNat = 34 := rfl; omega
  · intro e; subst e; have : (92 : UInt8).toNat = 92 := rfl; omega

theorem isCont_hi (lo hi : Nat) (b : UInt8) (h : isCont lo hi b = true) (hl : 128 ≤ lo) :
    okByte b = true := by
  simp only [isCont, Bool.and_eq_true, decide_eq_true_eq] at h
  exact okByte_hi b (by omega)

theorem nameOk1 (a : UInt8) (rest : Bytes) (h : okByte a = true) :
    nameOk ((a :: rest).take 1) = true := by
  simp [nameOk, h]

theorem decodeRune_take_hi (p0 : UInt8) (rest : Bytes) (h : 128 ≤ p0.toNat) :
    nameOk ((p0 :: rest).take (decodeRune (p0 :: rest)).2) = true := by
  have h0 := okByte_hi p0 h
  have one := nameOk1 p0 rest h0
  rw [decodeRune.eq_def]
  simp only
  split
  · omega
  · split
    · exact one
    · split
      · split
        · rename_i b1 t
          split
          · rename_i hc
            have := isCont_hi _ _ _ hc (by omega)
            simp [nameOk, h0, this]
          · exact one
        · exact one
      · split
        · split
          · rename_i b1 b2 t
            split <;> split <;> split <;> first
              | exact one
              | (rename_i hc
                 simp only [Bool.and_eq_true] at hc
                 have k1 := isCont_hi _ _ _ hc.1 (by omega)
                 have k2 := isCont_hi _ _ _ hc.2 (by omega)
                 simp [nameOk, h0, k1, k2])
          · exact one
        · split
          · split
            · rename_i b1 b2 b3 t
              split <;> split <;> split <;> first
                | exact one
                | (rename_i hc
                   simp only [Bool.and_eq_true] at hc
                   have k1 := isCont_hi _ _ _ hc.1.1 (by omega)
                   have k2 := isCont_hi _ _ _ hc.1.2 (by omega)
                   have k3 := isCont_hi _ _ _ hc.2 (by omega)
                   simp [nameOk, h0, k1, k2, k3])
            · exact one
          · exact one

theorem decodeRune_lo (p0 : UInt8) (rest : Bytes) (h : p0.toNat < 128) :
    decodeRune (p0 :: rest) = (p0.toNat, 1) := by
  rw [decodeRune.eq_def]
  simp only
  rw [if_pos (by omega)]

theorem decodeRune_take_ok (b : UInt8) (rest : Bytes)
    (hv : validTagRune (decodeRune (b :: rest)).1 = true) :
    nameOk ((b :: rest).take (decodeRune (b :: rest)).2) = true := by
  by_cases h : b.toNat < 128
  · rw [decodeRune_lo b rest h] at hv ⊢
    exact nameOk1 b rest (okByte_of_validTagRune b h hv)
  · exact decodeRune_take_hi b rest (by omega)

theorem nameOk_of_isValidTagGo : ∀ (fuel : Nat) (s : Bytes), isValidTagGo fuel s = true → nameOk s = true := by
  intro fuel
  induction fuel with
  | zero => intro s h; simp [isValidTagGo] at h
  | succ fuel ih =>
    intro s h
    cases s with
    | nil => rfl
    | cons b rest =>
      rw [isValidTagGo] at h
      by_cases hv : validTagRune (decodeRune (b :: rest)).1 = true
      · rw [if_pos hv] at h
        have h1 := decodeRune_take_ok b rest hv
        have h2 := ih _ h
        have := nameOk_append _ _ h1 h2
        rwa [List.take_append_drop] at this
      · rw [if_neg hv] at h; exact absurd h (by decide)

theorem nameOk_of_isValidTag (s : Bytes) (h : isValidTag s = true) : nameOk s = true := by
  unfold isValidTag at h
  split at h
  · exact absurd h (by decide)
  · exact nameOk_of_isValidTagGo _ s h

end Typed
end Codec
end JP
