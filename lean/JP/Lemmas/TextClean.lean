import JP.Lemmas.TextTree

/-!
# C15: the compact print of an escaped tree has no raw HTML-sensitive bytes
-/

namespace JP

/-! ### the characters of a number literal -/

def numChar (c : UInt8) : Prop := isDigit c = true ∨ c = 45 ∨ c = 43 ∨ c = 46 ∨ c = 101 ∨ c = 69

instance (c : UInt8) : Decidable (numChar c) := by unfold numChar; infer_instance

set_option maxRecDepth 100000 in
theorem numChar_plain : ∀ c : UInt8, numChar c → plainByte c ∧ c.toNat < 0x80 := by
  apply byte_forall; decide

theorem takeDigits_digits : ∀ (x d r : Bytes), takeDigits x = (d, r) → ∀ c ∈ d, isDigit c = true
  | [], d, r, h => by
    simp only [takeDigits, Prod.mk.injEq] at h
    intro c hc; rw [← h.1] at hc; cases hc
  | a :: x, d, r, h => by
    simp only [takeDigits] at h
    split at h
    · rename_i ha
      cases hx : takeDigits x with
      | mk d' r' =>
        rw [hx] at h
        simp only [Prod.mk.injEq] at h
        intro c hc
        rw [← h.1] at hc
        rcases List.mem_cons.1 hc with rfl | hc
        · exact ha
        · exact takeDigits_digits x d' r' hx c hc
    · simp only [Prod.mk.injEq] at h
      intro c hc; rw [← h.1] at hc; cases hc

theorem numSign_chars (bs : Bytes) : ∀ c ∈ (numSign bs).1, numChar c := by
  unfold numSign; split
  · intro c hc; simp at hc; subst hc; decide
  · intro c hc; cases hc

theorem numInt_chars (x p r : Bytes) (h : numInt x = some (p, r)) : ∀ c ∈ p, numChar c := by
  unfold numInt at h; split at h
  · simp only [Option.some.injEq, Prod.mk.injEq] at h
    intro c hc; rw [← h.1] at hc; simp at hc; subst hc; decide
  · split at h
    · rename_i c' r' _ hd
      cases hx : takeDigits r' with
      | mk d r'' =>
        rw [hx] at h
        simp only [Option.some.injEq, Prod.mk.injEq] at h
        intro c hc; rw [← h.1] at hc
        rcases List.mem_cons.1 hc with rfl | hc
        · exact Or.inl hd
        · exact Or.inl (takeDigits_digits _ _ _ hx c hc)
    · cases h
  · cases h

theorem numFrac_chars (x p r : Bytes) (h : numFrac x = some (p, r)) : ∀ c ∈ p, numChar c := by
  unfold numFrac at h; split at h
  · rename_i r'
    cases hx : takeDigits r' with
    | mk d r'' =>
      rw [hx] at h
      simp only at h
      split at h
      · cases h
      · simp only [Option.some.injEq, Prod.mk.injEq] at h
        intro c hc; rw [← h.1] at hc
        rcases List.mem_cons.1 hc with rfl | hc
        · decide
        · exact Or.inl (takeDigits_digits _ _ _ hx c hc)
  · simp only [Option.some.injEq, Prod.mk.injEq] at h
    intro c hc; rw [← h.1] at hc; cases hc

theorem numExpSign_chars (bs : Bytes) : ∀ c ∈ (numExpSign bs).1, numChar c := by
  unfold numExpSign; split
  · intro c hc; simp at hc; subst hc; decide
  · intro c hc; simp at hc; subst hc; decide
  · intro c hc; cases hc

theorem numExp_chars (x p r : Bytes) (h : numExp x = some (p, r)) : ∀ c ∈ p, numChar c := by
  unfold numExp at h; split at h
  · rename_i e r'
    split at h
    · rename_i he
      cases hs : numExpSign r' with
      | mk sg r1 =>
        cases hx : takeDigits r1 with
        | mk d r2 =>
          rw [hs] at h; simp only at h; rw [hx] at h; simp only at h
          split at h
          · cases h
          · simp only [Option.some.injEq, Prod.mk.injEq] at h
            intro c hc; rw [← h.1] at hc
            rcases List.mem_cons.1 hc with rfl | hc
            · rcases he with rfl | rfl <;> decide
            · rcases List.mem_append.1 hc with hc | hc
              · have := numExpSign_chars r'; rw [hs] at this; exact this c hc
              · exact Or.inl (takeDigits_digits _ _ _ hx c hc)
    · simp only [Option.some.injEq, Prod.mk.injEq] at h
      intro c hc; rw [← h.1] at hc; cases hc
  · simp only [Option.some.injEq, Prod.mk.injEq] at h
    intro c hc; rw [← h.1] at hc; cases hc

theorem parseNumber_chars (bs l r : Bytes) (h : parseNumber bs = some (l, r)) : ∀ c ∈ l, numChar c := by
  rw [parseNumber_eq] at h
  cases h1 : numInt (numSign bs).2 with
  | none => rw [h1] at h; cases h
  | some p1 =>
    obtain ⟨ip, r1⟩ := p1
    rw [h1] at h; simp only at h
    cases h2 : numFrac r1 with
    | none => rw [h2] at h; cases h
    | some p2 =>
      obtain ⟨fp, r2⟩ := p2
      rw [h2] at h; simp only at h
      cases h3 : numExp r2 with
      | none => rw [h3] at h; cases h
      | some p3 =>
        obtain ⟨ep, r3⟩ := p3
        rw [h3] at h; simp only [Option.some.injEq, Prod.mk.injEq] at h
        intro c hc; rw [← h.1] at hc
        simp only [List.mem_append] at hc
        rcases hc with ((hc | hc) | hc) | hc
        · exact numSign_chars bs c hc
        · exact numInt_chars _ _ _ h1 c hc
        · exact numFrac_chars _ _ _ h2 c hc
        · exact numExp_chars _ _ _ h3 c hc


/-! ### `hasRawHtml` and concatenation -/

theorem hasRawHtml_all_plain : ∀ (l : Bytes), (∀ c ∈ l, plainByte c) → hasRawHtml l = false
  | [], _ => rfl
  | c :: l, h => by
    rw [hasRawHtml_plain c l (h c (List.mem_cons_self ..))]
    exact hasRawHtml_all_plain l (fun x hx => h x (List.mem_cons_of_mem _ hx))

/-- empty, or starting with an ASCII byte -/
def asciiHead : Bytes → Prop
  | [] => True
  | c :: _ => c.toNat < 0x80

theorem hasRawHtml_false_cons (c : UInt8) (cs : Bytes) :
    hasRawHtml (c :: cs) = false ↔
      (c ≠ 60 ∧ c ≠ 62 ∧ c ≠ 38) ∧ (c = 0xE2 → cs.take 2 ≠ [0x80, 0xA8] ∧ cs.take 2 ≠ [0x80, 0xA9]) ∧
      hasRawHtml cs = false := by
  rw [hasRawHtml_cons]
  simp only [Bool.or_eq_false_iff, Bool.and_eq_false_iff, decide_eq_false_iff_not, beq_eq_false_iff_ne, ne_eq]
  constructor
  · rintro ⟨⟨⟨⟨h1, h2⟩, h3⟩, h4⟩, h5⟩
    refine ⟨⟨h1, h2, h3⟩, fun hc => ?_, h5⟩
    rcases h4 with h4 | h4
    · exact absurd hc h4
    · exact h4
  · rintro ⟨⟨h1, h2, h3⟩, h4, h5⟩
    refine ⟨⟨⟨⟨h1, h2⟩, h3⟩, ?_⟩, h5⟩
    by_cases hc : c = 0xE2
    · right; exact h4 hc
    · left; exact hc

/-- a window of `a ++ b` that straddles the seam would need a non-ASCII byte at the head of `b` -/
theorem take2_append_ne (a b : Bytes) (x : UInt8) (hx : 0x80 ≤ x.toNat) (hb : asciiHead b)
    (h : a.take 2 ≠ [0x80, x]) : (a ++ b).take 2 ≠ [0x80, x] := by
  rcases a with _ | ⟨a0, _ | ⟨a1, a⟩⟩
  · cases b with
    | nil => simp
    | cons c b =>
      simp only [asciiHead] at hb
      intro he
      simp only [List.nil_append] at he
      rcases b with _ | ⟨d, b⟩
      · simp at he
      · simp only [List.take_succ_cons, List.take_zero, List.cons.injEq, and_true] at he
        rw [he.1] at hb; revert hb; decide
  · cases b with
    | nil => simp
    | cons c b =>
      simp only [asciiHead] at hb
      intro he
      simp only [List.cons_append, List.nil_append, List.take_succ_cons, List.take_zero, List.cons.injEq, and_true] at he
      rw [he.2] at hb; omega
  · simpa using h

theorem hasRawHtml_append : ∀ (a b : Bytes), hasRawHtml a = false → hasRawHtml b = false → asciiHead b →
    hasRawHtml (a ++ b) = false
  | [], b, _, hb, _ => hb
  | c :: a, b, ha, hb, hh => by
    rw [hasRawHtml_false_cons] at ha
    rw [List.cons_append, hasRawHtml_false_cons]
    refine ⟨ha.1, fun hc => ?_, hasRawHtml_append a b ha.2.2 hb hh⟩
    exact ⟨take2_append_ne a b _ (by decide) hh (ha.2.1 hc).1, take2_append_ne a b _ (by decide) hh (ha.2.1 hc).2⟩


/-! ### printing an escaped tree -/

theorem hasRawHtml_validLit (l : Bytes) (h : validLit l = true) : hasRawHtml l = false := by
  rcases validLit_cases l h with rfl | rfl | rfl | hn
  · decide
  · decide
  · decide
  · exact hasRawHtml_all_plain l (fun c hc => (numChar_plain c (parseNumber_chars l l [] hn c hc)).1)

theorem hasRawHtml_quoted (k X : Bytes) (hX : hasRawHtml X = false) :
    hasRawHtml (34 :: (escBody k ++ 34 :: X)) = false := by
  rw [hasRawHtml_plain _ _ (by decide)]
  apply hasRawHtml_append _ _ (escBody_clean k)
  · rw [hasRawHtml_plain _ _ (by decide)]; exact hX
  · show (34 : UInt8).toNat < 0x80; decide

theorem hasRawHtml_snoc (a : Bytes) (c : UInt8) (hc : plainByte c) (h7 : c.toNat < 0x80) (ha : hasRawHtml a = false) :
    hasRawHtml (a ++ [c]) = false := by
  apply hasRawHtml_append _ _ ha
  · rw [hasRawHtml_plain _ _ hc]; rfl
  · exact h7

theorem hasRawHtml_sep (a X : Bytes) (c : UInt8) (hc : plainByte c) (h7 : c.toNat < 0x80)
    (ha : hasRawHtml a = false) (hX : hasRawHtml X = false) : hasRawHtml (a ++ c :: X) = false := by
  apply hasRawHtml_append _ _ ha
  · rw [hasRawHtml_plain _ _ hc]; exact hX
  · exact h7

mutual
theorem print_escape_clean : ∀ (c : Cst), WFC c = true → hasRawHtml (Cst.print (Cst.escape true c)) = false
  | .lit s, h => by
    simp only [WFC] at h
    simp only [Cst.escape, Cst.print]; exact hasRawHtml_validLit s h
  | .str b, _ => by
    simp only [Cst.escape, Cst.print, if_true, List.cons_append]
    exact hasRawHtml_quoted b [] rfl
  | .arr xs, h => by
    simp only [WFC] at h
    simp only [Cst.escape, Cst.print]
    rw [List.cons_append, hasRawHtml_plain _ _ (by decide)]
    exact hasRawHtml_snoc _ _ (by decide) (by decide) (printL_escape_clean xs h)
  | .obj ms, h => by
    simp only [WFC] at h
    simp only [Cst.escape, Cst.print]
    rw [List.cons_append, hasRawHtml_plain _ _ (by decide)]
    exact hasRawHtml_snoc _ _ (by decide) (by decide) (printM_escape_clean ms h)
theorem printL_escape_clean : ∀ (xs : List Cst), WFCL xs = true →
    hasRawHtml (Cst.printL (Cst.escapeL true xs)) = false
  | [], _ => rfl
  | x :: xs, h => by
    simp only [WFCL, Bool.and_eq_true] at h
    have ih := printL_escape_clean xs h.2
    have ihx := print_escape_clean x h.1
    cases xs with
    | nil => simp only [Cst.escapeL, Cst.printL]; exact ihx
    | cons y ys =>
      simp only [Cst.escapeL, Cst.printL] at ih ⊢
      exact hasRawHtml_sep _ _ 44 (by decide) (by decide) ihx ih
theorem printM_escape_clean : ∀ (ms : List (Bytes × Cst)), WFCM ms = true →
    hasRawHtml (Cst.printM (Cst.escapeM true ms)) = false
  | [], _ => rfl
  | (k, v) :: ms, h => by
    simp only [WFCM, Bool.and_eq_true] at h
    have ih := printM_escape_clean ms h.2
    have ihv := print_escape_clean v h.1.2
    cases ms with
    | nil =>
      simp only [Cst.escapeM, Cst.printM, if_true, List.cons_append]
      apply hasRawHtml_quoted
      rw [hasRawHtml_plain _ _ (by decide)]; exact ihv
    | cons m ms' =>
      obtain ⟨k', v'⟩ := m
      simp only [Cst.escapeM, if_true] at ih
      simp only [Cst.escapeM, Cst.printM, if_true, List.cons_append, List.append_assoc]
      apply hasRawHtml_quoted
      rw [hasRawHtml_plain _ _ (by decide)]
      exact hasRawHtml_sep _ _ 44 (by decide) (by decide) ihv ih
end


/-! ### escaping keeps trees well formed -/

/-- escaping keeps a body valid -/
theorem VB_escBody : ∀ (n : Nat) (b : Bytes), b.length ≤ n → VB b → VB (escBody b) := by
  intro n
  induction n with
  | zero =>
    intro b hn h
    cases b with
    | nil => exact h
    | cons _ _ => simp at hn
  | succ n ih =>
    intro b hn h
    rcases VB_cases b h with rfl | ⟨c, r, rfl, h92, h34, h32, hr⟩ | ⟨e, r, rfl, he, hr⟩ |
        ⟨g1, g2, g3, g4, r, rfl, x1, x2, x3, x4, hr⟩
    · exact h
    · simp only [List.length_cons] at hn
      rcases escBody_cases c r with ⟨hc, _⟩ | ⟨t, rfl, rfl, he⟩ | ⟨t, rfl, rfl, he⟩ | ⟨hns, _, he⟩
      · have ihr := ih r (by omega) hr
        rcases hc with rfl | rfl | rfl
        · rw [escBody_lt]; exact (VB_u_iff _ _ _ _ _).2 ⟨⟨by decide, by decide, by decide, by decide⟩, ihr⟩
        · rw [escBody_gt]; exact (VB_u_iff _ _ _ _ _).2 ⟨⟨by decide, by decide, by decide, by decide⟩, ihr⟩
        · rw [escBody_amp]; exact (VB_u_iff _ _ _ _ _).2 ⟨⟨by decide, by decide, by decide, by decide⟩, ihr⟩
      · have ht : VB t := by
          have := ((VB_plain_iff _ _ (by decide)).1 hr).2.2
          exact ((VB_plain_iff _ _ (by decide)).1 this).2.2
        simp only [List.length_cons] at hn
        rw [he]; exact (VB_u_iff _ _ _ _ _).2 ⟨⟨by decide, by decide, by decide, by decide⟩, ih t (by omega) ht⟩
      · have ht : VB t := by
          have := ((VB_plain_iff _ _ (by decide)).1 hr).2.2
          exact ((VB_plain_iff _ _ (by decide)).1 this).2.2
        simp only [List.length_cons] at hn
        rw [he]; exact (VB_u_iff _ _ _ _ _).2 ⟨⟨by decide, by decide, by decide, by decide⟩, ih t (by omega) ht⟩
      · rw [he]; exact (VB_plain_iff c _ h92).2 ⟨h34, h32, ih r (by omega) hr⟩
    · have hp := simpleEsc_plain e he
      simp only [List.length_cons] at hn
      rw [escBody_plain _ _ (by decide), escBody_plain _ _ hp.1]
      exact (VB_simple_iff e _ he).2 (ih r (by omega) hr)
    · simp only [List.length_cons] at hn
      rw [escBody_plain _ _ (by decide), escBody_plain _ _ (by decide), escBody_plain _ _ (isHex_plain _ x1).1,
          escBody_plain _ _ (isHex_plain _ x2).1, escBody_plain _ _ (isHex_plain _ x3).1,
          escBody_plain _ _ (isHex_plain _ x4).1]
      exact (VB_u_iff _ _ _ _ _).2 ⟨⟨x1, x2, x3, x4⟩, ih r (by omega) hr⟩

theorem validBody_escIf (e : Bool) (b : Bytes) (h : validBody b = true) :
    validBody (if e then escBody b else b) = true := by
  cases e with
  | false => exact h
  | true => exact (validBody_iff _).2 (VB_escBody _ b (Nat.le_refl _) ((validBody_iff b).1 h))

mutual
theorem WFC_escape (e : Bool) : ∀ (c : Cst), WFC c = true → WFC (Cst.escape e c) = true
  | .lit s, h => by simpa only [Cst.escape] using h
  | .str b, h => by
    simp only [WFC] at h
    simp only [Cst.escape, WFC, validBody_escIf e b h]
  | .arr xs, h => by
    simp only [WFC] at h
    simp only [Cst.escape, WFC, WFCL_escapeL e xs h]
  | .obj ms, h => by
    simp only [WFC] at h
    simp only [Cst.escape, WFC, WFCM_escapeM e ms h]
theorem WFCL_escapeL (e : Bool) : ∀ (xs : List Cst), WFCL xs = true → WFCL (Cst.escapeL e xs) = true
  | [], _ => by simp only [Cst.escapeL, WFCL]
  | x :: xs, h => by
    simp only [WFCL, Bool.and_eq_true] at h
    simp only [Cst.escapeL, WFCL, WFC_escape e x h.1, WFCL_escapeL e xs h.2, Bool.and_self]
theorem WFCM_escapeM (e : Bool) : ∀ (ms : List (Bytes × Cst)), WFCM ms = true → WFCM (Cst.escapeM e ms) = true
  | [], _ => by simp only [Cst.escapeM, WFCM]
  | (k, v) :: ms, h => by
    simp only [WFCM, Bool.and_eq_true] at h
    simp only [Cst.escapeM, WFCM, validBody_escIf e k h.1.1, WFC_escape e v h.1.2, WFCM_escapeM e ms h.2,
      Bool.and_self]
end

mutual
theorem depth_escape (e : Bool) : ∀ (c : Cst), (Cst.escape e c).depth = c.depth
  | .lit _ => by simp only [Cst.escape]
  | .str _ => by simp only [Cst.escape, Cst.depth]
  | .arr xs => by simp only [Cst.escape, Cst.depth, depthL_escapeL e xs]
  | .obj ms => by simp only [Cst.escape, Cst.depth, depthM_escapeM e ms]
theorem depthL_escapeL (e : Bool) : ∀ (xs : List Cst), Cst.depthL (Cst.escapeL e xs) = Cst.depthL xs
  | [] => by simp only [Cst.escapeL]
  | x :: xs => by simp only [Cst.escapeL, Cst.depthL, depth_escape e x, depthL_escapeL e xs]
theorem depthM_escapeM (e : Bool) : ∀ (ms : List (Bytes × Cst)), Cst.depthM (Cst.escapeM e ms) = Cst.depthM ms
  | [] => by simp only [Cst.escapeM]
  | (k, v) :: ms => by simp only [Cst.escapeM, Cst.depthM, depth_escape e v, depthM_escapeM e ms]
end


end JP
