import JP.Driver

/-!
# Lemmas for C20: the fold structure of `Driver.cliRun`
-/

namespace JP
namespace CliLemmas

/-- `jsonpatch.DecodePatch(bs)` with the error dropped -/
def decode (t : Bytes) : Option (List Impl.Op) :=
  match Impl.decodePatch t with
  | .ok ops => some ops
  | _ => none

/-- `patch.Apply(doc)` (default options, no indent) with the error dropped -/
def applyOne (d : Bytes) (ops : List Impl.Op) : Option Bytes :=
  match Impl.applyBytes {} [] d ops with
  | .ok out => some out
  | _ => none

/-- the loop `for _, patch := range patches { mdoc, err = patch.Apply(mdoc) … }` -/
def foldApply : Bytes → List (List Impl.Op) → Option Bytes
  | d, [] => some d
  | d, p :: ps =>
    match applyOne d p with
    | some out => foldApply out ps
    | none => none

/-- the first loop: every file is decoded, in order; the first failure aborts -/
def decodeAll : List Bytes → Option (List (List Impl.Op))
  | [] => some []
  | t :: ts =>
    match decode t, decodeAll ts with
    | some p, some ps => some (p :: ps)
    | _, _ => none

theorem mapM_decode (ts : List Bytes) : ts.mapM decode = decodeAll ts := by
  induction ts with
  | nil => simp [decodeAll]
  | cons t ts ih =>
    simp only [List.mapM_cons, ih, decodeAll]
    cases decode t <;> cases decodeAll ts <;> rfl

theorem decodeAll_append (f g : List Bytes) :
    decodeAll (f ++ g) =
      (match decodeAll f, decodeAll g with
       | some ps, some qs => some (ps ++ qs)
       | _, _ => none) := by
  induction f with
  | nil => simp only [List.nil_append, decodeAll]; cases decodeAll g <;> rfl
  | cons t ts ih =>
    simp only [List.cons_append, decodeAll, ih]
    cases decode t <;> cases decodeAll ts <;> cases decodeAll g <;> rfl

theorem foldApply_append (d : Bytes) (ps qs : List (List Impl.Op)) :
    foldApply d (ps ++ qs) =
      (match foldApply d ps with
       | some mid => foldApply mid qs
       | none => none) := by
  induction ps generalizing d with
  | nil => simp [foldApply]
  | cons p ps ih =>
    simp only [List.cons_append, foldApply]
    cases applyOne d p with
    | none => rfl
    | some out => exact ih out

/-- the step function `cliRun` folds with -/
def step (acc : Option Bytes) (ops : List Impl.Op) : Option Bytes :=
  match acc with
  | none => none
  | some d => match Impl.applyBytes {} [] d ops with | .ok out => some out | _ => none

theorem foldl_step_none (ps : List (List Impl.Op)) : ps.foldl step none = none := by
  induction ps with
  | nil => rfl
  | cons p ps ih => simpa [List.foldl_cons, step] using ih

theorem foldl_step (d : Bytes) (ps : List (List Impl.Op)) :
    ps.foldl step (some d) = foldApply d ps := by
  induction ps generalizing d with
  | nil => rfl
  | cons p ps ih =>
    simp only [List.foldl_cons, foldApply]
    have : step (some d) p = applyOne d p := rfl
    rw [this]
    cases applyOne d p with
    | none => exact foldl_step_none ps
    | some out => exact ih out

theorem cliRun_eq0 (stdin : Bytes) (files : List (Option Bytes)) :
    Driver.cliRun stdin files =
      if files.any Option.isNone then ([], 1)
      else match (files.filterMap id).mapM decode with
        | none => ([], 1)
        | some ps =>
          match ps.foldl step (some stdin) with
          | some out => (out, 0)
          | none => ([], 1) := by
  rfl

/-- `cliRun` in a convenient form -/
theorem cliRun_eq (stdin : Bytes) (files : List (Option Bytes)) :
    Driver.cliRun stdin files =
      if files.any Option.isNone then ([], 1)
      else match decodeAll (files.filterMap id) with
        | none => ([], 1)
        | some ps =>
          match foldApply stdin ps with
          | some out => (out, 0)
          | none => ([], 1) := by
  rw [cliRun_eq0, mapM_decode]
  split
  · rfl
  · cases decodeAll (files.filterMap id) with
    | none => rfl
    | some ps => simp only [foldl_step]

theorem any_isNone_map_some (ts : List Bytes) : (ts.map some).any Option.isNone = false := by
  induction ts with
  | nil => rfl
  | cons t ts ih => simp [ih]

theorem filterMap_map_some (ts : List Bytes) : (ts.map some).filterMap id = ts := by
  induction ts with
  | nil => rfl
  | cons t ts ih => simp

theorem eq_map_some_of_no_none (files : List (Option Bytes)) (h : files.any Option.isNone = false) :
    files = (files.filterMap id).map some := by
  induction files with
  | nil => rfl
  | cons f fs ih =>
    cases f with
    | none => simp at h
    | some t =>
      simp only [List.any_cons, Option.isNone_some, Bool.false_or] at h
      simp only [List.filterMap_cons, id, List.map_cons]
      rw [← ih h]

/-- `cliRun` on files that all exist -/
theorem cliRun_texts (stdin : Bytes) (ts : List Bytes) :
    Driver.cliRun stdin (ts.map some) =
      match decodeAll ts with
      | none => ([], 1)
      | some ps =>
        match foldApply stdin ps with
        | some out => (out, 0)
        | none => ([], 1) := by
  rw [cliRun_eq, any_isNone_map_some, filterMap_map_some]; rfl

end CliLemmas
end JP
