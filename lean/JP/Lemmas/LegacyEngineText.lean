import JP.Lemmas.LegacyEngineRoot
import JP.Lemmas.LegacyEqualText
import JP.Lemmas.TextQuote
import JP.Lemmas.TextEsc
import JP.Lemmas.TextUtf8Tree

/-!
# The text invariant `RawOK` from primitive conditions

A syntax tree all of whose bodies (string values *and* member names) are spelled plainly — no
backslash, quote or control character, none of `<`, `>`, `&`, U+2028, U+2029, valid UTF-8 —
satisfies `RawOK`; a reference token that is valid UTF-8 satisfies `Impl.QK true`.  These are
the conditions under which the harness checks C18 ("no escapes, no raw HTML characters").
-/

namespace JP
namespace Legacy

open Cst

/-- a body spelled plainly -/
def plainText (b : Bytes) : Bool := cleanBody b && isValidUtf8 b && !hasRawHtml b

mutual
/-- every body — string values and member names — is spelled plainly -/
def PlainCst : Cst → Bool
  | .lit _ => true
  | .str b => plainText b
  | .arr xs => PlainCstL xs
  | .obj ms => PlainCstM ms
def PlainCstL : List Cst → Bool
  | [] => true
  | x :: xs => PlainCst x && PlainCstL xs
def PlainCstM : List (Bytes × Cst) → Bool
  | [] => true
  | (k, v) :: ms => plainText k && PlainCst v && PlainCstM ms
end

theorem plainText_iff (b : Bytes) : plainText b = true ↔
    cleanBody b = true ∧ isValidUtf8 b = true ∧ hasRawHtml b = false := by
  simp only [plainText, Bool.and_eq_true, Bool.not_eq_true', and_assoc]

theorem unquote_of_plainText {b : Bytes} (h : plainText b = true) : unquote b = b := by
  obtain ⟨h1, h2, _⟩ := (plainText_iff b).1 h
  exact unquote_of_clean b h1 h2

theorem escBody_of_plainText {b : Bytes} (h : plainText b = true) : escBody b = b :=
  escBody_of_noHtml b ((plainText_iff b).1 h).2.2

theorem fixBody_of_plainText {b : Bytes} (h : plainText b = true) : fixBody b = true := by
  simp only [fixBody, Bool.and_eq_true, beq_iff_eq]
  exact ⟨unquote_of_plainText h, escBody_of_plainText h⟩

theorem EscOK_of_plainText {b : Bytes} (h : plainText b = true) : Impl.EscOK true b = true := by
  simp only [Impl.EscOK, Impl.escB, if_true, Bool.and_eq_true, beq_iff_eq, escBody_of_plainText h, and_self]

/-- a name that is valid UTF-8 survives `quoteBody true` / `unquote`, and what the encoder writes
for it is left alone by the HTML escaper -/
theorem QK_of_utf8 {k : Bytes} (h : isValidUtf8 k = true) : Impl.QK true k = true := by
  simp only [Impl.QK, Impl.escB, if_true, Bool.and_eq_true, beq_iff_eq]
  exact ⟨unquote_quoteBody true k h, escBody_of_noHtml _ (quoteBody_clean k)⟩

theorem QK_unquote_of_plainText {k : Bytes} (h : plainText k = true) : Impl.QK true (unquote k) = true := by
  rw [unquote_of_plainText h]
  exact QK_of_utf8 ((plainText_iff k).1 h).2.1

mutual
theorem RawOK_of_plain : ∀ c : Cst, PlainCst c = true → Impl.CstOK true c = true ∧ StrFix c = true
  | .lit _, _ => ⟨rfl, rfl⟩
  | .str b, h => by
    simp only [PlainCst] at h
    exact ⟨by simp only [Impl.CstOK]; exact EscOK_of_plainText h, by simp only [StrFix]; exact fixBody_of_plainText h⟩
  | .arr xs, h => by
    simp only [PlainCst] at h
    have := RawOKL_of_plain xs h
    exact ⟨by simp only [Impl.CstOK]; exact this.1, by simp only [StrFix]; exact this.2⟩
  | .obj ms, h => by
    simp only [PlainCst] at h
    have := RawOKM_of_plain ms h
    exact ⟨by simp only [Impl.CstOK]; exact this.1, by simp only [StrFix]; exact this.2⟩
theorem RawOKL_of_plain : ∀ xs : List Cst, PlainCstL xs = true → Impl.CstOKL true xs = true ∧ StrFixL xs = true
  | [], _ => ⟨rfl, rfl⟩
  | x :: xs, h => by
    simp only [PlainCstL, Bool.and_eq_true] at h
    have h1 := RawOK_of_plain x h.1
    have h2 := RawOKL_of_plain xs h.2
    simp only [Impl.CstOKL, StrFixL, Bool.and_eq_true]
    exact ⟨⟨h1.1, h2.1⟩, ⟨h1.2, h2.2⟩⟩
theorem RawOKM_of_plain : ∀ ms : List (Bytes × Cst), PlainCstM ms = true →
    Impl.CstOKM true ms = true ∧ StrFixM ms = true
  | [], _ => ⟨rfl, rfl⟩
  | (k, v) :: ms, h => by
    simp only [PlainCstM, Bool.and_eq_true] at h
    have h1 := RawOK_of_plain v h.1.2
    have h2 := RawOKM_of_plain ms h.2
    simp only [Impl.CstOKM, StrFixM, Bool.and_eq_true]
    exact ⟨⟨⟨⟨EscOK_of_plainText h.1.1, QK_unquote_of_plainText h.1.1⟩, h1.1⟩, h2.1⟩, ⟨h1.2, h2.2⟩⟩
end

/-- **the text invariant from primitive conditions** -/
theorem RawOK_of_PlainCst {c : Cst} (h : PlainCst c = true) : RawOK c = true := by
  have := RawOK_of_plain c h
  simp only [RawOK, Bool.and_eq_true]
  exact this

end Legacy
end JP
