import JP.Lemmas.WorldFoot

/-!
# Interleavings of well-owned traces under the pool discipline have no conflicting accesses
-/

namespace JP
namespace World

/-- the events of thread `t` -/
def proj (t : Nat) (tr : List TEv) : List Ev := (tr.filter fun e => e.1 = t).map Prod.snd

theorem proj_cons_self (t : Nat) (ev : Ev) (tr : List TEv) : proj t ((t, ev) :: tr) = ev :: proj t tr := by
  simp [proj]

theorem proj_cons_ne {t t' : Nat} (ev : Ev) (tr : List TEv) (h : t' ≠ t) : proj t ((t', ev) :: tr) = proj t tr := by
  simp [proj, h]

theorem eq_of_nodup_map {α β : Type} (f : α → β) {l : List α} (hnd : (l.map f).Nodup) {x y : α}
    (hx : x ∈ l) (hy : y ∈ l) (hf : f x = f y) : x = y := by
  induction l with
  | nil => cases hx
  | cons a l ih =>
    simp only [List.map_cons, List.nodup_cons] at hnd
    cases hx with
    | head =>
      cases hy with
      | head => rfl
      | tail _ hy' => exact absurd (hf ▸ List.mem_map_of_mem (f := f) hy') hnd.1
    | tail _ hx' =>
      cases hy with
      | head => exact absurd (hf ▸ List.mem_map_of_mem (f := f) hx') hnd.1
      | tail _ hy' => exact ih hnd.2 hx' hy'

theorem noConflict_gen (n : Nat) (tr : List TEv) :
    ∀ (h : List (Nat × PoolId × Nat)) (H : Nat → List (PoolId × Nat)),
      (∀ t p o, (H t).count (p, o) = h.count (t, p, o)) →
      (h.map (·.2)).Nodup →
      (∀ t, t < n → wellOwned (H t) (proj t tr) = true) →
      exclusive tr h = true → (∀ e ∈ tr, e.1 < n) → noConflict tr h = true := by
  induction tr with
  | nil => intros; rfl
  | cons e rest ih =>
    intro h H hH hnd hw hx ht
    obtain ⟨t, ev⟩ := e
    have htn : t < n := ht (t, ev) (List.mem_cons_self ..)
    have ht' : ∀ e ∈ rest, e.1 < n := fun e he => ht e (List.mem_cons_of_mem _ he)
    have hwt := hw t htn
    rw [proj_cons_self] at hwt
    have hwo : ∀ t', t' < n → t' ≠ t → wellOwned (H t') (proj t' rest) = true := fun t' h1 h2 => by
      have := hw t' h1
      rwa [proj_cons_ne _ _ (Ne.symm h2)] at this
    cases ev with
    | acquire p o =>
      simp only [exclusive, Bool.and_eq_true, Bool.not_eq_true'] at hx
      simp only [noConflict]
      refine ih ((t, p, o) :: h) (fun t' => if t' = t then (p, o) :: H t else H t') ?_ ?_ ?_ hx.2 ht'
      · intro t' p' o'
        by_cases htt : t' = t
        · subst htt
          simp only [if_true, List.count_cons, hH, beq_iff_eq, Prod.mk.injEq, true_and]
        · simp only [htt, if_false, List.count_cons, hH, beq_iff_eq, Prod.mk.injEq]
          have : ¬(t = t' ∧ p = p' ∧ o = o') := fun hh => htt hh.1.symm
          simp [this]
      · simp only [List.map_cons, List.nodup_cons]
        refine ⟨fun hm => ?_, hnd⟩
        obtain ⟨x, hxm, hxe⟩ := List.mem_map.mp hm
        have : (h.any fun x => decide (x.2 = (p, o))) = true :=
          List.any_eq_true.mpr ⟨x, hxm, by simpa using hxe⟩
        rw [hx.1] at this
        cases this
      · intro t' ht'n
        by_cases htt : t' = t
        · subst htt
          simpa [wellOwned] using hwt
        · simpa [htt] using hwo t' ht'n htt
    | release p o =>
      simp only [exclusive] at hx
      simp only [noConflict]
      simp only [wellOwned, Bool.and_eq_true] at hwt
      refine ih (h.erase (t, p, o)) (fun t' => if t' = t then (H t).erase (p, o) else H t') ?_ ?_ ?_ hx ht'
      · intro t' p' o'
        by_cases htt : t' = t
        · subst htt
          simp only [if_true, List.count_erase, hH, beq_iff_eq, Prod.mk.injEq, true_and]
        · simp only [htt, if_false, List.count_erase, hH, beq_iff_eq, Prod.mk.injEq]
          have : ¬(t = t' ∧ p = p' ∧ o = o') := fun hh => htt hh.1.symm
          simp [this]
      · exact hnd.sublist (List.Sublist.map _ List.erase_sublist)
      · intro t' ht'n
        by_cases htt : t' = t
        · subst htt
          simpa using hwt.2
        · simpa [htt] using hwo t' ht'n htt
    | read l =>
      simp only [exclusive] at hx
      simp only [noConflict]
      refine ih h H hH hnd (fun t' ht'n => ?_) hx ht'
      by_cases htt : t' = t
      · subst htt; simpa [wellOwned] using hwt
      · exact hwo t' ht'n htt
    | sync key =>
      simp only [exclusive] at hx
      simp only [noConflict]
      refine ih h H hH hnd (fun t' ht'n => ?_) hx ht'
      by_cases htt : t' = t
      · subst htt; simpa [wellOwned] using hwt
      · exact hwo t' ht'n htt
    | write l =>
      simp only [exclusive] at hx
      have hrest : ∀ (hw' : wellOwned (H t) (proj t rest) = true), noConflict rest h = true := fun hw' =>
        ih h H hH hnd (fun t' ht'n => by
          by_cases htt : t' = t
          · subst htt; exact hw'
          · exact hwo t' ht'n htt) hx ht'
      cases l with
      | pooled p o =>
        simp only [wellOwned, Bool.and_eq_true] at hwt
        have hmem : (t, p, o) ∈ h := by
          have h1 : (p, o) ∈ H t := List.contains_iff_mem.mp hwt.1
          have h2 : 0 < (H t).count (p, o) := List.count_pos_iff.mpr h1
          rw [hH] at h2
          exact List.count_pos_iff.mp h2
        simp only [noConflict, Bool.and_eq_true]
        refine ⟨⟨?_, List.contains_iff_mem.mpr hmem⟩, hrest hwt.2⟩
        rw [List.all_eq_true]
        intro x hxm
        simp only [decide_eq_true_eq]
        intro hxe
        have := eq_of_nodup_map (·.2) hnd hxm hmem hxe
        rw [this]
      | priv =>
        simp only [wellOwned] at hwt
        simp only [noConflict]
        exact hrest hwt
      | callerIn a => simp [wellOwned] at hwt
      | global g => simp [wellOwned] at hwt
      | unowned p => simp [wellOwned] at hwt

/-- in any interleaving of well-owned thread traces that respects the pool discipline, every
write to a pooled object is made by the one thread that holds it at that moment -/
theorem noConflict_of_wellOwned (n : Nat) (tr : List TEv) (hw : threadsWellOwned n tr = true)
    (hx : exclusive tr [] = true) (ht : ∀ e ∈ tr, e.1 < n) : noConflict tr [] = true := by
  refine noConflict_gen n tr [] (fun _ => []) (fun _ _ _ => rfl) List.nodup_nil (fun t htn => ?_) hx ht
  unfold threadsWellOwned at hw
  rw [List.all_eq_true] at hw
  exact hw t (List.mem_range.mpr htn)

end World
end JP
