import JP.Lemmas.TextFuel

/-!
# UTF-8: `decodeRune` / `encodeRune` round trips
-/

namespace JP

/-- Unicode scalar value -/
def isScalar (r : Nat) : Prop := r < 0xD800 ∨ (0xE000 ≤ r ∧ r ≤ 0x10FFFF)

theorem u8_toNat (n : Nat) (h : n < 256) : (u8 n).toNat = n := by
  simp only [u8, UInt8.toNat_ofNat']; omega

theorem u8_of_toNat (b : UInt8) : u8 b.toNat = b := UInt8.ofNat_toNat

theorem byte_eq_iff (a b : UInt8) : a = b ↔ a.toNat = b.toNat := UInt8.toNat_inj.symm

theorem isCont_iff (lo hi : Nat) (b : UInt8) : isCont lo hi b = true ↔ lo ≤ b.toNat ∧ b.toNat ≤ hi := by
  simp [isCont]

/-- the possible outcomes of `decodeRune` on a non-empty input, in `Nat` arithmetic;
each multi-byte outcome only depends on the bytes it consumes -/
theorem decodeRune_cases (b : UInt8) (rest : Bytes) :
    (b.toNat < 0x80 ∧ decodeRune (b :: rest) = (b.toNat, 1)) ∨
    (0x80 ≤ b.toNat ∧ decodeRune (b :: rest) = (runeError, 1)) ∨
    (∃ b1 t, rest = b1 :: t ∧ 0xC2 ≤ b.toNat ∧ b.toNat < 0xE0 ∧ 0x80 ≤ b1.toNat ∧ b1.toNat ≤ 0xBF ∧
      ∀ t', decodeRune (b :: b1 :: t') = ((b.toNat % 32) * 64 + b1.toNat % 64, 2)) ∨
    (∃ b1 b2 t, rest = b1 :: b2 :: t ∧ 0xE0 ≤ b.toNat ∧ b.toNat < 0xF0 ∧
      0x80 ≤ b1.toNat ∧ b1.toNat ≤ 0xBF ∧ (b.toNat = 0xE0 → 0xA0 ≤ b1.toNat) ∧ (b.toNat = 0xED → b1.toNat ≤ 0x9F) ∧
      0x80 ≤ b2.toNat ∧ b2.toNat ≤ 0xBF ∧
      ∀ t', decodeRune (b :: b1 :: b2 :: t') =
        ((b.toNat % 16) * 4096 + (b1.toNat % 64) * 64 + b2.toNat % 64, 3)) ∨
    (∃ b1 b2 b3 t, rest = b1 :: b2 :: b3 :: t ∧ 0xF0 ≤ b.toNat ∧ b.toNat < 0xF5 ∧
      0x80 ≤ b1.toNat ∧ b1.toNat ≤ 0xBF ∧ (b.toNat = 0xF0 → 0x90 ≤ b1.toNat) ∧ (b.toNat = 0xF4 → b1.toNat ≤ 0x8F) ∧
      0x80 ≤ b2.toNat ∧ b2.toNat ≤ 0xBF ∧ 0x80 ≤ b3.toNat ∧ b3.toNat ≤ 0xBF ∧
      ∀ t', decodeRune (b :: b1 :: b2 :: b3 :: t') =
        ((b.toNat % 8) * 262144 + (b1.toNat % 64) * 4096 + (b2.toNat % 64) * 64 + b3.toNat % 64, 4)) := by
  by_cases h1 : b.toNat < 0x80
  · left; exact ⟨h1, by simp only [decodeRune, h1, if_true]⟩
  by_cases h2 : b.toNat < 0xC2
  · right; left; exact ⟨by omega, by simp only [decodeRune, h1, h2, if_true, if_false]⟩
  by_cases h3 : b.toNat < 0xE0
  · cases rest with
    | nil => right; left; exact ⟨by omega, by simp only [decodeRune, h1, h2, h3, if_true, if_false]⟩
    | cons b1 t =>
      by_cases hc : isCont 0x80 0xBF b1 = true
      · right; right; left
        have hc' := (isCont_iff _ _ _).1 hc
        refine ⟨b1, t, rfl, by omega, h3, hc'.1, hc'.2, ?_⟩
        intro t'
        simp only [decodeRune, h1, h2, h3, hc, if_true, if_false]
      · right; left; exact ⟨by omega, by simp only [decodeRune, h1, h2, h3, hc, if_true, if_false]; simp⟩
  by_cases h4 : b.toNat < 0xF0
  · rcases rest with _ | ⟨b1, _ | ⟨b2, t⟩⟩
    · right; left; exact ⟨by omega, by simp only [decodeRune, h1, h2, h3, h4, if_true, if_false]⟩
    · right; left; exact ⟨by omega, by simp only [decodeRune, h1, h2, h3, h4, if_true, if_false]⟩
    · by_cases hc : (isCont (if b.toNat = 0xE0 then 0xA0 else 0x80) (if b.toNat = 0xED then 0x9F else 0xBF) b1
          && isCont 0x80 0xBF b2) = true
      · right; right; right; left
        have hc' := hc
        simp only [Bool.and_eq_true, isCont_iff] at hc'
        refine ⟨b1, b2, t, rfl, by omega, h4, ?_, ?_, ?_, ?_, hc'.2.1, hc'.2.2, ?_⟩
        · have := hc'.1.1; split at this <;> omega
        · have := hc'.1.2; split at this <;> omega
        · intro h; have := hc'.1.1; rw [if_pos h] at this; exact this
        · intro h; have := hc'.1.2; rw [if_pos h] at this; exact this
        · intro t'
          simp only [Bool.and_eq_true] at hc
          simp only [decodeRune, h1, h2, h3, h4, hc, Bool.and_self, if_true, if_false]
      · right; left
        refine ⟨by omega, ?_⟩
        simp only [decodeRune, h1, h2, h3, h4, hc, if_true, if_false]
        simp
  by_cases h5 : b.toNat < 0xF5
  · rcases rest with _ | ⟨b1, _ | ⟨b2, _ | ⟨b3, t⟩⟩⟩
    · right; left; exact ⟨by omega, by simp only [decodeRune, h1, h2, h3, h4, h5, if_true, if_false]⟩
    · right; left; exact ⟨by omega, by simp only [decodeRune, h1, h2, h3, h4, h5, if_true, if_false]⟩
    · right; left; exact ⟨by omega, by simp only [decodeRune, h1, h2, h3, h4, h5, if_true, if_false]⟩
    · by_cases hc : (isCont (if b.toNat = 0xF0 then 0x90 else 0x80) (if b.toNat = 0xF4 then 0x8F else 0xBF) b1
          && isCont 0x80 0xBF b2 && isCont 0x80 0xBF b3) = true
      · right; right; right; right
        have hc' := hc
        simp only [Bool.and_eq_true, isCont_iff] at hc'
        refine ⟨b1, b2, b3, t, rfl, by omega, h5, ?_, ?_, ?_, ?_, hc'.1.2.1, hc'.1.2.2, hc'.2.1, hc'.2.2, ?_⟩
        · have := hc'.1.1.1; split at this <;> omega
        · have := hc'.1.1.2; split at this <;> omega
        · intro h; have := hc'.1.1.1; rw [if_pos h] at this; exact this
        · intro h; have := hc'.1.1.2; rw [if_pos h] at this; exact this
        · intro t'
          simp only [decodeRune, h1, h2, h3, h4, h5, hc, if_true, if_false]
      · right; left
        refine ⟨by omega, ?_⟩
        simp only [decodeRune, h1, h2, h3, h4, h5, hc, if_true, if_false]
        simp
  · right; left; exact ⟨by omega, by simp only [decodeRune, h1, h2, h3, h4, h5, if_false]⟩

/-! ### direct evaluation on well-formed multi-byte sequences -/

theorem decodeRune_one (b : UInt8) (t : Bytes) (h : b.toNat < 0x80) : decodeRune (b :: t) = (b.toNat, 1) := by
  simp only [decodeRune, h, if_true]

theorem decodeRune_two (b b1 : UInt8) (t : Bytes) (h1 : 0xC2 ≤ b.toNat) (h2 : b.toNat < 0xE0)
    (c1 : 0x80 ≤ b1.toNat) (c2 : b1.toNat ≤ 0xBF) :
    decodeRune (b :: b1 :: t) = ((b.toNat % 32) * 64 + b1.toNat % 64, 2) := by
  have hc : isCont 0x80 0xBF b1 = true := (isCont_iff _ _ _).2 ⟨c1, c2⟩
  simp only [decodeRune, show ¬ b.toNat < 0x80 by omega, show ¬ b.toNat < 0xC2 by omega, h2, hc, if_true, if_false]

theorem decodeRune_three (b b1 b2 : UInt8) (t : Bytes) (h1 : 0xE0 ≤ b.toNat) (h2 : b.toNat < 0xF0)
    (c1 : 0x80 ≤ b1.toNat) (c2 : b1.toNat ≤ 0xBF) (c3 : b.toNat = 0xE0 → 0xA0 ≤ b1.toNat)
    (c4 : b.toNat = 0xED → b1.toNat ≤ 0x9F) (d1 : 0x80 ≤ b2.toNat) (d2 : b2.toNat ≤ 0xBF) :
    decodeRune (b :: b1 :: b2 :: t) = ((b.toNat % 16) * 4096 + (b1.toNat % 64) * 64 + b2.toNat % 64, 3) := by
  have hc : isCont (if b.toNat = 0xE0 then 0xA0 else 0x80) (if b.toNat = 0xED then 0x9F else 0xBF) b1 = true := by
    rw [isCont_iff]; constructor <;> split <;> omega
  have hd : isCont 0x80 0xBF b2 = true := (isCont_iff _ _ _).2 ⟨d1, d2⟩
  simp only [decodeRune, show ¬ b.toNat < 0x80 by omega, show ¬ b.toNat < 0xC2 by omega,
    show ¬ b.toNat < 0xE0 by omega, h2, hc, hd, Bool.and_self, if_true, if_false]

theorem decodeRune_four (b b1 b2 b3 : UInt8) (t : Bytes) (h1 : 0xF0 ≤ b.toNat) (h2 : b.toNat < 0xF5)
    (c1 : 0x80 ≤ b1.toNat) (c2 : b1.toNat ≤ 0xBF) (c3 : b.toNat = 0xF0 → 0x90 ≤ b1.toNat)
    (c4 : b.toNat = 0xF4 → b1.toNat ≤ 0x8F) (d1 : 0x80 ≤ b2.toNat) (d2 : b2.toNat ≤ 0xBF)
    (e1 : 0x80 ≤ b3.toNat) (e2 : b3.toNat ≤ 0xBF) :
    decodeRune (b :: b1 :: b2 :: b3 :: t) =
      ((b.toNat % 8) * 262144 + (b1.toNat % 64) * 4096 + (b2.toNat % 64) * 64 + b3.toNat % 64, 4) := by
  have hc : isCont (if b.toNat = 0xF0 then 0x90 else 0x80) (if b.toNat = 0xF4 then 0x8F else 0xBF) b1 = true := by
    rw [isCont_iff]; constructor <;> split <;> omega
  have hd : isCont 0x80 0xBF b2 = true := (isCont_iff _ _ _).2 ⟨d1, d2⟩
  have he : isCont 0x80 0xBF b3 = true := (isCont_iff _ _ _).2 ⟨e1, e2⟩
  simp only [decodeRune, show ¬ b.toNat < 0x80 by omega, show ¬ b.toNat < 0xC2 by omega,
    show ¬ b.toNat < 0xE0 by omega, show ¬ b.toNat < 0xF0 by omega, h2, hc, hd, he, Bool.and_self, if_true, if_false]

/-! ### encode after decode -/

theorem encodeRune_one (a : Nat) (h : a < 0x80) : encodeRune a = [u8 a] := by
  simp only [encodeRune, h, if_true]

theorem encodeRune_two (a b1 : Nat) (h1 : 0xC2 ≤ a) (h2 : a < 0xE0) (c1 : 0x80 ≤ b1) (c2 : b1 ≤ 0xBF) :
    encodeRune ((a % 32) * 64 + b1 % 64) = [u8 a, u8 b1] := by
  have e1 : 0xC0 + ((a % 32) * 64 + b1 % 64) / 64 = a := by omega
  have e2 : 0x80 + ((a % 32) * 64 + b1 % 64) % 64 = b1 := by omega
  simp only [encodeRune, show ¬ ((a % 32) * 64 + b1 % 64 < 0x80) by omega,
    show (a % 32) * 64 + b1 % 64 < 0x800 by omega, if_true, if_false, e1, e2]

theorem encodeRune_three (a b1 b2 : Nat) (h1 : 0xE0 ≤ a) (h2 : a < 0xF0)
    (c1 : 0x80 ≤ b1) (c2 : b1 ≤ 0xBF) (c3 : a = 0xE0 → 0xA0 ≤ b1) (c4 : a = 0xED → b1 ≤ 0x9F)
    (d1 : 0x80 ≤ b2) (d2 : b2 ≤ 0xBF) :
    encodeRune ((a % 16) * 4096 + (b1 % 64) * 64 + b2 % 64) = [u8 a, u8 b1, u8 b2] := by
  generalize hr : (a % 16) * 4096 + (b1 % 64) * 64 + b2 % 64 = r
  have e1 : 0xE0 + r / 4096 = a := by omega
  have e2 : 0x80 + (r / 64) % 64 = b1 := by omega
  have e3 : 0x80 + r % 64 = b2 := by omega
  have n1 : ¬ r < 0x80 := by omega
  have n2 : ¬ r < 0x800 := by omega
  have n3 : ¬ ((0xD800 ≤ r ∧ r < 0xE000) ∨ r > 0x10FFFF) := by omega
  have n4 : r < 0x10000 := by omega
  simp only [encodeRune, n1, n2, n3, n4, if_true, if_false, e1, e2, e3]

theorem encodeRune_four (a b1 b2 b3 : Nat) (h1 : 0xF0 ≤ a) (h2 : a < 0xF5)
    (c1 : 0x80 ≤ b1) (c2 : b1 ≤ 0xBF) (c3 : a = 0xF0 → 0x90 ≤ b1) (c4 : a = 0xF4 → b1 ≤ 0x8F)
    (d1 : 0x80 ≤ b2) (d2 : b2 ≤ 0xBF) (f1 : 0x80 ≤ b3) (f2 : b3 ≤ 0xBF) :
    encodeRune ((a % 8) * 262144 + (b1 % 64) * 4096 + (b2 % 64) * 64 + b3 % 64) = [u8 a, u8 b1, u8 b2, u8 b3] := by
  generalize hr : (a % 8) * 262144 + (b1 % 64) * 4096 + (b2 % 64) * 64 + b3 % 64 = r
  have e1 : 0xF0 + r / 262144 = a := by omega
  have e2 : 0x80 + (r / 4096) % 64 = b1 := by omega
  have e3 : 0x80 + (r / 64) % 64 = b2 := by omega
  have e4 : 0x80 + r % 64 = b3 := by omega
  have n1 : ¬ r < 0x80 := by omega
  have n2 : ¬ r < 0x800 := by omega
  have n3 : ¬ ((0xD800 ≤ r ∧ r < 0xE000) ∨ r > 0x10FFFF) := by omega
  have n4 : ¬ r < 0x10000 := by omega
  simp only [encodeRune, n1, n2, n3, n4, if_false, e1, e2, e3, e4]

/-- the input is not rejected at its first rune -/
def runeOk (p : Bytes) : Prop := ¬ ((decodeRune p).1 = runeError ∧ (decodeRune p).2 = 1)

/-- on a valid first rune, re-encoding gives back exactly the bytes consumed; the rune is a scalar
value and its decoding only depends on those bytes -/
theorem encodeRune_decodeRune (b : UInt8) (rest : Bytes) (h : runeOk (b :: rest)) :
    encodeRune (decodeRune (b :: rest)).1 = (b :: rest).take (decodeRune (b :: rest)).2
    ∧ isScalar (decodeRune (b :: rest)).1
    ∧ (decodeRune (b :: rest)).2 ≤ (b :: rest).length
    ∧ ∀ t', decodeRune ((b :: rest).take (decodeRune (b :: rest)).2 ++ t') = decodeRune (b :: rest) := by
  rcases decodeRune_cases b rest with ⟨h1, hd⟩ | ⟨h1, hd⟩ | ⟨b1, t, rfl, h1, h2, c1, c2, hd⟩ |
      ⟨b1, b2, t, rfl, h1, h2, c1, c2, c3, c4, d1, d2, hd⟩ |
      ⟨b1, b2, b3, t, rfl, h1, h2, c1, c2, c3, c4, d1, d2, f1, f2, hd⟩
  · rw [hd]
    refine ⟨?_, ?_, ?_, ?_⟩
    · rw [encodeRune_one _ h1, u8_of_toNat]; rfl
    · left; show b.toNat < _; omega
    · simp only [List.length_cons]; omega
    · intro t'; exact decodeRune_one b _ h1
  · exact absurd (by rw [hd]; exact ⟨rfl, rfl⟩) h
  · rw [hd t]
    refine ⟨?_, ?_, ?_, ?_⟩
    · rw [encodeRune_two _ _ h1 h2 c1 c2, u8_of_toNat, u8_of_toNat]; rfl
    · left; show _ < 0xD800; omega
    · simp only [List.length_cons]; omega
    · intro t'; exact hd _
  · rw [hd t]
    refine ⟨?_, ?_, ?_, ?_⟩
    · rw [encodeRune_three _ _ _ h1 h2 c1 c2 c3 c4 d1 d2, u8_of_toNat, u8_of_toNat, u8_of_toNat]; rfl
    · simp only [isScalar]; omega
    · simp only [List.length_cons]; omega
    · intro t'; exact hd _
  · rw [hd t]
    refine ⟨?_, ?_, ?_, ?_⟩
    · rw [encodeRune_four _ _ _ _ h1 h2 c1 c2 c3 c4 d1 d2 f1 f2, u8_of_toNat, u8_of_toNat, u8_of_toNat, u8_of_toNat]; rfl
    · simp only [isScalar]; omega
    · simp only [List.length_cons]; omega
    · intro t'; exact hd _

/-- decoding after encoding: the requested rune round trip -/
theorem decodeRune_encodeRune (r : Nat) (hr : isScalar r) (rest : Bytes) :
    decodeRune (encodeRune r ++ rest) = (r, (encodeRune r).length) := by
  simp only [isScalar] at hr
  by_cases n1 : r < 0x80
  · rw [encodeRune_one r n1]
    have := decodeRune_one (u8 r) rest (by rw [u8_toNat r (by omega)]; exact n1)
    rw [u8_toNat r (by omega)] at this
    exact this
  by_cases n2 : r < 0x800
  · have e : encodeRune r = [u8 (0xC0 + r / 64), u8 (0x80 + r % 64)] := by
      simp only [encodeRune, n1, n2, if_true, if_false]
    have t1 := u8_toNat (0xC0 + r / 64) (by omega)
    have t2 := u8_toNat (0x80 + r % 64) (by omega)
    rw [e]
    have := decodeRune_two (u8 (0xC0 + r / 64)) (u8 (0x80 + r % 64)) rest
      (by omega) (by omega) (by omega) (by omega)
    rw [t1, t2] at this
    simp only [List.cons_append, List.nil_append, this, List.length_cons, List.length_nil]
    congr 1; omega
  have n3 : ¬ ((0xD800 ≤ r ∧ r < 0xE000) ∨ r > 0x10FFFF) := by omega
  by_cases n4 : r < 0x10000
  · have e : encodeRune r = [u8 (0xE0 + r / 4096), u8 (0x80 + (r / 64) % 64), u8 (0x80 + r % 64)] := by
      simp only [encodeRune, n1, n2, n3, n4, if_true, if_false]
    have t1 := u8_toNat (0xE0 + r / 4096) (by omega)
    have t2 := u8_toNat (0x80 + (r / 64) % 64) (by omega)
    have t3 := u8_toNat (0x80 + r % 64) (by omega)
    rw [e]
    have := decodeRune_three (u8 (0xE0 + r / 4096)) (u8 (0x80 + (r / 64) % 64)) (u8 (0x80 + r % 64)) rest
      (by omega) (by omega) (by omega) (by omega) (by omega) (by omega) (by omega) (by omega)
    rw [t1, t2, t3] at this
    simp only [List.cons_append, List.nil_append, this, List.length_cons, List.length_nil]
    congr 1; omega
  · have e : encodeRune r = [u8 (0xF0 + r / 262144), u8 (0x80 + (r / 4096) % 64), u8 (0x80 + (r / 64) % 64), u8 (0x80 + r % 64)] := by
      simp only [encodeRune, n1, n2, n3, n4, if_false]
    have t1 := u8_toNat (0xF0 + r / 262144) (by omega)
    have t2 := u8_toNat (0x80 + (r / 4096) % 64) (by omega)
    have t3 := u8_toNat (0x80 + (r / 64) % 64) (by omega)
    have t4 := u8_toNat (0x80 + r % 64) (by omega)
    rw [e]
    have := decodeRune_four (u8 (0xF0 + r / 262144)) (u8 (0x80 + (r / 4096) % 64)) (u8 (0x80 + (r / 64) % 64)) (u8 (0x80 + r % 64)) rest
      (by omega) (by omega) (by omega) (by omega) (by omega) (by omega) (by omega) (by omega) (by omega) (by omega)
    rw [t1, t2, t3, t4] at this
    simp only [List.cons_append, List.nil_append, this, List.length_cons, List.length_nil]
    congr 1; omega

end JP
