import JP.Codec.Typed
import JP.Lemmas.TextWFC

/-!
# Typed encoder: shared vocabulary of the lemma files

`nameOk n`: every byte of a member name can stand raw between quotes (no quote, no backslash, no
control character).  `isValidTag` guarantees it for tag names, `GoType.wf` (Go identifiers) for field
names; `Scanner.htmlEscape` keeps it.
-/

namespace JP
namespace Codec
namespace Typed

def okByte (c : UInt8) : Bool := c != 34 && c != 92 && decide (32 ≤ c.toNat)

def nameOk (n : Bytes) : Bool := n.all okByte

mutual
/-- every dynamic type inside the value (interfaces) is well-formed -/
def GoVal.typesWf : GoVal → Bool
  | .list xs => typesWfL xs
  | .map ms => typesWfM ms
  | .ptr v => v.typesWf
  | .iface t v => t.wf && v.typesWf
  | .struct fs => typesWfL fs
  | _ => true
def typesWfL : List GoVal → Bool
  | [] => true
  | x :: xs => x.typesWf && typesWfL xs
def typesWfM : List (MapKey × GoVal) → Bool
  | [] => true
  | (_, v) :: ms => v.typesWf && typesWfM ms
end

end Typed
end Codec
end JP
