import JP.Lemmas.FloatNatFmt

/-!
# Printing an integer float: the decimal point, the candidates, the search
-/

namespace JP
namespace Codec
namespace Float

open JP.Codec.Typed (decimal)

/-! ## the decimal point of an integer -/

theorem geNat_lt (n len : Nat) (h1 : 10 ^ (len - 1) ≤ n) (hlen : 0 < len) (j : Int) (hj : j < (len : Int)) :
    geNat n j = true := by
  unfold geNat
  by_cases hk : j ≥ 0
  · simp only [hk, if_true, decide_eq_true_eq]
    have : j.toNat ≤ len - 1 := by omega
    exact Nat.le_trans (Nat.pow_le_pow_right (by omega) this) h1
  · simp [hk]

theorem geNat_ge (n len : Nat) (h2 : n < 10 ^ len) (j : Int) (hj : (len : Int) ≤ j) :
    geNat n j = false := by
  unfold geNat
  have hk : j ≥ 0 := by omega
  simp only [hk, if_true, decide_eq_false_iff_not, Nat.not_le]
  have : len ≤ j.toNat := by omega
  exact Nat.lt_of_lt_of_le h2 (Nat.pow_le_pow_right (by omega) this)

theorem decPoint_nat (bits n : Nat) (h0 : n ≠ 0) (hn : n < 2 ^ (mantBits bits + 1)) :
    decPoint (n * 2 ^ (mantBits bits - Nat.log2 n)) (2 ^ (mantBits bits - Nat.log2 n))
      = ((decimal n).length : Int) := by
  obtain ⟨hlm, hQ1, hQ2⟩ := ofNat_bounds bits n h0 hn
  have hl1 : 2 ^ Nat.log2 n ≤ n := Nat.log2_self_le h0
  have hl2 : n < 2 ^ (Nat.log2 n + 1) := Nat.lt_log2_self
  obtain ⟨hb1, hb2⟩ := decimal_len_bounds n (by omega)
  have hlenpos := decimal_length_pos n
  generalize hlen : (decimal n).length = len at hb1 hb2 hlenpos
  generalize hl : Nat.log2 n = l at hlm hQ1 hQ2 hl1 hl2
  have hmb : mantBits bits ≤ 52 := by unfold mantBits; split <;> omega
  generalize hmbe : mantBits bits = mb at hlm hQ1 hQ2 hmb hn
  have hN0 : n * 2 ^ (mb - l) ≠ 0 := by
    have : 0 < 2 ^ mb := Nat.pos_of_ne_zero (by simp)
    omega
  have hlogN : Nat.log2 (n * 2 ^ (mb - l)) = mb := by
    have h1 := (Nat.le_log2 hN0 (k := mb)).2 hQ1
    have h2 := (Nat.log2_lt hN0 (k := mb + 1)).2 hQ2
    omega
  have hD : 0 < 2 ^ (mb - l) := Nat.pos_of_ne_zero (by simp)
  -- the estimate is within one of the truth
  obtain ⟨tA, tB⟩ := estimate_table ⟨l, by omega⟩
  simp only at tA tB
  generalize hk0 : l * 1233 / 4096 = k0 at tA tB
  have hA : len ≤ k0 + 2 := by
    have : 10 ^ (len - 1) < 10 ^ (k0 + 2) := by omega
    have := (pow10_lt_iff _ _).1 this
    omega
  have hB : k0 ≤ len + 1 := by
    have e : 10 ^ (len + 1) = 10 ^ len * 10 := Nat.pow_succ _ _
    have : 10 ^ k0 < 10 ^ (len + 1) := by omega
    have := (pow10_lt_iff _ _).1 this
    omega
  unfold decPoint
  simp only [hlogN, Nat.log2_two_pow]
  apply fix_spec
  · intro j hj
    rw [geP10_mul n _ hD (by omega)]
    exact geNat_lt n len hb1 hlenpos j hj
  · intro j hj
    rw [geP10_mul n _ hD (by omega)]
    exact geNat_ge n len hb2 j hj
  · omega
  · omega

/-! ## the candidates for an integer -/

theorem candAB_nat (n D len j : Nat) (hD : 0 < D) (hj : j ≤ len) :
    (candAB (n * D) D ((j : Int) - (len : Int))).1 / (candAB (n * D) D ((j : Int) - (len : Int))).2
        = n / 10 ^ (len - j) ∧
    (candAB (n * D) D ((j : Int) - (len : Int))).1 % (candAB (n * D) D ((j : Int) - (len : Int))).2
        = n % 10 ^ (len - j) * D := by
  unfold candAB
  by_cases hs : (j : Int) - (len : Int) ≥ 0
  · have hjl : j = len := by omega
    subst hjl
    simp only [hs, if_true, Int.sub_self, Int.toNat_zero, Nat.pow_zero, Nat.mul_one, Nat.sub_self,
      Nat.div_one, Nat.mod_one, Nat.zero_mul]
    exact ⟨Nat.mul_div_cancel n hD, Nat.mul_mod_left n D⟩
  · simp only [hs, if_false]
    have hw : (-((j : Int) - (len : Int))).toNat = len - j := by omega
    rw [hw, Nat.mul_comm D (10 ^ (len - j))]
    exact ⟨Nat.mul_div_mul_right n (10 ^ (len - j)) hD, Nat.mul_mod_mul_right D n (10 ^ (len - j))⟩

theorem candPick_none (bits : Nat) (x : FP) (lo r b : Nat) (e : Int) (hr : r ≠ 0)
    (h1 : roundsTo bits x lo e = false) (h2 : roundsTo bits x (lo + 1) e = false) :
    candPick bits x lo r b e = none := by
  simp [candPick, hr, h1, h2]

theorem candPick_exact (bits : Nat) (x : FP) (lo b : Nat) (e : Int)
    (h1 : roundsTo bits x lo e = true) : candPick bits x lo 0 b e = some (lo, e) := by
  simp [candPick, h1]

/-- `10^w ∣ c · 10^z` with `c` not divisible by ten forces `w ≤ z` -/
theorem mod_pow10_zero (c z w : Nat) (hc : c % 10 ≠ 0) (h : c * 10 ^ z % 10 ^ w = 0) : w ≤ z := by
  by_cases hwz : w ≤ z
  · exact hwz
  · exfalso
    have hd : 10 ^ w ∣ c * 10 ^ z := Nat.dvd_of_mod_eq_zero h
    have e : 10 ^ w = 10 ^ (w - z) * 10 ^ z := by rw [← Nat.pow_add]; congr 1; omega
    rw [e] at hd
    have hd2 : 10 ^ (w - z) ∣ c := Nat.dvd_of_mul_dvd_mul_right (Nat.pos_of_ne_zero (by simp)) hd
    have e2 : 10 ^ (w - z) = 10 * 10 ^ (w - z - 1) := by
      have : w - z = (w - z - 1) + 1 := by omega
      conv => lhs; rw [this, Nat.pow_succ]
      omega
    rw [e2] at hd2
    have : 10 ∣ c := Nat.dvd_trans (Nat.dvd_mul_right 10 _) hd2
    omega

theorem search_first (bits : Nat) (x : FP) (N D : Nat) (k : Int) (r : Nat × Int) (target : Nat)
    (hr : cand bits x N D k target = some r) :
    ∀ (fuel start : Nat), (∀ j, start ≤ j → j < target → cand bits x N D k j = none) →
      start ≤ target → target < start + fuel → search bits x N D k fuel start = some r := by
  intro fuel
  induction fuel with
  | zero => intro start _ h1 h2; omega
  | succ f ih =>
    intro start hnone h1 h2
    simp only [search]
    by_cases hst : start = target
    · subst hst; rw [hr]
    · rw [hnone start (Nat.le_refl _) (by omega)]
      exact ih (start + 1) (fun j hj1 hj2 => hnone j (by omega) hj2) (by omega) (by omega)

end Float
end Codec
end JP
