import JP.Lemmas.HeapFind
import JP.Lemmas.NoPanicWalk

/-!
# `ensurePathExists`: helpers — padding, fresh nulls, and the creation of a missing parent

The Go code links the new node into its parent FIRST and fills it afterwards (in place); the value
model builds the child and adds it last.  `ensure_create` shows both give the same tree: the later
work happens inside the fresh child's footprint, which never contains the parent's cell.
-/

namespace JP
namespace Heap

open JP.Impl (Node NMembers Outcome Opts isCon padNulls rawNull)

theorem newNulls_spec : ∀ (k : Nat) (h : Heap),
    ∃ ext f, (newNulls h k).1 = h ++ ext ∧ ReprL (newNulls h k).1 (padNulls k) (newNulls h k).2 f ∧
      ∀ x ∈ f, h.length ≤ x
  | 0, h => ⟨[], [], by simp [newNulls], by simp [newNulls, padNulls, ReprL], fun x hx => by cases hx⟩
  | k + 1, h => by
    obtain ⟨e2, f2, he2, r2, fr2⟩ := newNulls_spec k (h ++ [.raw (.lit (ascii "null"))])
    simp only [newNulls]
    have hpad : padNulls (k + 1) = rawNull :: padNulls k := by simp [padNulls, List.replicate_succ]
    rw [hpad]
    refine ⟨[.raw (.lit (ascii "null"))] ++ e2, [h.length] ++ f2, by rw [he2, List.append_assoc], ?_,
      fun x hx => ?_⟩
    · refine ReprL.mk_cons ?_ r2 ?_
      · rw [he2]
        exact Repr.alloc (Repr.mk_raw (by simp)) e2
      · intro x hx hy
        have := fr2 x hy
        simp only [List.mem_singleton] at hx
        simp only [List.length_append, List.length_singleton] at this
        omega
    · simp only [List.mem_append, List.mem_singleton] at hx
      rcases hx with rfl | hx
      · exact Nat.le_refl _
      · have := fr2 x hx
        simp only [List.length_append, List.length_singleton] at this
        omega

theorem addIdx_ne_panic (o : Opts) (len : Nat) (key : Bytes) : addIdx o len key ≠ .panic := by
  unfold addIdx
  split
  · simp
  · cases atoi key with
    | none => simp
    | some idx =>
      simp only
      split
      · simp
      · split
        · split
          · simp
          · split
            · simp
            · split
              · simp
              · rename_i h1 h2 h3 h4 h5
                exfalso; omega
        · simp

/-- the cell of a container never makes `add` crash -/
theorem cellAdd_ne_panic {o : Opts} {h : Heap} {con : Node} {a : Nat} {f : List Nat} {cell : Cell}
    (r : Repr h con (some a) f) (hc : isCon con = true) (ha : h[a]? = some cell) (key : Bytes) (p : Ptr) :
    cellAdd o cell key p ≠ .panic := by
  cases con with
  | nil => cases hc
  | raw c => cases hc
  | docNil =>
    simp only [Repr] at r; obtain ⟨a', e, ha', _⟩ := r; cases e; rw [ha'] at ha; cases ha; simp [cellAdd]
  | nilAry =>
    simp only [Repr] at r; obtain ⟨a', e, ha', _⟩ := r; cases e; rw [ha'] at ha; cases ha; simp [cellAdd]
  | doc k m =>
    simp only [Repr] at r; obtain ⟨a', ps, f0, e, ha', _⟩ := r; cases e; rw [ha'] at ha; cases ha
    simp [cellAdd]
  | ary ns =>
    simp only [Repr] at r; obtain ⟨a', ps, f0, e, ha', _⟩ := r; cases e; rw [ha'] at ha; cases ha
    simp only [cellAdd]
    have := addIdx_ne_panic o ps.length key
    cases hi : addIdx o ps.length key with
    | panic => exact absurd hi this
    | err e => simp
    | ok oi => cases oi <;> simp

theorem isCon_ensurePad (part : Bytes) (con : Node) : isCon (Impl.ensurePad part con) = isCon con := by
  unfold Impl.ensurePad
  split
  · split <;> rfl
  · rfl

/-- the padding loop of `ensurePathExists` on the current array -/
theorem padTo_refines {h : Heap} {con : Node} {a : Nat} {f : List Nat} (part : Bytes)
    (r : Repr h con (some a) f) :
    ∃ f1, Repr (padTo h a part) (Impl.ensurePad part con) (some a) f1 ∧ Ext h (padTo h a part) f f1 := by
  have r0 := r
  have hv := Repr.valid _ r
  unfold padTo Impl.ensurePad
  cases hat : atoi part with
  | none => exact ⟨f, r0, Ext.refl _ _⟩
  | some ai =>
    cases con with
    | nil => simp only [Repr] at r; cases r.1
    | raw c =>
      simp only [Repr] at r; obtain ⟨a', e, ha, rfl⟩ := r; cases e
      simp only [ha]; exact ⟨_, r0, Ext.refl _ _⟩
    | docNil =>
      simp only [Repr] at r; obtain ⟨a', e, ha, rfl⟩ := r; cases e
      simp only [ha]; exact ⟨_, r0, Ext.refl _ _⟩
    | nilAry =>
      simp only [Repr] at r; obtain ⟨a', e, ha, rfl⟩ := r; cases e
      simp only [ha]; exact ⟨_, r0, Ext.refl _ _⟩
    | doc k m =>
      simp only [Repr] at r; obtain ⟨a', ps, f0, e, ha, _, _, rfl⟩ := r; cases e
      simp only [ha]; exact ⟨_, r0, Ext.refl _ _⟩
    | ary ns =>
      simp only [Repr] at r; obtain ⟨a', ps, f0, e, ha, hm, hn, rfl⟩ := r; cases e
      simp only [ha, ReprL.length_eq ns hm]
      by_cases hge : ai ≥ (ns.length : Int) + 1
      · simp only [hge, if_true]
        obtain ⟨ext, fn, he, rn, frn⟩ := newNulls_spec (ai.toNat - ns.length) h
        have dn : Disj f0 fn := by
          intro x hx hy
          have := frn x hy
          have := hv x (by simp [hx])
          omega
        obtain ⟨fp', rl, sub⟩ := ReprL.append ns (by rw [he]; exact ReprL.alloc hm ext) rn dn
        have halt : a < h.length := hv a (by simp)
        have hn' : a ∉ fp' := by
          intro hx
          rcases sub a hx with h1 | h1
          · exact hn h1
          · have := frn a h1; omega
        refine ⟨a :: fp', Repr.mk_ary ?_ (ReprL.write rl _ hn') hn', ?_⟩
        · rw [List.getElem?_set_self]; rw [he]; simp; omega
        · rw [he]
          refine set_after_alloc_ext (by simp) (fun x hx => ?_)
          simp only [List.mem_cons] at hx
          rcases hx with rfl | hx
          · exact Or.inl (by simp)
          · rcases sub x hx with h1 | h1
            · exact Or.inl (by simp [h1])
            · exact Or.inr (frn x h1)
      · simp only [hge, if_false]
        exact ⟨_, r0, Ext.refl _ _⟩

end Heap
end JP
