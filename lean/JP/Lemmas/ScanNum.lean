import JP.Lemmas.ScanRec

/-!
# Numbers: `parseNumber` against the number states of the scanner
-/

namespace JP
namespace Scanner

/-! ### byte facts -/

theorem u8_eq_iff (c : UInt8) (n : Nat) (hn : n < 256) : c = UInt8.ofNat n ↔ c.toNat = n := by
  constructor
  · rintro rfl; simp; omega
  · intro h; rw [← h]; simp

theorem isDigit_iff (c : UInt8) : isDigit c = true ↔ 48 ≤ c.toNat ∧ c.toNat ≤ 57 := by
  simp [isDigit]

theorem isDigit_false_iff (c : UInt8) : isDigit c = false ↔ ¬ (48 ≤ c.toNat ∧ c.toNat ≤ 57) := by
  rw [← isDigit_iff]; simp

theorem isWs_iff (c : UInt8) : isWs c = true ↔ (c.toNat = 32 ∨ c.toNat = 9 ∨ c.toNat = 13 ∨ c.toNat = 10) := by
  simp only [isWs, Bool.or_eq_true, decide_eq_true_eq, ← UInt8.toNat_inj]
  simp [or_assoc]

/-- turn byte (in)equalities into `Nat` facts and call `omega` -/
macro "u8_omega" : tactic => `(tactic| (
  simp only [isDigit_iff, isDigit_false_iff, isWs_iff, ← Bool.not_eq_true, ne_eq, ← UInt8.toNat_inj] at *
  simp at *
  try omega))

example (c : UInt8) (h : isDigit c = true) : ¬ (c = 101 ∨ c = 69) := by u8_omega
example (c : UInt8) (h : isDigit c = true) : isWs c = false := by u8_omega

/-! ### tables of the number states -/

theorem step_neg (stk : List Nat) (c : UInt8) : step (mk .stateNeg stk) c =
    if c = 48 then (mk .state0 stk, scanContinue)
    else if 49 ≤ c.toNat ∧ c.toNat ≤ 57 then (mk .state1 stk, scanContinue)
    else (errS stk, scanError) := by
  simp only [step, mk, stateNeg, Scan.goto, Scan.error, errS]

theorem step_0 (stk : List Nat) (c : UInt8) : step (mk .state0 stk) c =
    if c = 46 then (mk .stateDot stk, scanContinue)
    else if c = 101 ∨ c = 69 then (mk .stateE stk, scanContinue)
    else step (ev stk) c := by
  simp only [step, state0, stateEndValue_mk]
  simp only [mk, Scan.goto]

theorem step_1 (stk : List Nat) (c : UInt8) : step (mk .state1 stk) c =
    if isDigit c then (mk .state1 stk, scanContinue) else step (mk .state0 stk) c := by
  simp only [step, state1, state0, stateEndValue_mk]
  simp only [mk, Scan.goto]

theorem step_dot (stk : List Nat) (c : UInt8) : step (mk .stateDot stk) c =
    if isDigit c then (mk .stateDot0 stk, scanContinue) else (errS stk, scanError) := by
  simp only [step, mk, stateDot, Scan.goto, Scan.error, errS]

theorem step_dot0 (stk : List Nat) (c : UInt8) : step (mk .stateDot0 stk) c =
    if isDigit c then (mk .stateDot0 stk, scanContinue)
    else if c = 101 ∨ c = 69 then (mk .stateE stk, scanContinue)
    else step (ev stk) c := by
  simp only [step, stateDot0, stateEndValue_mk]
  simp only [mk, Scan.goto]

theorem step_esign (stk : List Nat) (c : UInt8) : step (mk .stateESign stk) c =
    if isDigit c then (mk .stateE0 stk, scanContinue) else (errS stk, scanError) := by
  simp only [step, mk, stateESign, Scan.goto, Scan.error, errS]

theorem step_e (stk : List Nat) (c : UInt8) : step (mk .stateE stk) c =
    if c = 43 ∨ c = 45 then (mk .stateESign stk, scanContinue) else step (mk .stateESign stk) c := by
  simp only [step, mk, stateE, stateESign, Scan.goto, Scan.error]

theorem step_e0 (stk : List Nat) (c : UInt8) : step (mk .stateE0 stk) c =
    if isDigit c then (mk .stateE0 stk, scanContinue) else step (ev stk) c := by
  simp only [step, stateE0, stateEndValue_mk]
  simp only [mk]

theorem eof_neg (stk : List Nat) : eof (mk .stateNeg stk) = false := by
  simp [eof, step_neg]; simp [mk, errS]
theorem eof_dot (stk : List Nat) : eof (mk .stateDot stk) = false := by
  simp [eof, step_dot, isDigit_32]; simp [mk, errS]
theorem eof_esign (stk : List Nat) : eof (mk .stateESign stk) = false := by
  simp [eof, step_esign, isDigit_32]; simp [mk, errS]
theorem eof_e (stk : List Nat) : eof (mk .stateE stk) = false := by
  simp [eof, step_e, step_esign, isDigit_32]; simp [mk, errS]

theorem eof_mk (X : St) (stk : List Nat) : eof (mk X stk) = (step (mk X stk) 32).1.endTop := by
  simp [eof, mk]

theorem eof_0 (stk : List Nat) : eof (mk .state0 stk) = eof (ev stk) := by
  rw [eof_mk, eof_mk, step_0]; simp
theorem eof_1 (stk : List Nat) : eof (mk .state1 stk) = eof (ev stk) := by
  rw [eof_mk, eof_mk, step_1, step_0]; simp [isDigit_32]
theorem eof_dot0 (stk : List Nat) : eof (mk .stateDot0 stk) = eof (ev stk) := by
  rw [eof_mk, eof_mk, step_dot0]; simp [isDigit_32]
theorem eof_e0 (stk : List Nat) : eof (mk .stateE0 stk) = eof (ev stk) := by
  rw [eof_mk, eof_mk, step_e0]; simp [isDigit_32]

/-! ### `takeDigits` -/

theorem takeDigits_nil : takeDigits [] = ([], []) := rfl

theorem takeDigits_cons (c : UInt8) (cs : Bytes) : takeDigits (c :: cs) =
    if isDigit c then (c :: (takeDigits cs).1, (takeDigits cs).2) else ([], c :: cs) := by
  simp only [takeDigits]

theorem takeDigits_length (r : Bytes) : (takeDigits r).2.length ≤ r.length := by
  induction r with
  | nil => simp [takeDigits_nil]
  | cons c cs ih =>
    rw [takeDigits_cons]; split <;> simp only [List.length_cons] <;> omega

theorem takeDigits_head (r : Bytes) : ∀ c cs, (takeDigits r).2 = c :: cs → isDigit c = false := by
  induction r with
  | nil => intro c cs h; simp [takeDigits_nil] at h
  | cons a as ih =>
    intro c cs h
    rw [takeDigits_cons] at h
    split at h
    · exact ih c cs h
    · simp only [List.cons.injEq] at h
      obtain ⟨rfl, _⟩ := h
      simp_all

theorem takeDigits_isEmpty_cons (c : UInt8) (cs : Bytes) :
    (takeDigits (c :: cs)).1.isEmpty = !isDigit c := by
  rw [takeDigits_cons]; split <;> simp_all

/-- a digit loop: the states `state1`, `stateDot0`, `stateE0` -/
theorem vf_digits {s : Scan} (h : ∀ c, isDigit c = true → step s c = (s, scanContinue)) (r : Bytes) :
    validFrom s r = validFrom s (takeDigits r).2 := by
  induction r with
  | nil => rfl
  | cons c cs ih =>
    rw [takeDigits_cons]
    split
    · rename_i hc
      rw [vf_step (h c hc) (by decide)]; exact ih
    · rfl

/-! ### the stages of a number -/

/-- state0, no `.` next / stateDot0, no digit next: an exponent or the end of the number -/
def expOrEnd (stk : List Nat) : Bytes → Bool
  | [] => eof (ev stk)
  | c :: cs => if c = 101 ∨ c = 69 then validFrom (mk .stateE stk) cs else validFrom (ev stk) (c :: cs)

theorem vf_0_expOrEnd (stk : List Nat) (r : Bytes) (h : ∀ c cs, r = c :: cs → c ≠ 46) :
    validFrom (mk .state0 stk) r = expOrEnd stk r := by
  cases r with
  | nil => exact eof_0 stk
  | cons c cs =>
    have := h c cs rfl
    simp only [expOrEnd]
    rw [validFrom_cons, step_0, if_neg this]
    split
    · simp [scanContinue, scanError]
    · rw [validFrom_cons]

theorem vf_dot0_expOrEnd (stk : List Nat) (r : Bytes) (h : ∀ c cs, r = c :: cs → isDigit c = false) :
    validFrom (mk .stateDot0 stk) r = expOrEnd stk r := by
  cases r with
  | nil => exact eof_dot0 stk
  | cons c cs =>
    have := h c cs rfl
    simp only [expOrEnd]
    rw [validFrom_cons, step_dot0]
    simp only [this, Bool.false_eq_true, if_false]
    split
    · simp [scanContinue, scanError]
    · rw [validFrom_cons]

theorem vf_e0_end (stk : List Nat) (r : Bytes) (h : ∀ c cs, r = c :: cs → isDigit c = false) :
    validFrom (mk .stateE0 stk) r = validFrom (ev stk) r := by
  apply vf_congr
  · intro _; exact eof_e0 stk
  · intro c cs hr
    rw [step_e0]; simp [h c cs hr]

theorem vf_esign (stk : List Nat) (r : Bytes) : validFrom (mk .stateESign stk) r =
    if (takeDigits r).1.isEmpty then false else validFrom (ev stk) (takeDigits r).2 := by
  cases r with
  | nil => simp [takeDigits_nil, eof_esign]
  | cons c cs =>
    rw [takeDigits_isEmpty_cons, validFrom_cons, step_esign, takeDigits_cons]
    by_cases hc : isDigit c = true
    · simp only [hc, if_true, Bool.not_true, Bool.false_eq_true, if_false]
      rw [if_neg (by decide)]
      rw [vf_digits (s := mk .stateE0 stk) (fun c hc => by rw [step_e0]; simp [hc])]
      exact vf_e0_end stk _ (takeDigits_head cs)
    · simp [hc]

theorem vf_dot (stk : List Nat) (r : Bytes) : validFrom (mk .stateDot stk) r =
    if (takeDigits r).1.isEmpty then false else expOrEnd stk (takeDigits r).2 := by
  cases r with
  | nil => simp [takeDigits_nil, eof_dot]
  | cons c cs =>
    rw [takeDigits_isEmpty_cons, validFrom_cons, step_dot, takeDigits_cons]
    by_cases hc : isDigit c = true
    · simp only [hc, if_true, Bool.not_true, Bool.false_eq_true, if_false]
      rw [if_neg (by decide)]
      rw [vf_digits (s := mk .stateDot0 stk) (fun c hc => by rw [step_dot0]; simp [hc])]
      exact vf_dot0_expOrEnd stk _ (takeDigits_head cs)
    · simp [hc]

def stripSign (bs : Bytes) : Bytes × Bytes := match bs with
  | 45 :: r => ([45], r)
  | r => ([], r)

def stripESign (bs : Bytes) : Bytes × Bytes := match bs with
  | 43 :: r' => ([43], r')
  | 45 :: r' => ([45], r')
  | r' => ([], r')

def pInt (r0 : Bytes) : Option (Bytes × Bytes) := match r0 with
  | 48 :: r => some ([48], r)
  | c :: r => if isDigit c then let (d, r') := takeDigits r; some (c :: d, r') else none
  | [] => none

def pFrac (r1 : Bytes) : Option (Bytes × Bytes) := match r1 with
  | 46 :: r => let (d, r') := takeDigits r; if d.isEmpty then none else some (46 :: d, r')
  | r => some ([], r)

def pExp (r2 : Bytes) : Option (Bytes × Bytes) := match r2 with
  | e :: r =>
    if e = 101 ∨ e = 69 then
      let (sg, r') : Bytes × Bytes := stripESign r
      let (d, r'') := takeDigits r'
      if d.isEmpty then none else some (e :: sg ++ d, r'')
    else some ([], e :: r)
  | [] => some ([], [])

theorem parseNumber_eq (bs : Bytes) : parseNumber bs =
    match pInt (stripSign bs).2 with
    | none => none
    | some (ip, r1) =>
      match pFrac r1 with
      | none => none
      | some (fp, r2) =>
        match pExp r2 with
        | none => none
        | some (ep, r3) => some ((stripSign bs).1 ++ ip ++ fp ++ ep, r3) := by
  rfl

theorem stripESign_cons (c : UInt8) (cs : Bytes) :
    stripESign (c :: cs) = if c = 43 then ([43], cs) else if c = 45 then ([45], cs) else ([], c :: cs) := by
  unfold stripESign
  split
  · simp_all
  · rename_i h; simp only [List.cons.injEq] at h; obtain ⟨rfl, rfl⟩ := h; simp
  · rename_i h1 h2
    have h43 : c ≠ 43 := fun h => h1 cs (by rw [h])
    have h45 : c ≠ 45 := fun h => h2 cs (by rw [h])
    simp [h43, h45]

theorem stripESign_length (r : Bytes) : (stripESign r).2.length ≤ r.length := by
  cases r with
  | nil => simp [stripESign]
  | cons c cs => rw [stripESign_cons]; repeat' split
                 all_goals simp

theorem vf_e (stk : List Nat) (r : Bytes) :
    validFrom (mk .stateE stk) r = validFrom (mk .stateESign stk) (stripESign r).2 := by
  cases r with
  | nil => simp [stripESign, eof_e, eof_esign]
  | cons c cs =>
    rw [stripESign_cons, validFrom_cons, step_e]
    by_cases h43 : c = 43
    · simp [h43, scanContinue, scanError]
    · by_cases h45 : c = 45
      · simp [h45, scanContinue, scanError]
      · simp only [h43, h45, or_self, if_false]
        rw [validFrom_cons]

theorem pExp_sim (stk : List Nat) (r2 : Bytes) :
    match pExp r2 with
    | some (_, r3) => r3.length ≤ r2.length ∧ expOrEnd stk r2 = validFrom (ev stk) r3
    | none => expOrEnd stk r2 = false := by
  cases r2 with
  | nil => simp [pExp, expOrEnd]
  | cons e r =>
    simp only [pExp, expOrEnd]
    by_cases he : e = 101 ∨ e = 69
    · simp only [he, if_true]
      rw [vf_e, vf_esign]
      have h1 := stripESign_length r
      have h2 := takeDigits_length (stripESign r).2
      by_cases hd : (takeDigits (stripESign r).2).1.isEmpty = true
      · simp only [hd, if_true]
      · simp only [hd, Bool.false_eq_true, if_false, List.length_cons, and_true]; omega
    · simp [he]

theorem pFrac_cons (c : UInt8) (r : Bytes) : pFrac (c :: r) =
    if c = 46 then (if (takeDigits r).1.isEmpty then none else some (46 :: (takeDigits r).1, (takeDigits r).2))
    else some ([], c :: r) := by
  unfold pFrac
  split
  · rename_i h; simp only [List.cons.injEq] at h; obtain ⟨rfl, rfl⟩ := h; simp
  · rename_i h1
    have h46 : c ≠ 46 := fun h => h1 r (by rw [h])
    simp [h46]

theorem pFrac_sim (stk : List Nat) (r1 : Bytes) :
    match pFrac r1 with
    | some (_, r2) => r2.length ≤ r1.length ∧ validFrom (mk .state0 stk) r1 = expOrEnd stk r2
    | none => validFrom (mk .state0 stk) r1 = false := by
  cases r1 with
  | nil => simp only [pFrac]; exact ⟨Nat.le_refl _, vf_0_expOrEnd stk [] (by intro c cs h; cases h)⟩
  | cons c r =>
    rw [pFrac_cons]
    by_cases hc : c = 46
    · subst hc
      simp only [if_true]
      have hs : step (mk .state0 stk) 46 = (mk .stateDot stk, scanContinue) := by rw [step_0]; simp
      rw [vf_step hs (by decide), vf_dot]
      have := takeDigits_length r
      by_cases hd : (takeDigits r).1.isEmpty = true
      · simp only [hd, if_true]
      · simp only [hd, Bool.false_eq_true, if_false, List.length_cons, and_true]; omega
    · simp only [hc, if_false]
      exact ⟨Nat.le_refl _, vf_0_expOrEnd stk _ (by intro c' cs h; simp only [List.cons.injEq] at h; rw [← h.1]; exact hc)⟩

theorem pInt_cons (c : UInt8) (r : Bytes) : pInt (c :: r) =
    if c = 48 then some ([48], r)
    else if isDigit c then some (c :: (takeDigits r).1, (takeDigits r).2) else none := by
  unfold pInt
  split
  · rename_i h; simp only [List.cons.injEq] at h; obtain ⟨rfl, rfl⟩ := h; simp
  · rename_i h1 h2
    simp only [List.cons.injEq] at h2; obtain ⟨rfl, rfl⟩ := h2
    have h48 : c ≠ 48 := fun h => h1 h
    simp [h48]
  · rename_i h; cases h

theorem vf_1_0 (stk : List Nat) (r : Bytes) (h : ∀ c cs, r = c :: cs → isDigit c = false) :
    validFrom (mk .state1 stk) r = validFrom (mk .state0 stk) r := by
  apply vf_congr
  · intro _; rw [eof_1, eof_0]
  · intro c cs hr
    rw [step_1]; simp [h c cs hr]

theorem pInt_sim (stk : List Nat) (r0 : Bytes) :
    match pInt r0 with
    | some (_, r1) => r1.length < r0.length ∧ validFrom (mk .stateNeg stk) r0 = validFrom (mk .state0 stk) r1
    | none => validFrom (mk .stateNeg stk) r0 = false := by
  cases r0 with
  | nil => simp only [pInt]; exact eof_neg stk
  | cons c r =>
    rw [pInt_cons, validFrom_cons, step_neg]
    by_cases h48 : c = 48
    · subst h48
      simp only [if_true]
      rw [if_neg (by decide)]
      exact ⟨by simp, rfl⟩
    · simp only [h48, if_false]
      by_cases hd : isDigit c = true
      · have h19 : 49 ≤ c.toNat ∧ c.toNat ≤ 57 := by u8_omega
        simp only [hd, h19, and_self, if_true]
        rw [if_neg (by decide)]
        have := takeDigits_length r
        refine ⟨by simp only [List.length_cons]; omega, ?_⟩
        rw [vf_digits (s := mk .state1 stk) (fun c hc => by rw [step_1]; simp [hc])]
        exact vf_1_0 stk _ (takeDigits_head r)
      · have h19 : ¬ (49 ≤ c.toNat ∧ c.toNat ≤ 57) := by u8_omega
        simp only [hd, h19, Bool.false_eq_true, if_false]
        simp

theorem stripSign_cons (c : UInt8) (cs : Bytes) :
    stripSign (c :: cs) = if c = 45 then ([45], cs) else ([], c :: cs) := by
  unfold stripSign
  split
  · rename_i h; simp only [List.cons.injEq] at h; obtain ⟨rfl, rfl⟩ := h; simp
  · rename_i h1
    have h45 : c ≠ 45 := fun h => h1 cs (by rw [h])
    simp [h45]

/-- the first byte can only start a number -/
def NumHead (bs : Bytes) : Prop := ∀ c cs, bs = c :: cs →
  isWs c = false ∧ c ≠ 123 ∧ c ≠ 91 ∧ c ≠ 34 ∧ c ≠ 116 ∧ c ≠ 102 ∧ c ≠ 110

theorem vf_bv_sign (stk : List Nat) (bs : Bytes) (hh : NumHead bs) :
    (stripSign bs).2.length ≤ bs.length ∧
    validFrom (bv stk) bs = validFrom (mk .stateNeg stk) (stripSign bs).2 := by
  cases bs with
  | nil => simp [stripSign, eof_bv, eof_neg]
  | cons c cs =>
    rw [stripSign_cons]
    by_cases h45 : c = 45
    · subst h45
      simp only [if_true, List.length_cons]
      rw [vf_step (step_bv_minus stk) (by decide)]
      exact ⟨Nat.le_succ _, rfl⟩
    · simp only [h45, if_false]
      obtain ⟨h0, h1, h2, h3, h4, h5, h6⟩ := hh c cs rfl
      refine ⟨Nat.le_refl _, ?_⟩
      rw [validFrom_cons, validFrom_cons, step_bv_num stk c h0 h1 h2 h3 h4 h5 h6 h45, step_neg]
      by_cases h48 : c = 48
      · simp [h48, scanBeginLiteral, scanContinue, scanError]
      · by_cases h19 : 49 ≤ c.toNat ∧ c.toNat ≤ 57
        · simp [h48, h19, scanBeginLiteral, scanContinue, scanError]
        · simp [h48, h19]

theorem parseNumber_sim (stk : List Nat) (bs : Bytes) (hh : NumHead bs) :
    match parseNumber bs with
    | some (_, rest) => rest.length < bs.length ∧ validFrom (bv stk) bs = validFrom (ev stk) rest
    | none => validFrom (bv stk) bs = false := by
  obtain ⟨hl0, h0⟩ := vf_bv_sign stk bs hh
  rw [parseNumber_eq, h0]
  have hI := pInt_sim stk (stripSign bs).2
  cases hpi : pInt (stripSign bs).2 with
  | none => rw [hpi] at hI; exact hI
  | some p1 =>
    obtain ⟨ip, r1⟩ := p1
    rw [hpi] at hI
    simp only at hI ⊢
    have hF := pFrac_sim stk r1
    cases hpf : pFrac r1 with
    | none => rw [hpf] at hF; simp only at hF ⊢; rw [hI.2]; exact hF
    | some p2 =>
      obtain ⟨fp, r2⟩ := p2
      rw [hpf] at hF
      simp only at hF ⊢
      have hE := pExp_sim stk r2
      cases hpe : pExp r2 with
      | none => rw [hpe] at hE; simp only at hE ⊢; rw [hI.2, hF.2]; exact hE
      | some p3 =>
        obtain ⟨ep, r3⟩ := p3
        rw [hpe] at hE
        simp only at hE ⊢
        exact ⟨by omega, by rw [hI.2, hF.2, hE.2]⟩

theorem rN_sim (stk : List Nat) (bs : Bytes) (hh : NumHead bs) :
    SimRes (rN bs) bs.length (validFrom (bv stk) bs) stk := by
  have := parseNumber_sim stk bs hh
  unfold rN
  cases h : parseNumber bs with
  | none => rw [h] at this; exact this
  | some p => obtain ⟨b, r⟩ := p; rw [h] at this; exact this

end Scanner
end JP
