import JP.Lemmas.DecodeTyped

/-!
# The loops of `array` and `object`, and the induction over the reference parser

`typed_all`: the simulation statement `TypedV` / `TypedE` / `TypedM` holds for every successful parse.
-/

namespace JP
namespace Codec

open Scanner

def TypedE (f dd : Nat) (bs : Bytes) (xs : List Cst) (rest : Bytes) : Prop :=
  parseElems f dd bs = some (xs, rest) →
  ∀ stk : List Nat, stk.length + 1 = dd → ∀ (pre : Bytes) (x : UInt8) (bs' : Bytes), bs = x :: bs' →
    ∀ (se : Option DErr) (lk : List Bytes) (G : Nat), 3 * f + 1 ≤ G → ∀ (e : Target) (d0 : DState) (acc : List DVal),
    scanWhile scanSkipSpace d0 = atD (pre ++ bs) (pre.length + 1) (step (bv (2 :: stk)) x) se lk →
    ∃ et vs se', bs = et ++ rest ∧ SeOK se (badL xs e) se' ∧
      arrayLoop G e d0 acc =
        .ok (atD (pre ++ bs) (pre ++ et).length (afterClose stk, scanEndArray) se' (keysAfterL xs e lk), acc ++ vs) ∧
      mapRawL parseCst vs = semL xs e

def TypedM (f dd : Nat) (bs : Bytes) (ms : List (Bytes × Cst)) (rest : Bytes) : Prop :=
  parseMembers f dd bs = some (ms, rest) →
  ∀ stk : List Nat, stk.length + 1 = dd → ∀ (pre : Bytes) (bs' : Bytes), bs = 34 :: bs' →
    ∀ (se : Option DErr) (lk : List Bytes) (G : Nat), 3 * f + 1 ≤ G → ∀ (e : Target) (d0 : DState) (m : DMembers)
      (keys : List Bytes),
    scanWhile scanSkipSpace d0 =
      atD (pre ++ bs) (pre.length + 1) (step (mk .stateBeginString (0 :: stk)) 34) se lk →
    ∃ mt m' se', bs = mt ++ rest ∧ SeOK se (badM ms e) se' ∧
      objectLoop G e d0 m keys =
        .ok (atD (pre ++ bs) (pre ++ mt).length (afterClose stk, scanEndObject) se' (keysAfterM ms e lk), m',
          keys ++ ms.map fun kv => unquote kv.1) ∧
      mapRawM parseCst m' = semM ms e (mapRawM parseCst m)

/-! ### one turn of the loops -/

theorem arrayLoop_done (G : Nat) (e : Target) (d0 D1 : DState) (acc : List DVal)
    (h1 : scanWhile scanSkipSpace d0 = D1) (hop : D1.opcode = scanEndArray) :
    arrayLoop (G + 1) e d0 acc = .ok (D1, acc) := by
  simp only [arrayLoop, h1, hop, if_true]

theorem arrayLoop_last (G : Nat) (e : Target) (d0 D1 D2 D3 : DState) (v : DVal) (acc : List DVal)
    (h1 : scanWhile scanSkipSpace d0 = D1) (hop : D1.opcode ≠ scanEndArray)
    (h2 : value G e D1 = .ok (D2, v)) (h3 : skipSpaceIf D2 = D3) (hop3 : D3.opcode = scanEndArray) :
    arrayLoop (G + 1) e d0 acc = .ok (D3, acc ++ [v]) := by
  simp only [arrayLoop, h1, hop, if_false, h2, h3, hop3, if_true]

theorem arrayLoop_more (G : Nat) (e : Target) (d0 D1 D2 D3 : DState) (v : DVal) (acc : List DVal)
    (h1 : scanWhile scanSkipSpace d0 = D1) (hop : D1.opcode ≠ scanEndArray)
    (h2 : value G e D1 = .ok (D2, v)) (h3 : skipSpaceIf D2 = D3) (hop3 : D3.opcode = scanArrayValue) :
    arrayLoop (G + 1) e d0 acc = arrayLoop G e D3 (acc ++ [v]) := by
  have e1 : (scanArrayValue = scanEndArray) = False := by decide
  simp only [arrayLoop, h1, hop, if_false, h2, h3, hop3, e1, ne_eq, not_true_eq_false]

theorem objectLoop_done (G : Nat) (e : Target) (d0 D1 : DState) (m : DMembers) (keys : List Bytes)
    (h1 : scanWhile scanSkipSpace d0 = D1) (hop : D1.opcode = scanEndObject) :
    objectLoop (G + 1) e d0 m keys = .ok (D1, m, keys) := by
  simp only [objectLoop, h1, hop, if_true]

theorem objectLoop_last (G : Nat) (e : Target) (d0 D1 D2 D3 D4 D5 D6 : DState) (item key : Bytes) (v : DVal)
    (m : DMembers) (keys : List Bytes)
    (h1 : scanWhile scanSkipSpace d0 = D1) (hop1 : D1.opcode = scanBeginLiteral)
    (hres : rescanLiteral D1 = .ok D2) (hslice : slice? D2.data D1.readIndex D2.readIndex = some item)
    (hkey : unquoteBytes item = some key) (h3 : skipSpaceIf D2 = D3) (hop3 : D3.opcode = scanObjectKey)
    (h4 : scanWhile scanSkipSpace D3 = D4) (h5 : value G e D4 = .ok (D5, v)) (h6 : skipSpaceIf D5 = D6)
    (hop6 : D6.opcode = scanEndObject) :
    objectLoop (G + 1) e d0 m keys = .ok (D6, setD key v m, keys ++ [key]) := by
  have e1 : (scanBeginLiteral = scanEndObject) = False := by decide
  simp only [objectLoop, h1, hop1, e1, if_false, ne_eq, not_true_eq_false, hres, hslice, hkey, h3, hop3, h4,
    h5, h6, hop6, if_true]

theorem objectLoop_more (G : Nat) (e : Target) (d0 D1 D2 D3 D4 D5 D6 : DState) (item key : Bytes) (v : DVal)
    (m : DMembers) (keys : List Bytes)
    (h1 : scanWhile scanSkipSpace d0 = D1) (hop1 : D1.opcode = scanBeginLiteral)
    (hres : rescanLiteral D1 = .ok D2) (hslice : slice? D2.data D1.readIndex D2.readIndex = some item)
    (hkey : unquoteBytes item = some key) (h3 : skipSpaceIf D2 = D3) (hop3 : D3.opcode = scanObjectKey)
    (h4 : scanWhile scanSkipSpace D3 = D4) (h5 : value G e D4 = .ok (D5, v)) (h6 : skipSpaceIf D5 = D6)
    (hop6 : D6.opcode = scanObjectValue) :
    objectLoop (G + 1) e d0 m keys = objectLoop G e D6 (setD key v m) (keys ++ [key]) := by
  have e1 : (scanBeginLiteral = scanEndObject) = False := by decide
  have e2 : (scanObjectValue = scanEndObject) = False := by decide
  simp only [objectLoop, h1, hop1, e1, if_false, ne_eq, not_true_eq_false, hres, hslice, hkey, h3, hop3, h4,
    h5, h6, hop6, e2]

theorem valueStk_two (stk : List Nat) : ValueStk (2 :: stk) := .inr ⟨2, stk, rfl, .inr rfl⟩
theorem valueStk_one (stk : List Nat) : ValueStk (1 :: stk) := .inr ⟨1, stk, rfl, .inl rfl⟩

theorem typed_elast (f d : Nat) (bs : Bytes) (c : Cst) (r r' : Bytes) (hv : parseValue f d bs = some (c, r))
    (ih : TypedV f d bs c r) (h93 : skipWs r = 93 :: r') : TypedE (f + 1) d bs [c] r' := by
  intro _ stk hstk pre x bs' hx se lk G hG e d0 acc hd0
  obtain ⟨G, rfl⟩ : ∃ G', G = G' + 1 := ⟨G - 1, by omega⟩
  obtain ⟨vt, D2, v, se', hbs, hstart, hval, hview, hse, hpost⟩ :=
    ih hv (2 :: stk) (by simpa using hstk) (valueStk_two stk) pre x bs' hx se lk G (by omega)
      (delimW_of_skipWs r r' 93 h93 (by simp)) e
  obtain ⟨y, r0, rfl⟩ := skipWs_cons_ne_nil h93
  have hD2 := hpost.eq y r0 rfl
  have hdata : pre ++ bs = (pre ++ vt) ++ y :: r0 := by rw [hbs]; simp
  obtain ⟨ws, hr, hws, hskip⟩ := skipSpaceIf_ev' (pre ++ bs) (pre ++ vt) y r0 93 r' 2 stk se' (keysAfter c e lk) hdata h93
  rw [← hD2, step_ev_arr_rbrack] at hskip
  refine ⟨vt ++ ws ++ [93], [v], se', by rw [hbs, hr]; simp, by simpa [badL] using hse, ?_,
    by simp [mapRawL, semL, ← hview, view]⟩
  rw [arrayLoop_last G e d0 _ D2 _ v acc hd0 (startOp_ne_endArray hstart) hval hskip rfl]
  simp only [List.length_append, List.length_cons, List.length_nil, Nat.add_assoc, keysAfterL]

theorem typed_emore (f d : Nat) (bs : Bytes) (c : Cst) (r r' : Bytes) (xs : List Cst) (rest : Bytes)
    (hv : parseValue f d bs = some (c, r)) (ih : TypedV f d bs c r) (h44 : skipWs r = 44 :: r')
    (hpe : parseElems f d (skipWs r') = some (xs, rest)) (ihE : TypedE f d (skipWs r') xs rest) :
    TypedE (f + 1) d bs (c :: xs) rest := by
  intro _ stk hstk pre x bs' hx se lk G hG e d0 acc hd0
  obtain ⟨G, rfl⟩ : ∃ G', G = G' + 1 := ⟨G - 1, by omega⟩
  obtain ⟨vt, D2, v, se1, hbs, hstart, hval, hview, hse, hpost⟩ :=
    ih hv (2 :: stk) (by simpa using hstk) (valueStk_two stk) pre x bs' hx se lk G (by omega)
      (delimW_of_skipWs r r' 44 h44 (by simp)) e
  obtain ⟨y, r0, rfl⟩ := skipWs_cons_ne_nil h44
  have hD2 := hpost.eq y r0 rfl
  have hdata : pre ++ bs = (pre ++ vt) ++ y :: r0 := by rw [hbs]; simp
  obtain ⟨ws, hr, hws, hskip⟩ := skipSpaceIf_ev' (pre ++ bs) (pre ++ vt) y r0 44 r' 2 stk se1 (keysAfter c e lk) hdata h44
  rw [← hD2, step_ev_arr_comma] at hskip
  obtain ⟨x2, b2, hx2⟩ := parseElems_cons_of_some hpe
  obtain ⟨ws', hr', hws'⟩ := skipWs_prefix r'
  have hx2ws : isWs x2 = false := skipWs_head_nonws r' x2 b2 hx2
  have hdata2 : pre ++ bs = (pre ++ vt ++ ws ++ [44]) ++ (ws' ++ x2 :: b2) := by
    rw [hbs, hr, hr', hx2]; simp
  have hsw := scanWhile_ws' (pre ++ bs) (pre ++ vt ++ ws ++ [44]) ws' x2 b2 (bv (2 :: stk)) scanArrayValue se1
    (keysAfter c e lk) hdata2 hws' (fun c hc => step_bv_ws (2 :: stk) c hc) hx2ws
  have hlen : (pre ++ vt ++ ws ++ [44]).length = (pre ++ vt ++ ws).length + 1 := by
    simp only [List.length_append, List.length_cons, List.length_nil]
  rw [hlen] at hsw
  have hdata3 : pre ++ bs = (pre ++ vt ++ ws ++ [44] ++ ws') ++ skipWs r' := by rw [hdata2, hx2]; simp
  rw [hdata3] at hsw
  obtain ⟨et', vs', se2, het', hse2, hloop, hsem⟩ := ihE hpe stk hstk (pre ++ vt ++ ws ++ [44] ++ ws') x2 b2 hx2 se1
    (keysAfter c e lk) G (by omega) e _ (acc ++ [v]) hsw
  refine ⟨vt ++ ws ++ [44] ++ ws' ++ et', v :: vs', se2, by rw [hbs, hr, hr', het']; simp,
    by simp only [badL]; exact seOK_trans hse hse2, ?_,
    by simp only [mapRawL, semL, hsem]; rw [← hview]; rfl⟩
  rw [arrayLoop_more G e d0 _ D2 _ v acc hd0 (startOp_ne_endArray hstart) hval hskip rfl]
  rw [← hdata3] at hloop
  rw [hloop]
  simp only [List.append_assoc, List.singleton_append, keysAfterL]

/-- the common part of the two member cases: from the key to the state after the member's value -/
theorem typed_member (f d : Nat) (cs k r r1 : Bytes) (c : Cst) (r2 : Bytes) (y' : UInt8) (r3 : Bytes)
    (hk : parseStrBody cs = some (k, r)) (h58 : skipWs r = 58 :: r1)
    (hv : parseValue f d (skipWs r1) = some (c, r2))
    (ih : TypedV f d (skipWs r1) c r2) (hy' : skipWs r2 = y' :: r3) (hy'd : y' = 44 ∨ y' = 93 ∨ y' = 125)
    (stk : List Nat) (hstk : stk.length + 1 = d) (pre : Bytes) (se : Option DErr) (lk : List Bytes) (G : Nat)
    (hG : 3 * f ≤ G) (e : Target) (d0 : DState)
    (hd0 : scanWhile scanSkipSpace d0 =
      atD (pre ++ 34 :: cs) (pre.length + 1) (step (mk .stateBeginString (0 :: stk)) 34) se lk) :
    ∃ mt D1 D2 D3 D4 D5 vv se', 34 :: cs = mt ++ y' :: r3 ∧
      scanWhile scanSkipSpace d0 = D1 ∧ D1.opcode = scanBeginLiteral ∧ rescanLiteral D1 = .ok D2 ∧
      slice? D2.data D1.readIndex D2.readIndex = some (strText k) ∧ skipSpaceIf D2 = D3 ∧
      D3.opcode = scanObjectKey ∧ scanWhile scanSkipSpace D3 = D4 ∧ value G e D4 = .ok (D5, vv) ∧
      view vv = sem c e ∧ SeOK se (bad c e) se' ∧
      skipSpaceIf D5 = atD (pre ++ 34 :: cs) ((pre ++ mt).length + 1) (step (ev (1 :: stk)) y') se'
        (keysAfter c e lk) := by
  obtain ⟨hcs, hvb⟩ := parseStrBody_split cs k r hk
  obtain ⟨yk, rk0, rfl⟩ := skipWs_cons_ne_nil h58
  rw [step_bs_quote] at hd0
  have hdata1 : pre ++ 34 :: cs = pre ++ (strText k ++ yk :: rk0) := by rw [hcs]; simp [strText]
  have hres := rescan_string pre k (yk :: rk0) hvb (mk .stateInString (0 :: stk)) scanBeginLiteral se lk
  rw [← hdata1, afterLit_cons] at hres
  have hdata2 : pre ++ 34 :: cs = (pre ++ strText k) ++ yk :: rk0 := by rw [hdata1]; simp
  obtain ⟨ws1, hr, hws1, hskip1⟩ := skipSpaceIf_ev' (pre ++ 34 :: cs) (pre ++ strText k) yk rk0 58 r1 0 stk se lk hdata2 h58
  rw [step_ev_key_colon] at hskip1
  obtain ⟨xv, bv', hxv⟩ := parseValue_cons_of_some hv
  obtain ⟨ws2, hr1, hws2⟩ := skipWs_prefix r1
  have hxvws : isWs xv = false := skipWs_head_nonws r1 xv bv' hxv
  have hdata3 : pre ++ 34 :: cs = (pre ++ strText k ++ ws1 ++ [58]) ++ (ws2 ++ xv :: bv') := by
    rw [hdata2, hr, hr1, hxv]; simp
  have hsw := scanWhile_ws' (pre ++ 34 :: cs) (pre ++ strText k ++ ws1 ++ [58]) ws2 xv bv' (bv (1 :: stk))
    scanObjectKey se lk hdata3 hws2 (fun c hc => step_bv_ws (1 :: stk) c hc) hxvws
  have hlen : (pre ++ strText k ++ ws1 ++ [58]).length = (pre ++ strText k ++ ws1).length + 1 := by
    simp only [List.length_append, List.length_cons, List.length_nil]
  rw [hlen] at hsw
  have hdata4 : pre ++ 34 :: cs = (pre ++ strText k ++ ws1 ++ [58] ++ ws2) ++ skipWs r1 := by rw [hdata3, hxv]; simp
  obtain ⟨vt, D5, vv, se', hvt, _, hval, hview, hse, hpost⟩ := ih hv (1 :: stk) (by simpa using hstk) (valueStk_one stk)
    (pre ++ strText k ++ ws1 ++ [58] ++ ws2) xv bv' hxv se lk G hG (delimW_of_skipWs r2 r3 y' hy' hy'd) e
  rw [← hdata4] at hval hpost
  obtain ⟨y2, r20, rfl⟩ := skipWs_cons_ne_nil hy'
  have hD5 := hpost.eq y2 r20 rfl
  have hdata5 : pre ++ 34 :: cs = (pre ++ strText k ++ ws1 ++ [58] ++ ws2 ++ vt) ++ y2 :: r20 := by
    rw [hdata4, hvt]; simp
  obtain ⟨ws3, hr2, hws3, hskip3⟩ := skipSpaceIf_ev' (pre ++ 34 :: cs) (pre ++ strText k ++ ws1 ++ [58] ++ ws2 ++ vt)
    y2 r20 y' r3 1 stk se' (keysAfter c e lk) hdata5 hy'
  rw [← hD5] at hskip3
  refine ⟨strText k ++ ws1 ++ [58] ++ ws2 ++ vt ++ ws3, _, _, _, _, D5, vv, se', ?_, hd0, rfl, hres, ?_, hskip1, rfl, hsw,
    hval, hview, hse, ?_⟩
  · have := hdata5
    rw [hr2] at this
    have h2 : pre ++ 34 :: cs = pre ++ ((strText k ++ ws1 ++ [58] ++ ws2 ++ vt ++ ws3) ++ y' :: r3) := by
      rw [this]; simp
    exact List.append_cancel_left h2
  · simp only [DState.readIndex, atD_off, atD_data, Nat.add_sub_cancel]
    rw [hdata1]
    exact slice_mid pre (strText k) (yk :: rk0)
  · rw [hskip3]
    simp only [List.append_assoc]

theorem typed_mlast (f d : Nat) (cs k r r1 : Bytes) (c : Cst) (r2 r3 : Bytes)
    (hk : parseStrBody cs = some (k, r)) (h58 : skipWs r = 58 :: r1)
    (hv : parseValue f d (skipWs r1) = some (c, r2)) (ih : TypedV f d (skipWs r1) c r2)
    (h125 : skipWs r2 = 125 :: r3) : TypedM (f + 1) d (34 :: cs) [(k, c)] r3 := by
  intro _ stk hstk pre bs' hx se lk G hG e d0 m keys hd0
  obtain ⟨G, rfl⟩ : ∃ G', G = G' + 1 := ⟨G - 1, by omega⟩
  obtain ⟨hcs, hvb⟩ := parseStrBody_split cs k r hk
  obtain ⟨mt, D1, D2, D3, D4, D5, vv, se', hmt, h1, hop1, hres, hslice, h3, hop3, h4, h5, hview, hse, h6⟩ :=
    typed_member f d cs k r r1 c r2 125 r3 hk h58 hv ih h125 (by simp) stk hstk pre se lk G (by omega) e d0 hd0
  rw [step_ev_val_rbrace] at h6
  refine ⟨mt ++ [125], setD (unquote k) vv m, se', by rw [hmt]; simp, by simpa [badM] using hse, ?_, ?_⟩
  · rw [objectLoop_last G e d0 D1 D2 D3 D4 D5 _ (strText k) (unquote k) vv m keys h1 hop1 hres hslice
      (unquoteBytes_strText k hvb) h3 hop3 h4 h5 h6 rfl]
    simp only [List.length_append, List.length_cons, List.length_nil, Nat.add_assoc, keysAfterM, List.map]
  · rw [mapRawM_setD]
    simp only [semM]
    rw [← hview]; rfl

theorem typed_mmore (f d : Nat) (cs k r r1 : Bytes) (c : Cst) (r2 r3 : Bytes) (ms : List (Bytes × Cst)) (rest : Bytes)
    (hk : parseStrBody cs = some (k, r)) (h58 : skipWs r = 58 :: r1)
    (hv : parseValue f d (skipWs r1) = some (c, r2)) (ih : TypedV f d (skipWs r1) c r2)
    (h44 : skipWs r2 = 44 :: r3) (hpm : parseMembers f d (skipWs r3) = some (ms, rest))
    (ihM : TypedM f d (skipWs r3) ms rest) : TypedM (f + 1) d (34 :: cs) ((k, c) :: ms) rest := by
  intro _ stk hstk pre bs' hx se lk G hG e d0 m keys hd0
  obtain ⟨G, rfl⟩ : ∃ G', G = G' + 1 := ⟨G - 1, by omega⟩
  obtain ⟨hcs, hvb⟩ := parseStrBody_split cs k r hk
  obtain ⟨mt, D1, D2, D3, D4, D5, vv, se1, hmt, h1, hop1, hres, hslice, h3, hop3, h4, h5, hview, hse, h6⟩ :=
    typed_member f d cs k r r1 c r2 44 r3 hk h58 hv ih h44 (by simp) stk hstk pre se lk G (by omega) e d0 hd0
  rw [step_ev_val_comma] at h6
  obtain ⟨b3, hb3⟩ := parseMembers_cons_of_some hpm
  obtain ⟨ws4, hr3, hws4⟩ := skipWs_prefix r3
  have hdata : pre ++ 34 :: cs = (pre ++ mt ++ [44]) ++ (ws4 ++ 34 :: b3) := by rw [hmt, hr3, hb3]; simp
  have hsw := scanWhile_ws' (pre ++ 34 :: cs) (pre ++ mt ++ [44]) ws4 34 b3 (mk .stateBeginString (0 :: stk))
    scanObjectValue se1 (keysAfter c e lk) hdata hws4 (fun c hc => step_bs_ws (0 :: stk) c hc) (by decide)
  have hlen : (pre ++ mt ++ [44]).length = (pre ++ mt).length + 1 := by
    simp only [List.length_append, List.length_cons, List.length_nil]
  rw [hlen] at hsw
  have hdata2 : pre ++ 34 :: cs = (pre ++ mt ++ [44] ++ ws4) ++ skipWs r3 := by rw [hdata, hb3]; simp
  rw [hdata2] at hsw
  obtain ⟨mt', m', se2, hmt', hse2, hloop, hsem⟩ := ihM hpm stk hstk (pre ++ mt ++ [44] ++ ws4) b3 hb3 se1
    (keysAfter c e lk) G (by omega) e _ (setD (unquote k) vv m) (keys ++ [unquote k]) hsw
  rw [← hdata2] at hloop
  refine ⟨mt ++ [44] ++ ws4 ++ mt', m', se2, by rw [hmt, hr3, hmt']; simp,
    by simp only [badM]; exact seOK_trans hse hse2, ?_, ?_⟩
  · rw [objectLoop_more G e d0 D1 D2 D3 D4 D5 _ (strText k) (unquote k) vv m keys h1 hop1 hres hslice
      (unquoteBytes_strText k hvb) h3 hop3 h4 h5 h6 rfl, hloop]
    simp only [List.append_assoc, keysAfterM, List.map, List.singleton_append]
  · rw [hsem, mapRawM_setD]
    simp only [semM]
    rw [← hview]; rfl

theorem typed_arr0 (f d : Nat) (cs r : Bytes) (hd : d + 1 ≤ maxDepth) (hs : skipWs cs = 93 :: r) :
    TypedV (f + 1) d (91 :: cs) (.arr []) r := by
  intro hp stk hstk hvs pre x bs' hx se lk G hG hdl t
  simp only [List.cons.injEq] at hx
  obtain ⟨rfl, rfl⟩ := hx
  by_cases ht : ∃ e, t = .sliceOf e
  · obtain ⟨e, rfl⟩ := ht
    obtain ⟨G, rfl⟩ : ∃ G', G = G' + 3 := ⟨G - 3, by omega⟩
    obtain ⟨ws, hcs, hws, _⟩ := skipWs_split cs 93 r hs
    have h0 := step_lbrack_ok stk (by omega)
    rw [h0]
    have hdata : pre ++ 91 :: cs = (pre ++ [91]) ++ (ws ++ 93 :: r) := by rw [hcs]; simp
    have hsw := scanWhile_ws' (pre ++ 91 :: cs) (pre ++ [91]) ws 93 r (mk .stateBeginValueOrEmpty (2 :: stk))
      scanBeginArray se lk hdata hws (fun c hc => step_bvoe_ws (2 :: stk) c hc) (by decide)
    rw [step_bvoe_rbrack] at hsw
    have hlen : (pre ++ [91]).length = pre.length + 1 := by simp
    rw [hlen] at hsw
    have hloop := arrayLoop_done G e _ _ [] hsw rfl
    have hvt : (91 : UInt8) :: cs = (91 :: ws ++ [93]) ++ r := by rw [hcs]; simp
    refine ⟨91 :: ws ++ [93], _, .list [], se, hvt, .inr (.inr rfl),
      value_arr (G + 2) _ _ _ _ rfl (array_slice (G + 1) e _ _ [] hloop), rfl, seOK_false se, ?_⟩
    have hoff : (pre ++ [91] ++ ws).length + 1 = (pre ++ (91 :: ws ++ [93])).length := by
      simp only [List.length_append, List.length_cons, List.length_nil]; omega
    rw [hoff, hvt]
    exact postV_scanNext pre (91 :: ws ++ [93]) r stk scanEndArray se lk
  · exact typed_flat_arr (f + 1) d cs [] r hp hd stk hstk hvs pre se lk G hG (by omega) hdl t
      (fun e h => ht ⟨e, h⟩)

theorem typed_arr (f d : Nat) (cs : Bytes) (xs : List Cst) (rest : Bytes) (hd : d + 1 ≤ maxDepth)
    (hs : ∀ r, skipWs cs ≠ 93 :: r) (hpe : parseElems f (d + 1) (skipWs cs) = some (xs, rest))
    (ih : TypedE f (d + 1) (skipWs cs) xs rest) : TypedV (f + 1) d (91 :: cs) (.arr xs) rest := by
  intro hp stk hstk hvs pre x bs' hx se lk G hG hdl t
  simp only [List.cons.injEq] at hx
  obtain ⟨rfl, rfl⟩ := hx
  by_cases ht : ∃ e, t = .sliceOf e
  · obtain ⟨e, rfl⟩ := ht
    obtain ⟨G, rfl⟩ : ∃ G', G = G' + 2 := ⟨G - 2, by omega⟩
    obtain ⟨x2, b2, hx2⟩ := parseElems_cons_of_some hpe
    obtain ⟨ws, hcs, hws⟩ := skipWs_prefix cs
    have hx2ws : isWs x2 = false := skipWs_head_nonws cs x2 b2 hx2
    have hx293 : x2 ≠ 93 := fun h => hs b2 (by rw [hx2, h])
    have h0 := step_lbrack_ok stk (by omega)
    rw [h0]
    have hdata : pre ++ 91 :: cs = (pre ++ [91]) ++ (ws ++ x2 :: b2) := by rw [hcs, hx2]; simp
    have hsw := scanWhile_ws' (pre ++ 91 :: cs) (pre ++ [91]) ws x2 b2 (mk .stateBeginValueOrEmpty (2 :: stk))
      scanBeginArray se lk hdata hws (fun c hc => step_bvoe_ws (2 :: stk) c hc) hx2ws
    rw [step_bvoe_other (2 :: stk) x2 hx2ws hx293] at hsw
    have hlen : (pre ++ [91]).length = pre.length + 1 := by simp
    rw [hlen] at hsw
    have hdata2 : pre ++ 91 :: cs = (pre ++ [91] ++ ws) ++ skipWs cs := by rw [hdata, hx2]; simp
    rw [hdata2] at hsw
    obtain ⟨et, vs, se', het, hse, hloop, hsem⟩ := ih hpe stk (by omega) (pre ++ [91] ++ ws) x2 b2 hx2 se lk G
      (by omega) e _ [] hsw
    rw [← hdata2] at hloop
    have hvt : (91 : UInt8) :: cs = (91 :: ws ++ et) ++ rest := by rw [hcs, het]; simp
    refine ⟨91 :: ws ++ et, _, .list vs, se', hvt, .inr (.inr rfl),
      value_arr (G + 1) _ _ _ _ rfl (array_slice G e _ _ vs (by rw [hloop]; rfl)),
      by simp only [view, mapRaw, sem, hsem], by simpa [bad] using hse, ?_⟩
    have hoff : (pre ++ [91] ++ ws ++ et).length = (pre ++ (91 :: ws ++ et)).length := by
      simp only [List.length_append, List.length_cons, List.length_nil]; omega
    rw [hoff, hvt]
    simp only [keysAfter]
    exact postV_scanNext pre (91 :: ws ++ et) rest stk scanEndArray se' _
  · exact typed_flat_arr (f + 1) d cs xs rest hp hd stk hstk hvs pre se lk G hG (by omega) hdl t
      (fun e h => ht ⟨e, h⟩)

theorem typed_obj0 (f d : Nat) (cs r : Bytes) (hd : d + 1 ≤ maxDepth) (hs : skipWs cs = 125 :: r) :
    TypedV (f + 1) d (123 :: cs) (.obj []) r := by
  intro hp stk hstk hvs pre x bs' hx se lk G hG hdl t
  simp only [List.cons.injEq] at hx
  obtain ⟨rfl, rfl⟩ := hx
  by_cases ht : ∃ e, t = .mapOf e
  · obtain ⟨e, rfl⟩ := ht
    obtain ⟨G, rfl⟩ : ∃ G', G = G' + 3 := ⟨G - 3, by omega⟩
    obtain ⟨ws, hcs, hws, _⟩ := skipWs_split cs 125 r hs
    have h0 := step_lbrace_ok stk (by omega)
    rw [h0]
    have hdata : pre ++ 123 :: cs = (pre ++ [123]) ++ (ws ++ 125 :: r) := by rw [hcs]; simp
    have hsw := scanWhile_ws' (pre ++ 123 :: cs) (pre ++ [123]) ws 125 r (mk .stateBeginStringOrEmpty (0 :: stk))
      scanBeginObject se lk hdata hws (fun c hc => step_bsoe_ws (0 :: stk) c hc) (by decide)
    rw [step_bsoe_rbrace] at hsw
    have hlen : (pre ++ [123]).length = pre.length + 1 := by simp
    rw [hlen] at hsw
    have hloop := objectLoop_done G e _ _ [] [] hsw rfl
    have hvt : (123 : UInt8) :: cs = (123 :: ws ++ [125]) ++ r := by rw [hcs]; simp
    refine ⟨123 :: ws ++ [125], _, .map [], se, hvt, .inr (.inl rfl),
      value_obj (G + 2) _ _ _ _ rfl (object_map (G + 1) e _ _ [] [] hloop), rfl, seOK_false se, ?_⟩
    have hoff : (pre ++ [123] ++ ws).length + 1 = (pre ++ (123 :: ws ++ [125])).length := by
      simp only [List.length_append, List.length_cons, List.length_nil]; omega
    rw [hvt]
    simp only [keysAfter, List.map_nil]
    have := postV_scanNext pre (123 :: ws ++ [125]) r stk scanEndObject se []
    rw [hoff]
    exact this
  · exact typed_flat_obj (f + 1) d cs [] r hp hd stk hstk hvs pre se lk G hG (by omega) hdl t
      (fun e h => ht ⟨e, h⟩)

theorem typed_obj (f d : Nat) (cs : Bytes) (ms : List (Bytes × Cst)) (rest : Bytes) (hd : d + 1 ≤ maxDepth)
    (hs : ∀ r, skipWs cs ≠ 125 :: r) (hpm : parseMembers f (d + 1) (skipWs cs) = some (ms, rest))
    (ih : TypedM f (d + 1) (skipWs cs) ms rest) : TypedV (f + 1) d (123 :: cs) (.obj ms) rest := by
  intro hp stk hstk hvs pre x bs' hx se lk G hG hdl t
  simp only [List.cons.injEq] at hx
  obtain ⟨rfl, rfl⟩ := hx
  by_cases ht : ∃ e, t = .mapOf e
  · obtain ⟨e, rfl⟩ := ht
    obtain ⟨G, rfl⟩ : ∃ G', G = G' + 2 := ⟨G - 2, by omega⟩
    obtain ⟨b2, hx2⟩ := parseMembers_cons_of_some hpm
    obtain ⟨ws, hcs, hws⟩ := skipWs_prefix cs
    have h0 := step_lbrace_ok stk (by omega)
    rw [h0]
    have hdata : pre ++ 123 :: cs = (pre ++ [123]) ++ (ws ++ 34 :: b2) := by rw [hcs, hx2]; simp
    have hsw := scanWhile_ws' (pre ++ 123 :: cs) (pre ++ [123]) ws 34 b2 (mk .stateBeginStringOrEmpty (0 :: stk))
      scanBeginObject se lk hdata hws (fun c hc => step_bsoe_ws (0 :: stk) c hc) (by decide)
    rw [step_bsoe_other (0 :: stk) 34 (by decide) (by decide)] at hsw
    have hlen : (pre ++ [123]).length = pre.length + 1 := by simp
    rw [hlen] at hsw
    have hdata2 : pre ++ 123 :: cs = (pre ++ [123] ++ ws) ++ skipWs cs := by rw [hdata, hx2]; simp
    rw [hdata2] at hsw
    obtain ⟨mt, m', se', hmt, hse, hloop, hsem⟩ := ih hpm stk (by omega) (pre ++ [123] ++ ws) b2 hx2 se lk G
      (by omega) e _ [] [] hsw
    rw [← hdata2] at hloop
    have hvt : (123 : UInt8) :: cs = (123 :: ws ++ mt) ++ rest := by rw [hcs, hmt]; simp
    refine ⟨123 :: ws ++ mt, _, .map m', se', hvt, .inr (.inl rfl),
      value_obj (G + 1) _ _ _ _ rfl (object_map G e _ _ m' _ hloop),
      by simp only [view, mapRaw, sem, hsem]; rfl, by simpa [bad] using hse, ?_⟩
    have hoff : (pre ++ [123] ++ ws ++ mt).length = (pre ++ (123 :: ws ++ mt)).length := by
      simp only [List.length_append, List.length_cons, List.length_nil]; omega
    rw [hvt]
    simp only [keysAfter, List.nil_append]
    have := postV_scanNext pre (123 :: ws ++ mt) rest stk scanEndObject se' (ms.map fun kv => unquote kv.1)
    rw [hoff]
    exact this
  · exact typed_flat_obj (f + 1) d cs ms rest hp hd stk hstk hvs pre se lk G hG (by omega) hdl t
      (fun e h => ht ⟨e, h⟩)

theorem typed_all (f : Nat) :
    (∀ d bs c rest, parseValue f d bs = some (c, rest) → TypedV f d bs c rest) ∧
    (∀ d bs xs rest, parseElems f d bs = some (xs, rest) → xs ≠ [] ∧ TypedE f d bs xs rest) ∧
    (∀ d bs ms rest, parseMembers f d bs = some (ms, rest) → ms ≠ [] ∧ TypedM f d bs ms rest) :=
  parse_ind (PV := TypedV) (PE := TypedE) (PM := TypedM)
    (fun f d cs r hd hs => typed_obj0 f d cs r hd hs)
    (fun f d cs ms rest hd hs _ hp ih => typed_obj f d cs ms rest hd hs hp ih)
    (fun f d cs r hd hs => typed_arr0 f d cs r hd hs)
    (fun f d cs xs rest hd hs _ hp ih => typed_arr f d cs xs rest hd hs hp ih)
    (fun f d cs b rest h => typed_str f d cs b rest h)
    (fun f d w rest hw => typed_word f d w rest hw)
    (fun f d c cs l rest hc hp => typed_num f d c cs l rest hc hp)
    (fun f d bs x r r' hv ih h93 => typed_elast f d bs x r r' hv ih h93)
    (fun f d bs x r r' xs rest hv ih h44 _ hp ihE => typed_emore f d bs x r r' xs rest hv ih h44 hp ihE)
    (fun f d cs k r r1 v r2 r3 hk h58 hv ih h125 => typed_mlast f d cs k r r1 v r2 r3 hk h58 hv ih h125)
    (fun f d cs k r r1 v r2 r3 ms rest hk h58 hv ih h44 _ hp ihM =>
      typed_mmore f d cs k r r1 v r2 r3 ms rest hk h58 hv ih h44 hp ihM)
    f

end Codec
end JP
