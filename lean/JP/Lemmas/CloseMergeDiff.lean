import JP.Lemmas.CloseMergeSorted
import JP.Lemmas.MergeLawsRoundtrip

/-!
# `getDiff` (the model of `CreateMergePatch`'s recursion) against `Spec.diff`

On normalised values (`anyOf`: names sorted, hence duplicate-free) `matchesValue` decides
`Value.eqv` (pigeonhole), `deletedM` *is* `Spec.deletions`, `getDiffM` / `getDiffOne` mirror
`Spec.diffMs` / `Spec.diffMember`, and `mergeSorted` is a union with disjoint names.  The main
theorem compares the two member by member through lookups, for inputs that are only `eqv` to each
other (the model works on `anyOf A`, the specification on `A`).
-/

namespace JP
namespace Impl
open Value

/-! ### `matchesValue` decides `eqv` on duplicate-free values -/

theorem sameType_of_matches (a b : Value) (h : matchesValue a b = true) : sameType a b = true := by
  cases a <;> cases b <;> simp [matchesValue, sameType] at h ⊢

mutual
theorem matches_eqv : ∀ (x y : Value), noDup x = true → noDup y = true → matchesValue x y = eqv x y
  | .null, y, _, _ => by cases y <;> simp only [matchesValue, eqv]
  | .bool _, y, _, _ => by cases y <;> simp only [matchesValue, eqv]
  | .num _, y, _, _ => by cases y <;> simp only [matchesValue, eqv]
  | .str _, y, _, _ => by cases y <;> simp only [matchesValue, eqv]
  | .arr xs, y, hx, hy => by
    cases y with
    | arr ys =>
      simp only [matchesValue, eqv]
      exact matchesL_eqv xs ys (by simpa [noDup] using hx) (by simpa [noDup] using hy)
    | _ => simp only [matchesValue, eqv]
  | .obj xs, y, hx, hy => by
    cases y with
    | obj ys =>
      rw [noDup_obj] at hx hy
      rw [eqv_obj_nodup xs ys hx.1 hy.1]
      simp only [matchesValue, matchesM_eqv xs ys hx.2 hy.2]
    | _ => simp only [matchesValue, eqv]
theorem matchesL_eqv : ∀ (xs ys : List Value), noDupL xs = true → noDupL ys = true →
    matchesL xs ys = eqvL xs ys
  | [], ys, _, _ => by simp only [matchesL, eqvL]
  | x :: xs, [], _, _ => by simp only [matchesL, eqvL]
  | x :: xs, y :: ys, hx, hy => by
    simp only [noDupL, Bool.and_eq_true] at hx hy
    simp only [matchesL, eqvL, matches_eqv x y hx.1 hy.1, matchesL_eqv xs ys hx.2 hy.2]
theorem matchesM_eqv : ∀ (xs ys : Members), noDupM xs = true → noDupM ys = true →
    matchesM xs ys = eqvM xs ys
  | [], ys, _, _ => by simp only [matchesM, eqvM]
  | (k, v) :: xs, ys, hx, hy => by
    simp only [noDupM, Bool.and_eq_true] at hx
    simp only [matchesM, eqvM, matchesM_eqv xs ys hx.2 hy]
    cases hl : lookup k ys with
    | none => rfl
    | some w => simp only [matches_eqv v w hx.1 (noDup_of_lookup hy hl)]
end

theorem eqv_congr {a a' b b' : Value} (ha : noDup a = true) (ha' : noDup a' = true)
    (hb : noDup b = true) (hb' : noDup b' = true)
    (h1 : eqv a' a = true) (h2 : eqv b' b = true) : eqv a' b' = eqv a b := by
  have h1s : eqv a a' = true := by rw [Value.eqv_symm a a' ha ha']; exact h1
  have h2s : eqv b b' = true := by rw [Value.eqv_symm b b' hb hb']; exact h2
  cases h : eqv a b with
  | true => exact Value.eqv_trans _ _ _ (Value.eqv_trans _ _ _ h1 h) h2s
  | false =>
    cases h' : eqv a' b' with
    | false => rfl
    | true =>
      have := Value.eqv_trans _ _ _ (Value.eqv_trans _ _ _ h1s h') h2
      rw [h] at this; cases this

/-! ### equations -/

theorem deletedM_eq (b : Members) : ∀ as : Members, deletedM b as = Spec.deletions b as
  | [] => by simp only [deletedM, Spec.deletions]
  | (k, v) :: as => by simp only [deletedM, Spec.deletions, deletedM_eq b as]

theorem getDiffM_nil (a : Members) : getDiffM a [] = [] := by simp only [getDiffM]

theorem getDiffM_cons_none {a : Members} {k : Bytes} (h : lookup k a = none) (bv : Value) (bs : Members) :
    getDiffM a ((k, bv) :: bs) = (k, bv) :: getDiffM a bs := by simp only [getDiffM, h]

theorem getDiffM_cons_some {a : Members} {k : Bytes} {av : Value} (h : lookup k a = some av)
    (bv : Value) (bs : Members) :
    getDiffM a ((k, bv) :: bs) = getDiffOne k av bv ++ getDiffM a bs := by simp only [getDiffM, h]

theorem getDiffOne_obj_obj (k : Bytes) (ams bms : Members) :
    getDiffOne k (.obj ams) (.obj bms) =
      if (getDiff ams bms).isEmpty = true then [] else [(k, .obj (getDiff ams bms))] := by
  simp only [getDiffOne, getDiff]
  split <;> simp_all

theorem getDiffOne_nonobj_obj (k : Bytes) {av : Value} (h : av.isObj = false) (bms : Members) :
    getDiffOne k av (.obj bms) = [(k, .obj bms)] := by
  cases av <;> simp [getDiffOne, isObj] at h ⊢

theorem getDiffOne_of_not_obj (k : Bytes) (av : Value) {bv : Value} (h : bv.isObj = false) :
    getDiffOne k av bv = if (sameType av bv && matchesValue av bv) = true then [] else [(k, bv)] := by
  cases bv <;> simp [getDiffOne, isObj] at h ⊢

theorem getDiffOne_shape (k : Bytes) (av bv : Value) :
    getDiffOne k av bv = [] ∨ ∃ x, getDiffOne k av bv = [(k, x)] := by
  by_cases hb : bv.isObj = true
  · cases bv <;> simp [isObj] at hb
    rename_i bms
    by_cases ha : av.isObj = true
    · cases av <;> simp [isObj] at ha
      rw [getDiffOne_obj_obj]
      split
      · exact Or.inl rfl
      · exact Or.inr ⟨_, rfl⟩
    · rw [getDiffOne_nonobj_obj k (by simpa using ha)]; exact Or.inr ⟨_, rfl⟩
  · rw [getDiffOne_of_not_obj k av (by simpa using hb)]
    split
    · exact Or.inl rfl
    · exact Or.inr ⟨_, rfl⟩

theorem lookup_getDiffOne_ne {k k' : Bytes} (h : k' ≠ k) (av bv : Value) :
    lookup k (getDiffOne k' av bv) = none := by
  rcases getDiffOne_shape k' av bv with h1 | ⟨x, h1⟩
  · rw [h1]; rfl
  · rw [h1, lookup_cons_ne h]; rfl

/-! ### lookups -/

/-- the member of `getDiff a b` under one name -/
def gdOptFull (k : Bytes) (a b : Option Value) : Option Value :=
  match b with
  | none => (match a with | none => none | some _ => some .null)
  | some bv => (match a with | none => some bv | some av => lookup k (getDiffOne k av bv))

theorem lookup_getDiffM (k : Bytes) (a : Members) : ∀ bs : Members, nodupKeys (bs.map Prod.fst) = true →
    lookup k (getDiffM a bs) =
      match lookup k bs with
      | none => none
      | some bv => (match lookup k a with | none => some bv | some av => lookup k (getDiffOne k av bv))
  | [], _ => by simp [getDiffM_nil, lookup]
  | (k', bv) :: bs, hnd => by
    rw [nodupKeys_members_cons] at hnd
    have ih := lookup_getDiffM k a bs hnd.2
    by_cases hk : k' = k
    · subst hk
      rw [lookup_cons_self]
      rw [hnd.1] at ih
      cases ha : lookup k' a with
      | none => rw [getDiffM_cons_none ha, lookup_cons_self]
      | some av =>
        rw [getDiffM_cons_some ha, lookup_append, ih]
        simp
    · rw [lookup_cons_ne hk]
      cases ha : lookup k' a with
      | none => rw [getDiffM_cons_none ha, lookup_cons_ne hk]; exact ih
      | some av =>
        rw [getDiffM_cons_some ha, lookup_append, lookup_getDiffOne_ne hk, ih]
        simp

theorem lookup_getDiff (k : Bytes) (a b : Members) (ha : nodupKeys (a.map Prod.fst) = true)
    (hb : nodupKeys (b.map Prod.fst) = true) :
    lookup k (getDiff a b) = gdOptFull k (lookup k a) (lookup k b) := by
  rw [getDiff, lookup_mergeSorted k _ _ (by rw [deletedM_eq]; exact Spec.nodupKeys_deletions b a ha),
    deletedM_eq, Spec.lookup_deletions, lookup_getDiffM k a b hb]
  cases hla : lookup k a <;> cases hlb : lookup k b <;> simp [gdOptFull]

/-! ### sortedness of the produced patch -/

theorem keys_getDiffM (a : Members) : ∀ (bs : Members) (x : Bytes × Value), x ∈ getDiffM a bs →
    ∃ y ∈ bs, y.1 = x.1
  | [], x, h => by simp [getDiffM_nil] at h
  | (k, bv) :: bs, x, h => by
    cases ha : lookup k a with
    | none =>
      rw [getDiffM_cons_none ha] at h
      rcases List.mem_cons.1 h with rfl | h
      · exact ⟨_, List.mem_cons_self .., rfl⟩
      · obtain ⟨y, hy, e⟩ := keys_getDiffM a bs x h
        exact ⟨y, List.mem_cons_of_mem _ hy, e⟩
    | some av =>
      rw [getDiffM_cons_some ha] at h
      rcases List.mem_append.1 h with h | h
      · rcases getDiffOne_shape k av bv with h1 | ⟨z, h1⟩
        · rw [h1] at h; cases h
        · rw [h1, List.mem_singleton] at h
          subst h
          exact ⟨_, List.mem_cons_self .., rfl⟩
      · obtain ⟨y, hy, e⟩ := keys_getDiffM a bs x h
        exact ⟨y, List.mem_cons_of_mem _ hy, e⟩

theorem SortedK_getDiffM (a : Members) : ∀ (bs : Members), SortedK bs → SortedK (getDiffM a bs)
  | [], _ => by rw [getDiffM_nil]; exact SortedK_nil
  | (k, bv) :: bs, h => by
    rw [SortedK_cons] at h
    have ih := SortedK_getDiffM a bs h.2
    have hlt : ∀ x ∈ getDiffM a bs, bytesLt k x.1 = true := by
      intro x hx
      obtain ⟨y, hy, e⟩ := keys_getDiffM a bs x hx
      rw [← e]; exact h.1 y hy
    cases ha : lookup k a with
    | none =>
      rw [getDiffM_cons_none ha, SortedK_cons]
      exact ⟨hlt, ih⟩
    | some av =>
      rw [getDiffM_cons_some ha]
      rcases getDiffOne_shape k av bv with h1 | ⟨z, h1⟩
      · rw [h1]; exact ih
      · rw [h1, List.cons_append, List.nil_append, SortedK_cons]
        exact ⟨hlt, ih⟩

theorem SortedK_getDiff (a b : Members) (hb : SortedK b) : SortedK (getDiff a b) :=
  SortedK_mergeSorted _ _ (SortedK_getDiffM a b hb)

/-! ### the refinement, member by member -/

/-- the statement proved by induction on the target value of the specification side -/
def DiffRef (bv : Value) : Prop :=
  ∀ (k : Bytes) (av av' bv' : Value), noDup av = true → noDup bv = true →
    Norm av' = true → Norm bv' = true → eqv av' av = true → eqv bv' bv = true →
    optEqv (lookup k (getDiffOne k av' bv')) (lookup k (Spec.diffMember k av bv)) = true

theorem optEqv_none_iff {a b : Option Value} (h : optEqv a b = true) : a = none ↔ b = none := by
  cases a <;> cases b <;> simp_all [optEqv]

/-- objects against objects, given the statement for the members of the target -/
theorem getDiff_core (ams ams' bms bms' : Members)
    (ih : ∀ q v, (q, v) ∈ bms → DiffRef v)
    (ha : noDup (.obj ams) = true) (hb : noDup (.obj bms) = true)
    (ha' : Norm (.obj ams') = true) (hb' : Norm (.obj bms') = true)
    (ea : eqv (.obj ams') (.obj ams) = true) (eb : eqv (.obj bms') (.obj bms) = true) :
    ∀ q, optEqv (lookup q (getDiff ams' bms')) (lookup q (Spec.diff ams bms)) = true := by
  intro q
  have nda := (noDup_obj ams).1 ha
  have ndb := (noDup_obj bms).1 hb
  have na' := (Norm_obj ams').1 ha'
  have nb' := (Norm_obj bms').1 hb'
  rw [lookup_getDiff q ams' bms' (SortedK_nodup _ na'.1) (SortedK_nodup _ nb'.1),
    Spec.lookup_diff q ams bms ndb.1]
  have oa := optEqv_of_eqv_obj ea q
  have ob := optEqv_of_eqv_obj eb q
  cases hla : lookup q ams with
  | none =>
    rw [hla] at oa
    have hla' : lookup q ams' = none := (optEqv_none_iff oa).2 rfl
    rw [hla']
    cases hlb : lookup q bms with
    | none =>
      rw [hlb] at ob
      rw [(optEqv_none_iff ob).2 rfl]; rfl
    | some bv =>
      rw [hlb] at ob
      cases hlb' : lookup q bms' with
      | none => rw [hlb'] at ob; cases ob
      | some bv' => rw [hlb'] at ob; simpa [gdOptFull] using ob
  | some av =>
    rw [hla] at oa
    cases hla' : lookup q ams' with
    | none => rw [hla'] at oa; cases oa
    | some av' =>
      rw [hla'] at oa
      cases hlb : lookup q bms with
      | none =>
        rw [hlb] at ob
        rw [(optEqv_none_iff ob).2 rfl]; rfl
      | some bv =>
        rw [hlb] at ob
        cases hlb' : lookup q bms' with
        | none => rw [hlb'] at ob; cases ob
        | some bv' =>
          rw [hlb'] at ob
          simp only [gdOptFull, Spec.diffOptFull_some_some]
          exact ih q bv (mem_of_lookup hlb) q av av' bv' (noDup_of_lookup nda.2 hla)
            (noDup_of_lookup ndb.2 hlb)
            ((NormM_iff ams').1 na'.2 _ (mem_of_lookup hla'))
            ((NormM_iff bms').1 nb'.2 _ (mem_of_lookup hlb')) oa ob

theorem isEmpty_eq_of_lookups {xs ys : Members}
    (h : ∀ q, optEqv (lookup q xs) (lookup q ys) = true) : xs.isEmpty = ys.isEmpty := by
  have h1 : xs = [] ↔ ys = [] := by
    rw [eq_nil_iff_lookup, eq_nil_iff_lookup]
    exact ⟨fun hx q => (optEqv_none_iff (h q)).1 (hx q), fun hy q => (optEqv_none_iff (h q)).2 (hy q)⟩
  cases xs with
  | nil => rw [h1.1 rfl]
  | cons x xs =>
    cases ys with
    | nil => exact absurd (h1.2 rfl) (by simp)
    | cons y ys => rfl

theorem DiffRef_nonobj (bv : Value) (hb : bv.isObj = false) : DiffRef bv := by
  intro k av av' bv' nda ndb na' nb' ea eb
  have hb' : bv'.isObj = false := by rw [eqv_isObj eb]; exact hb
  have nda' := noDup_of_Norm _ na'
  have ndb' := noDup_of_Norm _ nb'
  rw [getDiffOne_of_not_obj k av' hb', Spec.diffMember_of_not_obj k av hb]
  have hcond : (sameType av' bv' && matchesValue av' bv') = eqv av bv := by
    rw [← eqv_congr nda nda' ndb ndb' ea eb, ← matches_eqv av' bv' nda' ndb']
    cases hm : matchesValue av' bv' with
    | false => simp
    | true => simp [sameType_of_matches _ _ hm]
  rw [hcond]
  cases eqv av bv with
  | true => simp [lookup]
  | false => simpa [lookup_cons_self] using eb

theorem DiffRef_all : ∀ bv : Value, DiffRef bv := by
  apply Value.ind
  · exact DiffRef_nonobj _ rfl
  · intro b; exact DiffRef_nonobj _ rfl
  · intro l; exact DiffRef_nonobj _ rfl
  · intro s; exact DiffRef_nonobj _ rfl
  · intro xs _; exact DiffRef_nonobj _ rfl
  · intro bms ih k av av' bv' nda ndb na' nb' ea eb
    obtain ⟨bms', rfl⟩ := eqv_obj_right eb
    have hobj : av'.isObj = av.isObj := eqv_isObj ea
    by_cases hao : av.isObj = true
    · cases av <;> simp [isObj] at hao
      rename_i ams
      obtain ⟨ams', rfl⟩ := eqv_obj_right ea
      have core := getDiff_core ams ams' bms bms' ih nda ndb na' nb' ea eb
      rw [getDiffOne_obj_obj, Spec.diffMember_obj_obj, isEmpty_eq_of_lookups core]
      split
      · rfl
      · simp only [lookup_cons_self, optEqv_some_some]
        rw [eqv_obj_iff (SortedK_nodup _ (SortedK_getDiff ams' bms' ((Norm_obj bms').1 nb').1))]
        exact core
    · have hao' : av.isObj = false := by simpa using hao
      rw [getDiffOne_nonobj_obj k (by rw [hobj]; exact hao'), Spec.diffMember_nonobj_obj k hao']
      simpa [lookup_cons_self] using eb

/-- **the model's diff on normalised values is the specification's diff up to member order**:
for duplicate-free member lists `A`, `B` -/
theorem getDiff_refines_aux (A B : Members) (hA : noDup (.obj A) = true) (hB : noDup (.obj B) = true) :
    eqv (.obj (getDiff (anyOfM A []) (anyOfM B []))) (.obj (Spec.diff A B)) = true := by
  have nA : Norm (.obj (anyOfM A [])) = true := by have := Norm_anyOf (.obj A); simpa only [anyOf] using this
  have nB : Norm (.obj (anyOfM B [])) = true := by have := Norm_anyOf (.obj B); simpa only [anyOf] using this
  rw [eqv_obj_iff (SortedK_nodup _ (SortedK_getDiff _ _ ((Norm_obj _).1 nB).1))]
  exact getDiff_core A _ B _ (fun q v _ => DiffRef_all v) hA hB nA nB (eqv_anyOfM A hA) (eqv_anyOfM B hB)

/-- the produced patch is name-sorted (as Go's `Marshal` of a map prints it) -/
theorem getDiff_sorted (A B : Members) : SortedK (getDiff (anyOfM A []) (anyOfM B [])) :=
  SortedK_getDiff _ _ (SortedK_anyOfM B [] SortedK_nil)

end Impl
end JP
