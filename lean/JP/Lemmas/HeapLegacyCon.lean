import JP.Lemmas.HeapLegacyPrim
import JP.Lemmas.HeapCon2

/-!
# The legacy `container` methods through an address refine `Legacy.conGet/conSet/conAdd/conRemove`

The index lemmas of `JP/Lemmas/HeapCon.lean` (`getIdx`, `setIdx`, `addIdx`, `removeIdx`) are used
at the options record `nopts neg`.  New with respect to v5: `partialDoc.get` of an absent name is
`nil` WITHOUT error (`Got`: either the nil pointer for the nil node, or a child in focus).
-/
namespace JP
namespace Heap
namespace Lg

open JP.Impl (Outcome listSet listInsert)
open JP.Legacy (Node NMembers lookupN setN eraseN)

theorem conGet_ary (neg : Bool) (ns : List Node) (key : Bytes) :
    Legacy.conGet neg (.ary ns) key =
      match getIdx (nopts neg) ns.length key with
      | .ok i => (match ns[i]? with | some n => .ok n | none => .err .invalidIndex)
      | .err e => .err e
      | .panic => .panic := by
  simp only [Legacy.conGet, getIdx, nopts]
  cases atoi key with
  | none => rfl
  | some idx =>
    simp only
    repeat' (first | rfl | contradiction | split)
    all_goals simp_all

theorem conSet_ary (neg : Bool) (ns : List Node) (key : Bytes) (val : Node) :
    Legacy.conSet neg (.ary ns) key val =
      match setIdx (nopts neg) ns.length key with
      | .ok i => .ok (.ary (listSet i val ns))
      | .err e => .err e
      | .panic => .panic := by
  simp only [Legacy.conSet, setIdx, nopts]
  cases atoi key with
  | none => rfl
  | some idx =>
    simp only
    repeat' (first | rfl | contradiction | split)
    all_goals simp_all

theorem conAdd_ary (neg : Bool) (ns : List Node) (key : Bytes) (val : Node) :
    Legacy.conAdd neg (.ary ns) key val =
      match addIdx (nopts neg) ns.length key with
      | .ok none => .ok (.ary (ns ++ [val]))
      | .ok (some i) => .ok (.ary (listInsert i val ns))
      | .err e => .err e
      | .panic => .panic := by
  simp only [Legacy.conAdd, addIdx, nopts]
  split
  · rfl
  cases atoi key with
  | none => rfl
  | some idx =>
    simp only
    repeat' (first | rfl | contradiction | split)
    all_goals simp_all

theorem conRemove_ary (neg : Bool) (ns : List Node) (key : Bytes) :
    Legacy.conRemove neg (.ary ns) key =
      match removeIdx (nopts neg) ns.length key with
      | .ok none => .ok (.ary ns)
      | .ok (some i) => .ok (.ary (ns.eraseIdx i))
      | .err e => .err e
      | .panic => .panic := by
  simp only [Legacy.conRemove, removeIdx, nopts]
  cases atoi key with
  | none => rfl
  | some idx =>
    simp only
    repeat' (first | rfl | contradiction | split)
    all_goals simp_all

theorem putChild_ary {neg : Bool} {ns : List Node} {key : Bytes} {i : Nat} (c : Node)
    (hi : getIdx (nopts neg) ns.length key = .ok i) :
    Legacy.putChild (.ary ns) key c = .ary (listSet i c ns) := by
  simp only [Legacy.putChild, getIdx] at hi ⊢
  cases hk : atoi key with
  | none => rw [hk] at hi; cases hi
  | some idx =>
    rw [hk] at hi
    simp only at hi ⊢
    by_cases h1 : idx < 0
    · simp only [h1, if_true] at hi ⊢
      by_cases h2 : (!(nopts neg).neg) = true
      · simp only [h2, if_true] at hi; cases hi
      · simp only [h2] at hi
        by_cases h3 : idx < -(ns.length : Int)
        · simp only [h3, if_true] at hi; cases hi
        · simp only [h3] at hi
          cases hi; rfl
    · simp only [h1] at hi ⊢
      cases hi; rfl

/-! ### `get` -/

/-- a child in focus: a pointer to the child `n`, and the rule to put a changed child back
(`putChild`) as long as the rest of the container's footprint was left alone -/
def LFocus (h : Heap) (con : Node) (c : Nat) (fc : List Nat) (key : Bytes) (p : Ptr) (n : Node) : Prop :=
  ∃ f rest, LRepr h n p f ∧ Disj f rest ∧ (∀ x ∈ f, x ∈ fc) ∧ (∀ x ∈ rest, x ∈ fc) ∧ c ∈ rest ∧
    ∀ (h' : Heap) (n' : Node) (f' : List Nat), LRepr h' n' p f' →
      (∀ x ∈ rest, h'[x]? = h[x]?) → Disj f' rest →
      ∃ fc', LRepr h' (Legacy.putChild con key n') (some c) fc' ∧ ∀ x ∈ fc', x ∈ f' ∨ x ∈ rest

/-- what the legacy `get` hands out: nil for nil (absent name, nil map, JSON null), or a child in
focus -/
def Got (h : Heap) (con : Node) (c : Nat) (fc : List Nat) (key : Bytes) (p : Ptr) (n : Node) : Prop :=
  (p = none ∧ n = .nil) ∨ LFocus h con c fc key p n

theorem Got.repr {h con c fc key p n} (g : Got h con c fc key p n) :
    ∃ f, LRepr h n p f ∧ ∀ x ∈ f, x ∈ fc := by
  rcases g with ⟨rfl, rfl⟩ | ⟨f, rest, hr, _, sf, _⟩
  · exact ⟨[], LRepr.mk_nil h, fun x hx => by cases hx⟩
  · exact ⟨f, hr, sf⟩

theorem Got.some {h con c fc key b n} (g : Got h con c fc key (some b) n) : LFocus h con c fc key (some b) n := by
  rcases g with ⟨e, _⟩ | g
  · cases e
  · exact g

theorem hGet_refines (neg : Bool) {h : Heap} {con : Node} {c : Nat} {fc : List Nat}
    (key : Bytes) (r : LRepr h con (some c) fc) :
    OutRel (Got h con c fc key) (hGet neg h c key) (Legacy.conGet neg con key) := by
  cases con with
  | nil => simp only [LRepr] at r; cases r.1
  | rawNil =>
    simp only [LRepr] at r; obtain ⟨a', e, ha, rfl⟩ := r; cases e
    simp [hGet, ha, cellGet, Legacy.conGet]
  | raw x =>
    simp only [LRepr] at r; obtain ⟨a', e, ha, rfl⟩ := r; cases e
    simp [hGet, ha, cellGet, Legacy.conGet]
  | docNil =>
    simp only [LRepr] at r; obtain ⟨a', e, ha, rfl⟩ := r; cases e
    simp only [hGet, ha, cellGet, Legacy.conGet, OutRel_ok_ok]
    exact Or.inl ⟨rfl, rfl⟩
  | doc ms =>
    simp only [LRepr] at r; obtain ⟨a', ps, fm, e, ha, hm, hn, rfl⟩ := r; cases e
    simp only [hGet, ha, cellGet, Legacy.conGet]
    cases hk : lookupN key ms with
    | none =>
      simp only [LReprM.lookup_none ms key hm hk, Option.getD_none, OutRel_ok_ok]
      exact Or.inl ⟨rfl, rfl⟩
    | some n =>
      obtain ⟨p, f, rest0, hp, hr, dr, sf, sr, wand⟩ := LReprM.focus ms key hm hk
      simp only [hp, Option.getD_some, OutRel_ok_ok]
      refine Or.inr ⟨f, c :: rest0, hr, ?_, fun x hx => by simp [sf x hx], fun x hx => ?_, by simp, ?_⟩
      · intro x hx hy
        simp only [List.mem_cons] at hy
        rcases hy with rfl | hy
        · exact hn (sf x hx)
        · exact dr x hx hy
      · simp only [List.mem_cons] at hx ⊢
        rcases hx with rfl | hx
        · exact Or.inl rfl
        · exact Or.inr (sr x hx)
      · intro h' n' f' r' fr d'
        obtain ⟨fp0, hl, sub⟩ := wand h' n' p f' r' (fun x hx => fr x (by simp [hx]))
          (fun x hx hy => d' x hx (by simp [hy]))
        rw [setP_self ps hp] at hl
        have hc0 : c ∉ fp0 := by
          intro hx
          rcases sub c hx with h1 | h1
          · exact d' c h1 (by simp)
          · exact hn (sr c h1)
        refine ⟨c :: fp0, ?_, fun x hx => ?_⟩
        · simp only [Legacy.putChild]
          exact LRepr.mk_doc (by rw [fr c (by simp)]; exact ha) hl hc0
        · simp only [List.mem_cons] at hx ⊢
          rcases hx with rfl | hx
          · exact Or.inr (Or.inl rfl)
          · rcases sub x hx with h1 | h1
            · exact Or.inl h1
            · exact Or.inr (Or.inr h1)
  | ary ns =>
    simp only [LRepr] at r; obtain ⟨a', ps, fm, e, ha, hm, hn, rfl⟩ := r; cases e
    rw [conGet_ary]
    simp only [hGet, ha, cellGet, LReprL.length_eq hm]
    cases hi : getIdx (nopts neg) ns.length key with
    | err e => simp
    | panic => simp
    | ok i =>
      simp only
      cases hk : ns[i]? with
      | none => simp [LReprL.get_none i hm hk]
      | some n =>
        obtain ⟨p, f, rest0, hp, hr, dr, sf, sr, wand⟩ := LReprL.focus ns i hm hk
        simp only [hp, OutRel_ok_ok]
        refine Or.inr ⟨f, c :: rest0, hr, ?_, fun x hx => by simp [sf x hx], fun x hx => ?_, by simp, ?_⟩
        · intro x hx hy
          simp only [List.mem_cons] at hy
          rcases hy with rfl | hy
          · exact hn (sf x hx)
          · exact dr x hx hy
        · simp only [List.mem_cons] at hx ⊢
          rcases hx with rfl | hx
          · exact Or.inl rfl
          · exact Or.inr (sr x hx)
        · intro h' n' f' r' fr d'
          obtain ⟨fp0, hl, sub⟩ := wand h' n' p f' r' (fun x hx => fr x (by simp [hx]))
            (fun x hx hy => d' x hx (by simp [hy]))
          have hself : listSet i p ps = ps := listSet_self ps hp
          rw [hself] at hl
          have hc0 : c ∉ fp0 := by
            intro hx
            rcases sub c hx with h1 | h1
            · exact d' c h1 (by simp)
            · exact hn (sr c h1)
          refine ⟨c :: fp0, ?_, fun x hx => ?_⟩
          · rw [putChild_ary n' hi]
            exact LRepr.mk_ary (by rw [fr c (by simp)]; exact ha) hl hc0
          · simp only [List.mem_cons] at hx ⊢
            rcases hx with rfl | hx
            · exact Or.inr (Or.inl rfl)
            · rcases sub x hx with h1 | h1
              · exact Or.inl h1
              · exact Or.inr (Or.inr h1)

/-! ### `set`, `add`, `remove`: ONE cell is rewritten -/

/-- the outcome of rewriting the one cell `c`: the container now stands for `con'`; its footprint
lies within the old one and the footprint `extra` of the value linked in -/
def LWrote (h : Heap) (c : Nat) (fc extra : List Nat) (h' : Heap) (con' : Node) : Prop :=
  ∃ fc' cell', h' = h.set c cell' ∧ LRepr h' con' (some c) fc' ∧ ∀ x ∈ fc', x ∈ extra ∨ x ∈ fc

theorem docSet_wrote {h : Heap} {c : Nat} {ms : NMembers} {ps : PMembers}
    {fm : List Nat} {val : Node} {p : Ptr} {fv : List Nat} (key : Bytes)
    (ha : h[c]? = some (.doc [] ps)) (hm : LReprM h ms ps fm) (hn : c ∉ fm)
    (rv : LRepr h val p fv) (d : Disj fv (c :: fm)) :
    LWrote h c (c :: fm) fv (h.set c (.doc [] (setP key p ps))) (.doc (setN key val ms)) := by
  obtain ⟨fp', hs, sub⟩ := LReprM.set ms key hm rv (fun x hx hy => d x hx (by simp [hy]))
  have hc0 : c ∉ fp' := by
    intro hx
    rcases sub c hx with h1 | h1
    · exact d c h1 (by simp)
    · exact hn h1
  refine ⟨c :: fp', _, rfl, ?_, fun x hx => ?_⟩
  · refine LRepr.mk_doc ?_ (LReprM.write hs _ hc0) hc0
    rw [List.getElem?_set_self (List.getElem?_eq_some_iff.mp ha).1]
  · simp only [List.mem_cons] at hx ⊢
    rcases hx with rfl | hx
    · exact Or.inr (Or.inl rfl)
    · rcases sub x hx with h1 | h1
      · exact Or.inl h1
      · exact Or.inr (Or.inr h1)

theorem ary_wrote {h : Heap} {c : Nat} {ps : List Ptr} {fm : List Nat} {ns' : List Node} {ps' : List Ptr}
    {fp' fv : List Nat} (ha : h[c]? = some (.ary ps)) (hn : c ∉ fm) (hfv : c ∉ fv)
    (hs : LReprL h ns' ps' fp') (sub : ∀ x ∈ fp', x ∈ fv ∨ x ∈ fm) :
    LWrote h c (c :: fm) fv (h.set c (.ary ps')) (.ary ns') := by
  have hc0 : c ∉ fp' := by
    intro hx
    rcases sub c hx with h1 | h1
    · exact hfv h1
    · exact hn h1
  refine ⟨c :: fp', _, rfl, ?_, fun x hx => ?_⟩
  · refine LRepr.mk_ary ?_ (LReprL.write hs _ hc0) hc0
    rw [List.getElem?_set_self (List.getElem?_eq_some_iff.mp ha).1]
  · simp only [List.mem_cons] at hx ⊢
    rcases hx with rfl | hx
    · exact Or.inr (Or.inl rfl)
    · rcases sub x hx with h1 | h1
      · exact Or.inl h1
      · exact Or.inr (Or.inr h1)

theorem hAdd_refines (neg : Bool) {h : Heap} {con : Node} {c : Nat} {fc : List Nat} {val : Node}
    {p : Ptr} {fv : List Nat} (key : Bytes) (r : LRepr h con (some c) fc) (rv : LRepr h val p fv)
    (d : Disj fv fc) :
    OutRel (LWrote h c fc fv) (hAdd neg h c key p) (Legacy.conAdd neg con key val) := by
  cases con with
  | nil => simp only [LRepr] at r; cases r.1
  | rawNil =>
    simp only [LRepr] at r; obtain ⟨a', e, ha, rfl⟩ := r; cases e
    simp [hAdd, ha, cellAdd, Legacy.conAdd, writeBack]
  | raw x =>
    simp only [LRepr] at r; obtain ⟨a', e, ha, rfl⟩ := r; cases e
    simp [hAdd, ha, cellAdd, Legacy.conAdd, writeBack]
  | docNil =>
    simp only [LRepr] at r; obtain ⟨a', e, ha, rfl⟩ := r; cases e
    simp [hAdd, ha, cellAdd, Legacy.conAdd, writeBack]
  | doc ms =>
    simp only [LRepr] at r; obtain ⟨a', ps, fm, e, ha, hm, hn, rfl⟩ := r; cases e
    simp only [hAdd, ha, cellAdd, Legacy.conAdd, writeBack, OutRel_ok_ok]
    exact docSet_wrote key ha hm hn rv d
  | ary ns =>
    simp only [LRepr] at r; obtain ⟨a', ps, fm, e, ha, hm, hn, rfl⟩ := r; cases e
    rw [conAdd_ary]
    simp only [hAdd, ha, cellAdd, LReprL.length_eq hm]
    have hfv : c ∉ fv := fun hx => d c hx (by simp)
    have d' : Disj fv fm := fun x hx hy => d x hx (by simp [hy])
    cases hi : addIdx (nopts neg) ns.length key with
    | err e => simp [writeBack]
    | panic => simp [writeBack]
    | ok oi =>
      cases oi with
      | none =>
        simp only [writeBack, OutRel_ok_ok]
        obtain ⟨fp', hs, sub⟩ := LReprL.snoc hm rv d'
        exact ary_wrote ha hn hfv hs sub
      | some i =>
        simp only [writeBack, OutRel_ok_ok]
        obtain ⟨fp', hs, sub⟩ := LReprL.insert ns i hm rv d'
        exact ary_wrote ha hn hfv hs sub

theorem hSet_refines (neg : Bool) {h : Heap} {con : Node} {c : Nat} {fc : List Nat} {val : Node}
    {p : Ptr} {fv : List Nat} (key : Bytes) (r : LRepr h con (some c) fc) (rv : LRepr h val p fv)
    (d : Disj fv fc) :
    OutRel (LWrote h c fc fv) (hSet neg h c key p) (Legacy.conSet neg con key val) := by
  cases con with
  | nil => simp only [LRepr] at r; cases r.1
  | rawNil =>
    simp only [LRepr] at r; obtain ⟨a', e, ha, rfl⟩ := r; cases e
    simp [hSet, ha, cellSet, Legacy.conSet, writeBack]
  | raw x =>
    simp only [LRepr] at r; obtain ⟨a', e, ha, rfl⟩ := r; cases e
    simp [hSet, ha, cellSet, Legacy.conSet, writeBack]
  | docNil =>
    simp only [LRepr] at r; obtain ⟨a', e, ha, rfl⟩ := r; cases e
    simp [hSet, ha, cellSet, Legacy.conSet, writeBack]
  | doc ms =>
    simp only [LRepr] at r; obtain ⟨a', ps, fm, e, ha, hm, hn, rfl⟩ := r; cases e
    simp only [hSet, ha, cellSet, Legacy.conSet, writeBack, OutRel_ok_ok]
    exact docSet_wrote key ha hm hn rv d
  | ary ns =>
    simp only [LRepr] at r; obtain ⟨a', ps, fm, e, ha, hm, hn, rfl⟩ := r; cases e
    rw [conSet_ary]
    simp only [hSet, ha, cellSet, LReprL.length_eq hm]
    have hfv : c ∉ fv := fun hx => d c hx (by simp)
    cases hi : setIdx (nopts neg) ns.length key with
    | err e => simp [writeBack]
    | panic => simp [writeBack]
    | ok i =>
      simp only [writeBack, OutRel_ok_ok]
      have hlt := setIdx_lt hi
      obtain ⟨n0, hn0⟩ : ∃ n0, ns[i]? = some n0 := ⟨ns[i], List.getElem?_eq_getElem hlt⟩
      obtain ⟨p0, f0, rest, _, _, _, _, sr, wand⟩ := LReprL.focus ns i hm hn0
      obtain ⟨fp', hs, sub⟩ := wand h val p fv rv (fun _ _ => rfl)
        (fun x hx hy => d x hx (by simp [sr x hy]))
      exact ary_wrote ha hn hfv hs (fun x hx => (sub x hx).elim Or.inl (fun h1 => Or.inr (sr x h1)))

/-- the outcome of `remove`: as `LWrote`, and the node a preceding `get` of the same key handed out
is now a tree of its own, DISJOINT from the container it left -/
def LRemoved (neg : Bool) (h : Heap) (con : Node) (c : Nat) (fc : List Nat) (key : Bytes)
    (h' : Heap) (con' : Node) : Prop :=
  ∃ fc' cell', h' = h.set c cell' ∧ LRepr h' con' (some c) fc' ∧ (∀ x ∈ fc', x ∈ fc) ∧
    ∀ p n, hGet neg h c key = .ok p → Legacy.conGet neg con key = .ok n →
      ∃ fn, LRepr h' n p fn ∧ Disj fn fc' ∧ ∀ x ∈ fn, x ∈ fc

theorem hRemove_refines (neg : Bool) {h : Heap} {con : Node} {c : Nat} {fc : List Nat}
    (key : Bytes) (r : LRepr h con (some c) fc) :
    OutRel (LRemoved neg h con c fc key) (hRemove neg h c key) (Legacy.conRemove neg con key) := by
  have r0 := r
  cases con with
  | nil => simp only [LRepr] at r; cases r.1
  | rawNil =>
    simp only [LRepr] at r; obtain ⟨a', e, ha, rfl⟩ := r; cases e
    simp [hRemove, ha, cellRemove, Legacy.conRemove, writeBack]
  | raw x =>
    simp only [LRepr] at r; obtain ⟨a', e, ha, rfl⟩ := r; cases e
    simp [hRemove, ha, cellRemove, Legacy.conRemove, writeBack]
  | docNil =>
    simp only [LRepr] at r; obtain ⟨a', e, ha, rfl⟩ := r; cases e
    simp [hRemove, ha, cellRemove, Legacy.conRemove, writeBack]
  | doc ms =>
    simp only [LRepr] at r; obtain ⟨a', ps, fm, e, ha, hm, hn, rfl⟩ := r; cases e
    simp only [hRemove, ha, cellRemove, Legacy.conRemove]
    cases hk : lookupN key ms with
    | none =>
      have hp := LReprM.lookup_none ms key hm hk
      simp [hp, writeBack]
    | some n0 =>
      obtain ⟨p, f, rest, hp, hr, hl, dr, sf, sr⟩ := LReprM.erase ms key hm hk
      simp only [hp, writeBack, OutRel_ok_ok]
      have hc0 : c ∉ rest := fun hx => hn (sr c hx)
      refine ⟨c :: rest, _, rfl, ?_, fun x hx => ?_, ?_⟩
      · refine LRepr.mk_doc ?_ (LReprM.write hl _ hc0) hc0
        rw [List.getElem?_set_self (List.getElem?_eq_some_iff.mp ha).1]
      · simp only [List.mem_cons] at hx ⊢
        rcases hx with rfl | hx
        · exact Or.inl rfl
        · exact Or.inr (sr x hx)
      · intro p' n' hg hg'
        simp only [hGet, ha, cellGet, hp, Option.getD_some] at hg
        simp only [Legacy.conGet, hk, Option.getD_some] at hg'
        cases hg; cases hg'
        refine ⟨f, LRepr.write hr _ (fun hx => hn (sf c hx)), ?_, fun x hx => by simp [sf x hx]⟩
        intro x hx hy
        simp only [List.mem_cons] at hy
        rcases hy with rfl | hy
        · exact hn (sf x hx)
        · exact dr x hx hy
  | ary ns =>
    simp only [LRepr] at r; obtain ⟨a', ps, fm, e, ha, hm, hn, rfl⟩ := r; cases e
    rw [conRemove_ary]
    simp only [hRemove, ha, cellRemove, LReprL.length_eq hm]
    cases hi : removeIdx (nopts neg) ns.length key with
    | err e => simp [writeBack]
    | panic => simp [writeBack]
    | ok oi =>
      cases oi with
      | none =>
        simp only [writeBack, OutRel_ok_ok]
        refine ⟨c :: fm, _, rfl, by rw [set_same ha]; exact r0, fun x hx => hx, ?_⟩
        intro p n hg hg'
        exfalso
        rw [conGet_ary] at hg'
        cases hj : getIdx (nopts neg) ns.length key with
        | err e => rw [hj] at hg'; cases hg'
        | panic => rw [hj] at hg'; cases hg'
        | ok j =>
          rw [hj] at hg'
          simp only at hg'
          cases hnj : ns[j]? with
          | none => rw [hnj] at hg'; cases hg'
          | some nj =>
            have hjl : j < ns.length := (List.getElem?_eq_some_iff.mp hnj).1
            rw [removeIdx_of_getIdx hj hjl] at hi
            cases hi
      | some i =>
        simp only [writeBack, OutRel_ok_ok]
        have hlt := removeIdx_lt hi
        obtain ⟨n0, hn0⟩ : ∃ n0, ns[i]? = some n0 := ⟨ns[i], List.getElem?_eq_getElem hlt⟩
        obtain ⟨p, f, rest, hp, hr, hl, dr, sf, sr⟩ := LReprL.erase ns i hm hn0
        have hc0 : c ∉ rest := fun hx => hn (sr c hx)
        refine ⟨c :: rest, _, rfl, ?_, fun x hx => ?_, ?_⟩
        · refine LRepr.mk_ary ?_ (LReprL.write hl _ hc0) hc0
          rw [List.getElem?_set_self (List.getElem?_eq_some_iff.mp ha).1]
        · simp only [List.mem_cons] at hx ⊢
          rcases hx with rfl | hx
          · exact Or.inl rfl
          · exact Or.inr (sr x hx)
        · intro p' n' hg hg'
          rw [conGet_ary] at hg'
          simp only [hGet, ha, cellGet, LReprL.length_eq hm] at hg
          cases hj : getIdx (nopts neg) ns.length key with
          | err e => rw [hj] at hg'; cases hg'
          | panic => rw [hj] at hg'; cases hg'
          | ok j =>
            rw [hj] at hg' hg
            simp only at hg' hg
            cases hnj : ns[j]? with
            | none => rw [hnj] at hg'; cases hg'
            | some nj =>
              have hjl : j < ns.length := (List.getElem?_eq_some_iff.mp hnj).1
              rw [removeIdx_of_getIdx hj hjl] at hi
              cases hi
              rw [hnj] at hg'; rw [hp] at hg
              rw [hn0] at hnj
              cases hg; cases hg'; cases hnj
              refine ⟨f, LRepr.write hr _ (fun hx => hn (sf c hx)), ?_, fun x hx => by simp [sf x hx]⟩
              intro x hx hy
              simp only [List.mem_cons] at hy
              rcases hy with rfl | hy
              · exact hn (sf x hx)
              · exact dr x hx hy

end Lg
end Heap
end JP
