import JP.Lemmas.LawsBasic
import JP.Lemmas.EqvLaws
import JP.Lemmas.OrderWalk

/-!
# Laws of the RFC 6902 specification: one container, one operation

* index arithmetic of `readIdx` / `slotIdx` on tokens that denote an integer (`classify t = .int i`);
* the container edits `addIn` / `removeIn` / `replaceIn` / `getIn` against each other, on one
  object or one array (the "local" form of every law of `JP/Props/C01laws.lean`);
* `Value.eqv` is respected by rebuilding the document around equivalent parents;
* `Spec.applyOp` of one add / remove / replace / test / copy as a walk (`Spec.atParent`) when the
  pointer has at least one token.
-/

namespace JP
namespace Laws

open Spec
open Impl (nav)

/-! ### indices -/

theorem readIdx_int {neg : Bool} {n : Nat} {t : Bytes} {i : Int} (hc : classify t = .int i) :
    readIdx neg n t =
      if 0 ≤ i then (if i.toNat < n then .at i.toNat else .bad)
      else if neg ∧ -(n : Int) ≤ i then .at (n - i.natAbs) else .bad := by
  simp only [readIdx, hc]

theorem slotIdx_int {neg : Bool} {n : Nat} {t : Bytes} {i : Int} (hc : classify t = .int i) :
    slotIdx neg n t =
      if 0 ≤ i then (if i.toNat ≤ n then .at i.toNat else .bad)
      else if neg ∧ -((n : Int) + 1) ≤ i then .at (n + 1 - i.natAbs) else .bad := by
  simp only [slotIdx, hc]

theorem slotIdx_dash (neg : Bool) (n : Nat) : slotIdx neg n [45] = .at n := by
  simp only [slotIdx, Impl.classify_dash]

theorem readIdx_dash (neg : Bool) (n : Nat) : readIdx neg n [45] = .bad := by
  simp only [readIdx, Impl.classify_dash]

/-- the token that denotes the length is the slot `-` denotes -/
theorem slotIdx_len {neg : Bool} {n : Nat} {t : Bytes} (hc : classify t = .int (n : Int)) :
    slotIdx neg n t = .at n := by
  rw [slotIdx_int hc]
  have h0 : (0 : Int) ≤ (n : Int) := by omega
  have h1 : (n : Int).toNat = n := by omega
  simp only [h0, if_true, h1, Nat.le_refl]

/-- an existing element: `-k` is `len - k` (negative indices on) -/
theorem readIdx_neg {n k : Nat} {t t' : Bytes} (hk1 : 1 ≤ k) (hk2 : k ≤ n)
    (ht : classify t = .int (-(k : Int))) (ht' : classify t' = .int ((n : Int) - (k : Int))) :
    readIdx true n t = .at (n - k) ∧ readIdx true n t' = .at (n - k) := by
  rw [readIdx_int ht, readIdx_int ht']
  have a1 : ¬ (0 : Int) ≤ -(k : Int) := by omega
  have a2 : (true = true ∧ -(n : Int) ≤ -(k : Int)) := ⟨rfl, by omega⟩
  have a3 : (-(k : Int)).natAbs = k := by omega
  have b1 : (0 : Int) ≤ (n : Int) - (k : Int) := by omega
  have b2 : ((n : Int) - (k : Int)).toNat = n - k := by omega
  have b3 : n - k < n := by omega
  simp only [a1, if_false, a2, if_true, a3, b1, b2, b3, and_self]

/-- an insertion slot: `-k` is `len + 1 - k` (the dialect: `-1` appends) -/
theorem slotIdx_neg {n k : Nat} {t t' : Bytes} (hk1 : 1 ≤ k) (hk2 : k ≤ n + 1)
    (ht : classify t = .int (-(k : Int))) (ht' : classify t' = .int ((n : Int) + 1 - (k : Int))) :
    slotIdx true n t = .at (n + 1 - k) ∧ slotIdx true n t' = .at (n + 1 - k) := by
  rw [slotIdx_int ht, slotIdx_int ht']
  have a1 : ¬ (0 : Int) ≤ -(k : Int) := by omega
  have a2 : (true = true ∧ -((n : Int) + 1) ≤ -(k : Int)) := ⟨rfl, by omega⟩
  have a3 : (-(k : Int)).natAbs = k := by omega
  have b1 : (0 : Int) ≤ (n : Int) + 1 - (k : Int) := by omega
  have b2 : ((n : Int) + 1 - (k : Int)).toNat = n + 1 - k := by omega
  have b3 : n + 1 - k ≤ n := by omega
  simp only [a1, if_false, a2, if_true, a3, b1, b2, b3, and_self]

/-- negative indices off: a negative index is no element -/
theorem readIdx_neg_off {n : Nat} {t : Bytes} {i : Int} (ht : classify t = .int i) (hi : i < 0) :
    readIdx false n t = .bad := by
  rw [readIdx_int ht]
  have a1 : ¬ (0 : Int) ≤ i := by omega
  simp only [a1, if_false, Bool.false_eq_true, false_and]

/-- negative indices off: a negative index is no slot -/
theorem slotIdx_neg_off {n : Nat} {t : Bytes} {i : Int} (ht : classify t = .int i) (hi : i < 0) :
    slotIdx false n t = .bad := by
  rw [slotIdx_int ht]
  have a1 : ¬ (0 : Int) ≤ i := by omega
  simp only [a1, if_false, Bool.false_eq_true, false_and]

/-- the index of an element is, once the element is removed, the slot that puts it back -/
theorem read_then_slot {neg : Bool} {n i : Nat} {t : Bytes} (h : readIdx neg n t = .at i) :
    slotIdx neg (n - 1) t = .at i ∧ i < n := by
  simp only [readIdx] at h
  simp only [slotIdx]
  cases hc : classify t with
  | dash => rw [hc] at h; cases h
  | name => rw [hc] at h; cases h
  | noncanon => rw [hc] at h; cases h
  | int j =>
    rw [hc] at h
    simp only at h ⊢
    by_cases h0 : 0 ≤ j
    · rw [if_pos h0] at h ⊢
      by_cases h1 : j.toNat < n
      · rw [if_pos h1] at h
        cases h
        exact ⟨by rw [if_pos (by omega)], h1⟩
      · rw [if_neg h1] at h; cases h
    · rw [if_neg h0] at h ⊢
      by_cases h1 : neg = true ∧ -(n : Int) ≤ j
      · rw [if_pos h1] at h
        cases h
        have hn : 1 ≤ n := by omega
        refine ⟨?_, by omega⟩
        rw [if_pos ⟨h1.1, by omega⟩]
        congr 1
        omega
      · rw [if_neg h1] at h; cases h

/-! ### the edits depend on the last token only through the index -/

theorem removeIn_arr_congr {o : Opts} {xs : List Value} {t t' : Bytes}
    (h : readIdx o.neg xs.length t = readIdx o.neg xs.length t') :
    removeIn o (.arr xs) t = removeIn o (.arr xs) t' := by
  simp only [removeIn, h]

theorem replaceIn_arr_congr {o : Opts} {v : Value} {xs : List Value} {t t' : Bytes}
    (h : readIdx o.neg xs.length t = readIdx o.neg xs.length t') :
    replaceIn o v (.arr xs) t = replaceIn o v (.arr xs) t' := by
  simp only [replaceIn, h]

theorem getIn_arr_congr {o : Opts} {b : Bool} {xs : List Value} {t t' : Bytes}
    (h : readIdx o.neg xs.length t = readIdx o.neg xs.length t') :
    getIn o b (.arr xs) t = getIn o b (.arr xs) t' := by
  simp only [getIn, h]

theorem addIn_arr_congr {o : Opts} {v : Value} {xs : List Value} {t t' : Bytes}
    (h : slotIdx o.neg xs.length t = slotIdx o.neg xs.length t') :
    addIn o v (.arr xs) t = addIn o v (.arr xs) t' := by
  simp only [addIn, h]

/-- the check `skipsRemove` runs at the parent, on an array: also a function of the index class -/
theorem probe_arr_congr {o : Opts} {xs : List Value} {t t' : Bytes} {i j : Int}
    (ht : classify t = .int i) (ht' : classify t' = .int j)
    (h : (if 0 ≤ i then decide (xs.length ≤ i.toNat) else decide (i < -(xs.length : Int))) =
         (if 0 ≤ j then decide (xs.length ≤ j.toNat) else decide (j < -(xs.length : Int))))
    (hn : o.neg = true) :
    AllowLemmas.probe o (.arr xs) t = AllowLemmas.probe o (.arr xs) t' := by
  simp only [AllowLemmas.probe, ht, ht', hn, Bool.not_true, Bool.false_eq_true, if_false]
  by_cases h0 : 0 ≤ i <;> by_cases h1 : 0 ≤ j <;> simp only [h0, h1, if_true, if_false] at h ⊢ <;> rw [h]

/-! ### law 10, one object: `add` on an existing member is `replace` -/

theorem addIn_eq_replaceIn_obj (o : Opts) (v : Value) (ms : Value.Members) (t : Bytes) (old : Value)
    (h : Value.lookup t ms = some old) :
    addIn o v (.obj ms) t = replaceIn o v (.obj ms) t := by
  simp only [addIn, replaceIn, h]

/-! ### law 3, one container: `add` then `remove` -/

theorem addIn_removeIn_obj (o : Opts) (v : Value) (ms : Value.Members) (t : Bytes)
    (h : Value.lookup t ms = none) :
    addIn o v (.obj ms) t = .ok (.obj (Value.set t v ms), ()) ∧
      removeIn o (.obj (Value.set t v ms)) t = .ok (.obj ms, v) := by
  refine ⟨rfl, ?_⟩
  simp only [removeIn, Impl.lookup_set_self, erase_set_absent t v ms h]

/-- an element inserted at the slot `t` denotes is removed by any token `t'` that denotes, in the
longer array, the index of that slot -/
theorem addIn_removeIn_arr (o : Opts) (v : Value) (xs : List Value) (t t' : Bytes) (p' : Value)
    (u : Unit) (hadd : addIn o v (.arr xs) t = .ok (p', u))
    (hidx : ∀ i, slotIdx o.neg xs.length t = .at i → readIdx o.neg (xs.length + 1) t' = .at i) :
    removeIn o p' t' = .ok (.arr xs, v) := by
  simp only [addIn] at hadd
  cases hs : slotIdx o.neg xs.length t with
  | bad => rw [hs] at hadd; cases hadd
  | unspec => rw [hs] at hadd; cases hadd
  | «at» i =>
    rw [hs] at hadd
    simp only [Res.ok.injEq, Prod.mk.injEq] at hadd
    obtain ⟨rfl, _⟩ := hadd
    have hi : i ≤ xs.length := Spec.slotIdx_le hs
    have hr := hidx i hs
    simp only [removeIn, Impl.insertAt_length, hr, Impl.insertAt_getElem? i v xs hi,
      eraseIdx_insertAt v i xs hi]

/-! ### law 4, one container: `remove`, then `add` of the removed value -/

theorem removeIn_addIn_arr (o : Opts) (xs : List Value) (t : Bytes) (p' old : Value)
    (hrem : removeIn o (.arr xs) t = .ok (p', old)) :
    addIn o old p' t = .ok (.arr xs, ()) := by
  simp only [removeIn] at hrem
  cases hr : readIdx o.neg xs.length t with
  | bad => rw [hr] at hrem; cases hrem
  | unspec => rw [hr] at hrem; cases hrem
  | «at» i =>
    rw [hr] at hrem
    simp only at hrem
    cases hx : xs[i]? with
    | none => rw [hx] at hrem; cases hrem
    | some x =>
      rw [hx] at hrem
      simp only [Res.ok.injEq, Prod.mk.injEq] at hrem
      obtain ⟨rfl, rfl⟩ := hrem
      obtain ⟨hs, hi⟩ := read_then_slot hr
      simp only [addIn, List.length_eraseIdx, hi, if_true, hs, insertAt_eraseIdx x i xs hx]

theorem removeIn_addIn_obj (o : Opts) (ms : Value.Members) (t : Bytes) (old : Value)
    (h : Value.lookup t ms = some old) :
    removeIn o (.obj ms) t = .ok (.obj (Value.erase t ms), old) ∧
      addIn o old (.obj (Value.erase t ms)) t = .ok (.obj (Value.erase t ms ++ [(t, old)]), ()) := by
  refine ⟨by simp only [removeIn, h], ?_⟩
  simp only [addIn, set_erase]

/-! ### law 5, one container: `replace` against `remove` then `add` -/

/-- on an array the two agree whenever the element exists (and where the index is outside the
domain); where it does not exist, both fail — `replace` with `absentMember`, `remove` with
`badIndex` -/
theorem replaceIn_eq_removeIn_addIn_arr (o : Opts) (v : Value) (xs : List Value) (t : Bytes) :
    match removeIn o (.arr xs) t with
    | .ok pv => ∃ q, replaceIn o v (.arr xs) t = .ok (q, ()) ∧ addIn o v pv.1 t = .ok (q, ())
    | .fail _ => replaceIn o v (.arr xs) t = .fail .absentMember
    | .unspec => replaceIn o v (.arr xs) t = .unspec := by
  simp only [removeIn, replaceIn]
  cases hr : readIdx o.neg xs.length t with
  | bad => simp only
  | unspec => simp only
  | «at» i =>
    obtain ⟨hs, hi⟩ := read_then_slot hr
    simp only [List.getElem?_eq_getElem hi, hi, if_true]
    refine ⟨_, rfl, ?_⟩
    simp only [addIn, List.length_eraseIdx, hi, if_true, hs, insertAt_eraseIdx_setAt v i xs hi]

/-! ### `Value.eqv` and rebuilding -/

theorem eqv_refl_of_lookup {ms : Value.Members} (hm : Value.noDupM ms = true) {k : Bytes} {w : Value}
    (h : Value.lookup k ms = some w) : Value.eqv w w = true :=
  Value.eqv_refl w (Value.noDup_of_lookup hm h)

theorem optEqv_refl_lookup {ms : Value.Members} (hm : Value.noDupM ms = true) (k : Bytes) :
    Value.optEqv (Value.lookup k ms) (Value.lookup k ms) = true := by
  cases h : Value.lookup k ms with
  | none => rfl
  | some w => exact eqv_refl_of_lookup hm h

/-- equivalent children under the same name: equivalent objects -/
theorem eqv_set_congr {ms : Value.Members} (hk : Value.nodupKeys (ms.map Prod.fst) = true)
    (hm : Value.noDupM ms = true) (t : Bytes) {c1 c2 : Value} (h : Value.eqv c1 c2 = true) :
    Value.eqv (.obj (Value.set t c1 ms)) (.obj (Value.set t c2 ms)) = true := by
  rw [Value.eqv_obj_iff (Value.nodupKeys_set t c1 ms hk)]
  intro k
  rw [Value.lookup_set, Value.lookup_set]
  by_cases htk : t = k
  · simp only [htk, if_true, Value.optEqv_some_some, h]
  · simp only [htk, if_false]
    exact optEqv_refl_lookup hm k

theorem eqvL_setAt_congr : ∀ (xs : List Value) (i : Nat) {c1 c2 : Value},
    Value.noDupL xs = true → Value.eqv c1 c2 = true →
    Value.eqvL (Spec.setAt i c1 xs) (Spec.setAt i c2 xs) = true
  | [], i, _, _, _, _ => by cases i <;> simp [Spec.setAt, Value.eqvL]
  | x :: xs, 0, c1, c2, hx, h => by
    simp only [Value.noDupL, Bool.and_eq_true] at hx
    simp only [Spec.setAt, Value.eqvL, h, Bool.true_and]
    exact Value.eqvL_refl_of xs (fun y hy => Value.eqv_refl y ((Value.noDupL_iff xs).1 hx.2 y hy))
  | x :: xs, i + 1, c1, c2, hx, h => by
    simp only [Value.noDupL, Bool.and_eq_true] at hx
    simp only [Spec.setAt, Value.eqvL, Value.eqv_refl x hx.1, Bool.true_and]
    exact eqvL_setAt_congr xs i hx.2 h

/-- rebuilding a duplicate-free document around equivalent parents gives equivalent documents -/
theorem nav_eqv (o : Opts) : ∀ (ts : List Bytes) (v p : Value) (k : Value → Value),
    nav o v ts = .ok (p, k) → Value.noDup v = true →
    (Value.noDup p = true) ∧ ∀ p1 p2, Value.eqv p1 p2 = true → Value.eqv (k p1) (k p2) = true := by
  intro ts
  induction ts with
  | nil =>
    intro v p k h hv
    simp only [nav] at h
    split at h
    · simp only [Res.ok.injEq, Prod.mk.injEq] at h
      obtain ⟨rfl, rfl⟩ := h
      exact ⟨hv, fun _ _ h => h⟩
    · cases h
  | cons t ts ih =>
    intro v p k h hv
    cases v with
    | obj ms =>
      simp only [nav] at h
      cases hl : Value.lookup t ms with
      | none => rw [hl] at h; cases h
      | some child =>
        rw [hl] at h
        simp only at h
        cases hn : nav o child ts with
        | ok pk =>
          obtain ⟨p1, k1⟩ := pk
          rw [hn] at h
          simp only [Res.bind, Res.ok.injEq, Prod.mk.injEq] at h
          obtain ⟨rfl, rfl⟩ := h
          rw [Value.noDup_obj] at hv
          obtain ⟨h1, h2⟩ := ih child p1 k1 hn (Value.noDup_of_lookup hv.2 hl)
          exact ⟨h1, fun a b hab => eqv_set_congr hv.1 hv.2 t (h2 a b hab)⟩
        | fail c => rw [hn] at h; cases h
        | unspec => rw [hn] at h; cases h
    | arr xs =>
      simp only [nav] at h
      cases hr : Spec.readIdx o.neg xs.length t with
      | unspec => rw [hr] at h; cases h
      | bad => rw [hr] at h; cases h
      | «at» i =>
        rw [hr] at h
        simp only at h
        cases hl : xs[i]? with
        | none => rw [hl] at h; cases h
        | some child =>
          rw [hl] at h
          simp only at h
          cases hn : nav o child ts with
          | ok pk =>
            obtain ⟨p1, k1⟩ := pk
            rw [hn] at h
            simp only [Res.bind, Res.ok.injEq, Prod.mk.injEq] at h
            obtain ⟨rfl, rfl⟩ := h
            rw [Value.noDup_arr] at hv
            have hc : Value.noDup child = true :=
              (Value.noDupL_iff xs).1 hv child (List.mem_of_getElem? hl)
            obtain ⟨h1, h2⟩ := ih child p1 k1 hn hc
            refine ⟨h1, fun a b hab => ?_⟩
            rw [Value.eqv_arr_arr]
            exact eqvL_setAt_congr xs i hv (h2 a b hab)
          | fail c => rw [hn] at h; cases h
          | unspec => rw [hn] at h; cases h
    | null => simp [nav] at h
    | bool b => simp [nav] at h
    | num l => simp [nav] at h
    | str s => simp [nav] at h

/-- law 5, one object: `replace` keeps the position, `remove` then `add` moves the member to the
end — the same object up to member order (names duplicate-free) -/
theorem eqv_set_erase_append {ms : Value.Members} (hk : Value.nodupKeys (ms.map Prod.fst) = true)
    (hm : Value.noDupM ms = true) (t : Bytes) (v : Value) (hv : Value.noDup v = true) :
    Value.eqv (.obj (Value.set t v ms)) (.obj (Value.erase t ms ++ [(t, v)])) = true := by
  rw [Value.eqv_obj_iff (Value.nodupKeys_set t v ms hk)]
  intro k
  rw [Value.lookup_set, Value.lookup_append, Value.lookup_erase]
  by_cases htk : t = k
  · subst htk
    simp only [if_true, Value.lookup]
    exact Value.eqv_refl v hv
  · simp only [htk, if_false]
    cases hl : Value.lookup k ms with
    | none => simp [Value.lookup, htk]
    | some w => exact eqv_refl_of_lookup hm hl

/-! ### `Spec.applyOp` as a walk (pointer with at least one token) -/

theorem applyOp_add_toks {o : Opts} {sz acc : Nat} {doc v : Value} {path : Bytes} {toks : List Bytes}
    (hp : parsePointer path = some toks) (hne : toks ≠ []) (he : o.ensure = false) :
    applyOp o sz acc doc { kind := .add, path := path, value := some v } =
      (atParent o (addIn o v) doc toks).bind fun vb => .ok (vb.1, acc) := by
  cases toks with
  | nil => exact absurd rfl hne
  | cons t ts => exact Impl.spec_add (sop := { kind := .add, path := path, value := some v }) rfl hp rfl he

theorem applyOp_replace_toks {o : Opts} {sz acc : Nat} {doc v : Value} {path : Bytes} {toks : List Bytes}
    (hp : parsePointer path = some toks) (hne : toks ≠ []) :
    applyOp o sz acc doc { kind := .replace, path := path, value := some v } =
      (atParent o (replaceIn o v) doc toks).bind fun vb => .ok (vb.1, acc) := by
  cases toks with
  | nil => exact absurd rfl hne
  | cons t ts => exact Impl.spec_replace (sop := { kind := .replace, path := path, value := some v }) rfl hp rfl

theorem applyOp_remove_toks {o : Opts} {sz acc : Nat} {doc : Value} {path : Bytes} {toks : List Bytes}
    (hp : parsePointer path = some toks) (hne : toks ≠ []) (ha : o.allowMissing = false) :
    applyOp o sz acc doc { kind := .remove, path := path } =
      (atParent o (removeIn o) doc toks).bind fun vb => .ok (vb.1, acc) := by
  cases toks with
  | nil => exact absurd rfl hne
  | cons t ts => exact Impl.spec_remove (sop := { kind := .remove, path := path }) rfl hp ha

/-- with AllowMissingPathOnRemove: skipped, removed, or outside the domain -/
theorem applyOp_remove_allow_toks {o : Opts} {sz acc : Nat} {doc : Value} {path : Bytes} {toks : List Bytes}
    (hp : parsePointer path = some toks) (hne : toks ≠ []) (ha : o.allowMissing = true) :
    applyOp o sz acc doc { kind := .remove, path := path } =
      match atParent o (AllowLemmas.probe o) doc toks with
      | .ok pb => if pb.2 then .ok (doc, acc)
                  else (atParent o (removeIn o) doc toks).bind fun vb => .ok (vb.1, acc)
      | .fail _ => .ok (doc, acc)
      | .unspec => .unspec := by
  cases toks with
  | nil => exact absurd rfl hne
  | cons t ts =>
    rw [Impl.spec_remove_allow (sop := { kind := .remove, path := path }) rfl hp ha,
      AllowLemmas.skipsRemove_eq]
    cases atParent o (AllowLemmas.probe o) doc (t :: ts) with
    | ok pb => obtain ⟨p, b⟩ := pb; cases b <;> rfl
    | fail c => rfl
    | unspec => rfl

theorem applyOp_test_toks {o : Opts} {sz acc : Nat} {doc : Value} {path : Bytes} {toks : List Bytes}
    {w : Option Value} (hp : parsePointer path = some toks) (hne : toks ≠ []) :
    applyOp o sz acc doc { kind := .test, path := path, value := w } =
      (atParent o (getIn o true) doc toks).bind fun pv =>
        (testEq pv.2 (w.getD .null)).bind fun _ => .ok (doc, acc) := by
  cases toks with
  | nil => exact absurd rfl hne
  | cons t ts => exact Impl.spec_test (sop := { kind := .test, path := path, value := w }) rfl hp

theorem append_singleton_ne_nil {α} (ts : List α) (t : α) : ts ++ [t] ≠ [] := by simp

/-- a remove that succeeds is not skipped: the check at the parent answers "present" -/
theorem probe_of_removeIn {o : Opts} {p : Value} {t : Bytes} {r : Value × Value}
    (hc : p.isContainer = true) (h : removeIn o p t = .ok r) :
    AllowLemmas.probe o p t = .ok (p, false) := by
  have hrel := AllowLemmas.probe_leaf o p t hc
  rw [h] at hrel
  cases p with
  | obj ms =>
    simp only [removeIn] at h
    cases hl : Value.lookup t ms with
    | none => rw [hl] at h; cases h
    | some old => simp only [AllowLemmas.probe, hl, Option.isNone_some]
  | arr xs =>
    simp only [removeIn] at h
    cases hr : readIdx o.neg xs.length t with
    | bad => rw [hr] at h; cases h
    | unspec => rw [hr] at h; cases h
    | «at» i =>
      have hi := Spec.readIdx_lt hr
      simp only [readIdx] at hr
      simp only [AllowLemmas.probe]
      cases hcl : classify t with
      | dash => rw [hcl] at hr; cases hr
      | name => rw [hcl] at hr; cases hr
      | noncanon => rw [hcl] at hr; cases hr
      | int j =>
        rw [hcl] at hr
        simp only at hr ⊢
        by_cases h0 : 0 ≤ j
        · rw [if_pos h0] at hr ⊢
          by_cases h1 : j.toNat < xs.length
          · have : ¬ xs.length ≤ j.toNat := by omega
            simp only [this, decide_false]
          · rw [if_neg h1] at hr; cases hr
        · rw [if_neg h0] at hr ⊢
          by_cases h1 : o.neg = true ∧ -(xs.length : Int) ≤ j
          · have : ¬ j < -(xs.length : Int) := by omega
            simp only [h1.1, Bool.not_true, Bool.false_eq_true, if_false, this, decide_false]
          · rw [if_neg h1] at hr; cases hr
  | null => simp [Value.isContainer, Value.isObj, Value.isArr] at hc
  | bool b => simp [Value.isContainer, Value.isObj, Value.isArr] at hc
  | num l => simp [Value.isContainer, Value.isObj, Value.isArr] at hc
  | str s => simp [Value.isContainer, Value.isObj, Value.isArr] at hc

/-- `remove` of a location that exists is the plain removal, whatever AllowMissingPathOnRemove says -/
theorem applyOp_remove_of_ok {o : Opts} {sz acc : Nat} {doc d old : Value} {path : Bytes}
    {ts : List Bytes} {t : Bytes} (hp : parsePointer path = some (ts ++ [t]))
    (h : atParent o (removeIn o) doc (ts ++ [t]) = .ok (d, old)) :
    applyOp o sz acc doc { kind := .remove, path := path } = .ok (d, acc) := by
  cases ha : o.allowMissing with
  | false => rw [applyOp_remove_toks hp (append_singleton_ne_nil ts t) ha, h]; rfl
  | true =>
    rw [applyOp_remove_allow_toks hp (append_singleton_ne_nil ts t) ha]
    obtain ⟨p, p', hpar, hf⟩ := atParent_decomp h
    obtain ⟨k, _, hk, hc, hedit, _⟩ := atParent_of_parent hpar
    rw [hedit (AllowLemmas.probe o) t, probe_of_removeIn hc hf, h]
    rfl

/-- the reachability check `copy` runs before charging the size adds nothing to the walk that
follows it -/
theorem probe_bind_atParent {α β} (o : Opts) (f : Value → Bytes → Res (Value × α)) (doc : Value)
    (toks : List Bytes) (hne : toks ≠ []) (g : Value × α → Res β) :
    ((atParent o (fun p _ => (.ok (p, ()) : Res (Value × Unit))) doc toks).bind fun _ =>
        (atParent o f doc toks).bind g) = (atParent o f doc toks).bind g := by
  obtain ⟨ts, t, rfl⟩ := Impl.exists_concat toks hne
  rw [Impl.atParent_nav, Impl.atParent_nav]
  cases nav o doc ts with
  | ok pk => rfl
  | fail c => rfl
  | unspec => rfl

end Laws
end JP
