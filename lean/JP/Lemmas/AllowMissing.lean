import JP.Driver

/-!
# Lemmas for C13 (AllowMissingPathOnRemove at the specification level)
-/

namespace JP
namespace AllowLemmas
open Spec

/-! ### the evaluation functions look at `allowMissing` only in the remove branch -/

theorem atParent_congr {α} (o o' : Opts) (h : o.neg = o'.neg) (f : Value → Bytes → Res (Value × α)) :
    ∀ (toks : List Bytes) (v : Value), atParent o f v toks = atParent o' f v toks
  | [], _ => by simp only [atParent]
  | [t], v => by cases v <;> simp only [atParent]
  | t :: t2 :: ts, v => by
    cases v with
    | obj ms =>
      simp only [atParent]
      cases Value.lookup t ms with
      | none => rfl
      | some child => simp only []; rw [atParent_congr o o' h f (t2 :: ts) child]
    | arr xs =>
      simp only [atParent, h]
      cases readIdx o'.neg xs.length t with
      | unspec => rfl
      | bad => rfl
      | «at» i =>
        simp only []
        cases xs[i]? with
        | none => rfl
        | some child => simp only []; rw [atParent_congr o o' h f (t2 :: ts) child]
    | null => simp only [atParent]
    | bool b => simp only [atParent]
    | num l => simp only [atParent]
    | str s => simp only [atParent]

theorem addIn_congr (o o' : Opts) (h : o.neg = o'.neg) : addIn o = addIn o' := by
  funext v p t; simp only [addIn, h]

theorem removeIn_congr (o o' : Opts) (h : o.neg = o'.neg) : removeIn o = removeIn o' := by
  funext p t; simp only [removeIn, h]

theorem replaceIn_congr (o o' : Opts) (h : o.neg = o'.neg) : replaceIn o = replaceIn o' := by
  funext v p t; simp only [replaceIn, h]

theorem getIn_congr (o o' : Opts) (h : o.neg = o'.neg) : getIn o = getIn o' := by
  funext a p t; simp only [getIn, h]

theorem ensureAdd_congr (o o' : Opts) (h : o.neg = o'.neg) (v : Value) :
    ∀ (toks : List Bytes) (c : Value), ensureAdd o v c toks = ensureAdd o' v c toks
  | [], _ => by simp only [ensureAdd]
  | [t], c => by simp only [ensureAdd, addIn_congr o o' h]
  | t :: t2 :: ts, c => by
    have ih := ensureAdd_congr o o' h v (t2 :: ts)
    cases c with
    | obj ms => simp only [ensureAdd, ih]
    | arr xs => simp only [ensureAdd, ih]
    | null => simp only [ensureAdd]
    | bool b => simp only [ensureAdd]
    | num l => simp only [ensureAdd]
    | str s => simp only [ensureAdd]

theorem skipsRemove_congr (o o' : Opts) (h : o.neg = o'.neg) (d : Value) (path : List Bytes) :
    skipsRemove o d path = skipsRemove o' d path := by
  simp only [skipsRemove, h, atParent_congr o o' h]

theorem applyOp_congr (o o' : Opts) (hn : o.neg = o'.neg) (he : o.ensure = o'.ensure)
    (hl : o.limit = o'.limit) (size acc : Nat) (d : Value) (op : Op) (hk : op.kind ≠ .remove) :
    applyOp o size acc d op = applyOp o' size acc d op := by
  unfold applyOp
  cases hp : parsePointer op.path with
  | none =>
    simp only [hk, false_and, if_false, atParent_congr o o' hn, removeIn_congr o o' hn, getIn_congr o o' hn]
  | some path =>
    simp only []
    cases hk' : op.kind with
    | remove => exact absurd hk' hk
    | add =>
      simp only [he, atParent_congr o o' hn, addIn_congr o o' hn, ensureAdd_congr o o' hn]
    | replace =>
      simp only [atParent_congr o o' hn, replaceIn_congr o o' hn]
    | move =>
      simp only [atParent_congr o o' hn, removeIn_congr o o' hn, addIn_congr o o' hn]
    | copy =>
      simp only [hl, atParent_congr o o' hn, getIn_congr o o' hn, addIn_congr o o' hn]
    | test =>
      simp only [atParent_congr o o' hn, getIn_congr o o' hn]
/-! ### dependence on `size` and `acc` -/

theorem applyOp_noncopy (o : Opts) (size acc : Nat) (d : Value) (op : Op) (hk : op.kind ≠ .copy) :
    applyOp o size acc d op = (applyOp o 0 0 d op).bind fun p => .ok (p.1, acc) := by
  unfold applyOp
  cases hp : parsePointer op.path with
  | none =>
    simp only []
    split
    · rfl
    · cases hk' : op.kind with
      | copy => exact absurd hk' hk
      | move =>
        simp only []
        cases parsePointer op.frm with
        | none => rfl
        | some frm =>
          cases frm with
          | nil => rfl
          | cons t ts => simp only []; cases atParent o (removeIn o) d (t :: ts) <;> rfl
      | add => rfl
      | remove => rfl
      | replace => rfl
      | test => rfl
  | some path =>
    simp only []
    cases hk' : op.kind with
    | copy => exact absurd hk' hk
    | add =>
      simp only []
      cases op.value with
      | none => rfl
      | some v =>
        simp only []
        cases path with
        | nil => simp only []; split <;> first | rfl | (split <;> rfl)
        | cons t ts =>
          simp only []
          split
          · cases ensureAdd o v d (t :: ts) <;> rfl
          · cases atParent o (addIn o v) d (t :: ts) <;> rfl
    | remove =>
      simp only []
      cases path with
      | nil => rfl
      | cons t ts =>
        simp only []
        split
        · cases skipsRemove o d (t :: ts) with
          | ok b =>
            cases b with
            | true => rfl
            | false => simp only []; cases atParent o (removeIn o) d (t :: ts) <;> rfl
          | fail c => rfl
          | unspec => rfl
        · cases atParent o (removeIn o) d (t :: ts) <;> rfl
    | replace =>
      simp only []
      cases op.value with
      | none => rfl
      | some v =>
        simp only []
        cases path with
        | nil => simp only []; split <;> first | rfl | (split <;> rfl)
        | cons t ts =>
          simp only []
          cases atParent o (replaceIn o v) d (t :: ts) <;> rfl
    | move =>
      simp only []
      cases parsePointer op.frm with
      | none => rfl
      | some frm =>
        cases frm with
        | nil => rfl
        | cons f fs =>
          simp only []
          cases atParent o (removeIn o) d (f :: fs) with
          | fail c => rfl
          | unspec => rfl
          | ok p =>
            simp only [Res.bind]
            cases path with
            | nil => rfl
            | cons t ts =>
              simp only []
              cases atParent o (addIn o p.2) p.1 (t :: ts) <;> rfl
    | test =>
      simp only []
      cases path with
      | nil => simp only []; cases testEq d (op.value.getD .null) <;> rfl
      | cons t ts =>
        simp only []
        cases atParent o (getIn o true) d (t :: ts) with
        | fail c => rfl
        | unspec => rfl
        | ok p =>
          simp only [Res.bind]
          cases testEq p.2 (op.value.getD .null) <;> rfl

def copySrc (o : Opts) (d : Value) (frm : List Bytes) : Res Value :=
  match frm with
  | [] => .ok d
  | _ => (atParent o (getIn o false) d frm).bind fun (_, v) => .ok v

def copyTail (o : Opts) (size acc : Nat) (d : Value) (path : List Bytes) (v : Value) : Res (Value × Nat) :=
  match path with
  | [] => .unspec
  | _ =>
    (atParent o (fun p _ => .ok (p, ())) d path).bind fun _ =>
      let acc' := acc + size
      if o.limit > 0 ∧ acc' > o.limit then .fail .copyLimit
      else (atParent o (addIn o v) d path).bind fun (d', _) => .ok (d', acc')

/-- `copy` whose destination pointer is outside RFC 6901: the source half is evaluated first, its
failure is the one reported (whatever `size` and `acc` are) -/
def copyBadDest (o : Opts) (d : Value) (frm : Bytes) : Res (Value × Nat) :=
  match parsePointer frm with
  | none => .fail .parentUnreachable
  | some [] => .fail .parentUnreachable
  | some frm => (atParent o (getIn o false) d frm).bind fun _ => .fail .parentUnreachable

theorem applyOp_copy (o : Opts) (size acc : Nat) (d : Value) (op : Op) (hk : op.kind = .copy) :
    applyOp o size acc d op =
      match parsePointer op.path with
      | none => copyBadDest o d op.frm
      | some path =>
        match parsePointer op.frm with
        | none => .fail .parentUnreachable
        | some frm => (copySrc o d frm).bind (copyTail o size acc d path) := by
  unfold applyOp
  cases parsePointer op.path with
  | none =>
    simp only [hk, reduceCtorEq, false_and, if_false, copyBadDest]
    cases parsePointer op.frm with
    | none => rfl
    | some frm => cases frm <;> rfl
  | some path =>
    simp only [hk]
    cases parsePointer op.frm with
    | none => rfl
    | some frm => rfl

/-- how a run with arbitrary `size`, `acc` relates to the run with `0`, `0` -/
def SizeRel (r0 r : Res (Value × Nat)) : Prop :=
  match r0 with
  | .ok (d', _) => (∃ a, r = .ok (d', a)) ∨ (∃ c, r = .fail c)
  | .fail _ => ∃ c', r = .fail c'
  | .unspec => True

theorem copyTail_sizeRel (o : Opts) (size acc : Nat) (d : Value) (path : List Bytes) (v : Value) :
    SizeRel (copyTail o 0 0 d path v) (copyTail o size acc d path v) := by
  unfold copyTail
  cases path with
  | nil => trivial
  | cons t ts =>
    simp only []
    cases atParent o (fun p _ => Res.ok (p, ())) d (t :: ts) with
    | fail c => exact ⟨c, rfl⟩
    | unspec => trivial
    | ok p =>
      simp only [Res.bind, Nat.add_zero, gt_iff_lt, Nat.not_lt_zero, and_false, if_false]
      cases atParent o (addIn o v) d (t :: ts) with
      | fail c => simp only [SizeRel]; split <;> exact ⟨_, rfl⟩
      | unspec => trivial
      | ok q => simp only [SizeRel]; split
                · exact .inr ⟨_, rfl⟩
                · exact .inl ⟨_, rfl⟩

theorem sizeRel_noncopy (r0 : Res (Value × Nat)) (acc : Nat) :
    SizeRel r0 (r0.bind fun p => .ok (p.1, acc)) := by
  cases r0 with
  | ok p => exact .inl ⟨acc, rfl⟩
  | fail c => exact ⟨c, rfl⟩
  | unspec => trivial

theorem sizeRel_refl (r : Res (Value × Nat)) : SizeRel r r := by
  cases r with
  | ok p => exact .inl ⟨p.2, rfl⟩
  | fail c => exact ⟨c, rfl⟩
  | unspec => trivial

theorem applyOp_sizeRel (o : Opts) (size acc : Nat) (d : Value) (op : Op) :
    SizeRel (applyOp o 0 0 d op) (applyOp o size acc d op) := by
  by_cases hk : op.kind = .copy
  · rw [applyOp_copy o size acc d op hk, applyOp_copy o 0 0 d op hk]
    cases parsePointer op.path with
    | none => exact sizeRel_refl _
    | some path =>
      cases parsePointer op.frm with
      | none => exact ⟨_, rfl⟩
      | some frm =>
        simp only []
        cases copySrc o d frm with
        | ok v => exact copyTail_sizeRel o size acc d path v
        | fail c => exact ⟨c, rfl⟩
        | unspec => trivial
  · rw [applyOp_noncopy o size acc d op hk]
    exact sizeRel_noncopy _ acc

/-! ### with the limit off, sizes and the accumulator are irrelevant -/

def docPart (r : Res (Value × Nat)) : Res Value := r.bind fun p => .ok p.1

theorem copyTail_limit0 (o : Opts) (hl : o.limit = 0) (size acc size' acc' : Nat) (d : Value)
    (path : List Bytes) (v : Value) :
    docPart (copyTail o size acc d path v) = docPart (copyTail o size' acc' d path v) := by
  unfold copyTail
  cases path with
  | nil => rfl
  | cons t ts =>
    simp only [hl, gt_iff_lt, Nat.lt_irrefl, false_and, if_false]
    cases atParent o (fun p _ => Res.ok (p, ())) d (t :: ts) with
    | fail c => rfl
    | unspec => rfl
    | ok p =>
      simp only [Res.bind]
      cases atParent o (addIn o v) d (t :: ts) <;> rfl

theorem applyOp_limit0 (o : Opts) (hl : o.limit = 0) (size acc size' acc' : Nat) (d : Value) (op : Op) :
    docPart (applyOp o size acc d op) = docPart (applyOp o size' acc' d op) := by
  by_cases hk : op.kind = .copy
  · rw [applyOp_copy o size acc d op hk, applyOp_copy o size' acc' d op hk]
    cases parsePointer op.path with
    | none => rfl
    | some path =>
      cases parsePointer op.frm with
      | none => rfl
      | some frm =>
        simp only []
        cases copySrc o d frm with
        | ok v => exact copyTail_limit0 o hl size acc size' acc' d path v
        | fail c => rfl
        | unspec => rfl
  · rw [applyOp_noncopy o size acc d op hk, applyOp_noncopy o size' acc' d op hk]
    cases applyOp o 0 0 d op <;> rfl

theorem applyFrom_limit0 (o : Opts) (hl : o.limit = 0) (sizeAt sizeAt' : Nat → Nat) :
    ∀ (ops : List Op) (i acc acc' : Nat) (d : Value),
      applyFrom o sizeAt i acc d ops = applyFrom o sizeAt' i acc' d ops := by
  intro ops
  induction ops with
  | nil => intros; rfl
  | cons op ops ih =>
    intro i acc acc' d
    simp only [applyFrom]
    have h := applyOp_limit0 o hl (sizeAt i) acc (sizeAt' i) acc' d op
    cases h1 : applyOp o (sizeAt i) acc d op with
    | ok p =>
      cases h2 : applyOp o (sizeAt' i) acc' d op with
      | ok q =>
        simp only [h1, h2, docPart, Res.bind, Res.ok.injEq] at h
        simp only [h]
        exact ih (i + 1) p.2 q.2 q.1
      | fail c => simp [h1, h2, docPart, Res.bind] at h
      | unspec => simp [h1, h2, docPart, Res.bind] at h
    | fail c =>
      cases h2 : applyOp o (sizeAt' i) acc' d op with
      | ok q => simp [h1, h2, docPart, Res.bind] at h
      | fail c' =>
        simp only [h1, h2, docPart, Res.bind, Res.fail.injEq] at h
        simp only [h]
      | unspec => simp [h1, h2, docPart, Res.bind] at h
    | unspec =>
      cases h2 : applyOp o (sizeAt' i) acc' d op with
      | ok q => simp [h1, h2, docPart, Res.bind] at h
      | fail c' => simp [h1, h2, docPart, Res.bind] at h
      | unspec => rfl

/-! ### the remove branch -/

abbrev on (o : Opts) : Opts := { o with allowMissing := true }
abbrev off (o : Opts) : Opts := { o with allowMissing := false }

theorem applyOp_remove_off (o : Opts) (size acc : Nat) (d : Value) (op : Op) (t : Bytes) (ts : List Bytes)
    (hk : op.kind = .remove) (hp : parsePointer op.path = some (t :: ts)) :
    applyOp (off o) size acc d op =
      (atParent o (removeIn o) d (t :: ts)).bind fun p => .ok (p.1, acc) := by
  unfold applyOp
  simp only [hp, hk]
  rw [atParent_congr (off o) o rfl, removeIn_congr (off o) o rfl]
  rfl

theorem applyOp_remove_on (o : Opts) (size acc : Nat) (d : Value) (op : Op) (t : Bytes) (ts : List Bytes)
    (hk : op.kind = .remove) (hp : parsePointer op.path = some (t :: ts)) :
    applyOp (on o) size acc d op =
      match skipsRemove o d (t :: ts) with
      | .ok true => .ok (d, acc)
      | .ok false => (atParent o (removeIn o) d (t :: ts)).bind fun p => .ok (p.1, acc)
      | .fail c => .fail c
      | .unspec => .unspec := by
  unfold applyOp
  simp only [hp, hk]
  rw [atParent_congr (on o) o rfl, removeIn_congr (on o) o rfl, skipsRemove_congr (on o) o rfl]
  rfl

theorem skipsRemove_ne_fail (o : Opts) (d : Value) (path : List Bytes) (c : Cause) :
    skipsRemove o d path ≠ .fail c := by
  unfold skipsRemove
  split <;> simp


end AllowLemmas
end JP
