import JP.Lemmas.MergeLawsRoundtrip

/-!
# Minimality of a merge patch is invariant under member order

`minimalAt p a b` / `minimalMs a b pms` (`JP/Check.lean`) only look members up by name, so they do
not distinguish two duplicate-free patches that are equal up to member order (`Value.eqv`).  Needed
to transfer `C03.minimal_rec` (stated for `Spec.diff`) to the name-sorted patch the library
produces.
-/

namespace JP
namespace Spec
open Value

theorem eqv_obj_nil_right {pms : Members} (h : eqv (.obj pms) (.obj []) = true) : pms = [] := by
  rw [eqv_obj_obj, Bool.and_eq_true, eqvM_iff] at h
  cases pms with
  | nil => rfl
  | cons m ms =>
    obtain ⟨w, hw, _⟩ := h.1 m.1 m.2 List.mem_cons_self
    simp [lookup] at hw

theorem isNull_of_eqv {p p' : Value} (h : eqv p p' = true) (hn : p.isNull = true) : p'.isNull = true := by
  have : p = .null := by cases p <;> simp [isNull] at hn; rfl
  subst this
  rw [(eqv_null_left p').1 h]; rfl

/-- the congruence, for a patch value and (when it is an object) for its member list -/
theorem minimal_congr : ∀ (p p' : Value), noDup p = true → noDup p' = true → eqv p p' = true →
    (∀ a b, minimalAt p a b = true → minimalAt p' a b = true) ∧
    (∀ pms pms', p = .obj pms → p' = .obj pms' → ∀ ams bms,
      minimalMs ams bms pms = true → minimalMs ams bms pms' = true) := by
  have nonobj : ∀ (p p' : Value), p.isObj = false → eqv p p' = true →
      (∀ a b, minimalAt p a b = true → minimalAt p' a b = true) ∧
      (∀ pms pms', p = .obj pms → p' = .obj pms' → ∀ ams bms,
        minimalMs ams bms pms = true → minimalMs ams bms pms' = true) := by
    intro p p' hp he
    have hp' : p'.isObj = false := by rw [← eqv_isObj he]; exact hp
    refine ⟨fun a b _ => ?_, fun pms _ e => by rw [e] at hp; cases hp⟩
    cases p' <;> simp [isObj] at hp' <;> simp [minimalAt]
  apply Value.ind
  · intro p' _ _ he; exact nonobj _ p' rfl he
  · intro b p' _ _ he; exact nonobj _ p' rfl he
  · intro l p' _ _ he; exact nonobj _ p' rfl he
  · intro s p' _ _ he; exact nonobj _ p' rfl he
  · intro xs _ p' _ _ he; exact nonobj _ p' rfl he
  · intro pms ih p' hp hp' he
    obtain ⟨pms', rfl⟩ := eqv_obj_left he
    have np := (noDup_obj pms).1 hp
    have np' := (noDup_obj pms').1 hp'
    have hms : ∀ ams bms, minimalMs ams bms pms = true → minimalMs ams bms pms' = true := by
      intro ams bms hm
      rw [minimalMs_iff] at hm ⊢
      intro k pv' hmem
      have hl' := lookup_of_mem np'.1 hmem
      have ok := optEqv_of_eqv_obj he k
      rw [hl'] at ok
      cases hl : lookup k pms with
      | none => rw [hl] at ok; cases ok
      | some pv =>
        rw [hl] at ok
        simp only [optEqv_some_some] at ok
        have hmem0 := mem_of_lookup hl
        have h0 := hm k pv hmem0
        have ihk := ih k pv hmem0 pv' (noDup_of_lookup np.2 hl) (noDup_of_lookup np'.2 hl') ok
        cases ha : lookup k ams with
        | none =>
          cases hb : lookup k bms with
          | none => rw [ha, hb] at h0; exact h0
          | some bv => rfl
        | some av =>
          cases hb : lookup k bms with
          | none =>
            rw [ha, hb] at h0
            exact isNull_of_eqv ok h0
          | some bv =>
            rw [ha, hb] at h0
            simp only [Bool.and_eq_true] at h0 ⊢
            refine ⟨h0.1, ?_⟩
            split
            · rename_i hc
              have h2 := h0.2
              rw [if_pos hc] at h2
              exact ihk.1 av bv h2
            · rfl
    refine ⟨?_, ?_⟩
    · intro a b hm
      cases a with
      | obj ams =>
        cases b with
        | obj bms =>
          rw [minimalAt_obj_obj, Bool.and_eq_true] at hm ⊢
          refine ⟨hms ams bms hm.1, ?_⟩
          cases hpm : pms' with
          | nil =>
            rw [hpm] at he
            rw [eqv_obj_nil_right he] at hm
            exact hm.2
          | cons m ms => rfl
        | _ => simp [minimalAt]
      | _ => simp [minimalAt]
    · intro q q' e e'
      cases e; cases e'
      exact hms

theorem minimalMs_congr {pms pms' : Members} (hp : noDup (.obj pms) = true) (hp' : noDup (.obj pms') = true)
    (he : eqv (.obj pms) (.obj pms') = true) (ams bms : Members)
    (h : minimalMs ams bms pms = true) : minimalMs ams bms pms' = true :=
  (minimal_congr (.obj pms) (.obj pms') hp hp' he).2 pms pms' rfl rfl ams bms h

end Spec
end JP
