import JP.Heap.LegacyModel
import JP.Heap.DriverHeap

/-!
# Driver helper: the LEGACY heap model against the legacy value model, case by case

Testing only: `JP.Props.C04heapLegacy.applyHeapL_eq` is the theorem; the LAPPLY handler compares
the two on every case and reports a difference as `corr=diff:heap` (`Heap.tagCorr`).
-/

namespace JP
namespace Heap
namespace Lg

/-- `applyHeapL = Legacy.applyBytes` on this case (true when the patch does not decode) -/
def heapAgrees (neg : Bool) (limit : Int) (doc patch : Bytes) : Bool :=
  match Legacy.decodePatch patch with
  | .ok ops => sameOutcome (applyHeapL neg limit [] doc ops) (Legacy.applyBytes neg limit [] doc ops)
  | _ => true

end Lg
end Heap
end JP
