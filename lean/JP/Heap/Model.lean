import JP.Impl.Apply

/-!
# A HEAP model of the patch engine (`v5/patch.go`)

The value model (`JP.Impl`) represents `*lazyNode` / `*partialDoc` / `*partialArray` by immutable
trees.  Here the same engine is transcribed over a STORE: a node is an address into a heap of flat
cells, every operation mutates the cell it reached, `move` re-links the very pointer it unlinked.
Sharing and cycles ARE representable here; that they never arise is a theorem
(`JP.Props.C04heap`), no longer an assumption.

One cell stands for a `lazyNode` together with the `partialDoc` / `partialArray` it owns
(`n.doc` / `n.ary` are written once by `intoDoc` / `intoAry` and never re-pointed), and also for
the root container (`pd`), which is a bare `*partialDoc` / `*partialArray`.

Leaf functions without pointers in play are the value model's own: token decoding, `atoi`,
`decodeKeys`, `Cst.escape`, `eqNC`, `isNullN`, error values, options, operations.
-/

namespace JP
namespace Heap

open JP.Impl (Outcome Err Opts Op Node)

abbrev Addr := Nat
/-- a `*lazyNode`; `none` is the nil pointer -/
abbrev Ptr := Option Addr

abbrev PMembers := List (Bytes × Ptr)

inductive Cell where
  | raw (c : Cst)
  | doc (keys : List Bytes) (obj : PMembers)
  | ary (nodes : List Ptr)
  | docNil
  | nilAry
  deriving Repr, Inhabited

/-- allocation = push; nothing is ever freed -/
abbrev Heap := List Cell

/-! ### maps of pointers -/

def lookupP (k : Bytes) : PMembers → Option Ptr
  | [] => none
  | (k', p) :: ms => if k' = k then some p else lookupP k ms

def setP (k : Bytes) (p : Ptr) : PMembers → PMembers
  | [] => [(k, p)]
  | (k', p') :: ms => if k' = k then (k, p) :: ms else (k', p') :: setP k p ms

def eraseP (k : Bytes) : PMembers → PMembers
  | [] => []
  | (k', p) :: ms => if k' = k then ms else (k', p) :: eraseP k ms

/-! ### allocation -/

def alloc (h : Heap) (c : Cell) : Heap × Addr := (h ++ [c], h.length)

/-- a child as the decoder hands it out (`Impl.childOf`): nil pointer for JSON null, otherwise a
fresh raw cell -/
def newChild (h : Heap) (c : Cst) : Heap × Ptr :=
  if c.isNullLit then (h, none) else (h ++ [.raw c], some h.length)

def newChildren : Heap → List Cst → Heap × List Ptr
  | h, [] => (h, [])
  | h, c :: cs =>
    let r := newChild h c
    let r2 := newChildren r.1 cs
    (r2.1, r.2 :: r2.2)

/-- `Impl.decodeMembers`: every member gets its cell, a repeated name re-points the map entry (the
cell of the earlier member becomes garbage) -/
def newMembers : Heap → List (Bytes × Cst) → PMembers → Heap × PMembers
  | h, [], acc => (h, acc)
  | h, (k, v) :: ms, acc =>
    let r := newChild h v
    newMembers r.1 ms (setP (unquote k) r.2 acc)

/-! ### `intoDoc`, `intoAry` (in place) -/

def cellIntoDoc (h : Heap) (a : Addr) : Cell → Outcome Heap
  | .doc _ _ => .ok h
  | .raw (.obj ms) =>
    let r := newMembers h ms []
    .ok (r.1.set a (.doc (Impl.decodeKeys ms) r.2))
  | _ => .err .invalid

def cellIntoAry (h : Heap) (a : Addr) : Cell → Outcome Heap
  | .ary _ => .ok h
  | .raw (.arr xs) =>
    let r := newChildren h xs
    .ok (r.1.set a (.ary r.2))
  | _ => .err .other

/-- `n.intoDoc()`: the node at `p` becomes a parsed object, in place.  A nil receiver is a nil
dereference; a dangling address cannot occur (nothing is freed) and counts as a crash. -/
def intoDoc (h : Heap) (p : Ptr) : Outcome Heap :=
  match p with
  | none => .panic
  | some a =>
    match h[a]? with
    | none => .panic
    | some c => cellIntoDoc h a c

def intoAry (h : Heap) (p : Ptr) : Outcome Heap :=
  match p with
  | none => .panic
  | some a =>
    match h[a]? with
    | none => .panic
    | some c => cellIntoAry h a c

def cellIsArray : Cell → Bool
  | .raw c => c.isArr
  | .ary _ => true
  | _ => false

/-- `isArray(*n.raw)` -/
def ptrIsArray (h : Heap) (p : Ptr) : Bool :=
  match p with
  | none => false
  | some a =>
    match h[a]? with
    | none => false
    | some c => cellIsArray c

def intoContainer (h : Heap) (p : Ptr) : Outcome Heap :=
  if ptrIsArray h p then intoAry h p else intoDoc h p

/-! ### index arithmetic of `partialArray` (depends on the length only) -/

/-- `partialArray.get`: the index to read (`none` past the end is decided by the caller) -/
def getIdx (o : Opts) (len : Nat) (key : Bytes) : Outcome Nat :=
  match atoi key with
  | none => .err .other
  | some idx =>
    if idx < 0 then
      if !o.neg then .err .invalidIndex
      else if idx < -(len : Int) then .err .invalidIndex
      else .ok (idx + len).toNat
    else .ok idx.toNat

/-- `partialArray.set`: `d.nodes[idx] = val` is not bounds-checked -/
def setIdx (o : Opts) (len : Nat) (key : Bytes) : Outcome Nat :=
  match atoi key with
  | none => .err .other
  | some idx =>
    if idx < 0 then
      if !o.neg then .err .invalidIndex
      else if idx < -(len : Int) then .err .invalidIndex
      else if (idx + len).toNat < len then .ok (idx + len).toNat else .panic
    else if idx.toNat < len then .ok idx.toNat else .panic

/-- `partialArray.add`: `none` = append (`-`) -/
def addIdx (o : Opts) (len : Nat) (key : Bytes) : Outcome (Option Nat) :=
  if key = [45] then .ok none
  else match atoi key with
    | none => .err .other
    | some idx =>
      let sz : Int := len + 1
      if idx ≥ sz then .err .invalidIndex
      else if idx < 0 then
        if !o.neg then .err .invalidIndex
        else if idx < -sz then .err .invalidIndex
        else if (idx + sz).toNat ≤ len then .ok (some (idx + sz).toNat) else .panic
      else .ok (some idx.toNat)

/-- `partialArray.remove`: `none` = nothing to do (AllowMissingPathOnRemove) -/
def removeIdx (o : Opts) (len : Nat) (key : Bytes) : Outcome (Option Nat) :=
  match atoi key with
  | none => .err .other
  | some idx =>
    if idx ≥ (len : Int) then
      if o.allow then .ok none else .err .invalidIndex
    else if idx < 0 then
      if !o.neg then .err .invalidIndex
      else if idx < -(len : Int) then
        if o.allow then .ok none else .err .invalidIndex
      else .ok (some (idx + len).toNat)
    else .ok (some idx.toNat)

/-! ### `container` methods on one cell -/

def cellGet (o : Opts) (c : Cell) (key : Bytes) : Outcome Ptr :=
  match c with
  | .doc _ obj =>
    match lookupP key obj with
    | some p => .ok p
    | none => .err .missing
  | .docNil => .err .expectedObject
  | .ary nodes =>
    match getIdx o nodes.length key with
    | .ok i =>
      (match nodes[i]? with
       | some p => .ok p
       | none => .err .invalidIndex)
    | .err e => .err e
    | .panic => .panic
  | .nilAry => .err .invalid
  | .raw _ => .panic

def docSetP (keys : List Bytes) (obj : PMembers) (key : Bytes) (val : Ptr) : Cell :=
  .doc (if keys.contains key then keys else keys ++ [key]) (setP key val obj)

def cellSet (o : Opts) (c : Cell) (key : Bytes) (val : Ptr) : Outcome Cell :=
  match c with
  | .doc keys obj => .ok (docSetP keys obj key val)
  | .docNil => .err .expectedObject
  | .ary nodes =>
    match setIdx o nodes.length key with
    | .ok i => .ok (.ary (Impl.listSet i val nodes))
    | .err e => .err e
    | .panic => .panic
  | .nilAry => .err .invalid
  | .raw _ => .panic

def cellAdd (o : Opts) (c : Cell) (key : Bytes) (val : Ptr) : Outcome Cell :=
  match c with
  | .doc keys obj => .ok (docSetP keys obj key val)
  | .docNil => .err .expectedObject
  | .ary nodes =>
    match addIdx o nodes.length key with
    | .ok none => .ok (.ary (nodes ++ [val]))
    | .ok (some i) => .ok (.ary (Impl.listInsert i val nodes))
    | .err e => .err e
    | .panic => .panic
  | .nilAry => .err .invalid
  | .raw _ => .panic

def cellRemove (o : Opts) (c : Cell) (key : Bytes) : Outcome Cell :=
  match c with
  | .doc keys obj =>
    match lookupP key obj with
    | none => if o.allow then .ok c else .err .missing
    | some _ =>
      if keys.contains key then .ok (.doc (Impl.eraseKey key keys) (eraseP key obj))
      else .panic
  | .docNil => .err .expectedObject
  | .ary nodes =>
    match removeIdx o nodes.length key with
    | .ok none => .ok c
    | .ok (some i) => .ok (.ary (nodes.eraseIdx i))
    | .err e => .err e
    | .panic => .panic
  | .nilAry => .err .invalid
  | .raw _ => .panic

/-! ### the same methods through a container's address: ONE cell is rewritten -/

def hGet (o : Opts) (h : Heap) (a : Addr) (key : Bytes) : Outcome Ptr :=
  match h[a]? with
  | none => .panic
  | some c => cellGet o c key

/-- lift a cell update to the heap -/
def writeBack (h : Heap) (a : Addr) : Outcome Cell → Outcome Heap
  | .ok c => .ok (h.set a c)
  | .err e => .err e
  | .panic => .panic

def hSet (o : Opts) (h : Heap) (a : Addr) (key : Bytes) (val : Ptr) : Outcome Heap :=
  match h[a]? with
  | none => .panic
  | some c => writeBack h a (cellSet o c key val)

def hAdd (o : Opts) (h : Heap) (a : Addr) (key : Bytes) (val : Ptr) : Outcome Heap :=
  match h[a]? with
  | none => .panic
  | some c => writeBack h a (cellAdd o c key val)

def hRemove (o : Opts) (h : Heap) (a : Addr) (key : Bytes) : Outcome Heap :=
  match h[a]? with
  | none => .panic
  | some c => writeBack h a (cellRemove o c key)

/-! ### reading back: marshalling and abstraction (fuel: a cyclic heap would diverge) -/

def optMapL {α β} (f : α → Option β) : List α → Option (List β)
  | [] => some []
  | x :: xs =>
    match f x, optMapL f xs with
    | some y, some ys => some (y :: ys)
    | _, _ => none

def optMapM {α β} (f : α → Option β) : List (Bytes × α) → Option (List (Bytes × β))
  | [] => some []
  | (k, x) :: xs =>
    match f x, optMapM f xs with
    | some y, some ys => some ((k, y) :: ys)
    | _, _ => none

def marshalCell (esc : Bool) (rec : Ptr → Option Cst) : Cell → Option Cst
  | .raw c => some (Cst.escape esc c)
  | .doc keys obj =>
    match optMapM rec obj with
    | none => none
    | some ms => some (.obj (keys.map fun k => (quoteBody esc k, (Impl.lookupC k ms).getD Impl.litNull)))
  | .ary ps =>
    match optMapL rec ps with
    | none => none
    | some xs => some (.arr xs)
  | .docNil => some Impl.litNull
  | .nilAry => some Impl.litNull

/-- `MarshalEscaped(node, esc)` via `RedirectMarshalJSON` / `TrustMarshalJSON`, following
pointers; `none` = out of fuel (the Go recursion would not return) or a dangling address -/
def marshal (esc : Bool) (h : Heap) : Nat → Ptr → Option Cst
  | _, none => some Impl.litNull
  | 0, some _ => none
  | fuel + 1, some a =>
    match h[a]? with
    | none => none
    | some c => marshalCell esc (fun p => marshal esc h fuel p) c

def absCell (rec : Ptr → Option Node) : Cell → Option Node
  | .raw c => some (.raw c)
  | .doc keys obj =>
    match optMapM rec obj with
    | none => none
    | some ms => some (.doc keys ms)
  | .ary ps =>
    match optMapL rec ps with
    | none => none
    | some ns => some (.ary ns)
  | .docNil => some .docNil
  | .nilAry => some .nilAry

/-- the value a pointer stands for, if the heap below it is well-founded within `fuel` -/
def abs (h : Heap) : Nat → Ptr → Option Node
  | _, none => some .nil
  | 0, some _ => none
  | fuel + 1, some a =>
    match h[a]? with
    | none => none
    | some c => absCell (fun p => abs h fuel p) c

/-- enough for every tree-shaped heap: a path visits each cell at most once -/
def fuelOf (h : Heap) : Nat := h.length + 1

/-- `deepCopy`: nil stays nil with size 0; otherwise ONE fresh raw cell holding the marshalled text -/
def hDeepCopy (esc : Bool) (h : Heap) (p : Ptr) : Outcome (Heap × Ptr × Nat) :=
  match p with
  | none => .ok (h, none, 0)
  | some a =>
    match marshal esc h (fuelOf h) (some a) with
    | none => .panic
    | some c => .ok (h ++ [.raw c], some h.length, (Cst.print c).length)

/-! ### `equal`: what a SUCCESSFUL comparison leaves behind (every visited container parsed) -/

mutual
/-- parse a raw message completely into cells (`Impl.deepParseC`) -/
def buildC : Heap → Cst → Heap × Ptr
  | h, .lit s => if s = ascii "null" then (h, none) else (h ++ [.raw (.lit s)], some h.length)
  | h, .str b => (h ++ [.raw (.str b)], some h.length)
  | h, .arr xs =>
    let r := buildCL h xs
    (r.1 ++ [.ary r.2], some r.1.length)
  | h, .obj ms =>
    let r := buildCM h ms []
    (r.1 ++ [.doc (Impl.decodeKeys ms) r.2], some r.1.length)
def buildCL : Heap → List Cst → Heap × List Ptr
  | h, [] => (h, [])
  | h, x :: xs =>
    let r := buildC h x
    let r2 := buildCL r.1 xs
    (r2.1, r.2 :: r2.2)
def buildCM : Heap → List (Bytes × Cst) → PMembers → Heap × PMembers
  | h, [], acc => (h, acc)
  | h, (k, v) :: ms, acc =>
    let r := buildC h v
    buildCM r.1 ms (setP (unquote k) r.2 acc)
end

/-- `tryDoc` / `tryAry` all the way down on the raw cell at `a` -/
def parseRawAt (h : Heap) (a : Addr) : Cst → Heap
  | .arr xs =>
    let r := buildCL h xs
    r.1.set a (.ary r.2)
  | .obj ms =>
    let r := buildCM h ms []
    r.1.set a (.doc (Impl.decodeKeys ms) r.2)
  | _ => h

def deepParseCell (rec : Heap → Ptr → Heap) (h : Heap) (a : Addr) : Cell → Heap
  | .raw c => parseRawAt h a c
  | .doc _ obj => obj.foldl (fun h kp => rec h kp.2) h
  | .ary ps => ps.foldl rec h
  | _ => h

/-- `Impl.deepParse`, in place -/
def deepParseH : Nat → Heap → Ptr → Heap
  | _, h, none => h
  | 0, h, some _ => h
  | fuel + 1, h, some a =>
    match h[a]? with
    | none => h
    | some c => deepParseCell (fun h p => deepParseH fuel h p) h a c

/-- `n.equal(o)` for the node at `p` (`Impl.equalTo`): the verdict is the value model's on the
abstraction; on success the visited part stays parsed, in place -/
def hEqualTo (h : Heap) (p : Ptr) (ov : Option Cst) : Outcome (Bool × Heap) :=
  match abs h (fuelOf h) p with
  | none => .panic
  | some n =>
    let oNull : Bool := match ov with | none => true | some c => c.isNullLit
    if Impl.isNullN n ∨ oNull then .ok (Impl.isNullN n ∧ oNull, h)
    else
      match ov with
      | none => .ok (false, h)
      | some c => if Impl.eqNC n c then .ok (true, deepParseH (fuelOf h) h p) else .ok (false, h)

/-! ### `findObject` -/

/-- the loop of `findObject`: descend from the container at `a`, parsing IN PLACE; `some c` is the
ADDRESS of the container reached, `none` is the nil container -/
def find (o : Opts) : Heap → Addr → List Bytes → Outcome (Heap × Option Addr)
  | h, a, [] => .ok (h, some a)
  | h, a, part :: rest =>
    match hGet o h a (decodeToken part) with
    | .panic => .panic
    | .err _ => .ok (h, none)
    | .ok none => .ok (h, none)
    | .ok (some b) =>
      match intoContainer h (some b) with
      | .panic => .panic
      | .err _ => .ok (h, none)
      | .ok h' => find o h' b rest

/-- `findObject(doc, path)`: heap after the lazy parsing on the way, container address, key -/
def findObject (o : Opts) (h : Heap) (root : Addr) (path : Bytes) : Outcome (Heap × Option (Addr × Bytes)) :=
  match Impl.splitPath path with
  | none => .ok (h, none)
  | some (parts, key) =>
    match find o h root parts with
    | .panic => .panic
    | .err e => .err e
    | .ok (h', none) => .ok (h', none)
    | .ok (h', some c) => .ok (h', some (c, key))

/-! ### `ensurePathExists` -/

/-- `k` fresh `null` raw cells -/
def newNulls : Heap → Nat → Heap × List Ptr
  | h, 0 => (h, [])
  | h, k + 1 =>
    let r := newNulls (h ++ [.raw (.lit (ascii "null"))]) k
    (r.1, some h.length :: r.2)

/-- pad the array at `a` with nulls up to index `ai` (the `doc.add(strconv.Itoa(i), null)` loop) -/
def padTo (h : Heap) (a : Addr) (part : Bytes) : Heap :=
  match atoi part, h[a]? with
  | some ai, some (.ary nodes) =>
    if ai ≥ (nodes.length : Int) + 1 then
      let r := newNulls h (ai.toNat - nodes.length)
      r.1.set a (.ary (nodes ++ r.2))
    else h
  | _, _ => h

/-- `doc.add(key, newNode)` whose error is ignored -/
def addIgnoring (o : Opts) (h : Heap) (a : Addr) (key : Bytes) (b : Addr) : Outcome Heap :=
  match hAdd o h a key (some b) with
  | .ok h' => .ok h'
  | .err _ => .ok h
  | .panic => .panic

def ensure (o : Opts) : Heap → Addr → List Bytes → Outcome Heap
  | h, _, [] => .ok h
  | h, _, [_] => .ok h
  | h, a, part :: nxt :: rest =>
    let key := decodeToken part
    let target : Option Addr := match hGet o h a key with
      | .ok (some b) => some b
      | _ => none
    match target with
    | none =>
      let h1 := padTo h a part
      let nextIdx := atoi nxt
      if nextIdx.isSome ∨ nxt = [45] then
        let ai : Int := nextIdx.getD 0
        if ai < 0 ∧ !o.neg then .err .invalidIndex
        else if ai < -1 then .err .invalidIndex
        else
          let ai' : Nat := if ai < 0 then 0 else ai.toNat
          -- newNode := "[]"; doc.add(key, newNode); doc = newNode.intoAry(); pad
          let b := h1.length
          let h2 := h1 ++ [.raw (.arr [])]
          match addIgnoring o h2 a key b with
          | .panic => .panic
          | .err e => .err e
          | .ok h3 =>
            let r := newNulls h3 ai'
            ensure o (r.1.set b (.ary r.2)) b (nxt :: rest)
      else
        let b := h1.length
        let h2 := h1 ++ [.raw (.obj [])]
        match addIgnoring o h2 a key b with
        | .panic => .panic
        | .err e => .err e
        | .ok h3 => ensure o (h3.set b (.doc [] [])) b (nxt :: rest)
    | some b =>
      match intoContainer h (some b) with
      | .panic => .panic
      | .err e => .err e
      | .ok h' => ensure o h' b (nxt :: rest)

def ensurePath (o : Opts) (h : Heap) (root : Addr) (path : Bytes) : Outcome Heap :=
  match splitSlash path with
  | [] => .ok h
  | [_] => .ok h
  | first :: parts => if first ≠ [] then .ok h else ensure o h root parts

/-! ### the operations: state = heap + address of the root container (`*doc`) -/

structure St where
  h : Heap
  root : Addr
  deriving Repr, Inhabited

/-- unmarshal a raw message into a NEW root container (`Impl.decodeRoot`) -/
def newRoot (h : Heap) (c : Cst) : Outcome St :=
  match c with
  | .arr xs => let r := newChildren h xs; .ok ⟨r.1 ++ [.ary r.2], r.1.length⟩
  | .obj ms => let r := newMembers h ms []; .ok ⟨r.1 ++ [.doc (Impl.decodeKeys ms) r.2], r.1.length⟩
  | .lit s => if s = ascii "null" then .ok ⟨h ++ [.docNil], h.length⟩ else .err .other
  | .str _ => .err .other

/-- `op.value()`: a fresh node per application (nil when the member is absent) -/
def newValue (h : Heap) (op : Op) : Heap × Ptr :=
  match op.value with
  | none => (h, none)
  | some c => (h ++ [.raw c], some h.length)

def liftHeap (root : Addr) : Outcome Heap → Outcome St
  | .ok h => .ok ⟨h, root⟩
  | .err e => .err e
  | .panic => .panic

/-- `findObject` + `con.add(key, op.value())` -/
def addAt (o : Opts) (h1 : Heap) (root : Addr) (op : Op) : Outcome St :=
  match findObject o h1 root op.path with
  | .panic => .panic
  | .err e => .err e
  | .ok (_, none) => .err .missing
  | .ok (h2, some (c, key)) =>
    let v := newValue h2 op
    liftHeap root (hAdd o v.1 c key v.2)

def opAdd (o : Opts) (s : St) (op : Op) : Outcome St :=
  if op.path = [] then
    match op.value with
    | none => .panic
    | some c => newRoot s.h c
  else
    let h1 : Outcome Heap := if o.ensure then ensurePath o s.h s.root op.path else .ok s.h
    match h1 with
    | .err e => .err e
    | .panic => .panic
    | .ok h1 => addAt o h1 s.root op

def opRemove (o : Opts) (s : St) (op : Op) : Outcome St :=
  match findObject o s.h s.root op.path with
  | .panic => .panic
  | .err e => .err e
  | .ok (h1, none) => if o.allow then .ok ⟨h1, s.root⟩ else .err .missing
  | .ok (h1, some (c, key)) => liftHeap s.root (hRemove o h1 c key)

def opReplace (o : Opts) (s : St) (op : Op) : Outcome St :=
  if op.path = [] then
    match op.value with
    | none => .panic
    | some c =>
      match c with
      | .obj ms => let r := newMembers s.h ms []; .ok ⟨r.1 ++ [.doc (Impl.decodeKeys ms) r.2], r.1.length⟩
      | .arr xs => let r := newChildren s.h xs; .ok ⟨r.1 ++ [.ary r.2], r.1.length⟩
      | .lit l => if l = ascii "null" then .ok ⟨s.h ++ [.nilAry], s.h.length⟩ else .err .other
      | .str _ => .err .other
  else
    match findObject o s.h s.root op.path with
    | .panic => .panic
    | .err e => .err e
    | .ok (_, none) => .err .missing
    | .ok (h1, some (c, key)) =>
      match hGet o h1 c key with
      | .panic => .panic
      | .err _ => .err .missing
      | .ok _ =>
        let v := newValue h1 op
        liftHeap s.root (hSet o v.1 c key v.2)

/-- `move`: the pointer is unlinked from its source container and THE SAME pointer is linked into
the destination -/
def opMove (o : Opts) (s : St) (op : Op) : Outcome St :=
  match op.frm with
  | none => .err .missing
  | some frm =>
    if frm = [] then .err .invalid
    else
      match findObject o s.h s.root frm with
      | .panic => .panic
      | .err e => .err e
      | .ok (_, none) => .err .missing
      | .ok (h1, some (c, key)) =>
        match hGet o h1 c key with
        | .panic => .panic
        | .err e => .err e
        | .ok val =>
          match hRemove o h1 c key with
          | .panic => .panic
          | .err e => .err e
          | .ok h2 =>
            match findObject o h2 s.root op.path with
            | .panic => .panic
            | .err e => .err e
            | .ok (_, none) => .err .missing
            | .ok (h3, some (c2, key2)) => liftHeap s.root (hAdd o h3 c2 key2 val)

def opTest (o : Opts) (s : St) (op : Op) : Outcome St :=
  if op.path = [] then
    match hEqualTo s.h (some s.root) op.value with
    | .panic => .panic
    | .err e => .err e
    | .ok (b, h') => if b then .ok ⟨h', s.root⟩ else .err .testFailed
  else
    match findObject o s.h s.root op.path with
    | .panic => .panic
    | .err e => .err e
    | .ok (_, none) => .err .missing
    | .ok (h1, some (c, key)) =>
      let got : Outcome Ptr := match hGet o h1 c key with
        | .err .missing => .ok none
        | x => x
      match got with
      | .panic => .panic
      | .err e => .err e
      | .ok val =>
        match hEqualTo h1 val op.value with
        | .panic => .panic
        | .err e => .err e
        | .ok (b, h') => if b then .ok ⟨h', s.root⟩ else .err .testFailed

/-- `val.isNull()` of the node wrapping a cell (`Impl.isNullN`) -/
def cellIsNull : Cell → Bool
  | .nilAry => true
  | .raw c => c.isNullLit
  | _ => false

def cellIsDocNil : Cell → Bool
  | .docNil => true
  | _ => false

def rootIsDocNil (h : Heap) (root : Addr) : Bool :=
  match h[root]? with
  | some c => cellIsDocNil c
  | none => false

/-- the end of `copy`: marshal the source AS IT IS NOW into one fresh raw cell, check the
accumulated size, link the copy into the destination container `c2` -/
def copyLink (o : Opts) (root : Addr) (acc : Int) (h2 : Heap) (val : Ptr) (c2 : Addr) (key2 : Bytes) :
    Outcome (St × Int) :=
  match hDeepCopy o.esc h2 val with
  | .panic => .panic
  | .err e => .err e
  | .ok (h3, cp, sz) =>
    let acc' := acc + sz
    if o.limit > 0 ∧ acc' > o.limit then .err .copySize
    else
      match hAdd o h3 c2 key2 cp with
      | .ok h4 => .ok (⟨h4, root⟩, acc')
      | .err e => .err e
      | .panic => .panic

/-- `copy` after the source pointer `val` is in hand: find the destination, then `copyLink` -/
def copyTail (o : Opts) (root : Addr) (acc : Int) (op : Op) (frm : Bytes) (h1 : Heap) (val : Ptr) :
    Outcome (St × Int) :=
  match findObject o h1 root op.path with
  | .panic => .panic
  | .err e => .err e
  | .ok (_, none) => .err .missing
  | .ok (h2, some (c2, key2)) =>
    -- `TrustMarshalJSON` on a nil map
    let nilMap : Bool := frm = [] && rootIsDocNil h2 root
    if nilMap then .err .expectedObject else copyLink o root acc h2 val c2 key2

def opCopy (o : Opts) (s : St) (acc : Int) (op : Op) : Outcome (St × Int) :=
  match op.frm with
  | none => .err .missing
  | some frm =>
    -- the node to copy: the live root for `from = ""`
    let src : Outcome (Heap × Ptr) :=
      if frm = [] then
        (match s.h[s.root]? with
         | none => .panic
         | some c => if cellIsNull c then .err .invalid else .ok (s.h, some s.root))
      else
        match findObject o s.h s.root frm with
        | .panic => .panic
        | .err e => .err e
        | .ok (_, none) => .err .missing
        | .ok (h1, some (c, key)) =>
          match hGet o h1 c key with
          | .panic => .panic
          | .err e => .err e
          | .ok val => .ok (h1, val)
    match src with
    | .panic => .panic
    | .err e => .err e
    | .ok (h1, val) => copyTail o s.root acc op frm h1 val

def liftAcc (acc : Int) : Outcome St → Outcome (St × Int)
  | .ok s => .ok (s, acc)
  | .err e => .err e
  | .panic => .panic

def applyOp (o : Opts) (s : St) (acc : Int) (op : Op) : Outcome (St × Int) :=
  if op.kind = ascii "add" then liftAcc acc (opAdd o s op)
  else if op.kind = ascii "remove" then liftAcc acc (opRemove o s op)
  else if op.kind = ascii "replace" then liftAcc acc (opReplace o s op)
  else if op.kind = ascii "move" then liftAcc acc (opMove o s op)
  else if op.kind = ascii "test" then liftAcc acc (opTest o s op)
  else if op.kind = ascii "copy" then opCopy o s acc op
  else .err .other

def applyOps (o : Opts) : St → Int → List Op → Outcome St
  | s, _, [] => .ok s
  | s, acc, op :: ops =>
    match applyOp o s acc op with
    | .ok (s', acc') => applyOps o s' acc' ops
    | .err e => .err e
    | .panic => .panic

/-- the final `MarshalEscaped(pd, …)` -/
def marshalRoot (esc : Bool) (s : St) : Outcome Bytes :=
  match s.h[s.root]? with
  | none => .panic
  | some .docNil => .err .expectedObject
  | some .nilAry => .ok (ascii "null")
  | some _ =>
    match marshal esc s.h (fuelOf s.h) (some s.root) with
    | none => .panic            -- the recursion of `Marshal` does not return (D17)
    | some c => .ok (Cst.print c)

/-- `ApplyWithOptions(doc, options)` on an empty heap: the counterpart of `Impl.applyBytes o []` -/
def applyHeap (o : Opts) (doc : Bytes) (ops : List Op) : Outcome Bytes :=
  if doc = [] then .ok doc
  else if !Scanner.valid doc then .err .invalid
  else match parseCst doc with
    | none => .err .invalid
    | some c =>
      match newRoot [] c with
      | .panic => .panic
      | .err e => .err e
      | .ok s =>
        match applyOps o s 0 ops with
        | .panic => .panic
        | .err e => .err e
        | .ok s' => marshalRoot o.esc s'

end Heap
end JP
