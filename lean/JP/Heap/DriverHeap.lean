import JP.Heap.Model

/-!
# Driver helper: the heap model against the value model, case by case

Testing only: `JP.Props.C04heap.applyHeap_eq` is the theorem; until (and after) it is proved the
APPLY handler compares the two on every case and reports a difference as `corr=diff:heap`.
-/

namespace JP
namespace Heap

def sameOutcome : Impl.Outcome Bytes → Impl.Outcome Bytes → Bool
  | .ok a, .ok b => a == b
  | .err e, .err f => e == f
  | .panic, .panic => true
  | _, _ => false

/-- `applyHeap = Impl.applyBytes` on this case (true when the patch does not decode) -/
def heapAgrees (o : Impl.Opts) (doc patch : Bytes) : Bool :=
  match Impl.decodePatch patch with
  | .ok ops => sameOutcome (applyHeap o doc ops) (Impl.applyBytes o [] doc ops)
  | _ => true

/-- turn `corr=ok` of a reply line into `corr=diff:heap` when the heap model disagrees -/
def tagCorr (agrees : Bool) (line : String) : String :=
  if agrees then line else line.replace " corr=ok " " corr=diff:heap "

end Heap
end JP
