import JP.Heap.Model
import JP.Legacy.Apply

/-!
# A HEAP model of the LEGACY patch engine (`/patch.go`, root package)

The legacy value model (`JP.Legacy`) represents `*lazyNode` by immutable trees.  Here the same
engine is transcribed over the STORE of `JP.Heap.Model`: same addresses, same heap (`List Cell`,
allocation = push), same maps of pointers (`lookupP/setP/eraseP`), same decoder primitives
(`newChild/newChildren/newMembers`), same index arithmetic (`getIdx/setIdx/addIdx/removeIdx`
with `allow = false`).  The cells are the v5 cells read the legacy way:

* `.doc [] obj`  – `which = eDoc`, non-nil map.  `partialDoc` is a bare `map[string]*lazyNode`:
                   there is NO key list, the `keys` field is always `[]` and never read;
* `.docNil`      – `which = eDoc`, nil map (`json.Unmarshal("null", &n.doc)`);
* `.ary ps`      – `which = eAry`;
* `.raw c`       – `which = eRaw`, `raw ≠ nil`;
* `.nilAry`      – `&lazyNode{raw: nil, which: eRaw}` (`Legacy.Node.rawNil`): what `op.value()`
                   builds for `"value": null`.  (The v5 reading "nil `*partialArray`" does not
                   occur in the legacy package.)

What differs from the v5 transcription: `partialDoc.get` never fails (absent name = nil pointer),
`findObject` gives up on a nil pointer or a nil raw message, `intoDoc` of a raw `null` succeeds
with a nil map, no options (`neg`, `limit` are package variables), no `ensurePathExists`, every
`Path()` / `From()` error class of `Legacy.StrField`, marshalling through `encoding/json` (map
members sorted by name, HTML escaping always on), `copy` has no special case for `from = ""`.

`applyHeapL neg limit indent doc ops` is the counterpart of `Legacy.applyBytes`.
-/

namespace JP
namespace Heap
namespace Lg

open JP.Impl (Outcome Err)
open JP.Legacy (Op StrField ValField)

/-- the package variable `SupportNegativeIndices` as the options record the index arithmetic of
`JP.Heap` reads (`allow = false`: the legacy `remove` has no AllowMissingPathOnRemove) -/
def nopts (neg : Bool) : Impl.Opts := { neg := neg }

/-! ### `intoDoc`, `intoAry` (in place) -/

def cellIntoDoc (h : Heap) (a : Addr) : Cell → Outcome Heap
  | .doc _ _ => .ok h
  | .docNil => .ok h
  | .nilAry => .err .invalid
  | .ary _ => .err .other
  | .raw c =>
    match c with
    | .obj ms =>
      let r := newMembers h ms []
      .ok (r.1.set a (.doc [] r.2))
    | c => if c.isNullLit then .ok (h.set a .docNil) else .err .other

def cellIntoAry (h : Heap) (a : Addr) : Cell → Outcome Heap
  | .ary _ => .ok h
  | .nilAry => .err .invalid
  | .raw c =>
    match c with
    | .arr xs =>
      let r := newChildren h xs
      .ok (r.1.set a (.ary r.2))
    | _ => .err .other
  | _ => .err .other

def intoDoc (h : Heap) (p : Ptr) : Outcome Heap :=
  match p with
  | none => .panic
  | some a =>
    match h[a]? with
    | none => .panic
    | some c => cellIntoDoc h a c

def intoAry (h : Heap) (p : Ptr) : Outcome Heap :=
  match p with
  | none => .panic
  | some a =>
    match h[a]? with
    | none => .panic
    | some c => cellIntoAry h a c

/-- `isArray(*n.raw)` is `Heap.ptrIsArray` -/
def intoContainer (h : Heap) (p : Ptr) : Outcome Heap :=
  if ptrIsArray h p then intoAry h p else intoDoc h p

/-- `next.raw == nil` -/
def cellRawIsNil : Cell → Bool
  | .nilAry => true
  | _ => false

def ptrRawIsNil (h : Heap) (a : Addr) : Bool :=
  match h[a]? with
  | some c => cellRawIsNil c
  | none => false

/-! ### `container` methods on one cell -/

def cellGet (neg : Bool) (c : Cell) (key : Bytes) : Outcome Ptr :=
  match c with
  | .doc _ obj => .ok ((lookupP key obj).getD none)
  | .docNil => .ok none
  | .ary nodes =>
    match getIdx (nopts neg) nodes.length key with
    | .ok i =>
      (match nodes[i]? with
       | some p => .ok p
       | none => .err .invalidIndex)
    | .err e => .err e
    | .panic => .panic
  | _ => .panic

def cellSet (neg : Bool) (c : Cell) (key : Bytes) (val : Ptr) : Outcome Cell :=
  match c with
  | .doc _ obj => .ok (.doc [] (setP key val obj))
  | .docNil => .err .invalid
  | .ary nodes =>
    match setIdx (nopts neg) nodes.length key with
    | .ok i => .ok (.ary (Impl.listSet i val nodes))
    | .err e => .err e
    | .panic => .panic
  | _ => .panic

def cellAdd (neg : Bool) (c : Cell) (key : Bytes) (val : Ptr) : Outcome Cell :=
  match c with
  | .doc _ obj => .ok (.doc [] (setP key val obj))
  | .docNil => .err .invalid
  | .ary nodes =>
    match addIdx (nopts neg) nodes.length key with
    | .ok none => .ok (.ary (nodes ++ [val]))
    | .ok (some i) => .ok (.ary (Impl.listInsert i val nodes))
    | .err e => .err e
    | .panic => .panic
  | _ => .panic

def cellRemove (neg : Bool) (c : Cell) (key : Bytes) : Outcome Cell :=
  match c with
  | .doc _ obj =>
    match lookupP key obj with
    | none => .err .missing
    | some _ => .ok (.doc [] (eraseP key obj))
  | .docNil => .err .missing
  | .ary nodes =>
    match removeIdx (nopts neg) nodes.length key with
    | .ok none => .ok c
    | .ok (some i) => .ok (.ary (nodes.eraseIdx i))
    | .err e => .err e
    | .panic => .panic
  | _ => .panic

/-! ### the same methods through a container's address: ONE cell is rewritten -/

def hGet (neg : Bool) (h : Heap) (a : Addr) (key : Bytes) : Outcome Ptr :=
  match h[a]? with
  | none => .panic
  | some c => cellGet neg c key

def hSet (neg : Bool) (h : Heap) (a : Addr) (key : Bytes) (val : Ptr) : Outcome Heap :=
  match h[a]? with
  | none => .panic
  | some c => writeBack h a (cellSet neg c key val)

def hAdd (neg : Bool) (h : Heap) (a : Addr) (key : Bytes) (val : Ptr) : Outcome Heap :=
  match h[a]? with
  | none => .panic
  | some c => writeBack h a (cellAdd neg c key val)

def hRemove (neg : Bool) (h : Heap) (a : Addr) (key : Bytes) : Outcome Heap :=
  match h[a]? with
  | none => .panic
  | some c => writeBack h a (cellRemove neg c key)

/-! ### reading back: `json.Marshal` and the abstraction to `Legacy.Node` -/

def marshalCell (rec : Ptr → Option Cst) : Cell → Option Cst
  | .raw c => some (Cst.escape true c)
  | .doc _ obj =>
    match optMapM rec obj with
    | none => none
    | some ms => some (.obj ((Legacy.sortByName ms).map fun m => (Legacy.quoteBodyStd m.1, m.2)))
  | .ary ps =>
    match optMapL rec ps with
    | none => none
    | some xs => some (.arr xs)
  | .docNil => some Impl.litNull
  | .nilAry => some Impl.litNull

/-- `json.Marshal(node)` following pointers (`Legacy.cstOf`); `none` = out of fuel or a dangling
address -/
def marshal (h : Heap) : Nat → Ptr → Option Cst
  | _, none => some Impl.litNull
  | 0, some _ => none
  | fuel + 1, some a =>
    match h[a]? with
    | none => none
    | some c => marshalCell (fun p => marshal h fuel p) c

def absCell (rec : Ptr → Option Legacy.Node) : Cell → Option Legacy.Node
  | .raw c => some (.raw c)
  | .doc _ obj =>
    match optMapM rec obj with
    | none => none
    | some ms => some (.doc ms)
  | .ary ps =>
    match optMapL rec ps with
    | none => none
    | some ns => some (.ary ns)
  | .docNil => some .docNil
  | .nilAry => some .rawNil

/-- the legacy value a pointer stands for -/
def abs (h : Heap) : Nat → Ptr → Option Legacy.Node
  | _, none => some .nil
  | 0, some _ => none
  | fuel + 1, some a =>
    match h[a]? with
    | none => none
    | some c => absCell (fun p => abs h fuel p) c

/-- `deepCopy`: nil stays nil with size 0; otherwise ONE fresh raw cell holding the marshalled text -/
def hDeepCopy (h : Heap) (p : Ptr) : Outcome (Heap × Ptr × Nat) :=
  match p with
  | none => .ok (h, none, 0)
  | some a =>
    match marshal h (fuelOf h) (some a) with
    | none => .panic
    | some c => .ok (h ++ [.raw c], some h.length, (Cst.print c).length)

/-! ### `equal`: what a SUCCESSFUL comparison leaves behind (every visited container parsed) -/

mutual
/-- parse a raw message completely into cells (`Legacy.deepParseC`) -/
def buildC : Heap → Cst → Heap × Ptr
  | h, .lit s => if s = ascii "null" then (h, none) else (h ++ [.raw (.lit s)], some h.length)
  | h, .str b => (h ++ [.raw (.str b)], some h.length)
  | h, .arr xs =>
    let r := buildCL h xs
    (r.1 ++ [.ary r.2], some r.1.length)
  | h, .obj ms =>
    let r := buildCM h ms []
    (r.1 ++ [.doc [] r.2], some r.1.length)
def buildCL : Heap → List Cst → Heap × List Ptr
  | h, [] => (h, [])
  | h, x :: xs =>
    let r := buildC h x
    let r2 := buildCL r.1 xs
    (r2.1, r.2 :: r2.2)
def buildCM : Heap → List (Bytes × Cst) → PMembers → Heap × PMembers
  | h, [], acc => (h, acc)
  | h, (k, v) :: ms, acc =>
    let r := buildC h v
    buildCM r.1 ms (setP (unquote k) r.2 acc)
end

/-- `tryDoc` / `tryAry` all the way down on the raw cell at `a` -/
def parseRawAt (h : Heap) (a : Addr) : Cst → Heap
  | .arr xs =>
    let r := buildCL h xs
    r.1.set a (.ary r.2)
  | .obj ms =>
    let r := buildCM h ms []
    r.1.set a (.doc [] r.2)
  | _ => h

def deepParseCell (rec : Heap → Ptr → Heap) (h : Heap) (a : Addr) : Cell → Heap
  | .raw c => parseRawAt h a c
  | .doc _ obj => obj.foldl (fun h kp => rec h kp.2) h
  | .ary ps => ps.foldl rec h
  | _ => h

/-- `Legacy.deepParse`, in place -/
def deepParseH : Nat → Heap → Ptr → Heap
  | _, h, none => h
  | 0, h, some _ => h
  | fuel + 1, h, some a =>
    match h[a]? with
    | none => h
    | some c => deepParseCell (fun h p => deepParseH fuel h p) h a c

/-- `n.equal(op.value())` for the node at `p` (`Legacy.equalTo`): the verdict is the value model's
on the abstraction; on success against a value the visited part stays parsed, in place -/
def hEqualTo (h : Heap) (p : Ptr) (ov : ValField) : Outcome (Bool × Heap) :=
  match abs h (fuelOf h) p with
  | none => .panic
  | some n =>
    match ov with
    | .val c => if Legacy.eqNC n c then .ok (true, deepParseH (fuelOf h) h p) else .ok (false, h)
    | _ => .ok (Legacy.isNullN n, h)

/-! ### `findObject` -/

/-- the loop of `findObject`: descend from the container at `a`, parsing IN PLACE; `some c` is the
ADDRESS of the container reached, `none` is the nil container (`next == nil || ok != nil ||
next.raw == nil`, or `intoAry` / `intoDoc` failed) -/
def find (neg : Bool) : Heap → Addr → List Bytes → Outcome (Heap × Option Addr)
  | h, a, [] => .ok (h, some a)
  | h, a, part :: rest =>
    match hGet neg h a (decodeToken part) with
    | .panic => .panic
    | .err _ => .ok (h, none)
    | .ok none => .ok (h, none)
    | .ok (some b) =>
      if ptrRawIsNil h b then .ok (h, none) else
      match intoContainer h (some b) with
      | .panic => .panic
      | .err _ => .ok (h, none)
      | .ok h' => find neg h' b rest

/-- `findObject(doc, path)`: heap after the lazy parsing on the way, container address, key -/
def findObject (neg : Bool) (h : Heap) (root : Addr) (path : Bytes) : Outcome (Heap × Option (Addr × Bytes)) :=
  match Legacy.splitPath path with
  | none => .ok (h, none)
  | some (parts, key) =>
    match find neg h root parts with
    | .panic => .panic
    | .err e => .err e
    | .ok (h', none) => .ok (h', none)
    | .ok (h', some c) => .ok (h', some (c, key))

/-! ### the operations: state = heap + address of the root container (`*doc`) -/

/-- `op.value()`: a fresh node per call; nil when the member is absent, a node with a nil raw
message for `"value": null` -/
def newValue (h : Heap) (op : Op) : Heap × Ptr :=
  match op.value with
  | .absent => (h, none)
  | .null => (h ++ [.nilAry], some h.length)
  | .val c => (h ++ [.raw c], some h.length)

/-- `findObject` + `con.add(key, op.value())` -/
def addAt (neg : Bool) (s : St) (path : Bytes) (op : Op) : Outcome St :=
  match findObject neg s.h s.root path with
  | .panic => .panic
  | .err e => .err e
  | .ok (_, none) => .err .missing
  | .ok (h2, some (c, key)) =>
    let v := newValue h2 op
    liftHeap s.root (hAdd neg v.1 c key v.2)

def opAdd (neg : Bool) (s : St) (op : Op) : Outcome St :=
  match op.path with
  | .ok path => addAt neg s path op
  | _ => .err .missing

def removeAt (neg : Bool) (s : St) (path : Bytes) : Outcome St :=
  match findObject neg s.h s.root path with
  | .panic => .panic
  | .err e => .err e
  | .ok (_, none) => .err .missing
  | .ok (h1, some (c, key)) => liftHeap s.root (hRemove neg h1 c key)

def opRemove (neg : Bool) (s : St) (op : Op) : Outcome St :=
  match op.path with
  | .ok path => removeAt neg s path
  | _ => .err .missing

/-- `replace` with `path = ""`: `tryDoc` / `tryAry` on the fresh value node, `*doc = &val.doc` -/
def replaceRoot (h : Heap) : ValField → Outcome St
  | .absent => .err .missing
  | .null => .err .other
  | .val c =>
    match c with
    | .obj ms => let r := newMembers h ms []; .ok ⟨r.1 ++ [.doc [] r.2], r.1.length⟩
    | .arr xs => let r := newChildren h xs; .ok ⟨r.1 ++ [.ary r.2], r.1.length⟩
    | _ => .err .other

def replaceAt (neg : Bool) (s : St) (path : Bytes) (op : Op) : Outcome St :=
  match findObject neg s.h s.root path with
  | .panic => .panic
  | .err e => .err e
  | .ok (_, none) => .err .missing
  | .ok (h1, some (c, key)) =>
    match hGet neg h1 c key with
    | .panic => .panic
    | .err _ => .err .missing
    | .ok _ =>
      let v := newValue h1 op
      liftHeap s.root (hSet neg v.1 c key v.2)

def opReplace (neg : Bool) (s : St) (op : Op) : Outcome St :=
  match op.path with
  | .missing => .err .missing
  | .bad => .err .other
  | .ok path => if path = [] then replaceRoot s.h op.value else replaceAt neg s path op

/-- the second half of `move`: `Path()`, `findObject`, `con.add(key, val)` with THE SAME pointer -/
def moveLink (neg : Bool) (root : Addr) (h2 : Heap) (val : Ptr) (op : Op) : Outcome St :=
  match op.path with
  | .missing => .err .missing
  | .bad => .err .other
  | .ok path =>
    match findObject neg h2 root path with
    | .panic => .panic
    | .err e => .err e
    | .ok (_, none) => .err .missing
    | .ok (h3, some (c2, key2)) => liftHeap root (hAdd neg h3 c2 key2 val)

def moveFrom (neg : Bool) (s : St) (frm : Bytes) (op : Op) : Outcome St :=
  match findObject neg s.h s.root frm with
  | .panic => .panic
  | .err e => .err e
  | .ok (_, none) => .err .missing
  | .ok (h1, some (c, key)) =>
    match hGet neg h1 c key with
    | .panic => .panic
    | .err e => .err e
    | .ok val =>
      match hRemove neg h1 c key with
      | .panic => .panic
      | .err e => .err e
      | .ok h2 => moveLink neg s.root h2 val op

def opMove (neg : Bool) (s : St) (op : Op) : Outcome St :=
  match op.frm with
  | .missing => .err .missing
  | .bad => .err .other
  | .ok frm => moveFrom neg s frm op

def testVerdict : Outcome (Bool × Heap) → Addr → Outcome St
  | .panic, _ => .panic
  | .err e, _ => .err e
  | .ok (b, h'), root => if b then .ok ⟨h', root⟩ else .err .testFailed

def testAt (neg : Bool) (s : St) (path : Bytes) (op : Op) : Outcome St :=
  match findObject neg s.h s.root path with
  | .panic => .panic
  | .err e => .err e
  | .ok (_, none) => .err .missing
  | .ok (h1, some (c, key)) =>
    match hGet neg h1 c key with
    | .panic => .panic
    | .err e => .err e
    | .ok none =>
      (match op.value with
       | .val _ => .err .testFailed
       | _ => .ok ⟨h1, s.root⟩)
    | .ok (some b) =>
      match op.value with
      | .absent => .err .testFailed
      | ov => testVerdict (hEqualTo h1 (some b) ov) s.root

def opTest (neg : Bool) (s : St) (op : Op) : Outcome St :=
  match op.path with
  | .missing => .err .missing
  | .bad => .err .other
  | .ok path =>
    if path = [] then testVerdict (hEqualTo s.h (some s.root) op.value) s.root
    else testAt neg s path op

/-- the end of `copy`: marshal the source AS IT IS NOW into one fresh raw cell, check the
accumulated size, link the copy into the destination container `c2` -/
def copyLink (neg : Bool) (limit : Int) (root : Addr) (acc : Int) (h2 : Heap) (val : Ptr) (c2 : Addr)
    (key2 : Bytes) : Outcome (St × Int) :=
  match hDeepCopy h2 val with
  | .panic => .panic
  | .err e => .err e
  | .ok (h3, cp, sz) =>
    let acc' := acc + sz
    if limit > 0 ∧ acc' > limit then .err .copySize
    else
      match hAdd neg h3 c2 key2 cp with
      | .ok h4 => .ok (⟨h4, root⟩, acc')
      | .err e => .err e
      | .panic => .panic

/-- `copy` after the source pointer `val` is in hand (the Go code keeps it across the second
`findObject`) -/
def copyTail (neg : Bool) (limit : Int) (root : Addr) (acc : Int) (op : Op) (h1 : Heap) (val : Ptr) :
    Outcome (St × Int) :=
  match op.path with
  | .ok path =>
    (match findObject neg h1 root path with
     | .panic => .panic
     | .err e => .err e
     | .ok (_, none) => .err .missing
     | .ok (h2, some (c2, key2)) => copyLink neg limit root acc h2 val c2 key2)
  | _ => .err .missing

def copyFrom (neg : Bool) (limit : Int) (s : St) (acc : Int) (frm : Bytes) (op : Op) : Outcome (St × Int) :=
  match findObject neg s.h s.root frm with
  | .panic => .panic
  | .err e => .err e
  | .ok (_, none) => .err .missing
  | .ok (h1, some (c, key)) =>
    match hGet neg h1 c key with
    | .panic => .panic
    | .err e => .err e
    | .ok val => copyTail neg limit s.root acc op h1 val

def opCopy (neg : Bool) (limit : Int) (s : St) (acc : Int) (op : Op) : Outcome (St × Int) :=
  match op.frm with
  | .missing => .err .missing
  | .bad => .err .other
  | .ok frm => copyFrom neg limit s acc frm op

def applyOp (neg : Bool) (limit : Int) (s : St) (acc : Int) (op : Op) : Outcome (St × Int) :=
  if op.kind = ascii "add" then liftAcc acc (opAdd neg s op)
  else if op.kind = ascii "remove" then liftAcc acc (opRemove neg s op)
  else if op.kind = ascii "replace" then liftAcc acc (opReplace neg s op)
  else if op.kind = ascii "move" then liftAcc acc (opMove neg s op)
  else if op.kind = ascii "test" then liftAcc acc (opTest neg s op)
  else if op.kind = ascii "copy" then opCopy neg limit s acc op
  else .err .other

def applyOps (neg : Bool) (limit : Int) : St → Int → List Op → Outcome St
  | s, _, [] => .ok s
  | s, acc, op :: ops =>
    match applyOp neg limit s acc op with
    | .ok (s', acc') => applyOps neg limit s' acc' ops
    | .err e => .err e
    | .panic => .panic

/-- the root container a syntax tree decodes to, given whether the text starts with `[` -/
def newRootOf (h : Heap) (isAry : Bool) (c : Cst) : Outcome St :=
  if isAry then
    match c with
    | .arr xs => let r := newChildren h xs; .ok ⟨r.1 ++ [.ary r.2], r.1.length⟩
    | _ => .err .other
  else
    match c with
    | .obj ms => let r := newMembers h ms []; .ok ⟨r.1 ++ [.doc [] r.2], r.1.length⟩
    | c => if c.isNullLit then .ok ⟨h ++ [.docNil], h.length⟩ else .err .other

def startsWithBracket : Bytes → Bool
  | 91 :: _ => true
  | _ => false

/-- `json.Unmarshal(doc, pd)` into a NEW root container (`Legacy.decodeRoot`) -/
def newRoot (h : Heap) (doc : Bytes) : Outcome St :=
  match parseCst doc with
  | none => .err .other
  | some c => newRootOf h (startsWithBracket (skipWs doc)) c

/-- the final `json.Marshal(pd)` -/
def marshalRoot (s : St) : Outcome Bytes :=
  match marshal s.h (fuelOf s.h) (some s.root) with
  | none => .panic            -- the recursion of `Marshal` would not return
  | some c => .ok (Cst.print c)

/-- `ApplyIndent(doc, indent)` on an empty heap: the counterpart of `Legacy.applyBytes` -/
def applyHeapL (neg : Bool) (limit : Int) (indent : Bytes) (doc : Bytes) (ops : List Op) : Outcome Bytes :=
  if doc = [] then .ok doc
  else
    match newRoot [] doc with
    | .panic => .panic
    | .err e => .err e
    | .ok s =>
      match applyOps neg limit s 0 ops with
      | .panic => .panic
      | .err e => .err e
      | .ok s' =>
        match marshalRoot s' with
        | .panic => .panic
        | .err e => .err e
        | .ok data =>
          if indent = [] then .ok data
          else .ok ((Scanner.indent indent data).getD [])

end Lg
end Heap
end JP
