import JP.Text
import JP.Value

/-!
# Concrete syntax trees and the RFC 8259 reference parser

`Cst` keeps every spelling the library can observe (number literals, string bodies with
their escapes, member order, duplicate members) and drops only insignificant
whitespace.  `parseCst` is a recursive-descent transcription of the RFC 8259 grammar
with the nesting limit of the embedded codec; it is the formal meaning of
"well-formed" and, through `valueOf`, of "the value a text denotes".
-/

namespace JP

inductive Cst where
  | lit (s : Bytes)                      -- true / false / null / a number literal, verbatim
  | str (body : Bytes)                   -- the bytes between the quotes, escapes untouched
  | arr (xs : List Cst)
  | obj (ms : List (Bytes × Cst))        -- member = (key body, value)
  deriving Repr, Inhabited

namespace Cst

def isArr : Cst → Bool
  | .arr _ => true
  | _ => false

def isObj : Cst → Bool
  | .obj _ => true
  | _ => false

def isNullLit : Cst → Bool
  | .lit s => s == ascii "null"
  | _ => false

/-! ### printing (compact text) -/
mutual
def print : Cst → Bytes
  | .lit s => s
  | .str b => 34 :: b ++ [34]
  | .arr xs => 91 :: printL xs ++ [93]
  | .obj ms => 123 :: printM ms ++ [125]
def printL : List Cst → Bytes
  | [] => []
  | [x] => print x
  | x :: y :: xs => print x ++ 44 :: printL (y :: xs)
def printM : List (Bytes × Cst) → Bytes
  | [] => []
  | [(k, v)] => 34 :: k ++ 34 :: 58 :: print v
  | (k, v) :: m :: ms => 34 :: k ++ 34 :: 58 :: print v ++ 44 :: printM (m :: ms)
end

/-! ### what `compact(escape)` does to the string bodies -/
mutual
def escape (e : Bool) : Cst → Cst
  | .lit s => .lit s
  | .str b => .str (if e then escBody b else b)
  | .arr xs => .arr (escapeL e xs)
  | .obj ms => .obj (escapeM e ms)
def escapeL (e : Bool) : List Cst → List Cst
  | [] => []
  | x :: xs => escape e x :: escapeL e xs
def escapeM (e : Bool) : List (Bytes × Cst) → List (Bytes × Cst)
  | [] => []
  | (k, v) :: ms => ((if e then escBody k else k), escape e v) :: escapeM e ms
end

/-! ### the value denoted -/
def litValue (s : Bytes) : Value :=
  if s = ascii "null" then .null
  else if s = ascii "true" then .bool true
  else if s = ascii "false" then .bool false
  else .num s

mutual
def valueOf : Cst → Value
  | .lit s => litValue s
  | .str b => .str (unquote b)
  | .arr xs => .arr (valueOfL xs)
  | .obj ms => .obj (valueOfM ms)
def valueOfL : List Cst → List Value
  | [] => []
  | x :: xs => valueOf x :: valueOfL xs
def valueOfM : List (Bytes × Cst) → Value.Members
  | [] => []
  | (k, v) :: ms => (unquote k, valueOf v) :: valueOfM ms
end

mutual
def depth : Cst → Nat
  | .arr xs => 1 + depthL xs
  | .obj ms => 1 + depthM ms
  | _ => 0
def depthL : List Cst → Nat
  | [] => 0
  | x :: xs => max (depth x) (depthL xs)
def depthM : List (Bytes × Cst) → Nat
  | [] => 0
  | (_, v) :: ms => max (depth v) (depthM ms)
end

end Cst

/-! ## The reference parser -/

def maxDepth : Nat := 10000

def isWs (c : UInt8) : Bool := c = 32 || c = 9 || c = 13 || c = 10

def skipWs : Bytes → Bytes
  | [] => []
  | c :: cs => if isWs c then skipWs cs else c :: cs

def isHex (c : UInt8) : Bool := (hexVal c).isSome

/-- after the opening quote: the body up to the closing quote, and the rest -/
def parseStrBody : Bytes → Option (Bytes × Bytes)
  | [] => none
  | c :: cs =>
    if c = 34 then some ([], cs)
    else if c = 92 then
      match cs with
      | [] => none
      | e :: cs' =>
        if e = 34 ∨ e = 92 ∨ e = 47 ∨ e = 98 ∨ e = 102 ∨ e = 110 ∨ e = 114 ∨ e = 116 then
          (parseStrBody cs').map fun (b, r) => (92 :: e :: b, r)
        else if e = 117 then
          match cs' with
          | h1 :: h2 :: h3 :: h4 :: cs'' =>
            if isHex h1 && isHex h2 && isHex h3 && isHex h4 then
              (parseStrBody cs'').map fun (b, r) => (92 :: 117 :: h1 :: h2 :: h3 :: h4 :: b, r)
            else none
          | _ => none
        else none
    else if c.toNat < 32 then none
    else (parseStrBody cs).map fun (b, r) => (c :: b, r)

def takeDigits : Bytes → Bytes × Bytes
  | [] => ([], [])
  | c :: cs => if isDigit c then let (d, r) := takeDigits cs; (c :: d, r) else ([], c :: cs)

/-- RFC 8259 number: `-? (0 | [1-9][0-9]*) (. [0-9]+)? ([eE] [+-]? [0-9]+)?` -/
def parseNumber (bs : Bytes) : Option (Bytes × Bytes) :=
  let (sign, r0) : Bytes × Bytes := match bs with
    | 45 :: r => ([45], r)
    | r => ([], r)
  let intPart : Option (Bytes × Bytes) := match r0 with
    | 48 :: r => some ([48], r)
    | c :: r => if isDigit c then let (d, r') := takeDigits r; some (c :: d, r') else none
    | [] => none
  match intPart with
  | none => none
  | some (ip, r1) =>
    let fracPart : Option (Bytes × Bytes) := match r1 with
      | 46 :: r => let (d, r') := takeDigits r; if d.isEmpty then none else some (46 :: d, r')
      | r => some ([], r)
    match fracPart with
    | none => none
    | some (fp, r2) =>
      let expPart : Option (Bytes × Bytes) := match r2 with
        | e :: r =>
          if e = 101 ∨ e = 69 then
            let (sg, r') : Bytes × Bytes := match r with
              | 43 :: r' => ([43], r')
              | 45 :: r' => ([45], r')
              | r' => ([], r')
            let (d, r'') := takeDigits r'
            if d.isEmpty then none else some (e :: sg ++ d, r'')
          else some ([], e :: r)
        | [] => some ([], [])
      match expPart with
      | none => none
      | some (ep, r3) => some (sign ++ ip ++ fp ++ ep, r3)

def parseLit (word : Bytes) (bs : Bytes) : Option (Cst × Bytes) :=
  if isPrefix word bs then some (.lit word, bs.drop word.length) else none

mutual
/-- `d` = number of containers currently open -/
def parseValue : Nat → Nat → Bytes → Option (Cst × Bytes)
  | 0, _, _ => none
  | fuel + 1, d, bs =>
    match bs with
    | [] => none
    | c :: cs =>
      if c = 123 then
        if d + 1 > maxDepth then none else
        match skipWs cs with
        | 125 :: r => some (.obj [], r)
        | r => (parseMembers fuel (d + 1) r).map fun (ms, r') => (.obj ms, r')
      else if c = 91 then
        if d + 1 > maxDepth then none else
        match skipWs cs with
        | 93 :: r => some (.arr [], r)
        | r => (parseElems fuel (d + 1) r).map fun (xs, r') => (.arr xs, r')
      else if c = 34 then (parseStrBody cs).map fun (b, r) => (.str b, r)
      else if c = 116 then parseLit (ascii "true") bs
      else if c = 102 then parseLit (ascii "false") bs
      else if c = 110 then parseLit (ascii "null") bs
      else (parseNumber bs).map fun (l, r) => (.lit l, r)
/-- elements of a non-empty array, input positioned at the first element -/
def parseElems : Nat → Nat → Bytes → Option (List Cst × Bytes)
  | 0, _, _ => none
  | fuel + 1, d, bs =>
    match parseValue fuel d bs with
    | none => none
    | some (x, r) =>
      match skipWs r with
      | 93 :: r' => some ([x], r')
      | 44 :: r' => (parseElems fuel d (skipWs r')).map fun (xs, r'') => (x :: xs, r'')
      | _ => none
/-- members of a non-empty object, input positioned at the first key's quote -/
def parseMembers : Nat → Nat → Bytes → Option (List (Bytes × Cst) × Bytes)
  | 0, _, _ => none
  | fuel + 1, d, bs =>
    match bs with
    | 34 :: cs =>
      match parseStrBody cs with
      | none => none
      | some (k, r) =>
        match skipWs r with
        | 58 :: r1 =>
          match parseValue fuel d (skipWs r1) with
          | none => none
          | some (v, r2) =>
            match skipWs r2 with
            | 125 :: r3 => some ([(k, v)], r3)
            | 44 :: r3 => (parseMembers fuel d (skipWs r3)).map fun (ms, r4) => ((k, v) :: ms, r4)
            | _ => none
        | _ => none
    | _ => none
end

/-- one JSON text: optional whitespace, one value, optional whitespace -/
def parseCst (bs : Bytes) : Option Cst :=
  match parseValue (bs.length + 1) 0 (skipWs bs) with
  | some (c, r) => if (skipWs r).isEmpty then some c else none
  | none => none

def parseValueOf (bs : Bytes) : Option Value := (parseCst bs).map Cst.valueOf

end JP
