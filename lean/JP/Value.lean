import JP.Basic

/-!
# JSON values

One ordered value type for every specification.  Numbers are their literal text,
strings and member names are the decoded bytes, objects are ordered association
lists (duplicates representable; `noDup` is the explicit hereditary predicate).
-/

namespace JP

inductive Value where
  | null
  | bool (b : Bool)
  | num (lit : Bytes)
  | str (s : Bytes)
  | arr (xs : List Value)
  | obj (ms : List (Bytes × Value))
  deriving Repr, Inhabited

namespace Value

abbrev Members := List (Bytes × Value)

def lookup (k : Bytes) : Members → Option Value
  | [] => none
  | (k', v) :: ms => if k' = k then some v else lookup k ms

def erase (k : Bytes) : Members → Members
  | [] => []
  | (k', v) :: ms => if k' = k then erase k ms else (k', v) :: erase k ms

/-- replace in place if present, else append -/
def set (k : Bytes) (v : Value) : Members → Members
  | [] => [(k, v)]
  | (k', v') :: ms => if k' = k then (k, v) :: ms else (k', v') :: set k v ms

def keys (ms : Members) : List Bytes := ms.map Prod.fst

def isObj : Value → Bool
  | .obj _ => true
  | _ => false

def isArr : Value → Bool
  | .arr _ => true
  | _ => false

def isNull : Value → Bool
  | .null => true
  | _ => false

def isContainer (v : Value) : Bool := v.isObj || v.isArr

/-! ### exact (ordered) equality -/
mutual
def beq : Value → Value → Bool
  | .null, b => (match b with | .null => true | _ => false)
  | .bool x, b => (match b with | .bool y => x == y | _ => false)
  | .num x, b => (match b with | .num y => x == y | _ => false)
  | .str x, b => (match b with | .str y => x == y | _ => false)
  | .arr xs, b => (match b with | .arr ys => beqL xs ys | _ => false)
  | .obj xs, b => (match b with | .obj ys => beqM xs ys | _ => false)
def beqL : List Value → List Value → Bool
  | [], ys => ys.isEmpty
  | x :: xs, ys => (match ys with | y :: ys' => beq x y && beqL xs ys' | [] => false)
def beqM : Members → Members → Bool
  | [], ys => ys.isEmpty
  | (k, v) :: xs, ys => (match ys with | (k', w) :: ys' => k == k' && beq v w && beqM xs ys' | [] => false)
end

/-! ### structural (order-insensitive) equality: same kind; arrays pointwise; objects:
every member of the left has an equal partner under the same name on the right and every
name of the right occurs on the left; numbers by literal; strings by decoded bytes. -/
def subKeys (ys xs : Members) : Bool :=
  ys.all fun m => (lookup m.1 xs).isSome

mutual
def eqv : Value → Value → Bool
  | .null, b => (match b with | .null => true | _ => false)
  | .bool x, b => (match b with | .bool y => x == y | _ => false)
  | .num x, b => (match b with | .num y => x == y | _ => false)
  | .str x, b => (match b with | .str y => x == y | _ => false)
  | .arr xs, b => (match b with | .arr ys => eqvL xs ys | _ => false)
  | .obj xs, b => (match b with | .obj ys => eqvM xs ys && subKeys ys xs | _ => false)
def eqvL : List Value → List Value → Bool
  | [], ys => ys.isEmpty
  | x :: xs, ys => (match ys with | y :: ys' => eqv x y && eqvL xs ys' | [] => false)
def eqvM : Members → Members → Bool
  | [], _ => true
  | (k, v) :: xs, ys => (match lookup k ys with | some w => eqv v w | none => false) && eqvM xs ys
end

/-! ### duplicate-free member names, hereditarily -/
def nodupKeys : List Bytes → Bool
  | [] => true
  | k :: ks => !ks.contains k && nodupKeys ks

mutual
def noDup : Value → Bool
  | .arr xs => noDupL xs
  | .obj ms => nodupKeys (ms.map Prod.fst) && noDupM ms
  | _ => true
def noDupL : List Value → Bool
  | [] => true
  | x :: xs => noDup x && noDupL xs
def noDupM : Members → Bool
  | [] => true
  | (_, v) :: ms => noDup v && noDupM ms
end

/-! ### misc traversals used by property predicates -/
mutual
/-- all number literals, in document order -/
def numLits : Value → List Bytes
  | .num l => [l]
  | .arr xs => numLitsL xs
  | .obj ms => numLitsM ms
  | _ => []
def numLitsL : List Value → List Bytes
  | [] => []
  | x :: xs => numLits x ++ numLitsL xs
def numLitsM : Members → List Bytes
  | [] => []
  | (_, v) :: ms => numLits v ++ numLitsM ms
end

mutual
/-- an object member with value null anywhere (through objects and arrays) -/
def hasNullMember : Value → Bool
  | .arr xs => hasNullMemberL xs
  | .obj ms => hasNullMemberM ms
  | _ => false
def hasNullMemberL : List Value → Bool
  | [] => false
  | x :: xs => hasNullMember x || hasNullMemberL xs
def hasNullMemberM : Members → Bool
  | [] => false
  | (_, v) :: ms => v.isNull || hasNullMember v || hasNullMemberM ms
end

mutual
def size : Value → Nat
  | .arr xs => 1 + sizeL xs
  | .obj ms => 1 + sizeM ms
  | _ => 1
def sizeL : List Value → Nat
  | [] => 0
  | x :: xs => size x + sizeL xs
def sizeM : Members → Nat
  | [] => 0
  | (_, v) :: ms => size v + sizeM ms
end

end Value
end JP
