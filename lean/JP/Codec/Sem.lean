import JP.Codec.Decode
import JP.Cst

/-!
# What the decoder yields on a well-formed text, as a function of the parse tree

`sem c t`: the decoded value for target type `t` when the text parses to `c`, with every
captured raw message given by its parse tree (`DView`); `bad c t`: some `UnmarshalTypeError` is
saved on the way; `keysAfter c t lk`: `lastKeys` afterwards.  `view` maps a decoder result to the
same representation by re-parsing each captured raw text with the reference parser.
These are specification functions: the theorems of `JP/Props/C17decode.lean` state that the
transcribed decoder computes them.
-/

namespace JP
namespace Codec

abbrev DView := DValG (Option Cst)

mutual
def mapRaw {ρ σ : Type} (f : ρ → σ) : DValG ρ → DValG σ
  | .rawText x => .rawText (f x)
  | .nilPtr => .nilPtr
  | .str s => .str s
  | .num l => .num l
  | .bool b => .bool b
  | .null => .null
  | .list xs => .list (mapRawL f xs)
  | .nilSlice => .nilSlice
  | .map ms => .map (mapRawM f ms)
  | .nilMap => .nilMap
def mapRawL {ρ σ : Type} (f : ρ → σ) : List (DValG ρ) → List (DValG σ)
  | [] => []
  | x :: xs => mapRaw f x :: mapRawL f xs
def mapRawM {ρ σ : Type} (f : ρ → σ) : DMembersG ρ → DMembersG σ
  | [] => []
  | (k, v) :: ms => (k, mapRaw f v) :: mapRawM f ms
end

/-- a decoder result with each captured raw text re-parsed -/
def view (v : DVal) : DView := mapRaw parseCst v

def nullLit : Bytes := ascii "null"

def semLit (s : Bytes) : Target → DView
  | .raw p => if p && s = nullLit then .nilPtr else .rawText (some (.lit s))
  | .any =>
    if s = nullLit then .null
    else if s = ascii "true" then .bool true
    else if s = ascii "false" then .bool false
    else .num s
  | t => zeroG none t

def semStr (b : Bytes) : Target → DView
  | .raw _ => .rawText (some (.str b))
  | .any => .str (unquote b)
  | .str => .str (unquote b)
  | t => zeroG none t

mutual
def sem : Cst → Target → DView
  | .lit s, t => semLit s t
  | .str b, t => semStr b t
  | .arr xs, t =>
    match t with
    | .raw _ => .rawText (some (.arr xs))
    | .any => .list (semL xs .any)
    | .sliceOf e => .list (semL xs e)
    | t => zeroG none t
  | .obj ms, t =>
    match t with
    | .raw _ => .rawText (some (.obj ms))
    | .any => .map (semM ms .any [])
    | .mapOf e => .map (semM ms e [])
    | t => zeroG none t
def semL : List Cst → Target → List DView
  | [], _ => []
  | x :: xs, t => sem x t :: semL xs t
def semM : List (Bytes × Cst) → Target → DMembersG (Option Cst) → DMembersG (Option Cst)
  | [], _, acc => acc
  | (k, v) :: ms, t, acc => semM ms t (setD (unquote k) (sem v t) acc)
end

mutual
/-- an `UnmarshalTypeError` is saved while decoding a text with tree `c` into `t` -/
def bad : Cst → Target → Bool
  | .lit s, t =>
    (match t with
     | .raw _ => false
     | .any => false
     | _ => s != nullLit)
  | .str _, t =>
    (match t with
     | .raw _ => false
     | .any => false
     | .str => false
     | _ => true)
  | .arr xs, t =>
    (match t with
     | .raw _ => false
     | .any => false
     | .sliceOf e => badL xs e
     | _ => true)
  | .obj ms, t =>
    (match t with
     | .raw _ => false
     | .any => false
     | .mapOf e => badM ms e
     | _ => true)
def badL : List Cst → Target → Bool
  | [], _ => false
  | x :: xs, t => bad x t || badL xs t
def badM : List (Bytes × Cst) → Target → Bool
  | [], _ => false
  | (_, v) :: ms, t => bad v t || badM ms t
end

mutual
/-- `d.lastKeys` after decoding: `object()` on a map target assigns the key list when it returns -/
def keysAfter : Cst → Target → List Bytes → List Bytes
  | .arr xs, t, lk =>
    (match t with
     | .sliceOf e => keysAfterL xs e lk
     | _ => lk)
  | .obj ms, t, lk =>
    (match t with
     | .mapOf _ => ms.map fun m => unquote m.1
     | _ => lk)
  | _, _, lk => lk
def keysAfterL : List Cst → Target → List Bytes → List Bytes
  | [], _, lk => lk
  | x :: xs, t, lk => keysAfterL xs t (keysAfter x t lk)
end

/-- `lastKeys` while the members of an object are decoded into a map with element type `t` -/
def keysAfterM : List (Bytes × Cst) → Target → List Bytes → List Bytes
  | [], _, lk => lk
  | (_, v) :: ms, t, lk => keysAfterM ms t (keysAfter v t lk)

end Codec
end JP
