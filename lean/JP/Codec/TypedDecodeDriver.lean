import JP.Codec.TypedDecode
import JP.Codec.TypedWire
import JP.Cst

/-!
# Line protocol of the stream `typeddec` (`harness/typeddec.go`)

    CODEC <id> typeddec <class a|b|c> <type> <text> => ok:<value> <err> std:<same|value|error|skip> rt:<same|diff|na>
    CODEC <id> typeddec <class> <type> <text> => panic - std:<…> rt:na

`<type>`, `<text>`, `<value>` are hex; type and value in the wire format of `TypedWire.lean`.  `<value>`
is what the target holds after the fork's `Unmarshal(text, &x)` (`x` fresh, of the type), `<err>` the class
of the error returned: `none | syntax | type:<json kind>@<offset> | other`.  `std` = the same call of
`encoding/json` (value and error class).  `rt` (class `a`: the text is the fork's own `Marshal` of a value
of the type, and decoding gave no error) = whether `Marshal` of the decoded value gives the text again.

C17 verdict clauses: `typeddec-decoder-differs` (the model computes another value / error / rt),
`typeddec-std` (fork ≠ standard library), `typeddec-roundtrip` (class `a`, no `interface{}` and no pointer to a nilable type in the type, no
`�` in the text, no error: re-encoding must give the same bytes).
-/

namespace JP
namespace Codec
namespace TDec

open JP.Codec.Typed

def wInt (i : Int) : Bytes := (if i < 0 then 45 :: natDigits i.natAbs else natDigits i.natAbs) ++ [59]

def wStr (s : Bytes) : Bytes := natDigits s.length ++ 58 :: s

def wIntKind : IntKind → UInt8
  | .int => 48 | .int8 => 49 | .int16 => 50 | .int32 => 51 | .int64 => 52

def wUintKind : UintKind → UInt8
  | .uint => 48 | .uint8 => 49 | .uint16 => 50 | .uint32 => 51 | .uint64 => 52

def wKeyType : KeyType → Bytes
  | .str => [115]
  | .int k => [105, wIntKind k]
  | .uint k => [117, wUintKind k]

mutual
def renderType : GoType → Bytes
  | .bool => [98]
  | .int k => [105, wIntKind k]
  | .uint k => [117, wUintKind k]
  | .string => [115]
  | .number => [110]
  | .slice e => 108 :: renderType e
  | .array n e => 97 :: natDigits n ++ 58 :: renderType e
  | .map k e => 109 :: wKeyType k ++ renderType e
  | .ptr e => 112 :: renderType e
  | .iface => [101]
  | .struct name fs => 83 :: wStr name ++ natDigits fs.length ++ 58 :: renderFields fs
def renderFields : List (FieldInfo × GoType) → Bytes
  | [] => []
  | (i, t) :: r =>
    UInt8.ofNat (48 + (if i.anonymous then 1 else 0) + (if i.exported then 2 else 0)) :: wStr i.name ++ wStr i.tag
      ++ renderType t ++ renderFields r
end

def wKey : MapKey → Bytes
  | .str s => 115 :: wStr s
  | .int n => 105 :: wInt n
  | .uint n => 117 :: wInt n

mutual
def renderVal : GoVal → Bytes
  | .nil => [122]
  | .bool b => if b then [116] else [102]
  | .int n => 105 :: wInt n
  | .uint n => 117 :: wInt n
  | .str s => 115 :: wStr s
  | .bytes b => 121 :: wStr b
  | .list xs => 108 :: natDigits xs.length ++ 58 :: renderVals xs
  | .map ms => 109 :: natDigits ms.length ++ 58 :: renderEntries ms
  | .ptr v => 112 :: renderVal v
  | .iface t v => 101 :: renderType t ++ renderVal v
  | .struct fs => 83 :: natDigits fs.length ++ 58 :: renderVals fs
def renderVals : List GoVal → Bytes
  | [] => []
  | x :: xs => renderVal x ++ renderVals xs
def renderEntries : List (MapKey × GoVal) → Bytes
  | [] => []
  | (k, v) :: ms => wKey k ++ renderVal v ++ renderEntries ms
end

def lookupKey (k : MapKey) : List (MapKey × GoVal) → Option GoVal
  | [] => none
  | (k', v) :: ms => if k' = k then some v else lookupKey k ms

mutual
/-- equality of Go values: maps as sets of entries -/
def eqVal : GoVal → GoVal → Bool
  | .nil, b => (match b with | .nil => true | _ => false)
  | .bool x, b => (match b with | .bool y => x == y | _ => false)
  | .int x, b => (match b with | .int y => x == y | _ => false)
  | .uint x, b => (match b with | .uint y => x == y | _ => false)
  | .str x, b => (match b with | .str y => x == y | _ => false)
  | .bytes x, b => (match b with | .bytes y => x == y | _ => false)
  | .list xs, b => (match b with | .list ys => eqValL xs ys | _ => false)
  | .map ms, b => (match b with | .map ms' => ms.length == ms'.length && eqValM ms ms' | _ => false)
  | .ptr x, b => (match b with | .ptr y => eqVal x y | _ => false)
  | .iface t x, b => (match b with | .iface t' y => t.beq t' && eqVal x y | _ => false)
  | .struct xs, b => (match b with | .struct ys => eqValL xs ys | _ => false)
def eqValL : List GoVal → List GoVal → Bool
  | [], ys => ys.isEmpty
  | x :: xs, ys => (match ys with | y :: ys' => eqVal x y && eqValL xs ys' | [] => false)
def eqValM : List (MapKey × GoVal) → List (MapKey × GoVal) → Bool
  | [], _ => true
  | (k, v) :: ms, ms' => (match lookupKey k ms' with | some v' => eqVal v v' | none => false) && eqValM ms ms'
end

mutual
def hasIface : GoType → Bool
  | .iface => true
  | .slice e => hasIface e
  | .array _ e => hasIface e
  | .map _ e => hasIface e
  | .ptr e => hasIface e
  | .struct _ fs => hasIfaceF fs
  | _ => false
def hasIfaceF : List (FieldInfo × GoType) → Bool
  | [] => false
  | (_, t) :: r => hasIface t || hasIfaceF r
end

mutual
/-- a pointer to a nilable type somewhere: `&nil` encodes as `null`, which decodes to the nil POINTER
(then dropped by `omitempty`) -/
def hasPtrNilable : GoType → Bool
  | .slice e => hasPtrNilable e
  | .array _ e => hasPtrNilable e
  | .map _ e => hasPtrNilable e
  | .ptr e => e.nilable || hasPtrNilable e
  | .struct _ fs => hasPtrNilableF fs
  | _ => false
def hasPtrNilableF : List (FieldInfo × GoType) → Bool
  | [] => false
  | (_, t) :: r => hasPtrNilable t || hasPtrNilableF r
end

def containsSub (pat : Bytes) : Bytes → Bool
  | [] => pat.isEmpty
  | c :: cs => isPrefix pat (c :: cs) || containsSub pat cs

def errText : Option DErr → String
  | none => "none"
  | some e => String.fromUTF8! (ByteArray.mk (renderErr e).toArray)

def jsonFamily (text : Bytes) : String :=
  match text.dropWhile Scanner.isSpace with
  | 123 :: _ => "obj"
  | 91 :: _ => "arr"
  | 34 :: _ => "str"
  | 110 :: _ => "null"
  | _ => "lit"

/-- `CODEC <id> typeddec <class> <type> <text> => <obs>` -/
def handleTypedDec (id : String) (args : List String) : String :=
  match args with
  | [cls, tyS, textS, "=>", valS, errS, stdS, rtS] =>
    match unhexField tyS, unhexField textS with
    | some tb, some text =>
      match decodeType tb with
      | some t =>
        if !t.wf then id ++ " corr=diff bad-request=typeddec-ill-typed"
        else
          let m := unmarshalTyped t text
          let rtModel : String :=
            match m with
            | .ok (v, none) => if cls = "a" then (if marshalTyped true t v = some text then "rt:same" else "rt:diff") else "rt:na"
            | _ => "rt:na"
          let model : String :=
            match m with
            | .ok (v, e) => "ok:" ++ hexOf (renderVal v) ++ " " ++ errText e ++ " " ++ rtModel
            | .panic => "panic - rt:na"
            | .fuel => "fuel - rt:na"
          let corr : Bool :=
            match m with
            | .ok (v, e) =>
              if valS.startsWith "ok:" then
                (match unhexField (valS.drop 3).toString with
                 | some vb => (match decodeVal vb with | some ov => eqVal v ov && eqVal ov v | none => false)
                 | none => false) && errText e = errS && rtModel = rtS
              else false
            | .panic => valS = "panic"
            | .fuel => false
          let stdBad := stdS = "std:value" || stdS = "std:error"
          let rtBad := cls = "a" && errS = "none" && rtS = "rt:diff" && !hasIface t && !hasPtrNilable t && !containsSub (ascii "\\ufffd") text
          let c17 : String :=
            if !corr then "viol:typeddec-decoder-differs"
            else if stdBad then "viol:typeddec-std:" ++ stdS
            else if rtBad then "viol:typeddec-roundtrip"
            else "ok"
          let c04 : String := if valS = "hang" then "viol:panic-or-hang" else "ok"
          id ++ " corr=" ++ (if corr then "ok" else "diff") ++ " C17=" ++ c17 ++ " C04=" ++ c04
            ++ " sig=typeddec-" ++ cls ++ "-" ++ typeFamily t ++ "/" ++ jsonFamily text ++ "/"
            ++ (if errS.startsWith "type:" then "type" else errS) ++ "/" ++ rtS
            ++ " model=" ++ model
      | none => id ++ " corr=diff bad-request=typeddec-wire"
    | _, _ => id ++ " corr=diff bad-request=typeddec-hex"
  | _ => id ++ " corr=diff bad-request=typeddec-arity"

end TDec
end Codec
end JP
