import JP.Impl.Node
import JP.Scanner

/-!
# The reflective encoder of `v5/internal/json/encode.go`, as the library uses it

`Impl.cstOf` / `Impl.marshalAnyE` *describe* what `MarshalEscaped` writes, as syntax trees.
This file is the literal, executable model of the encoder itself, on a type of Go values,
so that those descriptions become theorems (`JP/Props/C17encode.lean`).

## Go values (`GoVal`)

A `GoVal` is a Go value *together with its dynamic type*; the constructor is the type.
Only the types that reach `json.Marshal*` from `v5/patch.go`, `v5/merge.go` are present:

| constructor                 | Go value                                                              |
|-----------------------------|-----------------------------------------------------------------------|
| `nilIface`                  | `any(nil)` (`reflect.ValueOf` of it is the invalid `Value`)            |
| `bool b`                    | `bool`                                                                |
| `str s`                     | `string` (arbitrary bytes)                                            |
| `number l`                  | `json.Number`                                                         |
| `rawMsg b`                  | `json.RawMessage` (`none` = nil slice)                                |
| `rawPtr b` / `rawPtrNil`    | `*json.RawMessage` pointing to `b` / the nil pointer                  |
| `slice xs` / `sliceNil`     | `[]T` for `T` one of `any`, `*lazyNode`, `json.RawMessage`, `string`   |
| `map ms` / `mapNil`         | `map[string]T` (`map[string]any`, `Operation = map[string]*RawMessage`)|
| `lazyNil`                   | `(*lazyNode)(nil)`                                                    |
| `lazyRaw p`                 | `&lazyNode{which: eRaw, raw: p}`, `p` a `rawPtr _`/`rawPtrNil`         |
| `lazyDoc d`                 | `&lazyNode{which: eDoc, doc: d}`, `d` a `docPtr…`/`docNilPtr`          |
| `lazyAry ns`                | `&lazyNode{which: eAry, ary: &partialArray{nodes: ns}}`, `ns` a slice  |
| `lazyAryNilPtr`             | `&lazyNode{which: eAry, ary: nil}`                                    |
| `lazyBad`                   | `&lazyNode{which: w}` with `w ∉ {eRaw, eDoc, eAry}`                    |
| `docPtr keys obj opts`      | `&partialDoc{keys, obj, opts}`; `opts = none` is `opts == nil`, `some b` is a non-nil `*ApplyOptions` with `EscapeHTML = b` |
| `docPtrNilMap keys opts`    | the same with `obj == nil`                                            |
| `docNilPtr`                 | `(*partialDoc)(nil)`                                                  |
| `aryPtr ns` / `aryNilPtr`   | `&partialArray{nodes: ns}` / `(*partialArray)(nil)`                    |

A slice or map in Go has a *static* element type `T`, whose encoder (`typeEncoder(T)`) is fixed
when the slice encoder is built.  In the model the elements carry their own constructor and
`enc` dispatches on it.  For the element types above this is the same function: for a concrete
`T` every element has that constructor; for `T = any` the element encoder is `interfaceEncoder`,
which writes `null` for a nil interface (`nilIface`) and otherwise calls
`e.reflectValue(v.Elem())`, i.e. dispatches on the dynamic type.  The `encoderCache`
(`typeEncoder`) only memoises `newTypeEncoder`, a pure function of the type.
`condAddrEncoder` (for `json.RawMessage`, whose pointer type implements `Marshaler`) selects
`addrMarshalerEncoder` for addressable values (slice elements) and `marshalerEncoder` otherwise
(interface contents, map elements); both call `RawMessage.MarshalJSON` and `compact`, so one
`rawMsg` case covers them.  Maps are association lists with distinct names; `mapEncoder` sorts
the entries by name (`sort.Slice` on distinct strings, bytewise `<`).

Values are finite *trees*.  The `ptrLevel`/`ptrSeen` guard of `ptrEncoder`/`sliceEncoder`/
`mapEncoder` raises its error only when the same pointer (map, or slice start and length) is
met twice on one path of nested calls in one `encodeState`; in a tree this needs two nested
slices with the same start and length, which are then both empty, and an empty slice has no
nested calls.  So the guard never fires on the values modelled here and the counter is not
represented.  (Cyclic heaps are outside the model: `redirMarshalerEncoder` and
`marshalerTrustEncoder` have no guard at all, a cycle through `*lazyNode` overflows the stack.)

## Results (`W`)

Every encoder function runs on an `*encodeState e` and appends to `e.Buffer`; `e.error(err)`
panics with `jsonError{err}`, which the nearest enclosing `e.marshal` recovers and returns.
`W` is the result of one such function: the bytes it appended, and whether it returned
(`ok`), was aborted by `e.error` (`err`, with the bytes appended so far: they stay in the
buffer), or hit a Go run-time panic (`panic`: nil dereference, re-raised by `e.marshal`).
-/

namespace JP
namespace Codec
namespace Enc

inductive GoVal where
  | nilIface
  | bool (b : Bool)
  | str (s : Bytes)
  | number (lit : Bytes)
  | rawMsg (b : Option Bytes)
  | rawPtr (b : Option Bytes)
  | rawPtrNil
  | slice (xs : List GoVal)
  | sliceNil
  | map (ms : List (Bytes × GoVal))
  | mapNil
  | lazyNil
  | lazyRaw (raw : GoVal)
  | lazyDoc (doc : GoVal)
  | lazyAry (nodes : GoVal)
  | lazyAryNilPtr
  | lazyBad
  | docPtr (keys : List Bytes) (obj : List (Bytes × GoVal)) (opts : Option Bool)
  | docPtrNilMap (keys : List Bytes) (opts : Option Bool)
  | docNilPtr
  | aryPtr (nodes : GoVal)
  | aryNilPtr
  deriving Repr, Inhabited

/-- the `error` values the encoder can be aborted with -/
inductive EncErr where
  | syntax                        -- `*SyntaxError` (from `compact`)
  | invalidNumber                 -- `fmt.Errorf("json: invalid number literal %q", numStr)`
  | expectedObject                -- `jsonpatch.ErrExpectedObject`
  | unknownType                   -- `jsonpatch.ErrUnknownType`
  | marshaler (inner : EncErr)    -- `&MarshalerError{Type, Err: inner, sourceFunc}` (`Unwrap` gives `inner`)
  deriving Repr, DecidableEq, Inhabited

inductive W where
  | ok (out : Bytes)
  | err (out : Bytes) (e : EncErr)
  | panic
  deriving Repr, DecidableEq, Inhabited

/-- run `a`, then `b` on the same state -/
def W.seq (a b : W) : W :=
  match a with
  | .ok o1 =>
    match b with
    | .ok o2 => .ok (o1 ++ o2)
    | .err o2 e => .err (o1 ++ o2) e
    | .panic => .panic
  | .err o1 e => .err o1 e
  | .panic => .panic

/-- `e.WriteByte`, `e.WriteString`, `e.Write` -/
def write (bs : Bytes) : W := .ok bs

def null : Bytes := ascii "null"

/-! ### `isValidNumber` (encode.go) -/

/-- `for len(s) > 0 && '0' <= s[0] && s[0] <= '9' { s = s[1:] }` -/
def skipDigits : Bytes → Bytes
  | [] => []
  | c :: cs => if isDigit c then skipDigits cs else c :: cs

/-- `if s == "" {return false}`; optional `-` (then again `if s == "" {return false}`); `none` = `return false` -/
def numSign : Bytes → Option Bytes
  | [] => none
  | c :: r => if c = 45 then (if r.isEmpty then none else some r) else some (c :: r)

/-- the `switch` on the first digit -/
def numInt : Bytes → Option Bytes
  | [] => none
  | c :: r =>
    if c = 48 then some r
    else if 49 ≤ c.toNat ∧ c.toNat ≤ 57 then some (skipDigits r)
    else none

/-- `. followed by 1 or more digits` -/
def numFrac : Bytes → Bytes
  | c :: d :: r => if c = 46 ∧ isDigit d then skipDigits r else c :: d :: r
  | s => s

/-- `e or E followed by an optional - or + and 1 or more digits` (the digits are checked by
the final `s == ""`) -/
def numExp : Bytes → Option Bytes
  | c :: d :: r =>
    if c = 101 ∨ c = 69 then
      if d = 43 ∨ d = 45 then (if r.isEmpty then none else some (skipDigits r))
      else some (skipDigits (d :: r))
    else some (c :: d :: r)
  | s => some s

def isValidNumber (s : Bytes) : Bool :=
  match numSign s with
  | none => false
  | some s1 =>
    match numInt s1 with
    | none => false
    | some s2 =>
      match numExp (numFrac s2) with
      | none => false
      | some s4 => s4.isEmpty

/-! ### leaf encoders -/

/-- `e.string(s, escapeHTML)`: the quotes and the body (`quoteBody` is the transcription of the
loop, including the coercion of invalid UTF-8 to `�`) -/
def encString (esc : Bool) (s : Bytes) : W := write (34 :: quoteBody esc s ++ [34])

/-- `stringEncoder`, the `numberType` branch (`opts.quoted` is never set: no struct tags) -/
def encNumber (lit : Bytes) : W :=
  let numStr := if lit.isEmpty then [48] else lit
  if isValidNumber numStr then write numStr else .err [] .invalidNumber

/-- `RawMessage.MarshalJSON` (standard library): `null` for a nil slice, else the bytes -/
def rawMarshalJSON : Option Bytes → Bytes
  | none => null
  | some b => b

/-- `marshalerEncoder` / `addrMarshalerEncoder` after their nil checks, for `json.RawMessage`:
`b, err := m.MarshalJSON()` (never fails), then `compact(&e.Buffer, b, opts.escapeHTML)`, which
truncates the buffer to its old length when the scanner rejects `b` -/
def encRawMessage (esc : Bool) (m : Option Bytes) : W :=
  match Scanner.compact esc (rawMarshalJSON m) with
  | some out => write out
  | none => .err [] (.marshaler .syntax)

/-- `redirMarshalerEncoder`, last line: `e.marshal(iv, opts)` runs on the *same* state; it
recovers the `jsonError` and returns it, and the caller drops the returned error.  What was
appended before the abort stays. -/
def dropErr : W → W
  | .ok out => .ok out
  | .err out _ => .ok out
  | .panic => .panic

/-- `json.MarshalEscaped(v, escaped)` called from inside `TrustMarshalJSON`: a *fresh*
`encodeState`; on error `(nil, err)` is returned and `TrustMarshalJSON` returns `err` without
writing; on success the bytes are written to the outer buffer -/
def nested : W → W
  | .ok out => .ok out
  | .err _ e => .err [] e
  | .panic => .panic

/-- `marshalerTrustEncoder`: `if err != nil { e.error(&MarshalerError{v.Type(), err, "MarshalJSON"}) }` -/
def wrapMarshaler : W → W
  | .ok out => .ok out
  | .err out e => .err out (.marshaler e)
  | .panic => .panic

/-- `escaped := true; if n.opts != nil { escaped = n.opts.EscapeHTML }` -/
def escapedOf : Option Bool → Bool
  | none => true
  | some b => b

def lookupW (k : Bytes) : List (Bytes × W) → Option W
  | [] => none
  | (k', w) :: ms => if k' = k then some w else lookupW k ms

/-- insertion of one entry into a list sorted by name (`sort.Slice(sv, … sv[i].ks < sv[j].ks)`;
names of a map are distinct, so every sorting algorithm gives the same list) -/
def insertW (k : Bytes) (w : W) : List (Bytes × W) → List (Bytes × W)
  | [] => [(k, w)]
  | (k', w') :: ms => if bytesLt k k' then (k, w) :: (k', w') :: ms else (k', w') :: insertW k w ms

def sortW : List (Bytes × W) → List (Bytes × W)
  | [] => []
  | (k, w) :: ms => insertW k w (sortW ms)

/-- `mapEncoder.encode`, the loop over the sorted entries:
`if i > 0 {','}; e.string(kv.ks, opts.escapeHTML); ':'; me.elemEnc(e, kv.v, opts)` -/
def emitEntries (esc : Bool) : List (Bytes × W) → W
  | [] => write []
  | [(k, w)] => (encString esc k).seq ((write [58]).seq w)
  | (k, w) :: m :: ms =>
    (encString esc k).seq ((write [58]).seq (w.seq ((write [44]).seq (emitEntries esc (m :: ms)))))

/-- `partialDoc.TrustMarshalJSON`, the loop over `n.keys`.  `vals` holds, for every entry of
`n.obj`, the result of `json.MarshalEscaped(n.obj[k], escaped)`; a name without an entry reads
the zero value of the map, a nil `*lazyNode`, which marshals to `null`. -/
def emitKeys (escaped : Bool) (vals : List (Bytes × W)) : List Bytes → W
  | [] => write []
  | [k] =>
    (nested (encString escaped k)).seq ((write [58]).seq (nested ((lookupW k vals).getD (write null))))
  | k :: k2 :: ks =>
    (nested (encString escaped k)).seq ((write [58]).seq
      ((nested ((lookupW k vals).getD (write null))).seq ((write [44]).seq (emitKeys escaped vals (k2 :: ks)))))

mutual
/-- `e.reflectValue(reflect.ValueOf(v), opts)` with `opts = encOpts{escapeHTML: esc}`:
`valueEncoder(v)(e, v, opts)`, the encoder selected by `newTypeEncoder` for the type of `v` -/
def enc (esc : Bool) : GoVal → W
  -- `invalidValueEncoder` (top level) / `interfaceEncoder` on a nil interface (element of `[]any`, `map[string]any`)
  | .nilIface => write null
  -- `boolEncoder`
  | .bool b => write (if b then ascii "true" else ascii "false")
  -- `stringEncoder`
  | .str s => encString esc s
  | .number l => encNumber l
  -- `json.RawMessage`: `marshalerEncoder` (value receiver, not a pointer: no nil check applies)
  | .rawMsg m => encRawMessage esc m
  -- `*json.RawMessage`: `marshalerEncoder`; `v.Kind() == reflect.Pointer && v.IsNil()` ⇒ `null`
  | .rawPtrNil => write null
  | .rawPtr m => encRawMessage esc m
  -- `sliceEncoder`: nil ⇒ `null`; else `arrayEncoder`
  | .sliceNil => write null
  | .slice xs => (write [91]).seq ((encElems esc xs).seq (write [93]))
  -- `mapEncoder`: nil ⇒ `null`
  | .mapNil => write null
  | .map ms => (write [123]).seq ((emitEntries esc (sortW (encMembers esc ms))).seq (write [125]))
  -- `*lazyNode`: `redirMarshalerEncoder`; nil pointer ⇒ `null`;
  -- `RedirectMarshalJSON` returns `n.raw` / `n.doc` / `n.ary.nodes` / `ErrUnknownType`
  | .lazyNil => write null
  | .lazyRaw p => dropErr (enc esc p)
  | .lazyDoc d => dropErr (enc esc d)
  | .lazyAry ns => dropErr (enc esc ns)
  | .lazyAryNilPtr => .panic                                  -- `n.ary.nodes` with `n.ary == nil`
  | .lazyBad => .err [] (.marshaler .unknownType)             -- `e.error(&MarshalerError{…, "RedirectMarshalJSON"})`
  -- `*partialDoc`: `marshalerTrustEncoder`; nil pointer ⇒ `null`
  | .docNilPtr => write null
  | .docPtrNilMap _ _ => .err [] (.marshaler .expectedObject)  -- `if n.obj == nil { return ErrExpectedObject }`
  | .docPtr keys obj opts =>
    -- the members are marshalled with the document's own flag, not with `esc`
    let escaped := escapedOf opts
    wrapMarshaler ((write [123]).seq ((emitKeys escaped (encMembers escaped obj) keys).seq (write [125])))
  -- `*partialArray`: `redirMarshalerEncoder`; `RedirectMarshalJSON` returns `n.nodes`
  | .aryNilPtr => write null
  | .aryPtr ns => dropErr (enc esc ns)
/-- `arrayEncoder.encode`, the loop: `if i > 0 {','}; ae.elemEnc(e, v.Index(i), opts)` -/
def encElems (esc : Bool) : List GoVal → W
  | [] => write []
  | [x] => enc esc x
  | x :: y :: xs => (enc esc x).seq ((write [44]).seq (encElems esc (y :: xs)))
/-- every entry of a map encoded on its own (by `elemEnc` in `mapEncoder`, by a nested
`MarshalEscaped` in `TrustMarshalJSON`): encoding is a function of the value alone, so it can be
tabulated before the entries are visited in name order / `keys` order -/
def encMembers (esc : Bool) : List (Bytes × GoVal) → List (Bytes × W)
  | [] => []
  | (k, v) :: ms => (k, enc esc v) :: encMembers esc ms
end

/-- the error class the callers can observe: `errors.Is(err, ErrExpectedObject)` looks through
`MarshalerError.Unwrap` -/
def classify : EncErr → Impl.Err
  | .expectedObject => .expectedObject
  | .marshaler e => classify e
  | _ => .other

/-- `json.MarshalEscaped(v, escape)`: a fresh state, `e.marshal(v, encOpts{escapeHTML: escape})`;
`(nil, err)` on error, a copy of the buffer otherwise -/
def marshalEscaped (esc : Bool) (v : GoVal) : Impl.Outcome Bytes :=
  match enc esc v with
  | .ok out => .ok out
  | .err _ e => .err (classify e)
  | .panic => .panic

/-- `json.Marshal(v)` -/
def marshal (v : GoVal) : Impl.Outcome Bytes := marshalEscaped true v

/-! ### the library's values as Go values -/

/-- the `opts` field of a `partialDoc` whose `*ApplyOptions` has `EscapeHTML = esc` -/
def optsOf (esc : Bool) : Option Bool := some esc

mutual
/-- a node of the implementation model as the `*lazyNode` it stands for, every parsed object
carrying the options `opts`.  A raw message is represented by its compact text here; the
theorems are stated for every text that parses to the tree.  (`docNil`/`nilAry` only occur
as root containers, see `rootToGo`; as nodes they are the values `rootNode` builds.) -/
def toGo (opts : Option Bool) : Impl.Node → GoVal
  | .nil => .lazyNil
  | .raw c => .lazyRaw (.rawPtr (some (Cst.print c)))
  | .doc keys obj => .lazyDoc (.docPtr keys (toGoM opts obj) opts)
  | .ary ns => .lazyAry (.slice (toGoL opts ns))
  | .docNil => .lazyDoc (.docPtrNilMap [] opts)
  | .nilAry => .lazyAryNilPtr
def toGoM (opts : Option Bool) : Impl.NMembers → List (Bytes × GoVal)
  | [] => []
  | (k, n) :: ms => (k, toGo opts n) :: toGoM opts ms
def toGoL (opts : Option Bool) : List Impl.Node → List GoVal
  | [] => []
  | n :: ns => toGo opts n :: toGoL opts ns
end

/-- the root container (`container` interface holding a `*partialDoc` or a `*partialArray`) -/
def rootToGo (opts : Option Bool) : Impl.Node → GoVal
  | .doc keys obj => .docPtr keys (toGoM opts obj) opts
  | .ary ns => .aryPtr (.slice (toGoL opts ns))
  | .docNil => .docPtrNilMap [] opts
  | .nilAry => .aryNilPtr
  | n => toGo opts n

mutual
/-- a dynamic value (`any` holding `nil`, `bool`, `json.Number`, `string`, `[]any`,
`map[string]any`) -/
def anyToGo : Value → GoVal
  | .null => .nilIface
  | .bool b => .bool b
  | .num l => .number l
  | .str s => .str s
  | .arr xs => .slice (anyToGoL xs)
  | .obj ms => .map (anyToGoM ms)
def anyToGoL : List Value → List GoVal
  | [] => []
  | x :: xs => anyToGo x :: anyToGoL xs
def anyToGoM : Value.Members → List (Bytes × GoVal)
  | [] => []
  | (k, v) :: ms => (k, anyToGo v) :: anyToGoM ms
end

end Enc
end Codec
end JP
