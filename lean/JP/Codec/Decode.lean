import JP.Scanner

/-!
# The reflective decoder of `v5/internal/json/decode.go`, for the target types the library uses

A literal transcription of `decodeState`: `scanNext`, `scanWhile`, `rescanLiteral`, `skip`,
`value`, `array`, `object` (map case), `literalStore`, the `*Interface` fast paths
(`valueInterface`, `arrayInterface`, `objectInterface`, `literalInterface`), `unmarshal`, and the
four entry points `Unmarshal`, `UnmarshalWithKeys`, `UnmarshalValid`, `UnmarshalValidWithKeys`.

The Go code works on `reflect.Value`s; here the static type of the target is a `Target` and the
decoded Go value is a `DVal`.  What `reflect` and `indirect` do for a target type is tabulated per
`Target` (`isUnmarshaler`, `zero`, the kind switches of `array`, `object`, `literalStore`).

Scope and the Go-level facts the transcription relies on (each checkable on the Go source):

* the universe of targets: `json.RawMessage` (`raw false`: a named slice type whose pointer
  implements `Unmarshaler`), `*json.RawMessage` / `*lazyNode` (`raw true`: pointer to a type
  implementing `Unmarshaler` by storing a copy of the bytes it is handed), `string`, `any`,
  `map[string]T`, `[]T`.  No struct, array, numeric, bool or `TextUnmarshaler` target: the
  corresponding branches (`fields`, `destring`, `valueQuoted`, `fromQuoted`, `errorContext`,
  fixed-size arrays, `v.IsValid() == false`) are not transcribed.
* every decode starts from a FRESH zero target (nil map, nil slice, nil pointer, `""`, nil
  interface): slice elements are zeroed by `reflect.MakeSlice`, map elements by
  `mapElem.Set(reflect.Zero(elemType))`; at the top level the library passes fresh variables
  or fields of freshly allocated nodes.
* `useNumber` is `true` (assigned by all four entry points before `init`): `convertNumber(s)`
  is `Number(s)` and never fails.
* `UnmarshalJSON` of `lazyNode` / `RawMessage` copies the slice it is given and returns nil.
* `d.scan.reset()` makes the scanner `Scan.init` whatever it held before.

Positions are list indices into `data`; slices `data[a:b]` are `slice?` (out of range = the Go
run-time panic).  `Exec.panic` stands for `panic(phasePanicMsg)` and for index/slice run-time
panics; `Exec.fuel` for the recursion bound of this model running out (proved not to happen on
well-formed texts: `JP/Props/C17decode.lean`; never observed on others).
-/

namespace JP
namespace Codec

open Scanner

/-! ## Targets and decoded values -/

inductive Target where
  /-- `json.RawMessage` (`pointer = false`) or `*json.RawMessage` / `*lazyNode` (`pointer = true`) -/
  | raw (pointer : Bool)
  | str
  | any
  | mapOf (t : Target)
  | sliceOf (t : Target)
  deriving Repr, DecidableEq, Inhabited

/-- decoded Go values; `ρ` = what stands for the bytes an `Unmarshaler` was handed (`Bytes` in the
decoder, their parse tree in the specification view) -/
inductive DValG (ρ : Type) where
  /-- the bytes an `Unmarshaler` was handed -/
  | rawText (bs : ρ)
  | nilPtr
  | str (s : Bytes)
  /-- `json.Number` -/
  | num (lit : Bytes)
  | bool (b : Bool)
  /-- nil interface -/
  | null
  | list (xs : List (DValG ρ))
  | nilSlice
  /-- a map, as an association list in insertion order; assigning an existing name overwrites in place -/
  | map (ms : List (Bytes × DValG ρ))
  | nilMap
  deriving Repr, Inhabited

abbrev DVal := DValG Bytes

abbrev DMembersG (ρ : Type) := List (Bytes × DValG ρ)
abbrev DMembers := DMembersG Bytes

/-- `m[k] = v` -/
def setD {ρ : Type} (k : Bytes) (v : DValG ρ) : DMembersG ρ → DMembersG ρ
  | [] => [(k, v)]
  | (k', v') :: ms => if k' = k then (k, v) :: ms else (k', v') :: setD k v ms

def lookupD {ρ : Type} (k : Bytes) : DMembersG ρ → Option (DValG ρ)
  | [] => none
  | (k', v) :: ms => if k' = k then some v else lookupD k ms

/-- `UnmarshalTypeError.Value` -/
inductive JKind where
  | array | object | string | number | bool
  deriving Repr, DecidableEq, Inhabited

inductive DErr where
  /-- `SyntaxError` from `checkValid` -/
  | syntax
  /-- `UnmarshalTypeError{Value, Offset}` -/
  | typeError (value : JKind) (offset : Nat)
  /-- any other saved error (`fmt.Errorf`) -/
  | other
  deriving Repr, DecidableEq, Inhabited

inductive Exec (α : Type) where
  | ok (a : α)
  | panic
  | fuel
  deriving Repr, Inhabited

/-- `reflect.Zero(t)`; `e` = the empty raw message -/
def zeroG {ρ : Type} (e : ρ) : Target → DValG ρ
  | .raw true => .nilPtr
  | .raw false => .rawText e
  | .str => .str []
  | .any => .null
  | .mapOf _ => .nilMap
  | .sliceOf _ => .nilSlice

def zero (t : Target) : DVal := zeroG [] t

/-- does `indirect(v, decodingNull)` return an `Unmarshaler` for a settable value of this type?
`RawMessage`: `v.Addr()` is tried first (named, addressable), the address is not settable, its
method set has `UnmarshalJSON`: always.  Pointer to such a type: with `decodingNull` the loop
stops at the settable pointer (to set it to nil); otherwise the pointer is allocated and found to
be an `Unmarshaler`. -/
def isUnmarshaler : Target → Bool → Bool
  | .raw ptr, decodingNull => !(ptr && decodingNull)
  | _, _ => false

/-! ## `decodeState` -/

structure DState where
  data : Bytes
  /-- next read offset in data -/
  off : Nat
  /-- last read result -/
  opcode : Nat
  scan : Scan
  savedError : Option DErr
  lastKeys : List Bytes
  deriving Repr, Inhabited

/-- `d.readIndex()` -/
def DState.readIndex (d : DState) : Nat := d.off - 1

/-- `d.saveError(err)`: keeps the first -/
def DState.saveError (d : DState) (e : DErr) : DState :=
  if d.savedError.isNone then { d with savedError := some e } else d

/-- `data[a:b]`; `none` = slice bounds out of range -/
def slice? (data : Bytes) (a b : Nat) : Option Bytes :=
  if a ≤ b ∧ b ≤ data.length then some ((data.take b).drop a) else none

/-- `scanner.eof()` with the state it leaves -/
def eofOp (s : Scan) : Scan × Nat :=
  if s.err then (s, scanError)
  else if s.endTop then (s, scanEnd)
  else
    let s' := (step s 32).1
    if s'.endTop then (s', scanEnd) else ({ s' with err := true }, scanError)

/-- `d.scanNext()` -/
def scanNext (d : DState) : DState :=
  match d.data.drop d.off with
  | c :: _ =>
    let r := step d.scan c
    { d with scan := r.1, opcode := r.2, off := d.off + 1 }
  | [] =>
    let r := eofOp d.scan
    { d with scan := r.1, opcode := r.2, off := d.data.length + 1 }

/-- the loop of `scanWhile(op)` over `data[i:]`: scanner, `i`, and the first opcode `≠ op`
(`none`: ran off the end) -/
def scanWhileLoop (op : Nat) : Scan → Nat → Bytes → Scan × Nat × Option Nat
  | s, i, [] => (s, i, none)
  | s, i, c :: cs =>
    let r := step s c
    if r.2 ≠ op then (r.1, i + 1, some r.2) else scanWhileLoop op r.1 (i + 1) cs

/-- `d.scanWhile(op)` -/
def scanWhile (op : Nat) (d : DState) : DState :=
  match scanWhileLoop op d.scan d.off (d.data.drop d.off) with
  | (s, i, some newOp) => { d with scan := s, opcode := newOp, off := i }
  | (s, _, none) =>
    let r := eofOp s
    { d with scan := r.1, opcode := r.2, off := d.data.length + 1 }

/-- the loop of `skip()`: `none` = `data[i]` out of range -/
def skipLoop (depth : Nat) : Scan → Nat → Bytes → Option (Scan × Nat × Nat)
  | _, _, [] => none
  | s, i, c :: cs =>
    let r := step s c
    if r.1.stack.length < depth then some (r.1, i + 1, r.2) else skipLoop depth r.1 (i + 1) cs

/-- `d.skip()` -/
def skip (d : DState) : Exec DState :=
  match skipLoop d.scan.stack.length d.scan d.off (d.data.drop d.off) with
  | some (s, i, op) => .ok { d with scan := s, opcode := op, off := i }
  | none => .panic

/-- the string loop of `rescanLiteral` from index `i` over `data[i:]` -/
def rescanStr : Nat → Bytes → Nat
  | i, [] => i
  | i, c :: cs =>
    if c = 92 then
      match cs with
      | [] => i + 2
      | _ :: cs' => rescanStr (i + 2) cs'
    else if c = 34 then i + 1
    else rescanStr (i + 1) cs

def isNumByte (c : UInt8) : Bool :=
  isDigit c || c = 46 || c = 101 || c = 69 || c = 43 || c = 45

/-- the number loop of `rescanLiteral` -/
def rescanNum : Nat → Bytes → Nat
  | i, [] => i
  | i, c :: cs => if isNumByte c then rescanNum (i + 1) cs else i

/-- `d.rescanLiteral()` -/
def rescanLiteral (d : DState) : Exec DState :=
  if d.off = 0 then .panic else
  match d.data.drop (d.off - 1) with
  | [] => .panic                                   -- `data[i-1]` out of range
  | b :: rest =>
    let i : Nat :=
      if b = 34 then rescanStr d.off rest
      else if isDigit b || b = 45 then rescanNum d.off rest
      else if b = 116 then d.off + 3
      else if b = 102 then d.off + 4
      else if b = 110 then d.off + 3
      else d.off
    match d.data.drop i with
    | c :: _ =>
      let r := stateEndValue d.scan c
      .ok { d with scan := r.1, opcode := r.2, off := i + 1 }
    | [] => .ok { d with opcode := scanEnd, off := i + 1 }

/-- `unquoteBytes(item)`: `item` includes the quotes -/
def unquoteBytes (item : Bytes) : Option Bytes :=
  match item with
  | 34 :: rest =>
    if rest.getLast? = some 34 then unquoteBody rest.dropLast else none
  | _ => none

/-- `d.literalStore(item, v, false)` for a zero `v` of type `t` -/
def literalStore (item : Bytes) (t : Target) (d : DState) : Exec (DState × DVal) :=
  match item with
  | [] => .ok (d.saveError .other, zero t)
  | c :: _ =>
    let isNull := c = 110
    if isUnmarshaler t isNull then .ok (d, .rawText item)       -- `u.UnmarshalJSON(item)`
    else if c = 110 then .ok (d, zero t)                         -- nil for interface/pointer/map/slice, no effect on a string
    else if c = 116 ∨ c = 102 then
      match t with
      | .any => .ok (d, .bool (c = 116))
      | _ => .ok (d.saveError (.typeError .bool d.readIndex), zero t)
    else if c = 34 then
      match unquoteBytes item with
      | none => .panic
      | some s =>
        match t with
        | .str => .ok (d, .str s)
        | .any => .ok (d, .str s)
        | _ => .ok (d.saveError (.typeError .string d.readIndex), zero t)
    else
      if c ≠ 45 ∧ !isDigit c then .panic
      else match t with
        | .any => .ok (d, .num item)                              -- `convertNumber` with `useNumber`
        | _ => .ok (d.saveError (.typeError .number d.readIndex), zero t)

/-- `d.literalInterface()` -/
def literalInterface (d : DState) : Exec (DState × DVal) :=
  let start := d.readIndex
  match rescanLiteral d with
  | .panic => .panic
  | .fuel => .fuel
  | .ok d1 =>
    match slice? d1.data start d1.readIndex with
    | none => .panic
    | some [] => .panic                                           -- `item[0]`
    | some (c :: item') =>
      let item := c :: item'
      if c = 110 then .ok (d1, .null)
      else if c = 116 ∨ c = 102 then .ok (d1, .bool (c = 116))
      else if c = 34 then
        match unquoteBytes item with
        | none => .panic
        | some s => .ok (d1, .str s)
      else if c ≠ 45 ∧ !isDigit c then .panic
      else .ok (d1, .num item)

/-- the part of `array`/`object` for an `Unmarshaler` target: `start := readIndex(); skip();
u.UnmarshalJSON(data[start:off])` -/
def captureRaw (d : DState) : Exec (DState × DVal) :=
  let start := d.readIndex
  match skip d with
  | .panic => .panic
  | .fuel => .fuel
  | .ok d1 =>
    match slice? d1.data start d1.off with
    | none => .panic
    | some txt => .ok (d1, .rawText txt)

/-- `saveError(&UnmarshalTypeError{Value: k, Offset: d.off}); d.skip()` -/
def typeErrorSkip (k : JKind) (t : Target) (d : DState) : Exec (DState × DVal) :=
  match skip (d.saveError (.typeError k d.off)) with
  | .panic => .panic
  | .fuel => .fuel
  | .ok d1 => .ok (d1, zero t)

def skipSpaceIf (d : DState) : DState :=
  if d.opcode = scanSkipSpace then scanWhile scanSkipSpace d else d

mutual
/-- `d.value(v)` for a valid, zero `v` of type `t` -/
def value : Nat → Target → DState → Exec (DState × DVal)
  | 0, _, _ => .fuel
  | fuel + 1, t, d =>
    if d.opcode = scanBeginArray then
      match array fuel t d with
      | .ok (d1, v) => .ok (scanNext d1, v)
      | e => e
    else if d.opcode = scanBeginObject then
      match object fuel t d with
      | .ok (d1, v) => .ok (scanNext d1, v)
      | e => e
    else if d.opcode = scanBeginLiteral then
      let start := d.readIndex
      match rescanLiteral d with
      | .panic => .panic
      | .fuel => .fuel
      | .ok d1 =>
        match slice? d1.data start d1.readIndex with
        | none => .panic
        | some item => literalStore item t d1
    else .panic

/-- `d.array(v)` -/
def array : Nat → Target → DState → Exec (DState × DVal)
  | 0, _, _ => .fuel
  | fuel + 1, t, d =>
    if isUnmarshaler t false then captureRaw d
    else match t with
      | .any =>
        (match arrayInterface fuel d [] with
         | .ok (d1, vs) => .ok (d1, .list vs)
         | .panic => .panic
         | .fuel => .fuel)
      | .sliceOf e =>
        (match arrayLoop fuel e d [] with
         | .ok (d1, vs) => .ok (d1, .list vs)
         | .panic => .panic
         | .fuel => .fuel)
      | _ => typeErrorSkip .array t d

/-- the `for` loop of `array` on a slice with element type `e`; `acc` = the elements so far -/
def arrayLoop : Nat → Target → DState → List DVal → Exec (DState × List DVal)
  | 0, _, _, _ => .fuel
  | fuel + 1, e, d, acc =>
    let d1 := scanWhile scanSkipSpace d
    if d1.opcode = scanEndArray then .ok (d1, acc)
    else
      match value fuel e d1 with
      | .panic => .panic
      | .fuel => .fuel
      | .ok (d2, v) =>
        let d3 := skipSpaceIf d2
        if d3.opcode = scanEndArray then .ok (d3, acc ++ [v])
        else if d3.opcode ≠ scanArrayValue then .panic
        else arrayLoop fuel e d3 (acc ++ [v])

/-- `d.object(v)` -/
def object : Nat → Target → DState → Exec (DState × DVal)
  | 0, _, _ => .fuel
  | fuel + 1, t, d =>
    if isUnmarshaler t false then captureRaw d
    else match t with
      | .any =>
        (match objectInterface fuel d [] with
         | .ok (d1, m) => .ok (d1, .map m)
         | .panic => .panic
         | .fuel => .fuel)
      | .mapOf e =>
        -- `v.Set(reflect.MakeMap(t))`, the loop, `d.lastKeys = keys`
        (match objectLoop fuel e d [] [] with
         | .ok (d1, m, keys) => .ok ({ d1 with lastKeys := keys }, .map m)
         | .panic => .panic
         | .fuel => .fuel)
      | _ => typeErrorSkip .object t d

/-- the `for` loop of `object` on a map with element type `e` -/
def objectLoop : Nat → Target → DState → DMembers → List Bytes → Exec (DState × DMembers × List Bytes)
  | 0, _, _, _, _ => .fuel
  | fuel + 1, e, d, m, keys =>
    let d1 := scanWhile scanSkipSpace d
    if d1.opcode = scanEndObject then .ok (d1, m, keys)
    else if d1.opcode ≠ scanBeginLiteral then .panic
    else
      let start := d1.readIndex
      match rescanLiteral d1 with
      | .panic => .panic
      | .fuel => .fuel
      | .ok d2 =>
        match slice? d2.data start d2.readIndex with
        | none => .panic
        | some item =>
          match unquoteBytes item with
          | none => .panic
          | some key =>
            let d3 := skipSpaceIf d2
            if d3.opcode ≠ scanObjectKey then .panic
            else
              let d4 := scanWhile scanSkipSpace d3
              match value fuel e d4 with
              | .panic => .panic
              | .fuel => .fuel
              | .ok (d5, v) =>
                let d6 := skipSpaceIf d5
                if d6.opcode = scanEndObject then .ok (d6, setD key v m, keys ++ [key])
                else if d6.opcode ≠ scanObjectValue then .panic
                else objectLoop fuel e d6 (setD key v m) (keys ++ [key])

/-- `d.valueInterface()` -/
def valueInterface : Nat → DState → Exec (DState × DVal)
  | 0, _ => .fuel
  | fuel + 1, d =>
    if d.opcode = scanBeginArray then
      match arrayInterface fuel d [] with
      | .ok (d1, vs) => .ok (scanNext d1, .list vs)
      | .panic => .panic
      | .fuel => .fuel
    else if d.opcode = scanBeginObject then
      match objectInterface fuel d [] with
      | .ok (d1, m) => .ok (scanNext d1, .map m)
      | .panic => .panic
      | .fuel => .fuel
    else if d.opcode = scanBeginLiteral then literalInterface d
    else .panic

/-- `d.arrayInterface()` -/
def arrayInterface : Nat → DState → List DVal → Exec (DState × List DVal)
  | 0, _, _ => .fuel
  | fuel + 1, d, acc =>
    let d1 := scanWhile scanSkipSpace d
    if d1.opcode = scanEndArray then .ok (d1, acc)
    else
      match valueInterface fuel d1 with
      | .panic => .panic
      | .fuel => .fuel
      | .ok (d2, v) =>
        let d3 := skipSpaceIf d2
        if d3.opcode = scanEndArray then .ok (d3, acc ++ [v])
        else if d3.opcode ≠ scanArrayValue then .panic
        else arrayInterface fuel d3 (acc ++ [v])

/-- `d.objectInterface()` -/
def objectInterface : Nat → DState → DMembers → Exec (DState × DMembers)
  | 0, _, _ => .fuel
  | fuel + 1, d, m =>
    let d1 := scanWhile scanSkipSpace d
    if d1.opcode = scanEndObject then .ok (d1, m)
    else if d1.opcode ≠ scanBeginLiteral then .panic
    else
      let start := d1.readIndex
      match rescanLiteral d1 with
      | .panic => .panic
      | .fuel => .fuel
      | .ok d2 =>
        match slice? d2.data start d2.readIndex with
        | none => .panic
        | some item =>
          match unquoteBytes item with
          | none => .panic
          | some key =>
            let d3 := skipSpaceIf d2
            if d3.opcode ≠ scanObjectKey then .panic
            else
              let d4 := scanWhile scanSkipSpace d3
              match valueInterface fuel d4 with
              | .panic => .panic
              | .fuel => .fuel
              | .ok (d5, v) =>
                let d6 := skipSpaceIf d5
                if d6.opcode = scanEndObject then .ok (d6, setD key v m)
                else if d6.opcode ≠ scanObjectValue then .panic
                else objectInterface fuel d6 (setD key v m)
end

/-! ## `unmarshal` and the entry points -/

/-- recursion bound handed to `value` -/
def fuelFor (data : Bytes) : Nat := 3 * data.length + 8

/-- `d.init(data)` on a pooled state whose `lastKeys` is `left`, then `d.unmarshal(&v)` with `v` a
fresh variable of type `t`: the state it leaves and the value in `v` -/
def unmarshal (t : Target) (data : Bytes) (left : List Bytes) : Exec (DState × DVal) :=
  let d0 : DState :=
    { data := data, off := 0, opcode := 0, scan := Scan.init, savedError := none, lastKeys := left }
  value (fuelFor data) t (scanWhile scanSkipSpace d0)

structure Res where
  val : DVal
  /-- `d.lastKeys` when the call returns -/
  keys : List Bytes
  deriving Repr, Inhabited

inductive Outcome where
  | ok (r : Res)
  /-- the error returned, and what the target holds then -/
  | error (e : DErr) (part : DVal)
  | panic
  | fuel
  deriving Repr, Inhabited

def finish : Exec (DState × DVal) → Outcome
  | .ok (d, v) =>
    match d.savedError with
    | none => .ok { val := v, keys := d.lastKeys }
    | some e => .error e v
  | .panic => .panic
  | .fuel => .fuel

/-- `UnmarshalValid(data, &v)` / `UnmarshalValidWithKeys(data, &v)` (the latter returns `keys`);
`left` = the `lastKeys` of the pooled `decodeState` it happens to get -/
def unmarshalValidWithKeys (t : Target) (data : Bytes) (left : List Bytes := []) : Outcome :=
  finish (unmarshal t data left)

def unmarshalValid (t : Target) (data : Bytes) (left : List Bytes := []) : Outcome :=
  unmarshalValidWithKeys t data left

/-- `Unmarshal(data, &v)` / `UnmarshalWithKeys(data, &v)`: `checkValid` first -/
def unmarshalWithKeys (t : Target) (data : Bytes) (left : List Bytes := []) : Outcome :=
  if !Scanner.valid data then .error .syntax (zero t) else finish (unmarshal t data left)

def unmarshalChecked (t : Target) (data : Bytes) (left : List Bytes := []) : Outcome :=
  unmarshalWithKeys t data left

/-! ## A canonical rendering of decoded values (what the differential harness prints) -/

def insertKey (k : Bytes) (v : Bytes) : List (Bytes × Bytes) → List (Bytes × Bytes)
  | [] => [(k, v)]
  | (k', v') :: ms => if bytesLt k k' then (k, v) :: (k', v') :: ms else (k', v') :: insertKey k v ms

def sortMembers : List (Bytes × Bytes) → List (Bytes × Bytes)
  | [] => []
  | (k, v) :: ms => insertKey k v (sortMembers ms)

def joinMembers : List (Bytes × Bytes) → Bytes
  | [] => []
  | [(k, v)] => toHex k ++ 58 :: v
  | (k, v) :: m :: ms => toHex k ++ 58 :: v ++ 44 :: joinMembers (m :: ms)

mutual
/-- `r<hex>` raw text, `P` nil pointer, `s<hex>` string, `n<hex>` Number, `t`/`f`, `z` nil interface,
`[a,b]` slice, `S` nil slice, `{<hexkey>:v,…}` map with keys in byte order, `M` nil map -/
def render : DVal → Bytes
  | .rawText bs => 114 :: toHex bs
  | .nilPtr => [80]
  | .str s => 115 :: toHex s
  | .num l => 110 :: toHex l
  | .bool b => if b then [116] else [102]
  | .null => [122]
  | .list xs => 91 :: renderL xs ++ [93]
  | .nilSlice => [83]
  | .map ms => 123 :: joinMembers (sortMembers (renderM ms)) ++ [125]
  | .nilMap => [77]
def renderL : List DVal → Bytes
  | [] => []
  | [x] => render x
  | x :: y :: xs => render x ++ 44 :: renderL (y :: xs)
def renderM : DMembers → List (Bytes × Bytes)
  | [] => []
  | (k, v) :: ms => (k, render v) :: renderM ms
end

def renderKeys : List Bytes → Bytes
  | [] => []
  | [k] => toHex k
  | k :: k' :: ks => toHex k ++ 44 :: renderKeys (k' :: ks)

def renderKind : JKind → Bytes
  | .array => ascii "array"
  | .object => ascii "object"
  | .string => ascii "string"
  | .number => ascii "number"
  | .bool => ascii "bool"

def renderErr : DErr → Bytes
  | .syntax => ascii "syntax"
  | .typeError k off => ascii "type:" ++ renderKind k ++ 64 :: natDigits off
  | .other => ascii "other"

/-- `V <value> K <keys>` (`K -` for the variants that return no keys) / `E <error> V <partial value>` /
`panic` / `fuel` -/
def renderOutcome (withKeys : Bool) : Outcome → Bytes
  | .ok r => 86 :: 32 :: render r.val ++ 32 :: 75 :: 32 :: (if withKeys then renderKeys r.keys else [45])
  | .error e v => 69 :: 32 :: renderErr e ++ 32 :: 86 :: 32 :: render v
  | .panic => ascii "panic"
  | .fuel => ascii "fuel"

/-- the target shapes of the differential harness (`dec-<shape>`) -/
def shapeTarget (shape : String) : Option Target :=
  if shape = "mapraw" then some (.mapOf (.raw true))
  else if shape = "sliceraw" then some (.sliceOf (.raw true))
  else if shape = "patch" then some (.sliceOf (.mapOf (.raw true)))
  else if shape = "any" then some .any
  else if shape = "mapany" then some (.mapOf .any)
  else if shape = "string" then some .str
  else if shape = "rawslice" then some (.sliceOf (.raw false))
  else if shape = "nest" then some (.mapOf (.sliceOf (.mapOf .str)))
  else if shape = "raw" then some (.raw false)
  else if shape = "ptrraw" then some (.raw true)
  else none

/-- mode byte of the harness: `c` UnmarshalWithKeys, `v` UnmarshalValidWithKeys, `C` Unmarshal,
`V` UnmarshalValid; `left` = the `lastKeys` of the pooled state -/
def runMode (mode : UInt8) (t : Target) (data : Bytes) (left : List Bytes) : Option Bytes :=
  if mode = 99 then some (renderOutcome true (unmarshalWithKeys t data left))
  else if mode = 118 then some (renderOutcome true (unmarshalValidWithKeys t data left))
  else if mode = 67 then some (renderOutcome false (unmarshalChecked t data left))
  else if mode = 86 then some (renderOutcome false (unmarshalValid t data left))
  else none

end Codec
end JP
