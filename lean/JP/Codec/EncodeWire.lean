import JP.Codec.Encode

/-!
# Wire format of Go values for the differential test of the encoder (`CODEC … enc …`)

The harness (`enc.go`) sends a Go value as a byte string: one character names the Go type
(the constructor of `GoVal`), byte strings are `<decimal length>:<bytes>`, lists are
`<decimal count>:<items>`; slices and maps carry one extra character for their static element
type, which the model does not need.  See the table in `enc.go`.
-/

namespace JP
namespace Codec
namespace Enc

/-- decimal digits up to `:` -/
def wireNum : Nat → Bytes → Option (Nat × Bytes)
  | _, [] => none
  | acc, c :: cs => if c = 58 then some (acc, cs) else if isDigit c then wireNum (acc * 10 + (c.toNat - 48)) cs else none

def wireStr (bs : Bytes) : Option (Bytes × Bytes) :=
  match wireNum 0 bs with
  | none => none
  | some (n, r) => if n ≤ r.length then some (r.take n, r.drop n) else none

def wireStrs : Nat → Bytes → Option (List Bytes × Bytes)
  | 0, bs => some ([], bs)
  | n + 1, bs =>
    match wireStr bs with
    | none => none
    | some (s, r) => (wireStrs n r).map fun (ss, r') => (s :: ss, r')

def wireOpts : Bytes → Option (Option Bool × Bytes)
  | 45 :: r => some (none, r)
  | 48 :: r => some (some false, r)
  | 49 :: r => some (some true, r)
  | _ => none

mutual
def wireVal : Nat → Bytes → Option (GoVal × Bytes)
  | 0, _ => none
  | _ + 1, [] => none
  | fuel + 1, c :: r =>
    if c = 122 then some (.nilIface, r)                         -- z
    else if c = 116 then some (.bool true, r)                   -- t
    else if c = 102 then some (.bool false, r)                  -- f
    else if c = 115 then (wireStr r).map fun (s, r') => (.str s, r')        -- s
    else if c = 110 then (wireStr r).map fun (s, r') => (.number s, r')     -- n
    else if c = 82 then some (.rawMsg none, r)                  -- R
    else if c = 114 then (wireStr r).map fun (s, r') => (.rawMsg (some s), r')   -- r
    else if c = 81 then some (.rawPtrNil, r)                    -- Q
    else if c = 80 then some (.rawPtr none, r)                  -- P
    else if c = 112 then (wireStr r).map fun (s, r') => (.rawPtr (some s), r')   -- p
    else if c = 65 then (match r with | _ :: r' => some (.sliceNil, r') | [] => none)   -- A<T>
    else if c = 97 then                                          -- a<T><count>:
      (match r with
       | _ :: r' =>
         (match wireNum 0 r' with
          | some (n, r'') => (wireVals fuel n r'').map fun (xs, r3) => (.slice xs, r3)
          | none => none)
       | [] => none)
    else if c = 77 then (match r with | _ :: r' => some (.mapNil, r') | [] => none)     -- M<T>
    else if c = 109 then                                         -- m<T><count>:
      (match r with
       | _ :: r' =>
         (match wireNum 0 r' with
          | some (n, r'') => (wireMembers fuel n r'').map fun (ms, r3) => (.map ms, r3)
          | none => none)
       | [] => none)
    else if c = 108 then some (.lazyNil, r)                     -- l
    else if c = 119 then (wireVal fuel r).map fun (v, r') => (.lazyRaw v, r')    -- w
    else if c = 100 then (wireVal fuel r).map fun (v, r') => (.lazyDoc v, r')    -- d
    else if c = 121 then (wireVal fuel r).map fun (v, r') => (.lazyAry v, r')    -- y
    else if c = 89 then some (.lazyAryNilPtr, r)                -- Y
    else if c = 98 then some (.lazyBad, r)                      -- b
    else if c = 68 then                                          -- D<o><count>:keys<count>:members
      (match wireOpts r with
       | some (o, r1) =>
         (match wireNum 0 r1 with
          | some (nk, r2) =>
            (match wireStrs nk r2 with
             | some (keys, r3) =>
               (match wireNum 0 r3 with
                | some (nm, r4) => (wireMembers fuel nm r4).map fun (ms, r5) => (.docPtr keys ms o, r5)
                | none => none)
             | none => none)
          | none => none)
       | none => none)
    else if c = 69 then                                          -- E<o><count>:keys
      (match wireOpts r with
       | some (o, r1) =>
         (match wireNum 0 r1 with
          | some (nk, r2) => (wireStrs nk r2).map fun (keys, r3) => (.docPtrNilMap keys o, r3)
          | none => none)
       | none => none)
    else if c = 101 then some (.docNilPtr, r)                   -- e
    else if c = 103 then (wireVal fuel r).map fun (v, r') => (.aryPtr v, r')     -- g
    else if c = 71 then some (.aryNilPtr, r)                    -- G
    else none
def wireVals : Nat → Nat → Bytes → Option (List GoVal × Bytes)
  | 0, _, _ => none
  | _ + 1, 0, bs => some ([], bs)
  | fuel + 1, n + 1, bs =>
    match wireVal fuel bs with
    | none => none
    | some (v, r) => (wireVals fuel n r).map fun (vs, r') => (v :: vs, r')
def wireMembers : Nat → Nat → Bytes → Option (List (Bytes × GoVal) × Bytes)
  | 0, _, _ => none
  | _ + 1, 0, bs => some ([], bs)
  | fuel + 1, n + 1, bs =>
    match wireStr bs with
    | none => none
    | some (k, r) =>
      match wireVal fuel r with
      | none => none
      | some (v, r') => (wireMembers fuel n r').map fun (ms, r'') => ((k, v) :: ms, r'')
end

def decodeWire (bs : Bytes) : Option GoVal :=
  match wireVal (2 * bs.length + 2) bs with
  | some (v, []) => some v
  | _ => none

/-- family of the value, for the coverage signature -/
def wireFamily : GoVal → String
  | .rawMsg _ => "raw" | .rawPtr _ => "rawptr" | .rawPtrNil => "rawptr"
  | .number _ => "number" | .str _ => "str" | .bool _ => "bool" | .nilIface => "nil"
  | .slice _ => "slice" | .sliceNil => "slice" | .map _ => "map" | .mapNil => "map"
  | .docPtr _ _ _ => "doc" | .docPtrNilMap _ _ => "docnil" | .docNilPtr => "docnil"
  | .aryPtr _ => "ary" | .aryNilPtr => "ary"
  | _ => "lazy"

end Enc
end Codec
end JP
