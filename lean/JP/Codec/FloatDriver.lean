import JP.Codec.Float

/-!
# Request handler of the `FLOAT` lines (stream `float`, harness/float.go)

    FLOAT <id> enc <bits> <pattern-hex> <quoted 0|1> => <fork> <std> <back>
    FLOAT <id> dec <bits> <literal-hex>              => <fork> <std> <ptr> <any>

`enc`: `<fork>` / `<std>` = `ok:<hex of the output>` | `err` of `Marshal` in the fork and in `encoding/json`;
`<back>` = the bit pattern (hex) the FORK decodes from its own output, `err`, or `-` when there is no output.
`dec`: `ok:<pattern-hex>` | `err` of `Unmarshal` into `float64`/`float32` (fork, standard library), into a
pointer (`*float64`/`*float32`, fork) and into `interface{}` (standard library, no `UseNumber`; `-` for 32 bits).
-/

namespace JP
namespace Codec
namespace Float

def hexNat (s : String) : Option Nat :=
  if s.isEmpty then none
  else s.toList.foldl (fun acc c =>
    match acc with
    | none => none
    | some a =>
      let n := c.toNat
      if 48 ≤ n ∧ n ≤ 57 then some (a * 16 + (n - 48))
      else if 97 ≤ n ∧ n ≤ 102 then some (a * 16 + (n - 87))
      else none) (some 0)

def natHex (n : Nat) : String := String.ofList (Nat.toDigits 16 n)

def fHexOf (b : Bytes) : String :=
  if b.isEmpty then "-" else String.fromUTF8! (ByteArray.mk (toHex b).toArray)

def fUnhex (s : String) : Option Bytes :=
  if s = "-" then some [] else ofHex s.toUTF8.toList

def classTag (bits : Nat) (x : FP) : String :=
  match x.classify bits with
  | .zero => "zero" | .subnormal => "sub" | .normal => "norm" | .inf => "inf" | .nan => "nan"

def obsBytes (o : Option Bytes) : String :=
  match o with | some b => "ok:" ++ fHexOf b | none => "err"

def obsFP (bits : Nat) (o : Option FP) : String :=
  match o with | some x => "ok:" ++ natHex (x.toBits bits) | none => "err"

def stripQuotes (b : Bytes) : Option Bytes :=
  match b with
  | 34 :: r => if r.getLast? = some 34 then some r.dropLast else none
  | _ => none

/-- is `b` one RFC 8259 number literal (reference parser)? -/
def isNumberText (b : Bytes) : Bool :=
  match parseCst b with
  | some (.lit l) => l == b && b.head? ≠ some 116 && b.head? ≠ some 102 && b.head? ≠ some 110
  | _ => false

def handleEnc (id : String) (bits : Nat) (pat : Nat) (quoted : Bool) (fork std back : String) : String :=
  if pat ≥ 2 ^ totalBits bits then id ++ " corr=diff bad-request=float-pattern"
  else
    let x := FP.ofBits bits pat
    let m := floatEncode bits x quoted
    let model := obsBytes m
    -- decoding the model's own output with the model
    let mback : String := match m with
      | none => "-"
      | some b =>
        match (if quoted then stripQuotes b else some b) with
        | none => "err"
        | some t => obsFP bits (storeFloat bits t)
    let corr := model = fork && mback = back
    let fails := searchFails bits x
    let c17 : String :=
      if fork ≠ std then "viol:float-std"
      else if fork.startsWith "ok:" && back ≠ "ok:" ++ natHex pat then "viol:float-roundtrip"
      else if fork.startsWith "ok:" && !(match fUnhex (fork.drop 3).toString with
          | some b => (match (if quoted then stripQuotes b else some b) with
            | some t => isNumberText t
            | none => false)
          | none => false) then "viol:float-wellformed"
      else if !corr then "viol:float-encoder-differs"
      else "ok"
    let c04 : String := if fork = "panic" || fork = "hang" then "viol:panic-or-hang" else "ok"
    let shape : String := match m with
      | none => "err"
      | some b => (if b.contains 101 then "e" else "f") ++ "/" ++ toString (min ((b.filter isDigit).length) 20)
    id ++ " corr=" ++ (if corr then "ok" else "diff") ++ " C17=" ++ c17 ++ " C04=" ++ c04
      ++ " sig=float-enc" ++ toString bits ++ (if quoted then "q" else "") ++ "/" ++ classTag bits x ++ "/" ++ shape
      ++ (if fails then "/SEARCHFAILS" else "")
      ++ " model=" ++ model ++ "|" ++ mback

def handleDec (id : String) (bits : Nat) (lit : Bytes) (fork std ptr any : String) (fany : Option String := none) : String :=
  let inDomain := withinGoDigits lit
  let m := storeFloat bits lit
  let model := obsFP bits m
  let many : String := if bits = 64 then obsFP 64 (stdNumberToAny lit) else "-"
  -- `fany`: the FORK's Decoder without UseNumber storing the literal in an interface{} (`convertNumber`'s float path)
  let fanyOk : Bool := match fany with | some f => bits ≠ 64 || f = many | none => true
  let fanyStd : Bool := match fany with | some f => bits ≠ 64 || f = any | none => true
  let corr := !inDomain || (model = fork && model = ptr && many = any && fanyOk)
  let c17 : String :=
    if fork ≠ std || fork ≠ ptr || (bits = 64 && any ≠ std) || !fanyStd then "viol:float-std"
    else if !corr then "viol:float-decoder-differs"
    else "ok"
  let c04 : String := if fork = "panic" || fork = "hang" then "viol:panic-or-hang" else "ok"
  let cls : String := match parseFloat bits lit with
    | none => "syntax"
    | some (x, e) => if e then "range" else classTag bits x
  let len := lit.length
  let lenTag : String := if len ≤ 8 then "short" else if len ≤ 25 then "mid" else if len ≤ 100 then "long" else "huge"
  id ++ " corr=" ++ (if corr then "ok" else "diff") ++ " C17=" ++ c17 ++ " C04=" ++ c04
    ++ " sig=float-dec" ++ toString bits ++ "/" ++ cls ++ "/" ++ lenTag ++ (if inDomain then "" else "/nomodel")
    ++ " model=" ++ model

def handleFloat (id : String) (args : List String) : String :=
  match args with
  | ["enc", bitsS, patS, qS, "=>", fork, std, back] =>
    match bitsS.toNat?, hexNat patS with
    | some bits, some pat =>
      if bits ≠ 32 ∧ bits ≠ 64 then id ++ " corr=diff bad-request=float-bits"
      else handleEnc id bits pat (qS = "1") fork std back
    | _, _ => id ++ " corr=diff bad-request=float-fields"
  | ["dec", bitsS, litS, "=>", fork, std, ptr, any] =>
    match bitsS.toNat?, fUnhex litS with
    | some bits, some lit =>
      if bits ≠ 32 ∧ bits ≠ 64 then id ++ " corr=diff bad-request=float-bits"
      else handleDec id bits lit fork std ptr any
    | _, _ => id ++ " corr=diff bad-request=float-fields"
  | ["dec", bitsS, litS, "=>", fork, std, ptr, any, fany] =>
    match bitsS.toNat?, fUnhex litS with
    | some bits, some lit =>
      if bits ≠ 32 ∧ bits ≠ 64 then id ++ " corr=diff bad-request=float-bits"
      else handleDec id bits lit fork std ptr any (some fany)
    | _, _ => id ++ " corr=diff bad-request=float-fields"
  | _ => id ++ " corr=diff bad-request=float-arity"

end Float
end Codec
end JP
