import JP.Codec.Decode
import JP.Codec.Encode

/-!
# The streams of `v5/internal/json/stream.go`: `Decoder` (Token / More / Decode) and `Encoder.Encode`

A literal, executable transcription of `Decoder.Decode`, `readValue`, `nonSpace`, `peek`, `More`,
`Token`, `tokenPrepareForDecode`, `tokenValueAllowed`, `tokenValueEnd` and of `Encoder.Encode`.

## The reader

The `io.Reader` behind a `Decoder` is modelled by the bytes it will still deliver.  A `Decoder`
holds `dec.buf` (what was read), `dec.scanp` (start of the unread part) and `dec.r`; the model keeps
one list `rest` = `dec.buf[dec.scanp:]` followed by everything `dec.r` is still going to return.
`refill` (slide the consumed part away, grow, `Read` once, delay the error by one round) only
decides *when* bytes become visible.  It is **abstracted away**: both loops that call it
(`readValue`, `peek`) first look at every buffered byte, and act on the delayed error only once the
buffer is exhausted, so each of them is a function of `rest` alone — under two assumptions about the
reader, which are the model's: the only error it ever returns is `io.EOF`, and after `io.EOF` it
keeps returning `io.EOF` with no data.  The differential harness drives the real `Decoder` through
readers with different chunkings (everything at once, one byte per `Read`, random chunks, the last
chunk together with `io.EOF`); the model has to agree with all of them, which is the check that the
chunking is not observable.

`nonSpace(dec.buf)` in the end-of-input branch of `readValue` looks at the *whole* buffer, not only
at its unread part.  A delayed error is only acted on after `refill` ran at least once in the same
call of `readValue`, and the first `refill` of a call slides `dec.buf[dec.scanp:]` down to index 0
(later ones find `dec.scanp = 0`); nothing between the start of the call and that point moves
`dec.scanp`.  So at that moment `dec.buf` is exactly `rest` as it was when `readValue` was entered.

## Options, errors

`dec.d.useNumber` is `true` (the harness calls `UseNumber()`; `JP/Codec/Decode.lean` models the
decoder with `useNumber` only).  `DisallowUnknownFields` concerns struct targets, which are outside
the universe of `Target`.  Every `Decode(&v)` is given a fresh zero `v` (as `Token` itself does).

Errors are a small enumeration (`SErr`).  Messages, `SyntaxError.Offset`, `InputOffset()`
(`dec.scanned`) and `scan.bytes` are **not modelled**; the kind and offset of an
`UnmarshalTypeError` are those of the decoder model (`DErr`).

`dec.d.lastKeys` is carried because `init` does not clear it; no method of `Decoder` reads it.
-/

namespace JP
namespace Codec
namespace Stream

open Scanner

/-! ## Decoder state -/

/-- `tokenTopValue … tokenObjectComma` -/
inductive TokState where
  | topValue | arrayStart | arrayValue | arrayComma
  | objectStart | objectKey | objectColon | objectValue | objectComma
  deriving Repr, DecidableEq, Inhabited

inductive SErr where
  /-- `io.EOF` -/
  | eof
  /-- `io.ErrUnexpectedEOF` -/
  | unexpectedEOF
  /-- `dec.scan.err`: the scanner rejected a byte in `readValue` (a `*SyntaxError`) -/
  | syntax
  /-- `&SyntaxError{msg: "not at beginning of value"}` (`Decode`) -/
  | notAtValue
  /-- `&SyntaxError{"expected comma after array element"}` (`tokenPrepareForDecode`) -/
  | expectedComma
  /-- `&SyntaxError{"expected colon after object key"}` (`tokenPrepareForDecode`) -/
  | expectedColon
  /-- `dec.tokenError(c)`: `&SyntaxError{"invalid character " + quoteChar(c) + context}` -/
  | tokenError
  deriving Repr, DecidableEq, Inhabited

structure Dec where
  /-- `dec.buf[dec.scanp:]` and everything the reader still delivers -/
  rest : Bytes
  tokenState : TokState := .topValue
  /-- `dec.tokenStack`, the LAST element of the Go slice at the head -/
  tokenStack : List TokState := []
  /-- `dec.err` -/
  err : Option SErr := none
  /-- `dec.d.lastKeys` -/
  lastKeys : List Bytes := []
  deriving Repr, Inhabited

/-- `NewDecoder(r)` (and `UseNumber()`), `input` = everything `r` delivers before `io.EOF` -/
def Dec.new (input : Bytes) : Dec := { rest := input }

/-! ## `peek`, `More` -/

/-- the inner `for` of `peek` continued over the refills: the first byte that is not white space,
with `dec.buf[i:]`; `none` = the buffer ran out and the reader reported `io.EOF` -/
def peekLoop : Bytes → Option (UInt8 × Bytes)
  | [] => none
  | c :: cs => if isSpace c then peekLoop cs else some (c, c :: cs)

/-- `dec.peek()`: on success `dec.scanp = i`; at end of input `dec.scanp` is left where it was -/
def peek (d : Dec) : Dec × Option UInt8 :=
  match peekLoop d.rest with
  | none => (d, none)
  | some (c, r) => ({ d with rest := r }, some c)

def moreOf : Option UInt8 → Bool
  | none => false
  | some c => c ≠ 93 && c ≠ 125

/-- `dec.More()`: `c, err := dec.peek(); return err == nil && c != ']' && c != '}'` -/
def more (d : Dec) : Dec × Bool :=
  let r := peek d
  (r.1, moreOf r.2)

/-! ## `tokenPrepareForDecode`, `tokenValueAllowed`, `tokenValueEnd` -/

/-- `dec.scanp++` -/
def Dec.advance (d : Dec) : Dec := { d with rest := d.rest.tail }

/-- one `case` of `tokenPrepareForDecode` after its `peek`: `if err != nil {return err}; if c != want
{return &SyntaxError{…}}; dec.scanp++; dec.tokenState = next` -/
def prepareAfterPeek (want : UInt8) (e : SErr) (next : TokState) (d1 : Dec) : Option UInt8 → Dec × Option SErr
  | none => (d1, some .eof)
  | some c =>
    if c ≠ want then (d1, some e)
    else ({ d1.advance with tokenState := next }, none)

def tokenPrepareForDecode (d : Dec) : Dec × Option SErr :=
  if d.tokenState = .arrayComma then
    let r := peek d
    prepareAfterPeek 44 .expectedComma .arrayValue r.1 r.2
  else if d.tokenState = .objectColon then
    let r := peek d
    prepareAfterPeek 58 .expectedColon .objectValue r.1 r.2
  else (d, none)

def valueAllowed (s : TokState) : Bool :=
  s = .topValue || s = .arrayStart || s = .arrayValue || s = .objectValue

def tokenValueAllowed (d : Dec) : Bool := valueAllowed d.tokenState

def valueEnd (s : TokState) : TokState :=
  if s = .arrayStart ∨ s = .arrayValue then .arrayComma
  else if s = .objectValue then .objectComma
  else s

def tokenValueEnd (d : Dec) : Dec := { d with tokenState := valueEnd d.tokenState }

/-! ## `readValue` -/

/-- `nonSpace(b)` -/
def nonSpace : Bytes → Bool
  | [] => false
  | c :: cs => if !isSpace c then true else nonSpace cs

inductive ReadRes where
  /-- `return scanp - dec.scanp, nil` -/
  | ok (n : Nat)
  /-- `dec.err = err; return 0, err` -/
  | err (e : SErr)
  deriving Repr, DecidableEq, Inhabited

/-- the loops of `readValue` (`Input:` over the refills, the scan of the buffer inside):
`s` = `dec.scan`, the list = `dec.buf[scanp:]` and what is still to come, `n` = `scanp - dec.scanp`,
`all` = the bytes from `dec.scanp` on (for `nonSpace(dec.buf)`, see the header) -/
def readLoop (all : Bytes) : Scan → Bytes → Nat → ReadRes
  | s, [], n =>
    -- the buffer is exhausted and `refill` returned `io.EOF`
    if (step s 32).2 = scanEnd then .ok n
    else if nonSpace all then .err .unexpectedEOF
    else .err .eof
  | s, c :: cs, n =>
    let r := step s c
    if r.2 = scanEnd then .ok n
    else if r.2 = scanEndObject ∨ r.2 = scanEndArray then
      -- "scanEnd is delayed one byte … instead invent a space byte"
      let r2 := stateEndValue r.1 32
      if r2.2 = scanEnd then .ok (n + 1) else readLoop all r2.1 cs (n + 1)
    else if r.2 = scanError then .err .syntax
    else readLoop all r.1 cs (n + 1)

/-- `dec.readValue()`: `dec.scan.reset()`, the loops; an error is made sticky -/
def readValue (d : Dec) : Dec × ReadRes :=
  match readLoop d.rest Scan.init d.rest 0 with
  | .ok n => (d, .ok n)
  | .err e => ({ d with err := some e }, .err e)

/-! ## `Decode` -/

inductive DecRes where
  | ok (v : DVal)
  /-- an error of the stream layer; the target was not touched -/
  | err (e : SErr)
  /-- the error `dec.d.unmarshal(v)` returned (`d.savedError`), and what the target holds -/
  | unmarshalErr (e : DErr) (part : DVal)
  /-- a Go run-time panic inside `unmarshal` (unreachable: `readValue` only accepts well-formed texts,
  `C17.read_value_wellformed`, `C17.stream_never_panics`) -/
  | panic
  /-- the recursion bound of the decoder MODEL ran out (unreachable, same theorems) -/
  | fuel
  deriving Repr, Inhabited

/-- `return err` after `err = dec.d.unmarshal(v)` (which returns `d.savedError`): the error is NOT saved
into `dec.err` -/
def resOf (se : Option DErr) (v : DVal) : DecRes :=
  match se with
  | none => .ok v
  | some e => .unmarshalErr e v

/-- `dec.d.init(dec.buf[dec.scanp : dec.scanp+n]); dec.scanp += n; err = dec.d.unmarshal(v);
dec.tokenValueEnd()`: `Codec.unmarshal` is `init` + `unmarshal` on a state whose `lastKeys` is given
(no `checkValid`: the scanner of `readValue` has accepted exactly these bytes) -/
def decodeRead (t : Target) (d : Dec) (n : Nat) : Dec × DecRes :=
  let d1 : Dec := { d with rest := d.rest.drop n }
  match unmarshal t (d.rest.take n) d.lastKeys with
  | .ok (D, v) => (tokenValueEnd { d1 with lastKeys := D.lastKeys }, resOf D.savedError v)
  | .panic => (d1, .panic)
  | .fuel => (d1, .fuel)

/-- `n, err := dec.readValue(); if err != nil {return err}; …` -/
def decodeAfterRead (t : Target) (d2 : Dec) : ReadRes → Dec × DecRes
  | .err e => (d2, .err e)
  | .ok n => decodeRead t d2 n

/-- `if err := dec.tokenPrepareForDecode(); err != nil {return err}; if !dec.tokenValueAllowed() {…}; …` -/
def decodeAfterPrepare (t : Target) (d1 : Dec) : Option SErr → Dec × DecRes
  | some e => (d1, .err e)
  | none =>
    if !tokenValueAllowed d1 then (d1, .err .notAtValue)
    else
      let r := readValue d1
      decodeAfterRead t r.1 r.2

/-- `dec.Decode(&v)`, `v` a fresh variable of type `t` -/
def decode (t : Target) (d : Dec) : Dec × DecRes :=
  match d.err with
  | some e => (d, .err e)
  | none =>
    let r := tokenPrepareForDecode d
    decodeAfterPrepare t r.1 r.2

/-! ## `Token` -/

inductive Tok where
  /-- `Delim` -/
  | delim (c : UInt8)
  /-- `nil`, `bool`, `Number`, `string` -/
  | val (v : DVal)
  deriving Repr, Inhabited

inductive TokRes where
  | ok (t : Tok)
  | err (e : SErr)
  /-- the error of `dec.Decode(&x)` inside `Token` when it comes from `unmarshal` -/
  | unmarshalErr (e : DErr)
  /-- Go run-time panic (`dec.tokenStack[len(dec.tokenStack)-1]` on an empty stack; a panic inside
  `Decode`); unreachable from `NewDecoder` (`C17.stream_never_panics`) -/
  | panic
  | fuel
  deriving Repr, Inhabited

/-- `dec.tokenStack = append(dec.tokenStack, dec.tokenState); dec.tokenState = s; dec.scanp++` -/
def pushState (d : Dec) (s : TokState) : Dec :=
  { d.advance with tokenStack := d.tokenState :: d.tokenStack, tokenState := s }

/-- `dec.scanp++; dec.tokenState = dec.tokenStack[len-1]; dec.tokenStack = dec.tokenStack[:len-1];
dec.tokenValueEnd()`; `none` = index out of range -/
def popState (d : Dec) : Option Dec :=
  match d.tokenStack with
  | [] => none
  | s :: st => some (tokenValueEnd { d.advance with tokenState := s, tokenStack := st })

/-- the `Decode(&x)` calls of `Token` -/
def tokOfDecode : DecRes → TokRes
  | .ok v => .ok (.val v)
  | .err e => .err e
  | .unmarshalErr e _ => .unmarshalErr e
  | .panic => .panic
  | .fuel => .fuel

/-- `case '"'` in key position: `old := dec.tokenState; dec.tokenState = tokenTopValue;
err := dec.Decode(&x); dec.tokenState = old; if err != nil {return nil, err}; dec.tokenState =
tokenObjectColon; return x, nil` -/
def tokenKeyFinish (old : TokState) (d1 : Dec) : DecRes → Dec × TokRes
  | .ok v => ({ d1 with tokenState := .objectColon }, .ok (.val v))
  | .err e => ({ d1 with tokenState := old }, .err e)
  | .unmarshalErr e _ => ({ d1 with tokenState := old }, .unmarshalErr e)
  | .panic => ({ d1 with tokenState := old }, .panic)
  | .fuel => ({ d1 with tokenState := old }, .fuel)

def tokenKey (d : Dec) : Dec × TokRes :=
  let r := decode .str { d with tokenState := .topValue }
  tokenKeyFinish d.tokenState r.1 r.2

/-- `default:` (and `'"'` outside key position) -/
def tokenValue (d : Dec) : Dec × TokRes :=
  if !tokenValueAllowed d then (d, .err .tokenError)
  else
    let r := decode .any d
    (r.1, tokOfDecode r.2)

/-- one round of the `for` of `Token` after a successful `peek` that returned `c`:
`inl` = `continue` with the new state, `inr` = `return` -/
def tokenStep (d : Dec) (c : UInt8) : Dec ⊕ (Dec × TokRes) :=
  if c = 91 then
    if !tokenValueAllowed d then .inr (d, .err .tokenError)
    else .inr (pushState d .arrayStart, .ok (.delim 91))
  else if c = 93 then
    if d.tokenState ≠ .arrayStart ∧ d.tokenState ≠ .arrayComma then .inr (d, .err .tokenError)
    else match popState d with
      | none => .inr (d, .panic)
      | some d1 => .inr (d1, .ok (.delim 93))
  else if c = 123 then
    if !tokenValueAllowed d then .inr (d, .err .tokenError)
    else .inr (pushState d .objectStart, .ok (.delim 123))
  else if c = 125 then
    if d.tokenState ≠ .objectStart ∧ d.tokenState ≠ .objectComma then .inr (d, .err .tokenError)
    else match popState d with
      | none => .inr (d, .panic)
      | some d1 => .inr (d1, .ok (.delim 125))
  else if c = 58 then
    if d.tokenState ≠ .objectColon then .inr (d, .err .tokenError)
    else .inl { d.advance with tokenState := .objectValue }
  else if c = 44 then
    if d.tokenState = .arrayComma then .inl { d.advance with tokenState := .arrayValue }
    else if d.tokenState = .objectComma then .inl { d.advance with tokenState := .objectKey }
    else .inr (d, .err .tokenError)
  else if c = 34 ∧ (d.tokenState = .objectStart ∨ d.tokenState = .objectKey) then .inr (tokenKey d)
  else .inr (tokenValue d)

/-- the `for` of `Token`; every `continue` has consumed a byte, so `rest.length + 1` rounds are
enough (`fuel` = the bound ran out: unreachable, `C17.stream_never_panics`) -/
def tokenLoop : Nat → Dec → Dec × TokRes
  | 0, d => (d, .fuel)
  | fuel + 1, d =>
    let r := peek d
    match r.2 with
    | none => (r.1, .err .eof)
    | some c =>
      match tokenStep r.1 c with
      | .inl d2 => tokenLoop fuel d2
      | .inr x => x

/-- `dec.Token()` -/
def token (d : Dec) : Dec × TokRes := tokenLoop (d.rest.length + 1) d

/-! ## Programs and their traces (shared with the harness) -/

inductive Step where
  | token
  | more
  | decode (t : Target)
  deriving Repr, Inhabited

/-- `T` Token, `M` More; Decode into: `a` any, `s` string, `r` RawMessage, `p` *RawMessage,
`m` map[string]any, `l` []any, `k` map[string]*lazyNode-like, `q` []RawMessage -/
def stepOfByte (c : UInt8) : Option Step :=
  if c = 84 then some .token
  else if c = 77 then some .more
  else if c = 97 then some (.decode .any)
  else if c = 115 then some (.decode .str)
  else if c = 114 then some (.decode (.raw false))
  else if c = 112 then some (.decode (.raw true))
  else if c = 109 then some (.decode (.mapOf .any))
  else if c = 108 then some (.decode (.sliceOf .any))
  else if c = 107 then some (.decode (.mapOf (.raw true)))
  else if c = 113 then some (.decode (.sliceOf (.raw false)))
  else none

def parseProgram : Bytes → Option (List Step)
  | [] => some []
  | c :: cs =>
    match stepOfByte c, parseProgram cs with
    | some s, some ss => some (s :: ss)
    | _, _ => none

def renderSErr : SErr → Bytes
  | .eof => ascii "EOF"
  | .unexpectedEOF => ascii "UEOF"
  | .syntax => ascii "syntax"
  | .notAtValue => ascii "notvalue"
  | .expectedComma => ascii "comma"
  | .expectedColon => ascii "colon"
  | .tokenError => ascii "syntax"          -- also a `*SyntaxError` "invalid character …": same class

/-- `T:<c>` delimiter, `T=<value>`, `T!<error>` -/
def renderTokRes : TokRes → Bytes
  | .ok (.delim c) => [84, 58, c]
  | .ok (.val v) => 84 :: 61 :: render v
  | .err e => 84 :: 33 :: renderSErr e
  | .unmarshalErr e => 84 :: 33 :: renderErr e
  | .panic => ascii "Tpanic"
  | .fuel => ascii "Tfuel"

/-- `D=<value>`, `D!<error>` (stream layer), `D?<error>=<partial value>` (unmarshal) -/
def renderDecRes : DecRes → Bytes
  | .ok v => 68 :: 61 :: render v
  | .err e => 68 :: 33 :: renderSErr e
  | .unmarshalErr e v => 68 :: 63 :: renderErr e ++ 61 :: render v
  | .panic => ascii "Dpanic"
  | .fuel => ascii "Dfuel"

def runStep (d : Dec) : Step → Dec × Bytes
  | .token => let r := token d; (r.1, renderTokRes r.2)
  | .more => let r := more d; (r.1, if r.2 then ascii "M1" else ascii "M0")
  | .decode t => let r := decode t d; (r.1, renderDecRes r.2)

/-- the pieces of the trace, one per step -/
def runProgram : Dec → List Step → List Bytes
  | _, [] => []
  | d, s :: ss => let r := runStep d s; r.2 :: runProgram r.1 ss

def joinTrace : List Bytes → Bytes
  | [] => []
  | [x] => x
  | x :: y :: xs => x ++ 59 :: joinTrace (y :: xs)

/-- the trace of `program` on a fresh `Decoder` over `input`; pieces joined by `;` -/
def trace (input program : Bytes) : Option Bytes :=
  (parseProgram program).map fun p => joinTrace (runProgram (Dec.new input) p)

/-! ## `Encoder.Encode` -/

/-- `newline(dst, prefix, indent, depth)` of indent.go -/
def newlineP (pre ind : Bytes) (depth : Nat) : Bytes :=
  10 :: pre ++ (List.replicate depth ind).flatten

/-- the loop of `Indent(dst, src, prefix, indent)`: `Scanner.indentLoop` with the prefix (which that
model fixes to `""`); reversed output as there -/
def indentLoopP (pre ind : Bytes) : Scan → Bool → Nat → Bytes → Bytes → Scan × Bytes
  | s, _, _, [], out => (s, out)
  | s, need, depth, c :: cs, out =>
    let (s', v) := step s c
    if v = scanSkipSpace then indentLoopP pre ind s' need depth cs out
    else if v = scanError then (s', out)
    else
      let (need1, depth1, out1) : Bool × Nat × Bytes :=
        if need && v ≠ scanEndObject && v ≠ scanEndArray then
          (false, depth + 1, (newlineP pre ind (depth + 1)).reverse ++ out)
        else (need, depth, out)
      if v = scanContinue then indentLoopP pre ind s' need1 depth1 cs (c :: out1)
      else if c = 123 ∨ c = 91 then indentLoopP pre ind s' true depth1 cs (c :: out1)
      else if c = 44 then indentLoopP pre ind s' need1 depth1 cs ((newlineP pre ind depth1).reverse ++ c :: out1)
      else if c = 58 then indentLoopP pre ind s' need1 depth1 cs (32 :: c :: out1)
      else if c = 125 ∨ c = 93 then
        if need1 then indentLoopP pre ind s' false depth1 cs (c :: out1)
        else indentLoopP pre ind s' need1 (depth1 - 1) cs (c :: (newlineP pre ind (depth1 - 1)).reverse ++ out1)
      else indentLoopP pre ind s' need1 depth1 cs (c :: out1)

/-- `Indent(dst, src, prefix, indent)` -/
def indentP (pre ind : Bytes) (src : Bytes) : Option Bytes :=
  let (s, out) := indentLoopP pre ind Scan.init false 0 src []
  if eof s then some out.reverse else none

structure Enc where
  /-- `enc.escapeHTML` (`NewEncoder` sets it) -/
  escapeHTML : Bool := true
  indentPrefix : Bytes := []
  indentValue : Bytes := []
  deriving Repr, Inhabited

inductive EncRes where
  /-- the bytes handed to `enc.w.Write` -/
  | ok (out : Bytes)
  /-- the error of `e.marshal` (class as `marshalEscaped` reports it); nothing is written -/
  | err (e : Impl.Err)
  /-- `Indent` rejected the marshalled text (never observed) -/
  | indentErr
  | panic
  deriving Repr, Inhabited

/-- `err = Indent(enc.indentBuf, b, …); if err != nil {return err}; b = enc.indentBuf.Bytes()` -/
def indentRes : Option Bytes → EncRes
  | some o => .ok o
  | none => .indentErr

/-- `enc.Encode(v)`: `e.marshal(v, encOpts{escapeHTML})`, `e.WriteByte('\n')`, `Indent` when a prefix
or an indent is set, `enc.w.Write(b)`.  The writer is assumed not to fail, so `enc.err` stays nil
and is not represented; `indentBuf` is `Reset()` before every use. -/
def encode (enc : Enc) (v : Enc.GoVal) : EncRes :=
  match Enc.enc enc.escapeHTML v with
  | .panic => .panic
  | .err _ e => .err (Enc.classify e)
  | .ok out =>
    let b := out ++ [10]
    if enc.indentPrefix ≠ [] ∨ enc.indentValue ≠ [] then
      indentRes (indentP enc.indentPrefix enc.indentValue b)
    else .ok b

/-- several `Encode` calls on one `Encoder`: everything written, and per call `0` ok / `1` error;
`none` = one of the calls panicked -/
def encodeAll (enc : Enc) : List Enc.GoVal → Option (Bytes × Bytes)
  | [] => some ([], [])
  | v :: vs =>
    match encode enc v, encodeAll enc vs with
    | .panic, _ => none
    | _, none => none
    | .ok o, some (out, fl) => some (o ++ out, 48 :: fl)
    | _, some (out, fl) => some (out, 49 :: fl)

end Stream
end Codec
end JP
