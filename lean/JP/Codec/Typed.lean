import JP.Codec.Encode
import JP.Codec.TypedUnicode

/-!
# The reflective encoder of `v5/internal/json/encode.go` on TYPED Go values

`JP/Codec/Encode.lean` models `encodeState` for the value shapes the library itself marshals.
This file models it for Go values of (almost) arbitrary static type: structs with tags, embedding
and field selection (`typeFields`), maps with string and integer keys, slices, arrays, `[]byte`,
pointers, `interface{}`, the integer kinds, `bool`, `string`, `json.Number`.

## Domain

* `GoType` is a Go type, `GoVal` a Go value; `GoVal.hasType t v` says that `v` is a value of type `t`.
  One constructor `GoVal.nil` stands for the nil slice / map / pointer / interface (the type says which).
* OUTSIDE the model (no constructor): floats (`strconv.AppendFloat`'s shortest representation is not
  modelled), `uintptr`, complex, chan, func; types with `MarshalJSON` / `MarshalText` methods other than
  the library's own (`json.Number` is a plain string type with methods the encoder does not call);
  named pointer types (every pointer type here is an unnamed `*T`, so `ft.Name() == ""` holds where
  `typeFields` asks); recursive types and cyclic values (an inductive type cannot spell them; the
  `ptrLevel`/`ptrSeen` guard therefore never fires: see `Encode.lean`).
* A struct type is its name (`""` for an unnamed type such as those of `reflect.StructOf`) and its
  fields.  Type identity (`visited`, `count`, `nextCount` in `typeFields` are maps keyed by
  `reflect.Type`) is structural equality `GoType.beq`: Go identifies unnamed struct types with
  identical field sequences, and two declared types with one name are one type.
* A field (`reflect.StructField`) is `FieldInfo`: `Name`, `Tag.Get("json")`, `Anonymous`,
  `IsExported()`, and its type.  (`reflect.StructTag.Get`, the conventional `key:"value"` syntax of
  a struct tag, is outside: the model starts at the string `Get` returned.)

## Results

Every encoder function has result `Option Bytes`: `some out` = it returned having appended `out`;
`none` = it was aborted by `e.error` (an invalid `json.Number`), which `e.marshal` turns into the
error return of `Marshal` — no partial output is ever observed here, unlike in `Encode.lean`, because
none of the modelled encoders swallows an error.  The encoders are written defensively: a value
that is not of the type the encoder was built for also gives `none` (never reached from
`hasType`-values: `JP.C17.typed_total`).

The recursion of `reflectValue` is modelled with fuel (`enc`): one unit per nested call of an
encoder function; `marshalTyped` supplies `v.height + 1`, which is enough (`typed_total`).
-/

namespace JP
namespace Codec
namespace Typed

open JP.Codec.Enc (isValidNumber null)

/-! ## Types -/

inductive IntKind where
  | int | int8 | int16 | int32 | int64
  deriving DecidableEq, Repr, Inhabited

inductive UintKind where
  | uint | uint8 | uint16 | uint32 | uint64
  deriving DecidableEq, Repr, Inhabited

def IntKind.bits : IntKind → Nat
  | .int => 64 | .int8 => 8 | .int16 => 16 | .int32 => 32 | .int64 => 64

def UintKind.bits : UintKind → Nat
  | .uint => 64 | .uint8 => 8 | .uint16 => 16 | .uint32 => 32 | .uint64 => 64

def IntKind.inRange (k : IntKind) (n : Int) : Bool :=
  decide (-(2 ^ (k.bits - 1) : Int) ≤ n) && decide (n < (2 ^ (k.bits - 1) : Int))

def UintKind.inRange (k : UintKind) (n : Nat) : Bool := decide (n < 2 ^ k.bits)

/-- the key types `newMapEncoder` accepts without a `TextMarshaler` -/
inductive KeyType where
  | str
  | int (k : IntKind)
  | uint (k : UintKind)
  deriving DecidableEq, Repr, Inhabited

/-- `reflect.StructField` without its type -/
structure FieldInfo where
  name : Bytes          -- `sf.Name`
  tag : Bytes           -- `sf.Tag.Get("json")`
  anonymous : Bool      -- `sf.Anonymous`
  exported : Bool       -- `sf.IsExported()`
  deriving DecidableEq, Repr, Inhabited

inductive GoType where
  | bool
  | int (k : IntKind)
  | uint (k : UintKind)
  | string
  | number                                      -- `json.Number` (kind String)
  | slice (elem : GoType)
  | array (len : Nat) (elem : GoType)
  | map (key : KeyType) (elem : GoType)
  | ptr (elem : GoType)
  | iface                                       -- `interface{}`
  | struct (name : Bytes) (fields : List (FieldInfo × GoType))
  deriving Repr, Inhabited

mutual
/-- identity of `reflect.Type`s -/
def GoType.beq : GoType → GoType → Bool
  | .bool, t => (match t with | .bool => true | _ => false)
  | .int k, t => (match t with | .int k' => k == k' | _ => false)
  | .uint k, t => (match t with | .uint k' => k == k' | _ => false)
  | .string, t => (match t with | .string => true | _ => false)
  | .number, t => (match t with | .number => true | _ => false)
  | .slice e, t => (match t with | .slice e' => e.beq e' | _ => false)
  | .array n e, t => (match t with | .array n' e' => n == n' && e.beq e' | _ => false)
  | .map k e, t => (match t with | .map k' e' => k == k' && e.beq e' | _ => false)
  | .ptr e, t => (match t with | .ptr e' => e.beq e' | _ => false)
  | .iface, t => (match t with | .iface => true | _ => false)
  | .struct n fs, t => (match t with | .struct n' fs' => n == n' && beqFields fs fs' | _ => false)
def beqFields : List (FieldInfo × GoType) → List (FieldInfo × GoType) → Bool
  | [], fs' => fs'.isEmpty
  | (i, t) :: r, fs' => (match fs' with | (i', t') :: r' => i == i' && t.beq t' && beqFields r r' | [] => false)
end

def GoType.isStruct : GoType → Bool
  | .struct _ _ => true
  | _ => false

def GoType.isPtr : GoType → Bool
  | .ptr _ => true
  | _ => false

/-- `t.Elem()` where `typeFields` follows a pointer (`if t.Kind() == reflect.Pointer { t = t.Elem() }`) -/
def GoType.deref : GoType → GoType
  | .ptr e => e
  | t => t

/-- `t.Elem().Kind() == reflect.Uint8` (`newSliceEncoder`) -/
def GoType.isUint8 : GoType → Bool
  | .uint .uint8 => true
  | _ => false

/-- the kinds the `string` option applies to (floats are outside the model) -/
def GoType.quotable : GoType → Bool
  | .bool => true
  | .int _ => true
  | .uint _ => true
  | .string => true
  | .number => true
  | _ => false

mutual
/-- nesting depth of struct types (fuel of the breadth-first search of `typeFields`) -/
def GoType.depth : GoType → Nat
  | .slice e => e.depth + 1
  | .array _ e => e.depth + 1
  | .map _ e => e.depth + 1
  | .ptr e => e.depth + 1
  | .struct _ fs => depthFields fs + 1
  | _ => 0
def depthFields : List (FieldInfo × GoType) → Nat
  | [] => 0
  | (_, t) :: r => max t.depth (depthFields r)
end

/-! ## Values -/

inductive MapKey where
  | str (s : Bytes)
  | int (n : Int)
  | uint (n : Nat)
  deriving DecidableEq, Repr, Inhabited

inductive GoVal where
  | nil                                 -- nil slice, nil map, nil pointer, nil interface
  | bool (b : Bool)
  | int (n : Int)                       -- any signed kind
  | uint (n : Nat)                      -- any unsigned kind
  | str (s : Bytes)                     -- `string` (arbitrary bytes) and `json.Number`
  | bytes (b : Bytes)                   -- a non-nil `[]byte` (`[]uint8`)
  | list (xs : List GoVal)              -- a non-nil slice, or an array
  | map (ms : List (MapKey × GoVal))    -- a non-nil map: distinct keys, in any order
  | ptr (v : GoVal)                     -- a non-nil pointer and what it points to
  | iface (t : GoType) (v : GoVal)      -- a non-nil `interface{}`: dynamic type and value
  | struct (fs : List GoVal)            -- one value per field of the struct type, in declaration order
  deriving Repr, Inhabited

mutual
/-- number of nested encoder calls a value can cause (fuel of `enc`) -/
def GoVal.height : GoVal → Nat
  | .list xs => heightL xs + 1
  | .map ms => heightM ms + 1
  | .ptr v => v.height + 1
  | .iface _ v => v.height + 1
  | .struct fs => heightL fs + 1
  | _ => 0
def heightL : List GoVal → Nat
  | [] => 0
  | x :: xs => max x.height (heightL xs)
def heightM : List (MapKey × GoVal) → Nat
  | [] => 0
  | (_, v) :: ms => max v.height (heightM ms)
end

mutual
/-- nesting depth of the JSON containers a value can produce (slices, arrays, maps, structs) -/
def GoVal.depth : GoVal → Nat
  | .list xs => depthL xs + 1
  | .map ms => depthM ms + 1
  | .ptr v => v.depth
  | .iface _ v => v.depth
  | .struct fs => depthL fs + 1
  | _ => 0
def depthL : List GoVal → Nat
  | [] => 0
  | x :: xs => max x.depth (depthL xs)
def depthM : List (MapKey × GoVal) → Nat
  | [] => 0
  | (_, v) :: ms => max v.depth (depthM ms)
end

def MapKey.hasType (k : KeyType) : MapKey → Bool
  | .str _ => (match k with | .str => true | _ => false)
  | .int n => (match k with | .int ik => ik.inRange n | _ => false)
  | .uint n => (match k with | .uint uk => uk.inRange n | _ => false)

def distinctKeys : List MapKey → Bool
  | [] => true
  | k :: ks => !ks.contains k && distinctKeys ks

/-- Go identifiers (`sf.Name`): letters, digits, `_`; here only what the output needs — no byte
below U+0080 other than those (so no quote, backslash or control character) -/
def identByte (b : UInt8) : Bool :=
  b.toNat ≥ 128 || (48 ≤ b.toNat && b.toNat ≤ 57) || (65 ≤ b.toNat && b.toNat ≤ 90)
    || (97 ≤ b.toNat && b.toNat ≤ 122) || b.toNat = 95

mutual
/-- the type can be declared in Go as far as the encoder's output depends on it: field names are
identifiers -/
def GoType.wf : GoType → Bool
  | .slice e => e.wf
  | .array _ e => e.wf
  | .map _ e => e.wf
  | .ptr e => e.wf
  | .struct _ fs => wfFields fs
  | _ => true
def wfFields : List (FieldInfo × GoType) → Bool
  | [] => true
  | (i, t) :: r => !i.name.isEmpty && i.name.all identByte && t.wf && wfFields r
end

def GoType.nilable : GoType → Bool
  | .slice _ => true
  | .map _ _ => true
  | .ptr _ => true
  | .iface => true
  | _ => false

mutual
/-- `v` is a value of type `t` -/
def GoVal.hasType : GoType → GoVal → Bool
  | t, .nil => t.nilable
  | t, .bool _ => (match t with | .bool => true | _ => false)
  | t, .int n => (match t with | .int k => k.inRange n | _ => false)
  | t, .uint n => (match t with | .uint k => k.inRange n | _ => false)
  | t, .str _ => (match t with | .string => true | .number => true | _ => false)
  | t, .bytes _ => (match t with | .slice e => e.isUint8 | _ => false)
  | t, .list xs =>
    (match t with
     | .slice e => !e.isUint8 && hasTypeAll e xs
     | .array n e => xs.length == n && hasTypeAll e xs
     | _ => false)
  | t, .map ms =>
    (match t with
     | .map k e => distinctKeys (ms.map Prod.fst) && hasTypeM k e ms
     | _ => false)
  | t, .ptr v => (match t with | .ptr e => GoVal.hasType e v | _ => false)
  | t, .iface dt v =>
    (match t with
     | .iface => (match dt with | .iface => false | _ => true) && dt.wf && GoVal.hasType dt v
     | _ => false)
  | t, .struct vs => (match t with | .struct _ fts => hasTypeL fts vs | _ => false)
def hasTypeAll (e : GoType) : List GoVal → Bool
  | [] => true
  | x :: xs => GoVal.hasType e x && hasTypeAll e xs
def hasTypeM (k : KeyType) (e : GoType) : List (MapKey × GoVal) → Bool
  | [] => true
  | (key, v) :: ms => key.hasType k && GoVal.hasType e v && hasTypeM k e ms
def hasTypeL : List (FieldInfo × GoType) → List GoVal → Bool
  | fts, [] => fts.isEmpty
  | fts, v :: vs => (match fts with | (_, ft) :: r => GoVal.hasType ft v && hasTypeL r vs | [] => false)
end

/-! ## `strconv.AppendInt` / `AppendUint` / `FormatInt`, base 10 -/

/-- digits of `n`, most significant first, in front of `acc` (`formatBits`: divide by ten until
below ten) -/
def decGo : Nat → Nat → Bytes → Bytes
  | 0, _, acc => acc
  | fuel + 1, n, acc =>
    if n < 10 then UInt8.ofNat (48 + n) :: acc
    else decGo fuel (n / 10) (UInt8.ofNat (48 + n % 10) :: acc)

def decimal (n : Nat) : Bytes := decGo (n + 1) n []

def fmtInt (i : Int) : Bytes :=
  if i < 0 then 45 :: decimal i.natAbs else decimal i.natAbs

/-! ## `base64.StdEncoding.Encode` (alphabet `A-Za-z0-9+/`, padding `=`) -/

def b64Char (n : Nat) : UInt8 :=
  if n < 26 then UInt8.ofNat (65 + n)
  else if n < 52 then UInt8.ofNat (97 + (n - 26))
  else if n < 62 then UInt8.ofNat (48 + (n - 52))
  else if n = 62 then 43
  else 47

def base64 : Bytes → Bytes
  | [] => []
  | [a] => [b64Char (a.toNat / 4), b64Char (a.toNat % 4 * 16), 61, 61]
  | [a, b] => [b64Char (a.toNat / 4), b64Char (a.toNat % 4 * 16 + b.toNat / 16), b64Char (b.toNat % 16 * 4), 61]
  | a :: b :: c :: rest =>
    b64Char (a.toNat / 4) :: b64Char (a.toNat % 4 * 16 + b.toNat / 16)
      :: b64Char (b.toNat % 16 * 4 + c.toNat / 64) :: b64Char (c.toNat % 64) :: base64 rest

/-! ## tags.go -/

/-- `strings.Cut(s, ",")`: before, after (`after = ""` when there is no comma) -/
def cutComma : Bytes → Bytes × Bytes
  | [] => ([], [])
  | c :: cs => if c = 44 then ([], cs) else ((cutComma cs).1.cons c, (cutComma cs).2)

/-- `parseTag` -/
def parseTag (tag : Bytes) : Bytes × Bytes := cutComma tag

/-- the loop of `tagOptions.Contains` -/
def containsGo (optionName : Bytes) : Nat → Bytes → Bool
  | 0, _ => false
  | fuel + 1, s =>
    if s.isEmpty then false
    else if (cutComma s).1 = optionName then true
    else containsGo optionName fuel (cutComma s).2

/-- `tagOptions.Contains` -/
def tagContains (o : Bytes) (optionName : Bytes) : Bool :=
  if o.isEmpty then false else containsGo optionName (o.length + 1) o

/-! ## `isValidTag` -/

def tagPunct : Bytes := ascii "!#$%&()*+-./:;<=>?@[]^_{|}~ "

/-- one iteration of the `switch` in `isValidTag`: `true` = the rune is allowed -/
def validTagRune (r : Nat) : Bool :=
  (r < 128 && tagPunct.contains (UInt8.ofNat r)) || isLetter r || isDigitRune r

/-- `for _, c := range s`: runes as `utf8.DecodeRuneInString` gives them (an invalid byte is
U+FFFD of width 1, which is neither letter nor digit) -/
def isValidTagGo : Nat → Bytes → Bool
  | 0, _ => false
  | _ + 1, [] => true
  | fuel + 1, b :: rest =>
    if validTagRune (decodeRune (b :: rest)).1 then isValidTagGo fuel ((b :: rest).drop (decodeRune (b :: rest)).2)
    else false

def isValidTag (s : Bytes) : Bool :=
  if s.isEmpty then false else isValidTagGo (s.length + 1) s

/-! ## `typeFields` -/

/-- encode.go `field`, the members the encoder reads (`nameBytes`, `equalFold`, `nameIndex` belong to
the decoder; `nameNonEsc`/`nameEscHTML` are functions of `name`: `fieldName`; `encoder` is
`typeEncoder(typeByIndex(t, index))`: `typeByIndex`) -/
structure Fld where
  name : Bytes
  tag : Bool
  index : List Nat
  typ : GoType
  omitEmpty : Bool
  quoted : Bool
  deriving Repr, Inhabited

/-- `m[t]` of a `map[reflect.Type]int` -/
def countOf (t : GoType) : List (GoType × Nat) → Nat
  | [] => 0
  | (t', n) :: r => if t'.beq t then n else countOf t r

/-- `m[t]++` -/
def incr (t : GoType) : List (GoType × Nat) → List (GoType × Nat)
  | [] => [(t, 1)]
  | (t', n) :: r => if t'.beq t then (t', n + 1) :: r else (t', n) :: incr t r

/-- the variables the two inner loops of `typeFields` assign -/
structure Scan where
  next : List Fld
  nextCount : List (GoType × Nat)
  fields : List Fld
  deriving Inhabited

/-- the field a struct field gives rise to when it is recorded (`field := field{…}`) -/
def mkFld (f : Fld) (i : Nat) (sf : FieldInfo) (sft : GoType) : Fld :=
  let name := if isValidTag (parseTag sf.tag).1 then (parseTag sf.tag).1 else []
  let opts := (parseTag sf.tag).2
  let ft := sft.deref      -- `if ft.Name() == "" && ft.Kind() == reflect.Pointer { ft = ft.Elem() }`
  { name := if name.isEmpty then sf.name else name
    tag := !name.isEmpty
    index := f.index ++ [i]
    typ := ft
    omitEmpty := tagContains opts (ascii "omitempty")
    quoted := tagContains opts (ascii "string") && ft.quotable }

/-- the body of `for i := 0; i < f.typ.NumField(); i++` for the field `sf` (of type `sft`) at
position `i` of the struct `f.typ` -/
def scanField (count : List (GoType × Nat)) (f : Fld) (i : Nat) (sf : FieldInfo) (sft : GoType) (st : Scan) : Scan :=
  -- `if sf.Anonymous { t := sf.Type; if pointer { t = t.Elem() }; if !sf.IsExported() && t.Kind() != reflect.Struct { continue } }
  --  else if !sf.IsExported() { continue }`
  if sf.anonymous && !sf.exported && !sft.deref.isStruct then st
  else if !sf.anonymous && !sf.exported then st
  -- `if tag == "-" { continue }`
  else if sf.tag = [45] then st
  else
    let fld := mkFld f i sf sft
    -- `if name != "" || !sf.Anonymous || ft.Kind() != reflect.Struct` (`fld.tag` is `name != ""`)
    if fld.tag || !sf.anonymous || !fld.typ.isStruct then
      -- `fields = append(fields, field)`; a second copy `if count[f.typ] > 1`
      { st with fields := st.fields ++ (if countOf f.typ count > 1 then [fld, fld] else [fld]) }
    else
      -- `nextCount[ft]++; if nextCount[ft] == 1 { next = append(next, field{name: ft.Name(), index: index, typ: ft}) }`
      let nc := incr fld.typ st.nextCount
      { st with
        nextCount := nc
        next := if countOf fld.typ nc = 1
                then st.next ++ [{ name := [], tag := false, index := fld.index, typ := fld.typ, omitEmpty := false, quoted := false }]
                else st.next }

def scanStruct (count : List (GoType × Nat)) (f : Fld) : Nat → List (FieldInfo × GoType) → Scan → Scan
  | _, [], st => st
  | i, (sf, sft) :: rest, st => scanStruct count f (i + 1) rest (scanField count f i sf sft st)

def structFieldsOf : GoType → List (FieldInfo × GoType)
  | .struct _ fs => fs
  | _ => []

/-- `for _, f := range current` with `visited` -/
def scanLevel (count : List (GoType × Nat)) : List Fld → List GoType → Scan → List GoType × Scan
  | [], visited, st => (visited, st)
  | f :: current, visited, st =>
    if visited.any (fun t => t.beq f.typ) then scanLevel count current visited st
    else scanLevel count current (f.typ :: visited) (scanStruct count f 0 (structFieldsOf f.typ) st)

/-- `for len(next) > 0 { current, next = next, current[:0]; count, nextCount = nextCount, map…{} … }` -/
def bfs : Nat → List Fld → List (GoType × Nat) → List GoType → List Fld → List Fld
  | 0, _, _, _, fields => fields
  | fuel + 1, next, nextCount, visited, fields =>
    if next.isEmpty then fields
    else
      let r := scanLevel nextCount next visited { next := [], nextCount := [], fields := fields }
      bfs fuel r.2.next r.2.nextCount r.1 r.2.fields

/-- `byIndex.Less` -/
def indexLess : List Nat → List Nat → Bool
  | [], ys => !ys.isEmpty
  | _ :: _, [] => false
  | x :: xs, y :: ys => if x ≠ y then decide (x < y) else indexLess xs ys

/-- the `less` function of the first `sort.Slice`: by name, then depth, then "name came from a tag",
then index sequence -/
def fldLess (x y : Fld) : Bool :=
  if x.name ≠ y.name then bytesLt x.name y.name
  else if x.index.length ≠ y.index.length then decide (x.index.length < y.index.length)
  else if x.tag ≠ y.tag then x.tag
  else indexLess x.index y.index

/-- sorting by a strict order whose ties are identical elements: every algorithm gives this list -/
def insertBy (lt : Fld → Fld → Bool) (a : Fld) : List Fld → List Fld
  | [] => [a]
  | b :: bs => if lt a b then a :: b :: bs else b :: insertBy lt a bs

def sortBy (lt : Fld → Fld → Bool) : List Fld → List Fld
  | [] => []
  | a :: as => insertBy lt a (sortBy lt as)

/-- `dominantField` (`none` = `ok == false`) -/
def dominantField : List Fld → Option Fld
  | [] => none
  | [f0] => some f0
  | f0 :: f1 :: _ =>
    if f0.index.length = f1.index.length ∧ f0.tag = f1.tag then none else some f0

/-- the loop `for advance, i := 0, 0; i < len(fields); i += advance`: one iteration per name -/
def dominate : Nat → List Fld → List Fld
  | 0, _ => []
  | _ + 1, [] => []
  | fuel + 1, fi :: rest =>
    let same := rest.takeWhile (fun fj => fj.name = fi.name)
    let after := rest.dropWhile (fun fj => fj.name = fi.name)
    if same.isEmpty then fi :: dominate fuel after            -- `advance == 1`
    else
      match dominantField (fi :: same) with
      | some d => d :: dominate fuel after
      | none => dominate fuel after

def rootFld (t : GoType) : Fld :=
  { name := [], tag := false, index := [], typ := t, omitEmpty := false, quoted := false }

/-- the fields found by the breadth-first search, before sorting -/
def rawFields (t : GoType) : List Fld := bfs (t.depth + 1) [rootFld t] [] [] []

/-- `typeFields(t).list` -/
def typeFields (t : GoType) : List Fld :=
  let sorted := sortBy fldLess (rawFields t)
  sortBy (fun a b => indexLess a.index b.index) (dominate (sorted.length + 1) sorted)

/-- `typeByIndex` (a path that leaves the type gives `bool`: never for the paths of `typeFields t`) -/
def typeByIndex : GoType → List Nat → GoType
  | t, [] => t
  | t, i :: is =>
    match (structFieldsOf t.deref)[i]? with
    | some (_, ft) => typeByIndex ft is
    | none => .bool

/-! ## the encoders -/

/-- `isEmptyValue`, by the kind of the field's type -/
def isEmptyValue (t : GoType) (v : GoVal) : Bool :=
  match t with
  | .bool => (match v with | .bool b => !b | _ => false)
  | .int _ => (match v with | .int n => n == 0 | _ => false)
  | .uint _ => (match v with | .uint n => n == 0 | _ => false)
  | .string => (match v with | .str s => s.isEmpty | _ => false)
  | .number => (match v with | .str s => s.isEmpty | _ => false)
  | .slice _ => (match v with | .nil => true | .list xs => xs.isEmpty | .bytes b => b.isEmpty | _ => false)
  | .array _ _ => (match v with | .list xs => xs.isEmpty | _ => false)
  | .map _ _ => (match v with | .nil => true | .map ms => ms.isEmpty | _ => false)
  | .ptr _ => (match v with | .nil => true | _ => false)
  | .iface => (match v with | .nil => true | _ => false)
  | .struct _ _ => false

/-- `if opts.quoted { e.WriteByte('"') } … if opts.quoted { e.WriteByte('"') }` -/
def wrapQuoted (quoted : Bool) (b : Bytes) : Bytes := if quoted then 34 :: b ++ [34] else b

def boolEncoder (quoted : Bool) : GoVal → Option Bytes
  | .bool b => some (wrapQuoted quoted (if b then ascii "true" else ascii "false"))
  | _ => none

def intEncoder (quoted : Bool) : GoVal → Option Bytes
  | .int n => some (wrapQuoted quoted (fmtInt n))
  | _ => none

def uintEncoder (quoted : Bool) : GoVal → Option Bytes
  | .uint n => some (wrapQuoted quoted (decimal n))
  | _ => none

/-- `e.string(s, escapeHTML)` (the loop is `quoteBody`) -/
def goString (esc : Bool) (s : Bytes) : Bytes := 34 :: quoteBody esc s ++ [34]

/-- `stringEncoder`, `v.Type() != numberType`: a quoted string is marshalled twice, the second time
without HTML escaping -/
def stringEncoder (esc quoted : Bool) : GoVal → Option Bytes
  | .str s => some (if quoted then goString false (goString esc s) else goString esc s)
  | _ => none

/-- `stringEncoder`, `v.Type() == numberType` -/
def numberEncoder (quoted : Bool) : GoVal → Option Bytes
  | .str s =>
    let numStr := if s.isEmpty then [48] else s
    if isValidNumber numStr then some (wrapQuoted quoted numStr) else none
  | _ => none

/-- `encodeByteSlice` -/
def encodeByteSlice : GoVal → Option Bytes
  | .nil => some null
  | .bytes b => some (34 :: base64 b ++ [34])
  | _ => none

/-- the loop of `arrayEncoder.encode`, every element already encoded -/
def joinComma : List Bytes → Bytes
  | [] => []
  | [x] => x
  | x :: y :: xs => x ++ 44 :: joinComma (y :: xs)

/-- `List.mapM` spelled out (equation lemmas by `rfl`) -/
def encAll {α : Type} (f : GoVal → Option α) : List GoVal → Option (List α)
  | [] => some []
  | x :: xs =>
    match f x with
    | none => none
    | some b =>
      match encAll f xs with
      | none => none
      | some bs => some (b :: bs)

/-- `arrayEncoder.encode` -/
def arrayBody (f : GoVal → Option Bytes) (xs : List GoVal) : Option Bytes :=
  match encAll f xs with
  | none => none
  | some bs => some (91 :: joinComma bs ++ [93])

def arrayEncoder (f : GoVal → Option Bytes) (n : Nat) : GoVal → Option Bytes
  | .list xs => if xs.length = n then arrayBody f xs else none
  | _ => none

/-- `sliceEncoder.encode` -/
def sliceEncoder (f : GoVal → Option Bytes) : GoVal → Option Bytes
  | .nil => some null
  | .list xs => arrayBody f xs
  | _ => none

/-- `ptrEncoder.encode` -/
def ptrEncoder (f : GoVal → Option Bytes) : GoVal → Option Bytes
  | .nil => some null
  | .ptr v => f v
  | _ => none

/-- `interfaceEncoder`: `e.reflectValue(v.Elem(), opts)` dispatches on the dynamic type -/
def interfaceEncoder (f : GoType → GoVal → Option Bytes) : GoVal → Option Bytes
  | .nil => some null
  | .iface t v => f t v
  | _ => none

/-- `reflectWithString.resolve` -/
def keyText : MapKey → Bytes
  | .str s => s
  | .int n => fmtInt n
  | .uint n => decimal n

/-- every entry of the map: key text and encoded element (`sv[i].ks`, and `me.elemEnc` tabulated
before the entries are visited in key order: encoding is a function of the value) -/
def encEntries {α : Type} (f : GoVal → Option α) : List (MapKey × GoVal) → Option (List (Bytes × α))
  | [] => some []
  | (k, v) :: ms =>
    match f v with
    | none => none
    | some b =>
      match encEntries f ms with
      | none => none
      | some r => some ((keyText k, b) :: r)

/-- `sort.Slice(sv, func(i, j int) bool { return sv[i].ks < sv[j].ks })` on distinct key texts -/
def insertKV {α : Type} (k : Bytes) (b : α) : List (Bytes × α) → List (Bytes × α)
  | [] => [(k, b)]
  | (k', b') :: ms => if bytesLt k k' then (k, b) :: (k', b') :: ms else (k', b') :: insertKV k b ms

def sortKV {α : Type} : List (Bytes × α) → List (Bytes × α)
  | [] => []
  | (k, b) :: ms => insertKV k b (sortKV ms)

/-- the loop of `mapEncoder.encode`: `if i > 0 {','}; e.string(kv.ks, opts.escapeHTML); ':'; elem` -/
def emitEntries (esc : Bool) : List (Bytes × Bytes) → Bytes
  | [] => []
  | [(k, b)] => goString esc k ++ 58 :: b
  | (k, b) :: m :: ms => goString esc k ++ 58 :: b ++ 44 :: emitEntries esc (m :: ms)

/-- `mapEncoder.encode` -/
def mapEncoder (esc : Bool) (f : GoVal → Option Bytes) : GoVal → Option Bytes
  | .nil => some null
  | .map ms =>
    match encEntries f ms with
    | none => none
    | some kvs => some (123 :: emitEntries esc (sortKV kvs) ++ [125])
  | _ => none

/-- result of following `f.index` from the struct value -/
inductive Walked where
  | skip                -- a nil embedded pointer on the way: `continue FieldLoop`
  | bad                 -- the value is not of the struct type (never for `hasType` values)
  | val (v : GoVal)
  deriving Inhabited

/-- `fv.Field(i)` -/
def fieldOf (i : Nat) : GoVal → Walked
  | .struct fs => (match fs[i]? with | some v => .val v | none => .bad)
  | _ => .bad

/-- `if fv.Kind() == reflect.Pointer { if fv.IsNil() { continue FieldLoop }; fv = fv.Elem() }; fv = fv.Field(i)` -/
def walkStep (i : Nat) : GoVal → Walked
  | .nil => .skip
  | .ptr p => fieldOf i p
  | v => fieldOf i v

/-- `for _, i := range f.index` -/
def walk : List Nat → GoVal → Walked
  | [], v => .val v
  | i :: is, v =>
    match walkStep i v with
    | .val v' => walk is v'
    | .skip => .skip
    | .bad => .bad

/-- `f.nameEscHTML` / `f.nameNonEsc`: the name between quotes, HTML-escaped by `HTMLEscape` (not by
`e.string`: a name never needs any other escape, `isValidTag` and Go's identifiers see to that), and
the colon -/
def fieldName (esc : Bool) (name : Bytes) : Bytes :=
  34 :: (if esc then Scanner.htmlEscape 0 name else name) ++ [34, 58]

/-- the `FieldLoop` of `structEncoder.encode`: the members written, each as (field name, encoded value) -/
def encFields {α : Type} (f : Bool → GoType → GoVal → Option α) (t : GoType) (v : GoVal) :
    List Fld → Option (List (Bytes × α))
  | [] => some []
  | fld :: flds =>
    match walk fld.index v with
    | .skip => encFields f t v flds
    | .bad => none
    | .val fv =>
      if fld.omitEmpty && isEmptyValue (typeByIndex t fld.index) fv then encFields f t v flds
      else
        match f fld.quoted (typeByIndex t fld.index) fv with
        | none => none
        | some b =>
          match encFields f t v flds with
          | none => none
          | some r => some ((fld.name, b) :: r)

/-- `next` is `{` before the first member and `,` afterwards; `e.WriteString(f.nameEscHTML | f.nameNonEsc)` -/
def emitMembers (esc : Bool) : List (Bytes × Bytes) → Bytes
  | [] => []
  | [(n, b)] => fieldName esc n ++ b
  | (n, b) :: m :: ms => fieldName esc n ++ b ++ 44 :: emitMembers esc (m :: ms)

/-- `structEncoder.encode` -/
def structEncoder (esc : Bool) (f : Bool → GoType → GoVal → Option Bytes) (t : GoType) (v : GoVal) : Option Bytes :=
  match v with
  | .struct _ =>
    (match encFields f t v (typeFields t) with
     | none => none
     | some ms => some (123 :: emitMembers esc ms ++ [125]))
  | _ => none

/-- `newTypeEncoder(t)` applied: one encoder call, the nested calls going through `f` -/
def encT (esc : Bool) (f : Bool → GoType → GoVal → Option Bytes) (quoted : Bool) (t : GoType) (v : GoVal) : Option Bytes :=
  match t with
  | .bool => boolEncoder quoted v
  | .int _ => intEncoder quoted v
  | .uint _ => uintEncoder quoted v
  | .string => stringEncoder esc quoted v
  | .number => numberEncoder quoted v
  | .iface => interfaceEncoder (f quoted) v
  | .struct n fs => structEncoder esc f (.struct n fs) v
  | .map _ e => mapEncoder esc (f quoted e) v
  | .slice e => if e.isUint8 then encodeByteSlice v else sliceEncoder (f quoted e) v
  | .array n e => arrayEncoder (f quoted e) n v
  | .ptr e => ptrEncoder (f quoted e) v

/-- `typeEncoder(t)(e, v, encOpts{quoted, escapeHTML: esc})` -/
def enc (esc : Bool) : Nat → Bool → GoType → GoVal → Option Bytes
  | 0, _, _, _ => none
  | fuel + 1, quoted, t, v => encT esc (enc esc fuel) quoted t v

/-- `MarshalEscaped(v, esc)` for `v` of dynamic type `t` (`t = iface`, `v = nil`: `any(nil)`);
`none` = `(nil, err)` -/
def marshalTyped (esc : Bool) (t : GoType) (v : GoVal) : Option Bytes :=
  enc esc (v.height + 1) false t v

/-- `Marshal(v)` -/
def marshal (t : GoType) (v : GoVal) : Option Bytes := marshalTyped true t v

end Typed
end Codec
end JP
