import JP.Codec.Typed
import JP.Codec.EncodeWire
import JP.Cst

/-!
# Line-protocol rendering of Go types and typed Go values (`CODEC <id> typed …`)

    CODEC <id> typed <esc 0|1> <type> <value> => ok:<hex> | err:-n | panic

`<type>` and `<value>` are hex-encoded byte strings in the format below (written by
`harness/typed.go`: `renderType`, `renderValue`).  Byte strings are `<decimal length>:<bytes>`,
lists `<decimal count>:<items>`, integers `<optional -><decimal digits>;`.

    type   b bool   i<k> int kinds (k: 0 int, 1 int8, 2 int16, 3 int32, 4 int64)   u<k> uint kinds
           s string   n json.Number   l<T> []T   a<len>:<T> [len]T   m<K><T> map[K]T (K: s, i<k>, u<k>)
           p<T> *T   e interface{}
           S<str name><count>:(<flags><str Name><str json tag><T>)*     flags: '0'+ (1 = Anonymous) + (2 = IsExported)
    value  z nil (slice, map, pointer, interface)   t / f   i<int>;   u<int>;   s<str> string or Number
           y<str> []byte   l<count>:<items> slice or array   m<count>:(<key><item>)* (key: s<str>, i<int>;, u<int>;)
           p<item>   e<T><item> interface holding a value of dynamic type T   S<count>:<items> struct
-/

namespace JP
namespace Codec
namespace Typed

open JP.Codec.Enc (wireNum wireStr)

/-- `<optional -><digits>;` -/
def wireInt : Bytes → Option (Int × Bytes)
  | 45 :: r =>
    (match wireNumSemi 0 r with
     | some (n, r') => some (-(n : Int), r')
     | none => none)
  | r =>
    (match wireNumSemi 0 r with
     | some (n, r') => some ((n : Int), r')
     | none => none)
where
  wireNumSemi : Nat → Bytes → Option (Nat × Bytes)
    | _, [] => none
    | acc, c :: cs => if c = 59 then some (acc, cs) else if isDigit c then wireNumSemi (acc * 10 + (c.toNat - 48)) cs else none

def wireNat (bs : Bytes) : Option (Nat × Bytes) :=
  match wireInt bs with
  | some (i, r) => if i < 0 then none else some (i.toNat, r)
  | none => none

def wireIntKind : Bytes → Option (IntKind × Bytes)
  | 48 :: r => some (.int, r)
  | 49 :: r => some (.int8, r)
  | 50 :: r => some (.int16, r)
  | 51 :: r => some (.int32, r)
  | 52 :: r => some (.int64, r)
  | _ => none

def wireUintKind : Bytes → Option (UintKind × Bytes)
  | 48 :: r => some (.uint, r)
  | 49 :: r => some (.uint8, r)
  | 50 :: r => some (.uint16, r)
  | 51 :: r => some (.uint32, r)
  | 52 :: r => some (.uint64, r)
  | _ => none

def wireKeyType : Bytes → Option (KeyType × Bytes)
  | 115 :: r => some (.str, r)
  | 105 :: r => (wireIntKind r).map fun (k, r') => (.int k, r')
  | 117 :: r => (wireUintKind r).map fun (k, r') => (.uint k, r')
  | _ => none

mutual
def wireType : Nat → Bytes → Option (GoType × Bytes)
  | 0, _ => none
  | _ + 1, [] => none
  | fuel + 1, c :: r =>
    if c = 98 then some (.bool, r)                                                    -- b
    else if c = 105 then (wireIntKind r).map fun (k, r') => (.int k, r')               -- i
    else if c = 117 then (wireUintKind r).map fun (k, r') => (.uint k, r')             -- u
    else if c = 115 then some (.string, r)                                             -- s
    else if c = 110 then some (.number, r)                                             -- n
    else if c = 108 then (wireType fuel r).map fun (t, r') => (.slice t, r')           -- l
    else if c = 97 then                                                                 -- a
      (match wireNum 0 r with
       | some (n, r1) => (wireType fuel r1).map fun (t, r') => (.array n t, r')
       | none => none)
    else if c = 109 then                                                                -- m
      (match wireKeyType r with
       | some (k, r1) => (wireType fuel r1).map fun (t, r') => (.map k t, r')
       | none => none)
    else if c = 112 then (wireType fuel r).map fun (t, r') => (.ptr t, r')             -- p
    else if c = 101 then some (.iface, r)                                              -- e
    else if c = 83 then                                                                 -- S
      (match wireStr r with
       | some (name, r1) =>
         (match wireNum 0 r1 with
          | some (n, r2) => (wireFields fuel n r2).map fun (fs, r') => (.struct name fs, r')
          | none => none)
       | none => none)
    else none
def wireFields : Nat → Nat → Bytes → Option (List (FieldInfo × GoType) × Bytes)
  | 0, _, _ => none
  | _ + 1, 0, bs => some ([], bs)
  | _ + 1, _ + 1, [] => none
  | fuel + 1, n + 1, fl :: r =>
    if fl.toNat < 48 ∨ fl.toNat > 51 then none else
    match wireStr r with
    | none => none
    | some (name, r1) =>
      match wireStr r1 with
      | none => none
      | some (tag, r2) =>
        match wireType fuel r2 with
        | none => none
        | some (t, r3) =>
          (wireFields fuel n r3).map fun (fs, r') =>
            (({ name := name, tag := tag, anonymous := (fl.toNat - 48) % 2 = 1, exported := (fl.toNat - 48) / 2 = 1 }, t) :: fs, r')
end

def wireKey : Bytes → Option (MapKey × Bytes)
  | 115 :: r => (wireStr r).map fun (s, r') => (.str s, r')
  | 105 :: r => (wireInt r).map fun (n, r') => (.int n, r')
  | 117 :: r => (wireNat r).map fun (n, r') => (.uint n, r')
  | _ => none

mutual
def wireVal : Nat → Bytes → Option (GoVal × Bytes)
  | 0, _ => none
  | _ + 1, [] => none
  | fuel + 1, c :: r =>
    if c = 122 then some (.nil, r)                                                     -- z
    else if c = 116 then some (.bool true, r)                                          -- t
    else if c = 102 then some (.bool false, r)                                         -- f
    else if c = 105 then (wireInt r).map fun (n, r') => (.int n, r')                   -- i
    else if c = 117 then (wireNat r).map fun (n, r') => (.uint n, r')                  -- u
    else if c = 115 then (wireStr r).map fun (s, r') => (.str s, r')                   -- s
    else if c = 121 then (wireStr r).map fun (s, r') => (.bytes s, r')                 -- y
    else if c = 108 then                                                                -- l
      (match wireNum 0 r with
       | some (n, r1) => (wireVals fuel n r1).map fun (xs, r') => (.list xs, r')
       | none => none)
    else if c = 109 then                                                                -- m
      (match wireNum 0 r with
       | some (n, r1) => (wireEntries fuel n r1).map fun (ms, r') => (.map ms, r')
       | none => none)
    else if c = 112 then (wireVal fuel r).map fun (v, r') => (.ptr v, r')              -- p
    else if c = 101 then                                                                -- e
      (match wireType (r.length + 1) r with
       | some (t, r1) => (wireVal fuel r1).map fun (v, r') => (.iface t v, r')
       | none => none)
    else if c = 83 then                                                                 -- S
      (match wireNum 0 r with
       | some (n, r1) => (wireVals fuel n r1).map fun (xs, r') => (.struct xs, r')
       | none => none)
    else none
def wireVals : Nat → Nat → Bytes → Option (List GoVal × Bytes)
  | 0, _, _ => none
  | _ + 1, 0, bs => some ([], bs)
  | fuel + 1, n + 1, bs =>
    match wireVal fuel bs with
    | none => none
    | some (v, r) => (wireVals fuel n r).map fun (vs, r') => (v :: vs, r')
def wireEntries : Nat → Nat → Bytes → Option (List (MapKey × GoVal) × Bytes)
  | 0, _, _ => none
  | _ + 1, 0, bs => some ([], bs)
  | fuel + 1, n + 1, bs =>
    match wireKey bs with
    | none => none
    | some (k, r) =>
      match wireVal fuel r with
      | none => none
      | some (v, r') => (wireEntries fuel n r').map fun (ms, r'') => ((k, v) :: ms, r'')
end

def decodeType (bs : Bytes) : Option GoType :=
  match wireType (2 * bs.length + 2) bs with
  | some (t, []) => some t
  | _ => none

def decodeVal (bs : Bytes) : Option GoVal :=
  match wireVal (2 * bs.length + 2) bs with
  | some (v, []) => some v
  | _ => none

/-! ### the request handler (formats its own reply line; `JP/Driver.lean` only dispatches to it) -/

def typeFamily : GoType → String
  | .bool => "bool" | .int _ => "int" | .uint _ => "uint" | .string => "string" | .number => "number"
  | .slice _ => "slice" | .array _ _ => "array" | .map _ _ => "map" | .ptr _ => "ptr" | .iface => "iface"
  | .struct _ fs => "struct" ++ toString (min fs.length 9)

def hexOf (b : Bytes) : String :=
  if b.isEmpty then "-" else String.fromUTF8! (ByteArray.mk (toHex b).toArray)

def unhexField (s : String) : Option Bytes :=
  if s = "-" then some [] else ofHex s.toUTF8.toList

/-- `CODEC <id> typed <esc> <type> <value> => <obs>`: the model's `marshalTyped` against the real
`MarshalEscaped`.  C17 verdict: the observed bytes are the model's AND are one RFC 8259 text. -/
def handleTyped (id : String) (args : List String) : String :=
  match args with
  | [escS, tyS, valS, "=>", obsS] =>
    match unhexField tyS, unhexField valS with
    | some tb, some vb =>
      match decodeType tb, decodeVal vb with
      | some t, some v =>
        if !(t.wf && v.hasType t) then id ++ " corr=diff bad-request=typed-ill-typed"
        else
          let esc := escS = "1"
          let m := marshalTyped esc t v
          let model : String := match m with | some b => "ok:" ++ hexOf b | none => "err:-"
          let obsModel : String := match m with | some b => "ok:" ++ hexOf b | none => "err:-n"
          let corr := obsModel = obsS
          let c17 : String :=
            if !corr then "viol:typed-encoder-differs"
            else match m with
              | some b => if (parseCst b).isSome || v.depth > 9000 then "ok" else "viol:typed-output-not-json"
              | none => "ok"
          let c04 : String := if obsS = "panic" || obsS = "hang" then "viol:panic-or-hang" else "ok"
          id ++ " corr=" ++ (if corr then "ok" else "diff") ++ " C17=" ++ c17 ++ " C04=" ++ c04
            ++ " sig=typed-" ++ typeFamily t ++ "/" ++ (if m.isSome then "ok" else "err") ++ "/" ++ toString (min v.height 6)
            ++ " model=" ++ model
      | _, _ => id ++ " corr=diff bad-request=typed-wire"
    | _, _ => id ++ " corr=diff bad-request=typed-hex"
  | _ => id ++ " corr=diff bad-request=typed-arity"

end Typed
end Codec
end JP
