import JP.Codec.Sem
import JP.Impl.Apply
import JP.Impl.Merge

/-!
# Decoder results as the implementation model reads them

The library model (`JP/Impl`) keeps a raw message as its parse tree.  These functions turn what the
transcribed decoder returns (`DVal`, raw texts as bytes) into the model's terms, re-parsing every
captured raw text with the reference parser:

* `nodeOf`     – a `*lazyNode` (nil pointer ↦ `Node.nil`, raw text ↦ `childOf` of its tree);
* `memberOf`   – an entry of `map[string]*json.RawMessage` as `Impl.Member`;
* `canon`      – a dynamic value (`any` with `Number`) as a `Value`, objects sorted by name
                 (Go's maps are unordered; `Impl.anyOf` uses the same normal form).
-/

namespace JP
namespace Codec

open Impl

def nodeOf : DVal → Option Node
  | .rawText t => (parseCst t).map childOf
  | .nilPtr => some .nil
  | _ => none

def nodesOf : DMembers → Option NMembers
  | [] => some []
  | (k, v) :: ms =>
    match nodeOf v, nodesOf ms with
    | some n, some ns => some ((k, n) :: ns)
    | _, _ => none

def nodeList : List DVal → Option (List Node)
  | [] => some []
  | v :: vs =>
    match nodeOf v, nodeList vs with
    | some n, some ns => some (n :: ns)
    | _, _ => none

/-- `m[k]` of a `map[string]*json.RawMessage` -/
def memberOf : Option DVal → Option Member
  | none => some .absent
  | some .nilPtr => some .null
  | some (.rawText t) => (parseCst t).map .val
  | _ => none

mutual
def canon {ρ : Type} : DValG ρ → Value
  | .null => .null
  | .bool b => .bool b
  | .num l => .num l
  | .str s => .str s
  | .list xs => .arr (canonL xs)
  | .map ms => .obj (canonM ms [])
  | _ => .null
def canonL {ρ : Type} : List (DValG ρ) → List Value
  | [] => []
  | x :: xs => canon x :: canonL xs
def canonM {ρ : Type} : DMembersG ρ → Value.Members → Value.Members
  | [], acc => acc
  | (k, v) :: ms, acc => canonM ms (insertSorted k (canon v) acc)
end

end Codec
end JP
