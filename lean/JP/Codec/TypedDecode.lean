import JP.Codec.Typed
import JP.Codec.TypedFold
import JP.Codec.Decode

/-!
# The reflective decoder of `v5/internal/json/decode.go` on TYPED targets

`JP/Codec/Decode.lean` models `decodeState` for the target shapes the library itself decodes into.
This file models it for a target of (almost) arbitrary static type `GoType` (`JP/Codec/Typed.lean`):
structs with tags, embedding and field selection (the SAME `typeFields` the encoder uses), the
case-insensitive member matchers of fold.go (`JP/Codec/TypedFold.lean`), `,string`, maps with string
and integer keys, slices, fixed arrays, `[]byte`, pointers, `interface{}`, the integer kinds, `bool`,
`string`, `json.Number`.

    unmarshalTyped t text  =  Unmarshal(text, &x)   with  var x T   (a fresh zero value)

The result is what `x` holds afterwards AND the error returned: the decoder keeps going after a saved
`UnmarshalTypeError`, so both are observable.

## What is transcribed

`value`, `array`, `object` (map and struct targets), `literalStore` (incl. `fromQuoted`), `valueQuoted`,
`indirect`, the walk along `f.index`, `d.skip`; the `*Interface` fast paths, `scanNext`, `scanWhile`,
`rescanLiteral`, `skip`, `unquoteBytes` are those of `Decode.lean`.

* A Go function that `return`s an error (`literalStore`: an invalid `json.Number` literal; the
  `fromQuoted` cases) ends the whole `Unmarshal` at once with that error, leaving the targets as far
  as they were filled: `R.abort`.  `d.saveError` keeps the first error and goes on: `DState.savedError`.
* Decoding is IN PLACE: a duplicated member decodes into what the first occurrence left (structs and
  maps merge, non-nil pointers are reused, a slice is refilled from index 0 and keeps its backing
  array: `DV.slice xs spare`, `spare` = the elements between `len` and `cap`, which `SetLen(i+1)`
  makes visible again).  `null` leaves non-nilable targets untouched.
* Errors: the KIND only (`DErr`: `syntax`, `typeError <json kind> <Offset>`, `other` for every
  `fmt.Errorf` and `base64.CorruptInputError`); `errorContext` (Struct/Field of the message) is not
  modelled.

## Go-level facts relied on

* every decode starts from a FRESH zero target of type `t` (`zeroDV`); `useNumber` is true.
* every `reflect.Value` the decoder reaches is addressable; it is settable unless it is an embedded
  field of unexported type (`flagEmbedRO`; `Value.Field` does not pass that flag on, so the exported
  fields of an unexported embedded struct are settable).  `typeFields` never goes through a non-embedded
  unexported field (no `flagStickyRO`).  Hence `CanSet` = `FieldInfo.exported` of the last field taken.
  `indirect` on a nil pointer that is not settable calls `Value.Set`, which PANICS
  (`reflect.Value.Set using value obtained using unexported field`): a TAGGED embedded pointer to an
  unexported struct type, when its member is present.  (The untagged case is caught by the walk:
  "cannot set embedded pointer to unexported struct".)
* no type of the domain implements `Unmarshaler` / `TextUnmarshaler` (`json.Number` has value-receiver
  methods `String`, `Float64`, `Int64` only), so `indirect` returns `(nil, nil, pv)`; an interface
  never holds a pointer (the decoder only stores `map[string]any`, `[]any`, `string`, `Number`,
  `bool` into interfaces), so the `v.Kind() == Interface && !v.IsNil()` branch of `indirect` is idle.
* `strconv.ParseInt(s, 10, 64)` / `ParseUint`: optional sign (signed only), one or more ASCII digits,
  the value in range of 64 bits; `OverflowInt/Uint` = range of the kind.
* `base64.StdEncoding.Decode`: `b64Dec` (alphabet `A-Za-z0-9+/`, `=` padding required, `\r`/`\n`
  ignored everywhere, not strict about the unused bits); `DecodedLen(n) = n/4*3`.
* `bytes.EqualFold`: see `TypedFold.lean`.
* slice growth `newcap = cap + cap/2`, at least 4; `reflect.MakeSlice` zeroes; `reflect.Copy` copies
  `len` elements.
-/

namespace JP
namespace Codec
namespace TDec

open Scanner
open JP.Codec.Typed
open JP.Codec.Enc (isValidNumber)

/-! ## Values of the decoder -/

/-- a Go value as the decoder sees it: `GoVal` plus the hidden part of a slice's backing array.
Interfaces hold finished (immutable) values: `GoVal`. -/
inductive DV where
  | nil                                   -- nil slice, map, pointer, interface
  | bool (b : Bool)
  | int (n : Int)
  | uint (n : Nat)
  | str (s : Bytes)
  | slice (xs : List DV) (spare : List DV) -- non-nil slice: `len = xs.length`, `cap = xs.length + spare.length`
  | arr (xs : List DV)
  | map (ms : List (MapKey × DV))
  | ptr (v : DV)
  | iface (t : GoType) (v : GoVal)
  | struct (fs : List DV)
  deriving Repr, Inhabited

mutual
/-- `reflect.Zero(t)` -/
def zeroDV : GoType → DV
  | .bool => .bool false
  | .int _ => .int 0
  | .uint _ => .uint 0
  | .string => .str []
  | .number => .str []
  | .slice _ => .nil
  | .array n e => .arr (List.replicate n (zeroDV e))
  | .map _ _ => .nil
  | .ptr _ => .nil
  | .iface => .nil
  | .struct _ fs => .struct (zeroFields fs)
def zeroFields : List (FieldInfo × GoType) → List DV
  | [] => []
  | (_, t) :: r => zeroDV t :: zeroFields r
end

def dvByte : DV → UInt8
  | .uint n => UInt8.ofNat n
  | _ => 0

mutual
/-- what the caller of `Unmarshal` finds in the target (of type `t`) -/
def toGoVal : GoType → DV → GoVal
  | _, .nil => .nil
  | _, .bool b => .bool b
  | _, .int n => .int n
  | _, .uint n => .uint n
  | _, .str s => .str s
  | t, .slice xs _ =>
    (match t with
     | .slice e => if e.isUint8 then .bytes (xs.map dvByte) else .list (toGoValL e xs)
     | _ => .nil)
  | t, .arr xs => (match t with | .array _ e => .list (toGoValL e xs) | _ => .nil)
  | t, .map ms => (match t with | .map _ e => .map (toGoValM e ms) | _ => .nil)
  | t, .ptr v => (match t with | .ptr e => .ptr (toGoVal e v) | _ => .nil)
  | _, .iface dt v => .iface dt v
  | t, .struct vs => (match t with | .struct _ fs => .struct (toGoValF fs vs) | _ => .nil)
def toGoValL (e : GoType) : List DV → List GoVal
  | [] => []
  | x :: xs => toGoVal e x :: toGoValL e xs
def toGoValM (e : GoType) : List (MapKey × DV) → List (MapKey × GoVal)
  | [] => []
  | (k, v) :: ms => (k, toGoVal e v) :: toGoValM e ms
def toGoValF : List (FieldInfo × GoType) → List DV → List GoVal
  | _, [] => []
  | fs, v :: vs => (match fs with | (_, t) :: r => toGoVal t v :: toGoValF r vs | [] => [])
end

mutual
/-- what `valueInterface` returns, as the content of an `interface{}` -/
def ifaceOf : DVal → GoVal
  | .str s => .iface .string (.str s)
  | .num l => .iface .number (.str l)
  | .bool b => .iface .bool (.bool b)
  | .null => .nil
  | .list xs => .iface (.slice .iface) (.list (ifaceOfL xs))
  | .map ms => .iface (.map .str .iface) (.map (ifaceOfM ms))
  | .rawText _ => .nil                     -- not produced by the `*Interface` functions
  | .nilPtr => .nil
  | .nilSlice => .nil
  | .nilMap => .nil
def ifaceOfL : List DVal → List GoVal
  | [] => []
  | x :: xs => ifaceOf x :: ifaceOfL xs
def ifaceOfM : DMembers → List (MapKey × GoVal)
  | [] => []
  | (k, v) :: ms => (.str k, ifaceOf v) :: ifaceOfM ms
end

/-- `v.Set(reflect.ValueOf(x))` for an `interface{}` target -/
def dvOfIface : GoVal → DV
  | .iface t v => .iface t v
  | _ => .nil

/-! ## Results -/

inductive R (α : Type) where
  | ok (d : DState) (a : α)
  /-- a Go `return err`: the state, the target as far as it was filled, the error -/
  | abort (d : DState) (a : α) (e : DErr)
  | panic
  | fuel
  deriving Inhabited

def R.map {α β : Type} (f : α → β) : R α → R β
  | .ok d a => .ok d (f a)
  | .abort d a e => .abort d (f a) e
  | .panic => .panic
  | .fuel => .fuel

def ofExec {α : Type} : Exec (DState × α) → R α
  | .ok (d, a) => .ok d a
  | .panic => .panic
  | .fuel => .fuel

/-! ## `strconv.ParseUint(s, 10, 64)` / `ParseInt(s, 10, 64)` -/

def parseUint64 (s : Bytes) : Option Nat :=
  if s.isEmpty then none
  else if !s.all isDigit then none
  else
    match digitsVal 0 s with
    | some n => if n < 2 ^ 64 then some n else none
    | none => none

def parseInt64 (s : Bytes) : Option Int :=
  match s with
  | [] => none
  | c :: r =>
    if c = 45 then
      (match parseUint64 r with
       | some un => if un > 2 ^ 63 then none else some (-(un : Int))
       | none => none)
    else
      (match parseUint64 (if c = 43 then r else s) with
       | some un => if un ≥ 2 ^ 63 then none else some (un : Int)
       | none => none)

/-! ## `base64.StdEncoding.Decode` -/

/-- `enc.decodeMap[in]` (`none` = 0xff) -/
def b64Val (c : UInt8) : Option Nat :=
  if 65 ≤ c.toNat && c.toNat ≤ 90 then some (c.toNat - 65)
  else if 97 ≤ c.toNat && c.toNat ≤ 122 then some (c.toNat - 97 + 26)
  else if 48 ≤ c.toNat && c.toNat ≤ 57 then some (c.toNat - 48 + 52)
  else if c = 43 then some 62
  else if c = 47 then some 63
  else none

def isNl (c : UInt8) : Bool := c = 10 || c = 13

/-- the bytes a quantum of `j` sextets gives (`dlen - 1` of them) -/
def b64Emit : List Nat → Bytes
  | [a, b] => [UInt8.ofNat (a * 4 + b / 16)]
  | [a, b, c] => [UInt8.ofNat (a * 4 + b / 16), UInt8.ofNat (b % 16 * 16 + c / 4)]
  | [a, b, c, e] => [UInt8.ofNat (a * 4 + b / 16), UInt8.ofNat (b % 16 * 16 + c / 4), UInt8.ofNat (c % 4 * 64 + e)]
  | _ => []

/-- the `decodeQuantum` loop over the whole source: `buf` = the sextets of the quantum being read;
`none` = `CorruptInputError` -/
def b64Dec : Bytes → List Nat → Bytes → Option Bytes
  | [], buf, out => if buf.isEmpty then some out else none
  | c :: rest, buf, out =>
    match b64Val c with
    | some o =>
      if buf.length = 3 then b64Dec rest [] (out ++ b64Emit (buf ++ [o]))
      else b64Dec rest (buf ++ [o]) out
    | none =>
      if isNl c then b64Dec rest buf out
      else if c ≠ 61 then none
      else if buf.length < 2 then none
      else if buf.length = 2 then
        -- "==" is expected, the first "=" is already consumed
        (match rest.dropWhile isNl with
         | [] => none
         | c2 :: r2 =>
           if c2 ≠ 61 then none
           else if !(r2.dropWhile isNl).isEmpty then none      -- trailing garbage
           else some (out ++ b64Emit buf))
      else
        if !(rest.dropWhile isNl).isEmpty then none
        else some (out ++ b64Emit buf)

def base64Decode (s : Bytes) : Option Bytes := b64Dec s [] []

/-! ## `indirect` -/

/-- the type `indirect(v, false)` ends at -/
def derefT : GoType → GoType
  | .ptr e => derefT e
  | t => t

/-- the value it ends at, nil pointers allocated on the way (`v.Set(reflect.New(v.Type().Elem()))`) -/
def derefV : GoType → DV → DV
  | .ptr e, .ptr p => derefV e p
  | .ptr e, _ => derefV e (zeroDV e)
  | _, v => v

/-- the target after the value `indirect` ended at was replaced -/
def rewrap : GoType → DV → DV
  | .ptr e, v => .ptr (rewrap e v)
  | _, v => v

/-! ## `d.value(reflect.Value{})`: the value is discarded -/

def valueSkip (d : DState) : R Unit :=
  if d.opcode = scanBeginArray ∨ d.opcode = scanBeginObject then
    match skip d with
    | .ok d1 => .ok (scanNext d1) ()
    | .panic => .panic
    | .fuel => .fuel
  else if d.opcode = scanBeginLiteral then
    match rescanLiteral d with
    | .ok d1 => .ok d1 ()
    | .panic => .panic
    | .fuel => .fuel
  else .panic

/-- `saveError(&UnmarshalTypeError{Value: k, Offset: d.off}); d.skip()`: the target keeps `v` -/
def typeErrorSkip (k : JKind) (v : DV) (d : DState) : R DV :=
  match skip (d.saveError (.typeError k d.off)) with
  | .ok d1 => .ok d1 v
  | .panic => .panic
  | .fuel => .fuel

/-! ## `literalStore` -/

def nullLiteral : Bytes := ascii "null"

/-- `case 't', 'f'` on the value `indirect` ended at -/
def storeBool (item : Bytes) (bt : GoType) (bv : DV) (fromQuoted : Bool) (d : DState) : R DV :=
  if fromQuoted && item ≠ ascii "true" && item ≠ ascii "false" then .ok (d.saveError .other) bv
  else
    match bt with
    | .bool => .ok d (.bool (item.head? = some 116))
    | .iface => .ok d (.iface .bool (.bool (item.head? = some 116)))
    | _ =>
      if fromQuoted then .ok (d.saveError .other) bv
      else .ok (d.saveError (.typeError .bool d.readIndex)) bv

/-- `case '"'` -/
def storeString (item : Bytes) (bt : GoType) (bv : DV) (fromQuoted : Bool) (d : DState) : R DV :=
  match unquoteBytes item with
  | none => if fromQuoted then .abort d bv .other else .panic
  | some s =>
    match bt with
    | .slice e =>
      if !e.isUint8 then .ok (d.saveError (.typeError .string d.readIndex)) bv
      else
        (match base64Decode s with
         | none => .ok (d.saveError .other) bv
         | some b =>
           -- `b := make([]byte, DecodedLen(len(s))); v.SetBytes(b[:n])`
           .ok d (.slice (b.map fun x => .uint x.toNat) (List.replicate (s.length / 4 * 3 - b.length) (.uint 0))))
    | .string => .ok d (.str s)
    | .number => if !isValidNumber s then .abort d bv .other else .ok d (.str s)
    | .iface => .ok d (.iface .string (.str s))
    | _ => .ok (d.saveError (.typeError .string d.readIndex)) bv

/-- `default: // number` -/
def storeNumber (item : Bytes) (bt : GoType) (bv : DV) (fromQuoted : Bool) (d : DState) : R DV :=
  match bt with
  | .number => .ok d (.str item)
  | .iface => .ok d (.iface .number (.str item))
  | .int k =>
    (match parseInt64 item with
     | some n => if k.inRange n then .ok d (.int n) else .ok (d.saveError (.typeError .number d.readIndex)) bv
     | none => .ok (d.saveError (.typeError .number d.readIndex)) bv)
  | .uint k =>
    (match parseUint64 item with
     | some n => if k.inRange n then .ok d (.uint n) else .ok (d.saveError (.typeError .number d.readIndex)) bv
     | none => .ok (d.saveError (.typeError .number d.readIndex)) bv)
  | _ =>
    if fromQuoted then .abort d bv .other
    else .ok (d.saveError (.typeError .number d.readIndex)) bv

/-- `d.literalStore(item, v, fromQuoted)`; `cur` = what `v` (of type `t`) holds, `canSet` = `v.CanSet()` -/
def literalStore (item : Bytes) (t : GoType) (cur : DV) (canSet fromQuoted : Bool) (d : DState) : R DV :=
  match item with
  | [] => .ok (d.saveError .other) cur
  | c :: _ =>
    -- `indirect` would `Set` a nil pointer that cannot be set
    if t.isPtr && !canSet then .panic
    else if c = 110 then
      -- `indirect(v, true)` stops at a (settable) pointer
      if fromQuoted && item ≠ nullLiteral then .ok (d.saveError .other) cur
      else if t.nilable then .ok d .nil
      else .ok d cur
    else if c = 116 ∨ c = 102 then R.map (rewrap t) (storeBool item (derefT t) (derefV t cur) fromQuoted d)
    else if c = 34 then R.map (rewrap t) (storeString item (derefT t) (derefV t cur) fromQuoted d)
    else if c ≠ 45 ∧ !isDigit c then
      if fromQuoted then .abort d (rewrap t (derefV t cur)) .other else .panic
    else R.map (rewrap t) (storeNumber item (derefT t) (derefV t cur) fromQuoted d)

/-- the `destring` branch of `object`: `switch qv := d.valueQuoted().(type)` -/
def quotedValue (t : GoType) (cur : DV) (canSet : Bool) (d : DState) : R DV :=
  if d.opcode = scanBeginArray ∨ d.opcode = scanBeginObject then
    match skip d with
    | .ok d1 => .ok ((scanNext d1).saveError .other) cur
    | .panic => .panic
    | .fuel => .fuel
  else if d.opcode = scanBeginLiteral then
    match literalInterface d with
    | .ok (d1, .null) => literalStore nullLiteral t cur canSet false d1
    | .ok (d1, .str s) => literalStore s t cur canSet true d1
    | .ok (d1, _) => .ok (d1.saveError .other) cur
    | .panic => .panic
    | .fuel => .fuel
  else .panic

/-! ## struct fields -/

/-- `fields.nameIndex[string(key)]`, else the linear scan `ff.equalFold(ff.nameBytes, key)` -/
def findField (flds : List Fld) (key : Bytes) : Option Fld :=
  match flds.find? (fun f => f.name = key) with
  | some f => some f
  | none => flds.find? (fun f => fieldEqualFold f.name key)

def dvFields : DV → List DV
  | .struct vs => vs
  | _ => []

def DV.isNil : DV → Bool
  | .nil => true
  | _ => false

def wrapPtrIf (b : Bool) (v : DV) : DV := if b then .ptr v else v

/-- `subv = subv.Field(i)` on the struct `sv` of type `st`; the rest of the walk and the decoding is `k`;
the field is put back (and the struct behind its pointer when `isPtr`) -/
def fieldStep (k : GoType → DV → Bool → DState → R DV) (i : Nat) (st : GoType) (sv : DV) (isPtr : Bool) (d : DState) : R DV :=
  match (structFieldsOf st)[i]?, (dvFields sv)[i]? with
  | some (fi, ft), some fv => R.map (fun v => wrapPtrIf isPtr (.struct ((dvFields sv).set i v))) (k ft fv fi.exported d)
  | _, _ => .panic

/-- `subv.Elem()` after `if subv.IsNil() { subv.Set(reflect.New(subv.Type().Elem())) }` -/
def ptrTarget (e : GoType) : DV → DV
  | .ptr p => p
  | _ => zeroDV e

/-- `for _, i := range f.index { if subv.Kind() == Pointer { if subv.IsNil() { if !subv.CanSet() { … break };
subv.Set(New) }; subv = subv.Elem() }; subv = subv.Field(i) }` and then the decoding of the member's
value by `leaf` (`blocked` when `subv` was invalidated) -/
def atPath (leaf : GoType → DV → Bool → DState → R DV) (blocked : DState → R Unit) :
    List Nat → GoType → DV → Bool → DState → R DV
  | [], t, cur, canSet, d => leaf t cur canSet d
  | i :: is, t, cur, canSet, d =>
    if t.isPtr && cur.isNil && !canSet then
      R.map (fun _ => cur) (blocked (d.saveError .other))
    else
      fieldStep (atPath leaf blocked is) i t.deref (if t.isPtr then ptrTarget t.deref cur else cur) t.isPtr d

/-- one member of a JSON object decoded into the struct `cur` of type `t`: an unknown name is skipped
(`d.value(reflect.Value{})`), a known one is decoded into its field (`destring`: through `valueQuoted`) -/
def memberStep (val : GoType → DV → Bool → DState → R DV) (t : GoType) (flds : List Fld) (cur : DV) (key : Bytes)
    (d : DState) : R DV :=
  match findField flds key with
  | none => R.map (fun _ => cur) (valueSkip d)
  | some f => atPath (if f.quoted then quotedValue else val) valueSkip f.index t cur true d

/-! ## slices and arrays -/

def sliceXs : DV → List DV
  | .slice xs _ => xs
  | _ => []

def sliceSpare : DV → List DV
  | .slice _ sp => sp
  | _ => []

def arrXs : DV → List DV
  | .arr xs => xs
  | _ => []

def mapMs : DV → List (MapKey × DV)
  | .map ms => ms
  | _ => []

/-- `if i >= v.Cap() { newcap := …; newv := MakeSlice(t, v.Len(), newcap); Copy(newv, v); v.Set(newv) };
if i >= v.Len() { v.SetLen(i + 1) }` -/
def growSlice (e : GoType) (xs spare : List DV) (i : Nat) : List DV × List DV :=
  let cap := xs.length + spare.length
  let spare1 := if i ≥ cap then List.replicate ((if cap + cap / 2 < 4 then 4 else cap + cap / 2) - xs.length) (zeroDV e) else spare
  if i ≥ xs.length then ((xs ++ spare1).take (i + 1), (xs ++ spare1).drop (i + 1)) else (xs, spare1)

/-- after the loop: `if i < v.Len() { v.SetLen(i) }; if i == 0 { v.Set(MakeSlice(t, 0, 0)) }` -/
def finishSlice (xs spare : List DV) (i : Nat) : DV :=
  if i = 0 then .slice [] []
  else if i < xs.length then .slice (xs.take i) (xs.drop i ++ spare)
  else .slice xs spare

/-- `if i < v.Len() { for ; i < v.Len(); i++ { v.Index(i).Set(z) } }` -/
def finishArray (e : GoType) (xs : List DV) (i : Nat) : DV :=
  if i < xs.length then .arr (xs.take i ++ List.replicate (xs.length - i) (zeroDV e)) else .arr xs

/-- `if i < v.Len() { d.value(v.Index(i)) } else { d.value(reflect.Value{}) }` -/
def elemStep (val : GoType → DV → Bool → DState → R DV) (e : GoType) (xs : List DV) (i : Nat) (d : DState) : R (List DV) :=
  match xs[i]? with
  | some x => R.map (fun v => xs.set i v) (val e x true d)
  | none => R.map (fun _ => xs) (valueSkip d)

/-! ## maps -/

def setKey (k : MapKey) (v : DV) : List (MapKey × DV) → List (MapKey × DV)
  | [] => [(k, v)]
  | (k', v') :: ms => if k' = k then (k, v) :: ms else (k', v') :: setKey k v ms

/-- the key of a map entry (`none`: `UnmarshalTypeError{"number " + s}`) -/
def mapKeyOf (kt : KeyType) (key : Bytes) : Option MapKey :=
  match kt with
  | .str => some (.str key)
  | .int k =>
    (match parseInt64 key with
     | some n => if k.inRange n then some (.int n) else none
     | none => none)
  | .uint k =>
    (match parseUint64 key with
     | some n => if k.inRange n then some (.uint n) else none
     | none => none)

/-- one member name of `object`: `start`, `rescanLiteral`, `unquoteBytes`, the colon and the space
after it.  Result: state at the first byte of the value, the key, `start`. -/
def readKey (d1 : DState) : Exec (DState × Bytes × Nat) :=
  match rescanLiteral d1 with
  | .panic => .panic
  | .fuel => .fuel
  | .ok d2 =>
    match slice? d2.data d1.readIndex d2.readIndex with
    | none => .panic
    | some item =>
      match unquoteBytes item with
      | none => .panic
      | some key =>
        let d3 := skipSpaceIf d2
        if d3.opcode ≠ scanObjectKey then .panic
        else .ok (scanWhile scanSkipSpace d3, key, d1.readIndex)

/-- `SetMapIndex(kv, subv)` or the key's `UnmarshalTypeError` (offset `start + 1`) -/
def storeEntry (kt : KeyType) (key : Bytes) (start : Nat) (v : DV) (ms : List (MapKey × DV)) (d : DState) :
    DState × List (MapKey × DV) :=
  match mapKeyOf kt key with
  | some k => (d, setKey k v ms)
  | none => (d.saveError (.typeError .number (start + 1)), ms)

/-! ## `value`, `array`, `object` -/

mutual
/-- `d.value(v)`: `v` of type `t` holds `cur` -/
def value : Nat → GoType → DV → Bool → DState → R DV
  | 0, _, _, _, _ => .fuel
  | fuel + 1, t, cur, canSet, d =>
    if d.opcode = scanBeginArray then
      match array fuel t cur canSet d with
      | .ok d1 v => .ok (scanNext d1) v
      | r => r
    else if d.opcode = scanBeginObject then
      match object fuel t cur canSet d with
      | .ok d1 v => .ok (scanNext d1) v
      | r => r
    else if d.opcode = scanBeginLiteral then
      match rescanLiteral d with
      | .panic => .panic
      | .fuel => .fuel
      | .ok d1 =>
        match slice? d1.data d.readIndex d1.readIndex with
        | none => .panic
        | some item => literalStore item t cur canSet false d1
    else .panic

/-- `d.array(v)` -/
def array : Nat → GoType → DV → Bool → DState → R DV
  | 0, _, _, _, _ => .fuel
  | fuel + 1, t, cur, canSet, d =>
    if t.isPtr && !canSet then .panic
    else
      match derefT t with
      | .iface =>
        (match arrayInterface fuel d [] with
         | .ok (d1, vs) => .ok d1 (rewrap t (.iface (.slice .iface) (.list (ifaceOfL vs))))
         | .panic => .panic
         | .fuel => .fuel)
      | .slice e =>
        (match arrLoop fuel true e (sliceXs (derefV t cur)) (sliceSpare (derefV t cur)) 0 d with
         | .ok d1 r => .ok d1 (rewrap t (finishSlice r.1 r.2.1 r.2.2))
         | .abort d1 r err => .abort d1 (rewrap t (.slice r.1 r.2.1)) err
         | .panic => .panic
         | .fuel => .fuel)
      | .array _ e =>
        (match arrLoop fuel false e (arrXs (derefV t cur)) [] 0 d with
         | .ok d1 r => .ok d1 (rewrap t (finishArray e r.1 r.2.2))
         | .abort d1 r err => .abort d1 (rewrap t (.arr r.1)) err
         | .panic => .panic
         | .fuel => .fuel)
      | _ => typeErrorSkip .array (rewrap t (derefV t cur)) d

/-- the `for` loop of `array`: the elements, the hidden elements, `i` -/
def arrLoop : Nat → Bool → GoType → List DV → List DV → Nat → DState → R (List DV × List DV × Nat)
  | 0, _, _, _, _, _, _ => .fuel
  | fuel + 1, isSlice, e, xs, spare, i, d =>
    let d1 := scanWhile scanSkipSpace d
    if d1.opcode = scanEndArray then .ok d1 (xs, spare, i)
    else
      let g := if isSlice then growSlice e xs spare i else (xs, spare)
      match elemStep (value fuel) e g.1 i d1 with
      | .panic => .panic
      | .fuel => .fuel
      | .abort d2 xs2 err => .abort d2 (xs2, g.2, i + 1) err
      | .ok d2 xs2 =>
        let d3 := skipSpaceIf d2
        if d3.opcode = scanEndArray then .ok d3 (xs2, g.2, i + 1)
        else if d3.opcode ≠ scanArrayValue then .panic
        else arrLoop fuel isSlice e xs2 g.2 (i + 1) d3

/-- `d.object(v)` -/
def object : Nat → GoType → DV → Bool → DState → R DV
  | 0, _, _, _, _ => .fuel
  | fuel + 1, t, cur, canSet, d =>
    if t.isPtr && !canSet then .panic
    else
      match derefT t with
      | .iface =>
        (match objectInterface fuel d [] with
         | .ok (d1, m) => .ok d1 (rewrap t (.iface (.map .str .iface) (.map (ifaceOfM m))))
         | .panic => .panic
         | .fuel => .fuel)
      | .map kt e =>
        -- `if v.IsNil() { v.Set(reflect.MakeMap(t)) }`
        (match mapLoop fuel kt e (mapMs (derefV t cur)) [] d with
         | .ok d1 r => .ok { d1 with lastKeys := r.2 } (rewrap t (.map r.1))      -- `d.lastKeys = keys`
         | .abort d1 r err => .abort d1 (rewrap t (.map r.1)) err
         | .panic => .panic
         | .fuel => .fuel)
      | .struct n fs =>
        R.map (rewrap t) (structLoop fuel (.struct n fs) (typeFields (.struct n fs)) (derefV t cur) d)
      | _ => typeErrorSkip .object (rewrap t (derefV t cur)) d

/-- the `for` loop of `object` on a map: the entries and `keys` -/
def mapLoop : Nat → KeyType → GoType → List (MapKey × DV) → List Bytes → DState → R (List (MapKey × DV) × List Bytes)
  | 0, _, _, _, _, _ => .fuel
  | fuel + 1, kt, e, ms, keys, d =>
    let d1 := scanWhile scanSkipSpace d
    if d1.opcode = scanEndObject then .ok d1 (ms, keys)
    else if d1.opcode ≠ scanBeginLiteral then .panic
    else
      match readKey d1 with
      | .panic => .panic
      | .fuel => .fuel
      | .ok (d4, key, start) =>
        -- `mapElem.Set(reflect.Zero(elemType))`
        match value fuel e (zeroDV e) true d4 with
        | .panic => .panic
        | .fuel => .fuel
        | .abort d5 _ err => .abort d5 (ms, keys ++ [key]) err
        | .ok d5 v =>
          let r := storeEntry kt key start v ms d5
          let d6 := skipSpaceIf r.1
          if d6.opcode = scanEndObject then .ok d6 (r.2, keys ++ [key])
          else if d6.opcode ≠ scanObjectValue then .panic
          else mapLoop fuel kt e r.2 (keys ++ [key]) d6

/-- the `for` loop of `object` on a struct of type `t` with `flds = cachedTypeFields(t).list` -/
def structLoop : Nat → GoType → List Fld → DV → DState → R DV
  | 0, _, _, _, _ => .fuel
  | fuel + 1, t, flds, cur, d =>
    let d1 := scanWhile scanSkipSpace d
    if d1.opcode = scanEndObject then .ok d1 cur
    else if d1.opcode ≠ scanBeginLiteral then .panic
    else
      match readKey d1 with
      | .panic => .panic
      | .fuel => .fuel
      | .ok (d4, key, _) =>
        match memberStep (value fuel) t flds cur key d4 with
        | .panic => .panic
        | .fuel => .fuel
        | .abort d5 v err => .abort d5 v err
        | .ok d5 v =>
          let d6 := skipSpaceIf d5
          if d6.opcode = scanEndObject then .ok d6 v
          else if d6.opcode ≠ scanObjectValue then .panic
          else structLoop fuel t flds v d6
end

/-! ## `Unmarshal` -/

/-- `Unmarshal(text, &x)`, `x` a fresh variable of type `t`: what `x` holds afterwards and the error -/
def unmarshalTyped (t : GoType) (text : Bytes) : Exec (GoVal × Option DErr) :=
  if !Scanner.valid text then .ok (toGoVal t (zeroDV t), some .syntax)
  else
    let d0 : DState :=
      { data := text, off := 0, opcode := 0, scan := Scan.init, savedError := none, lastKeys := [] }
    match value (fuelFor text) t (zeroDV t) true (scanWhile scanSkipSpace d0) with
    | .ok d v => .ok (toGoVal t v, d.savedError)
    | .abort _ v e => .ok (toGoVal t v, some e)
    | .panic => .panic
    | .fuel => .fuel

end TDec
end Codec
end JP
