import JP.Basic
import JP.Cst
import JP.Codec.Typed

/-!
# IEEE 754 binary32 / binary64 inside the model: `strconv.ParseFloat`, `strconv.AppendFloat(…, -1, bits)`,
`floatEncoder.encode` and the float branch of `literalStore`

Core Lean only (compiled into the driver); NO Lean `Float` anywhere: a float is its three fields
(`FP`), its value is the dyadic rational `sig · 2 ^ qexp`, all rounding is exact arithmetic on `Nat` / `Int`.

* `parseFloat bits lit` — what `strconv.ParseFloat(lit, bits)` returns on an RFC 8259 number literal: the
  correctly rounded float (nearest, ties to even; binary32 rounded DIRECTLY from the decimal), `±Inf` and
  the range error on overflow, a signed zero / subnormal and NO error on underflow.  The written exponent is
  accumulated the way `readFloat` does it (`if e < 10000 { e = e*10 + digit }`).
  DOMAIN: Go keeps at most 800 significant digits (`decimal.d`); digits of the FRACTION beyond that only set
  `trunc` (harmless, the rounding stays correct), digits of the INTEGER part beyond that are dropped without
  moving the decimal point, so `"1" + 800 zeros + "e-800"` parses as `0.1` whenever the fast paths give up.
  `withinGoDigits lit` says that the literal has at most 800 significant integer digits; outside, the model
  gives the mathematically correct value and the driver does not compare.
* `shortest bits x` / `formatShortest bits fmt x` — `strconv.AppendFloat(nil, x, fmt, -1, bits)` for finite `x`:
  for n = 1, 2, … the two n-digit decimals next to the exact value (floor and ceiling) are tested for the round
  trip through `roundDec`; the first n that has one wins, of two the closer one, of two equally close ones the
  one with the even last digit (observed: 1125899906842624.25 prints …24.2, …24.75 prints …24.8).  The bytes
  are laid out like `%e` / `%f` (`fmtE`, `fmtF` of ftoa.go) and the round trip is checked once more ON THE BYTES,
  so that `formatShortest bits fmt x = some s → parseFloat bits s = some (x, false)` holds by construction; a
  failing search is the defensive `none` (`searchFails`, never observed).
* `floatEncode bits x quoted` — `floatEncoder.encode`, literally.
* `storeFloat`, `stdNumberToAny` — the float branch of `literalStore`, `convertNumber` without `UseNumber`.
-/

namespace JP
namespace Codec
namespace Float

open JP.Codec.Typed (decimal)

/-! ## the two formats -/

/-- `bits = 32` is binary32, everything else binary64 (as `strconv` reads its `bitSize`) -/
def mantBits (bits : Nat) : Nat := if bits = 32 then 23 else 52
def expBits (bits : Nat) : Nat := if bits = 32 then 8 else 11
def bias (bits : Nat) : Nat := if bits = 32 then 127 else 1023
def totalBits (bits : Nat) : Nat := if bits = 32 then 32 else 64
/-- the all-ones exponent (Inf / NaN) -/
def expMax (bits : Nat) : Nat := 2 ^ expBits bits - 1

/-- a float: sign bit, BIASED exponent field, mantissa field -/
structure FP where
  sign : Bool
  exp : Nat
  mant : Nat
deriving DecidableEq, Repr, Inhabited

namespace FP

def wf (bits : Nat) (x : FP) : Bool := decide (x.exp < 2 ^ expBits bits) && decide (x.mant < 2 ^ mantBits bits)

def toBits (bits : Nat) (x : FP) : Nat :=
  (if x.sign then 2 ^ (totalBits bits - 1) else 0) + x.exp * 2 ^ mantBits bits + x.mant

def ofBits (bits : Nat) (n : Nat) : FP :=
  { sign := n / 2 ^ (totalBits bits - 1) % 2 = 1
    exp := n / 2 ^ mantBits bits % 2 ^ expBits bits
    mant := n % 2 ^ mantBits bits }

inductive Class where
  | zero | subnormal | normal | inf | nan
deriving DecidableEq, Repr

def classify (bits : Nat) (x : FP) : Class :=
  if x.exp = expMax bits then (if x.mant = 0 then .inf else .nan)
  else if x.exp = 0 then (if x.mant = 0 then .zero else .subnormal)
  else .normal

def isFinite (bits : Nat) (x : FP) : Bool := decide (x.exp < expMax bits)
def isZero (x : FP) : Bool := x.exp = 0 && x.mant = 0
def isNaN (bits : Nat) (x : FP) : Bool := x.exp = expMax bits && x.mant ≠ 0
def isInf (bits : Nat) (x : FP) : Bool := x.exp = expMax bits && x.mant = 0

/-- significand: |x| = `sig · 2 ^ qexp` for finite `x` -/
def sig (bits : Nat) (x : FP) : Nat := if x.exp = 0 then x.mant else 2 ^ mantBits bits + x.mant
def qexp (bits : Nat) (x : FP) : Int :=
  ((if x.exp = 0 then 1 else x.exp : Nat) : Int) - ((bias bits + mantBits bits : Nat) : Int)

/-- the exact value of a finite float as a fraction `num / den` -/
def value (bits : Nat) (x : FP) : Int × Nat :=
  let m : Int := if x.sign then -(x.sig bits : Int) else (x.sig bits : Int)
  if x.qexp bits ≥ 0 then (m * 2 ^ (x.qexp bits).toNat, 1) else (m, 2 ^ (-(x.qexp bits)).toNat)

def neg (x : FP) : FP := { x with sign := !x.sign }
def abs (x : FP) : FP := { x with sign := false }

/-- `a < b` for finite non-negative floats (lexicographic on the fields) -/
def ltMag (a b : FP) : Bool := decide (a.exp < b.exp) || (a.exp = b.exp && decide (a.mant < b.mant))

def zero (s : Bool) : FP := ⟨s, 0, 0⟩

/-- the float with value `n`, for `n < 2 ^ (mantBits bits + 1)` (every such integer is a float) -/
def ofNat (bits : Nat) (n : Nat) : FP :=
  if n = 0 then ⟨false, 0, 0⟩
  else ⟨false, bias bits + Nat.log2 n, n * 2 ^ (mantBits bits - Nat.log2 n) - 2 ^ mantBits bits⟩
def inf (bits : Nat) (s : Bool) : FP := ⟨s, expMax bits, 0⟩

end FP

/-! ## rounding a positive rational to the nearest float -/

/-- `N / D / 2^q` as a fraction -/
def scaled (N D : Nat) (q : Int) : Nat × Nat :=
  if q ≥ 0 then (N, D * 2 ^ q.toNat) else (N * 2 ^ (-q).toNat, D)

/-- the binary exponent `q` of the last place: `N/D/2^q ∈ [2^mb, 2^(mb+1))`, or `q = qmin` -/
def pickQ (bits : Nat) (N D : Nat) : Int :=
  let mb := mantBits bits
  let qmin : Int := 1 - ((bias bits + mb : Nat) : Int)
  let q0 : Int := (Nat.log2 N : Int) - (Nat.log2 D : Int) - (mb : Int)
  if q0 ≤ qmin then qmin
  else
    let ab := scaled N D q0
    if ab.1 / ab.2 < 2 ^ mb then (if q0 - 1 ≤ qmin then qmin else q0 - 1) else q0

/-- fields (biased exponent, mantissa, range error) of the float nearest to `N / D` (`N, D > 0`), ties to even;
`(expMax, 0, true)` on overflow -/
def roundRat (bits : Nat) (N D : Nat) : Nat × Nat × Bool :=
  let mb := mantBits bits
  let qmin : Int := 1 - ((bias bits + mb : Nat) : Int)
  let q := pickQ bits N D
  let ab := scaled N D q
  let Q := ab.1 / ab.2
  let R := ab.1 % ab.2
  let up : Bool := decide (ab.2 < 2 * R) || (2 * R = ab.2 && Q % 2 = 1)
  let Q1 := if up then Q + 1 else Q
  -- a carry out of the top: 2^(mb+1) = 2^mb · 2
  let Q2 := if Q1 = 2 ^ (mb + 1) then 2 ^ mb else Q1
  let q2 : Int := if Q1 = 2 ^ (mb + 1) then q + 1 else q
  if Q2 < 2 ^ mb then (0, Q2, false)
  else
    let e := (q2 - qmin).toNat + 1
    if e ≥ expMax bits then (expMax bits, 0, true) else (e, Q2 - 2 ^ mb, false)

def numDigits (c : Nat) : Nat := (decimal c).length

/-- the float nearest to `c · 10^e`.  Astronomic exponents are decided without arithmetic:
`c ≥ 1` has `nd` digits, so `c·10^e ≥ 10^(e+nd-1)` and `< 10^(e+nd)`; `10^400` overflows both formats,
anything below `10^-400` is less than half the smallest subnormal of both. -/
def roundDec (bits : Nat) (c : Nat) (e : Int) : Nat × Nat × Bool :=
  if c = 0 then (0, 0, false)
  else
    let nd : Int := (numDigits c : Nat)
    if e + nd > 400 then (expMax bits, 0, true)
    else if e + nd < -400 then (0, 0, false)
    else if e ≥ 0 then roundRat bits (c * 10 ^ e.toNat) 1
    else roundRat bits c (10 ^ (-e).toNat)

/-! ## reading an RFC 8259 number literal the way `readFloat` does -/

/-- split at the first `e` / `E` -/
def splitE : Bytes → Bytes × Option Bytes
  | [] => ([], none)
  | c :: cs =>
    if c = 101 ∨ c = 69 then ([], some cs)
    else let r := splitE cs; (c :: r.1, r.2)

/-- split at the first `.` -/
def splitDot : Bytes → Bytes × Option Bytes
  | [] => ([], none)
  | c :: cs =>
    if c = 46 then ([], some cs)
    else let r := splitDot cs; (c :: r.1, r.2)

def digitsNat (ds : Bytes) : Nat := ds.foldl (fun a c => a * 10 + (c.toNat - 48)) 0

/-- `readFloat`'s exponent accumulator: `if e < 10000 { e = e*10 + digit }` -/
def expNat (ds : Bytes) : Nat := ds.foldl (fun e c => if e < 10000 then e * 10 + (c.toNat - 48) else e) 0

def allDigits (ds : Bytes) : Bool := !ds.isEmpty && ds.all isDigit

/-- `[+-]? digits` after the `e` -/
def parseExp (r : Bytes) : Option Int :=
  let neg := r.head? = some 45
  let ds := if r.head? = some 45 ∨ r.head? = some 43 then r.drop 1 else r
  if allDigits ds then some (if neg then -(expNat ds : Int) else (expNat ds : Int)) else none

/-- integer part: `0 | [1-9][0-9]*` -/
def intOk (ip : Bytes) : Bool := allDigits ip && (ip.length = 1 || ip.head? ≠ some 48)

structure Lit where
  neg : Bool
  /-- all digits of integer and fraction part as one number -/
  digits : Nat
  /-- value = `digits · 10 ^ exp10` -/
  exp10 : Int
  /-- digits of the integer part -/
  intLen : Nat
deriving DecidableEq, Repr

/-- `-? int frac?` -/
def parseMant (m : Bytes) : Option (Bool × Bytes × Bytes) :=
  let neg := m.head? = some 45
  let m1 := if neg then m.drop 1 else m
  let sp := splitDot m1
  if !intOk sp.1 then none
  else match sp.2 with
    | none => some (neg, sp.1, [])
    | some fp => if allDigits fp then some (neg, sp.1, fp) else none

def parseLit (s : Bytes) : Option Lit :=
  let se := splitE s
  match parseMant se.1 with
  | none => none
  | some (neg, ip, fp) =>
    match se.2 with
    | none => some ⟨neg, digitsNat (ip ++ fp), -(fp.length : Int), ip.length⟩
    | some r =>
      match parseExp r with
      | none => none
      | some e => some ⟨neg, digitsNat (ip ++ fp), e - (fp.length : Int), ip.length⟩

/-- Go's `decimal` keeps 800 digits; more SIGNIFICANT INTEGER digits than that are dropped without moving the
decimal point (see the file head): outside this domain `ParseFloat` is not the correctly rounded value -/
def withinGoDigits (s : Bytes) : Bool :=
  match parseLit s with
  | none => true
  | some l => l.intLen ≤ 800

/-- `strconv.ParseFloat(lit, bits)` on a JSON number literal: `none` = `ErrSyntax`;
`some (x, true)` = (`±Inf`, `ErrRange`) -/
def parseFloat (bits : Nat) (s : Bytes) : Option (FP × Bool) :=
  match parseLit s with
  | none => none
  | some l =>
    let r := roundDec bits l.digits l.exp10
    some (⟨l.neg, r.1, r.2.1⟩, r.2.2)

/-- the float branch of `literalStore`: `n, err := strconv.ParseFloat(s, bits); if err != nil ||
v.OverflowFloat(n)` ⇒ `UnmarshalTypeError{"number " + s}` (= `none`).  `OverflowFloat` of an already rounded
binary32 value is false. -/
def storeFloat (bits : Nat) (s : Bytes) : Option FP :=
  match parseFloat bits s with
  | some (x, false) => some x
  | _ => none

/-- the standard library's `convertNumber` without `UseNumber`: a `float64` in the `interface{}` -/
def stdNumberToAny (s : Bytes) : Option FP := storeFloat 64 s

/-! ## shortest decimal that round-trips -/

/-- `10^k ≤ N / D` -/
def geP10 (N D : Nat) (k : Int) : Bool :=
  if k ≥ 0 then decide (D * 10 ^ k.toNat ≤ N) else decide (D ≤ N * 10 ^ (-k).toNat)

def fixUp : Nat → Nat → Nat → Int → Int
  | 0, _, _, k => k
  | fuel + 1, N, D, k => if geP10 N D k then fixUp fuel N D (k + 1) else k

def fixDown : Nat → Nat → Nat → Int → Int
  | 0, _, _, k => k
  | fuel + 1, N, D, k => if geP10 N D (k - 1) then k else fixDown fuel N D (k - 1)

/-- the decimal point position `k`: `10^(k-1) ≤ N/D < 10^k` (estimate from the bit lengths, then corrected) -/
def decPoint (N D : Nat) : Int :=
  let l : Int := (Nat.log2 N : Int) - (Nat.log2 D : Int)
  let k0 : Int := l * 1233 / 4096 + 1
  fixDown 4 N D (fixUp 4 N D k0)

/-- does `c · 10^e` round to the fields of `x`, without error? -/
def roundsTo (bits : Nat) (x : FP) (c : Nat) (e : Int) : Bool :=
  let r := roundDec bits c e
  r.1 = x.exp && r.2.1 = x.mant && !r.2.2

/-- `N/D · 10^s` as a fraction -/
def candAB (N D : Nat) (s : Int) : Nat × Nat :=
  (if s ≥ 0 then N * 10 ^ s.toNat else N, if s ≥ 0 then D else D * 10 ^ (-s).toNat)

/-- of the two decimals `lo · 10^e` and `(lo+1) · 10^e` around the exact value (`lo + r/b`) · 10^e: the one
that reads back as `x`; of two the closer one; of two equally close ones the even one -/
def candPick (bits : Nat) (x : FP) (lo r b : Nat) (e : Int) : Option (Nat × Int) :=
  let okLo := roundsTo bits x lo e
  if r = 0 then (if okLo then some (lo, e) else none)
  else
    let okHi := roundsTo bits x (lo + 1) e
    if okLo && okHi then
      (if 2 * r < b then some (lo, e) else if b < 2 * r then some (lo + 1, e)
       else if lo % 2 = 0 then some (lo, e) else some (lo + 1, e))
    else if okLo then some (lo, e)
    else if okHi then some (lo + 1, e)
    else none

/-- the n-digit candidate for `N/D` with decimal point `k`: a pair `(c, e)` meaning `c · 10^e` -/
def cand (bits : Nat) (x : FP) (N D : Nat) (k : Int) (n : Nat) : Option (Nat × Int) :=
  let ab := candAB N D ((n : Int) - k)
  candPick bits x (ab.1 / ab.2) (ab.1 % ab.2) ab.2 (k - (n : Int))

def search (bits : Nat) (x : FP) (N D : Nat) (k : Int) : Nat → Nat → Option (Nat × Int)
  | 0, _ => none
  | fuel + 1, n =>
    match cand bits x N D k n with
    | some r => some r
    | none => search bits x N D k fuel (n + 1)

def maxDigits (bits : Nat) : Nat := if bits = 32 then 9 else 17

def stripZeros : Bytes → Bytes
  | [] => []
  | c :: cs =>
    match stripZeros cs with
    | [] => if c = 48 then [] else [c]
    | r => c :: r

/-- digits (no trailing zeros; empty for zero) and decimal point `dp`: |x| = `0.d₁d₂… · 10^dp` — the
`decimalSlice` that `ryuFtoaShortest` leaves behind -/
def shortest (bits : Nat) (x : FP) : Option (Bytes × Int) :=
  if x.isZero then some ([], 0)
  else
    let m := x.sig bits
    let q := x.qexp bits
    let N := if q ≥ 0 then m * 2 ^ q.toNat else m
    let D := if q ≥ 0 then 1 else 2 ^ (-q).toNat
    let k := decPoint N D
    match search bits x N D k (maxDigits bits) 1 with
    | none => none
    | some (c, e) =>
      let ds := decimal c
      some (stripZeros ds, (ds.length : Int) + e)

inductive Fmt where
  | e | f
deriving DecidableEq, Repr

/-- exponent digits of `%e`: at least two -/
def expDigits (n : Nat) : Bytes := if n < 10 then [48, UInt8.ofNat (48 + n)] else decimal n

/-- `fmtE` with `prec = max(nd-1, 0)` -/
def fmtE (neg : Bool) (ds : Bytes) (dp : Int) : Bytes :=
  let sign : Bytes := if neg then [45] else []
  let first : UInt8 := ds.headD 48
  let rest := ds.drop 1
  let frac : Bytes := if rest.isEmpty then [] else 46 :: rest
  let ex : Int := if ds.isEmpty then 0 else dp - 1
  let es : UInt8 := if ex < 0 then 45 else 43
  sign ++ first :: frac ++ 101 :: es :: expDigits ex.natAbs

/-- `fmtF` with `prec = max(nd-dp, 0)` -/
def fmtF (neg : Bool) (ds : Bytes) (dp : Int) : Bytes :=
  let sign : Bytes := if neg then [45] else []
  let ip : Bytes :=
    if dp > 0 then ds.take dp.toNat ++ List.replicate (dp.toNat - ds.length) 48 else [48]
  let fr : Bytes :=
    if dp > 0 then ds.drop dp.toNat else List.replicate (-dp).toNat 48 ++ ds
  sign ++ ip ++ (if fr.isEmpty then [] else 46 :: fr)

def layout (fmt : Fmt) (neg : Bool) (ds : Bytes) (dp : Int) : Bytes :=
  if fmt = .e then fmtE neg ds dp else fmtF neg ds dp

/-- `strconv.AppendFloat(nil, x, fmt, -1, bits)` for finite `x`; the round trip is checked on the bytes -/
def formatShortest (bits : Nat) (fmt : Fmt) (x : FP) : Option Bytes :=
  match shortest bits x with
  | none => none
  | some (ds, dp) =>
    let s := layout fmt x.sign ds dp
    if parseFloat bits s = some (x, false) then some s else none

/-! ## `floatEncoder.encode` -/

/-- `float64(1e-6)` = 0x3EB0C6F7A0B5ED8D, `float32(1e-6)` = 0x358637BD -/
def cutLo (bits : Nat) : FP := if bits = 32 then ⟨false, 107, 0x0637BD⟩ else ⟨false, 1003, 0x0C6F7A0B5ED8D⟩
/-- `float64(1e21)` = 0x444B1AE4D6E2EF50, `float32(1e21)` = 0x6258D727 -/
def cutHi (bits : Nat) : FP := if bits = 32 then ⟨false, 196, 0x58D727⟩ else ⟨false, 1092, 0xB1AE4D6E2EF50⟩

/-- `abs != 0 && (abs < 1e-6 || abs >= 1e21)` in the arithmetic of the value's own width -/
def useE (bits : Nat) (x : FP) : Bool :=
  !x.isZero && (x.ltMag (cutLo bits) || !x.ltMag (cutHi bits))

/-- `n >= 4 && b[n-4] == 'e' && b[n-3] == '-' && b[n-2] == '0'` ⇒ `b[n-2] = b[n-1]; b = b[:n-1]`, read from the
END of the slice (the list is given in reverse) -/
def cleanRev : Bytes → Bytes
  | d :: 48 :: 45 :: 101 :: rp => d :: 45 :: 101 :: rp
  | r => r

def cleanExp (b : Bytes) : Bytes := (cleanRev b.reverse).reverse

/-- `floatEncoder(bits).encode`; `none` = `UnsupportedValueError` (NaN, ±Inf) — or the defensive `none`
of the search (`searchFails`) -/
def floatEncode (bits : Nat) (x : FP) (quoted : Bool) : Option Bytes :=
  if !x.isFinite bits then none
  else
    let fmt : Fmt := if useE bits x then .e else .f
    match formatShortest bits fmt x with
    | none => none
    | some b0 =>
      let b := if fmt = .e then cleanExp b0 else b0
      some (if quoted then 34 :: b ++ [34] else b)

/-- the search (or its check on the bytes) gives up on a finite value: never observed -/
def searchFails (bits : Nat) (x : FP) : Bool :=
  x.isFinite bits && (formatShortest bits (if useE bits x then .e else .f) x).isNone

/-- `l` is spelled the way `Marshal` prints the `float64` it denotes (executable form of `JP.C17.canonical`) -/
def canonicalB (l : Bytes) : Bool :=
  match stdNumberToAny l with
  | none => false
  | some x => floatEncode 64 x false == some l

end Float
end Codec
end JP
