import JP.Value

/-!
# RFC 7396: merge, the difference function of CreateMergePatch, composition of patches
-/

namespace JP
namespace Spec
open Value

mutual
/-- RFC 7396 `MergePatch(Target, Patch)` -/
def merge (t : Value) : Value → Value
  | .obj ps => .obj (mergeMs (match t with | .obj ts => ts | _ => []) ps)
  | p => p
def mergeMs (ts : Members) : Members → Members
  | [] => ts
  | (k, p) :: ps =>
      match p with
      | .null => mergeMs (erase k ts) ps
      | p => mergeMs (set k (merge ((lookup k ts).getD .null) p) ts) ps
end

mutual
/-- the patch `CreateMergePatch(a, b)` should produce for object member lists:
members of `b` that are new or differ, recursively for objects, then deletions as null -/
def diffMs (a : Members) : Members → Members
  | [] => []
  | (k, bv) :: bs =>
    match lookup k a with
    | none => (k, bv) :: diffMs a bs
    | some av => diffMember k av bv ++ diffMs a bs
def diffMember (k : Bytes) (av : Value) : Value → Members
  | .obj bms =>
    match av with
    | .obj ams =>
      let d := diffMs ams bms ++ deletions bms ams
      if d.isEmpty then [] else [(k, .obj d)]
    | _ => [(k, .obj bms)]
  | bv => if eqv av bv then [] else [(k, bv)]
/-- `(k, null)` for every name of `a` absent from `b` -/
def deletions (b : Members) : Members → Members
  | [] => []
  | (k, _) :: as => if (lookup k b).isSome then deletions b as else (k, .null) :: deletions b as
end

def diff (a b : Members) : Members := diffMs a b ++ deletions b a

mutual
/-- the single patch equivalent to applying `p1` then `p2` (when `Compatible`) -/
def compose (p1 : Value) : Value → Value
  | .obj q =>
    match p1 with
    | .obj p => .obj (composeMs p q)
    | _ => .obj q
  | p2 => p2
def composeMs (p : Members) : Members → Members
  | [] => p
  | (k, v2) :: q =>
    match v2 with
    | .null => composeMs (set k .null p) q
    | .obj q2 =>
      match lookup k p with
      | some (.obj p2) => composeMs (set k (compose (.obj p2) (.obj q2)) p) q
      | _ => composeMs (set k (.obj q2) p) q
    | v2 => composeMs (set k v2 p) q
end

mutual
/-- wherever `p2` holds an object, `p1` holds an object or nothing at that path -/
def compatible (p1 : Value) : Value → Bool
  | .obj q =>
    match p1 with
    | .obj p => compatibleMs p q
    | _ => false
  | _ => true
def compatibleMs (p : Members) : Members → Bool
  | [] => true
  | (k, v2) :: q =>
    (match v2 with
     | .obj q2 =>
       match lookup k p with
       | none => true
       | some (.obj p2) => compatible (.obj p2) (.obj q2)
       | some _ => false
     | _ => true) && compatibleMs p q
end

end Spec
end JP
