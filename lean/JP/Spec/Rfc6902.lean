import JP.Value

/-!
# RFC 6902 / RFC 6901 evaluation in the library's documented dialect (the oracle of C01,
C05, C08, C12, C13, C18)

Written over `Value` only; shares nothing with the implementation model except
`Bytes`, `atoi`/`itoa` and the value type.  `Res.unspec` is returned exactly where the
property text places an input outside its domain, so the domain is part of the
specification *function* and every generated case can be classified.
-/

namespace JP
namespace Spec

inductive Cause where
  | parentUnreachable   -- a walk step failed: absent member, bad index, scalar or null on the way
  | absentMember        -- remove / replace / move-from / copy-from of an absent object member
  | badIndex            -- array index out of range, `-` where an element is needed, name on an array
  | testUnequal
  | copyLimit
  | moveFromRoot
  | rootNotContainer
  deriving Repr, DecidableEq, Inhabited

inductive Res (α : Type) where
  | ok (a : α)
  | fail (c : Cause)
  | unspec
  deriving Repr, Inhabited

def Res.bind {α β} (r : Res α) (f : α → Res β) : Res β :=
  match r with
  | .ok a => f a
  | .fail c => .fail c
  | .unspec => .unspec

inductive OpKind where
  | add | remove | replace | move | copy | test
  deriving Repr, DecidableEq, Inhabited

structure Op where
  kind : OpKind
  path : Bytes
  frm : Bytes := []            -- move / copy
  value : Option Value := none -- add / replace / test (`none` on test compares as null)
  deriving Repr, Inhabited

structure Opts where
  neg : Bool := true           -- SupportNegativeIndices
  allowMissing : Bool := false -- AllowMissingPathOnRemove
  ensure : Bool := false       -- EnsurePathExistsOnAdd
  limit : Nat := 0             -- AccumulatedCopySizeLimit (0 = off)
  deriving Repr, Inhabited

/-! ### pointers -/

def decodeTok : Bytes → Bytes
  | [] => []
  | [c] => [c]
  | a :: b :: rest =>
    if a = 126 ∧ b = 49 then 47 :: decodeTok rest
    else if a = 126 ∧ b = 48 then 126 :: decodeTok rest
    else a :: decodeTok (b :: rest)

def splitOnSlash : Bytes → List Bytes
  | [] => [[]]
  | c :: cs =>
    match splitOnSlash cs with
    | [] => [[]]
    | p :: ps => if c = 47 then [] :: p :: ps else (c :: p) :: ps

/-- `none` = outside the domain (no leading `/`).  An empty reference token is the member
name `""` (RFC 6901). -/
def parsePointer (p : Bytes) : Option (List Bytes) :=
  match p with
  | [] => some []
  | c :: cs =>
    if c ≠ 47 then none
    else some ((splitOnSlash cs).map decodeTok)

/-! ### array indices -/

inductive Idx where
  | at (i : Nat)
  | bad            -- RFC error
  | unspec         -- non-canonical spelling: outside the domain
  deriving Repr, DecidableEq

/-- the integer a token denotes: canonical / non-canonical numeric / not numeric -/
inductive Tok where
  | int (i : Int) | noncanon | dash | name
  deriving Repr, DecidableEq

def classify (t : Bytes) : Tok :=
  if t = [45] then .dash
  else match atoi t with
    | some i => if itoa i = t then .int i else .noncanon
    | none => .name

/-- index of an existing element (read / remove / replace / walk) -/
def readIdx (neg : Bool) (n : Nat) (t : Bytes) : Idx :=
  match classify t with
  | .int i =>
    if 0 ≤ i then (if i.toNat < n then .at i.toNat else .bad)
    else if neg ∧ -(n : Int) ≤ i then .at (n - i.natAbs) else .bad
  | .noncanon => .unspec
  | .dash => .bad
  | .name => .bad

/-- insertion slot (add / copy-dest / move-dest) -/
def slotIdx (neg : Bool) (n : Nat) (t : Bytes) : Idx :=
  match classify t with
  | .int i =>
    if 0 ≤ i then (if i.toNat ≤ n then .at i.toNat else .bad)
    else if neg ∧ -((n : Int) + 1) ≤ i then .at (n + 1 - i.natAbs) else .bad
  | .noncanon => .unspec
  | .dash => .at n
  | .name => .bad

def insertAt {α} : Nat → α → List α → List α
  | 0, a, xs => a :: xs
  | _ + 1, a, [] => [a]
  | n + 1, a, x :: xs => x :: insertAt n a xs

def setAt {α} : Nat → α → List α → List α
  | _, _, [] => []
  | 0, a, _ :: xs => a :: xs
  | n + 1, a, x :: xs => x :: setAt n a xs

/-! ### navigation: apply `f` to the container that holds the last token -/

/-- `f parent lastToken` returns the new parent and a result -/
def atParent {α} (o : Opts) (f : Value → Bytes → Res (Value × α)) : Value → List Bytes → Res (Value × α)
  | _, [] => .unspec                       -- callers handle the root themselves
  | v, [t] =>
    match v with
    | .obj _ => f v t
    | .arr _ => f v t
    | _ => .fail .parentUnreachable
  | v, t :: t2 :: ts =>
    match v with
    | .obj ms =>
      match Value.lookup t ms with
      | none => .fail .parentUnreachable
      | some child =>
        (atParent o f child (t2 :: ts)).bind fun (c', a) => .ok (.obj (Value.set t c' ms), a)
    | .arr xs =>
      match readIdx o.neg xs.length t with
      | .unspec => .unspec
      | .bad => .fail .parentUnreachable
      | .at i =>
        match xs[i]? with
        | none => .fail .parentUnreachable
        | some child =>
          (atParent o f child (t2 :: ts)).bind fun (c', a) => .ok (.arr (setAt i c' xs), a)
    | _ => .fail .parentUnreachable

/-! ### the four container edits -/

def addIn (o : Opts) (v : Value) (parent : Value) (t : Bytes) : Res (Value × Unit) :=
  match parent with
  | .obj ms => .ok (.obj (Value.set t v ms), ())
  | .arr xs =>
    match slotIdx o.neg xs.length t with
    | .at i => .ok (.arr (insertAt i v xs), ())
    | .bad => .fail .badIndex
    | .unspec => .unspec
  | _ => .fail .parentUnreachable

/-- returns the removed value -/
def removeIn (o : Opts) (parent : Value) (t : Bytes) : Res (Value × Value) :=
  match parent with
  | .obj ms =>
    match Value.lookup t ms with
    | some old => .ok (.obj (Value.erase t ms), old)
    | none => .fail .absentMember
  | .arr xs =>
    match readIdx o.neg xs.length t with
    | .at i =>
      match xs[i]? with
      | some old => .ok (.arr (xs.eraseIdx i), old)
      | none => .fail .badIndex
    | .bad => .fail .badIndex
    | .unspec => .unspec
  | _ => .fail .parentUnreachable

def replaceIn (o : Opts) (v : Value) (parent : Value) (t : Bytes) : Res (Value × Unit) :=
  match parent with
  | .obj ms =>
    match Value.lookup t ms with
    | some _ => .ok (.obj (Value.set t v ms), ())
    | none => .fail .absentMember
  | .arr xs =>
    match readIdx o.neg xs.length t with
    | .at i => if i < xs.length then .ok (.arr (setAt i v xs), ()) else .fail .absentMember
    | .bad => .fail .absentMember
    | .unspec => .unspec
  | _ => .fail .parentUnreachable

/-- value at the location; `absentNull` = an absent object member reads as null (test) -/
def getIn (o : Opts) (absentNull : Bool) (parent : Value) (t : Bytes) : Res (Value × Value) :=
  match parent with
  | .obj ms =>
    match Value.lookup t ms with
    | some v => .ok (parent, v)
    | none => if absentNull then .ok (parent, .null) else .fail .absentMember
  | .arr xs =>
    match readIdx o.neg xs.length t with
    | .at i =>
      match xs[i]? with
      | some v => .ok (parent, v)
      | none => .fail .badIndex
    | .bad => .fail .badIndex
    | .unspec => .unspec
  | _ => .fail .parentUnreachable

/-! ### EnsurePathExistsOnAdd (C14): create the missing parents, then add

`ensureAdd o v c toks` walks the decoded tokens from the container value `c`.  A missing
parent becomes an array when the *next* token is `-` or a canonical non-negative index
(padded with nulls up to that index), an object otherwise; a missing array element may
only be addressed at or beyond the end (the gap is padded with nulls).  Everything else
the property leaves open is `unspec`: negative or non-canonical indices, `-` before the
last token, a name addressed to an existing array, a null or scalar on the existing
prefix, indices above 10000. -/

def ensureMaxIndex : Nat := 10000

/-- the container a missing parent becomes, given the token that follows it -/
def freshFor (nxt : Bytes) : Res Value :=
  match classify nxt with
  | .dash => .ok (.arr [])
  | .int i => if i < 0 then .unspec else if i.toNat > ensureMaxIndex then .unspec
              else .ok (.arr (List.replicate i.toNat .null))
  | .noncanon => .unspec
  | .name => .ok (.obj [])

def ensureAdd (o : Opts) (v : Value) : Value → List Bytes → Res Value
  | _, [] => .unspec
  | c, [t] => (addIn o v c t).bind fun (c', _) => .ok c'
  | c, t :: t2 :: ts =>
    match c with
    | .obj ms =>
      match Value.lookup t ms with
      | some child =>
        if child.isContainer then
          (ensureAdd o v child (t2 :: ts)).bind fun c' => .ok (.obj (Value.set t c' ms))
        else .unspec
      | none =>
        (freshFor t2).bind fun fresh =>
          (ensureAdd o v fresh (t2 :: ts)).bind fun inner => .ok (.obj (ms ++ [(t, inner)]))
    | .arr xs =>
      match classify t with
      | .int i =>
        if i < 0 then .unspec
        else if i.toNat > ensureMaxIndex then .unspec
        else
          match xs[i.toNat]? with
          | some child =>
            if child.isContainer then
              (ensureAdd o v child (t2 :: ts)).bind fun c' => .ok (.arr (setAt i.toNat c' xs))
            else .unspec
          | none =>
            (freshFor t2).bind fun fresh =>
              (ensureAdd o v fresh (t2 :: ts)).bind fun inner =>
                .ok (.arr (xs ++ List.replicate (i.toNat - xs.length) .null ++ [inner]))
      | _ => .unspec
    | _ => .unspec

/-! ### numbers that differ only in spelling (domain classification of `test`) -/

def stripTrailingZeros (ds : List Nat) : List Nat × Nat :=
  let r := ds.reverse
  let z := r.takeWhile (· = 0)
  ((r.drop z.length).reverse, z.length)

/-- (negative, significant digits without leading/trailing zeros, exponent of the last digit) -/
def normNum (lit : Bytes) : Bool × List Nat × Int :=
  let (neg, r) : Bool × Bytes := match lit with
    | 45 :: r => (true, r)
    | r => (false, r)
  let ip := r.takeWhile isDigit
  let r1 := r.drop ip.length
  let (fp, r2) : Bytes × Bytes := match r1 with
    | 46 :: r' => (r'.takeWhile isDigit, r'.drop (r'.takeWhile isDigit).length)
    | r' => ([], r')
  let e : Int := match r2 with
    | _ :: 45 :: ds => -(((digitsVal 0 ds).getD 0 : Nat) : Int)
    | _ :: 43 :: ds => (((digitsVal 0 ds).getD 0 : Nat) : Int)
    | _ :: ds => (((digitsVal 0 ds).getD 0 : Nat) : Int)
    | [] => 0
  let digs := ((ip ++ fp).map fun c => c.toNat - 48).dropWhile (· = 0)
  let (sig, tz) := stripTrailingZeros digs
  if sig.isEmpty then (false, [], 0) else (neg, sig, e - fp.length + tz)

mutual
/-- like `eqv` but numbers compared numerically -/
def numEqv : Value → Value → Bool
  | .null, b => (match b with | .null => true | _ => false)
  | .bool x, b => (match b with | .bool y => x == y | _ => false)
  | .num x, b => (match b with | .num y => normNum x == normNum y | _ => false)
  | .str x, b => (match b with | .str y => x == y | _ => false)
  | .arr xs, b => (match b with | .arr ys => numEqvL xs ys | _ => false)
  | .obj xs, b => (match b with | .obj ys => numEqvM xs ys && Value.subKeys ys xs | _ => false)
def numEqvL : List Value → List Value → Bool
  | [], ys => ys.isEmpty
  | x :: xs, ys => (match ys with | y :: ys' => numEqv x y && numEqvL xs ys' | [] => false)
def numEqvM : Value.Members → Value.Members → Bool
  | [], _ => true
  | (k, v) :: xs, ys => (match Value.lookup k ys with | some w => numEqv v w | none => false) && numEqvM xs ys
end

def testEq (a b : Value) : Res Unit :=
  if Value.eqv a b then .ok ()
  else if numEqv a b then .unspec
  else .fail .testUnequal

/-! ### AllowMissingPathOnRemove (C13): which removes are skipped

A remove is skipped when its target or any ancestor does not exist.  Index *syntax*
problems at the last token (a name or `-` addressed to an array, a negative index while
negative indices are off) are outside the property's domain. -/
def skipsRemove (o : Opts) (doc : Value) (path : List Bytes) : Res Bool :=
  match atParent o (fun p t =>
      match p with
      | .obj ms => .ok (p, (Value.lookup t ms).isNone)
      | .arr xs =>
        match classify t with
        | .int i =>
          if 0 ≤ i then .ok (p, decide (xs.length ≤ i.toNat))
          else if !o.neg then .unspec
          else .ok (p, decide (i < -(xs.length : Int)))
        | _ => .unspec
      | _ => .ok (p, true)) doc path with
  | .ok (_, b) => .ok b
  | .fail _ => .ok true          -- an ancestor is absent
  | .unspec => .unspec

/-! ### one operation -/

/-- `size` = spelled size of the value copied by this operation (taken from the
implementation's spelling; irrelevant when `limit = 0`); `acc` = bytes copied so far -/
def applyOp (o : Opts) (size : Nat) (acc : Nat) (doc : Value) (op : Op) : Res (Value × Nat) :=
  match parsePointer op.path with
  | none =>
    -- RFC 6901: a non-empty pointer starts with `/`.  (With AllowMissingPathOnRemove the
    -- library treats such a remove as "nothing there": left open.)
    if op.kind = .remove ∧ o.allowMissing then .unspec
    else match op.kind with
      -- move / copy: the source half is evaluated first, its failure is the one reported
      | .move =>
        match parsePointer op.frm with
        | none => .fail .parentUnreachable
        | some [] => .fail .moveFromRoot
        | some frm => (atParent o (removeIn o) doc frm).bind fun _ => .fail .parentUnreachable
      | .copy =>
        match parsePointer op.frm with
        | none => .fail .parentUnreachable
        | some [] => .fail .parentUnreachable
        | some frm => (atParent o (getIn o false) doc frm).bind fun _ => .fail .parentUnreachable
      | _ => .fail .parentUnreachable
  | some path =>
  match op.kind with
  | .add =>
    match op.value with
    | none => .unspec
    | some v =>
      match path with
      | [] => if v.isContainer then .ok (v, acc) else if v.isNull then .unspec else .fail .rootNotContainer
      | _ =>
        if o.ensure then (ensureAdd o v doc path).bind fun d => .ok (d, acc)
        else (atParent o (addIn o v) doc path).bind fun (d, _) => .ok (d, acc)
  | .remove =>
    match path with
    | [] => .unspec
    | _ =>
      if o.allowMissing then
        match skipsRemove o doc path with
        | .ok true => .ok (doc, acc)
        | .ok false => (atParent o (removeIn o) doc path).bind fun (d, _) => .ok (d, acc)
        | .fail c => .fail c
        | .unspec => .unspec
      else (atParent o (removeIn o) doc path).bind fun (d, _) => .ok (d, acc)
  | .replace =>
    match op.value with
    | none => .unspec
    | some v =>
      match path with
      | [] => if v.isContainer then .ok (v, acc) else if v.isNull then .unspec else .fail .rootNotContainer
      | _ => (atParent o (replaceIn o v) doc path).bind fun (d, _) => .ok (d, acc)
  | .move =>
    match parsePointer op.frm with
    | none => .fail .parentUnreachable
    | some [] => .fail .moveFromRoot
    | some frm =>
      (atParent o (removeIn o) doc frm).bind fun (d, v) =>
        match path with
        | [] => .unspec
        | _ => (atParent o (addIn o v) d path).bind fun (d', _) => .ok (d', acc)
  | .copy =>
    match parsePointer op.frm with
    | none => .fail .parentUnreachable
    | some frm =>
      let src : Res Value := match frm with
        | [] => .ok doc
        | _ => (atParent o (getIn o false) doc frm).bind fun (_, v) => .ok v
      src.bind fun v =>
        match path with
        | [] => .unspec
        | _ =>
          -- destination parent must be reachable before the size is charged
          (atParent o (fun p _ => .ok (p, ())) doc path).bind fun _ =>
            let acc' := acc + size
            if o.limit > 0 ∧ acc' > o.limit then .fail .copyLimit
            else (atParent o (addIn o v) doc path).bind fun (d', _) => .ok (d', acc')
  | .test =>
    let want := op.value.getD .null
    match path with
    | [] => (testEq doc want).bind fun _ => .ok (doc, acc)
    | _ =>
      (atParent o (getIn o true) doc path).bind fun (_, v) =>
        (testEq v want).bind fun _ => .ok (doc, acc)

/-- the whole patch; the failure carries the index of the first inapplicable operation -/
inductive Outcome where
  | ok (doc : Value)
  | fail (index : Nat) (c : Cause)
  | unspec
  deriving Repr, Inhabited

def applyFrom (o : Opts) (sizeAt : Nat → Nat) : Nat → Nat → Value → List Op → Outcome
  | _, _, doc, [] => .ok doc
  | i, acc, doc, op :: ops =>
    match applyOp o (sizeAt i) acc doc op with
    | .ok (d, acc') => applyFrom o sizeAt (i + 1) acc' d ops
    | .fail c => .fail i c
    | .unspec => .unspec

def apply (o : Opts) (sizeAt : Nat → Nat) (doc : Value) (ops : List Op) : Outcome :=
  if doc.isContainer then applyFrom o sizeAt 0 0 doc ops else .unspec

end Spec
end JP
