import JP.Value

/-!
# Well-formed RFC 6902 patch documents (the oracle of C11)

Stated on the value a text denotes (members in order of appearance, duplicates kept):
a repeated member name means its last occurrence, as in every JSON object model.
-/

namespace JP
namespace Spec
open Value

def lookupLast (k : Bytes) : Members → Option Value
  | [] => none
  | (k', v) :: ms =>
    match lookupLast k ms with
    | some w => some w
    | none => if k' = k then some v else none

def strOf : Option Value → Option Bytes
  | some (.str s) => some s
  | _ => none

def knownKinds : List Bytes :=
  [ascii "add", ascii "remove", ascii "replace", ascii "move", ascii "copy", ascii "test"]

/-- one element of the patch array -/
def wellFormedOp : Value → Bool
  | .obj ms =>
    match strOf (lookupLast (ascii "op") ms) with
    | none => false
    | some kind =>
      knownKinds.contains kind
      && (strOf (lookupLast (ascii "path") ms)).isSome
      && (if kind = ascii "add" ∨ kind = ascii "replace" then (lookupLast (ascii "value") ms).isSome else true)
      && (if kind = ascii "move" ∨ kind = ascii "copy" then (strOf (lookupLast (ascii "from") ms)).isSome else true)
  | _ => false

def wellFormedPatch : Value → Bool
  | .arr xs => xs.all wellFormedOp
  | _ => false

/-- what the accessors of an accepted operation must report: kind, path, from, value -/
structure OpView where
  kind : Bytes
  path : Bytes
  frm : Option Bytes
  value : Option Value

def viewOp : Value → Option OpView
  | .obj ms =>
    match strOf (lookupLast (ascii "op") ms), strOf (lookupLast (ascii "path") ms) with
    | some k, some p => some { kind := k, path := p, frm := strOf (lookupLast (ascii "from") ms),
                               value := lookupLast (ascii "value") ms }
    | _, _ => none
  | _ => none

end Spec
end JP
