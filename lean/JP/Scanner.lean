import JP.Text

/-!
# The scanner of `v5/internal/json/scanner.go`, `checkValid`, `compact`, `Indent`

A literal transcription: one constructor of `St` per Go state function (same names, so
that the exhaustive transition table dumped by the `verif` hook can be compared row by
row), the parse stack with its top at the head of the list, `endTop`, and an error
flag.  `step` returns the new scanner and the opcode.
-/

namespace JP
namespace Scanner

inductive St where
  | stateBeginValueOrEmpty | stateBeginValue | stateBeginStringOrEmpty | stateBeginString
  | stateEndValue | stateEndTop | stateInString | stateInStringEsc | stateInStringEscU
  | stateInStringEscU1 | stateInStringEscU12 | stateInStringEscU123 | stateNeg | state1 | state0
  | stateDot | stateDot0 | stateE | stateESign | stateE0 | stateT | stateTr | stateTru | stateF
  | stateFa | stateFal | stateFals | stateN | stateNu | stateNul | stateError
  deriving Repr, DecidableEq, Inhabited

-- opcodes
def scanContinue : Nat := 0
def scanBeginLiteral : Nat := 1
def scanBeginObject : Nat := 2
def scanObjectKey : Nat := 3
def scanObjectValue : Nat := 4
def scanEndObject : Nat := 5
def scanBeginArray : Nat := 6
def scanArrayValue : Nat := 7
def scanEndArray : Nat := 8
def scanSkipSpace : Nat := 9
def scanEnd : Nat := 10
def scanError : Nat := 11

-- parse states
def parseObjectKey : Nat := 0
def parseObjectValue : Nat := 1
def parseArrayValue : Nat := 2

structure Scan where
  st : St
  stack : List Nat        -- top at head
  endTop : Bool
  err : Bool
  deriving Repr, Inhabited

def Scan.init : Scan := { st := .stateBeginValue, stack := [], endTop := false, err := false }

def Scan.error (s : Scan) : Scan × Nat := ({ s with st := .stateError, err := true }, scanError)

def Scan.goto (s : Scan) (st : St) (op : Nat) : Scan × Nat := ({ s with st := st }, op)

def isSpace (c : UInt8) : Bool := c = 32 || c = 9 || c = 13 || c = 10

def maxNestingDepth : Nat := 10000

/-- `pushParseState`; `s` already has its `step` set by the caller -/
def Scan.push (s : Scan) (p : Nat) (ok : Nat) : Scan × Nat :=
  let s' := { s with stack := p :: s.stack }
  if s'.stack.length ≤ maxNestingDepth then (s', ok) else s'.error

/-- `popParseState` -/
def Scan.pop (s : Scan) : Scan :=
  let st := s.stack.tail
  if st.isEmpty then { s with stack := st, st := .stateEndTop, endTop := true }
  else { s with stack := st, st := .stateEndValue }

def stateEndTop (s : Scan) (c : UInt8) : Scan × Nat :=
  if !isSpace c then ((s.error).1, scanEnd) else (s, scanEnd)

def stateEndValue (s : Scan) (c : UInt8) : Scan × Nat :=
  match s.stack with
  | [] => stateEndTop { s with st := .stateEndTop, endTop := true } c
  | ps :: rest =>
    if isSpace c then s.goto .stateEndValue scanSkipSpace
    else if ps = parseObjectKey then
      if c = 58 then ({ s with stack := parseObjectValue :: rest, st := .stateBeginValue }, scanObjectKey)
      else s.error
    else if ps = parseObjectValue then
      if c = 44 then ({ s with stack := parseObjectKey :: rest, st := .stateBeginString }, scanObjectValue)
      else if c = 125 then (s.pop, scanEndObject)
      else s.error
    else if ps = parseArrayValue then
      if c = 44 then s.goto .stateBeginValue scanArrayValue
      else if c = 93 then (s.pop, scanEndArray)
      else s.error
    else s.error

def stateBeginValue (s : Scan) (c : UInt8) : Scan × Nat :=
  if isSpace c then (s, scanSkipSpace)
  else if c = 123 then ({ s with st := .stateBeginStringOrEmpty }).push parseObjectKey scanBeginObject
  else if c = 91 then ({ s with st := .stateBeginValueOrEmpty }).push parseArrayValue scanBeginArray
  else if c = 34 then s.goto .stateInString scanBeginLiteral
  else if c = 45 then s.goto .stateNeg scanBeginLiteral
  else if c = 48 then s.goto .state0 scanBeginLiteral
  else if c = 116 then s.goto .stateT scanBeginLiteral
  else if c = 102 then s.goto .stateF scanBeginLiteral
  else if c = 110 then s.goto .stateN scanBeginLiteral
  else if 49 ≤ c.toNat ∧ c.toNat ≤ 57 then s.goto .state1 scanBeginLiteral
  else s.error

def stateBeginValueOrEmpty (s : Scan) (c : UInt8) : Scan × Nat :=
  if isSpace c then (s, scanSkipSpace)
  else if c = 93 then stateEndValue s c
  else stateBeginValue s c

def stateBeginString (s : Scan) (c : UInt8) : Scan × Nat :=
  if isSpace c then (s, scanSkipSpace)
  else if c = 34 then s.goto .stateInString scanBeginLiteral
  else s.error

def stateBeginStringOrEmpty (s : Scan) (c : UInt8) : Scan × Nat :=
  if isSpace c then (s, scanSkipSpace)
  else if c = 125 then
    match s.stack with
    | [] => s.error        -- Go would index out of range; never reached
    | _ :: rest => stateEndValue { s with stack := parseObjectValue :: rest } c
  else stateBeginString s c

def stateInString (s : Scan) (c : UInt8) : Scan × Nat :=
  if c = 34 then s.goto .stateEndValue scanContinue
  else if c = 92 then s.goto .stateInStringEsc scanContinue
  else if c.toNat < 32 then s.error
  else (s, scanContinue)

def stateInStringEsc (s : Scan) (c : UInt8) : Scan × Nat :=
  if c = 98 ∨ c = 102 ∨ c = 110 ∨ c = 114 ∨ c = 116 ∨ c = 92 ∨ c = 47 ∨ c = 34 then
    s.goto .stateInString scanContinue
  else if c = 117 then s.goto .stateInStringEscU scanContinue
  else s.error

def hexStep (s : Scan) (c : UInt8) (next : St) : Scan × Nat :=
  if isHex' c then s.goto next scanContinue else s.error
where isHex' (c : UInt8) : Bool := (hexVal c).isSome

def stateNeg (s : Scan) (c : UInt8) : Scan × Nat :=
  if c = 48 then s.goto .state0 scanContinue
  else if 49 ≤ c.toNat ∧ c.toNat ≤ 57 then s.goto .state1 scanContinue
  else s.error

def state0 (s : Scan) (c : UInt8) : Scan × Nat :=
  if c = 46 then s.goto .stateDot scanContinue
  else if c = 101 ∨ c = 69 then s.goto .stateE scanContinue
  else stateEndValue s c

def state1 (s : Scan) (c : UInt8) : Scan × Nat :=
  if isDigit c then s.goto .state1 scanContinue else state0 s c

def stateDot (s : Scan) (c : UInt8) : Scan × Nat :=
  if isDigit c then s.goto .stateDot0 scanContinue else s.error

def stateDot0 (s : Scan) (c : UInt8) : Scan × Nat :=
  if isDigit c then (s, scanContinue)
  else if c = 101 ∨ c = 69 then s.goto .stateE scanContinue
  else stateEndValue s c

def stateESign (s : Scan) (c : UInt8) : Scan × Nat :=
  if isDigit c then s.goto .stateE0 scanContinue else s.error

def stateE (s : Scan) (c : UInt8) : Scan × Nat :=
  if c = 43 ∨ c = 45 then s.goto .stateESign scanContinue else stateESign s c

def stateE0 (s : Scan) (c : UInt8) : Scan × Nat :=
  if isDigit c then (s, scanContinue) else stateEndValue s c

def expect (s : Scan) (c want : UInt8) (next : St) : Scan × Nat :=
  if c = want then s.goto next scanContinue else s.error

/-- `s.step(s, c)` -/
def step (s : Scan) (c : UInt8) : Scan × Nat :=
  match s.st with
  | .stateBeginValueOrEmpty => stateBeginValueOrEmpty s c
  | .stateBeginValue => stateBeginValue s c
  | .stateBeginStringOrEmpty => stateBeginStringOrEmpty s c
  | .stateBeginString => stateBeginString s c
  | .stateEndValue => stateEndValue s c
  | .stateEndTop => stateEndTop s c
  | .stateInString => stateInString s c
  | .stateInStringEsc => stateInStringEsc s c
  | .stateInStringEscU => hexStep s c .stateInStringEscU1
  | .stateInStringEscU1 => hexStep s c .stateInStringEscU12
  | .stateInStringEscU12 => hexStep s c .stateInStringEscU123
  | .stateInStringEscU123 => hexStep s c .stateInString
  | .stateNeg => stateNeg s c
  | .state1 => state1 s c
  | .state0 => state0 s c
  | .stateDot => stateDot s c
  | .stateDot0 => stateDot0 s c
  | .stateE => stateE s c
  | .stateESign => stateESign s c
  | .stateE0 => stateE0 s c
  | .stateT => expect s c 114 .stateTr
  | .stateTr => expect s c 117 .stateTru
  | .stateTru => expect s c 101 .stateEndValue
  | .stateF => expect s c 97 .stateFa
  | .stateFa => expect s c 108 .stateFal
  | .stateFal => expect s c 115 .stateFals
  | .stateFals => expect s c 101 .stateEndValue
  | .stateN => expect s c 117 .stateNu
  | .stateNu => expect s c 108 .stateNul
  | .stateNul => expect s c 108 .stateEndValue
  | .stateError => (s, scanError)

/-- `scanner.eof`: `true` = scanEnd, `false` = scanError -/
def eof (s : Scan) : Bool :=
  if s.err then false
  else if s.endTop then true
  else (step s 32).1.endTop

/-- the loop of `checkValid` -/
def run : Scan → Bytes → Option Scan
  | s, [] => some s
  | s, c :: cs =>
    let (s', op) := step s c
    if op = scanError then none else run s' cs

/-- `json.Valid` -/
def valid (bs : Bytes) : Bool :=
  match run Scan.init bs with
  | some s => eof s
  | none => false

/-! ### `compact(dst, src, escape)` as the Go loop runs it

The output buffer is kept reversed (newest byte first) so that appending is constant
time; `compact` reverses it once at the end. -/

/-- what `compact` writes for the byte `c` (followed by `cs`) when nothing is pending:
the bytes, and how many following bytes are part of the same escaped character -/
def compactEmit (esc : Bool) (c : UInt8) (cs : Bytes) : Bytes × Nat :=
  if esc && (c = 60 || c = 62 || c = 38) then
    ([92, 117, 48, 48, hexLower (c.toNat / 16), hexLower (c.toNat % 16)], 0)
  else if esc && c = 0xE2 && cs.take 2 == [0x80, 0xA8] then (ascii "\\u2028", 2)
  else if esc && c = 0xE2 && cs.take 2 == [0x80, 0xA9] then (ascii "\\u2029", 2)
  else ([c], 0)

/-- state of the loop: scanner, pending skip count for the bytes of an escaped U+2028/9,
rest of the input, reversed output -/
def compactLoop (esc : Bool) : Scan → Nat → Bytes → Bytes → Scan × Bytes
  | s, _, [], out => (s, out)
  | s, skip, c :: cs, out =>
    -- what is written for this byte, before the scanner sees it
    let (emit, skip') : Bytes × Nat := if skip > 0 then ([], skip - 1) else compactEmit esc c cs
    let (s', v) := step s c
    if v = scanError then (s', out)          -- `break`; eof() then reports the error
    else if v ≥ scanSkipSpace then compactLoop esc s' skip' cs out
    else compactLoop esc s' skip' cs (emit.reverse ++ out)

def compact (esc : Bool) (src : Bytes) : Option Bytes :=
  let (s, out) := compactLoop esc Scan.init 0 src []
  if eof s then some out.reverse else none

/-- `HTMLEscape(dst, src)`: the escaping part of `compact` alone, no scanner -/
def htmlEscape : Nat → Bytes → Bytes
  | _, [] => []
  | skip, c :: cs =>
    if skip > 0 then htmlEscape (skip - 1) cs
    else (compactEmit true c cs).1 ++ htmlEscape (compactEmit true c cs).2 cs

/-! ### `Indent(dst, src, prefix = "", indent)` -/

def newline (indent : Bytes) (depth : Nat) : Bytes :=
  10 :: (List.replicate depth indent).flatten

/-- reversed output, as in `compactLoop` -/
def indentLoop (ind : Bytes) : Scan → Bool → Nat → Bytes → Bytes → Scan × Bytes
  | s, _, _, [], out => (s, out)
  | s, need, depth, c :: cs, out =>
    let (s', v) := step s c
    if v = scanSkipSpace then indentLoop ind s' need depth cs out
    else if v = scanError then (s', out)
    else
      let (need1, depth1, out1) : Bool × Nat × Bytes :=
        if need && v ≠ scanEndObject && v ≠ scanEndArray then
          (false, depth + 1, (newline ind (depth + 1)).reverse ++ out)
        else (need, depth, out)
      if v = scanContinue then indentLoop ind s' need1 depth1 cs (c :: out1)
      else if c = 123 ∨ c = 91 then indentLoop ind s' true depth1 cs (c :: out1)
      else if c = 44 then indentLoop ind s' need1 depth1 cs ((newline ind depth1).reverse ++ c :: out1)
      else if c = 58 then indentLoop ind s' need1 depth1 cs (32 :: c :: out1)
      else if c = 125 ∨ c = 93 then
        if need1 then indentLoop ind s' false depth1 cs (c :: out1)
        else indentLoop ind s' need1 (depth1 - 1) cs (c :: (newline ind (depth1 - 1)).reverse ++ out1)
      else indentLoop ind s' need1 depth1 cs (c :: out1)

def indent (ind : Bytes) (src : Bytes) : Option Bytes :=
  let (s, out) := indentLoop ind Scan.init false 0 src []
  if eof s then some out.reverse else none

end Scanner
end JP
