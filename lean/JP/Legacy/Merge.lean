import JP.Legacy.Apply
import JP.Impl.Merge

/-!
# Legacy package model, part 3: `/merge.go` and `Equal`

`MergePatch`, `MergeMergePatches` (`doMergePatch`, `merge`, `mergeDocs`, `pruneNulls`,
`pruneDocNulls`), `CreateMergePatch`, `Equal`.

The patch side of every merge is a fresh raw message, so the recursion is structural on
its syntax tree.  Go iterates the patch's *map*; distinct entries touch distinct entries
of the document and the result is printed sorted by name, so the iteration order is not
observable: the model visits the map entries in order of first appearance.

`none` stands for a Go panic (assignment to an entry of a nil map).
-/

namespace JP
namespace Legacy

open Impl (Err Outcome hasKeyC)

mutual
/-- the node a raw message becomes under `pruneNulls`: objects are parsed (recursively,
not through arrays) and lose the members whose value is nil -/
def pruneC : Cst → Node
  | .obj ms => .doc ((pruneCM ms []).filter fun m => match m.2 with | .nil => false | _ => true)
  | c => if c.isNullLit then .docNil else .raw c
/-- the decoded map with every child pruned (a repeated name overwrites) -/
def pruneCM : List (Bytes × Cst) → NMembers → NMembers
  | [], acc => acc
  | (k, v) :: ms, acc => pruneCM ms (setN (unquote k) (if v.isNullLit then .nil else pruneC v) acc)
end

mutual
/-- `pruneNulls(n)` on an arbitrary node -/
def pruneN : Node → Node
  | .raw c => pruneC c
  | .doc obj => .doc ((pruneNM obj).filter fun m => match m.2 with | .nil => false | _ => true)
  | n => n
def pruneNM : NMembers → NMembers
  | [] => []
  | (k, n) :: ms => (k, match n with | .nil => .nil | n => pruneN n) :: pruneNM ms
end

mutual
/-- `merge(cur, patch, mergeMerge)` with `patch` a raw message (`cur` is not nil) -/
def mergeNC (mm : Bool) (cur : Node) : Cst → Option Node
  | .obj pms =>
    match intoDoc cur with
    | .ok (.doc obj) => (mergeDocsC mm (some obj) pms).map fun obj' => .doc obj'
    | .ok .docNil => (mergeDocsC mm none pms).map fun _ => .docNil
    | _ => some (pruneC (.obj pms))          -- `pruneNulls(patch); return patch`, whatever `mergeMerge`
  | pc =>
    match intoDoc cur with
    | .ok (.doc obj) => if pc.isNullLit then some (.doc obj) else some (.raw pc)
    | .ok .docNil => if pc.isNullLit then some .docNil else some (.raw pc)
    | _ => some (pruneC pc)
/-- `mergeDocs(doc, patch, mergeMerge)`; one step per map entry of the patch; the document
map is `none` when nil (every assignment then panics; `delete` does not) -/
def mergeDocsC (mm : Bool) (obj : Option NMembers) : List (Bytes × Cst) → Option NMembers
  | [] => some (obj.getD [])
  | (k, v) :: pms =>
    if hasKeyC (unquote k) pms then mergeDocsC mm obj pms
    else
      let key := unquote k
      match obj with
      | none => if v.isNullLit && !mm then mergeDocsC mm none pms else none
      | some obj =>
        if v.isNullLit then
          mergeDocsC mm (some (if mm then setN key .nil obj else eraseN key obj)) pms
        else
          match lookupN key obj with
          | none => mergeDocsC mm (some (setN key (if mm then .raw v else pruneC v) obj)) pms
          | some .nil => mergeDocsC mm (some (setN key (if mm then .raw v else pruneC v) obj)) pms
          | some cur =>
            match mergeNC mm cur v with
            | some n => mergeDocsC mm (some (setN key n obj)) pms
            | none => none
end

/-- `doMergePatch`.  `json.Unmarshal` into a `*partialDoc` yields a `*json.SyntaxError` for
ill-formed text, no error and a nil map for `null`, an `*json.UnmarshalTypeError` for
arrays and other scalars. -/
def doMergePatch (mm : Bool) (docData patchData : Bytes) : Outcome Bytes :=
  match parseCst docData with
  | none => .err .badDoc
  | some dc =>
    match parseCst patchData with
    | none => .err .badPatch
    | some pc =>
      if dc.isNullLit then .err .badDoc
      else if pc.isNullLit then .err .badPatch
      else
        match dc, pc with
        | .obj dms, .obj pms =>
          (match mergeDocsC mm (some (decodeMembers dms [])) pms with
           | some obj => .ok (marshal (.doc obj))
           | none => .panic)
        | _, .obj pms =>
          -- "not an error, just not a doc, so we turn straight into the patch"
          if mm then .ok (marshal (decodeDoc pms)) else .ok (marshal (pruneN (decodeDoc pms)))
        | _, .arr xs => .ok (marshal (decodeAry xs))
        | _, _ => .err .badPatch

def mergePatch (doc patch : Bytes) : Outcome Bytes := doMergePatch false doc patch
def mergeMergePatches (p1 p2 : Bytes) : Outcome Bytes := doMergePatch true p1 p2

/-! ### `Equal` -/

/-- `Equal(a, b)`.  Nothing validates the inputs: `compact` returns an ill-formed text
unchanged and `tryDoc`/`tryAry` fail on it, so two ill-formed texts are "equal" exactly
when they are the same bytes. -/
def equal (a b : Bytes) : Bool :=
  match parseCst a, parseCst b with
  | some ca, some cb => eqCC ca cb
  | none, none => a == b
  | _, _ => false

/-! ### `CreateMergePatch`

`getDiff`, `matchesValue`, `matchesArray` are the same Go text as in v5 except that the
numbers are `float64` instead of `json.Number`; the model shares `Impl.getDiff` and
`Impl.marshalAny` and is restricted to inputs whose numbers a `float64` round trip prints
back unchanged (`numbersModelled`). -/

/-- a number literal that `Unmarshal` into `float64` followed by `Marshal` prints back
unchanged, and for which equality of literals is equality of the floats: a plain integer of
at most 15 digits (not `-0`) -/
def numLitModelled (l : Bytes) : Bool :=
  let digits : Bytes := match l with | 45 :: r => r | r => r
  digits.length ≤ 15 && !digits.isEmpty && digits.all isDigit
    && (digits.length = 1 || digits.head? ≠ some 48) && l ≠ ascii "-0"

def numbersModelled (c : Cst) : Bool := c.valueOf.numLits.all numLitModelled

/-- `unicode.IsSpace` -/
def isUnicodeSpace (r : Nat) : Bool :=
  r = 9 || r = 10 || r = 11 || r = 12 || r = 13 || r = 32 || r = 0x85 || r = 0xA0 || r = 0x1680
    || (0x2000 ≤ r && r ≤ 0x200a) || r = 0x2028 || r = 0x2029 || r = 0x202f || r = 0x205f || r = 0x3000

/-- leading part of `bytes.TrimSpace` -/
def trimLeftSpace : Nat → Bytes → Bytes
  | 0, bs => bs
  | _ + 1, [] => []
  | fuel + 1, b :: bs =>
    let (r, size) := decodeRune (b :: bs)
    if isUnicodeSpace r then trimLeftSpace fuel ((b :: bs).drop size) else b :: bs

/-- `utf8.DecodeLastRune` on a non-empty slice given in *reverse* -/
def decodeLastRune (rev : Bytes) : Nat × Nat :=
  match rev with
  | [] => (runeError, 0)
  | b :: _ =>
    if b.toNat < 0x80 then (b.toNat, 1)
    else
      -- look back at most `UTFMax` bytes for a start byte (`b & 0xC0 != 0x80`)
      let isStart (c : UInt8) : Bool := c.toNat / 64 ≠ 2
      let window := rev.take 4
      let k : Nat := match (window.drop 1).findIdx? isStart with
        | some i => i + 2
        | none => window.length
      let seg := (rev.take k).reverse
      let (r, size) := decodeRune seg
      if size ≠ k then (runeError, 1) else (r, size)

def trimRightSpaceRev : Nat → Bytes → Bytes
  | 0, rev => rev
  | _ + 1, [] => []
  | fuel + 1, rev =>
    let (r, size) := decodeLastRune rev
    if isUnicodeSpace r then trimRightSpaceRev fuel (rev.drop size) else rev

/-- `bytes.TrimSpace` -/
def trimSpace (bs : Bytes) : Bytes :=
  let l := trimLeftSpace (bs.length + 1) bs
  (trimRightSpaceRev (l.length + 1) l.reverse).reverse

/-- `resemblesJSONArray` -/
def resemblesJSONArray (input : Bytes) : Bool :=
  let t := trimSpace input
  t.head? = some 91 && t.getLast? = some 93

/-- `json.Unmarshal(text, &map[string]interface{}{})`: an object decodes, `null` leaves an
empty (nil) map without error, everything else is an error -/
def asAnyMap (c : Cst) : Option Value.Members :=
  match Impl.anyOf c.valueOf with
  | .obj ms => some ms
  | .null => some []
  | _ => none

/-- `createObjectMergePatch` on two texts -/
def createObject (a b : Bytes) : Outcome Value :=
  match parseCst a with
  | none => .err .badDoc
  | some ca =>
    match asAnyMap ca with
    | none => .err .badDoc
    | some am =>
      match parseCst b with
      | none => .err .badDoc
      | some cb =>
        match asAnyMap cb with
        | none => .err .badDoc
        | some bm => .ok (.obj (Impl.getDiff am bm))

/-- the loop of `createArrayMergePatch` over the decoded `[]json.RawMessage` -/
def createArray : List Cst → List Cst → Outcome (List Value)
  | [], _ => .ok []
  | a :: as, bs =>
    match bs with
    | [] => .err .badDoc
    | b :: bs' =>
      match asAnyMap a, asAnyMap b with
      | some am, some bm =>
        (match createArray as bs' with
         | .ok vs => .ok (.obj (Impl.getDiff am bm) :: vs)
         | .err e => .err e
         | .panic => .panic)
      | _, _ => .err .badDoc

/-- `CreateMergePatch` (for inputs inside `numbersModelled`) -/
def createMergePatch (a b : Bytes) : Outcome Bytes :=
  let ra := resemblesJSONArray a
  let rb := resemblesJSONArray b
  if ra && rb then
    match parseCst a with
    | some (.arr xs) =>
      (match parseCst b with
       | some (.arr ys) =>
         if xs.length ≠ ys.length then .err .badDoc
         else match createArray xs ys with
           | .ok vs => .ok (let b := Cst.print (.arr (vs.map Impl.marshalAny)); respellBF (b.length + 1) b)
           | .err e => .err e
           | .panic => .panic
       | _ => .err .badDoc)
    | _ => .err .badDoc
  else if !ra && !rb then
    match createObject a b with
    | .ok v => .ok (let b := Cst.print (Impl.marshalAny v); respellBF (b.length + 1) b)
    | .err e => .err e
    | .panic => .panic
  else .err .badMergeTypes

/-- every number of both texts is inside the modelled domain (ill-formed texts are: the
outcome does not depend on numbers then) -/
def createModelled (a b : Bytes) : Bool :=
  match parseCst a, parseCst b with
  | some ca, some cb => numbersModelled ca && numbersModelled cb
  | _, _ => true

end Legacy
end JP
