import JP.Check
import JP.Legacy.Merge

/-!
# Legacy package: model observables and the C12 predicate

Legacy analogues of `copySizes` / `sizesFor` / `specApply` / `c12` of `JP/Check.lean`: the
sizes charged by `copy` are the legacy code's own (`len` of the marshalled copy, taken from
the legacy model run without a limit); the RFC 6902 specification is then run with these
sizes and the limit, and says at which operation the copy-size error is due.
-/

namespace JP
namespace Legacy

/-- `DecodePatch` followed by `Apply` -/
def applyModel (neg : Bool) (limit : Int) (doc patch : Bytes) : Obs :=
  match decodePatch patch with
  | .ok ops => obsOf (applyBytes neg limit [] doc ops)
  | .err _ => .derr
  | .panic => .panic

/-- sizes per operation index, following the legacy model's own run (no limit, so that
every copy that is reached has its size; 0 when the copy fails before `deepCopy`) -/
def copySizes (neg : Bool) : Node → Int → List Op → List Nat
  | _, _, [] => []
  | r, acc, op :: ops =>
    let sz : Nat :=
      if op.kind = ascii "copy" then
        match copyPrepare neg r op with
        | .ok (_, _, sz) => sz
        | _ => 0
      else 0
    match applyOp neg 0 r acc op with
    | .ok (r', acc') => sz :: copySizes neg r' acc' ops
    | _ => [sz]

def sizesFor (neg : Bool) (doc : Bytes) (ops : List Op) : List Nat :=
  match decodeRoot doc with
  | .ok root => copySizes neg root 0 ops
  | _ => []

/-- `Spec.apply` on the texts of one LAPPLY case, charging the legacy sizes -/
def specApply (neg : Bool) (limit : Int) (doc patch : Bytes) : Spec.Outcome :=
  match parseValueOf doc, specPatch patch with
  | some d, some sops =>
    if !(d.noDup && sops.all fun op => (op.value.map Value.noDup).getD true) then .unspec else
    let sizes : List Nat := match decodePatch patch with
      | .ok ops => sizesFor neg doc ops
      | _ => []
    Spec.apply { neg := neg, limit := limit.toNat } (fun i => sizes.getD i 0) d sops
  | _, _ => .unspec

/-- C12 for the legacy package: the copy-size error occurs exactly where the running total
says.  `listed i c` = the legacy package is required (C18) to fail on a failure of class `c`
at operation `i`; where it is not, the legacy code may go on past an operation the
specification rejects and meet the limit later, which the property leaves open.
`lenient` = the texts contain escapes (the legacy `test` compares strings by their
spelling, so it may fail before the limit is reached). -/
def c12 (listed : Nat → Spec.Cause → Bool) (lenient : Bool) (s : Spec.Outcome) (obs : Obs) : Verdict :=
  match s with
  | .unspec => .unspec
  | .fail _ .copyLimit =>
    (match obs with
     | .err 'C' => .ok
     | _ => if lenient then .unspec else .viol "limit-not-enforced")
  | .fail i c =>
    (match obs with
     | .err 'C' => if listed i c then .viol "limit-error-within-limit" else .unspec
     | _ => .ok)
  | .ok _ => (match obs with | .err 'C' => .viol "limit-error-within-limit" | _ => .ok)

end Legacy
end JP
