import JP.Legacy.Merge
import JP.Codec.Float

/-!
# Legacy `CreateMergePatch` on ALL numbers (`/merge.go` on top of the standard library's `float64`)

`createObjectMergePatch` unmarshals both texts into `map[string]interface{}`: every number literal goes
through `convertNumber` (`strconv.ParseFloat(s, 64)`); a literal that overflows makes `Unmarshal` return an
`*UnmarshalTypeError` (saved, decoding goes on, returned at the end) and `createObjectMergePatch` answers
`ErrBadJSONDoc` — wherever the literal stands (nested, in an array, in a member shadowed by a later duplicate).
`matchesValue` compares two `float64` with `==` (`0 == -0`; NaN and ±Inf cannot occur), `json.Marshal` prints the
`float64` of the MODIFIED document through `floatEncoder.encode` (`1.0` → `1`, `1e2` → `100`, `-0` → `-0`,
`1e21` → `1e+21`).

`getDiffF` mirrors the Go text of `getDiff` / `matchesValue` / `matchesArray` exactly like `Impl.getDiff` does;
the only difference is the comparison of two numbers (`floatEqLit` on the decoded floats instead of equality of
the literals).  Values keep their literals; `encV` is the printing of the patch.
-/

namespace JP
namespace Legacy

open Impl (Err Outcome)
open Codec.Float (FP stdNumberToAny floatEncode)

/-- Go's `==` on two finite `float64` -/
def fpEq (x y : FP) : Bool := (x.isZero && y.isZero) || decide (x = y)

/-- `==` of the two `float64` that the literals decode to (both decode: checked before) -/
def floatEqLit (x y : Bytes) : Bool :=
  match stdNumberToAny x, stdNumberToAny y with
  | some fx, some fy => fpEq fx fy
  | _, _ => false

/-- what `Unmarshal` into `interface{}` followed by `Marshal` prints for a number literal -/
def normNum (l : Bytes) : Option Bytes := (stdNumberToAny l).bind fun x => floatEncode 64 x false

/-- "spelled the way Go prints a `float64`" -/
def floatCanonical (l : Bytes) : Bool := normNum l = some l

/-- the literal as `Marshal` prints it (the encoder never fails on a finite float; the defensive
`none` of the search keeps the literal) -/
def encNum (l : Bytes) : Bytes := (normNum l).getD l

mutual
/-- a dynamic value with every `float64` printed -/
def encV : Value → Value
  | .num l => .num (encNum l)
  | .arr xs => .arr (encL xs)
  | .obj ms => .obj (encM ms)
  | v => v
def encL : List Value → List Value
  | [] => []
  | x :: xs => encV x :: encL xs
def encM : Value.Members → Value.Members
  | [] => []
  | (k, v) :: ms => (k, encV v) :: encM ms
end

mutual
/-- `matchesValue` on normalised (`anyOf`) values whose numbers are `float64` -/
def matchesValueF : Value → Value → Bool
  | .null, b => (match b with | .null => true | _ => false)
  | .bool x, b => (match b with | .bool y => x == y | _ => false)
  | .num x, b => (match b with | .num y => floatEqLit x y | _ => false)
  | .str x, b => (match b with | .str y => x == y | _ => false)
  | .arr xs, b => (match b with | .arr ys => matchesLF xs ys | _ => false)
  | .obj xs, b => (match b with | .obj ys => xs.length == ys.length && matchesMF xs ys | _ => false)
def matchesLF : List Value → List Value → Bool
  | [], ys => ys.isEmpty
  | x :: xs, ys => (match ys with | y :: ys' => matchesValueF x y && matchesLF xs ys' | [] => false)
def matchesMF : Value.Members → Value.Members → Bool
  | [], _ => true
  | (k, v) :: xs, ys =>
    (match Value.lookup k ys with | some w => matchesValueF v w | none => false) && matchesMF xs ys
end

mutual
/-- `getDiff(a, b)` for normalised member lists; result sorted by name -/
def getDiffMF (a : Value.Members) : Value.Members → Value.Members
  | [] => []
  | (k, bv) :: bs =>
    match Value.lookup k a with
    | none => (k, bv) :: getDiffMF a bs
    | some av => getDiffOneF k av bv ++ getDiffMF a bs
def getDiffOneF (k : Bytes) (av : Value) : Value → Value.Members
  | .obj bms =>
    match av with
    | .obj ams =>
      let d := Impl.mergeSorted (getDiffMF ams bms) (Impl.deletedM bms ams)
      if d.isEmpty then [] else [(k, .obj d)]
    | _ => [(k, .obj bms)]
  | bv => if Impl.sameType av bv && matchesValueF av bv then [] else [(k, bv)]
end

def getDiffF (a b : Value.Members) : Value.Members :=
  Impl.mergeSorted (getDiffMF a b) (Impl.deletedM b a)

/-- every number literal decodes to a `float64` (no `ErrRange`) -/
def numbersDecode (v : Value) : Bool := v.numLits.all fun l => (stdNumberToAny l).isSome

/-- `json.Unmarshal(text, &map[string]interface{}{})`: an overflowing number anywhere is an error -/
def asAnyMapF (c : Cst) : Option Value.Members :=
  if numbersDecode c.valueOf then asAnyMap c else none

/-- `createObjectMergePatch` on two texts -/
def createObjectF (a b : Bytes) : Outcome Value :=
  match parseCst a with
  | none => .err .badDoc
  | some ca =>
    match asAnyMapF ca with
    | none => .err .badDoc
    | some am =>
      match parseCst b with
      | none => .err .badDoc
      | some cb =>
        match asAnyMapF cb with
        | none => .err .badDoc
        | some bm => .ok (encV (.obj (getDiffF am bm)))

/-- the loop of `createArrayMergePatch` over the decoded `[]json.RawMessage` (every failure of an
element pair is `ErrBadJSONDoc`, so the order in which the pairs fail is not observable) -/
def createArrayF : List Cst → List Cst → Outcome (List Value)
  | [], _ => .ok []
  | a :: as, bs =>
    match bs with
    | [] => .err .badDoc
    | b :: bs' =>
      match asAnyMapF a, asAnyMapF b with
      | some am, some bm =>
        (match createArrayF as bs' with
         | .ok vs => .ok (encV (.obj (getDiffF am bm)) :: vs)
         | .err e => .err e
         | .panic => .panic)
      | _, _ => .err .badDoc

/-- `CreateMergePatch`, for all inputs -/
def createMergePatchF (a b : Bytes) : Outcome Bytes :=
  let ra := resemblesJSONArray a
  let rb := resemblesJSONArray b
  if ra && rb then
    match parseCst a with
    | some (.arr xs) =>
      (match parseCst b with
       | some (.arr ys) =>
         if xs.length ≠ ys.length then .err .badDoc
         else match createArrayF xs ys with
           | .ok vs => .ok (let b := Cst.print (.arr (vs.map Impl.marshalAny)); respellBF (b.length + 1) b)
           | .err e => .err e
           | .panic => .panic
       | _ => .err .badDoc)
    | _ => .err .badDoc
  else if !ra && !rb then
    match createObjectF a b with
    | .ok v => .ok (let b := Cst.print (Impl.marshalAny v); respellBF (b.length + 1) b)
    | .err e => .err e
    | .panic => .panic
  else .err .badMergeTypes

/-- every number literal of both texts is spelled the way Go prints a `float64` (C19's quantifier);
ill-formed texts are inside (no numbers are looked at) -/
def createCanonical (a b : Bytes) : Bool :=
  match parseCst a, parseCst b with
  | some ca, some cb => ca.valueOf.numLits.all floatCanonical && cb.valueOf.numLits.all floatCanonical
  | _, _ => true

/-- no literal `-0` (the one canonical spelling that is `==` to another canonical spelling) -/
def createNoNegZero (a b : Bytes) : Bool :=
  match parseCst a, parseCst b with
  | some ca, some cb => !ca.valueOf.numLits.contains (ascii "-0") && !cb.valueOf.numLits.contains (ascii "-0")
  | _, _ => true

end Legacy
end JP
