import JP.Legacy.Node
import JP.Scanner

/-!
# Legacy package model, part 2: `findObject`, the six operations, `DecodePatch`,
`ApplyIndent` (`/patch.go`)

Differences from v5 that matter here: no options struct (the package variables
`SupportNegativeIndices` = `neg` and `AccumulatedCopySizeLimit` = `limit`), no `self`
node, `findObject("")` returns nil, `DecodePatch` is a bare `json.Unmarshal` (no
validation of the operations), `partialDoc.get` never fails.
-/

namespace JP
namespace Legacy

open Impl (Err Outcome lookupLastC)

/-- a string-valued member of an operation as `Path()` / `From()` see it -/
inductive StrField where
  | ok (s : Bytes)
  | missing          -- absent or `null`: `ErrMissing`
  | bad              -- present but not a JSON string: the decoder's error
  deriving Repr, Inhabited

/-- the `value` member as `Operation.value()` sees it -/
inductive ValField where
  | absent           -- no member: `value()` returns a nil node
  | null             -- `"value": null`: a node whose raw message is nil
  | val (c : Cst)
  deriving Repr, Inhabited

/-- one decoded operation (`map[string]*json.RawMessage`); a `null` element of the patch
array is a nil map and behaves like `{}` -/
structure Op where
  kind : Bytes
  path : StrField
  frm : StrField
  value : ValField
  deriving Repr, Inhabited

/-- `Operation.value()` -/
def Op.valueNode (op : Op) : Node :=
  match op.value with
  | .absent => .nil
  | .null => .rawNil
  | .val c => .raw c

/-! ### `findObject` + an action on the container it returns -/

/-- `strings.Split(path, "/")`, then `parts = split[1:len-1]` (undecoded) and the decoded
last token; `none` when `len(split) < 2` (no `/` in the path, in particular `""`) -/
def splitPath (path : Bytes) : Option (List Bytes × Bytes) :=
  match splitSlash path with
  | [] => none
  | [_] => none
  | _ :: rest => some (rest.dropLast, decodeToken (rest.getLast?.getD []))

inductive Walk (α : Type) where
  | done (con : Node) (a : α)     -- the action ran; `con` is the rebuilt container
  | notFound                      -- `findObject` returned nil
  | fail (e : Err)                -- the action failed
  | panic
  deriving Inhabited

/-- replace the child that `get key` returned by `child'` -/
def putChild (con : Node) (key : Bytes) (child' : Node) : Node :=
  match con with
  | .doc obj => .doc (setN key child' obj)
  | .ary nodes =>
    match atoi key with
    | some idx =>
      let i := if idx < 0 then (idx + nodes.length).toNat else idx.toNat
      .ary (Impl.listSet i child' nodes)
    | none => con
  | c => c

/-- walk `parts` from `con`, parsing lazily, then run `act` on the container reached -/
def walk {α} (neg : Bool) (act : Node → Outcome (Node × α)) : Node → List Bytes → Walk α
  | con, [] =>
    match act con with
    | .ok (con', a) => .done con' a
    | .err e => .fail e
    | .panic => .panic
  | con, part :: rest =>
    let key := decodeToken part
    match conGet neg con key with
    | .panic => .panic
    | .err _ => .notFound
    | .ok .nil => .notFound
    | .ok next =>
      if rawIsNil next then .notFound else
      match intoContainer next with
      | .panic => .panic
      | .err _ => .notFound
      | .ok child =>
        match walk neg act child rest with
        | .done child' a => .done (putChild con key child') a
        | .notFound => .notFound
        | .fail e => .fail e
        | .panic => .panic

/-- `findObject(doc, path)` followed by `act con key` -/
def withPath {α} (neg : Bool) (root : Node) (path : Bytes)
    (act : Node → Bytes → Outcome (Node × α)) : Walk α :=
  match splitPath path with
  | none => .notFound
  | some (parts, key) => walk neg (fun c => act c key) root parts

def unitAct (x : Outcome Node) : Outcome (Node × Unit) :=
  match x with
  | .ok c => .ok (c, ())
  | .err e => .err e
  | .panic => .panic

def liftWalk : Walk Unit → Outcome Node
  | .done con _ => .ok con
  | .notFound => .err .missing
  | .fail e => .err e
  | .panic => .panic

/-! ### the operations -/

def opAdd (neg : Bool) (root : Node) (op : Op) : Outcome Node :=
  match op.path with
  | .ok path => liftWalk (withPath neg root path fun con key => unitAct (conAdd neg con key op.valueNode))
  | _ => .err .missing             -- any `Path()` error is reported as `ErrMissing`

def opRemove (neg : Bool) (root : Node) (op : Op) : Outcome Node :=
  match op.path with
  | .ok path => liftWalk (withPath neg root path fun con key => unitAct (conRemove neg con key))
  | _ => .err .missing

def opReplace (neg : Bool) (root : Node) (op : Op) : Outcome Node :=
  match op.path with
  | .missing => .err .missing
  | .bad => .err .other
  | .ok path =>
    if path = [] then
      match op.value with
      | .absent => .err .missing
      | .null => .err .other              -- `tryDoc` and `tryAry` refuse a nil raw message
      | .val c =>
        match c with
        | .obj ms => .ok (decodeDoc ms)
        | .arr xs => .ok (decodeAry xs)
        | _ => .err .other
    else
      liftWalk (withPath neg root path fun con key =>
        match conGet neg con key with
        | .panic => .panic
        | .err _ => .err .missing
        | .ok _ => unitAct (conSet neg con key op.valueNode))

def opMove (neg : Bool) (root : Node) (op : Op) : Outcome Node :=
  match op.frm with
  | .missing => .err .missing
  | .bad => .err .other
  | .ok frm =>
    let w : Walk Node := withPath neg root frm fun con key =>
      match conGet neg con key with
      | .panic => .panic
      | .err e => .err e
      | .ok val =>
        match conRemove neg con key with
        | .ok con' => .ok (con', val)
        | .err e => .err e
        | .panic => .panic
    match w with
    | .panic => .panic
    | .fail e => .err e
    | .notFound => .err .missing
    | .done root1 val =>
      match op.path with
      | .missing => .err .missing
      | .bad => .err .other
      | .ok path => liftWalk (withPath neg root1 path fun con key => unitAct (conAdd neg con key val))

/-- `n.equal(op.value())`; on success the visited part of the document stays parsed -/
def equalTo (n : Node) (ov : ValField) : Bool × Node :=
  match ov with
  | .absent => (isNullN n, n)          -- `o.isNull()` on a nil receiver
  | .null => (isNullN n, n)
  | .val c => if eqNC n c then (true, deepParse n) else (false, n)

def opTest (neg : Bool) (root : Node) (op : Op) : Outcome Node :=
  match op.path with
  | .missing => .err .missing
  | .bad => .err .other
  | .ok path =>
    if path = [] then
      -- `self` shares the root's map / slice
      let (b, root') := equalTo root op.value
      if b then .ok root' else .err .testFailed
    else
      liftWalk (withPath neg root path fun con key =>
        match conGet neg con key with
        | .panic => .panic
        | .err e => .err e
        | .ok .nil =>
          (match op.value with
           | .val _ => .err .testFailed
           | _ => .ok (con, ()))
        | .ok val =>
          match op.value with
          | .absent => .err .testFailed
          | ov =>
            let (b, val') := equalTo val ov
            if b then .ok (putChild con key val', ()) else .err .testFailed)

/-- the node `copy` duplicates -/
def copySource (neg : Bool) (root : Node) (frm : Bytes) : Walk Node :=
  withPath neg root frm fun con key =>
    match conGet neg con key with
    | .panic => .panic
    | .err e => .err e
    | .ok val => .ok (con, val)

/-- the stages of `copy` up to `deepCopy`: the root after both `findObject` calls, the copy
and its size -/
def copyPrepare (neg : Bool) (root : Node) (op : Op) : Outcome (Node × Node × Nat) :=
  match op.frm with
  | .missing => .err .missing
  | .bad => .err .other
  | .ok frm =>
    match copySource neg root frm with
    | .panic => .panic
    | .fail e => .err e
    | .notFound => .err .missing
    | .done root1 _ =>
      match op.path with
      | .ok path =>
        -- destination container: only its existence (and the parsing on the way) matters here
        match withPath neg root1 path fun con _ => (.ok (con, ()) : Outcome (Node × Unit)) with
        | .panic => .panic
        | .fail e => .err e
        | .notFound => .err .missing
        | .done root2 _ =>
          -- the source node as it is now (the second walk may have parsed inside it)
          match copySource neg root2 frm with
          | .done _ val => let (cp, sz) := deepCopy val; .ok (root2, cp, sz)
          | .panic => .panic
          | _ => .err .other
      | _ => .err .missing

def opCopy (neg : Bool) (limit : Int) (root : Node) (acc : Int) (op : Op) : Outcome (Node × Int) :=
  match copyPrepare neg root op with
  | .panic => .panic
  | .err e => .err e
  | .ok (root2, cp, sz) =>
    let acc' := acc + sz
    if limit > 0 ∧ acc' > limit then .err .copySize
    else
      match op.path with
      | .ok path =>
        (match liftWalk (withPath neg root2 path fun con key => unitAct (conAdd neg con key cp)) with
         | .ok root3 => .ok (root3, acc')
         | .err e => .err e
         | .panic => .panic)
      | _ => .err .missing

def applyOp (neg : Bool) (limit : Int) (root : Node) (acc : Int) (op : Op) : Outcome (Node × Int) :=
  let lift (x : Outcome Node) : Outcome (Node × Int) :=
    match x with
    | .ok r' => .ok (r', acc)
    | .err e => .err e
    | .panic => .panic
  if op.kind = ascii "add" then lift (opAdd neg root op)
  else if op.kind = ascii "remove" then lift (opRemove neg root op)
  else if op.kind = ascii "replace" then lift (opReplace neg root op)
  else if op.kind = ascii "move" then lift (opMove neg root op)
  else if op.kind = ascii "test" then lift (opTest neg root op)
  else if op.kind = ascii "copy" then opCopy neg limit root acc op
  else .err .other

def applyOps (neg : Bool) (limit : Int) : Node → Int → List Op → Outcome Node
  | r, _, [] => .ok r
  | r, acc, op :: ops =>
    match applyOp neg limit r acc op with
    | .ok (r', acc') => applyOps neg limit r' acc' ops
    | .err e => .err e
    | .panic => .panic

/-! ### `DecodePatch`: `json.Unmarshal(buf, &p)` with `p : []map[string]*json.RawMessage` -/

/-- a member of the operation map: absent / present-and-null (nil pointer) / present -/
inductive Member where
  | absent | null | val (c : Cst)

def member (k : Bytes) (ms : List (Bytes × Cst)) : Member :=
  match lookupLastC k ms with
  | none => .absent
  | some c => if c.isNullLit then .null else .val c

/-- `Operation.Kind` -/
def opKind (ms : List (Bytes × Cst)) : Bytes :=
  match member (ascii "op") ms with
  | .val (.str b) => unquote b
  | _ => ascii "unknown"

/-- `Operation.Path` / `From` -/
def opStr (name : Bytes) (ms : List (Bytes × Cst)) : StrField :=
  match member name ms with
  | .val (.str b) => .ok (unquote b)
  | .val _ => .bad
  | _ => .missing

def opValue (ms : List (Bytes × Cst)) : ValField :=
  match member (ascii "value") ms with
  | .absent => .absent
  | .null => .null
  | .val c => .val c

def decodeOp (ms : List (Bytes × Cst)) : Op :=
  { kind := opKind ms, path := opStr (ascii "path") ms, frm := opStr (ascii "from") ms, value := opValue ms }

/-- an element must be an object or `null`; anything else is an `UnmarshalTypeError` -/
def decodeOps : List Cst → Option (List Op)
  | [] => some []
  | c :: cs =>
    match c with
    | .obj ms => (decodeOps cs).map (decodeOp ms :: ·)
    | .lit s => if s = ascii "null" then (decodeOps cs).map (decodeOp [] :: ·) else none
    | _ => none

/-- the text `null` decodes to a nil patch (no operations) without error -/
def decodePatch (bs : Bytes) : Outcome (List Op) :=
  match parseCst bs with
  | none => .err .invalid
  | some (.arr xs) =>
    (match decodeOps xs with
     | some ops => .ok ops
     | none => .err .other)
  | some c => if c.isNullLit then .ok [] else .err .other

/-! ### `ApplyIndent` -/

/-- the root container `json.Unmarshal(doc, pd)` builds: `pd` is a `*partialArray` when the
first byte after white space is `[`, a `*partialDoc` otherwise (where the text `null`
leaves a nil map) -/
def decodeRoot (doc : Bytes) : Outcome Node :=
  match parseCst doc with
  | none => .err .other
  | some c =>
    match skipWs doc with
    | 91 :: _ => (match c with | .arr xs => .ok (decodeAry xs) | _ => .err .other)
    | _ =>
      match c with
      | .obj ms => .ok (decodeDoc ms)
      | c => if c.isNullLit then .ok .docNil else .err .other

def applyBytes (neg : Bool) (limit : Int) (indent : Bytes) (doc : Bytes) (ops : List Op) : Outcome Bytes :=
  if doc = [] then .ok doc
  else
    match decodeRoot doc with
    | .panic => .panic
    | .err e => .err e
    | .ok root =>
      match applyOps neg limit root 0 ops with
      | .panic => .panic
      | .err e => .err e
      | .ok r =>
        let data := marshal r
        if indent = [] then .ok data
        else .ok ((Scanner.indent indent data).getD [])

end Legacy
end JP
