import JP.Impl.Node

/-!
# Legacy package model, part 1: lazy nodes, containers, marshalling (`/patch.go`)

The legacy root package (`github.com/evanphx/json-patch`, v4 API) uses the *standard
library* `encoding/json`.  `Node` is `*lazyNode` as that code uses it:

* `nil`     – a nil `*lazyNode` (what a JSON `null` child decodes to, and what
              `Operation.value()` returns when the operation has no `value` member);
* `rawNil`  – `&lazyNode{raw: nil, which: eRaw}`: what `Operation.value()` builds for
              `"value": null` (the member decodes to a nil `*json.RawMessage`);
* `raw c`   – `which = eRaw`; the raw message is kept as its syntax tree (every raw message
              that lives in a tree was produced by the decoder or by `json.Marshal`, hence is
              well-formed, and the code never observes its inner white space);
* `doc obj` – `which = eDoc` with a non-nil map.  `partialDoc` is a bare
              `map[string]*lazyNode`: there is **no member order**; `obj` is an association
              list with distinct names, printed sorted by name (`json.Marshal` of a map);
* `docNil`  – `which = eDoc` with a nil map: `json.Unmarshal("null", &n.doc)` succeeds and
              leaves the map nil (root document `null`; a raw message `null` entered by
              `findObject`);
* `ary ns`  – `which = eAry` (the slice is never nil).

A node with `which ≠ eRaw` keeps its stale `raw` field; it is non-nil and `isArray` of it
agrees with `which`, so it needs no representation.

`Err`, `Outcome` and the syntax-tree helpers are shared with the v5 model (`JP.Impl`).
Every dereference, index or map assignment that Go executes without a guard has an
explicit `panic` outcome here.
-/

namespace JP
namespace Legacy

/-- The standard library's encoder (Go 1.22 and later) spells U+0008 and U+000C as `\\b` and
`\\f`; the v5 fork, taken from an older Go, writes `\\u0008` and `\\u000c`.  `respellBF`
rewrites the fork's spelling into the standard library's (escape sequences are stepped
over as units, so an escaped backslash followed by the text `u0008` is left alone). -/
def respellBF : Nat → Bytes → Bytes
  | 0, bs => bs
  | _ + 1, [] => []
  | fuel + 1, c :: cs =>
    if c = 92 then
      match cs with
      | 117 :: 48 :: 48 :: 48 :: 56 :: rest => 92 :: 98 :: respellBF fuel rest
      | 117 :: 48 :: 48 :: 48 :: 99 :: rest => 92 :: 102 :: respellBF fuel rest
      | e :: rest => 92 :: e :: respellBF fuel rest
      | [] => [92]
    else c :: respellBF fuel cs

/-- member names as `encoding/json` (HTML escaping on) quotes them -/
def quoteBodyStd (k : Bytes) : Bytes :=
  let q := quoteBody true k
  respellBF (q.length + 1) q

open Impl (Err Outcome litNull lookupLastC hasKeyC uniqueCount listSet listInsert)

inductive Node where
  | nil
  | rawNil
  | raw (c : Cst)
  | doc (obj : List (Bytes × Node))
  | docNil
  | ary (nodes : List Node)
  deriving Repr, Inhabited

abbrev NMembers := List (Bytes × Node)

def lookupN (k : Bytes) : NMembers → Option Node
  | [] => none
  | (k', n) :: ms => if k' = k then some n else lookupN k ms

/-- map assignment `obj[k] = n` -/
def setN (k : Bytes) (n : Node) : NMembers → NMembers
  | [] => [(k, n)]
  | (k', n') :: ms => if k' = k then (k, n) :: ms else (k', n') :: setN k n ms

/-- `delete(obj, k)` -/
def eraseN (k : Bytes) : NMembers → NMembers
  | [] => []
  | (k', n) :: ms => if k' = k then ms else (k', n) :: eraseN k ms

/-! ### decoding a raw message one level (`json.Unmarshal` into `partialDoc` / `partialArray`) -/

/-- a child as the decoder hands it out: JSON null ↦ nil pointer, otherwise
`lazyNode.UnmarshalJSON` keeps the bytes -/
def childOf (c : Cst) : Node := if c.isNullLit then .nil else .raw c

/-- the map built from the members in order of appearance (a repeated name overwrites) -/
def decodeMembers : List (Bytes × Cst) → NMembers → NMembers
  | [], acc => acc
  | (k, v) :: ms, acc => decodeMembers ms (setN (unquote k) (childOf v) acc)

def decodeDoc (ms : List (Bytes × Cst)) : Node := .doc (decodeMembers ms [])

def decodeAry (xs : List Cst) : Node := .ary (xs.map childOf)

/-- `lazyNode.intoDoc`: `json.Unmarshal(*n.raw, &n.doc)`.  An object decodes; `null`
decodes *without error* to a nil map; an array or another scalar is an
`*json.UnmarshalTypeError`.  On a nil receiver Go dereferences nil. -/
def intoDoc : Node → Outcome Node
  | .nil => .panic
  | .rawNil => .err .invalid
  | .doc obj => .ok (.doc obj)
  | .docNil => .ok .docNil
  | .raw (.obj ms) => .ok (decodeDoc ms)
  | .raw c => if c.isNullLit then .ok .docNil else .err .other
  | .ary _ => .err .other       -- stale raw is an array text

/-- `lazyNode.intoAry` (callers test `isArray` on the raw text first) -/
def intoAry : Node → Outcome Node
  | .nil => .panic
  | .rawNil => .err .invalid
  | .ary ns => .ok (.ary ns)
  | .raw (.arr xs) => .ok (decodeAry xs)
  | _ => .err .other

/-- `isArray(*n.raw)`: raw messages carry no leading white space, so this is "the text
starts with `[`" -/
def rawIsArray : Node → Bool
  | .raw c => c.isArr
  | .ary _ => true
  | _ => false

/-- `next.raw == nil` -/
def rawIsNil : Node → Bool
  | .rawNil => true
  | _ => false

/-- descend into a child the way `findObject` does -/
def intoContainer (n : Node) : Outcome Node :=
  if rawIsArray n then intoAry n else intoDoc n

/-! ### `container` methods (`partialDoc`, `partialArray`) -/

/-- `get`.  `partialDoc.get` never fails: an absent name gives a nil node (also on a nil
map). -/
def conGet (neg : Bool) (con : Node) (key : Bytes) : Outcome Node :=
  match con with
  | .doc obj => .ok ((lookupN key obj).getD .nil)
  | .docNil => .ok .nil
  | .ary nodes =>
    match atoi key with
    | none => .err .other
    | some idx =>
      if idx < 0 then
        if !neg then .err .invalidIndex
        else if idx < -(nodes.length : Int) then .err .invalidIndex
        else
          match nodes[(idx + nodes.length).toNat]? with
          | some n => .ok n
          | none => .err .invalidIndex
      else
        match nodes[idx.toNat]? with
        | some n => .ok n
        | none => .err .invalidIndex
  | _ => .panic

/-- `set` (used by replace); `(*d)[idx] = val` on the array is not bounds-checked -/
def conSet (neg : Bool) (con : Node) (key : Bytes) (val : Node) : Outcome Node :=
  match con with
  | .doc obj => .ok (.doc (setN key val obj))
  | .docNil => .err .invalid
  | .ary nodes =>
    match atoi key with
    | none => .err .other
    | some idx =>
      if idx < 0 then
        if !neg then .err .invalidIndex
        else if idx < -(nodes.length : Int) then .err .invalidIndex
        else
          let i := (idx + nodes.length).toNat
          if i < nodes.length then .ok (.ary (listSet i val nodes)) else .panic
      else
        if idx.toNat < nodes.length then .ok (.ary (listSet idx.toNat val nodes)) else .panic
  | _ => .panic

def conAdd (neg : Bool) (con : Node) (key : Bytes) (val : Node) : Outcome Node :=
  match con with
  | .doc obj => .ok (.doc (setN key val obj))
  | .docNil => .err .invalid
  | .ary nodes =>
    if key = [45] then .ok (.ary (nodes ++ [val]))
    else match atoi key with
      | none => .err .other
      | some idx =>
        let sz : Int := nodes.length + 1
        if idx ≥ sz then .err .invalidIndex
        else if idx < 0 then
          if !neg then .err .invalidIndex
          else if idx < -sz then .err .invalidIndex
          else
            let i := (idx + sz).toNat
            if i ≤ nodes.length then .ok (.ary (listInsert i val nodes)) else .panic
        else .ok (.ary (listInsert idx.toNat val nodes))
  | _ => .panic

def conRemove (neg : Bool) (con : Node) (key : Bytes) : Outcome Node :=
  match con with
  | .doc obj =>
    match lookupN key obj with
    | none => .err .missing
    | some _ => .ok (.doc (eraseN key obj))
  | .docNil => .err .missing
  | .ary nodes =>
    match atoi key with
    | none => .err .other
    | some idx =>
      if idx ≥ (nodes.length : Int) then .err .invalidIndex
      else if idx < 0 then
        if !neg then .err .invalidIndex
        else if idx < -(nodes.length : Int) then .err .invalidIndex
        else .ok (.ary (nodes.eraseIdx (idx + nodes.length).toNat))
      else .ok (.ary (nodes.eraseIdx idx.toNat))
  | _ => .panic

/-! ### marshalling (`json.Marshal`, HTML escaping always on) -/

/-- insertion into a list sorted by name (`strings.Compare` = bytewise order) -/
def insertByName {α} (k : Bytes) (a : α) : List (Bytes × α) → List (Bytes × α)
  | [] => [(k, a)]
  | (k', a') :: ms => if bytesLt k k' then (k, a) :: (k', a') :: ms else (k', a') :: insertByName k a ms

def sortByName {α} : List (Bytes × α) → List (Bytes × α)
  | [] => []
  | (k, a) :: ms => insertByName k a (sortByName ms)

mutual
/-- what `json.Marshal` writes for a node, as a syntax tree: a nil pointer, a nil raw
message and a nil map print `null`; a raw message goes through `compact` with escaping;
a map prints its members sorted by name, names spelled by the encoder -/
def cstOf : Node → Cst
  | .nil => litNull
  | .rawNil => litNull
  | .docNil => litNull
  | .raw c => Cst.escape true c
  | .doc obj => .obj ((sortByName (cstOfM obj)).map fun m => (quoteBodyStd m.1, m.2))
  | .ary ns => .arr (cstOfL ns)
def cstOfM : NMembers → List (Bytes × Cst)
  | [] => []
  | (k, n) :: ms => (k, cstOf n) :: cstOfM ms
def cstOfL : List Node → List Cst
  | [] => []
  | n :: ns => cstOf n :: cstOfL ns
end

def marshal (n : Node) : Bytes := Cst.print (cstOf n)

/-- `deepCopy`: nil stays nil with size 0, anything else becomes a fresh raw message
holding `src.MarshalJSON()`; the size is its length -/
def deepCopy (n : Node) : Node × Nat :=
  match n with
  | .nil => (.nil, 0)
  | n => let c := cstOf n; (.raw c, (Cst.print c).length)

/-! ### nullness and equality (`isNull`, `lazyNode.equal`) -/

/-- `n.isNull()`: nil pointer, nil raw message, or a raw message that compacts to `null` -/
def isNullN : Node → Bool
  | .nil => true
  | .rawNil => true
  | .raw c => c.isNullLit
  | _ => false

mutual
/-- `n.equal(o)` for two unparsed raw messages.  Scalars are compared by their compacted
*bytes* (no unescaping, no number normalisation); containers are parsed one level. -/
def eqCC : Cst → Cst → Bool
  | .lit a, o =>
    if a = ascii "null" ∨ o.isNullLit then a = ascii "null" ∧ o.isNullLit
    else (match o with | .lit b => a == b | _ => false)
  | .str a, o => (match o with | .str b => a == b | _ => false)
  | .arr xs, o => (match o with | .arr ys => eqCCL xs ys | _ => false)
  | .obj ms, o =>
    (match o with
     | .obj os => uniqueCount ms == uniqueCount os && eqCCM ms os
     | _ => false)
def eqCCL : List Cst → List Cst → Bool
  | [], ys => ys.isEmpty
  | x :: xs, ys => (match ys with | y :: ys' => eqCC x y && eqCCL xs ys' | [] => false)
/-- every map entry of the left (a member not shadowed by a later duplicate) has an equal
partner on the right -/
def eqCCM : List (Bytes × Cst) → List (Bytes × Cst) → Bool
  | [], _ => true
  | (k, v) :: ms, os =>
    (if hasKeyC (unquote k) ms then true
     else match lookupLastC (unquote k) os with
       | some ov => eqCC v ov
       | none => false) && eqCCM ms os
end

mutual
/-- `n.equal(o)` where `o` is a fresh (unparsed) raw message or one of its children; a
`null` literal on the right stands for a nil child / a raw `null` -/
def eqNC : Node → Cst → Bool
  | .nil, o => o.isNullLit
  | .rawNil, o => o.isNullLit
  | .raw c, o => eqCC c o
  | .docNil, o => (match o with | .obj os => uniqueCount os == 0 | _ => false)
  | .doc obj, o =>
    (match o with
     | .obj os => obj.length == uniqueCount os && eqNCM obj os
     | _ => false)
  | .ary ns, o => (match o with | .arr ys => eqNCL ns ys | _ => false)
def eqNCL : List Node → List Cst → Bool
  | [], ys => ys.isEmpty
  | n :: ns, ys => (match ys with | y :: ys' => eqNC n y && eqNCL ns ys' | [] => false)
def eqNCM : NMembers → List (Bytes × Cst) → Bool
  | [], _ => true
  | (k, n) :: ms, os =>
    (match lookupLastC k os with
     | some ov => eqNC n ov
     | none => false) && eqNCM ms os
end

mutual
/-- the parsing a *successful* `equal` leaves behind in the receiver: every container it
visited is parsed (`tryDoc` / `tryAry`), scalars stay raw -/
def deepParseC : Cst → Node
  | .lit s => if s = ascii "null" then .nil else .raw (.lit s)
  | .str b => .raw (.str b)
  | .arr xs => .ary (deepParseCL xs)
  | .obj ms => .doc (deepParseCM ms [])
def deepParseCL : List Cst → List Node
  | [] => []
  | x :: xs => deepParseC x :: deepParseCL xs
def deepParseCM : List (Bytes × Cst) → NMembers → NMembers
  | [], acc => acc
  | (k, v) :: ms, acc => deepParseCM ms (setN (unquote k) (deepParseC v) acc)
end

mutual
def deepParse : Node → Node
  | .raw c => if c.isArr || c.isObj then deepParseC c else .raw c
  | .doc obj => .doc (deepParseM obj)
  | .ary ns => .ary (deepParseL ns)
  | n => n
def deepParseM : NMembers → NMembers
  | [] => []
  | (k, n) :: ms => (k, deepParse n) :: deepParseM ms
def deepParseL : List Node → List Node
  | [] => []
  | n :: ns => deepParse n :: deepParseL ns
end

end Legacy
end JP
