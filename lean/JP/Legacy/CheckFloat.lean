import JP.Check
import JP.Legacy.MergeFloat

/-!
# C19, the `CreateMergePatch` clause of the legacy package, on `float64` numbers

C19: "`CreateMergePatch(A, B)` for objects whose numbers are exactly representable as float64
[quantifier: numbers spelled the way Go prints a float64] yields a minimal patch that turns A into B
whenever B has no null member".

Domain marker: both roots are objects, every number literal of A and of B is `floatCanonical`
(`Unmarshal` into `interface{}` followed by `Marshal` prints the literal back).

`-0` is canonical and `==` to `0` as a `float64`: inside the domain the VALUES are compared with numbers up to
float equality, which for canonical spellings is literal equality after `-0 ↦ 0` (`zeroNorm`): the patch must
be `{}` exactly when A and B are equal in that sense, may mention only members that differ in that sense, and
`MergePatch(A, patch)` must be B in that sense.
-/

namespace JP
namespace Legacy

mutual
/-- `-0 ↦ 0` on every number literal -/
def zeroNorm : Value → Value
  | .num l => .num (if l = ascii "-0" then ascii "0" else l)
  | .arr xs => .arr (zeroNormL xs)
  | .obj ms => .obj (zeroNormM ms)
  | v => v
def zeroNormL : List Value → List Value
  | [] => []
  | x :: xs => zeroNorm x :: zeroNormL xs
def zeroNormM : Value.Members → Value.Members
  | [] => []
  | (k, v) :: ms => (k, zeroNorm v) :: zeroNormM ms
end

/-- the domain of the clause -/
def c19createDomain (av bv : Value) : Bool :=
  av.isObj && bv.isObj && av.numLits.all floatCanonical && bv.numLits.all floatCanonical

/-- C19 on one LCREATE case: `pobs` = CreateMergePatch(a,b); `mobs` = MergePatch(a, patch) -/
def c19create (a b : Bytes) (pobs mobs : Obs) : Verdict :=
  match parseValueOf a, parseValueOf b with
  | some av, some bv =>
    if !c19createDomain av bv then .unspec
    else if !(av.noDup && bv.noDup) then .unspec
    else
      match pobs with
      | .ok pt =>
        (match parseValueOf pt with
         | none => .viol "output-not-json"
         | some pv =>
           c03pair (zeroNorm av) (zeroNorm bv) (zeroNorm pv)
             ((match mobs with | .ok m => parseValueOf m | _ => none).map zeroNorm))
      | _ => .viol "should-succeed"
  | _, _ => .unspec

end Legacy
end JP
