import JP.Basic

/-!
# String spelling: UTF-8, `unquoteBytes`, `encodeState.string`, the HTML escaper of `compact`

Transcribed from `v5/internal/json/decode.go` (`unquoteBytes`, `getu4`),
`encode.go` (`encodeState.string`), `indent.go` (`compact`, escaping part),
and Go's `unicode/utf8`, `unicode/utf16` as used by them.
-/

namespace JP

/-! ### utf8.DecodeRune / EncodeRune -/

def runeError : Nat := 0xFFFD

def isCont (lo hi : Nat) (b : UInt8) : Bool := lo ≤ b.toNat && b.toNat ≤ hi

/-- `utf8.DecodeRune`: (rune, size); invalid or short encodings give (U+FFFD, 1);
empty input gives (U+FFFD, 0). -/
def decodeRune : Bytes → Nat × Nat
  | [] => (runeError, 0)
  | p0 :: rest =>
    let a := p0.toNat
    if a < 0x80 then (a, 1)
    else if a < 0xC2 then (runeError, 1)
    else if a < 0xE0 then
      match rest with
      | b1 :: _ => if isCont 0x80 0xBF b1 then ((a % 32) * 64 + b1.toNat % 64, 2) else (runeError, 1)
      | _ => (runeError, 1)
    else if a < 0xF0 then
      let lo := if a = 0xE0 then 0xA0 else 0x80
      let hi := if a = 0xED then 0x9F else 0xBF
      match rest with
      | b1 :: b2 :: _ =>
        if isCont lo hi b1 && isCont 0x80 0xBF b2 then
          ((a % 16) * 4096 + (b1.toNat % 64) * 64 + b2.toNat % 64, 3)
        else (runeError, 1)
      | _ => (runeError, 1)
    else if a < 0xF5 then
      let lo := if a = 0xF0 then 0x90 else 0x80
      let hi := if a = 0xF4 then 0x8F else 0xBF
      match rest with
      | b1 :: b2 :: b3 :: _ =>
        if isCont lo hi b1 && isCont 0x80 0xBF b2 && isCont 0x80 0xBF b3 then
          ((a % 8) * 262144 + (b1.toNat % 64) * 4096 + (b2.toNat % 64) * 64 + b3.toNat % 64, 4)
        else (runeError, 1)
      | _ => (runeError, 1)
    else (runeError, 1)

def u8 (n : Nat) : UInt8 := UInt8.ofNat n

/-- `utf8.EncodeRune` (surrogates and out-of-range become U+FFFD) -/
def encodeRune (r : Nat) : Bytes :=
  if r < 0x80 then [u8 r]
  else if r < 0x800 then [u8 (0xC0 + r / 64), u8 (0x80 + r % 64)]
  else if (0xD800 ≤ r ∧ r < 0xE000) ∨ r > 0x10FFFF then [0xEF, 0xBF, 0xBD]
  else if r < 0x10000 then [u8 (0xE0 + r / 4096), u8 (0x80 + (r / 64) % 64), u8 (0x80 + r % 64)]
  else [u8 (0xF0 + r / 262144), u8 (0x80 + (r / 4096) % 64), u8 (0x80 + (r / 64) % 64), u8 (0x80 + r % 64)]

/-! ### unquote -/

/-- `getu4` on the four hex digits after `\u` -/
def hex4 : Bytes → Option Nat
  | a :: b :: c :: d :: _ =>
    match hexVal a, hexVal b, hexVal c, hexVal d with
    | some w, some x, some y, some z => some (((w * 16 + x) * 16 + y) * 16 + z)
    | _, _, _, _ => none
  | _ => none

/-- `getu4(s)` where `s` should start with `\uXXXX` -/
def getu4 : Bytes → Option Nat
  | 92 :: 117 :: rest => hex4 rest
  | _ => none

def isSurrogate (r : Nat) : Bool := 0xD800 ≤ r && r < 0xE000

/-- `utf16.DecodeRune` -/
def utf16Pair (r1 : Nat) (r2 : Option Nat) : Option Nat :=
  match r2 with
  | some r2 =>
    if 0xD800 ≤ r1 ∧ r1 < 0xDC00 ∧ 0xDC00 ≤ r2 ∧ r2 < 0xE000 then
      some ((r1 - 0xD800) * 1024 + (r2 - 0xDC00) + 0x10000)
    else none
  | none => none

/-- The body of `unquoteBytes` (slow path, which the fast path agrees with): the bytes
between the quotes to the decoded bytes; `none` where Go returns `ok = false`.
`fuel` bounds the recursion; `body.length + 1` always suffices. -/
def unquoteGo : Nat → Bytes → Option Bytes
  | 0, _ => none
  | _ + 1, [] => some []
  | fuel + 1, c :: rest =>
    if c = 92 then                                     -- backslash
      match rest with
      | [] => none
      | e :: rest' =>
        if e = 34 ∨ e = 92 ∨ e = 47 ∨ e = 39 then (unquoteGo fuel rest').map (e :: ·)
        else if e = 98 then (unquoteGo fuel rest').map (8 :: ·)
        else if e = 102 then (unquoteGo fuel rest').map (12 :: ·)
        else if e = 110 then (unquoteGo fuel rest').map (10 :: ·)
        else if e = 114 then (unquoteGo fuel rest').map (13 :: ·)
        else if e = 116 then (unquoteGo fuel rest').map (9 :: ·)
        else if e = 117 then
          match hex4 rest' with
          | none => none
          | some rr =>
            let after := rest'.drop 4
            if isSurrogate rr then
              match utf16Pair rr (getu4 after) with
              | some dec => (unquoteGo fuel (after.drop 6)).map (encodeRune dec ++ ·)
              | none => (unquoteGo fuel after).map (encodeRune runeError ++ ·)
            else (unquoteGo fuel after).map (encodeRune rr ++ ·)
        else none
    else if c = 34 ∨ c.toNat < 32 then none
    else if c.toNat < 128 then (unquoteGo fuel rest).map (c :: ·)
    else
      let (r, size) := decodeRune (c :: rest)
      (unquoteGo fuel ((c :: rest).drop size)).map (encodeRune r ++ ·)

def unquoteBody (body : Bytes) : Option Bytes := unquoteGo (body.length + 1) body

/-- decoded bytes of a scanner-valid body (total: a body Go would reject decodes to `[]`,
which never happens behind the validity gate) -/
def unquote (body : Bytes) : Bytes := (unquoteBody body).getD []

/-! ### quote: `encodeState.string` without the surrounding quotes -/

def hexLower (n : Nat) : UInt8 := hexDigit n

/-- `htmlSafeSet[b]`, for b < 0x80: printable ASCII except `"`, `\`, `<`, `>`, `&` -/
def htmlSafe (b : UInt8) : Bool :=
  32 ≤ b.toNat && b.toNat < 127 && b != 34 && b != 92 && b != 60 && b != 62 && b != 38
    || b.toNat = 127

/-- `safeSet[b]`, for b < 0x80: printable ASCII except `"`, `\` -/
def safe (b : UInt8) : Bool :=
  32 ≤ b.toNat && b.toNat < 127 && b != 34 && b != 92 || b.toNat = 127

def quoteGo (esc : Bool) : Nat → Bytes → Bytes
  | 0, _ => []
  | _ + 1, [] => []
  | fuel + 1, b :: rest =>
    if b.toNat < 128 then
      if htmlSafe b || (!esc && safe b) then b :: quoteGo esc fuel rest
      else if b = 92 ∨ b = 34 then 92 :: b :: quoteGo esc fuel rest
      else if b = 10 then 92 :: 110 :: quoteGo esc fuel rest
      else if b = 13 then 92 :: 114 :: quoteGo esc fuel rest
      else if b = 9 then 92 :: 116 :: quoteGo esc fuel rest
      else 92 :: 117 :: 48 :: 48 :: hexLower (b.toNat / 16) :: hexLower (b.toNat % 16) :: quoteGo esc fuel rest
    else
      let (r, size) := decodeRune (b :: rest)
      if r = runeError ∧ size = 1 then
        ascii "\\ufffd" ++ quoteGo esc fuel rest
      else if r = 0x2028 ∨ r = 0x2029 then
        ascii "\\u202" ++ [hexLower (r % 16)] ++ quoteGo esc fuel ((b :: rest).drop size)
      else (b :: rest).take size ++ quoteGo esc fuel ((b :: rest).drop size)

/-- body (without quotes) that the encoder writes for the Go string `s` -/
def quoteBody (esc : Bool) (s : Bytes) : Bytes := quoteGo esc (s.length + 1) s

/-! ### the escaper inside `compact(dst, src, escape = true)` acting on one string body -/

def escGo : Nat → Bytes → Bytes
  | 0, _ => []
  | _ + 1, [] => []
  | fuel + 1, c :: rest =>
    if c = 60 ∨ c = 62 ∨ c = 38 then
      92 :: 117 :: 48 :: 48 :: hexLower (c.toNat / 16) :: hexLower (c.toNat % 16) :: escGo fuel rest
    else if c = 0xE2 ∧ rest.take 2 = [0x80, 0xA8] then ascii "\\u2028" ++ escGo fuel (rest.drop 2)
    else if c = 0xE2 ∧ rest.take 2 = [0x80, 0xA9] then ascii "\\u2029" ++ escGo fuel (rest.drop 2)
    else c :: escGo fuel rest

def escBody (b : Bytes) : Bytes := escGo (b.length + 1) b

end JP
