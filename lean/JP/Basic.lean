/-!
# Basic byte-string utilities

Byte strings are `List UInt8`.  Everything here is core-only and executable.
Transcribed library routines: `strconv.Atoi`, `strconv.Itoa`, `strings.Split` on one
byte, and the RFC 6901 token decoder (`strings.NewReplacer("~1","/","~0","~")`).
-/

namespace JP

abbrev Bytes := List UInt8

/-- the bytes of an ASCII string literal (reduces in the kernel, unlike `String.toUTF8`) -/
def ascii (s : String) : Bytes := s.toList.map fun c => UInt8.ofNat c.toNat

def hexDigit (n : Nat) : UInt8 :=
  if n < 10 then UInt8.ofNat (48 + n) else UInt8.ofNat (87 + n)

def toHex : Bytes → Bytes
  | [] => []
  | b :: bs => hexDigit (b.toNat / 16) :: hexDigit (b.toNat % 16) :: toHex bs

def hexVal (c : UInt8) : Option Nat :=
  if 48 ≤ c.toNat ∧ c.toNat ≤ 57 then some (c.toNat - 48)
  else if 97 ≤ c.toNat ∧ c.toNat ≤ 102 then some (c.toNat - 87)
  else if 65 ≤ c.toNat ∧ c.toNat ≤ 70 then some (c.toNat - 55)
  else none

def ofHex : Bytes → Option Bytes
  | [] => some []
  | [_] => none
  | a :: b :: rest =>
    match hexVal a, hexVal b, ofHex rest with
    | some x, some y, some r => some (UInt8.ofNat (x * 16 + y) :: r)
    | _, _, _ => none

/-! ### decimal -/

def isDigit (c : UInt8) : Bool := 48 ≤ c.toNat && c.toNat ≤ 57

/-- value of a digit string, most significant first, with accumulator -/
def digitsVal : Nat → Bytes → Option Nat
  | acc, [] => some acc
  | acc, c :: cs => if isDigit c then digitsVal (acc * 10 + (c.toNat - 48)) cs else none

/-- `strconv.Atoi` on a 64-bit platform: one optional sign, at least one digit, only
digits, value within int64. -/
def atoi (s : Bytes) : Option Int :=
  match s with
  | [] => none
  | c :: cs =>
    if c = 45 then            -- '-'
      if cs.isEmpty then none else
      match digitsVal 0 cs with
      | some n => if n ≤ 9223372036854775808 then some (-(n : Int)) else none
      | none => none
    else if c = 43 then       -- '+'
      if cs.isEmpty then none else
      match digitsVal 0 cs with
      | some n => if n ≤ 9223372036854775807 then some (n : Int) else none
      | none => none
    else
      match digitsVal 0 (c :: cs) with
      | some n => if n ≤ 9223372036854775807 then some (n : Int) else none
      | none => none

def natDigits (n : Nat) : Bytes := (toString n).toUTF8.toList

/-- `strconv.Itoa` -/
def itoa (i : Int) : Bytes :=
  if i < 0 then 45 :: natDigits i.natAbs else natDigits i.natAbs

/-- the token is the canonical decimal spelling of the integer it denotes -/
def canonicalInt (s : Bytes) : Option Int :=
  match atoi s with
  | some i => if itoa i = s then some i else none
  | none => none

/-! ### splitting and token decoding -/

/-- `strings.Split(s, "/")` : always at least one piece -/
def splitSlash : Bytes → List Bytes
  | [] => [[]]
  | c :: cs =>
    match splitSlash cs with
    | [] => [[]]       -- unreachable
    | p :: ps => if c = 47 then [] :: p :: ps else (c :: p) :: ps

/-- `decodePatchKey`: one left-to-right pass replacing `~1` by `/` and `~0` by `~`. -/
def decodeToken : Bytes → Bytes
  | [] => []
  | [c] => [c]
  | a :: b :: rest =>
    if a = 126 ∧ b = 49 then 47 :: decodeToken rest
    else if a = 126 ∧ b = 48 then 126 :: decodeToken rest
    else a :: decodeToken (b :: rest)

/-- inverse direction, used by specs and generators: `~`→`~0`, `/`→`~1` -/
def encodeToken : Bytes → Bytes
  | [] => []
  | c :: cs =>
    if c = 126 then 126 :: 48 :: encodeToken cs
    else if c = 47 then 126 :: 49 :: encodeToken cs
    else c :: encodeToken cs

def bytesLt : Bytes → Bytes → Bool
  | [], [] => false
  | [], _ :: _ => true
  | _ :: _, [] => false
  | a :: as, b :: bs => if a < b then true else if b < a then false else bytesLt as bs

def isPrefix : Bytes → Bytes → Bool
  | [], _ => true
  | _ :: _, [] => false
  | a :: as, b :: bs => a == b && isPrefix as bs

end JP
