import JP.Impl.Apply

/-!
# Implementation model, part 3: `v5/merge.go` and `Equal`

`MergePatch`, `MergeMergePatches` (`doMergePatch`, `merge`, `mergeDocs`, `pruneNulls`,
`pruneDocNulls`), `CreateMergePatch` (`getDiff`, `matchesValue`), `Equal`.

The patch side of every merge is a raw message, so the recursion is structural on its
syntax tree.  Go iterates the patch's *map*; the model visits the map entries in order
of first appearance.  The only thing this choice can influence is the relative order
of members newly appended to the result (compared modulo that by the correspondence).
-/

namespace JP
namespace Impl

def isShadowed (k : Bytes) (rest : List (Bytes × Cst)) : Bool := hasKeyC (unquote k) rest

/-- `doc.remove(k, &ApplyOptions{})` with the error ignored -/
def docRemoveIgnore (keys : List Bytes) (obj : NMembers) (k : Bytes) : List Bytes × NMembers :=
  match lookupN k obj with
  | none => (keys, obj)
  | some _ => (eraseKey k keys, eraseN k obj)

/-- drop the entries whose node is nil (`pruneDocNulls`, the removal part) -/
def dropNilEntries : List Bytes → NMembers → NMembers → List Bytes × NMembers
  | keys, obj, [] => (keys, obj)
  | keys, obj, (k, n) :: rest =>
    match n with
    | .nil => let (keys', obj') := docRemoveIgnore keys obj k; dropNilEntries keys' obj' rest
    | _ => dropNilEntries keys obj rest

mutual
/-- the node a raw message becomes under `pruneNulls` -/
def pruneC : Cst → Node
  | .obj ms =>
    let ms' := pruneCM ms
    let obj := ms'.foldl (fun acc m => setN m.1 m.2 acc) []
    let (keys', obj') := dropNilEntries (ms'.map Prod.fst) obj obj
    .doc keys' obj'
  | c => .raw c
def pruneCM : List (Bytes × Cst) → NMembers
  | [] => []
  | (k, v) :: ms => (unquote k, if v.isNullLit then .nil else pruneC v) :: pruneCM ms
end

mutual
def pruneN : Node → Node
  | .raw c => pruneC c
  | .doc keys obj =>
    let obj1 := pruneNM obj
    let (keys', obj') := dropNilEntries keys obj1 obj1
    .doc keys' obj'
  | n => n
def pruneNM : NMembers → NMembers
  | [] => []
  | (k, n) :: ms => (k, pruneN n) :: pruneNM ms
end

/-- `mergeMerge` null member: make sure the name is in `keys`, store nil -/
def docSetNil (keys : List Bytes) (obj : NMembers) (k : Bytes) : List Bytes × NMembers :=
  ((if keys.contains k then keys else keys ++ [k]), setN k .nil obj)

def docSet' (keys : List Bytes) (obj : NMembers) (k : Bytes) (n : Node) : List Bytes × NMembers :=
  ((if keys.contains k then keys else keys ++ [k]), setN k n obj)

mutual
/-- `merge(cur, patch, mergeMerge)` with `patch` a raw message -/
def mergeNC (mm : Bool) (cur : Node) : Cst → Node
  | .obj pms =>
    match intoDoc cur with
    | .ok (.doc keys obj) =>
      let (keys', obj') := mergeDocsC mm keys obj pms
      .doc keys' obj'
    | _ => pruneC (.obj pms)
  | pc =>
    match intoDoc cur with
    | .ok (.doc _ _) => .raw pc
    | _ => pruneC pc
/-- `mergeDocs(doc, patch, mergeMerge)`; one step per map entry of the patch -/
def mergeDocsC (mm : Bool) (keys : List Bytes) (obj : NMembers) : List (Bytes × Cst) → List Bytes × NMembers
  | [] => (keys, obj)
  | (k, v) :: pms =>
    if isShadowed k pms then mergeDocsC mm keys obj pms
    else
      let key := unquote k
      let (keys1, obj1) : List Bytes × NMembers :=
        if v.isNullLit then
          if mm then docSetNil keys obj key else docRemoveIgnore keys obj key
        else
          match lookupN key obj with
          | none => docSet' keys obj key (if mm then .raw v else pruneC v)
          | some .nil => docSet' keys obj key (if mm then .raw v else pruneC v)
          | some cur => docSet' keys obj key (mergeNC mm cur v)
      mergeDocsC mm keys1 obj1 pms
end

/-- `doMergePatch` -/
def doMergePatch (mm : Bool) (docData patchData : Bytes) : Outcome Bytes :=
  if !Scanner.valid docData then .err .badDoc
  else if !Scanner.valid patchData then .err .badPatch
  else
    match parseCst docData, parseCst patchData with
    | some dc, some pc =>
      if dc.isNullLit then .err .badDoc
      else if pc.isNullLit then .ok patchData
      else
        match dc, pc with
        | .obj dms, .obj pms =>
          match decodeDoc dms with
          | .doc keys obj =>
            let (keys', obj') := mergeDocsC mm keys obj pms
            .ok (Cst.print (cstOf true (.doc keys' obj')))
          | _ => .panic
        | _, .obj pms =>
          if mm then .ok (Cst.print (cstOf true (decodeDoc pms)))
          else .ok (Cst.print (cstOf true (pruneN (decodeDoc pms))))
        | _, .arr xs => .ok (Cst.print (cstOf true (decodeAry xs)))
        | _, _ => .ok patchData
    | _, _ => .err .badDoc

def mergePatch (doc patch : Bytes) : Outcome Bytes := doMergePatch false doc patch
def mergeMergePatches (p1 p2 : Bytes) : Outcome Bytes := doMergePatch true p1 p2

/-- `Equal` -/
def equal (a b : Bytes) : Bool :=
  if !Scanner.valid a || !Scanner.valid b then false
  else match parseCst a, parseCst b with
    | some ca, some cb => eqCC ca cb
    | _, _ => false

/-! ### `CreateMergePatch`: works on decoded dynamic values (`map[string]any`, `Number`) -/

open Value in
def insertSorted (k : Bytes) (v : Value) : Members → Members
  | [] => [(k, v)]
  | (k', v') :: ms =>
    if k' = k then (k, v) :: ms
    else if bytesLt k k' then (k, v) :: (k', v') :: ms
    else (k', v') :: insertSorted k v ms

mutual
/-- a value as `Unmarshal` into `any` holds it and `Marshal` prints it back: object
members deduplicated (last wins) and sorted by name -/
def anyOf : Value → Value
  | .arr xs => .arr (anyOfL xs)
  | .obj ms => .obj (anyOfM ms [])
  | v => v
def anyOfL : List Value → List Value
  | [] => []
  | x :: xs => anyOf x :: anyOfL xs
def anyOfM : Value.Members → Value.Members → Value.Members
  | [], acc => acc
  | (k, v) :: ms, acc => anyOfM ms (insertSorted k (anyOf v) acc)
end

def sameType : Value → Value → Bool
  | .null, .null => true
  | .bool _, .bool _ => true
  | .num _, .num _ => true
  | .str _, .str _ => true
  | .arr _, .arr _ => true
  | .obj _, .obj _ => true
  | _, _ => false

mutual
/-- `matchesValue` on normalised (`anyOf`) values -/
def matchesValue : Value → Value → Bool
  | .null, b => (match b with | .null => true | _ => false)
  | .bool x, b => (match b with | .bool y => x == y | _ => false)
  | .num x, b => (match b with | .num y => x == y | _ => false)
  | .str x, b => (match b with | .str y => x == y | _ => false)
  | .arr xs, b => (match b with | .arr ys => matchesL xs ys | _ => false)
  | .obj xs, b => (match b with | .obj ys => xs.length == ys.length && matchesM xs ys | _ => false)
def matchesL : List Value → List Value → Bool
  | [], ys => ys.isEmpty
  | x :: xs, ys => (match ys with | y :: ys' => matchesValue x y && matchesL xs ys' | [] => false)
/-- Go ranges over `bt` and looks each key up in `at`; with equal sizes and distinct keys
this is the same as ranging over `at` and looking up in `bt` -/
def matchesM : Value.Members → Value.Members → Bool
  | [], _ => true
  | (k, v) :: xs, ys =>
    (match Value.lookup k ys with | some w => matchesValue v w | none => false) && matchesM xs ys
end

mutual
/-- `getDiff(a, b)` for normalised member lists; result sorted by name -/
def getDiffM (a : Value.Members) : Value.Members → Value.Members
  | [] => []
  | (k, bv) :: bs =>
    match Value.lookup k a with
    | none => (k, bv) :: getDiffM a bs
    | some av => getDiffOne k av bv ++ getDiffM a bs
def getDiffOne (k : Bytes) (av : Value) : Value → Value.Members
  | .obj bms =>
    match av with
    | .obj ams =>
      let d := mergeSorted (getDiffM ams bms) (deletedM bms ams)
      if d.isEmpty then [] else [(k, .obj d)]
    | _ => [(k, .obj bms)]
  | bv => if sameType av bv && matchesValue av bv then [] else [(k, bv)]
def deletedM (b : Value.Members) : Value.Members → Value.Members
  | [] => []
  | (k, _) :: as => if (Value.lookup k b).isSome then deletedM b as else (k, .null) :: deletedM b as
/-- union of two name-sorted lists with disjoint names -/
def mergeSorted : Value.Members → Value.Members → Value.Members
  | xs, [] => xs
  | xs, (k, v) :: ys => mergeSorted (insertSorted k v xs) ys
end

def getDiff (a b : Value.Members) : Value.Members := mergeSorted (getDiffM a b) (deletedM b a)

mutual
/-- `MarshalEscaped(v, esc)` of a dynamic value -/
def marshalAnyE (esc : Bool) : Value → Cst
  | .null => litNull
  | .bool b => .lit (if b then ascii "true" else ascii "false")
  | .num l => .lit l
  | .str s => .str (quoteBody esc s)
  | .arr xs => .arr (marshalAnyEL esc xs)
  | .obj ms => .obj (marshalAnyEM esc ms)
def marshalAnyEL (esc : Bool) : List Value → List Cst
  | [] => []
  | x :: xs => marshalAnyE esc x :: marshalAnyEL esc xs
def marshalAnyEM (esc : Bool) : Value.Members → List (Bytes × Cst)
  | [] => []
  | (k, v) :: ms => (quoteBody esc k, marshalAnyE esc v) :: marshalAnyEM esc ms
end

/-- `Marshal` (HTML escaping on) -/
def marshalAny (v : Value) : Cst := marshalAnyE true v

/-- `createObjectMergePatch` on two parsed texts (a `null` root decodes to a nil map and is
rejected like every other non-object) -/
def createObject (a b : Cst) : Outcome Value :=
  let asMap (c : Cst) : Option Value.Members :=
    match anyOf c.valueOf with
    | .obj ms => some ms
    | _ => none
  match asMap a, asMap b with
  | some am, some bm => .ok (.obj (getDiff am bm))
  | _, _ => .err .badDoc

def createArray : List Cst → List Cst → Outcome (List Value)
  | [], [] => .ok []
  | a :: as, b :: bs =>
    match createObject a b with
    | .ok v =>
      (match createArray as bs with
       | .ok vs => .ok (v :: vs)
       | .err e => .err e
       | .panic => .panic)
    | .err e => .err e
    | .panic => .panic
  | _, _ => .err .badDoc

def createMergePatch (a b : Bytes) : Outcome Bytes :=
  if !Scanner.valid a || !Scanner.valid b then .err .badDoc
  else match parseCst a, parseCst b with
    | some ca, some cb =>
      (match ca, cb with
       | .arr xs, .arr ys =>
         if xs.length ≠ ys.length then .err .badDoc
         else match createArray xs ys with
           | .ok vs => .ok (Cst.print (.arr (vs.map marshalAny)))
           | .err e => .err e
           | .panic => .panic
       | .arr _, _ => .err .badMergeTypes
       | _, .arr _ => .err .badMergeTypes
       | _, _ =>
         match createObject ca cb with
         | .ok v => .ok (Cst.print (marshalAny v))
         | .err e => .err e
         | .panic => .panic)
    | _, _ => .err .badDoc

end Impl
end JP
