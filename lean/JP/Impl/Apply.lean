import JP.Impl.Node
import JP.Scanner

/-!
# Implementation model, part 2: `findObject`, the six operations, `ensurePathExists`,
`DecodePatch`, `ApplyIndentWithOptions` (`v5/patch.go`)
-/

namespace JP
namespace Impl

/-- one decoded operation: `value = none` when the member is absent; a `null` member is
`some null` (as `Operation.value` repairs it) -/
structure Op where
  kind : Bytes
  path : Bytes
  frm : Option Bytes := none
  value : Option Cst := none
  deriving Repr, Inhabited

def Op.valueNode (op : Op) : Option Node := op.value.map Node.raw

structure Root where
  con : Node
  self : Node
  /-- the root's `self` node holds the text of an array that `isArray` does not recognise
  (its leading white space contains a carriage return): entering it always fails -/
  selfCR : Bool := false
  deriving Repr, Inhabited

/-! ### `findObject` + an action on the container it returns -/

/-- `strings.Split(path, "/")`, then `parts = split[1:len-1]` (undecoded) and the decoded
last token; `none` when `findObject` returns nil at once (no `/` in a non-empty path) -/
def splitPath (path : Bytes) : Option (List Bytes × Bytes) :=
  match splitSlash path with
  | [] => none
  | [_] => if path = [] then some ([], []) else none
  | first :: rest =>
    -- RFC 6901: a non-empty pointer starts with `/`
    if first ≠ [] then none else some (rest.dropLast, decodeToken (rest.getLast?.getD []))

inductive Walk (α : Type) where
  | done (con : Node) (a : α)     -- the action ran; `con` is the rebuilt container
  | notFound (con : Node)         -- `findObject` returned nil; `con` carries the parsing done on the way
  | fail (e : Err)                -- the action failed
  | panic
  | doneSelf (self : Node) (a : α)   -- as `done`, but everything happened below the root's `self` node
  | notFoundSelf (self : Node)       -- as `notFound`, below the root's `self` node
  deriving Inhabited

/-- replace the child that `get key` returned by `child'` -/
def putChild (o : Opts) (con : Node) (key : Bytes) (child' : Node) : Node :=
  match con with
  | .doc keys obj => .doc keys (setN key child' obj)
  | .ary nodes =>
    match atoi key with
    | some idx =>
      let i := if idx < 0 then (idx + nodes.length).toNat else idx.toNat
      .ary (listSet i child' nodes)
    | none => con
  | c => let _ := o; c

/-- walk `parts` from `con`, parsing lazily, then run `act` on the container reached -/
def walk {α} (o : Opts) (act : Node → Node → Outcome (Node × α)) (cr : Bool) : Node → Node → List Bytes → Walk α
  | self, con, [] =>
    match act self con with
    | .ok (con', a) => .done con' a
    | .err e => .fail e
    | .panic => .panic
  | self, con, part :: rest =>
    let key := decodeToken part
    match conGet o self con key with
    | .panic => .panic
    | .err _ => .notFound con
    | .ok .nil => .notFound con
    | .ok next =>
      match intoContainer next with
      | .panic => .panic
      | .err _ => .notFound con
      | .ok child =>
        -- (an empty token is an ordinary member name: RFC 6901)
        match walk o act false .nil child rest with
        | .done child' a => .done (putChild o con key child') a
        | .notFound child' => .notFound (putChild o con key child')
        | .fail e => .fail e
        | .panic => .panic
        | .doneSelf s a => .doneSelf s a
        | .notFoundSelf s => .notFoundSelf s

/-- `findObject(doc, path)` followed by `act con key` -/
def withPath {α} (o : Opts) (r : Root) (path : Bytes)
    (act : Node → Node → Bytes → Outcome (Node × α)) : Walk α :=
  match splitPath path with
  | none => .notFound r.con
  | some (parts, key) => walk o (fun self c => act self c key) r.selfCR r.self r.con parts

/-! ### `ensurePathExists` -/

def padNulls (n : Nat) : List Node := List.replicate n rawNull

/-- `parts` = `split[1:]`; returns the container with the missing parents created, and the
root's `self` node (changed only when the path starts with an empty token) -/
def ensure (o : Opts) (cr : Bool) : Node → Node → List Bytes → Outcome (Node × Node)
  | self, con, [] => .ok (con, self)
  | self, con, [_] => .ok (con, self)
  | self, con, part :: nxt :: rest =>
    let key := decodeToken part
    let target : Option Node := match conGet o self con key with
      | .ok .nil => none
      | .ok n => some n
      | _ => none
    match target with
    | none =>
      -- pad the current array up to the index about to be created
      let con1 : Node := match atoi part, con with
        | some ai, .ary nodes =>
          if ai ≥ (nodes.length : Int) + 1 then .ary (nodes ++ padNulls (ai.toNat - nodes.length)) else con
        | _, _ => con
      let nextIdx := atoi nxt
      if nextIdx.isSome ∨ nxt = [45] then
        let ai : Int := nextIdx.getD 0
        if ai < 0 ∧ !o.neg then .err .invalidIndex
        else if ai < -1 then .err .invalidIndex
        else
          let ai' : Nat := if ai < 0 then 0 else ai.toNat
          match ensure o false .nil (.ary (padNulls ai')) (nxt :: rest) with
          | .ok (child, _) =>
            (match conAdd o con1 key child with
             | .ok con2 => .ok (con2, self)
             | .err _ => .ok (con1, self)          -- the error of `doc.add` is ignored
             | .panic => .panic)
          | .err e => .err e
          | .panic => .panic
      else
        match ensure o false .nil (.doc [] []) (nxt :: rest) with
        | .ok (child, _) =>
          (match conAdd o con1 key child with
           | .ok con2 => .ok (con2, self)
           | .err _ => .ok (con1, self)
           | .panic => .panic)
        | .err e => .err e
        | .panic => .panic
    | some t =>
      match intoContainer t with
      | .panic => .panic
      | .err e => .err e
      | .ok child =>
        match ensure o false .nil child (nxt :: rest) with
        | .ok (child', _) => .ok (putChild o con key child', self)
        | .err e => .err e
        | .panic => .panic

def ensurePath (o : Opts) (r : Root) (path : Bytes) : Outcome Root :=
  match splitSlash path with
  | [] => .ok r
  | [_] => .ok r
  | first :: parts =>
    if first ≠ [] then .ok r else        -- no leading `/`: nothing to create, `findObject` rejects it
    match ensure o r.selfCR r.self r.con parts with
    | .ok (con, self) => .ok { r with con := con, self := self }
    | .err e => .err e
    | .panic => .panic

/-! ### the operations -/

/-- decode a raw message into a root container, as `add ""` and `Apply` do -/
def decodeRoot (c : Cst) : Outcome Node :=
  match c with
  | .arr xs => .ok (decodeAry xs)
  | .obj ms => .ok (decodeDoc ms)
  | .lit s => if s = ascii "null" then .ok .docNil else .err .other
  | .str _ => .err .other

def liftWalk (r : Root) : Walk Unit → (Root → Outcome Root) → Outcome Root
  | .done con _, _ => .ok { r with con := con }
  | .notFound con, k => k { r with con := con }
  | .fail e, _ => .err e
  | .panic, _ => .panic
  | .doneSelf s _, _ => .ok { r with self := s }
  | .notFoundSelf s, k => k { r with self := s }

def opAdd (o : Opts) (r : Root) (op : Op) : Outcome Root :=
  if op.path = [] then
    match op.value with
    | none => .panic                                      -- `(*val.raw)[0]` on a nil node
    | some c =>
      match decodeRoot c with
      | .ok con => .ok { con := con, self := .raw c }
      | .err e => .err e
      | .panic => .panic
  else
    let r1 : Outcome Root :=
      if o.ensure then ensurePath o r op.path else .ok r
    match r1 with
    | .err e => .err e
    | .panic => .panic
    | .ok r1 =>
      let val : Node := (op.valueNode).getD .nil
      liftWalk r1
        (withPath o r1 op.path fun _ con key =>
          match conAdd o con key val with
          | .ok con' => .ok (con', ())
          | .err e => .err e
          | .panic => .panic)
        (fun _ => .err .missing)

def opRemove (o : Opts) (r : Root) (op : Op) : Outcome Root :=
  liftWalk r
    (withPath o r op.path fun _ con key =>
      match conRemove o con key with
      | .ok con' => .ok (con', ())
      | .err e => .err e
      | .panic => .panic)
    (fun r' => if o.allow then .ok r' else .err .missing)

def opReplace (o : Opts) (r : Root) (op : Op) : Outcome Root :=
  if op.path = [] then
    match op.value with
    | none => .panic                                      -- `val.which` on a nil node
    | some c =>
      match c with
      | .obj ms => .ok { con := decodeDoc ms, self := .nil }
      | .arr xs => .ok { con := decodeAry xs, self := .nil }
      | .lit s => if s = ascii "null" then .ok { con := .nilAry, self := .nil } else .err .other
      | .str _ => .err .other
  else
    let val : Node := (op.valueNode).getD .nil
    liftWalk r
      (withPath o r op.path fun self con key =>
        match conGet o self con key with
        | .panic => .panic
        | .err _ => .err .missing
        | .ok _ =>
          match conSet o con key val with
          | .ok con' => .ok (con', ())
          | .err e => .err e
          | .panic => .panic)
      (fun _ => .err .missing)

def opMove (o : Opts) (r : Root) (op : Op) : Outcome Root :=
  match op.frm with
  | none => .err .missing
  | some frm =>
    if frm = [] then .err .invalid
    else
      let w : Walk Node := withPath o r frm fun self con key =>
        match conGet o self con key with
        | .panic => .panic
        | .err e => .err e
        | .ok val =>
          match conRemove o con key with
          | .ok con' => .ok (con', val)
          | .err e => .err e
          | .panic => .panic
      let cont (r1 : Root) (val : Node) : Outcome Root :=
        liftWalk r1
          (withPath o r1 op.path fun _ con key =>
            match conAdd o con key val with
            | .ok con' => .ok (con', ())
            | .err e => .err e
            | .panic => .panic)
          (fun _ => .err .missing)
      match w with
      | .panic => .panic
      | .fail e => .err e
      | .notFound _ => .err .missing
      | .notFoundSelf _ => .err .missing
      | .done con val => cont { r with con := con } val
      | .doneSelf s val => cont { r with self := s } val

/-- `self.equal(op.value())` / `val.equal(op.value())`; on success the visited part of the
document stays parsed -/
def equalTo (n : Node) (ov : Option Cst) : Bool × Node :=
  let oNull : Bool := match ov with | none => true | some c => c.isNullLit
  if isNullN n ∨ oNull then (isNullN n ∧ oNull, n)
  else
    match ov with
    | none => (false, n)
    | some c => if eqNC n c then (true, deepParse n) else (false, n)

def opTest (o : Opts) (r : Root) (op : Op) : Outcome Root :=
  if op.path = [] then
    let (b, con') := equalTo r.con op.value
    if b then .ok { r with con := con' } else .err .testFailed
  else
    liftWalk r
      (withPath o r op.path fun self con key =>
        let got : Outcome Node := match conGet o self con key with
          | .err .missing => .ok .nil           -- `errors.Unwrap(err) != ErrMissing`
          | x => x
        match got with
        | .panic => .panic
        | .err e => .err e
        | .ok val =>
          let (b, val') := equalTo val op.value
          if b then
            (match val with
             | .nil => .ok (con, ())
             | _ => .ok (putChild o con key val', ()))
          else .err .testFailed)
      (fun _ => .err .missing)

def isDocNil : Node → Bool
  | .docNil => true
  | _ => false

/-- the node `copy` duplicates: the live root for `from = ""` -/
def copySource (o : Opts) (r : Root) (frm : Bytes) : Walk Node :=
  withPath o r frm fun self con key =>
    match conGet o self con key with
    | .panic => .panic
    | .err e => .err e
    | .ok val => .ok (con, val)

def opCopy (o : Opts) (r : Root) (acc : Int) (op : Op) : Outcome (Root × Int) :=
  match op.frm with
  | none => .err .missing
  | some frm =>
    -- the state after a walk that found its container
    let after (r : Root) {α} (w : Walk α) : Option Root :=
      match w with
      | .done con _ => some { r with con := con }
      | .doneSelf s _ => some { r with self := s }
      | _ => none
    let failOf {α} (w : Walk α) : Outcome (Root × Int) :=
      match w with
      | .panic => .panic
      | .fail e => .err e
      | _ => .err .missing
    -- `from == ""`: the whole document as it is now, without a walk
    let w1 : Walk Node :=
      if frm = [] then (if isNullN r.con then .fail .invalid else .done r.con r.con)   -- a null root: nothing to copy
      else copySource o r frm
    match after r w1 with
    | none => failOf w1
    | some r1 =>
      -- destination container: only its existence (and the parsing on the way) matters here
      let w2 : Walk Unit := withPath o r1 op.path fun _ con _ => .ok (con, ())
      match after r1 w2 with
      | none => failOf w2
      | some r2 =>
        -- the source node as it is now (the second walk may have parsed inside it)
        let src : Outcome Node :=
          if frm = [] then .ok r2.con
          else match copySource o r2 frm with
            | .done _ v => .ok v
            | .doneSelf _ v => .ok v
            | .panic => .panic
            | _ => .err .other
        match src with
        | .panic => .panic
        | .err e => .err e
        | .ok val =>
          if frm = [] && isDocNil r2.con then .err .expectedObject else
          let (cp, sz) := deepCopy o.esc val
          let acc' := acc + sz
          if o.limit > 0 ∧ acc' > o.limit then .err .copySize
          else
            let w3 : Walk Unit := withPath o r2 op.path fun _ con key =>
              match conAdd o con key cp with
              | .ok con' => .ok (con', ())
              | .err e => .err e
              | .panic => .panic
            match after r2 w3 with
            | some r3 => .ok (r3, acc')
            | none => failOf w3

def applyOp (o : Opts) (r : Root) (acc : Int) (op : Op) : Outcome (Root × Int) :=
  let lift (x : Outcome Root) : Outcome (Root × Int) :=
    match x with
    | .ok r' => .ok (r', acc)
    | .err e => .err e
    | .panic => .panic
  if op.kind = ascii "add" then lift (opAdd o r op)
  else if op.kind = ascii "remove" then lift (opRemove o r op)
  else if op.kind = ascii "replace" then lift (opReplace o r op)
  else if op.kind = ascii "move" then lift (opMove o r op)
  else if op.kind = ascii "test" then lift (opTest o r op)
  else if op.kind = ascii "copy" then opCopy o r acc op
  else .err .other

def applyOps (o : Opts) : Root → Int → List Op → Outcome Root
  | r, _, [] => .ok r
  | r, acc, op :: ops =>
    match applyOp o r acc op with
    | .ok (r', acc') => applyOps o r' acc' ops
    | .err e => .err e
    | .panic => .panic

/-! ### `DecodePatch` -/

/-- `unmarshal(raw, &string)`: only a JSON string decodes -/
def asString : Cst → Option Bytes
  | .str b => some (unquote b)
  | _ => none

/-- a member of the operation map: absent / present-and-null (nil pointer) / present -/
inductive Member where
  | absent | null | val (c : Cst)

def member (k : Bytes) (ms : List (Bytes × Cst)) : Member :=
  match lookupLastC k ms with
  | none => .absent
  | some c => if c.isNullLit then .null else .val c

/-- `Operation.Kind` -/
def opKind (ms : List (Bytes × Cst)) : Bytes :=
  match member (ascii "op") ms with
  | .val c => (asString c).getD (ascii "unknown")
  | _ => ascii "unknown"

/-- `Operation.Path` / `From`: `none` = error -/
def opStr (name : Bytes) (ms : List (Bytes × Cst)) : Option Bytes :=
  match member name ms with
  | .val c => asString c
  | _ => none

def opValue (ms : List (Bytes × Cst)) : Option Cst :=
  match member (ascii "value") ms with
  | .absent => none
  | .null => some litNull
  | .val c => some c

/-- `validateOperation` and the decoding of one element -/
def decodeOp (ms : List (Bytes × Cst)) : Option Op :=
  let kind := opKind ms
  let okKind : Bool :=
    if kind = ascii "add" ∨ kind = ascii "replace" then (opValue ms).isSome
    else if kind = ascii "move" ∨ kind = ascii "copy" then (opStr (ascii "from") ms).isSome
    else if kind = ascii "remove" ∨ kind = ascii "test" then true
    else false
  if !okKind then none
  else match opStr (ascii "path") ms with
    | none => none
    | some p => some { kind := kind, path := p, frm := opStr (ascii "from") ms, value := opValue ms }

def decodeOps : List Cst → Option (List Op)
  | [] => some []
  | c :: cs =>
    match c with
    | .obj ms =>
      match decodeOp ms, decodeOps cs with
      | some op, some ops => some (op :: ops)
      | _, _ => none
    | _ => none     -- a null element is a nil map (kind unknown); anything else a decoder error

def decodePatch (bs : Bytes) : Outcome (List Op) :=
  if !Scanner.valid bs then .err .invalid
  else match parseCst bs with
    | none => .err .invalid
    | some (.arr xs) =>
      (match decodeOps xs with
       | some ops => .ok ops
       | none => .err .other)
    | some c => if c.isNullLit then .err .invalid else .err .other

/-! ### `ApplyIndentWithOptions` -/

/-- `isArray(buf)`: the first byte other than space, newline and tab is `[` -/
def goIsArray : Bytes → Bool
  | [] => false
  | c :: cs => if c = 32 ∨ c = 10 ∨ c = 9 then goIsArray cs else c = 91


def marshalRoot (esc : Bool) (r : Root) : Outcome Bytes :=
  match r.con with
  | .docNil => .err .expectedObject
  | .nilAry => .ok (ascii "null")
  | con => .ok (Cst.print (cstOf esc con))

def applyBytes (o : Opts) (indent : Bytes) (doc : Bytes) (ops : List Op) : Outcome Bytes :=
  if doc = [] then .ok doc
  else if !Scanner.valid doc then .err .invalid
  else match parseCst doc with
    | none => .err .invalid
    | some c =>
      match decodeRoot c with
      | .panic => .panic
      | .err e => .err e
      | .ok con =>
        match applyOps o { con := con, self := .raw c, selfCR := c.isArr && !goIsArray doc } 0 ops with
        | .panic => .panic
        | .err e => .err e
        | .ok r =>
          match marshalRoot o.esc r with
          | .panic => .panic
          | .err e => .err e
          | .ok data =>
            if indent = [] then .ok data
            else .ok ((Scanner.indent indent data).getD [])

end Impl
end JP
