import JP.Impl.Merge

/-!
# Abstraction of implementation nodes to values, and the well-formedness invariant

`den n` is the JSON value the lazily parsed node `n` stands for — exactly the value of
what `cstOf` prints.  `WF n` is the representation invariant under which the engine
theorems are stated: member names are duplicate-free (hereditarily, also inside raw
messages) and the order list `keys` of a parsed object is the key list of its map.
It is established by parsing a duplicate-free document and preserved by every operation.
-/

namespace JP
namespace Impl

def lookupV (k : Bytes) : Value.Members → Option Value := Value.lookup k

mutual
def den : Node → Value
  | .nil => .null
  | .raw c => c.valueOf
  | .doc keys obj =>
    let ms := denM obj
    .obj (keys.map fun k => (k, (Value.lookup k ms).getD .null))
  | .ary ns => .arr (denL ns)
  | .docNil => .null
  | .nilAry => .null
def denM : NMembers → Value.Members
  | [] => []
  | (k, n) :: ms => (k, den n) :: denM ms
def denL : List Node → List Value
  | [] => []
  | n :: ns => den n :: denL ns
end

mutual
def WF : Node → Bool
  | .nil => true
  | .raw c => c.valueOf.noDup
  | .doc keys obj => keys == obj.map Prod.fst && Value.nodupKeys keys && WFM obj
  | .ary ns => WFL ns
  | .docNil => false
  | .nilAry => false
def WFM : NMembers → Bool
  | [] => true
  | (_, n) :: ms => WF n && WFM ms
def WFL : List Node → Bool
  | [] => true
  | n :: ns => WF n && WFL ns
end

/-- a root as the engine keeps it: the container is a parsed object or array -/
def WFRoot (r : Root) : Bool :=
  WF r.con && (match r.con with | .doc _ _ => true | .ary _ => true | _ => false)

end Impl
end JP
