import JP.Cst

/-!
# Implementation model, part 1: lazy nodes, containers, marshalling (`v5/patch.go`)

`Node` is `*lazyNode` as the Go code uses it:

* `nil`      – a nil `*lazyNode` (what a JSON `null` child decodes to);
* `raw c`    – `which = eRaw`; the raw message is kept as its syntax tree `c`
               (the code never observes the whitespace inside a raw message);
* `doc`      – `which = eDoc`: `keys` (order list) and `obj` (the map, as an association
               list with distinct names) are kept separately, as in `partialDoc`;
* `ary`      – `which = eAry`;
* `docNil`   – a `partialDoc` whose map is nil (root decoded from the text `null`);
* `nilAry`   – a nil `*partialArray` (root after `replace "" null`).

The last two occur only as the root container.  Every dereference, index or slice
expression that Go executes without a guard has an explicit `panic` outcome here.
-/

namespace JP
namespace Impl

inductive Err where
  | missing | testFailed | invalidIndex | invalid | copySize | expectedObject
  | badDoc | badPatch | badMergeTypes
  | other
  deriving Repr, DecidableEq, Inhabited

inductive Outcome (α : Type) where
  | ok (a : α)
  | err (e : Err)
  | panic
  deriving Repr, Inhabited

inductive Node where
  | nil
  | raw (c : Cst)
  | doc (keys : List Bytes) (obj : List (Bytes × Node))
  | ary (nodes : List Node)
  | docNil
  | nilAry
  deriving Repr, Inhabited

structure Opts where
  neg : Bool := true          -- SupportNegativeIndices
  allow : Bool := false       -- AllowMissingPathOnRemove
  ensure : Bool := false      -- EnsurePathExistsOnAdd
  esc : Bool := true          -- EscapeHTML
  limit : Int := 0            -- AccumulatedCopySizeLimit
  deriving Repr, Inhabited

abbrev NMembers := List (Bytes × Node)

def lookupN (k : Bytes) : NMembers → Option Node
  | [] => none
  | (k', n) :: ms => if k' = k then some n else lookupN k ms

/-- map assignment `obj[k] = n` -/
def setN (k : Bytes) (n : Node) : NMembers → NMembers
  | [] => [(k, n)]
  | (k', n') :: ms => if k' = k then (k, n) :: ms else (k', n') :: setN k n ms

/-- `delete(obj, k)` -/
def eraseN (k : Bytes) : NMembers → NMembers
  | [] => []
  | (k', n) :: ms => if k' = k then ms else (k', n) :: eraseN k ms

/-- remove the first occurrence of `k` from the order list -/
def eraseKey (k : Bytes) : List Bytes → List Bytes
  | [] => []
  | k' :: ks => if k' = k then ks else k' :: eraseKey k ks

def rawNull : Node := .raw (.lit (ascii "null"))

/-! ### decoding a raw message one level (the reflective decoder, facts B8) -/

/-- a child as the decoder hands it out: JSON null ↦ nil pointer, otherwise raw -/
def childOf (c : Cst) : Node := if c.isNullLit then .nil else .raw c

/-- the map built from the members in order of appearance (a repeated name overwrites) -/
def decodeMembers : List (Bytes × Cst) → NMembers → NMembers
  | [], acc => acc
  | (k, v) :: ms, acc => decodeMembers ms (setN (unquote k) (childOf v) acc)

def decodeKeys (ms : List (Bytes × Cst)) : List Bytes := ms.map fun m => unquote m.1

def decodeDoc (ms : List (Bytes × Cst)) : Node := .doc (decodeKeys ms) (decodeMembers ms [])

def decodeAry (xs : List Cst) : Node := .ary (xs.map childOf)

/-- `lazyNode.intoDoc`; on a nil receiver Go dereferences nil -/
def intoDoc : Node → Outcome Node
  | .nil => .panic
  | .doc keys obj => .ok (.doc keys obj)
  | .raw (.obj ms) => .ok (decodeDoc ms)
  | _ => .err .invalid

/-- `lazyNode.intoAry` (callers test `isArray` on the raw text first) -/
def intoAry : Node → Outcome Node
  | .nil => .panic
  | .ary ns => .ok (.ary ns)
  | .raw (.arr xs) => .ok (decodeAry xs)
  | _ => .err .other

/-- `isArray(*n.raw)`: looks at the (possibly stale) raw text -/
def rawIsArray : Node → Bool
  | .raw c => c.isArr
  | .ary _ => true
  | _ => false

/-- descend into a child the way `findObject` / `ensurePathExists` do -/
def intoContainer (n : Node) : Outcome Node :=
  if rawIsArray n then intoAry n else intoDoc n

/-! ### `container` methods -/

/-- `get`: the result node may be `nil` (a JSON null child).  An empty key is an ordinary
member name (RFC 6901); the `self` argument is kept for the callers' signatures and unused. -/
def conGet (o : Opts) (_self : Node) (con : Node) (key : Bytes) : Outcome Node :=
  match con with
  | .doc _ obj =>
    match lookupN key obj with
    | some n => .ok n
    | none => .err .missing
  | .docNil => .err .expectedObject
  | .ary nodes =>
    match atoi key with
      | none => .err .other
      | some idx =>
        if idx < 0 then
          if !o.neg then .err .invalidIndex
          else if idx < -(nodes.length : Int) then .err .invalidIndex
          else
            match nodes[(idx + nodes.length).toNat]? with
            | some n => .ok n
            | none => .err .invalidIndex
        else
          match nodes[idx.toNat]? with
          | some n => .ok n
          | none => .err .invalidIndex
  | .nilAry => .err .invalid
  | _ => .panic

def listSet {α} : Nat → α → List α → List α
  | _, _, [] => []
  | 0, a, _ :: xs => a :: xs
  | n + 1, a, x :: xs => x :: listSet n a xs

def listInsert {α} : Nat → α → List α → List α
  | 0, a, xs => a :: xs
  | _ + 1, a, [] => [a]
  | n + 1, a, x :: xs => x :: listInsert n a xs

def docSet (keys : List Bytes) (obj : NMembers) (key : Bytes) (val : Node) : Node :=
  .doc (if keys.contains key then keys else keys ++ [key]) (setN key val obj)

/-- `set` (used by replace): `d.nodes[idx] = val` is not bounds-checked -/
def conSet (o : Opts) (con : Node) (key : Bytes) (val : Node) : Outcome Node :=
  match con with
  | .doc keys obj => .ok (docSet keys obj key val)
  | .docNil => .err .expectedObject
  | .ary nodes =>
    match atoi key with
    | none => .err .other
    | some idx =>
      if idx < 0 then
        if !o.neg then .err .invalidIndex
        else if idx < -(nodes.length : Int) then .err .invalidIndex
        else
          let i := (idx + nodes.length).toNat
          if i < nodes.length then .ok (.ary (listSet i val nodes)) else .panic
      else
        if idx.toNat < nodes.length then .ok (.ary (listSet idx.toNat val nodes)) else .panic
  | .nilAry => .err .invalid
  | _ => .panic

def conAdd (o : Opts) (con : Node) (key : Bytes) (val : Node) : Outcome Node :=
  match con with
  | .doc keys obj => .ok (docSet keys obj key val)
  | .docNil => .err .expectedObject
  | .ary nodes =>
    if key = [45] then .ok (.ary (nodes ++ [val]))
    else match atoi key with
      | none => .err .other
      | some idx =>
        let sz : Int := nodes.length + 1
        if idx ≥ sz then .err .invalidIndex
        else if idx < 0 then
          if !o.neg then .err .invalidIndex
          else if idx < -sz then .err .invalidIndex
          else
            let i := (idx + sz).toNat
            if i ≤ nodes.length then .ok (.ary (listInsert i val nodes)) else .panic
        else .ok (.ary (listInsert idx.toNat val nodes))
  | .nilAry => .err .invalid
  | _ => .panic

def conRemove (o : Opts) (con : Node) (key : Bytes) : Outcome Node :=
  match con with
  | .doc keys obj =>
    match lookupN key obj with
    | none => if o.allow then .ok con else .err .missing
    | some _ =>
      if keys.contains key then .ok (.doc (eraseKey key keys) (eraseN key obj))
      else .panic                       -- keys[0:-1]
  | .docNil => .err .expectedObject
  | .ary nodes =>
    match atoi key with
    | none => .err .other
    | some idx =>
      if idx ≥ (nodes.length : Int) then
        if o.allow then .ok con else .err .invalidIndex
      else if idx < 0 then
        if !o.neg then .err .invalidIndex
        else if idx < -(nodes.length : Int) then
          if o.allow then .ok con else .err .invalidIndex
        else .ok (.ary (nodes.eraseIdx (idx + nodes.length).toNat))
      else .ok (.ary (nodes.eraseIdx idx.toNat))
  | .nilAry => .err .invalid
  | _ => .panic

/-! ### marshalling -/

def litNull : Cst := .lit (ascii "null")

def lookupC (k : Bytes) : List (Bytes × Cst) → Option Cst
  | [] => none
  | (k', c) :: ms => if k' = k then some c else lookupC k ms

mutual
/-- what `MarshalEscaped(node, esc)` writes, as a syntax tree.  Object members are
emitted in `keys` order, a name without a map entry prints `null`
(`TrustMarshalJSON`); raw messages go through `compact(escape)`. -/
def cstOf (esc : Bool) : Node → Cst
  | .nil => litNull
  | .raw c => Cst.escape esc c
  | .doc keys obj =>
    let ms := cstOfM esc obj
    .obj (keys.map fun k => (quoteBody esc k, (lookupC k ms).getD litNull))
  | .ary ns => .arr (cstOfL esc ns)
  | .docNil => litNull
  | .nilAry => litNull
def cstOfM (esc : Bool) : NMembers → List (Bytes × Cst)
  | [] => []
  | (k, n) :: ms => (k, cstOf esc n) :: cstOfM esc ms
def cstOfL (esc : Bool) : List Node → List Cst
  | [] => []
  | n :: ns => cstOf esc n :: cstOfL esc ns
end

/-- `deepCopy`: nil stays nil with size 0, anything else becomes a fresh raw message -/
def deepCopy (esc : Bool) (n : Node) : Node × Nat :=
  match n with
  | .nil => (.nil, 0)
  | n => let c := cstOf esc n; (.raw c, (Cst.print c).length)

/-! ### nullness and equality (`isNull`, `lazyNode.equal`) -/

def isNullN : Node → Bool
  | .nil => true
  | .nilAry => true
  | .raw c => c.isNullLit
  | _ => false

def hasKeyC (k : Bytes) : List (Bytes × Cst) → Bool
  | [] => false
  | (k', _) :: ms => unquote k' = k || hasKeyC k ms

/-- last member with decoded name `k` (the map entry after decoding) -/
def lookupLastC (k : Bytes) : List (Bytes × Cst) → Option Cst
  | [] => none
  | (k', c) :: ms =>
    match lookupLastC k ms with
    | some c' => some c'
    | none => if unquote k' = k then some c else none

/-- number of distinct decoded names (`len(map)`) -/
def uniqueCount : List (Bytes × Cst) → Nat
  | [] => 0
  | (k, _) :: ms => if hasKeyC (unquote k) ms then uniqueCount ms else uniqueCount ms + 1

mutual
/-- `equal` of two raw messages -/
def eqCC : Cst → Cst → Bool
  | .lit a, o =>
    if a = ascii "null" ∨ o.isNullLit then a = ascii "null" ∧ o.isNullLit
    else (match o with | .lit b => a == b | _ => false)
  | .str a, o => (match o with | .str b => unquote a == unquote b | _ => false)
  | .arr xs, o => (match o with | .arr ys => eqCCL xs ys | _ => false)
  | .obj ms, o =>
    (match o with
     | .obj os => uniqueCount ms == uniqueCount os && eqCCM ms os
     | _ => false)
def eqCCL : List Cst → List Cst → Bool
  | [], ys => ys.isEmpty
  | x :: xs, ys => (match ys with | y :: ys' => eqCC x y && eqCCL xs ys' | [] => false)
/-- every map entry of the left (a member not shadowed by a later duplicate) has an equal
partner on the right -/
def eqCCM : List (Bytes × Cst) → List (Bytes × Cst) → Bool
  | [], _ => true
  | (k, v) :: ms, os =>
    (if hasKeyC (unquote k) ms then true
     else match lookupLastC (unquote k) os with
       | some ov => eqCC v ov
       | none => false) && eqCCM ms os
end

mutual
/-- `n.equal(o)` where `o` is (the syntax tree of) a raw message or of one of its children -/
def eqNC : Node → Cst → Bool
  | .nil, o => o.isNullLit
  | .nilAry, o => o.isNullLit
  | .docNil, o =>
    -- a `partialDoc` with a nil map: `len(nil map) == len(o's map)` and an empty loop
    (match o with
     | .obj os => uniqueCount os == 0
     | _ => false)
  | .raw c, o => eqCC c o
  | .doc _ obj, o =>
    (match o with
     | .obj os => obj.length == uniqueCount os && eqNCM obj os
     | _ => false)
  | .ary ns, o => (match o with | .arr ys => eqNCL ns ys | _ => false)
def eqNCL : List Node → List Cst → Bool
  | [], ys => ys.isEmpty
  | n :: ns, ys => (match ys with | y :: ys' => eqNC n y && eqNCL ns ys' | [] => false)
def eqNCM : NMembers → List (Bytes × Cst) → Bool
  | [], _ => true
  | (k, n) :: ms, os =>
    (match lookupLastC k os with
     | some ov => eqNC n ov
     | none => false) && eqNCM ms os
end

mutual
/-- the parsing a *successful* `equal` leaves behind: every container it visited is parsed -/
def deepParseC : Cst → Node
  | .lit s => if s = ascii "null" then .nil else .raw (.lit s)
  | .str b => .raw (.str b)
  | .arr xs => .ary (deepParseCL xs)
  | .obj ms => .doc (decodeKeys ms) (deepParseCM ms [])
def deepParseCL : List Cst → List Node
  | [] => []
  | x :: xs => deepParseC x :: deepParseCL xs
def deepParseCM : List (Bytes × Cst) → NMembers → NMembers
  | [], acc => acc
  | (k, v) :: ms, acc => deepParseCM ms (setN (unquote k) (deepParseC v) acc)
end

mutual
def deepParse : Node → Node
  | .raw c => if c.isArr || c.isObj then deepParseC c else .raw c
  | .doc keys obj => .doc keys (deepParseM obj)
  | .ary ns => .ary (deepParseL ns)
  | n => n
def deepParseM : NMembers → NMembers
  | [] => []
  | (k, n) :: ms => (k, deepParse n) :: deepParseM ms
def deepParseL : List Node → List Node
  | [] => []
  | n :: ns => deepParse n :: deepParseL ns
end

end Impl
end JP
