import JP.Check
import JP.Legacy.Check
import JP.Legacy.CheckFloat
import JP.Codec.EncodeWire
import JP.Codec.Decode
import JP.Codec.Stream
import JP.Codec.TypedWire
import JP.Codec.FloatDriver
import JP.Codec.TypedDecodeDriver
import JP.Heap.DriverHeap
import JP.Heap.DriverHeapLegacy

/-!
# Request handling of the line-protocol driver (pure part)
-/

namespace JP
namespace Driver

def hexField (s : String) : Option Bytes :=
  if s = "-" then some [] else ofHex s.toUTF8.toList

def optHexField (s : String) : Option (Option Bytes) :=
  if s = "!" then some none else (hexField s).map some

def showHex (b : Bytes) : String :=
  if b.isEmpty then "-" else String.fromUTF8! (ByteArray.mk (toHex b).toArray)

def parseObs (s : String) : Option (Obs × Bool) :=
  if s = "panic" then some (.panic, true)
  else if s = "hang" then some (.hang, true)
  else if s = "derr" then some (.derr, true)
  else if s.startsWith "ok:" then (hexField (s.drop 3).toString).map fun b => (.ok b, false)
  else if s.startsWith "err:" then
    let cs := (s.drop 4).toString.toList
    match cs with
    | [f, n] => some (.err f, n = 'n')
    | [f] => some (.err f, true)
    | _ => none
  else none

def showObs : Obs → String
  | .ok b => "ok:" ++ showHex b
  | .err f => "err:" ++ f.toString
  | .panic => "panic"
  | .hang => "hang"
  | .derr => "derr"

def showVerdict : Verdict → String
  | .ok => "ok"
  | .unspec => "unspec"
  | .viol c => "viol:" ++ c

def parseOpts (flags : String) (limit : String) : Option Impl.Opts :=
  match flags.toList, limit.toInt? with
  | [n, a, e, s], some l => some { neg := n = '1', allow := a = '1', ensure := e = '1', esc := s = '1', limit := l }
  | _, _ => none

def reply (id : String) (corr : Bool) (model : String) (props : List (String × Verdict)) (sig : String) : String :=
  id ++ " corr=" ++ (if corr then "ok" else "diff") ++ " "
    ++ " ".intercalate (props.map fun (p, v) => p ++ "=" ++ showVerdict v)
    ++ " sig=" ++ sig ++ " model=" ++ model

def bad (id : String) (why : String) : String := id ++ " corr=diff bad-request=" ++ why

/-! ### APPLY -/

def applyModel (o : Impl.Opts) (indent doc patch : Bytes) : Obs :=
  match Impl.decodePatch patch with
  | .ok ops => obsOf (Impl.applyBytes o indent doc ops)
  | .err _ => .derr
  | .panic => .panic

def specClass : Spec.Outcome → String
  | .ok _ => "ok"
  | .unspec => "unspec"
  | .fail i c => "fail" ++ toString i ++ (match c with
      | .parentUnreachable => "pu" | .absentMember => "am" | .badIndex => "bi" | .testUnequal => "tu"
      | .copyLimit => "cl" | .moveFromRoot => "mr" | .rootNotContainer => "rn")

def obsClass : Obs → String
  | .ok _ => "ok"
  | .err f => "err" ++ f.toString
  | .panic => "panic"
  | .hang => "hang"
  | .derr => "derr"

def kindsSig (patch : Bytes) : String :=
  match Impl.decodePatch patch with
  | .ok ops => String.ofList (ops.map fun op => (String.fromUTF8! (ByteArray.mk op.kind.toArray)).toList.getD 0 '?'
                 |> fun c => if op.kind = ascii "remove" then 'x' else if op.kind = ascii "replace" then 'p' else c)
  | _ => "-"

/-- compare the model's observable with the implementation's: byte-exact on success,
error class on failure -/
def sameObs (m o : Obs) : Bool := m = o

def findTag (tag : String) (rest : List String) : Option String :=
  (rest.find? (·.startsWith tag)).map fun s => (s.drop tag.length).toString

def handleApply (id : String) (args : List String) : String :=
  match args with
  | flags :: limit :: indent :: doc :: patch :: "=>" :: obsS :: rest =>
    match parseOpts flags limit, hexField indent, hexField doc, hexField patch, parseObs obsS with
    | some o, some ind, some d, some p, some (obs, nilDoc) =>
      let trunc : Option Obs := (findTag "trunc=" rest).bind fun s => (parseObs s).map (·.1)
      let plain : Option Obs := (findTag "plain=" rest).bind fun s => (parseObs s).map (·.1)
      let mutated := (findTag "mut=" rest) = some "1"
      let model := applyModel o ind d p
      let corr := sameObs model obs
      -- the specification sees the un-indented output
      let plainObs : Obs := if ind.isEmpty then obs else plain.getD obs
      let s := specApply o d p
      let v01 := if d.isEmpty then Verdict.unspec else c01 s plainObs
      let v05 := if d.isEmpty then Verdict.unspec else c05 s plainObs
      let v08 := if d.isEmpty then Verdict.unspec else c08 s plainObs trunc nilDoc
      -- sizes=12,n,7: what each copy is worth according to the OUTPUTS of the truncated patch (limit stream)
      let sizes : Option (List (Option Nat)) := (findTag "sizes=" rest).map fun t =>
        (t.splitOn ",").map fun w => w.toNat?
      let v12 := if d.isEmpty then Verdict.unspec else
        (c12 s plainObs).and (match sizes with | some zs => c12sizes o.limit zs plainObs | none => .unspec)
      let v14 : Verdict := if o.ensure then (v01.and v05) else .unspec
      let v13 : Verdict := if o.allow then v01 else .unspec
      let v04 : Verdict := if obs.bad then .viol "panic-or-hang" else .ok
      let v09 : Verdict := if mutated then .viol "input-modified" else .ok
      let utf := isValidUtf8 d && isValidUtf8 p
      let v15 : Verdict :=
        match obs with
        | .ok out =>
          if d.isEmpty then .unspec else
          -- an indent string with anything but white space is the caller's own text
          let a := if ind.all isWs then c15out o.esc utf out else .unspec
          let b : Verdict :=
            if ind.isEmpty then
              (if !o.esc && !noNewEscapes (d ++ p) out then .viol "escape-introduced-with-escaping-off" else .ok)
            else
              match plain with
              | some (.ok pl) =>
                (match Scanner.indent ind pl with
                 | some want => if want = out then .ok else .viol "indent-law"
                 | none => .viol "indent-law")
              | _ => .unspec
          -- "an independent parser reads back the intended value": the specification's value
          let c : Verdict := match v01 with
            | .viol "value" => .viol "reads-back-as-different-value"
            | _ => .ok
          (a.and b).and c
        | _ => .unspec
      Heap.tagCorr (Heap.heapAgrees o d p) <| reply id corr (showObs model)
        [("C01", v01), ("C04", v04), ("C05", v05), ("C08", v08), ("C09", v09), ("C12", v12), ("C13", v13), ("C14", v14), ("C15", v15)]
        (specClass s ++ "/" ++ obsClass obs ++ "/" ++ kindsSig p ++ "/" ++ flags ++ (if o.limit > 0 then "L" else ""))
    | _, _, _, _, _ => bad id "apply-fields"
  | _ => bad id "apply-arity"

/-! ### ALLOW (C13) -/

/-- indices of the removes the specification skips, following the specification's run -/
def specSkipped (o : Spec.Opts) : Nat → Value → List Spec.Op → Option (List Nat)
  | _, _, [] => some []
  | i, d, op :: ops =>
    let here : Option Bool :=
      if op.kind = .remove then
        match Spec.parsePointer op.path with
        | some (t :: ts) =>
          (match Spec.skipsRemove o d (t :: ts) with
           | .ok b => some b
           | .fail _ => some false
           | .unspec => none)
        | _ => none
      else some false
    match here with
    | none => none
    | some b =>
      match Spec.applyOp o 0 0 d op with
      | .ok (d', _) => (specSkipped o (i + 1) d' ops).map fun r => if b then i :: r else r
      | .fail _ => some (if b then [i] else [])
      | .unspec => none

def eraseIdxs {α} (xs : List α) (idxs : List Nat) : List α :=
  (xs.zipIdx.filter fun (_, i) => !idxs.contains i).map Prod.fst

def parseIdxs (s : String) : Option (List Nat) :=
  if s = "-" then some [] else (s.splitOn ",").mapM String.toNat?

def handleAllow (id : String) (args : List String) : String :=
  match args with
  | [flags, doc, patch, "=>", onS, skS, offS] =>
    match parseOpts flags "0", hexField doc, hexField patch, parseObs onS, parseIdxs skS, parseObs offS with
    | some o, some d, some p, some (on, _), some sk, some (off, _) =>
      let oOn := { o with allow := true }
      let oOff := { o with allow := false }
      match Impl.decodePatch p with
      | .ok ops =>
        let mOn := obsOf (Impl.applyBytes oOn [] d ops)
        let mOff := obsOf (Impl.applyBytes oOff [] d (eraseIdxs ops sk))
        let corr := sameObs mOn on && sameObs mOff off
        let sOn := specApply oOn d p
        let vSpec := c01 sOn on
        let vSame : Verdict :=
          match on, off with
          | .ok a, .ok b =>
            (match parseValueOf a, parseValueOf b with
             | some va, some vb => if Value.beq va vb then .ok else .viol "rewritten-patch-differs"
             | _, _ => .viol "output-not-json")
          | .err f, .err g => if f = g then .ok else .viol "rewritten-patch-error-differs"
          | _, _ => .viol "rewritten-patch-outcome-differs"
        let vSkip : Verdict :=
          match parseValueOf d, specPatch p with
          | some dv, some sops =>
            if !dv.isContainer then .unspec else
            (match specSkipped (specOpts oOn) 0 dv sops with
             | some want => if want = sk then .ok else .viol "skipped-set"
             | none => .unspec)
          | _, _ => .unspec
        let v13 : Verdict := match vSpec with
          | .unspec => .unspec
          | _ => vSpec.and (vSame.and vSkip)
        let v04 : Verdict := if on.bad || off.bad then .viol "panic-or-hang" else .ok
        reply id corr (showObs mOn ++ "|" ++ showObs mOff) [("C13", v13), ("C04", v04)]
          (specClass sOn ++ "/" ++ obsClass on ++ "/" ++ kindsSig p ++ "/sk" ++ toString sk.length ++ "/" ++ flags)
      | _ =>
        -- the patch text does not decode: the library must say so both times; nothing to compare beyond that
        let bothDerr : Bool := (match on, off with | .derr, .derr => true | _, _ => false)
        reply id bothDerr "derr|derr"
          [("C13", .unspec), ("C04", if on.bad || off.bad then .viol "panic-or-hang" else .ok)] "derr"
    | _, _, _, _, _, _ => bad id "allow-fields"
  | _ => bad id "allow-arity"

/-! ### TESTTR (C15: passing tests are transparent) -/

def handleTestTr (id : String) (args : List String) : String :=
  match args with
  | [flags, doc, patch, patch2, "=>", aS, bS] =>
    match parseOpts flags "0", hexField doc, hexField patch, hexField patch2, parseObs aS, parseObs bS with
    | some o, some d, some p, some p2, some (a, _), some (b, _) =>
      let mA := applyModel o [] d p
      let mB := applyModel o [] d p2
      let corr := sameObs mA a && sameObs mB b
      -- repeated member names are outside every property (C15.counterexample_dup shows the clause false there)
      let dupFree : Bool := ((parseValueOf d).map Value.noDup).getD true && ((parseValueOf p).map Value.noDup).getD true
      let v15 : Verdict :=
        if !dupFree then .unspec else
        match a with
        | .ok x => (match b with
                    | .ok y => if x = y then .ok else .viol "passing-test-changed-output"
                    | _ => .viol "passing-test-changed-outcome")
        | _ => .unspec
      let v04 : Verdict := if a.bad || b.bad then .viol "panic-or-hang" else .ok
      let trig := if keyNotEncoderSpelled o.esc d p then " trigger=key-not-encoder-spelled" else ""
      reply id corr (showObs mA ++ "|" ++ showObs mB) [("C15", v15), ("C04", v04)]
        (obsClass a ++ "/" ++ kindsSig p ++ "/" ++ flags) ++ trig
    | _, _, _, _, _, _ => bad id "testtr-fields"
  | _ => bad id "testtr-arity"

/-! ### EQUAL -/

def handleEqual (id : String) (args : List String) : String :=
  match args with
  | a :: b :: "=>" :: r :: rest =>
    match hexField a, hexField b with
    | some x, some y =>
      let got : Option Bool := if r = "t" then some true else if r = "f" then some false else none
      let m := Impl.equal x y
      let corr := got = some m
      let mutated := (findTag "mut=" rest) = some "1"
      let tf (t : Option String) : Option Bool := if t = some "t" then some true else if t = some "f" then some false else none
      -- symmetry and reflexivity are judged when the harness asked the swapped / the diagonal call as well
      let rel : Verdict := match findTag "sym=" rest, findTag "refl=" rest with
        | some s, some rf => c06rel x got (tf (some s)) (tf (some rf))
        | _, _ => .ok
      reply id corr (if m then "t" else "f")
        [("C06", (c06 x y got).and rel), ("C04", if got.isNone then .viol "panic-or-hang" else .ok),
         ("C09", if mutated then .viol "input-modified" else .ok)]
        ((if (parseCst x).isSome then "v" else "m") ++ (if (parseCst y).isSome then "v" else "m") ++ "/" ++ r)
    | _, _ => bad id "equal-fields"
  | _ => bad id "equal-arity"

/-! ### MERGE / COMPOSE / CREATE -/

mutual
/-- equality up to the order of the members that are new with respect to `doc`
(Go map iteration decides the order in which `mergeDocs` appends them) -/
def eqvNewOrder : Value → Value → Value → Bool
  | d, .obj ms, g =>
    match g with
    | .obj gs =>
      let dms := match d with | .obj x => x | _ => []
      let oldM := ms.filter fun m => (Value.lookup m.1 dms).isSome
      let oldG := gs.filter fun m => (Value.lookup m.1 dms).isSome
      oldM.map Prod.fst == oldG.map Prod.fst
        && gs.length == ms.length
        && eqvNewOrderM dms ms gs
    | _ => false
  | _, .arr xs, g => (match g with | .arr ys => Value.beqL xs ys | _ => false)
  | _, m, g => Value.beq m g
def eqvNewOrderM (dms : Value.Members) : Value.Members → Value.Members → Bool
  | [], _ => true
  | (k, v) :: ms, gs =>
    (match Value.lookup k gs with
     | some g => eqvNewOrder ((Value.lookup k dms).getD .null) v g
     | none => false) && eqvNewOrderM dms ms gs
end

def sameObsModOrder (doc : Bytes) (m o : Obs) : Bool :=
  match m, o with
  | .ok a, .ok b =>
    a = b || (match parseValueOf doc, parseValueOf a, parseValueOf b with
              | some d, some va, some vb => eqvNewOrder d va vb && a.length = b.length
              | _, _, _ => false)
  | _, _ => m = o

def handleMerge (id : String) (args : List String) : String :=
  match args with
  | d :: p :: "=>" :: r :: rest =>
    match hexField d, hexField p, parseObs r with
    | some doc, some patch, some (obs, _) =>
      let m := obsOf (Impl.mergePatch doc patch)
      let mutated := (findTag "mut=" rest) = some "1"
      let v15 : Verdict := match obs with
        | .ok out =>
          -- … "that an independent parser reads back as the intended value" (the RFC 7396 result)
          (c15out false (isValidUtf8 doc && isValidUtf8 patch) out).and
            (match c02 doc patch obs with | .viol _ => .viol "reads-back-as-different-value" | _ => .ok)
        | _ => .unspec
      reply id (sameObsModOrder doc m obs) (showObs m)
        [("C02", c02 doc patch obs), ("C05", c05merge doc patch obs), ("C15", v15),
         ("C04", if obs.bad then .viol "panic-or-hang" else .ok),
         ("C09", if mutated then .viol "input-modified" else .ok)]
        (obsClass obs ++ "/" ++ (match parseValueOf doc, parseValueOf patch with
           | some dv, some pv => (if dv.isObj then "o" else if dv.isArr then "a" else if dv.isNull then "n" else "s")
               ++ (if pv.isObj then "o" else if pv.isArr then "a" else if pv.isNull then "n" else "s")
               ++ (if pv.hasNullMember then "N" else "") ++ toString (min pv.size 9)
           | _, _ => "mal"))
    | _, _, _ => bad id "merge-fields"
  | _ => bad id "merge-arity"

def handleCompose (id : String) (args : List String) : String :=
  match args with
  | [a, b, d, "=>", r1, r2, r3] =>
    match hexField a, hexField b, hexField d, parseObs r1, parseObs r2, parseObs r3 with
    | some p1, some p2, some doc, some (comb, _), some (seq, _), some (app, _) =>
      let m := obsOf (Impl.mergeMergePatches p1 p2)
      let v15 : Verdict := match comb with
        | .ok out => c15out false (isValidUtf8 p1 && isValidUtf8 p2) out
        | _ => .unspec
      reply id (sameObsModOrder p1 m comb) (showObs m)
        [("C07", c07 p1 p2 doc comb seq app), ("C15", v15),
         ("C04", if comb.bad || seq.bad || app.bad then .viol "panic-or-hang" else .ok)]
        (obsClass comb ++ "/" ++ (match parseValueOf p1, parseValueOf p2 with
           | some v1, some v2 => (if v1.isObj then "o" else "x") ++ (if v2.isObj then "o" else "x")
               ++ (if Spec.compatible v1 v2 then "c" else "i") ++ toString (min v2.size 9)
           | _, _ => "mal"))
    | _, _, _, _, _, _ => bad id "compose-fields"
  | _ => bad id "compose-arity"

def handleCreate (id : String) (args : List String) : String :=
  match args with
  | a :: b :: "=>" :: r1 :: r2 :: rest =>
    match hexField a, hexField b, parseObs r1, parseObs r2 with
    | some x, some y, some (pobs, _), some (mobs, _) =>
      let m := obsOf (Impl.createMergePatch x y)
      let mutated := (findTag "mut=" rest) = some "1"
      let v15 : Verdict := match pobs with
        | .ok out => c15out true (isValidUtf8 x && isValidUtf8 y) out
        | _ => .unspec
      reply id (sameObs m pobs) (showObs m)
        [("C03", c03 x y pobs mobs), ("C15", v15),
         ("C04", if pobs.bad || mobs.bad then .viol "panic-or-hang" else .ok),
         ("C09", if mutated then .viol "input-modified" else .ok)]
        (obsClass pobs ++ "/" ++ (match parseValueOf x, parseValueOf y with
           | some va, some vb => (if createShape va vb then "s" else "x") ++ (if Value.eqv va vb then "e" else "d")
               ++ (if vb.hasNullMember then "N" else "") ++ toString (min vb.size 9)
           | _, _ => "mal"))
    | _, _, _, _ => bad id "create-fields"
  | _ => bad id "create-arity"

/-! ### DECODE (C11) -/

def parseOpObs : List String → Option (List OpObs)
  | [] => some []
  | k :: p :: f :: v :: rest =>
    match hexField k, optHexField p, optHexField f, optHexField v, parseOpObs rest with
    | some k', some p', some f', some v', some r => some ({ kind := k', path := p', frm := f', value := v' } :: r)
    | _, _, _, _, _ => none
  | _ => none

def modelOpObs (op : Impl.Op) : OpObs :=
  { kind := op.kind, path := some op.path, frm := op.frm,
    value := op.value.map fun c => Cst.print (Impl.marshalAny (Impl.anyOf c.valueOf)) }

def handleDecode (id : String) (args : List String) : String :=
  match args with
  | p :: "=>" :: r :: rest =>
    match hexField p with
    | some patch =>
      let got : Option (Option (List OpObs)) :=
        if r = "err" then some none
        else if r = "ok" then (parseOpObs (rest.drop 1)).map some
        else none
      let m := Impl.decodePatch patch
      match got with
      | some g =>
        let corr : Bool := match m, g with
          | .ok ops, some os => ops.map modelOpObs = os
          | .err _, none => true
          | _, _ => false
        reply id corr (match m with | .ok ops => "ok" ++ toString ops.length | .err _ => "err" | .panic => "panic")
          [("C11", c11 patch g), ("C04", .ok)]
          ((if g.isSome then "acc" else "rej") ++ "/" ++ (match parseValueOf patch with
              | some v => if Spec.wellFormedPatch v then "wf" else (if v.isArr then "ill" else "root")
              | none => "mal"))
      | none =>
        if r = "panic" ∨ r = "hang" then reply id false "-" [("C04", .viol "panic-or-hang"), ("C11", .viol "panic")] "panic"
        else bad id "decode-obs"
    | none => bad id "decode-fields"
  | _ => bad id "decode-arity"

/-! ### VALID / ENTRY (C16) -/

def handleValid (id : String) (args : List String) : String :=
  match args with
  | [t, "=>", bits] =>
    match hexField t with
    | some text =>
      let spec := (parseCst text).isSome
      let mv := Scanner.valid text
      -- `compact`/`indent` accept exactly what `valid` accepts (`Scanner.compact_isSome`,
      -- `Scanner.indent_isSome`); the loops are run for texts of ordinary size only
      let mc := if text.length > 4000 then mv else (Scanner.compact false text).isSome
      let mi := if text.length > 4000 then mv else (Scanner.indent [32] text).isSome
      let model := String.ofList ([mv, mc, mi, mv].map fun b => if b then '1' else '0')
      -- bits: Valid Compact Indent Unmarshal [StdValid]
      let implBits := bits.toList.take 4
      let corr := implBits = model.toList
      let want := if spec then '1' else '0'
      let v16 : Verdict :=
        if implBits.all (· = want) then
          (match bits.toList[4]? with
           | some s => if s = want then .ok else .viol "reference-parser-disagrees-with-stdlib"
           | none => .ok)
        else .viol ("accepts-differs-from-rfc8259:" ++ bits)
      reply id corr model [("C16", v16), ("C04", if bits.contains 'p' then .viol "panic-or-hang" else .ok)]
        ((if spec then "wf" else "mal") ++ toString (min text.length 12))
    | none => bad id "valid-fields"
  | _ => bad id "valid-arity"

/-- ENTRY: how every public entry point treats one text used as document / patch.
bits: Apply(doc=text,[]) MergePatch(text,{}) MergePatch({},text) MergeMerge(text,{})
CreateMergePatch(text,text) Equal(text,text) DecodePatch(text)  — '1' accepted, '0'
rejected, 'p' panic -/
def handleEntry (id : String) (args : List String) : String :=
  match args with
  | [t, "=>", bits] =>
    match hexField t with
    | some text =>
      let okB (o : Impl.Outcome Bytes) : Char := match o with | .ok _ => '1' | .err _ => '0' | .panic => 'p'
      let empty := ascii "{}"
      let model : List Char :=
        [ okB (Impl.applyBytes {} [] text []),
          okB (Impl.mergePatch text empty),
          okB (Impl.mergePatch empty text),
          okB (Impl.mergeMergePatches text empty),
          okB (Impl.createMergePatch text text),
          (if Impl.equal text text then '1' else '0'),
          (match Impl.decodePatch text with | .ok _ => '1' | .err _ => '0' | .panic => 'p'),
          -- the text on ONE side only: the whole of it ends up in the produced patch and is encoded again
          okB (Impl.createMergePatch empty text),
          okB (Impl.createMergePatch text empty) ]
      let corr := bits.toList = model
      let wf := parseCst text
      let v16 : Verdict :=
        match wf with
        | none =>
          -- ill-formed: everything rejects (an empty document is passed through by Apply)
          let bs := bits.toList
          if text.isEmpty then (if (bs.drop 1).all (· = '0') then .ok else .viol ("ill-formed-accepted:" ++ bits))
          else if bs.all (· = '0') then .ok else .viol ("ill-formed-accepted:" ++ bits)
        | some c =>
          -- well-formed and of the right shape ⇒ accepted
          let v := c.valueOf
          let bs := bits.toList
          let need : List (Option Bool) :=
            [ (if v.isContainer then some true else none),          -- Apply: object/array document
              (if v.isNull then none else some true),               -- MergePatch doc: any non-null
              some true,                                            -- MergePatch patch: any
              (if v.isNull then none else some true),               -- MergeMerge p1
              (if v.isObj then some true else none),                -- CreateMergePatch: objects
              some true,                                            -- Equal(x,x)
              (if Spec.wellFormedPatch v then some true else some false),
              (if v.isObj then some true else none),                -- CreateMergePatch({}, x)
              (if v.isObj then some true else none) ]               -- CreateMergePatch(x, {})
          if (need.zip bs).all fun (n, b) => match n with | some true => b = '1' | some false => b = '0' | none => true
          then .ok else .viol ("well-formed-rejected:" ++ bits)
      reply id corr (String.ofList model) [("C16", v16), ("C04", if bits.contains 'p' then .viol "panic-or-hang" else .ok)]
        ((match wf with | some c => (if c.isObj then "o" else if c.isArr then "a" else "s") | none => "mal")
          ++ toString (min text.length 12))
    | none => bad id "entry-fields"
  | _ => bad id "entry-arity"

/-! ### SCAN: one row of the scanner's transition table -/

def stOfName (n : String) : Option Scanner.St :=
  [ ("stateBeginValueOrEmpty", Scanner.St.stateBeginValueOrEmpty), ("stateBeginValue", .stateBeginValue),
    ("stateBeginStringOrEmpty", .stateBeginStringOrEmpty), ("stateBeginString", .stateBeginString),
    ("stateEndValue", .stateEndValue), ("stateEndTop", .stateEndTop), ("stateInString", .stateInString),
    ("stateInStringEsc", .stateInStringEsc), ("stateInStringEscU", .stateInStringEscU),
    ("stateInStringEscU1", .stateInStringEscU1), ("stateInStringEscU12", .stateInStringEscU12),
    ("stateInStringEscU123", .stateInStringEscU123), ("stateNeg", .stateNeg), ("state1", .state1),
    ("state0", .state0), ("stateDot", .stateDot), ("stateDot0", .stateDot0), ("stateE", .stateE),
    ("stateESign", .stateESign), ("stateE0", .stateE0), ("stateT", .stateT), ("stateTr", .stateTr),
    ("stateTru", .stateTru), ("stateF", .stateF), ("stateFa", .stateFa), ("stateFal", .stateFal),
    ("stateFals", .stateFals), ("stateN", .stateN), ("stateNu", .stateNu), ("stateNul", .stateNul),
    ("stateError", .stateError) ].lookup n

def nameOfSt (s : Scanner.St) : String := (reprStr s).replace "JP.Scanner.St." ""

/-- stacks are written bottom first: `s012` or `n<len>:<top>` (all other entries arrays) -/
def parseStack (s : String) : Option (List Nat) :=
  if s.startsWith "s" then
    some ((s.drop 1).toString.toList.map fun c => c.toNat - 48).reverse
  else if s.startsWith "n" then
    match ((s.drop 1).toString.splitOn ":") with
    | [n, t] =>
      match n.toNat?, t.toNat? with
      | some n, some t => some (t :: List.replicate (n - 1) Scanner.parseArrayValue)
      | _, _ => none
    | _ => none
  else none

def showStack (st : List Nat) : String :=
  if st.length > 8 then "n" ++ toString st.length ++ ":" ++ toString (st.headD 0)
  else "s" ++ String.ofList (st.reverse.map fun n => Char.ofNat (48 + n))

def handleScan (args : List String) : String :=
  match args with
  | stN :: stack :: byte :: "=>" :: rest =>
    match stOfName stN, parseStack stack, byte.toNat? with
    | some st, some stk, some b =>
      let s : Scanner.Scan := { st := st, stack := stk, endTop := false, err := false }
      -- combinations the scanner never reaches and on which Go indexes an empty stack
      let unreachable : Bool := stk.isEmpty && st = .stateBeginStringOrEmpty && b = 125
      let (s', op) := Scanner.step s (UInt8.ofNat b)
      let model := nameOfSt s'.st ++ " " ++ toString op ++ " " ++ showStack s'.stack ++ " "
        ++ (if s'.endTop then "1" else "0") ++ " " ++ (if s'.err then "1" else "0")
      let got := " ".intercalate rest
      let corr := got = model || (unreachable && got = "panic")
      "scan corr=" ++ (if corr then "ok" else "diff") ++ " C16=ok sig=" ++ stN ++ " model=" ++ model.replace " " "_"
        ++ " row=" ++ stN ++ "_" ++ stack ++ "_" ++ byte
    | _, _, _ => bad "scan" "scan-fields"
  | _ => bad "scan" "scan-arity"

/-! ### CODEC (C17): the embedded codec on dynamic values -/

def handleCodec (id : String) (args : List String) : String :=
  match args with
  | [fn, a1, a2, "=>", r] =>
    match hexField a1, hexField a2, parseObs r with
    | some x, some y, some (obs, _) =>
      let esc := x = [49]
      -- model result, property verdict
      let res : Option (Obs × Verdict) :=
        if fn = "compact" then
          let m : Obs := match Scanner.compact false y with | some b => .ok b | none => .err '-'
          let v : Verdict := match obs, parseCst y with
            | .ok out, some c => if (parseCst out).map Cst.valueOf |>.map (Value.beq c.valueOf) |>.getD false then .ok else .viol "compact-changed-value"
            | .err _, none => .ok
            | _, _ => .viol "compact-accepts-differs"
          some (m, v)
        else if fn = "compactesc" then
          let m : Obs := match Scanner.compact true y with | some b => .ok b | none => .err '-'
          let v : Verdict := match obs, parseCst y with
            | .ok out, some c =>
              if hasRawHtml out then .viol "escaping-left-raw-char"
              else if (parseCst out).map Cst.valueOf |>.map (Value.beq c.valueOf) |>.getD false then .ok else .viol "compact-escape-changed-value"
            | .err _, none => .ok
            | _, _ => .viol "compact-accepts-differs"
          some (m, v)
        else if fn = "indent" then
          let m : Obs := match Scanner.indent x y with | some b => .ok b | none => .err '-'
          let v : Verdict := match obs, parseCst y with
            | .ok out, some c => if (parseCst out).map Cst.valueOf |>.map (Value.beq c.valueOf) |>.getD false then .ok else .viol "indent-changed-value"
            | .err _, none => .ok
            | _, _ => .viol "indent-accepts-differs"
          some (m, v)
        else if fn = "htmlescape" then
          let m : Obs := .ok (Scanner.htmlEscape 0 y)
          let v : Verdict := match obs, parseCst y with
            | .ok out, some c =>
              if hasRawHtml out then .viol "htmlescape-left-raw-char"
              else if (parseCst out).map Cst.valueOf |>.map (Value.beq c.valueOf) |>.getD false then .ok else .viol "htmlescape-changed-value"
            | _, _ => .unspec
          some (m, if (parseCst y).isSome then v else .unspec)
        else if fn = "roundtrip" then
          -- Unmarshal into `any`, MarshalEscaped(esc)
          let m : Obs := match parseCst y with
            | some c => .ok (Cst.print (Impl.marshalAnyE esc (Impl.anyOf c.valueOf)))
            | none => .err '-'
          let v : Verdict := match obs, parseCst y with
            | .ok out, some c =>
              (match parseValueOf out with
               | some v' => if Value.beq (Impl.anyOf c.valueOf) v' then .ok else .viol "roundtrip-changed-value"
               | none => .viol "output-not-json")
            | .err _, none => .ok
            | _, _ => .viol "unmarshal-accepts-differs"
          some (m, v)
        else if fn = "keys" then
          -- UnmarshalWithKeys into a map: the key list, each key hex, joined by 0x00 is not safe;
          -- the harness sends the list re-marshalled as a JSON array of strings
          let m : Obs := match parseCst y with
            | some (.lit _) => obs      -- `null`: the key list of an earlier decode is returned (not an object: unspecified)
            | some (.obj ms) => .ok (Cst.print (.arr (ms.map fun kv => .str (quoteBody true (unquote kv.1)))))
            | some _ => .err '-'
            | none => .err '-'
          let v : Verdict := match obs, parseCst y with
            | .ok out, some (.obj ms) =>
              (match parseValueOf out with
               | some (.arr ks) => if Value.beqL ks (ms.map fun kv => Value.str (unquote kv.1)) then .ok else .viol "keys-order"
               | _ => .viol "keys-shape")
            | _, _ => .unspec
          some (m, v)
        else if fn = "quote" then
          -- Marshal of a Go string (arbitrary bytes)
          let m : Obs := .ok (34 :: quoteBody esc y ++ [34])
          let v : Verdict := match obs with
            | .ok out =>
              (match parseCst out with
               | some (.str body) =>
                 if isValidUtf8 y then (if unquote body = y then .ok else .viol "quote-unquote")
                 else .ok
               | _ => .viol "quote-not-a-string")
            | _ => .viol "quote-failed"
          some (m, v)
        else if fn = "enc" then
          -- MarshalEscaped on a Go value in the wire format of `JP/Codec/EncodeWire.lean`: the literal
          -- model of the reflective encoder (`JP/Codec/Encode.lean`).  A panic is part of the model
          -- (a node with `which = eAry` and a nil array), so C04 is judged on agreement only.
          match Codec.Enc.decodeWire y with
          | none => none
          | some g =>
            let m : Obs := obsOf (Codec.Enc.marshalEscaped esc g)
            some (m, if sameObs m obs then .ok else .viol "encoder-differs")
        else if fn.startsWith "dec-" then
          -- the reflective decoder on one of the library's target shapes (`JP.Codec`): `x` = mode byte;
          -- the harness primes the pooled state with the key list stale1,stale2,stale1
          let stale : List Bytes := [ascii "stale1", ascii "stale2", ascii "stale1"]
          match Codec.shapeTarget (fn.drop 4).toString, x with
          | some t, [mode] =>
            (match Codec.runMode mode t y stale with
             | some out =>
               let m : Obs := if out = ascii "panic" then .panic else if out = ascii "fuel" then .hang else .ok out
               -- an unchecked entry point on an ill-formed text is outside the library's use: no property.  On a
               -- well-formed text the decoder model is PROVED to return the specified value and, for objects, the member
               -- names in document order (`C17decode.decode_spec`, `decode_mapraw`, …): a result that differs from it
               -- is a decoded value or key list that is not the text's (as for `enc`, agreement is the verdict)
               some (m, if (parseCst y).isSome then (if sameObs m obs then .ok else .viol "decoder-differs") else .unspec)
             | none => none)
          | _, _ => none
        else none
      let fam : String := if fn = "enc" then "enc-" ++ ((Codec.Enc.decodeWire y).map Codec.Enc.wireFamily).getD "?" else fn
      match res with
      | some (m, v) => reply id (sameObs m obs) (showObs m) [("C17", v), ("C04", if obs.bad && !(fn = "enc" && sameObs m obs)
                             && !(fn.startsWith "dec-" && (parseCst y).isNone && (x = [118] || x = [86])) then .viol "panic-or-hang" else .ok)]
                         (fam ++ "/" ++ obsClass obs ++ "/" ++ toString (min y.length 16))
      | none => bad id "codec-fn"
    | _, _, _ => bad id "codec-fields"
  | _ => bad id "codec-arity"

/-! ### STREAM (C17): the Decoder / Encoder streams of stream.go against `JP/Codec/Stream.lean` -/

def splitComma (s : String) : List String := if s = "-" then [] else s.splitOn ","

/-- `STREAM id dec <input> <program> <chunking> => <trace>`: the real `Decoder` (UseNumber) driven by the
program through a reader with the given chunking (which the model does not see);
`STREAM id enc <esc> <prefix> <indent> <wire,wire,…> => ok:<written> <flags> | panic`: one `Encoder`,
one `Encode` per value -/
def handleStream (id : String) (args : List String) : String :=
  match args with
  | ["dec", inp, prog, chunk, "=>", r] =>
    match hexField inp, hexField prog, hexField r with
    | some x, some p, some got =>
      (match Codec.Stream.trace x p with
       | some m =>
         let corr := m = got
         let bad := r = "panic" || r = "hang"
         let hasErr := got.contains 33
         reply id corr (showHex m)
           [("C17", if corr then .ok else .viol "decoder-stream-differs"), ("C04", if bad then .viol "panic-or-hang" else .ok)]
           ("sdec/" ++ chunk.take 1 ++ "/" ++ (if hasErr then "err" else "clean") ++ "/" ++ toString (min p.length 12))
       | none => bad id "stream-program")
    | some x, some p, none =>
      -- `panic` / `hang`: the model never panics on a program
      (match Codec.Stream.trace x p with
       | some m => reply id false (showHex m) [("C17", .viol "decoder-stream-differs"), ("C04", .viol "panic-or-hang")] ("sdec/" ++ r)
       | none => bad id "stream-program")
    | _, _, _ => bad id "stream-fields"
  | "enc" :: escS :: pre :: ind :: wires :: "=>" :: obs =>
    match hexField pre, hexField ind, (splitComma wires).mapM (fun w => (hexField w).bind Codec.Enc.decodeWire) with
    | some pr, some ind', some vals =>
      let enc : Codec.Stream.Enc := { escapeHTML := escS = "1", indentPrefix := pr, indentValue := ind' }
      let model : String := match Codec.Stream.encodeAll enc vals with
        | none => "panic"
        | some (out, fl) => "ok:" ++ showHex out ++ " " ++ (if fl.isEmpty then "-" else String.fromUTF8! (ByteArray.mk fl.toArray))
      let got := " ".intercalate obs
      let corr := model = got
      reply id corr (model.replace " " "_")
        [("C17", if corr then .ok else .viol "encoder-stream-differs"),
         ("C04", if (got = "panic" && !corr) || got = "hang" then .viol "panic-or-hang" else .ok)]
        ("senc/" ++ escS ++ (if pr.isEmpty then "-" else "p") ++ (if ind'.isEmpty then "-" else "i") ++ "/" ++ toString vals.length)
    | _, _, _ => bad id "stream-enc-fields"
  | _ => bad id "stream-arity"

/-! ### STD: harness-side differential against the standard library (C17, not a theorem) -/

def handleStd (id : String) (args : List String) : String :=
  match args with
  | kind :: "=>" :: r :: _ =>
    id ++ " corr=ok C17=" ++ (if r = "same" then "ok" else "viol:stdlib-differs:" ++ kind ++ ":" ++ r) ++ " sig=std-" ++ kind ++ " model=-"
  | _ => bad id "std-arity"

/-! ### CLI (C20) -/

def cliRun (stdin : Bytes) : List (Option Bytes) → Bytes × Nat
  | files =>
    if files.any Option.isNone then ([], 1)
    else
      let texts := files.filterMap id
      match texts.mapM (fun t => match Impl.decodePatch t with | .ok ops => some ops | _ => none) with
      | none => ([], 1)
      | some ps =>
        let r := ps.foldl (fun (acc : Option Bytes) ops =>
          match acc with
          | none => none
          | some d => match Impl.applyBytes {} [] d ops with | .ok out => some out | _ => none) (some stdin)
        match r with
        | some out => (out, 0)
        | none => ([], 1)

/-- `CLI id pkg stdin n files… => stdout exit libout libexit stderrLen`: `lib*` is the fold of
the library's own Apply computed in-process by the harness -/
def handleCli (id : String) (args : List String) : String :=
  match args with
  | pkg :: stdinS :: nS :: rest =>
    match hexField stdinS, nS.toNat? with
    | some stdin, some n =>
      let fileFields := rest.take n
      match rest.drop n with
      | ["=>", outS, exitS, libS, libExitS, errLenS] =>
        let files : Option (List (Option Bytes)) := fileFields.mapM fun f => if f = "MISSING" then some none else (hexField f).map some
        match files, hexField outS, exitS.toNat?, hexField libS, libExitS.toNat?, errLenS.toNat? with
        | some fs, some out, some ex, some lib, some libEx, some errLen =>
          -- the model covers the v5 command; the legacy command, and the multi-megabyte runs (`v5big`, `v4big`: the two
          -- outputs arrive as SHA-256 digests), are compared with the fold of their own library only
          let (mOut, mEx) := if pkg = "v5" then cliRun stdin fs else ([], 0)
          let corr := pkg ≠ "v5" || (lib = mOut && ((libEx = 0) = (mEx = 0)))
          let v20 : Verdict :=
            if ex = 0 then (if libEx = 0 ∧ out = lib then .ok else .viol "stdout-differs-from-fold")
            else if !out.isEmpty then .viol "document-written-on-failure"
            else if libEx = 0 then .viol "failed-where-fold-succeeds"
            else if errLen = 0 then .viol "no-error-message" else .ok
          reply id corr (showHex mOut ++ ":" ++ toString mEx) [("C20", v20)]
            (pkg ++ "/n" ++ toString n ++ "/" ++ (if ex = 0 then "ok" else "fail"))
        | _, _, _, _, _, _ => bad id "cli-fields"
      | _ => bad id "cli-arity"
    | _, _ => bad id "cli-head"
  | _ => bad id "cli-arity"

/-! ### the legacy root package (C18, C19): property predicates -/

def opKindAt (patch : Bytes) (i : Nat) : Option Spec.OpKind :=
  (specPatch patch).bind fun ops => (ops[i]?).map (·.kind)

mutual
/-- numbers a float64 round trip prints back unchanged: short plain integers -/
def floatExact : Value → Bool
  | .num l => l.length ≤ 15 && l.all isDigit && (l.length = 1 || l.head? ≠ some 48)
  | .arr xs => floatExactL xs
  | .obj ms => floatExactM ms
  | _ => true
def floatExactL : List Value → Bool
  | [] => true
  | x :: xs => floatExact x && floatExactL xs
def floatExactM : Value.Members → Bool
  | [] => true
  | (_, v) :: ms => floatExact v && floatExactM ms
end

/-- a pointer the RFC rejects or reads differently from the legacy package -/
def legacyLoose (p : Bytes) : Bool :=
  (Spec.parsePointer p).isNone

def handleLApply (id : String) (args : List String) : String :=
  match args with
  | negS :: limitS :: doc :: patch :: "=>" :: obsS :: rest =>
    match hexField doc, hexField patch, parseObs obsS, limitS.toInt? with
    | some d, some p, some (obs, nilDoc), some limit =>
      let neg := negS = "1"
      let o : Impl.Opts := { neg := neg, limit := limit }
      let model := Legacy.applyModel neg limit d p
      let corr := sameObs model obs
      let s : Spec.Outcome := if limit = 0 then specApply { o with limit := 0 } d p else .unspec
      -- outside the statement: a copy whose source is the whole document, adds that replace the root
      let rootish : Bool := match specPatch p with
        | some ops => ops.any fun op => (op.kind = .add && op.path = []) || (op.kind = .copy && op.frm = []) || (op.kind = .replace && op.path = [])
            || (op.kind = .test && op.value.isNone)      -- RFC 6902 requires a value; the legacy decoder does not validate
            -- RFC 6901 strictness the legacy package does not have (and C18 does not list):
            -- pointers without a leading '/'
            || legacyLoose op.path || (op.frm != [] && legacyLoose op.frm)
        | none => true
      -- C18's domain: "strings compared by test operations are spelled without escapes and
      -- without <, >, &" (v4 compares spellings, and `copy` re-spells its value with HTML escapes)
      let escapes : Bool := p.contains 92 || d.contains 92 || hasRawHtml p || hasRawHtml d
        -- the legacy package compares strings as raw bytes: invalid UTF-8 (which decodes to U+FFFD) is outside the statement
        || !isValidUtf8 d || !isValidUtf8 p
      let listed (i : Nat) (c : Spec.Cause) : Bool :=
        let k := opKindAt p i
        c = .testUnequal || c = .badIndex
          || ((k = some .remove || k = some .move) && (c = .absentMember || c = .parentUnreachable))
      let v18 : Verdict :=
        if rootish then .unspec else
        match s with
        | .unspec => .unspec
        | .ok v =>
          (match obs with
           | .ok out => (match parseValueOf out with
                         | some v' => if Value.eqv v v' then (if (v'.numLits.all fun l => v.numLits.contains l) then .ok else .viol "literal-changed") else .viol "value"
                         | none => .viol "output-not-json")
           | _ => if escapes then .unspec else .viol "should-succeed")
        | .fail i c =>
          if !listed i c then .unspec
          else (match obs with
                | .err _ => if nilDoc then .ok else .viol "document-with-error"
                | _ => if c = .testUnequal && escapes then .unspec else .viol "should-fail")
      -- C12: the specification run with the legacy code's own copy sizes and the limit
      let s12 : Spec.Outcome := if limit > 0 then Legacy.specApply neg limit d p else .unspec
      let v12 : Verdict :=
        if limit ≤ 0 || rootish || d.isEmpty then .unspec
        else Legacy.c12 listed escapes s12 obs
      let _ := rest
      Heap.tagCorr (Heap.Lg.heapAgrees neg limit d p) <| reply id corr (showObs model) [("C18", v18), ("C12", v12), ("C04", if obs.bad then .viol "panic-or-hang" else .ok)]
        ("L/" ++ specClass (if limit > 0 then s12 else s) ++ "/" ++ obsClass obs ++ "/" ++ kindsSig p ++ (if limit > 0 then "L" else ""))
    | _, _, _, _ => bad id "lapply-fields"
  | _ => bad id "lapply-arity"

def handleLEqual (id : String) (args : List String) : String :=
  match args with
  | a :: b :: "=>" :: r :: _ =>
    match hexField a, hexField b with
    | some x, some y =>
      let got : Option Bool := if r = "t" then some true else if r = "f" then some false else none
      let v19 : Verdict :=
        match got, parseValueOf x, parseValueOf y with
        | some g, some va, some vb =>
          if !(va.isContainer && vb.isContainer) || x.contains 92 || y.contains 92 || !(va.noDup && vb.noDup)
              || !isValidUtf8 x || !isValidUtf8 y then .unspec
          else if Value.eqv va vb then (if g then .ok else .viol "equal-values-reported-different")
          else if Spec.numEqv va vb then .unspec
          else (if g then .viol "different-values-reported-equal" else .ok)
        | _, _, _ => .unspec
      let m := Legacy.equal x y
      reply id (got = some m) (if m then "t" else "f")
        [("C19", v19), ("C04", if got.isNone then .viol "panic-or-hang" else .ok)] ("L/" ++ r)
    | _, _ => bad id "lequal-fields"
  | _ => bad id "lequal-arity"

def handleLMerge (id : String) (args : List String) : String :=
  match args with
  | d :: p :: "=>" :: r :: _ =>
    match hexField d, hexField p, parseObs r with
    | some doc, some patch, some (obs, _) =>
      let v19 : Verdict :=
        match parseValueOf doc, parseValueOf patch with
        | some dv, some pv =>
          if dv.isNull || !(pv.isObj || pv.isArr) || !(dv.noDup && pv.noDup) then .unspec
          else (match obs with
                | .ok out => (match parseValueOf out with
                              | some v => if Value.eqv (Spec.merge dv pv) v then .ok else .viol "value"
                              | none => .viol "output-not-json")
                | _ => .viol "should-succeed")
        | _, _ => .unspec
      let m := obsOf (Legacy.mergePatch doc patch)
      reply id (sameObs m obs) (showObs m)
        [("C19", v19), ("C04", if obs.bad then .viol "panic-or-hang" else .ok)] ("L/" ++ obsClass obs)
    | _, _, _ => bad id "lmerge-fields"
  | _ => bad id "lmerge-arity"

def handleLCompose (id : String) (args : List String) : String :=
  match args with
  | [a, b, d, "=>", r1, r2, r3] =>
    match hexField a, hexField b, hexField d, parseObs r1, parseObs r2, parseObs r3 with
    | some p1, some p2, some doc, some (comb, _), some (seq, _), some (app, _) =>
      let v19 : Verdict :=
        match parseValueOf p2 with
        | some v2 => if v2.isObj then c07 p1 p2 doc comb seq app else .unspec
        | none => .unspec
      -- the three calls the harness made, replayed on the model
      let mComb := obsOf (Legacy.mergeMergePatches p1 p2)
      let mSeq : Obs := match Legacy.mergePatch doc p1 with
        | .ok mid => obsOf (Legacy.mergePatch mid p2)
        | _ => .err '-'
      let mApp : Obs := match mComb with
        | .ok c => obsOf (Legacy.mergePatch doc c)
        | _ => .err '-'
      let corr := sameObs mComb comb && sameObs mSeq seq && sameObs mApp app
      reply id corr (showObs mComb ++ "|" ++ showObs mSeq ++ "|" ++ showObs mApp)
        [("C19", v19), ("C04", if comb.bad || seq.bad || app.bad then .viol "panic-or-hang" else .ok)] ("L/" ++ obsClass comb)
    | _, _, _, _, _, _ => bad id "lcompose-fields"
  | _ => bad id "lcompose-arity"

def handleLCreate (id : String) (args : List String) : String :=
  match args with
  | a :: b :: "=>" :: r1 :: r2 :: _ =>
    match hexField a, hexField b, parseObs r1, parseObs r2 with
    | some x, some y, some (pobs, _), some (mobs, _) =>
      -- C19's domain (object roots, numbers spelled the way Go prints a float64) is decided inside `c19create`
      let v19 : Verdict := Legacy.c19create x y pobs mobs
      -- the model speaks for every input (numbers are float64: `JP/Legacy/MergeFloat.lean`); `sig` tells
      -- the inputs of the former integer-only model from the others
      let modelled := Legacy.createModelled x y
      let mP := obsOf (Legacy.createMergePatchF x y)
      let mM : Obs := match mP with
        | .ok pb => obsOf (Legacy.mergePatch x pb)
        | _ => .err '-'
      let corr := sameObs mP pobs && sameObs mM mobs
      reply id corr (showObs mP ++ "|" ++ showObs mM)
        [("C19", v19), ("C04", if pobs.bad || mobs.bad then .viol "panic-or-hang" else .ok)]
        ("L/" ++ obsClass pobs ++ (if modelled then "" else "/float"))
    | _, _, _, _ => bad id "lcreate-fields"
  | _ => bad id "lcreate-arity"

def handle1 (line : String) : String :=
  match line.splitOn " " with
  | "APPLY" :: id :: args => handleApply id args
  | "ALLOW" :: id :: args => handleAllow id args
  | "TESTTR" :: id :: args => handleTestTr id args
  | "EQUAL" :: id :: args => handleEqual id args
  | "MERGE" :: id :: args => handleMerge id args
  | "COMPOSE" :: id :: args => handleCompose id args
  | "CREATE" :: id :: args => handleCreate id args
  | "DECODE" :: id :: args => handleDecode id args
  | "VALID" :: id :: args => handleValid id args
  | "ENTRY" :: id :: args => handleEntry id args
  | "SCAN" :: args => handleScan args
  | "CODEC" :: id :: "typeddec" :: args => Codec.TDec.handleTypedDec id args
  | "CODEC" :: id :: "typed" :: args => Codec.Typed.handleTyped id args
  | "CODEC" :: id :: args => handleCodec id args
  | "STD" :: id :: args => handleStd id args
  | "FLOAT" :: id :: args => Codec.Float.handleFloat id args
  | "STREAM" :: id :: args => handleStream id args
  | "CLI" :: id :: args => handleCli id args
  | "LAPPLY" :: id :: args => handleLApply id args
  | "LEQUAL" :: id :: args => handleLEqual id args
  | "LMERGE" :: id :: args => handleLMerge id args
  | "LCOMPOSE" :: id :: args => handleLCompose id args
  | "LCREATE" :: id :: args => handleLCreate id args
  | _ => "? corr=diff bad-request=unknown-command"

end Driver
end JP

namespace JP
namespace Driver

/-- a request executed inside a call history carries `hist=diff` when the same call printed
something else earlier in the history: that is a C09 violation whatever the model says -/
def handle (line : String) : String :=
  let r := handle1 line
  let toks := line.splitOn " "
  let mark (r : String) (clause : String) : String :=
    (r.replace "C09=ok" ("C09=viol:" ++ clause))
      ++ (if (r.splitOn "C09=").length > 1 then "" else " C09=viol:" ++ clause)
  let r := if toks.contains "hist=diff" then mark r "result-depends-on-call-history" else r
  -- an earlier result that the caller still holds changed under a later call
  if toks.contains "held=changed" then mark r "earlier-result-overwritten" else r

end Driver
end JP
