import JP.Check
import JP.Lemmas.EqualDup
import JP.Lemmas.ScanSim

/-!
# C06 on ALL texts — `Equal` is reflexive, symmetric and transitive, repeated member names included

`JP.Props.C06` proves the three laws under `valueOf.noDup` (no repeated member names) by way of
`Value.eqv`.  Here they are proved for `Impl.eqCC` itself, with no side condition: an object is
compared through its map view (one entry per distinct decoded name, the last occurrence wins,
`Impl.eqCCM_iff`), and "equally many distinct names + every name of the left is a name of the
right" gives the converse inclusion by pigeonhole on the duplicate-free name lists
(`Impl.eqCCM_dkeys_superset`).  Which VALUE a text with repeated names denotes stays open; that
`Equal` is an equivalence on such texts does not.

The run-time predicate `c06rel` (symmetry on every pair, reflexivity on every well-formed text)
can therefore never report a violation on the model: `c06rel_sound`.
-/

namespace JP
namespace C06

/-! ### syntax trees -/

/-- `lazyNode.equal` is symmetric on all syntax trees -/
theorem eqCC_symm_all (a b : Cst) : Impl.eqCC a b = Impl.eqCC b a :=
  Impl.eqCC_symm_eq a b

/-- `lazyNode.equal` is reflexive on all syntax trees -/
theorem eqCC_refl_all (a : Cst) : Impl.eqCC a a = true :=
  Impl.eqCC_refl_all a

/-- `lazyNode.equal` is transitive on all syntax trees -/
theorem eqCC_trans_all (a b c : Cst) (h1 : Impl.eqCC a b = true) (h2 : Impl.eqCC b c = true) :
    Impl.eqCC a c = true :=
  Impl.eqCC_trans_all a b c h1 h2

/-- the object case spelled out: the map of the left is included in the map of the right -/
theorem eqCC_obj_iff (ms os : List (Bytes × Cst)) :
    Impl.eqCC (.obj ms) (.obj os) = true ↔
      Impl.uniqueCount ms = Impl.uniqueCount os ∧
      ∀ k v, Impl.lookupLastC k ms = some v →
        ∃ ov, Impl.lookupLastC k os = some ov ∧ Impl.eqCC v ov = true := by
  simp only [Impl.eqCC, Bool.and_eq_true, beq_iff_eq, Impl.eqCCM_iff]

/-- on equal objects the two maps have the same names -/
theorem eqCC_obj_same_names (ms os : List (Bytes × Cst))
    (h : Impl.eqCC (.obj ms) (.obj os) = true) (k : Bytes) :
    Impl.hasKeyC k ms = Impl.hasKeyC k os := by
  simp only [Impl.eqCC, Bool.and_eq_true, beq_iff_eq] at h
  have h1 := Impl.eqCCM_dkeys_subset ms os h.2 k
  have h2 := Impl.eqCCM_dkeys_superset ms os h.1 h.2 k
  rw [Impl.mem_dkeys, Impl.mem_dkeys] at h1 h2
  cases ha : Impl.hasKeyC k ms <;> cases hb : Impl.hasKeyC k os <;> simp_all

/-! ### byte strings -/

/-- `Equal(a, b) = Equal(b, a)` for ALL pairs of byte strings -/
theorem equal_symm_all (a b : Bytes) : Impl.equal a b = Impl.equal b a := by
  unfold Impl.equal
  cases hva : Scanner.valid a <;> cases hvb : Scanner.valid b <;>
    cases hpa : parseCst a <;> cases hpb : parseCst b <;> simp [eqCC_symm_all]

/-- `Equal(a, a)` for every text the scanner and the reference parser accept -/
theorem equal_refl_all (a : Bytes) (hva : Scanner.valid a = true) (hpa : (parseCst a).isSome) :
    Impl.equal a a = true := by
  unfold Impl.equal
  cases hp : parseCst a with
  | none => rw [hp] at hpa; cases hpa
  | some ca => simp [hva, eqCC_refl_all]

/-- `Equal(a, a)` for every well-formed text (the scanner gate discharged by `valid_iff_parseCst`) -/
theorem equal_refl_wf (a : Bytes) (hpa : (parseCst a).isSome) : Impl.equal a a = true :=
  equal_refl_all a (by rw [Scanner.valid_iff_parseCst]; exact hpa) hpa

/-- `Equal` is transitive on ALL triples of byte strings -/
theorem equal_trans_all (a b c : Bytes) (hab : Impl.equal a b = true) (hbc : Impl.equal b c = true) :
    Impl.equal a c = true := by
  unfold Impl.equal at hab hbc ⊢
  cases hva : Scanner.valid a <;> cases hvb : Scanner.valid b <;> cases hvc : Scanner.valid c <;>
    simp only [hva, hvb, hvc, Bool.not_true, Bool.not_false, Bool.or_false, Bool.or_true,
      Bool.false_eq_true, if_true, if_false] at hab hbc ⊢ <;>
    try (first | cases hab | cases hbc)
  cases hpa : parseCst a with
  | none => simp [hpa] at hab
  | some ca =>
    cases hpb : parseCst b with
    | none => simp [hpa, hpb] at hab
    | some cb =>
      cases hpc : parseCst c with
      | none => simp [hpb, hpc] at hbc
      | some cc =>
        simp only [hpa, hpb, hpc] at hab hbc ⊢
        exact eqCC_trans_all ca cb cc hab hbc

/-- the run-time predicate of C06 accepts the model's answers on EVERY pair of byte strings:
the swapped call gives the same answer, and a text that parses is equal to itself -/
theorem c06rel_sound (a b : Bytes) :
    c06rel a (some (Impl.equal a b)) (some (Impl.equal b a)) (some (Impl.equal a a)) = .ok := by
  unfold c06rel
  rw [equal_symm_all a b]
  simp only [ne_eq, not_true_eq_false, if_false]
  cases hp : parseCst a with
  | none => simp [parseValueOf, hp]
  | some ca =>
    have : Impl.equal a a = true := equal_refl_wf a (by rw [hp]; rfl)
    simp [parseValueOf, hp, this]

/-! ### examples with repeated names: `{"a":1,"a":2}`, `{"a":2}`, `{"a":2,"b":3}`, `{"b":3,"a":1,"a":2,"b":3}` -/

def dupA : Cst := .obj [(ascii "a", .lit (ascii "1")), (ascii "a", .lit (ascii "2"))]
def dupB : Cst := .obj [(ascii "a", .lit (ascii "2"))]
def dupC : Cst := .obj [(ascii "a", .lit (ascii "2")), (ascii "b", .lit (ascii "3"))]
def dupD : Cst := .obj [(ascii "b", .lit (ascii "0")), (ascii "\\u0061", .lit (ascii "1")),
  (ascii "a", .lit (ascii "2")), (ascii "b", .lit (ascii "3"))]

/-- the last occurrence wins: equal, in both orders -/
example : Impl.eqCC dupA dupB = true ∧ Impl.eqCC dupB dupA = true := by decide +kernel
/-- a different number of distinct names: different, in both orders -/
example : Impl.eqCC dupA dupC = false ∧ Impl.eqCC dupC dupA = false := by decide +kernel
/-- the first occurrence does not count -/
example : Impl.eqCC dupA (.obj [(ascii "a", .lit (ascii "1"))]) = false ∧
    Impl.eqCC (.obj [(ascii "a", .lit (ascii "1"))]) dupA = false := by decide +kernel
/-- repeated (and differently spelled) names on both sides -/
example : Impl.eqCC dupD dupC = true ∧ Impl.eqCC dupC dupD = true := by decide +kernel
example : Impl.eqCC dupA dupA = true ∧ Impl.eqCC dupD dupD = true := by decide +kernel
/-- a transitive chain through a text with repeated names -/
example : Impl.eqCC dupC dupD = true ∧ Impl.eqCC dupD (.obj [(ascii "b", .lit (ascii "3")),
    (ascii "a", .lit (ascii "2"))]) = true ∧
    Impl.eqCC dupC (.obj [(ascii "b", .lit (ascii "3")), (ascii "a", .lit (ascii "2"))]) = true := by
  decide +kernel
/-- the distinct names of `dupD` -/
example : Impl.dkeys [(ascii "b", Cst.lit (ascii "0")), (ascii "\\u0061", .lit (ascii "1")),
    (ascii "a", .lit (ascii "2")), (ascii "b", .lit (ascii "3"))] = [ascii "a", ascii "b"] := by
  decide +kernel

/-- the same on texts -/
example : Impl.equal (ascii "{\"a\":1,\"a\":2}") (ascii "{\"a\":2}") = true ∧
    Impl.equal (ascii "{\"a\":2}") (ascii "{\"a\":1,\"a\":2}") = true := by decide +kernel
example : Impl.equal (ascii "{\"a\":1,\"a\":2}") (ascii "{\"a\":2,\"b\":3}") = false ∧
    Impl.equal (ascii "{\"a\":2,\"b\":3}") (ascii "{\"a\":1,\"a\":2}") = false := by decide +kernel
example : Impl.equal (ascii "{\"a\":1,\"a\":2}") (ascii "{\"a\":1,\"a\":2}") = true := by
  decide +kernel
example : c06rel (ascii "{\"a\":1,\"a\":2}")
    (some (Impl.equal (ascii "{\"a\":1,\"a\":2}") (ascii "{\"a\":2}")))
    (some (Impl.equal (ascii "{\"a\":2}") (ascii "{\"a\":1,\"a\":2}")))
    (some (Impl.equal (ascii "{\"a\":1,\"a\":2}") (ascii "{\"a\":1,\"a\":2}"))) = .ok := by
  decide +kernel
/-- the predicate is not vacuous: an asymmetric or irreflexive answer is reported -/
example : c06rel (ascii "{\"a\":1,\"a\":2}") (some true) (some false) (some true)
    = .viol "not-symmetric" := by decide +kernel
example : c06rel (ascii "{\"a\":1,\"a\":2}") (some true) (some true) (some false)
    = .viol "not-reflexive" := by decide +kernel

-- #print axioms eqCC_symm_all
-- #print axioms eqCC_refl_all
-- #print axioms eqCC_trans_all
-- #print axioms equal_symm_all
-- #print axioms equal_refl_all
-- #print axioms equal_trans_all
-- #print axioms c06rel_sound

end C06
end JP
