import JP.Lemmas.CloseClass
import JP.Props.C01bytes
import JP.Props.C08

/-!
# C08, error classes: which error `Apply` returns when the specification fails

`C01.applyOps_refines` says that the engine fails when the specification does.  Here the failing
branch is strengthened: with `ErrC c e` (`JP/Lemmas/CloseClass.lean`)

* `e = ErrTestFailed` exactly when the cause is `testUnequal`,
* `e = AccumulatedCopySizeError` exactly when the cause is `copyLimit` (with `o.limit = 0`, the
  restriction inherited from C01, neither occurs: `no_copyLimit`),
* the causes `absentMember` and `parentUnreachable` give `ErrMissing`.

Per operation (`opAdd_class` … `opCopy_class` in `CloseClass.lean`, re-exported below), for
`applyOp`, for a whole patch (`classified`), and for `applyBytes` on texts (`classified_bytes`).

Since the RFC 6901 repair (D20) the specification decides the pointers without a leading `/`
(`path`, or the `from` of move / copy): `parentUnreachable`, `findObject` finds nothing,
`ErrMissing`; a move / copy whose *destination* is such a pointer reports the failure of its
source half first, as the library does.  The theorems cover them with unchanged statements (closed
examples at the end of the file).
-/

namespace JP.C08
open JP Impl

/-- the class relation between the specification's cause and the engine's error -/
abbrev ErrC := Impl.ErrC

/-! ### per operation (re-exports) -/

theorem opAdd_class {o : Opts} {e : Bool} {r : Root} {op : Op} {sop : Spec.Op} {cv : Cst}
    (sz acc : Nat) (he : o.ensure = false) (hr : InvRoot e r)
    (hk : sop.kind = .add) (hpath : sop.path = op.path)
    (hval : op.value = some cv) (hsval : sop.value = some cv.valueOf) (hc : Inv e (.raw cv))
    (hq : ∀ toks, Spec.parsePointer op.path = some toks → ∀ t ∈ toks, QK e t = true) {c : Spec.Cause}
    (h : Spec.applyOp (specOpts o) sz acc (den r.con) sop = .fail c) :
    ∃ er, opAdd o r op = .err er ∧ ErrC c er :=
  Impl.opAdd_class sz acc he hr hk hpath hval hsval hc hq h

theorem opRemove_class {o : Opts} {e : Bool} {r : Root} {op : Op} {sop : Spec.Op}
    (sz acc : Nat) (hr : InvRoot e r) (hk : sop.kind = .remove) (hpath : sop.path = op.path)
    {c : Spec.Cause} (h : Spec.applyOp (specOpts o) sz acc (den r.con) sop = .fail c) :
    ∃ er, opRemove o r op = .err er ∧ ErrC c er :=
  Impl.opRemove_class sz acc hr hk hpath h

theorem opReplace_class {o : Opts} {e : Bool} {r : Root} {op : Op} {sop : Spec.Op} {cv : Cst}
    (sz acc : Nat) (hr : InvRoot e r)
    (hk : sop.kind = .replace) (hpath : sop.path = op.path)
    (hval : op.value = some cv) (hsval : sop.value = some cv.valueOf) (hc : Inv e (.raw cv))
    (hq : ∀ toks, Spec.parsePointer op.path = some toks → ∀ t ∈ toks, QK e t = true) {c : Spec.Cause}
    (h : Spec.applyOp (specOpts o) sz acc (den r.con) sop = .fail c) :
    ∃ er, opReplace o r op = .err er ∧ ErrC c er :=
  Impl.opReplace_class sz acc hr hk hpath hval hsval hc hq h

theorem opMove_class {o : Opts} {e : Bool} {r : Root} {op : Op} {sop : Spec.Op}
    (sz acc : Nat) (hr : InvRoot e r)
    (hk : sop.kind = .move) (hpath : sop.path = op.path) (hfrm : sop.frm = op.frm.getD [])
    (hq : ∀ toks, Spec.parsePointer op.path = some toks → ∀ t ∈ toks, QK e t = true) {c : Spec.Cause}
    (h : Spec.applyOp (specOpts o) sz acc (den r.con) sop = .fail c) :
    ∃ er, opMove o r op = .err er ∧ ErrC c er :=
  Impl.opMove_class sz acc hr hk hpath hfrm hq h

theorem opTest_class {o : Opts} {e : Bool} {r : Root} {op : Op} {sop : Spec.Op}
    (sz acc : Nat) (hr : InvRoot e r)
    (hk : sop.kind = .test) (hpath : sop.path = op.path)
    (hsval : sop.value = op.value.map Cst.valueOf)
    (hov : ∀ c, op.value = some c → c.valueOf.noDup = true) {c : Spec.Cause}
    (h : Spec.applyOp (specOpts o) sz acc (den r.con) sop = .fail c) :
    ∃ er, opTest o r op = .err er ∧ ErrC c er :=
  Impl.opTest_class C01.eqSpec sz acc hr hk hpath hsval hov h

theorem opCopy_class {o : Opts} {r : Root} {op : Op} {sop : Spec.Op} {f : Bytes}
    (sz acc : Nat) (acci : Int) (hl : o.limit = 0) (hr : InvRoot o.esc r)
    (hk : sop.kind = .copy) (hpath : sop.path = op.path) (hfo : op.frm = some f) (hfrm : sop.frm = f)
    (hq : ∀ toks, Spec.parsePointer op.path = some toks → ∀ t ∈ toks, QK o.esc t = true) {c : Spec.Cause}
    (h : Spec.applyOp (specOpts o) sz acc (den r.con) sop = .fail c) :
    ∃ er, opCopy o r acci op = .err er ∧ ErrC c er :=
  Impl.opCopy_class sz acc acci hl hr hk hpath hfo hfrm hq h

/-! ### one operation of a decoded patch -/

theorem liftAcc_err' {acc : Int} {x : Outcome Root} {er : Err} (h : x = .err er) : liftAcc acc x = .err er := by
  subst h; rfl

/-- one operation: the engine's error is in the class of the specification's cause -/
theorem applyOp_class (o : Impl.Opts) (ho : o.ensure = false) (hl : o.limit = 0)
    (r : Impl.Root) (hr : InvRoot o.esc r) (op : Impl.Op) (sop : Spec.Op)
    (hs : specOp op = some sop) (hop : C01.OpOK o.esc op) (sz acc : Nat) (acci : Int) {c : Spec.Cause}
    (h : Spec.applyOp (specOpts o) sz acc (den r.con) sop = .fail c) :
    ∃ er, Impl.applyOp o r acci op = .err er ∧ ErrC c er := by
  simp only [specOp] at hs
  cases hkind : specKind op.kind with
  | none => rw [hkind] at hs; cases hs
  | some k =>
    rw [hkind] at hs
    simp only [Option.some.injEq] at hs
    subst hs
    simp only [specKind] at hkind
    have hvalInv : ∀ cv, op.value = some cv → Inv o.esc (.raw cv) :=
      fun cv hc => (Inv_raw _ _).2 (hop.val cv hc)
    rw [applyOp_eq]
    by_cases h1 : op.kind = ascii "add"
    · simp only [h1, if_true, Option.some.injEq] at hkind
      subst hkind
      rw [if_pos h1]
      cases hv : op.value with
      | none =>
        rw [C01.spec_novalue (Or.inl rfl) (by simp [hv])] at h
        split at h
        · next hp =>
          cases h
          exact ⟨.missing, liftAcc_err' (Impl.opAdd_path_none o r op ho hp), Impl.ErrC_missing (Or.inr rfl)⟩
        · cases h
      | some cv =>
        obtain ⟨er, her, hcl⟩ := Impl.opAdd_class sz acc ho hr rfl rfl hv (by simp [hv]) (hvalInv cv hv) hop.toks h
        exact ⟨er, liftAcc_err' her, hcl⟩
    · simp only [h1, if_false] at hkind
      rw [if_neg h1]
      by_cases h2 : op.kind = ascii "remove"
      · simp only [h2, if_true, Option.some.injEq] at hkind
        subst hkind
        rw [if_pos h2]
        obtain ⟨er, her, hcl⟩ := Impl.opRemove_class sz acc hr rfl rfl h
        exact ⟨er, liftAcc_err' her, hcl⟩
      · simp only [h2, if_false] at hkind
        rw [if_neg h2]
        by_cases h3 : op.kind = ascii "replace"
        · simp only [h3, if_true, Option.some.injEq] at hkind
          subst hkind
          rw [if_pos h3]
          cases hv : op.value with
          | none =>
            rw [C01.spec_novalue (Or.inr rfl) (by simp [hv])] at h
            split at h
            · next hp =>
              cases h
              exact ⟨.missing, liftAcc_err' (Impl.opReplace_path_none o r op hp), Impl.ErrC_missing (Or.inr rfl)⟩
            · cases h
          | some cv =>
            obtain ⟨er, her, hcl⟩ := Impl.opReplace_class sz acc hr rfl rfl hv (by simp [hv]) (hvalInv cv hv) hop.toks h
            exact ⟨er, liftAcc_err' her, hcl⟩
        · simp only [h3, if_false] at hkind
          rw [if_neg h3]
          by_cases h4 : op.kind = ascii "move"
          · simp only [h4, if_true, Option.some.injEq] at hkind
            subst hkind
            rw [if_pos h4]
            obtain ⟨er, her, hcl⟩ := Impl.opMove_class sz acc hr rfl rfl rfl hop.toks h
            exact ⟨er, liftAcc_err' her, hcl⟩
          · simp only [h4, if_false] at hkind
            rw [if_neg h4]
            by_cases h5 : op.kind = ascii "copy"
            · simp only [h5, if_true, Option.some.injEq] at hkind
              subst hkind
              have h6 : op.kind ≠ ascii "test" := by rw [h5]; decide
              rw [if_neg h6, if_pos h5]
              cases hf : op.frm with
              | none => exact absurd hf (hop.frm h5)
              | some f =>
                exact Impl.opCopy_class sz acc acci hl hr rfl rfl hf (by simp [hf]) hop.toks h
            · simp only [h5, if_false] at hkind
              by_cases h6 : op.kind = ascii "test"
              · simp only [h6, if_true, Option.some.injEq] at hkind
                subst hkind
                rw [if_pos h6]
                obtain ⟨er, her, hcl⟩ := Impl.opTest_class C01.eqSpec sz acc hr rfl rfl rfl
                  (fun cv hc => (hop.val cv hc).1) h
                exact ⟨er, liftAcc_err' her, hcl⟩
              · simp only [h6, if_false] at hkind
                cases hkind

/-! ### a whole patch -/

/-- the patch-level statement on the engine's invariant -/
theorem classified_inv (o : Impl.Opts) (ho : o.ensure = false) (hl : o.limit = 0) (sizeAt : Nat → Nat) :
    ∀ (ops : List Impl.Op) (sops : List Spec.Op) (r : Impl.Root) (i acc : Nat) (acci : Int),
      InvRoot o.esc r → specOps ops = some sops → (∀ op ∈ ops, C01.OpOK o.esc op) →
      ∀ j c, Spec.applyFrom (specOpts o) sizeAt i acc (Impl.den r.con) sops = .fail j c →
        ∃ e, Impl.applyOps o r acci ops = .err e ∧ ErrC c e := by
  intro ops
  induction ops with
  | nil =>
    intro sops r i acc acci _ hs _ j c h
    simp only [specOps, Option.some.injEq] at hs
    subst hs
    simp [Spec.applyFrom] at h
  | cons op ops ih =>
    intro sops r i acc acci hr hs hops j c h
    simp only [specOps] at hs
    cases hso : specOp op with
    | none => rw [hso] at hs; cases hs
    | some s =>
      cases hss : specOps ops with
      | none => rw [hso, hss] at hs; cases hs
      | some ss =>
        rw [hso, hss] at hs
        simp only [Option.some.injEq] at hs
        subst hs
        have hop := hops op List.mem_cons_self
        have h1 := C01.applyOp_refines C01.eqSpec o ho hl r hr op s hso hop (sizeAt i) acc acci
        simp only [Spec.applyFrom] at h
        simp only [Impl.applyOps]
        cases hres : Spec.applyOp (specOpts o) (sizeAt i) acc (den r.con) s with
        | unspec => rw [hres] at h; cases h
        | fail c' =>
          rw [hres] at h
          simp only [Spec.Outcome.fail.injEq] at h
          obtain ⟨_, rfl⟩ := h
          obtain ⟨er, her, hcl⟩ := applyOp_class o ho hl r hr op s hso hop (sizeAt i) acc acci hres
          rw [her]
          exact ⟨er, rfl, hcl⟩
        | ok va =>
          obtain ⟨d, acc'⟩ := va
          rw [hres] at h1 h
          obtain ⟨r', hr', hinv, hden⟩ := h1
          obtain ⟨a, ha⟩ := C01.fstOut_ok hr'
          rw [ha]
          simp only at hden h ⊢
          rw [← hden] at h
          exact ih ss r' (i + 1) acc' a hinv hss (fun op' hm => hops op' (List.mem_cons_of_mem _ hm)) j c h

/-- **C08, error classes** (goal 3): under the hypotheses of `C01.applyOps_refines`, when the
specification fails at operation `j` with cause `c`, the engine returns an error `e` with

* `e = .testFailed ↔ c = .testUnequal`,
* `e = .copySize ↔ c = .copyLimit`,
* `c = .absentMember ∨ c = .parentUnreachable → e = .missing`,
* and, the limit being off, `c = .copyLimit` is impossible. -/
theorem classified (o : Impl.Opts) (ho : o.ensure = false) (hl : o.limit = 0)
    (r : Impl.Root) (hr : Impl.WFRoot r = true) (htx : Impl.TX o.esc r.con = true)
    (ops : List Impl.Op) (sops : List Spec.Op) (hops : specOps ops = some sops)
    (hv : ∀ op ∈ ops, ∀ c, op.value = some c → c.valueOf.noDup = true)
    (hcst : ∀ op ∈ ops, ∀ c, op.value = some c → Impl.CstOK o.esc c = true)
    (hq : ∀ op ∈ ops, ∀ toks, Spec.parsePointer op.path = some toks → ∀ t ∈ toks, Impl.QK o.esc t = true)
    (hfrm : ∀ op ∈ ops, op.kind = ascii "copy" → op.frm ≠ none)
    (sizeAt : Nat → Nat) (i acc : Nat) (acci : Int) (j : Nat) (c : Spec.Cause)
    (h : Spec.applyFrom (specOpts o) sizeAt i acc (Impl.den r.con) sops = .fail j c) :
    ∃ e, Impl.applyOps o r acci ops = .err e ∧
      (e = .testFailed ↔ c = .testUnequal) ∧ (e = .copySize ↔ c = .copyLimit) ∧
      (c = .absentMember ∨ c = .parentUnreachable → e = .missing) ∧ (c = .copyLimit → False) := by
  obtain ⟨e, he, h1, h2, h3⟩ := classified_inv o ho hl sizeAt ops sops r i acc acci
    ((InvRoot_iff _ _).2 ⟨hr, htx⟩) hops
    (fun op hop => ⟨fun c hc => ⟨hv op hop c hc, hcst op hop c hc⟩, hq op hop, hfrm op hop⟩) j c h
  refine ⟨e, he, h1, h2, h3, ?_⟩
  intro hc
  have := h2.2 hc
  subst this
  have hpos := (copySize_in_patch o ops r acci he).2
  omega

/-! ### at the level of bytes -/

/-- **C08, error classes, for `Patch.ApplyIndentWithOptions` on bytes**: under the hypotheses of
`C01.apply_bytes_refines`, when the specification fails at operation `j` with cause `c`,
`applyBytes` (any indent) returns an error of the class of `c` -/
theorem classified_bytes (o : Impl.Opts) (ho : o.ensure = false) (hl : o.limit = 0)
    (ind doc patch : Bytes) (c : Cst) (ops : List Impl.Op) (sops : List Spec.Op)
    (hdoc : parseCst doc = some c) (hnd : c.valueOf.noDup = true)
    (hpatch : Impl.decodePatch patch = .ok ops) (hs : specPatch patch = some sops)
    (hvnd : ∀ op ∈ ops, ∀ v, op.value = some v → v.valueOf.noDup = true)
    (sizeAt : Nat → Nat) (j : Nat) (cause : Spec.Cause)
    (h : Spec.apply (specOpts o) sizeAt c.valueOf sops = .fail j cause) :
    ∃ e, Impl.applyBytes o ind doc ops = .err e ∧
      (e = .testFailed ↔ cause = .testUnequal) ∧ (e = .copySize ↔ cause = .copyLimit) ∧
      (cause = .absentMember ∨ cause = .parentUnreachable → e = .missing) ∧ (cause = .copyLimit → False) := by
  have hops : specOps ops = some sops := by rw [← specPatch_eq_specOps hpatch]; exact hs
  simp only [Spec.apply] at h
  cases hcont : c.valueOf.isContainer with
  | false => simp [hcont] at h
  | true =>
    simp only [hcont, if_true] at h
    obtain ⟨con, _, hinv, hden, _, hok, _, heq⟩ :=
      C01.apply_bytes_setup o doc patch c ops hdoc hnd hcont hpatch hvnd
    rw [← hden] at h
    obtain ⟨e, he, h1, h2, h3⟩ := classified_inv o ho hl sizeAt ops sops (C01.rootOf doc c con) 0 0 0
      hinv hops hok j cause h
    refine ⟨e, by rw [heq ind, he], h1, h2, h3, ?_⟩
    intro hc
    have := h2.2 hc
    subst this
    have hpos := (copySize_in_patch o ops _ 0 he).2
    omega

theorem errFlag_T (e : Impl.Err) : errFlag e = 'T' ↔ e = .testFailed := by
  cases e <;> simp [errFlag]

theorem errFlag_C (e : Impl.Err) : errFlag e = 'C' ↔ e = .copySize := by
  cases e <;> simp [errFlag]

theorem errFlag_M (e : Impl.Err) : errFlag e = 'M' ↔ e = .missing := by
  cases e <;> simp [errFlag]

/-- **the model never violates C08 as the checker evaluates it** (clauses on the returned document
and on the truncated patch are harness-side: here `nilDoc = true`, no truncated run) -/
theorem c08_never_violated (o : Impl.Opts) (ho : o.ensure = false) (hl : o.limit = 0)
    (doc patch : Bytes) (ops : List Impl.Op) (hpatch : Impl.decodePatch patch = .ok ops)
    (hdepth : ∀ v, specApply o doc patch = .ok v → v.depth ≤ maxDepth) (clause : String) :
    c08 (specApply o doc patch) (obsOf (Impl.applyBytes o [] doc ops)) none true ≠ .viol clause := by
  have hck := C01.checker_cases o ho hl doc patch ops hpatch hdepth
  cases hres : specApply o doc patch with
  | unspec => simp [c08]
  | ok v =>
    rw [hres] at hck
    obtain ⟨out, h1, _, _⟩ := hck
    simp [c08, h1, obsOf]
  | fail j cause =>
    -- unfold `specApply` to reach the hypotheses of `classified_bytes`
    cases hdoc : parseCst doc with
    | none => simp [specApply, parseValueOf, hdoc] at hres
    | some c =>
      cases hs : specPatch patch with
      | none => simp [specApply, parseValueOf, hdoc, hs] at hres
      | some sops =>
        cases hnd : (c.valueOf.noDup && sops.all fun op => (op.value.map Value.noDup).getD true) with
        | false => simp [specApply, parseValueOf, hdoc, hs, hnd] at hres
        | true =>
          rw [C01.specApply_eq o doc patch c sops ops hdoc hs hpatch hnd] at hres
          simp only [Bool.and_eq_true, List.all_eq_true] at hnd
          have hops : specOps ops = some sops := by rw [← specPatch_eq_specOps hpatch]; exact hs
          have hvnd : ∀ op ∈ ops, ∀ v, op.value = some v → v.valueOf.noDup = true := by
            intro op hop v hv
            obtain ⟨sop, hm, hval⟩ := C01.specOps_values ops sops hops op hop
            have := hnd.2 sop hm
            rw [hval, hv] at this
            simpa using this
          obtain ⟨e, he, h1, h2, h3, _⟩ := classified_bytes o ho hl [] doc patch c ops sops hdoc hnd.1 hpatch hs
            hvnd _ j cause hres
          have p1 : (errFlag e = 'T') = (cause = .testUnequal) := propext ((errFlag_T e).trans h1)
          have p2 : (errFlag e = 'C') = (cause = .copyLimit) := propext ((errFlag_C e).trans h2)
          simp only [c08, he, obsOf, if_true, p1, p2, Verdict.and]
          by_cases hc : cause = .absentMember ∨ cause = .parentUnreachable
          · have := (errFlag_M e).2 (h3 hc)
            simp [hc, this, Verdict.and]
          · simp [hc, Verdict.and]

/-! ### the hypotheses are satisfiable -/

section Examples

/-- `{"a":{"x":1},"l":[1]}` -/
def exDocC : Bytes := ascii "{\"a\":{\"x\":1},\"l\":[1]}"
/-- a failing `test` -/
def exPatchT : Bytes := ascii "[{\"op\":\"test\",\"path\":\"/a/x\",\"value\":2}]"
/-- a `remove` of an absent member -/
def exPatchM : Bytes := ascii "[{\"op\":\"remove\",\"path\":\"/a/y\"}]"
/-- an `add` at an index out of range -/
def exPatchI : Bytes := ascii "[{\"op\":\"add\",\"path\":\"/l/5\",\"value\":0}]"

/-- a pointer without a leading `/` (D20) -/
def exPatchP : Bytes := ascii "[{\"op\":\"replace\",\"path\":\"a/x\",\"value\":2}]"
/-- a `move` whose source pointer has no leading `/` (D20) -/
def exPatchF : Bytes := ascii "[{\"op\":\"move\",\"from\":\"l/0\",\"path\":\"/a/y\"}]"
/-- a `copy` to a pointer without a leading `/` whose source index is out of range: the source
half comes first (D20) -/
def exPatchS : Bytes := ascii "[{\"op\":\"copy\",\"from\":\"/l/5\",\"path\":\"a\"}]"
/-- a `copy` to a pointer without a leading `/` whose source is there (D20) -/
def exPatchD : Bytes := ascii "[{\"op\":\"copy\",\"from\":\"/l/0\",\"path\":\"a\"}]"

def exRun (patch : Bytes) : Option (Spec.Outcome × Impl.Outcome Bytes) :=
  match parseCst exDocC, Impl.decodePatch patch, specPatch patch with
  | some c, .ok ops, some sops =>
    some (Spec.apply (specOpts {}) (fun _ => 0) c.valueOf sops, Impl.applyBytes {} [] exDocC ops)
  | _, _, _ => none

/-- the three classes on concrete texts: cause `testUnequal` ↦ `ErrTestFailed`, `absentMember` ↦
`ErrMissing`, `badIndex` ↦ another error -/
example : (match exRun exPatchT with | some (.fail 0 .testUnequal, .err .testFailed) => true | _ => false) = true := by
  decide +kernel
example : (match exRun exPatchM with | some (.fail 0 .absentMember, .err .missing) => true | _ => false) = true := by
  decide +kernel
example : (match exRun exPatchI with | some (.fail 0 .badIndex, .err .invalidIndex) => true | _ => false) = true := by
  decide +kernel

/-- the inputs decided since D20: `parentUnreachable` ↦ `ErrMissing` (pointer without `/` in `path`,
in `from`, in the destination of a copy whose source is there), and the failing source half of a
copy to such a pointer first (`badIndex` ↦ `ErrInvalidIndex`) -/
example : (match exRun exPatchP with | some (.fail 0 .parentUnreachable, .err .missing) => true | _ => false) = true := by
  decide +kernel
example : (match exRun exPatchF with | some (.fail 0 .parentUnreachable, .err .missing) => true | _ => false) = true := by
  decide +kernel
example : (match exRun exPatchS with | some (.fail 0 .badIndex, .err .invalidIndex) => true | _ => false) = true := by
  decide +kernel
example : (match exRun exPatchD with | some (.fail 0 .parentUnreachable, .err .missing) => true | _ => false) = true := by
  decide +kernel

end Examples

/-
#print axioms JP.C08.applyOp_class
#print axioms JP.C08.classified
#print axioms JP.C08.classified_bytes
#print axioms JP.C08.c08_never_violated
-/

end JP.C08
